(* C14G — property statements for the CFG-pass validator (only restatements + Print Assumptions + non-vacuity). *)
From Coq Require Import ZArith NArith Bool List String Lia.
From Verif Require Import C14G.CfgSem C14G.CfgCheck C14G.CfgSemProofs C14G.ChainProofs C14G.FlipProofs C14G.TailProofs C14G.SplitProofs C14G.PhiProofs C14G.AsmCfg C14G.AsmCfgProofs.
Import ListNotations.
Open Scope string_scope.
Open Scope list_scope.

(* An accepted (before, after, certificate) of SimplifyCFGPass / BranchOptimizationPass / TailMergePass /
   CFGNormalization: for EVERY meaning of the opaque instructions (osem), every label valuation and machine-state type,
   `after` and `before` are related by a bisimulation that starts at equal initial configurations: each step of one is
   answered by a (possibly empty) sequence of steps of the other producing the same events. *)
Theorem cfg_check_sound : forall before after c,
  cfg_check before after c = true -> forall M osem lv, bisimilar M osem lv after before.
Proof.
  intros f g [ch|F|al|F] H M osem lv; simpl in *.
  - eapply chain_check_sound; eauto.
  - eapply flip_check_sound; eauto.
  - eapply tail_check_sound; eauto.
  - eapply split_check_sound; eauto.
Qed.
Print Assumptions cfg_check_sound.

(* consequence: the same observable traces (sequence of executed opaque instructions with their operand values,
   results and machine states; halting instructions included), for every initial environment and machine state:
   every execution of `after` corresponds to an execution of `before` with the same events, and vice versa *)
Theorem cfg_check_traces : forall before after c,
  cfg_check before after c = true ->
  forall M osem lv env m tr, trace_of M osem lv after env m tr <-> trace_of M osem lv before env m tr.
Proof. intros f g c H M osem lv. apply bisimilar_traces. eapply cfg_check_sound; eauto. Qed.
Print Assumptions cfg_check_traces.

(* the polarity of BranchOptimizationPass, in isolation: `jnz x t f` with x = iszero y takes t exactly when
   `jnz y f t` does *)
Theorem jnz_iszero_polarity : forall lv c y t f,
  targets lv (mkI "jnz" [OLit (isz (oval lv c y)); OLab t; OLab f] []) c = targets lv (mkI "jnz" [y; OLab f; OLab t] []) c.
Proof.
  intros lv c y t f. unfold targets. simpl. unfold isz. destruct (oval lv c y =? 0)%Z; reflexivity.
Qed.

(* Jump tables.  db / da = the block labels stored in the data segment before / after the pass (renamed by
   `_replace_all_labels`).  If data_check accepts as well, the bisimulation relates, for EVERY block that ends in `djmp`
   and every table index i whose entry is one of the djmp's listed targets, "control enters da[i] from that block" in
   `after` with "control enters db[i] from that block" in `before`: choosing table entry i leads to bisimilar
   continuations (the refinement of the model's "djmp goes to any listed label" by the table index).
   `stands c after a bn`: the after-block a holds the code of the before-block bn. *)
Definition stands (c : cert) (after : func) (a bn : N) : Prop :=
  match c with CChain ch => nth_block after a <> [] /\ bn = last (chain_of ch a) a | _ => a = bn end.
Theorem cfg_check_data_sound : forall before after db da c,
  cfg_check before after c = true -> data_check before after db da c = true ->
  forall M osem lv, exists R, bisimulation M osem lv after before R /\
    forall a bn Tb i tb ta env m,
      stands c after a bn -> (N.to_nat bn < List.length before)%nat -> djmp_of (nth_block before bn) = Some Tb ->
      nth_error db i = Some tb -> nth_error da i = Some ta -> In tb (labels_of (i_args Tb)) ->
      R (Run ta 0 (Some a) env m) (Run tb 0 (Some bn) env m).
Proof.
  intros f g db da [ch|F|al|F] H Hd M osem lv; simpl in *.
  - destruct (chain_bisimulation_data M osem lv f g ch H db da Hd) as [R [HR HT]]. exists R. split; auto.
    intros a bn Tb i tb ta env m [Hne E] _ Hdj H1 H2 Hin. subst bn. eapply HT; eauto.
  - destruct (flip_bisimulation_data M osem lv f g F H db da Hd) as [R [HR HT]]. exists R. split; auto.
    intros a bn Tb i tb ta env m E _ Hdj H1 H2 Hin. subst bn. eapply HT; eauto.
  - destruct (tail_bisimulation_data M osem lv f g al H db da Hd) as [R [HR HT]]. exists R. split; auto.
    intros a bn Tb i tb ta env m E _ Hdj H1 H2 Hin. subst bn. eapply HT; eauto.
  - destruct (split_bisimulation_data M osem lv f g F H db da Hd) as [R [HR HT]]. exists R. split; auto.
    intros a bn Tb i tb ta env m E Hr Hdj H1 H2 Hin. subst bn. eapply HT; eauto.
Qed.
Print Assumptions cfg_check_data_sound.

(* the sequential phis of CfgSem.v are the parallel phis of RangeFix.v / the back end on every function the validator is
   applied to (phis_indep is evaluated together with cfg_check on every instance) *)
Theorem phis_indep_parallel : forall M osem lv (f : func) b q c m mv,
  phis_indep f = true ->
  moves_of q (leading_phis (nth_block f b)) = Some mv -> NoDup (map fst mv) ->
  exists c', steps M osem lv f (Run b 0 (Some q) c m) [] (Run b (List.length (leading_phis (nth_block f b))) (Some q) c' m) /\
             (forall x, ~ In x (map fst mv) -> c' x = c x) /\ (forall o v, In (o, v) mv -> c' o = oval lv c v).
Proof.
  intros M osem lv f b q c m mv Hi Hm Hnd. apply phis_sequential_is_parallel; auto.
  unfold phis_indep in Hi. rewrite forallb_forall in Hi. unfold nth_block.
  destruct (nth_in_or_default (N.to_nat b) f []) as [H|H]; [now apply Hi | rewrite H; reflexivity].
Qed.
Print Assumptions phis_indep_parallel.

(* ------------------------------------------------------------------ non-vacuity *)
(* runtime: x = calldataload 0; jnz x @1 @2 / 1: jmp @3 / 2: z = add y 1; jmp @3 / 3: p = phi @1 y @2 z; mstore; stop
   SimplifyCFG threads block 1 away: the phi's label becomes @0 *)
Definition ex_f : func :=
  [[mkI "calldataload" [OLit 0] [0%N]; mkI "calldataload" [OLit 32] [1%N]; mkI "jnz" [OVar 0; OLab 1; OLab 2] []];
   [mkI "jmp" [OLab 3] []];
   [mkI "add" [OLit 1; OVar 1] [2%N]; mkI "jmp" [OLab 3] []];
   [mkI "phi" [OLab 1; OVar 1; OLab 2; OVar 2] [3%N]; mkI "mstore" [OVar 3; OLit 0] []; mkI "stop" [] []]].
Definition ex_g : func :=
  [[mkI "calldataload" [OLit 0] [0%N]; mkI "calldataload" [OLit 32] [1%N]; mkI "jnz" [OVar 0; OLab 3; OLab 2] []];
   [];
   [mkI "add" [OLit 1; OVar 1] [2%N]; mkI "jmp" [OLab 3] []];
   [mkI "phi" [OLab 0; OVar 1; OLab 2; OVar 2] [3%N]; mkI "mstore" [OVar 3; OLit 0] []; mkI "stop" [] []]].
Example ex_chain_accepts : cfg_check ex_f ex_g (CChain [[]; []; []; []]) = true.
Proof. vm_compute. reflexivity. Qed.
(* the phi operand taken from the wrong edge is rejected *)
Definition ex_g_bad : func :=
  [[mkI "calldataload" [OLit 0] [0%N]; mkI "calldataload" [OLit 32] [1%N]; mkI "jnz" [OVar 0; OLab 3; OLab 2] []];
   [];
   [mkI "add" [OLit 1; OVar 1] [2%N]; mkI "jmp" [OLab 3] []];
   [mkI "phi" [OLab 0; OVar 2; OLab 2; OVar 2] [3%N]; mkI "mstore" [OVar 3; OLit 0] []; mkI "stop" [] []]].
Example ex_chain_rejects : cfg_check ex_f ex_g_bad (CChain [[]; []; []; []]) = false.
Proof. vm_compute. reflexivity. Qed.

(* branch optimisation: c = iszero a; jnz c @1 @2   ->   jnz a @2 @1 accepted; without swapping the targets: rejected *)
Definition ex_b : func :=
  [[mkI "calldataload" [OLit 0] [0%N]; mkI "iszero" [OVar 0] [1%N]; mkI "jnz" [OVar 1; OLab 1; OLab 2] []];
   [mkI "stop" [] []]; [mkI "invalid" [] []]].
Definition ex_b_ok : func :=
  [[mkI "calldataload" [OLit 0] [0%N]; mkI "iszero" [OVar 0] [1%N]; mkI "jnz" [OVar 0; OLab 2; OLab 1] []];
   [mkI "stop" [] []]; [mkI "invalid" [] []]].
Definition ex_b_bad : func :=
  [[mkI "calldataload" [OLit 0] [0%N]; mkI "iszero" [OVar 0] [1%N]; mkI "jnz" [OVar 0; OLab 1; OLab 2] []];
   [mkI "stop" [] []]; [mkI "invalid" [] []]].
Example ex_flip_accepts : cfg_check ex_b ex_b_ok (CFlip []) = true.
Proof. vm_compute. reflexivity. Qed.
Example ex_flip_rejects : cfg_check ex_b ex_b_bad (CFlip []) = false.
Proof. vm_compute. reflexivity. Qed.

(* the semantics is not empty: ex_f has an execution that reaches the `stop` through the threaded block, with the
   events calldataload, calldataload, mstore, stop (osem: every opaque instruction returns 7 and keeps the state) *)
Definition osem7 (op : string) (argv : list Z) (m : unit) (outv : list Z) (m' : unit) : Prop := Forall (fun v => v = 7%Z) outv.
Example ex_trace : exists tr, trace_of unit osem7 (fun _ => 0%Z) ex_f (fun _ => 0%Z) tt tr /\ List.length tr = 4%nat.
Proof.
  eexists. split.
  - eexists. unfold init.
    eapply ss_cons. { eapply (s_inst unit osem7 _ ex_f 0%N 0%nat None _ tt _ [7%Z] tt); [reflexivity|reflexivity|reflexivity|]. split; [reflexivity|]. cbv zeta. simpl. split; [repeat constructor | reflexivity]. }
    eapply ss_cons. { eapply (s_inst unit osem7 _ ex_f 0%N 1%nat None _ tt _ [7%Z] tt); [reflexivity|reflexivity|reflexivity|]. split; [reflexivity|]. cbv zeta. simpl. split; [repeat constructor | reflexivity]. }
    eapply ss_cons. { eapply (s_jump unit osem7 _ ex_f 0%N 2%nat None _ tt _ 1%N); [reflexivity|reflexivity|reflexivity|]. simpl. left. reflexivity. }
    eapply ss_cons. { eapply (s_jump unit osem7 _ ex_f 1%N 0%nat _ _ tt _ 3%N); [reflexivity|reflexivity|reflexivity|]. simpl. left. reflexivity. }
    eapply ss_cons. { eapply (s_phi unit osem7 _ ex_f 3%N 0%nat 1%N _ tt _ 3%N (OVar 1)); reflexivity. }
    eapply ss_cons. { eapply (s_inst unit osem7 _ ex_f 3%N 1%nat _ _ tt _ [] tt); [reflexivity|reflexivity|reflexivity|]. split; [reflexivity|]. cbv zeta. simpl. split; [constructor | reflexivity]. }
    eapply ss_cons. { eapply (s_inst unit osem7 _ ex_f 3%N 2%nat _ _ tt _ [] tt); [reflexivity|reflexivity|reflexivity|]. split; [reflexivity|]. cbv zeta. simpl. split; [constructor | reflexivity]. }
    apply ss_refl.
  - reflexivity.
Qed.

(* CFGNormalization: the critical edge 0 -> 2 gets the forwarding block 3 with a forwarding store *)
Definition ex_s : func :=
  [[mkI "calldataload" [OLit 0] [0%N]; mkI "jnz" [OVar 0; OLab 1; OLab 2] []];
   [mkI "add" [OLit 1; OVar 0] [1%N]; mkI "jnz" [OVar 1; OLab 2; OLab 1] []];
   [mkI "phi" [OLab 0; OVar 0; OLab 1; OVar 1] [2%N]; mkI "mstore" [OVar 2; OLit 0] []; mkI "stop" [] []]].
Definition ex_s_ok : func :=
  [[mkI "calldataload" [OLit 0] [0%N]; mkI "jnz" [OVar 0; OLab 1; OLab 3] []];
   [mkI "add" [OLit 1; OVar 0] [1%N]; mkI "jnz" [OVar 1; OLab 2; OLab 1] []];
   [mkI "phi" [OLab 3; OVar 9; OLab 1; OVar 1] [2%N]; mkI "mstore" [OVar 2; OLit 0] []; mkI "stop" [] []];
   [mkI "assign" [OVar 0] [9%N]; mkI "jmp" [OLab 2] []]].
Example ex_split_accepts : cfg_check ex_s ex_s_ok (CSplit [9%N]) = true.
Proof. vm_compute. reflexivity. Qed.
(* the phi label not updated: rejected *)
Definition ex_s_bad : func :=
  [[mkI "calldataload" [OLit 0] [0%N]; mkI "jnz" [OVar 0; OLab 1; OLab 3] []];
   [mkI "add" [OLit 1; OVar 0] [1%N]; mkI "jnz" [OVar 1; OLab 2; OLab 1] []];
   [mkI "phi" [OLab 0; OVar 9; OLab 1; OVar 1] [2%N]; mkI "mstore" [OVar 2; OLit 0] []; mkI "stop" [] []];
   [mkI "assign" [OVar 0] [9%N]; mkI "jmp" [OLab 2] []]].
Example ex_split_rejects : cfg_check ex_s ex_s_bad (CSplit [9%N]) = false.
Proof. vm_compute. reflexivity. Qed.

(* ------------------------------------------------------------------ code generation: control flow of the assembly *)
(* Accepted (function, emitted assembly, block positions): from the index where the lowering of a block's terminator
   starts, the pc machine's control steps (deterministic; they never touch the machine state: astep_ctl) lead exactly to
   the start of the block the Venom terminator selects for the value on top of the stack — `jnz`: the first label iff
   that value is non-zero — through absent jump-only blocks (res); a jump lands on a label item (JUMPDEST), a
   fall-through lands exactly where the successor starts; every label operand of a `djmp` has a JUMPDEST that the
   dynamic JUMP reaches when its address is on the stack. *)
Theorem asm_cfg_check_sound : forall f asm cert, asm_cfg_check f asm cert = true ->
  forall b s tb T, pos_of cert b = Some (s, tb) -> last_inst (nth_block f b) = Some T ->
    exists k neg, term_len f asm cert (nth_block f b) T tb = Some (k, neg) /\
    (* neg: the peephole fused the ISZERO of the lowering with the `c = iszero x` that ends the block; the stack holds x *)
    (neg = true -> cond_is_iszero (nth_block f b) = true) /\
    (forall top st t, vsel T (if neg then isz top else top) = Some t ->
       exists n sr, start_of cert (res f cert t) = Some sr /\
         csteps asm n (tb, if String.eqb (i_op T) "jnz" then top :: st else st) = Some (sr, st)) /\
    (i_op T = "djmp" -> forall t st, In t (labels_of (i_args T)) ->
       exists sr, start_of cert (res f cert t) = Some sr /\ nth_error asm sr = Some (ALabel (res f cert t)) /\
                  cstep asm (tb, Z.of_nat sr :: st) = Some (sr, st)).
Proof. intros f asm cert H. exact (term_lands f asm cert H). Qed.
Print Assumptions asm_cfg_check_sound.

(* layout: the code of two blocks never overlaps (each block is emitted once), the label of a block occurs only where
   the block starts (labels are unique), a block without code is a transparent jump-only block, the entry is present *)
Theorem asm_layout_sound : forall f asm cert, asm_cfg_check f asm cert = true ->
  (forall b b' s tb s' tb' e e', b <> b' -> pos_of cert b = Some (s, tb) -> pos_of cert b' = Some (s', tb') ->
      block_end f asm cert b = Some e -> block_end f asm cert b' = Some e' -> (e <= s' \/ e' <= s)%nat) /\
  (forall p l, nth_error asm p = Some (ALabel l) -> (N.to_nat l < List.length f)%nat -> start_of cert l = Some p) /\
  (forall b, (N.to_nat b < List.length f)%nat -> pos_of cert b = None -> exists t, transparent f b = Some t) /\
  pos_of cert 0 <> None.
Proof. intros f asm cert H. exact (layout_sound f asm cert H). Qed.
Print Assumptions asm_layout_sound.

(* 0: c = calldataload; jnz c @1 @2   1: stop   2: revert — emitted as  L0 op PUSHLABEL 1 JUMPI | L2 REVERT | L1 STOP *)
Definition ex_af : func :=
  [[mkI "calldataload" [OLit 0] [0%N]; mkI "jnz" [OVar 0; OLab 1; OLab 2] []]; [mkI "stop" [] []]; [mkI "revert" [] []]].
Definition ex_asm : list item :=
  [ALabel 0; AOp "CALLDATALOAD"; APushLabel 1; AJumpi; ALabel 2; AOp "REVERT"; ALabel 1; AOp "STOP"].
Definition ex_acert : list pos := [Some (0, 2); Some (6, 7); Some (4, 5)]%nat.
Example ex_asm_accepts : asm_cfg_check ex_af ex_asm ex_acert = true.
Proof. vm_compute. reflexivity. Qed.
(* targets swapped at emission: rejected *)
Definition ex_asm_bad : list item :=
  [ALabel 0; AOp "CALLDATALOAD"; APushLabel 2; AJumpi; ALabel 1; AOp "STOP"; ALabel 2; AOp "REVERT"].
Example ex_asm_rejects : asm_cfg_check ex_af ex_asm_bad [Some (0, 2); Some (4, 5); Some (6, 7)]%nat = false.
Proof. vm_compute. reflexivity. Qed.
Example ex_asm_run : csteps ex_asm 2 (2%nat, [5%Z]) = Some (6%nat, []) /\ csteps ex_asm 2 (2%nat, [0%Z]) = Some (4%nat, []).
Proof. vm_compute. split; reflexivity. Qed.
