(* C14G — BranchOptimizationPass: flip_check f g F = true  ->  g and f are bisimilar (same observable traces).
   The polarity: `jnz x t f` with x = iszero y goes to t iff y = 0, i.e. exactly when `jnz y f t` goes to t. *)
From Coq Require Import ZArith NArith Bool List String Lia.
From Verif Require Import Base.Word256 C14G.CfgSem C14G.CfgCheck C14G.CfgSemProofs.
Import ListNotations.
Open Scope string_scope.
Open Scope list_scope.

Definition jnz3 (x : operand) (t fl : N) : inst := mkI "jnz" [x; OLab t; OLab fl] [].

Lemma isz_zero v : (isz v =? 0)%Z = negb (v =? 0)%Z.
Proof. unfold isz. destruct (v =? 0)%Z; reflexivity. Qed.

Section FLIP.
  Variable M : Type.
  Variable osem : string -> list Z -> M -> list Z -> M -> Prop.
  Variable lv : N -> Z.
  Variables (f g : func) (F : list N).
  Hypothesis HC : flip_check f g F = true.
  Notation step := (step M osem lv).
  Notation steps := (steps M osem lv).

  Inductive blk_rel (fb ga : list inst) : Prop :=
  | br_same : ga = fb -> blk_rel fb ga
  | br_j1 pre xv y t fl : fb = pre ++ [jnz3 (OVar xv) t fl] -> iszero_src (rev pre) xv = Some y ->
                          ga = pre ++ [jnz3 y fl t] -> blk_rel fb ga
  | br_j2 pre x t fl n : fb = pre ++ [jnz3 x t fl] -> In n F ->
                         ga = pre ++ [mkI "iszero" [x] [n]; jnz3 (OVar n) fl t] -> blk_rel fb ga.

  Lemma flip_block_rel fb ga : flip_block F fb ga = true -> blk_rel fb ga.
  Proof.
    unfold flip_block. intros H. apply orb_true_iff in H as [H|H].
    - apply br_same. symmetry. eapply list_eqb_eq; eauto. apply inst_eqb_eq.
    - destruct (split_last fb) as [[pre jb]|] eqn:Efb; try discriminate. apply split_last_spec in Efb.
      destruct jb as [op args outs]. simpl in H.
      destruct args as [|x [|[| |t] [|[| |fl] [|]]]]; try discriminate.
      apply andb_true_iff in H as [H H2]. apply andb_true_iff in H as [Hop Hout].
      apply String.eqb_eq in Hop. destruct outs; try discriminate. subst op.
      apply orb_true_iff in H2 as [H2|H2].
      + destruct x as [|xv|]; try discriminate. destruct (iszero_src (rev pre) xv) as [y|] eqn:Ey; try discriminate.
        eapply br_j1; eauto. eapply list_eqb_eq; eauto. apply inst_eqb_eq.
      + destruct (split_last ga) as [[ga' ja]|] eqn:Ega; try discriminate. apply split_last_spec in Ega.
        destruct (split_last ga') as [[pre' za]|] eqn:Ega'; try discriminate. apply split_last_spec in Ega'.
        destruct (i_outs za) as [|n [|]] eqn:Eo; try discriminate.
        apply andb_true_iff in H2 as [H2 Hja]. apply andb_true_iff in H2 as [H2 Hza]. apply andb_true_iff in H2 as [Hn Hpre].
        apply memN_In in Hn. apply inst_eqb_eq in Hja, Hza. apply (list_eqb_eq _ inst_eqb_eq) in Hpre.
        subst. apply br_j2 with (pre := pre') (x := x) (t := t) (fl := fl) (n := n); auto.
        rewrite <- app_assoc. reflexivity.
  Qed.

  Lemma HC_parts : fresh_ok F f = true /\ forall2b (flip_block F) f g = true.
  Proof. unfold flip_check in HC. now apply andb_true_iff in HC. Qed.

  Lemma blocks_rel b : blk_rel (nth_block f b) (nth_block g b).
  Proof.
    destruct HC_parts as [_ H2]. pose proof (forall2b_length _ _ _ H2) as HL. unfold nth_block.
    destruct (nth_error f (N.to_nat b)) as [fb|] eqn:E.
    - destruct (forall2b_nth_ex _ _ _ _ _ H2 E) as [ga [Eg Hb]].
      rewrite (nth_error_nth _ _ _ E), (nth_error_nth _ _ _ Eg). now apply flip_block_rel.
    - apply nth_error_None in E. unfold func, block in *. rewrite (nth_overflow f) by lia. rewrite (nth_overflow g) by lia. now apply br_same.
  Qed.

  Lemma fresh_inst b k ins : nth_error (nth_block f b) k = Some ins -> inst_fresh F ins = true.
  Proof.
    destruct HC_parts as [H1 _]. unfold fresh_ok in H1. rewrite forallb_forall in H1. intros H.
    unfold nth_block in H. destruct (nth_in_or_default (N.to_nat b) f []) as [Hi|Hd].
    - specialize (H1 _ Hi). rewrite forallb_forall in H1. apply H1. eapply nth_error_In; eauto.
    - rewrite Hd in H. destruct k; discriminate.
  Qed.

  (* ---------------------------------------------------------------- available iszero facts (an invariant of f) *)
  Definition facts (b : N) (k : nat) (c : cenv) : Prop :=
    forall xv y, iszero_src (rev (firstn k (nth_block f b))) xv = Some y -> c xv = isz (oval lv c y).

  Lemma firstn_S_rev {A} (l : list A) k x : nth_error l k = Some x -> rev (firstn (S k) l) = x :: rev (firstn k l).
  Proof.
    revert k. induction l as [|a t IH]; intros [|k] H; simpl in *; try discriminate.
    - inversion H; subst. reflexivity.
    - rewrite (IH _ H). simpl. reflexivity.
  Qed.

  Lemma writes_false_oval ins y c vs : writes ins y = false -> oval lv (upds c (i_outs ins) vs) y = oval lv c y.
  Proof.
    destruct y; simpl; auto. intros H. apply upds_notin. intros Hi. apply memN_In in Hi. congruence.
  Qed.

  Lemma facts_next b k c ins c' :
    nth_error (nth_block f b) k = Some ins -> facts b k c ->
    (exists vs, c' = upds c (i_outs ins) vs /\
                (String.eqb (i_op ins) "iszero" = true -> forall y xv, i_args ins = [y] -> i_outs ins = [xv] -> vs = [isz (oval lv c y)])) ->
    facts b (S k) c'.
  Proof.
    intros Hn Hf [vs [Hc Hz]] xv y. rewrite (firstn_S_rev _ _ _ Hn). simpl.
    destruct (memN xv (i_outs ins)) eqn:Em.
    - destruct (i_args ins) as [|y0 [|]] eqn:Ea; try discriminate.
      destruct (String.eqb (i_op ins) "iszero" && list_eqb N.eqb (i_outs ins) [xv] && negb (operand_eqb y0 (OVar xv))) eqn:E; try discriminate.
      intros Hy; inversion Hy; subst y0; clear Hy.
      apply andb_true_iff in E as [E Hne]. apply andb_true_iff in E as [Hop Ho].
      apply (list_eqb_eq _ N_eqb_eq') in Ho. rewrite (Hz Hop y xv eq_refl Ho) in Hc. rewrite Ho in Hc. simpl in Hc. subst c'.
      assert (Hy : oval lv (upd c xv (isz (oval lv c y))) y = oval lv c y).
      { destruct y; simpl; auto. unfold upd. destruct (N.eqb x xv) eqn:E; auto. apply N.eqb_eq in E. subst.
        simpl in Hne. rewrite N.eqb_refl in Hne. discriminate. }
      rewrite Hy. unfold upd. now rewrite N.eqb_refl.
    - destruct (iszero_src (rev (firstn k (nth_block f b))) xv) as [y1|] eqn:E1; try discriminate.
      destruct (writes ins y1) eqn:Ew; try discriminate. intros Hy; inversion Hy; subst y1; clear Hy.
      subst c'. rewrite writes_false_oval by auto. rewrite upds_notin; auto.
      intros Hi. apply memN_In in Hi. congruence.
  Qed.

  Lemma facts_step b k p c m ev b' k' p' c' m' :
    step f (Run b k p c m) ev (Run b' k' p' c' m') -> facts b k c -> facts b' k' c'.
  Proof.
    intros Hs Hf. inversion Hs; subst.
    - eapply facts_next; eauto. exists [oval lv c v]. match goal with [ H : i_outs _ = _ |- _ ] => rewrite H end. split; auto.
      intros Hop. unfold is_phi in *. exfalso.
      match goal with [ H : String.eqb (i_op ins) "phi" = true |- _ ] => apply String.eqb_eq in H; rewrite H in Hop end. discriminate.
    - eapply facts_next; eauto. exists outv. split; auto. intros Hop y xv Ha Ho.
      match goal with [ H : exec _ _ _ _ _ _ _ _ _ |- _ ] => destruct H as [HL He] end. cbv zeta in He.
      apply String.eqb_eq in Hop. rewrite Hop, Ha in He. simpl in He. now destruct He as [He _].
    - intros xv y. rewrite firstn_O. simpl. discriminate.
  Qed.

  (* ---------------------------------------------------------------- the relation *)
  (* control never rests behind a terminating jnz *)
  Definition pos_ok (b : N) (k : nat) : Prop :=
    forall pre x t fl, nth_block f b = pre ++ [jnz3 x t fl] -> (k <= List.length pre)%nat.

  Inductive Rf : conf M -> conf M -> Prop :=
  | Rf_main b k p ca cb m : agree F ca cb -> facts b k cb -> pos_ok b k -> Rf (Run b k p ca m) (Run b k p cb m)
  | Rf_j2 b p ca cb m pre x t fl n :
      nth_block f b = pre ++ [jnz3 x t fl] -> In n F ->
      nth_block g b = pre ++ [mkI "iszero" [x] [n]; jnz3 (OVar n) fl t] ->
      agree F ca cb -> ca n = isz (oval lv cb x) ->
      Rf (Run b (S (List.length pre)) p ca m) (Run b (List.length pre) p cb m).

  Lemma nth_app_last {A} (pre : list A) x : nth_error (pre ++ [x]) (List.length pre) = Some x.
  Proof. rewrite nth_error_app2 by lia. now rewrite Nat.sub_diag. Qed.

  Lemma step_at_jnz (h : func) b k p c m x t fl ev X :
    nth_error (nth_block h b) k = Some (jnz3 x t fl) -> step h (Run b k p c m) ev X ->
    ev = [] /\ S k = List.length (nth_block h b) /\ X = Run (if (oval lv c x =? 0)%Z then fl else t) 0 (Some b) c m.
  Proof.
    intros Hn Hs. inversion Hs; subst; rewrite Hn in *;
      match goal with [ H : Some _ = Some _ |- _ ] => inversion H; subst; clear H end; try discriminate.
    match goal with [ H : In _ (targets _ _ _) |- _ ] => unfold targets in H; simpl in H; destruct H as [H|[]]; subst end.
    auto.
  Qed.
  Lemma jnz_step (h : func) b k p c m x t fl :
    nth_error (nth_block h b) k = Some (jnz3 x t fl) -> S k = List.length (nth_block h b) ->
    step h (Run b k p c m) [] (Run (if (oval lv c x =? 0)%Z then fl else t) 0 (Some b) c m).
  Proof. intros Hn HL. eapply s_jump; eauto. unfold targets. simpl. now left. Qed.

  Lemma facts0 b c : facts b 0 c.
  Proof. intros xv y. rewrite firstn_O. simpl. discriminate. Qed.
  Lemma pos_ok0 b : pos_ok b 0.
  Proof. intros pre x t fl _. lia. Qed.

  Lemma pos_ok_step b k p c m ev b' k' p' c' m' :
    step f (Run b k p c m) ev (Run b' k' p' c' m') -> pos_ok b k -> pos_ok b' k'.
  Proof.
    intros Hs Hp. inversion Hs; subst; try apply pos_ok0.
    - intros pre x t fl E. specialize (Hp _ _ _ _ E). destruct (Nat.eq_dec k (List.length pre)); [|lia]. subst k.
      match goal with [ H : nth_error _ _ = Some _ |- _ ] => rewrite E, nth_app_last in H; inversion H; subst end. discriminate.
    - intros pre x t fl E. specialize (Hp _ _ _ _ E). destruct (Nat.eq_dec k (List.length pre)); [|lia]. subst k.
      match goal with [ H : nth_error _ _ = Some _ |- _ ] => rewrite E, nth_app_last in H; inversion H; subst end. discriminate.
  Qed.

  Lemma oval_fresh ca cb b k ins o : agree F ca cb -> nth_error (nth_block f b) k = Some ins -> In o (i_args ins) -> oval lv ca o = oval lv cb o.
  Proof.
    intros Ha Hn Hi. eapply oval_agree; eauto. eapply existsb_false_in; [|eauto]. eapply inst_fresh_args. eapply fresh_inst; eauto.
  Qed.

  Lemma iszero_src_in r xv y : iszero_src r xv = Some y -> exists i, In i r /\ In y (i_args i).
  Proof.
    induction r as [|i r IH]; simpl; try discriminate. intros H.
    destruct (memN xv (i_outs i)).
    - destruct (i_args i) as [|y0 [|]] eqn:Ea; try discriminate.
      destruct (String.eqb (i_op i) "iszero" && list_eqb N.eqb (i_outs i) [xv] && negb (operand_eqb y0 (OVar xv))); try discriminate.
      inversion H; subst. exists i. split; [now left | rewrite Ea; now left].
    - destruct (iszero_src r xv) as [y1|] eqn:E1; try discriminate. destruct (writes i y1); try discriminate.
      inversion H; subst. destruct (IH eq_refl) as [i0 [H1 H2]]. exists i0. split; [now right | auto].
  Qed.

  (* a step at a position where both blocks have the same instruction *)
  Lemma common_fwd b k p ca cb m ev X ins :
    nth_error (nth_block g b) k = Some ins -> nth_error (nth_block f b) k = Some ins ->
    (S k = List.length (nth_block g b) <-> S k = List.length (nth_block f b)) ->
    agree F ca cb -> facts b k cb -> pos_ok b k -> step g (Run b k p ca m) ev X ->
    exists Y, steps f (Run b k p cb m) ev Y /\ Rf X Y.
  Proof.
    intros Hg Hf HL Ha Hfa Hp Hs.
    destruct (step_same_inst M osem lv g f F b k p ca cb m ev X ins Hg Hf (fresh_inst _ _ _ Hf) (proj1 HL) Ha Hs)
      as [b' [k' [p' [ca' [cb' [m' [HX [Hs' [Ha' _]]]]]]]]].
    subst X. eexists. split; [apply steps_one; eauto|]. apply Rf_main; auto; [eapply facts_step; eauto | eapply pos_ok_step; eauto].
  Qed.
  Lemma common_bwd b k p ca cb m ev Y ins :
    nth_error (nth_block g b) k = Some ins -> nth_error (nth_block f b) k = Some ins ->
    (S k = List.length (nth_block g b) <-> S k = List.length (nth_block f b)) ->
    agree F ca cb -> facts b k cb -> pos_ok b k -> step f (Run b k p cb m) ev Y ->
    exists X, steps g (Run b k p ca m) ev X /\ Rf X Y.
  Proof.
    intros Hg Hf HL Ha Hfa Hp Hs.
    destruct (step_same_inst M osem lv f g F b k p cb ca m ev Y ins Hf Hg (fresh_inst _ _ _ Hf) (proj2 HL) (agree_sym _ _ _ Ha) Hs)
      as [b' [k' [p' [cb' [ca' [m' [HY [Hs' [Ha' _]]]]]]]]].
    subst Y. eexists. split; [apply steps_one; eauto|].
    apply Rf_main; [now apply agree_sym | eapply facts_step; eauto | eapply pos_ok_step; eauto].
  Qed.

  Lemma step_pos (h : func) b k p c m ev X : step h (Run b k p c m) ev X -> exists ins, nth_error (nth_block h b) k = Some ins.
  Proof. intros Hs. inversion Hs; subst; eauto. Qed.

  (* the fact used by the bypassed iszero, at the jnz *)
  Lemma j1_fact b pre xv y t fl ca cb :
    nth_block f b = pre ++ [jnz3 (OVar xv) t fl] -> iszero_src (rev pre) xv = Some y -> agree F ca cb ->
    facts b (List.length pre) cb -> cb xv = isz (oval lv cb y) /\ oval lv ca y = oval lv cb y.
  Proof.
    intros Efb Ey Ha Hfa. split.
    - apply Hfa. rewrite Efb, firstn_app, Nat.sub_diag, firstn_O, app_nil_r, firstn_all. exact Ey.
    - destruct (iszero_src_in _ _ _ Ey) as [i [Hi Hyi]]. apply in_rev in Hi. apply In_nth_error in Hi as [kk Hkk].
      eapply (oval_fresh ca cb b kk i); eauto. rewrite Efb, nth_error_app1; auto. apply nth_error_Some. congruence.
  Qed.

  Lemma flip_fwd : sim M osem lv g f Rf.
  Proof.
    intros X Y ev X' HR Hs. destruct HR as [b k p ca cb m Ha Hfa Hp | b p ca cb m pre x t fl n Hfb Hn Hgb Ha Hcn].
    - destruct (step_pos _ _ _ _ _ _ _ _ Hs) as [ia Hia].
      destruct (blocks_rel b) as [E | pre xv y t fl Efb Ey Ega | pre x t fl n Efb Hn Ega].
      + rewrite E in *. eapply common_fwd; eauto; rewrite ?E; tauto.
      + assert (Hlen : List.length (nth_block g b) = List.length (nth_block f b)) by (rewrite Efb, Ega, !app_length; reflexivity).
        destruct (Nat.lt_ge_cases k (List.length pre)) as [Hk|Hk].
        * eapply common_fwd; eauto; [rewrite Efb, nth_error_app1 by auto; rewrite Ega, nth_error_app1 in Hia by auto; auto | rewrite Hlen; tauto].
        * assert (k = List.length pre) by (specialize (Hp _ _ _ _ Efb); lia). subst k.
          assert (Hg : nth_error (nth_block g b) (List.length pre) = Some (jnz3 y fl t)) by (rewrite Ega; apply nth_app_last).
          assert (Hf : nth_error (nth_block f b) (List.length pre) = Some (jnz3 (OVar xv) t fl)) by (rewrite Efb; apply nth_app_last).
          destruct (step_at_jnz _ _ _ _ _ _ _ _ _ _ _ Hg Hs) as [He [HL HX]]. subst ev X'.
          destruct (j1_fact _ _ _ _ _ _ _ _ Efb Ey Ha Hfa) as [Hfact Hy].
          eexists. split; [apply steps_one; apply jnz_step; eauto; rewrite <- Hlen; auto|].
          simpl. rewrite Hfact, isz_zero, Hy. destruct (oval lv cb y =? 0)%Z; simpl; apply Rf_main; auto using facts0, pos_ok0.
      + destruct (Nat.lt_ge_cases k (List.length pre)) as [Hk|Hk].
        * eapply common_fwd; eauto; [rewrite Efb, nth_error_app1 by auto; rewrite Ega, nth_error_app1 in Hia by auto; auto |].
          rewrite Efb, Ega, !app_length. simpl. lia.
        * assert (k = List.length pre) by (specialize (Hp _ _ _ _ Efb); lia). subst k.
          (* the inserted iszero: the original function does not move *)
          inversion Hs; subst;
            match goal with [ H : nth_error (nth_block g b) _ = Some _ |- _ ] => rewrite Ega, nth_error_app2, Nat.sub_diag in H by lia; simpl in H; inversion H; subst; clear H end;
            try discriminate.
          match goal with [ H : exec _ _ _ _ _ _ _ _ _ |- _ ] => destruct H as [HL He] end. cbv zeta in He. simpl in He.
          destruct He as [Ho [Hm He]]. subst. simpl.
          eexists. split; [constructor|]. eapply Rf_j2; eauto.
          -- now apply agree_upd_l.
          -- unfold upd. rewrite N.eqb_refl. f_equal. eapply (oval_fresh ca cb b (List.length pre)); eauto.
             rewrite Efb. apply nth_app_last. simpl. now left.
    - assert (Hg : nth_error (nth_block g b) (S (List.length pre)) = Some (jnz3 (OVar n) fl t)).
      { rewrite Hgb, nth_error_app2 by lia. replace (S (List.length pre) - List.length pre)%nat with 1%nat by lia. reflexivity. }
      assert (Hf : nth_error (nth_block f b) (List.length pre) = Some (jnz3 x t fl)) by (rewrite Hfb; apply nth_app_last).
      destruct (step_at_jnz _ _ _ _ _ _ _ _ _ _ _ Hg Hs) as [He [HL HX]]. subst ev X'.
      eexists. split; [apply steps_one; apply jnz_step; eauto; rewrite Hfb, app_length; simpl; lia|].
      simpl. rewrite Hcn, isz_zero. destruct (oval lv cb x =? 0)%Z; simpl; apply Rf_main; auto using facts0, pos_ok0.
  Qed.

  Lemma flip_bwd : sim M osem lv f g (fun y x => Rf x y).
  Proof.
    intros Y X ev Y' HR Hs. destruct HR as [b k p ca cb m Ha Hfa Hp | b p ca cb m pre x t fl n Hfb Hn Hgb Ha Hcn].
    - destruct (step_pos _ _ _ _ _ _ _ _ Hs) as [ib Hib].
      destruct (blocks_rel b) as [E | pre xv y t fl Efb Ey Ega | pre x t fl n Efb Hn Ega].
      + eapply common_bwd; eauto; rewrite ?E; tauto.
      + assert (Hlen : List.length (nth_block g b) = List.length (nth_block f b)) by (rewrite Efb, Ega, !app_length; reflexivity).
        destruct (Nat.lt_ge_cases k (List.length pre)) as [Hk|Hk].
        * eapply common_bwd; eauto; [rewrite Ega, nth_error_app1 by auto; rewrite Efb, nth_error_app1 in Hib by auto; auto | rewrite Hlen; tauto].
        * assert (k = List.length pre) by (specialize (Hp _ _ _ _ Efb); lia). subst k.
          assert (Hg : nth_error (nth_block g b) (List.length pre) = Some (jnz3 y fl t)) by (rewrite Ega; apply nth_app_last).
          assert (Hf : nth_error (nth_block f b) (List.length pre) = Some (jnz3 (OVar xv) t fl)) by (rewrite Efb; apply nth_app_last).
          destruct (step_at_jnz _ _ _ _ _ _ _ _ _ _ _ Hf Hs) as [He [HL HX]]. subst ev Y'.
          destruct (j1_fact _ _ _ _ _ _ _ _ Efb Ey Ha Hfa) as [Hfact Hy].
          eexists. split; [apply steps_one; apply jnz_step; eauto; rewrite Hlen; auto|].
          simpl. rewrite Hfact, isz_zero, Hy. destruct (oval lv cb y =? 0)%Z; simpl; apply Rf_main; auto using facts0, pos_ok0.
      + destruct (Nat.lt_ge_cases k (List.length pre)) as [Hk|Hk].
        * eapply common_bwd; eauto; [rewrite Ega, nth_error_app1 by auto; rewrite Efb, nth_error_app1 in Hib by auto; auto |].
          rewrite Efb, Ega, !app_length. simpl. lia.
        * assert (k = List.length pre) by (specialize (Hp _ _ _ _ Efb); lia). subst k.
          assert (Hf : nth_error (nth_block f b) (List.length pre) = Some (jnz3 x t fl)) by (rewrite Efb; apply nth_app_last).
          destruct (step_at_jnz _ _ _ _ _ _ _ _ _ _ _ Hf Hs) as [He [HL HX]]. subst ev Y'.
          assert (Hx : oval lv ca x = oval lv cb x).
          { eapply (oval_fresh ca cb b (List.length pre)); eauto. simpl. now left. }
          assert (Hg1 : nth_error (nth_block g b) (List.length pre) = Some (mkI "iszero" [x] [n])).
          { rewrite Ega, nth_error_app2, Nat.sub_diag by lia. reflexivity. }
          assert (Hg2 : nth_error (nth_block g b) (S (List.length pre)) = Some (jnz3 (OVar n) fl t)).
          { rewrite Ega, nth_error_app2 by lia. replace (S (List.length pre) - List.length pre)%nat with 1%nat by lia. reflexivity. }
          eexists. split.
          -- change (@nil (event M)) with (@nil (event M) ++ []). eapply ss_cons.
             ++ eapply (s_inst M osem lv g b (List.length pre) p ca m _ [isz (oval lv ca x)] m []); eauto.
                split; [reflexivity|]. cbv zeta. simpl. auto.
             ++ apply steps_one. apply jnz_step; eauto. rewrite Ega, app_length. simpl. lia.
          -- simpl. unfold upd at 1. rewrite N.eqb_refl, isz_zero, Hx.
             destruct (oval lv cb x =? 0)%Z; simpl; apply Rf_main; auto using facts0, pos_ok0, agree_upd_l.
    - assert (Hg : nth_error (nth_block g b) (S (List.length pre)) = Some (jnz3 (OVar n) fl t)).
      { rewrite Hgb, nth_error_app2 by lia. replace (S (List.length pre) - List.length pre)%nat with 1%nat by lia. reflexivity. }
      assert (Hf : nth_error (nth_block f b) (List.length pre) = Some (jnz3 x t fl)) by (rewrite Hfb; apply nth_app_last).
      destruct (step_at_jnz _ _ _ _ _ _ _ _ _ _ _ Hf Hs) as [He [HL HX]]. subst ev Y'.
      eexists. split; [apply steps_one; apply jnz_step; eauto; rewrite Hgb, app_length; simpl; lia|].
      simpl. rewrite Hcn, isz_zero. destruct (oval lv cb x =? 0)%Z; simpl; apply Rf_main; auto using facts0, pos_ok0.
  Qed.

  Theorem flip_bisimilar : bisimilar M osem lv g f.
  Proof.
    exists Rf. split; [|split; [apply flip_fwd | apply flip_bwd]].
    intros c m. apply Rf_main; auto using agree_refl, facts0, pos_ok0.
  Qed.
  Theorem flip_bisimulation_data db da :
    flip_data_check f db da = true ->
    exists R, bisimulation M osem lv g f R /\
      forall b i tb ta c m, nth_error db i = Some tb -> nth_error da i = Some ta ->
        R (Run ta 0 (Some b) c m) (Run tb 0 (Some b) c m).
  Proof.
    intros H. unfold flip_data_check in H. apply (list_eqb_eq _ N_eqb_eq') in H. subst da. exists Rf. split.
    - split; [|split; [apply flip_fwd | apply flip_bwd]]. intros c m. apply Rf_main; auto using agree_refl, facts0, pos_ok0.
    - intros b i tb ta c m H1 H2. rewrite H1 in H2. inversion H2; subst. apply Rf_main; auto using agree_refl, facts0, pos_ok0.
  Qed.
End FLIP.

Theorem flip_check_sound f g F :
  flip_check f g F = true -> forall M osem lv, bisimilar M osem lv g f.
Proof. intros H M osem lv. eapply flip_bisimilar; eauto. Qed.
