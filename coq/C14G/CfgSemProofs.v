(* C14G — general lemmas: boolean equalities, list helpers, step sequences, and the step from a pair of simulation
   diagrams to equality of observable traces. *)
From Coq Require Import ZArith NArith Bool List String Lia.
From Verif Require Import C14G.CfgSem C14G.CfgCheck.
Import ListNotations.
Open Scope string_scope.
Open Scope list_scope.

Lemma operand_eqb_eq a b : operand_eqb a b = true -> a = b.
Proof.
  destruct a, b; simpl; intros H; try discriminate.
  - apply Z.eqb_eq in H; congruence.
  - apply N.eqb_eq in H; congruence.
  - apply N.eqb_eq in H; congruence.
Qed.
Lemma operand_eqb_refl a : operand_eqb a a = true.
Proof. destruct a; simpl; [apply Z.eqb_refl | apply N.eqb_refl | apply N.eqb_refl]. Qed.

Lemma list_eqb_eq {A} (e : A -> A -> bool) (He : forall a b, e a b = true -> a = b) l1 :
  forall l2, list_eqb e l1 l2 = true -> l1 = l2.
Proof.
  induction l1 as [|a t IH]; intros [|b t2]; simpl; intros H; try discriminate; auto.
  apply andb_true_iff in H as [H1 H2]. f_equal; auto.
Qed.
Lemma N_eqb_eq' a b : N.eqb a b = true -> a = b.
Proof. apply N.eqb_eq. Qed.

Lemma inst_eqb_eq a b : inst_eqb a b = true -> a = b.
Proof.
  unfold inst_eqb. intros H. apply andb_true_iff in H as [H H3]. apply andb_true_iff in H as [H1 H2].
  apply String.eqb_eq in H1. apply (list_eqb_eq _ operand_eqb_eq) in H2. apply (list_eqb_eq _ N_eqb_eq') in H3.
  destruct a, b; simpl in *; congruence.
Qed.

Lemma opt_operand_eqb_eq a b : opt_operand_eqb a b = true -> a = b.
Proof. destruct a, b; simpl; intros H; try discriminate; auto. f_equal. now apply operand_eqb_eq. Qed.

Lemma memN_In x l : memN x l = true <-> In x l.
Proof.
  unfold memN. rewrite existsb_exists. split.
  - intros [y [Hy He]]. apply N.eqb_eq in He. now subst.
  - intros H. exists x. split; auto. apply N.eqb_refl.
Qed.

(* ------------------------------------------------------------------ lists *)
Lemma forall2b_length {A B} (p : A -> B -> bool) l1 : forall l2, forall2b p l1 l2 = true -> List.length l1 = List.length l2.
Proof. induction l1; intros [|b t]; simpl; intros H; try discriminate; auto. apply andb_true_iff in H as [_ H]. f_equal; auto. Qed.
Lemma forall2b_nth {A B} (p : A -> B -> bool) l1 :
  forall l2 k a b, forall2b p l1 l2 = true -> nth_error l1 k = Some a -> nth_error l2 k = Some b -> p a b = true.
Proof.
  induction l1 as [|x t IH]; intros [|y t2] k a b H Ha Hb; simpl in H; try discriminate.
  - destruct k; discriminate.
  - apply andb_true_iff in H as [H1 H2]. destruct k; simpl in *.
    + congruence.
    + eauto.
Qed.
Lemma forall2b_nth_ex {A B} (p : A -> B -> bool) l1 l2 k a :
  forall2b p l1 l2 = true -> nth_error l1 k = Some a -> exists b, nth_error l2 k = Some b /\ p a b = true.
Proof.
  intros H Ha. pose proof (forall2b_length _ _ _ H) as HL.
  destruct (nth_error l2 k) as [b|] eqn:Hb.
  - exists b; split; auto. eapply forall2b_nth; eauto.
  - apply nth_error_None in Hb. assert (k < List.length l1)%nat by (apply nth_error_Some; congruence). lia.
Qed.
Lemma forall2b_nth_ex_r {A B} (p : A -> B -> bool) l1 l2 k b :
  forall2b p l1 l2 = true -> nth_error l2 k = Some b -> exists a, nth_error l1 k = Some a /\ p a b = true.
Proof.
  intros H Hb. pose proof (forall2b_length _ _ _ H) as HL.
  destruct (nth_error l1 k) as [a|] eqn:Ha.
  - exists a; split; auto. eapply forall2b_nth; eauto.
  - apply nth_error_None in Ha. assert (k < List.length l2)%nat by (apply nth_error_Some; congruence). lia.
Qed.

Lemma split_last_spec {A} (l : list A) p x : split_last l = Some (p, x) -> l = p ++ [x].
Proof.
  revert p x. induction l as [|a t IH]; intros p x H; simpl in H; try discriminate.
  destruct t as [|b t'].
  - inversion H; subst; reflexivity.
  - destruct (split_last (b :: t')) as [[p' y]|] eqn:E; try discriminate. inversion H; subst.
    simpl. f_equal. apply IH. reflexivity.
Qed.
Lemma split_last_app {A} (p : list A) x : split_last (p ++ [x]) = Some (p, x).
Proof.
  induction p as [|a t IH]; simpl; auto. rewrite IH. destruct (t ++ [x]) eqn:E; auto.
  destruct t; discriminate.
Qed.
Lemma split_last_none {A} (l : list A) : split_last l = None -> l = [].
Proof.
  destruct l as [|a t]; auto. intros H. exfalso.
  assert (exists p x, a :: t = p ++ [x]) as [p [x E]].
  { destruct (@exists_last _ (a :: t)) as [p [x E]]; [discriminate | eauto]. }
  rewrite E, split_last_app in H. discriminate.
Qed.

Lemma forallb_seq (p : nat -> bool) n : forallb p (seq 0 n) = true -> forall i, (i < n)%nat -> p i = true.
Proof. intros H i Hi. rewrite forallb_forall in H. apply H. apply in_seq. lia. Qed.

Lemma nth_block_in_range (f : func) (b : N) : nth_block f b <> [] -> (N.to_nat b < List.length f)%nat.
Proof.
  unfold nth_block. intros H. destruct (Nat.lt_ge_cases (N.to_nat b) (List.length f)); auto.
  rewrite nth_overflow in H; auto. congruence.
Qed.

(* ------------------------------------------------------------------ step sequences and simulations *)
Section STEPS.
  Variable M : Type.
  Variable osem : string -> list Z -> M -> list Z -> M -> Prop.
  Variable lv : N -> Z.
  Notation conf := (conf M).
  Notation step := (step M osem lv).
  Notation steps := (steps M osem lv).

  Lemma steps_one f x e y : step f x e y -> steps f x e y.
  Proof. intros H. rewrite <- (app_nil_r e). econstructor; eauto. constructor. Qed.
  Lemma steps_trans f x e1 y e2 z : steps f x e1 y -> steps f y e2 z -> steps f x (e1 ++ e2) z.
  Proof.
    induction 1; intros H2; simpl; auto. rewrite <- app_assoc. econstructor; eauto.
  Qed.
  Lemma steps_step f x e1 y e2 z : steps f x e1 y -> step f y e2 z -> steps f x (e1 ++ e2) z.
  Proof. intros H1 H2. eapply steps_trans; eauto. now apply steps_one. Qed.
  Lemma steps_nil_trans f x y e z : steps f x [] y -> steps f y e z -> steps f x e z.
  Proof. intros H1 H2. change e with ([] ++ e). eapply steps_trans; eauto. Qed.

  (* the two diagrams: every step of one function is answered by a (possibly empty) sequence of steps of the other
     with the same events, and the configurations stay related *)
  Definition sim (fa fb : func) (R : conf -> conf -> Prop) : Prop :=
    forall x y e x', R x y -> step fa x e x' -> exists y', steps fb y e y' /\ R x' y'.
  Definition bisimulation (fa fb : func) (R : conf -> conf -> Prop) : Prop :=
    (forall c m, R (init M c m) (init M c m)) /\ sim fa fb R /\ sim fb fa (fun y x => R x y).
  Definition bisimilar (fa fb : func) : Prop := exists R, bisimulation fa fb R.

  Lemma sim_star fa fb R : sim fa fb R -> forall x e x', steps fa x e x' -> forall y, R x y -> exists y', steps fb y e y' /\ R x' y'.
  Proof.
    intros HS x e x' H. induction H; intros y0 HR.
    - exists y0; split; auto. constructor.
    - destruct (HS _ _ _ _ HR H) as [y1 [H1 HR1]]. destruct (IHsteps _ HR1) as [y2 [H2 HR2]].
      exists y2; split; auto. eapply steps_trans; eauto.
  Qed.

  Theorem bisimilar_traces fa fb : bisimilar fa fb -> forall c m tr, trace_of M osem lv fa c m tr <-> trace_of M osem lv fb c m tr.
  Proof.
    intros [R [Hi [Hf Hb]]] c m tr. unfold trace_of. split; intros [x Hx].
    - destruct (sim_star _ _ _ Hf _ _ _ Hx _ (Hi c m)) as [y [Hy _]]. eauto.
    - destruct (sim_star _ _ _ Hb _ _ _ Hx _ (Hi c m)) as [y [Hy _]]. eauto.
  Qed.
End STEPS.

(* ------------------------------------------------------------------ environments that agree outside a set of variables *)
Definition agree (F : list N) (c1 c2 : cenv) : Prop := forall x, ~ In x F -> c1 x = c2 x.

Lemma agree_refl F c : agree F c c.
Proof. intros x _. reflexivity. Qed.
Lemma agree_sym F c1 c2 : agree F c1 c2 -> agree F c2 c1.
Proof. intros H x Hx. symmetry. auto. Qed.
Lemma agree_upd F c1 c2 x v : agree F c1 c2 -> agree F (upd c1 x v) (upd c2 x v).
Proof. intros H y Hy. unfold upd. destruct (N.eqb y x); auto. Qed.
Lemma agree_upd_l F c1 c2 n v : In n F -> agree F c1 c2 -> agree F (upd c1 n v) c2.
Proof.
  intros Hn H y Hy. unfold upd. destruct (N.eqb y n) eqn:E; auto. apply N.eqb_eq in E. subst. contradiction.
Qed.
Lemma agree_upds F outs : forall vs c1 c2, agree F c1 c2 -> agree F (upds c1 outs vs) (upds c2 outs vs).
Proof. induction outs as [|o t IH]; intros [|v vt] c1 c2 H; simpl; auto. apply IH. now apply agree_upd. Qed.
Lemma upds_notin outs : forall vs c x, ~ In x outs -> upds c outs vs x = c x.
Proof.
  induction outs as [|o t IH]; intros [|v vt] c x Hx; simpl; auto.
  rewrite IH by (intros H; apply Hx; now right). unfold upd.
  destruct (N.eqb x o) eqn:E; auto. apply N.eqb_eq in E. subst. exfalso. apply Hx. now left.
Qed.

Lemma var_in_false F o : var_in F o = false -> match o with OVar x => ~ In x F | _ => True end.
Proof. destruct o; simpl; auto. intros H Hi. apply memN_In in Hi. congruence. Qed.

Section AGREE.
  Variable M : Type.
  Variable osem : string -> list Z -> M -> list Z -> M -> Prop.
  Variable lv : N -> Z.
  Notation step := (step M osem lv).

  Lemma oval_agree F c1 c2 o : agree F c1 c2 -> var_in F o = false -> oval lv c1 o = oval lv c2 o.
  Proof. intros H Ho. apply var_in_false in Ho. destruct o; simpl; auto. Qed.
  Lemma ovals_agree F c1 c2 args : agree F c1 c2 -> existsb (var_in F) args = false -> map (oval lv c1) args = map (oval lv c2) args.
  Proof.
    intros H. induction args as [|a t IH]; simpl; auto. intros Hx. apply orb_false_iff in Hx as [Ha Ht].
    f_equal; auto. eapply oval_agree; eauto.
  Qed.
  Lemma inst_fresh_args F ins : inst_fresh F ins = true -> existsb (var_in F) (i_args ins) = false.
  Proof. unfold inst_fresh. intros H. apply andb_true_iff in H as [H _]. now apply negb_true_iff in H. Qed.

  Lemma phi_src_in l : forall p v, phi_src l p = Some v -> In v l.
  Proof.
    assert (G : forall n l, (List.length l <= n)%nat -> forall p v, phi_src l p = Some v -> In v l).
    { induction n as [|n IH]; intros l0 HL p v H.
      - destruct l0; simpl in *; [discriminate | lia].
      - destruct l0 as [|a [|b t]]; simpl in H; try discriminate.
        + destruct a; discriminate.
        + destruct a; try discriminate. destruct (N.eqb l0 p).
          * inversion H; subst. right; now left.
          * right; right. eapply IH; eauto. simpl in HL. lia. }
    intros p v. eapply G. apply le_n.
  Qed.
  Lemma existsb_false_in {A} (p : A -> bool) l x : existsb p l = false -> In x l -> p x = false.
  Proof.
    intros H Hi. destruct (p x) eqn:E; auto. assert (existsb p l = true) by (apply existsb_exists; eauto). congruence.
  Qed.

  Lemma exec_agree F ins c1 c2 m outv m' ev :
    agree F c1 c2 -> inst_fresh F ins = true -> exec M osem lv ins c1 m outv m' ev -> exec M osem lv ins c2 m outv m' ev.
  Proof.
    intros H Hf [HL He]. split; auto. cbv zeta in *.
    rewrite <- (ovals_agree F c1 c2) by (auto using inst_fresh_args). exact He.
  Qed.

  Lemma targets_agree F ins c1 c2 : agree F c1 c2 -> inst_fresh F ins = true -> targets lv ins c1 = targets lv ins c2.
  Proof.
    intros H Hf. apply inst_fresh_args in Hf. unfold targets.
    destruct (String.eqb (i_op ins) "jmp"); auto. destruct (String.eqb (i_op ins) "jnz"); auto.
    destruct (i_args ins) as [|cond [|[] [|[] [|]]]]; auto.
    simpl in Hf. apply orb_false_iff in Hf as [Hc _]. now rewrite (oval_agree F c1 c2 cond H Hc).
  Qed.

  (* the same instruction at the same position of two functions, in environments that agree outside F *)
  Lemma step_same_inst (f1 f2 : func) F b k p c1 c2 m ev X ins :
    nth_error (nth_block f1 b) k = Some ins -> nth_error (nth_block f2 b) k = Some ins -> inst_fresh F ins = true ->
    (S k = List.length (nth_block f1 b) -> S k = List.length (nth_block f2 b)) -> agree F c1 c2 ->
    step f1 (Run b k p c1 m) ev X ->
    exists b' k' p' c1' c2' m', X = Run b' k' p' c1' m' /\ step f2 (Run b k p c2 m) ev (Run b' k' p' c2' m') /\ agree F c1' c2'
      /\ (b' = b /\ k' = S k /\ p' = p \/ k' = 0%nat /\ p' = Some b).
  Proof.
    intros H1 H2 Hf HL Ha Hs. inversion Hs; subst; rewrite H1 in *;
      match goal with [ H : Some _ = Some _ |- _ ] => inversion H; subst; clear H end.
    - (* phi *)
      assert (Hv : oval lv c1 v = oval lv c2 v).
      { eapply oval_agree; eauto. eapply existsb_false_in; [apply inst_fresh_args; eauto|]. eapply phi_src_in; eauto. }
      do 6 eexists. split; [reflexivity|]. split; [eapply s_phi; eauto|]. split; [|left; auto].
      rewrite Hv. now apply agree_upd.
    - do 6 eexists. split; [reflexivity|]. split; [eapply s_inst; eauto; eapply exec_agree; eauto|]. split; [|left; auto].
      now apply agree_upds.
    - do 6 eexists. split; [reflexivity|]. split; [eapply s_jump; eauto; erewrite <- targets_agree; eauto|]. split; [|right; auto].
      auto.
  Qed.
End AGREE.

(* ------------------------------------------------------------------ inversion of a step by the kind of instruction *)
Lemma is_jump_not_phi i : is_jump i = true -> is_phi i = false.
Proof.
  unfold is_phi, is_jump. intros H. destruct (String.eqb (i_op i) "phi") eqn:E; auto.
  apply String.eqb_eq in E. rewrite E in H. discriminate.
Qed.

Section STEPINV.
  Variable M : Type.
  Variable osem : string -> list Z -> M -> list Z -> M -> Prop.
  Variable lv : N -> Z.
  Notation step := (step M osem lv).

  Lemma step_pos' (h : func) b k p c m ev X : step h (Run b k p c m) ev X -> exists ins, nth_error (nth_block h b) k = Some ins.
  Proof. intros Hs. inversion Hs; subst; eauto. Qed.

  Lemma phi_step_inv (h : func) b k p c m ins ev X :
    nth_error (nth_block h b) k = Some ins -> is_phi ins = true -> step h (Run b k p c m) ev X ->
    exists q o v, p = Some q /\ i_outs ins = [o] /\ phi_src (i_args ins) q = Some v /\ ev = [] /\
                  X = Run b (S k) p (upd c o (oval lv c v)) m.
  Proof.
    intros Hn Hp Hs. inversion Hs; subst; rewrite Hn in *;
      match goal with [ H : Some _ = Some _ |- _ ] => inversion H; subst; clear H end; try congruence.
    - do 3 eexists. repeat split; eauto.
    - match goal with [ H : is_jump _ = true |- _ ] => rewrite (is_jump_not_phi _ H) in Hp end. discriminate.
  Qed.
  Lemma phi_step (h : func) b k q c m ins o v :
    nth_error (nth_block h b) k = Some ins -> is_phi ins = true -> i_outs ins = [o] -> phi_src (i_args ins) q = Some v ->
    step h (Run b k (Some q) c m) [] (Run b (S k) (Some q) (upd c o (oval lv c v)) m).
  Proof. intros. eapply s_phi; eauto. Qed.

  Lemma inst_step_inv (h : func) b k p c m ins ev X :
    nth_error (nth_block h b) k = Some ins -> is_phi ins = false -> is_jump ins = false -> step h (Run b k p c m) ev X ->
    exists outv m', exec M osem lv ins c m outv m' ev /\ X = Run b (S k) p (upds c (i_outs ins) outv) m'.
  Proof.
    intros Hn Hp Hj Hs. inversion Hs; subst; rewrite Hn in *;
      match goal with [ H : Some _ = Some _ |- _ ] => inversion H; subst; clear H end; try congruence.
    eauto.
  Qed.

  Lemma jump_step_inv (h : func) b k p c m ins ev X :
    nth_error (nth_block h b) k = Some ins -> is_jump ins = true -> step h (Run b k p c m) ev X ->
    ev = [] /\ S k = List.length (nth_block h b) /\ exists t, In t (targets lv ins c) /\ X = Run t 0 (Some b) c m.
  Proof.
    intros Hn Hj Hs. pose proof (is_jump_not_phi _ Hj) as Hp. inversion Hs; subst; rewrite Hn in *;
      match goal with [ H : Some _ = Some _ |- _ ] => inversion H; subst; clear H end; try congruence.
    eauto.
  Qed.

  Lemma assign_exec ins v o c m : i_op ins = "assign" -> i_args ins = [v] -> i_outs ins = [o] ->
    forall outv m' ev, exec M osem lv ins c m outv m' ev <-> (outv = [oval lv c v] /\ m' = m /\ ev = []).
  Proof.
    intros Ho Ha Hu outv m' ev. unfold exec. rewrite Ho, Ha, Hu. simpl. split.
    - intros [_ H]. exact H.
    - intros [H1 [H2 H3]]. subst. auto.
  Qed.
  Lemma assign_step_inv (h : func) b k p c m ins v o ev X :
    nth_error (nth_block h b) k = Some ins -> i_op ins = "assign" -> i_args ins = [v] -> i_outs ins = [o] ->
    step h (Run b k p c m) ev X -> ev = [] /\ X = Run b (S k) p (upd c o (oval lv c v)) m.
  Proof.
    intros Hn Ho Ha Hu Hs.
    assert (Hp : is_phi ins = false) by (unfold is_phi; rewrite Ho; reflexivity).
    assert (Hj : is_jump ins = false) by (unfold is_jump; rewrite Ho; reflexivity).
    destruct (inst_step_inv _ _ _ _ _ _ _ _ _ Hn Hp Hj Hs) as [outv [m' [He HX]]].
    apply (assign_exec ins v o c m Ho Ha Hu) in He as [H1 [H2 H3]]. subst. rewrite Hu. auto.
  Qed.
  Lemma assign_step (h : func) b k p c m ins v o :
    nth_error (nth_block h b) k = Some ins -> i_op ins = "assign" -> i_args ins = [v] -> i_outs ins = [o] ->
    step h (Run b k p c m) [] (Run b (S k) p (upd c o (oval lv c v)) m).
  Proof.
    intros Hn Ho Ha Hu.
    assert (Hp : is_phi ins = false) by (unfold is_phi; rewrite Ho; reflexivity).
    assert (Hj : is_jump ins = false) by (unfold is_jump; rewrite Ho; reflexivity).
    change (upd c o (oval lv c v)) with (upds c [o] [oval lv c v]). rewrite <- Hu.
    eapply s_inst; eauto. apply (assign_exec ins v o c m Ho Ha Hu). auto.
  Qed.
End STEPINV.
