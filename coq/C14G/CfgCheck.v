(* C14G — the validators (definitions only; executable by vm_compute).

   before = f, after = g, both exported with ALIGNED block numbering (the untrusted exporter numbers an after-block
   like the before-block it starts with; a block that disappeared is the empty list; blocks created by the pass get
   the indices >= length f).  Entry block = 0 on both sides.

   cfg_check f g cert, cert one of
   * CChain ch   (SimplifyCFGPass)  after-block a = f[a] ++ f[b2] ++ ... ++ f[bn] minus the internal `jmp`s, ch[a] = [b2..bn];
                                    a phi of a merged-in block becomes an assign of the operand for the block before it;
                                    a phi of the first block stays a phi or becomes an assign (all incoming edges must agree);
                                    jump targets are followed through blocks that consist of one `jmp` (threading);
   * CFlip F     (BranchOptimizationPass)  same blocks; `jnz x t f` may become `jnz y f t` when x = iszero y is
                                    available at the end of the block, or `n = iszero x; jnz n f t` with n in F (fresh);
   * CTail al    (TailMergePass)    al[b] = the block that stands for b; al[b] <> b only for blocks without phi/jump
                                    whose code equals the keeper's up to renaming of the variables they define themselves;
   * CSplit F    (CFGNormalization) blocks >= length f contain only `n = assign v` (n in F) and a `jmp`; an edge may be
                                    routed through such a block, and the target's phi reads n instead of v. *)
From Coq Require Import ZArith NArith Bool List String Lia.
From Verif Require Import C14G.CfgSem.
Import ListNotations.
Open Scope string_scope.

Definition is_nil {A} (l : list A) : bool := match l with [] => true | _ => false end.
Fixpoint forall2b {A B} (p : A -> B -> bool) (l1 : list A) (l2 : list B) : bool :=
  match l1, l2 with
  | [], [] => true
  | a :: t1, b :: t2 => p a b && forall2b p t1 t2
  | _, _ => false
  end.
Fixpoint split_last {A} (l : list A) : option (list A * A) :=
  match l with
  | [] => None
  | [x] => Some ([], x)
  | x :: t => match split_last t with Some (p, y) => Some (x :: p, y) | None => None end
  end.
Definition opt_operand_eqb (a b : option operand) : bool :=
  match a, b with Some x, Some y => operand_eqb x y | None, None => true | _, _ => false end.
Definition opt_N_eqb (a b : option N) : bool :=
  match a, b with Some x, Some y => N.eqb x y | None, None => true | _, _ => false end.
Definition memN (x : N) (l : list N) : bool := existsb (N.eqb x) l.

(* same opcode / outputs; operands equal except that a label may stand for any label (checked per edge) *)
(* the condition of a jnz is not a label (labels are renamed by the passes, their value as data is not preserved) *)
Definition jnz_cond_ok (ib : inst) : bool :=
  if String.eqb (i_op ib) "jnz" then match i_args ib with OLab _ :: _ => false | _ => true end else true.
Definition jump_shape (ib ia : inst) : bool :=
  String.eqb (i_op ib) (i_op ia) && jnz_cond_ok ib &&
  forall2b (fun ob oa => match ob, oa with OLab _, OLab _ => true | OLab _, _ => false | _, OLab _ => false | _, _ => operand_eqb ob oa end)
           (i_args ib) (i_args ia).

(* ------------------------------------------------------------------ position-wise correspondence *)
(* md = Some ps: the before-instruction belongs to a block merged behind a jump all of whose targets lead to it; ps =
   the blocks it may be entered from: its phis must have one and the same operand for all of them;
   md = None: first block of the chain (phi operands are checked per incoming edge by phis_in_ok) *)
Definition icorr (md : option (list N)) (ib ia : inst) : bool :=
  if is_phi ib then
    match i_outs ib with
    | [o] =>
      match md with
      | Some ps =>
        match i_args ia with
        | [v] => inst_eqb ia (mkI "assign" [v] [o]) && negb (is_nil ps) &&
                 forallb (fun p => opt_operand_eqb (phi_src (i_args ib) p) (Some v)) ps
        | _ => false
        end
      | None => list_eqb N.eqb (i_outs ia) [o] &&
                (is_phi ia || (String.eqb (i_op ia) "assign" && match i_args ia with [_] => true | _ => false end))
      end
    | _ => false
    end
  else negb (is_jump ib) && inst_eqb ib ia.

Fixpoint icorrs (md : option (list N)) (fb ga : list inst) : bool :=
  match fb, ga with
  | [], [] => true
  | ib :: tb, ia :: ta =>
    match tb with
    | [] => is_nil ta && (if is_jump ib then jump_shape ib ia else icorr md ib ia)
    | _ => icorr md ib ia && icorrs md tb ta
    end
  | _, _ => false
  end.

(* phi operands of block T for the incoming edge: control comes from a0 in `after` and from p' in `before` *)
Fixpoint phis_in_ok (fb ga : list inst) (a0 p' : N) : bool :=
  match fb with
  | [] => true
  | ib :: tb =>
    match ga with
    | [] => negb (existsb is_phi fb)
    | ia :: ta =>
      (if is_phi ib then
         if is_phi ia then opt_operand_eqb (phi_src (i_args ia) a0) (phi_src (i_args ib) p')
         else match i_args ia with [v] => opt_operand_eqb (phi_src (i_args ib) p') (Some v) | _ => false end
       else true) && phis_in_ok tb ta a0 p'
    end
  end.

(* ------------------------------------------------------------------ CChain *)
(* `jmp t` and `jnz c t t` go to t whatever the state is *)
Definition uncond_target (ins : inst) : option N :=
  if String.eqb (i_op ins) "jmp" then match i_args ins with [OLab t] => Some t | _ => None end
  else if String.eqb (i_op ins) "jnz" then
    match i_args ins with [_; OLab t; OLab t'] => if N.eqb t t' then Some t else None | _ => None end
  else None.
Definition empty_jmp (f : func) (e : N) : option N :=
  match nth_block f e with
  | [ins] => uncond_target ins
  | _ => None
  end.
(* follow blocks that consist of a single jmp from t (entered from p) to h; result: the block h is entered from *)
Fixpoint thread (f : func) (fuel : nat) (p t h : N) : option N :=
  if N.eqb t h then Some p else
  match fuel with
  | O => None
  | S n => match empty_jmp f t with Some t' => thread f n t t' h | None => None end
  end.

(* a jump that has a target in every state *)
Definition jump_total (ins : inst) : bool :=
  if String.eqb (i_op ins) "jmp" then match i_args ins with [OLab _] => true | _ => false end
  else if String.eqb (i_op ins) "jnz" then match i_args ins with [_; OLab _; OLab _] => true | _ => false end
  else if String.eqb (i_op ins) "djmp" then negb (is_nil (labels_of (i_args ins)))
  else false.

(* all targets of the jump `lst` of block b lead (through jump-only blocks) to b'; result: the blocks b' is entered from *)
Fixpoint joint_preds (f : func) (b : N) (ls : list N) (b' : N) : option (list N) :=
  match ls with
  | [] => Some []
  | l :: t =>
    match thread f (List.length f) b l b', joint_preds f b t b' with
    | Some p, Some ps => Some (p :: ps)
    | _, _ => None
    end
  end.

Fixpoint seg_ok (f : func) (md : option (list N)) (b : N) (cs : list N) (ga : list inst) : bool :=
  let fb := nth_block f b in
  match cs with
  | [] => icorrs md fb ga
  | b' :: cs' =>
    match split_last fb with
    | Some (pre, lst) =>
      jump_total lst &&
      match joint_preds f b (labels_of (i_args lst)) b' with
      | Some ps => forall2b (icorr md) pre (firstn (List.length pre) ga) &&
                   seg_ok f (Some ps) b' cs' (skipn (List.length pre) ga)
      | None => false
      end
    | None => false
    end
  end.

Definition last_inst (b : block) : option inst := match split_last b with Some (_, x) => Some x | None => None end.

Definition edge_ok (f g : func) (a bn : N) (T t : N) : bool :=
  match thread f (List.length f) bn t T with
  | Some p' => negb (is_nil (nth_block g T)) && phis_in_ok (nth_block f T) (nth_block g T) a p'
  | None => false
  end.
Definition edges_ok (f g : func) (a bn : N) : bool :=
  match last_inst (nth_block g a), last_inst (nth_block f bn) with
  | Some ia, Some ib =>
    if is_jump ib then forall2b (edge_ok f g a bn) (labels_of (i_args ia)) (labels_of (i_args ib)) else true
  | _, _ => false
  end.

Definition chain_of (ch : list (list N)) (a : N) : list N := nth (N.to_nat a) ch [].
Definition chain_check (f g : func) (ch : list (list N)) : bool :=
  Nat.eqb (List.length g) (List.length f) &&
  negb (is_nil (nth_block g 0)) && negb (existsb is_phi (nth_block f 0)) &&
  forallb (fun i => let a := N.of_nat i in
                    is_nil (nth_block g a) ||
                    (seg_ok f None a (chain_of ch a) (nth_block g a) && edges_ok f g a (last (chain_of ch a) a)))
          (seq 0 (List.length f)).

(* ------------------------------------------------------------------ CFlip *)
Definition var_in (F : list N) (o : operand) : bool := match o with OVar x => memN x F | _ => false end.
Definition inst_fresh (F : list N) (ins : inst) : bool :=
  negb (existsb (var_in F) (i_args ins)) && negb (existsb (fun o => memN o F) (i_outs ins)).
Definition fresh_ok (F : list N) (f : func) : bool := forallb (forallb (inst_fresh F)) f.

Definition writes (i : inst) (o : operand) : bool := match o with OVar y => memN y (i_outs i) | _ => false end.
(* rpre = the instructions before the terminator, LAST FIRST; Some y: "xv = iszero y" holds at the terminator *)
Fixpoint iszero_src (rpre : list inst) (xv : N) : option operand :=
  match rpre with
  | [] => None
  | i :: t =>
    if memN xv (i_outs i) then
      match i_args i with
      | [y] => if String.eqb (i_op i) "iszero" && list_eqb N.eqb (i_outs i) [xv] && negb (operand_eqb y (OVar xv))
               then Some y else None
      | _ => None
      end
    else match iszero_src t xv with Some y => if writes i y then None else Some y | None => None end
  end.

Definition flip_block (F : list N) (fb ga : list inst) : bool :=
  list_eqb inst_eqb fb ga ||
  match split_last fb with
  | Some (pre, jb) =>
    match i_args jb with
    | [x; OLab t; OLab fl] =>
      String.eqb (i_op jb) "jnz" && is_nil (i_outs jb) &&
      ((* the iszero feeding the condition is bypassed, targets swapped *)
       match x with
       | OVar xv => match iszero_src (rev pre) xv with
                    | Some y => list_eqb inst_eqb ga (pre ++ [mkI "jnz" [y; OLab fl; OLab t] []])
                    | None => false
                    end
       | _ => false
       end
       ||
       (* an iszero into a fresh variable is inserted, targets swapped *)
       match split_last ga with
       | Some (ga', ja) =>
         match split_last ga' with
         | Some (pre', za) =>
           match i_outs za with
           | [n] => memN n F && list_eqb inst_eqb pre pre' && inst_eqb za (mkI "iszero" [x] [n]) &&
                    inst_eqb ja (mkI "jnz" [OVar n; OLab fl; OLab t] [])
           | _ => false
           end
         | None => false
         end
       | None => false
       end)
    | _ => false
    end
  | None => false
  end.

Definition flip_check (f g : func) (F : list N) : bool := fresh_ok F f && forall2b (flip_block F) f g.

(* ------------------------------------------------------------------ CTail *)
Definition alias_of (al : list N) (l : N) : N := nth (N.to_nat l) al l.
Definition ren_lab (al : list N) (o : operand) : operand := match o with OLab l => OLab (alias_of al l) | _ => o end.
Definition ren_inst (al : list N) (i : inst) : inst := mkI (i_op i) (map (ren_lab al) (i_args i)) (i_outs i).

(* all instructions identical; the labels of a terminating jump are renamed *)
Fixpoint same_block (al : list N) (fb ga : list inst) : bool :=
  match fb, ga with
  | [], [] => true
  | ib :: tb, ia :: ta =>
    match tb with
    | [] => is_nil ta && (if is_jump ib then jnz_cond_ok ib && inst_eqb (ren_inst al ib) ia else inst_eqb ib ia)
    | _ => inst_eqb ib ia && same_block al tb ta
    end
  | _, _ => false
  end.

Definition op_corr (pr : list (N * N)) (ob oa : operand) : bool :=
  match ob, oa with
  | OVar x, OVar x' => existsb (fun p => N.eqb (fst p) x && N.eqb (snd p) x') pr
  | OLit a, OLit b => Z.eqb a b
  | OLab a, OLab b => N.eqb a b
  | _, _ => false
  end.
(* equal up to renaming of the variables defined in the block itself; no phi, no jump; at most one output each *)
Fixpoint alpha_ok (pr : list (N * N)) (fb ga : list inst) : bool :=
  match fb, ga with
  | [], [] => true
  | ib :: tb, ia :: ta =>
    String.eqb (i_op ib) (i_op ia) && negb (is_phi ib) && negb (is_jump ib) &&
    forall2b (op_corr pr) (i_args ib) (i_args ia) &&
    match i_outs ib, i_outs ia with
    | [], [] => alpha_ok pr tb ta
    | [o], [o'] => negb (memN o (map fst pr)) && negb (memN o' (map snd pr)) && alpha_ok ((o, o') :: pr) tb ta
    | _, _ => false
    end
  | _, _ => false
  end.

Definition tail_check (f g : func) (al : list N) : bool :=
  Nat.eqb (List.length g) (List.length f) && Nat.eqb (List.length al) (List.length f) &&
  N.eqb (alias_of al 0) 0 &&
  forallb (fun i => let b := N.of_nat i in
                    let k := alias_of al b in
                    if N.eqb k b then same_block al (nth_block f b) (nth_block g b)
                    else N.eqb (alias_of al k) k && N.ltb k (N.of_nat (List.length f)) && alpha_ok [] (nth_block f b) (nth_block g k))
          (seq 0 (List.length f)).

(* ------------------------------------------------------------------ CSplit *)
(* a forwarding block: n1 = assign v1; ...; jmp t   -> ([(v1, n1); ...], t) *)
Fixpoint split_info (F : list N) (S : list inst) : option (list (N * N) * N) :=
  match S with
  | [] => None
  | [j] => if inst_eqb j (mkI "jmp" (i_args j) []) then match i_args j with [OLab t] => Some ([], t) | _ => None end else None
  | i :: rest =>
    match i_args i, i_outs i with
    | [OVar v], [n] =>
      if String.eqb (i_op i) "assign" && memN n F && negb (memN v F) then
        match split_info F rest with
        | Some (prs, t) => if memN n (map snd prs) then None else Some ((v, n) :: prs, t)
        | None => None
        end
      else None
    | _, _ => None
    end
  end.

Fixpoint leading_phis (b : list inst) : list inst :=
  match b with i :: t => if is_phi i then i :: leading_phis t else [] | [] => [] end.
Definition phis_leading (b : list inst) : bool := negb (existsb is_phi (skipn (List.length (leading_phis b)) b)).

(* phi operands of the target for an edge routed through the forwarding block S (before: control comes from b0) *)
Fixpoint phis_split_ok (prs : list (N * N)) (fb ga : list inst) (S b0 : N) : bool :=
  match fb with
  | [] => true
  | ib :: tb =>
    match ga with
    | [] => negb (existsb is_phi fb)
    | ia :: ta =>
      (if is_phi ib then
         is_phi ia &&
         match phi_src (i_args ib) b0, phi_src (i_args ia) S with
         | None, None => true
         | Some vb, Some va =>
           operand_eqb va vb ||
           match vb, va with
           | OVar v, OVar n => existsb (fun p => N.eqb (fst p) v && N.eqb (snd p) n) prs
           | _, _ => false
           end
         | _, _ => false
         end
       else true) && phis_split_ok prs tb ta S b0
    end
  end.

Definition split_edge_ok (F : list N) (f g : func) (b : N) (T t : N) : bool :=
  if N.ltb T (N.of_nat (List.length f)) then
    N.eqb T t && phis_in_ok (nth_block f t) (nth_block g t) b b
  else
    match split_info F (nth_block g T) with
    | Some (prs, t') =>
      N.eqb t' t && N.ltb t (N.of_nat (List.length f)) &&
      phis_leading (nth_block f t) &&
      forallb (fun p => negb (memN (fst p) (flat_map i_outs (leading_phis (nth_block f t))))) prs &&
      phis_split_ok prs (nth_block f t) (nth_block g t) T b
    | None => false
    end.

Definition split_block_ok (F : list N) (f g : func) (b : N) : bool :=
  let fb := nth_block f b in
  let ga := nth_block g b in
  icorrs None fb ga &&
  forall2b (fun ib ia => if is_phi ib then is_phi ia else true) fb ga &&
  match last_inst ga, last_inst fb with
  | Some ia, Some ib =>
    if is_jump ib then forall2b (split_edge_ok F f g b) (labels_of (i_args ia)) (labels_of (i_args ib)) else true
  | None, None => true
  | _, _ => false
  end.

Definition split_check (f g : func) (F : list N) : bool :=
  Nat.leb 1 (List.length f) && Nat.leb (List.length f) (List.length g) && fresh_ok F f &&
  forallb (fun i => split_block_ok F f g (N.of_nat i)) (seq 0 (List.length f)).

(* ------------------------------------------------------------------ data segment (jump tables) *)
(* db / da: the block labels stored in the data segment before / after the pass, in order (the passes rename them with
   `_replace_all_labels`).  For every block that ends in `djmp`: entry i of the table is a listed target before iff it
   is one after, and then entering da[i] is related to entering db[i] exactly like a control-flow edge of that block. *)
Definition djmp_of (blk : list inst) : option inst :=
  match last_inst blk with Some T => if String.eqb (i_op T) "djmp" then Some T else None | None => None end.
Definition table_ok (Tb Ta : inst) (edge : N -> N -> bool) (db da : list N) : bool :=
  forall2b (fun tb ta => Bool.eqb (memN tb (labels_of (i_args Tb))) (memN ta (labels_of (i_args Ta))) &&
                         (negb (memN tb (labels_of (i_args Tb))) || edge ta tb)) db da.

Definition chain_data_check (f g : func) (ch : list (list N)) (db da : list N) : bool :=
  forallb (fun i => let a := N.of_nat i in
                    let bn := last (chain_of ch a) a in
                    is_nil (nth_block g a) ||
                    match djmp_of (nth_block f bn), last_inst (nth_block g a) with
                    | Some Tb, Some Ta => table_ok Tb Ta (edge_ok f g a bn) db da
                    | Some _, None => false
                    | None, _ => true
                    end) (seq 0 (List.length f)).
Definition flip_data_check (f : func) (db da : list N) : bool := list_eqb N.eqb db da.
Definition tail_data_check (f : func) (al : list N) (db da : list N) : bool := list_eqb N.eqb (map (alias_of al) db) da.
(* a table entry leads where the djmp's edge to it leads: to the same block, or to the forwarding block inserted on that
   edge (CFGNormalization retargets the jump table together with the djmp's label operand) *)
Definition split_data_check (F : list N) (f g : func) (db da : list N) : bool :=
  forallb (fun i => let b := N.of_nat i in
                    match djmp_of (nth_block f b), last_inst (nth_block g b) with
                    | Some Tb, Some Ta => table_ok Tb Ta (fun ta tb => split_edge_ok F f g b ta tb) db da
                    | Some _, None => false
                    | None, _ => true
                    end) (seq 0 (List.length f)).

(* ------------------------------------------------------------------ the validator *)
Inductive cert := CChain (ch : list (list N)) | CFlip (F : list N) | CTail (al : list N) | CSplit (F : list N).
Definition cfg_check (before after : func) (c : cert) : bool :=
  match c with
  | CChain ch => chain_check before after ch
  | CFlip F => flip_check before after F
  | CTail al => tail_check before after al
  | CSplit F => split_check before after F
  end.

Definition data_check (before after : func) (db da : list N) (c : cert) : bool :=
  match c with
  | CChain ch => chain_data_check before after ch db da
  | CFlip _ => flip_data_check before db da
  | CTail al => tail_data_check before al db da
  | CSplit F => split_data_check F before after db da
  end.
