(* C01, the LARGER expression fragment of the legacy front end as a theorem about ALL expressions (extension of PropsExpr.v):
   integers (9+ types), decimals, flags, bool; + - * // / %, unary minus, & | ^ (signed too), ~, << >>, in / not in,
   comparisons, and / or / not, if-expressions; leaves = locals and state variables (named words).
   expr_x_compile_correct - the re-implemented lowering ExprX.ycompile preserves the source meaning ExprX.yeval;
   real_ir_correct_x      - for every generated sample (GenExprTieX.v, regenerated each run) the IR the REAL front end
                            emitted is syntactically the model's output, hence evaluates to the source meaning for every
                            environment;
   expr_x_extends         - the new language contains the old one (ExprCompile.sexpr) with the same compiled term and
                            the same meaning.
   Relative to: C03/LIR.v (IR semantics; leaves are variables), C03's template exactness, Base/Word256.v. *)
From Coq Require Import ZArith Bool List String Arith.
From Verif Require Import Base.Word256 C03.LIR C03.ArithSpec C03.TieBase C01.ExprCompile C01.ExprCompileProofs C01.ExprX
  C01.ExprXWord C01.ExprXProofs C01.ExprXBridge C01.GenExprTieX.
From Verif Require C01.VyCore.
Import ListNotations.
Open Scope Z_scope.
Open Scope list_scope.

Theorem expr_x_compile_correct : forall e rho, ywt true e = true -> yenv_ok rho e = true ->
  ygood (yty_of e) (yeval rho e) /\
  forall pre, tenv pre -> leval (pre ++ lenv_of rho) (ycompile e) = enc_out (yeval rho e).
Proof. exact ycompile_correct. Qed.
Print Assumptions expr_x_compile_correct.

(* the operators that cannot revert compute their mathematical meaning, in range *)
Theorem expr_x_pure_ops_exact : forall o x y, p2_ok o = true -> yval_ok (p2_ta o) x = true -> yval_ok (p2_tb o) y = true ->
  lw2 o (wrap y) (wrap x) = wrap (p2_fun o x y) /\ yval_ok (p2_out o) (p2_fun o x y) = true.
Proof. exact lw2_correct. Qed.
Print Assumptions expr_x_pure_ops_exact.

Lemma xsamples_tied : forallb (fun p => ytie_ok (fst p) (snd p)) xsamples = true.
Proof. vm_compute. reflexivity. Qed.

Theorem real_ir_correct_x : forall e t, In (e, t) xsamples ->
  forall rho, yenv_ok rho e = true -> leval (lenv_of rho) t = enc_out (yeval rho e).
Proof.
  intros e t HIn rho E. pose proof xsamples_tied as H. rewrite forallb_forall in H. specialize (H _ HIn).
  cbn [fst snd] in H. unfold ytie_ok in H. apply andb_true_iff in H. destruct H as [Wt Q].
  apply lir_eqb_eq in Q. subst t.
  destruct (ycompile_correct e rho Wt E) as [_ C]. exact (C [] (Forall_nil _)).
Qed.
Print Assumptions real_ir_correct_x.

(* the old fragment is contained: same compiled term, same meaning *)
Theorem expr_x_extends : forall e, ycompile (embed e) = compile e /\ forall rho, yeval rho (embed e) = seval rho e.
Proof.
  induction e as [T v | b | s t | op T ia ib i1 i2 a [Ca Ea] b [Cb Eb] | op T a [Ca Ea] b [Cb Eb] | op t a [Ca Ea] b [Cb Eb]
                 | a [Ca Ea] b [Cb Eb] | a [Ca Ea] b [Cb Eb] | a [Ca Ea] | T ic a [Ca Ea] | c [Cc Ec] a [Ca Ea] b [Cb Eb]];
    cbn [embed ycompile compile yeval seval]; rewrite ?Ca, ?Cb, ?Cc;
    (split; [try reflexivity; destruct t; reflexivity | intros rho; rewrite ?Ea, ?Eb, ?Ec; try reflexivity; destruct t; reflexivity]).
Qed.
Print Assumptions expr_x_extends.

(* the meanings of the new operators are those of the C01 reference semantics (operator level; see ExprXBridge.v) *)
Theorem expr_x_ops_are_vycore :
  (forall sg x y, sh_l sg x y = VyCore.shift_val true 256 sg x y /\ sh_r x y = VyCore.shift_val false 256 sg x y) /\
  (forall x y, o2s (arith_spec decimal_t AMul x y) = VyCore.arith VyCore.DMul 168 true x y /\
               o2s (arith_spec decimal_t ADiv x y) = VyCore.arith VyCore.DDiv 168 true x y).
Proof. exact ops_are_vycore. Qed.
Print Assumptions expr_x_ops_are_vycore.

(* non-vacuity: decimals, flags, shifts, a state variable; a value and a revert *)
Definition dec_t := Build_nty 21 true true.
Definition i256 := Build_nty 32 true false.
Definition u256 := Build_nty 32 false false.
(* (m128 * 2.5) / s0  on decimals: m128 a local, s0 a state variable *)
Definition demo_d := YBin BDiv dec_t false false false false
                       (YBin BMul dec_t false true false false (YVar "m128" (TI dec_t)) (YLit (TI dec_t) 25000000000))
                       (YVar "s0" (TI dec_t)).
(* (m160 in (F.M0 | s1)) and ((m192 >> 2) << 255 < 0) *)
Definition demo_f := YAnd (YP2 (PIn false 3) (YVar "m160" (TF 3)) (YP2 (PBit BitOr (TF 3)) (YLit (TF 3) 1) (YVar "s1" (TF 3))))
                          (YP2 (PCmp CLt (TI i256))
                               (YP2 (PShl i256 u256) (YP2 (PShr i256 u256) (YVar "m192" (TI i256)) (YLit (TI u256) 2)) (YLit (TI u256) 255))
                               (YLit (TI i256) 0)).
Definition rho1 : senv := [("m128"%string, 30000000000); ("s0"%string, 20000000000); ("m160"%string, 4); ("s1"%string, 4); ("m192"%string, -1)].
Definition rho2 : senv := [("m128"%string, 30000000000); ("s0"%string, 0); ("m160"%string, 2); ("s1"%string, 4); ("m192"%string, -1)].
Example expr_x_nonvacuous :
  ywt true demo_d = true /\ ywt true demo_f = true /\ yenv_ok rho1 demo_d = true /\ yenv_ok rho1 demo_f = true /\
  yeval rho1 demo_d = Val 37500000000 /\ leval (lenv_of rho1) (ycompile demo_d) = Val 37500000000 /\
  yeval rho2 demo_d = Revert /\ leval (lenv_of rho2) (ycompile demo_d) = Revert /\
  yeval rho1 demo_f = Val 1 /\ leval (lenv_of rho1) (ycompile demo_f) = Val 1 /\
  yeval rho2 demo_f = Val 0 /\ leval (lenv_of rho2) (ycompile demo_f) = Val 0 /\
  (List.length xsamples > 0)%nat.
Proof. repeat split; try (vm_compute; reflexivity). vm_compute. apply le_n_S, Nat.le_0_l. Qed.
