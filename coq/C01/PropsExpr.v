(* C01, the expression fragment as a theorem about ALL expressions (not per program):
   expr_compile_correct  - the re-implemented legacy expression lowering (ExprCompile.compile) preserves meaning;
   real_ir_correct       - for every generated sample, the IR the REAL front end emitted is syntactically the model's
                           output (GenExprTie.v, regenerated each run), hence evaluates to the source meaning for every
                           environment.
   Relative to: C03/LIR.v (IR semantics), C03's template exactness, Base/Word256.v. *)
From Coq Require Import ZArith Bool List String Arith.
From Verif Require Import Base.Word256 C03.LIR C03.ArithSpec C03.TieBase C01.ExprCompile C01.ExprCompileProofs C01.ExprBridge C01.GenExprTie.
From Verif Require C01.VyCore.
Import ListNotations.
Open Scope Z_scope.
Open Scope list_scope.

Theorem expr_compile_correct : forall e rho, wt e = true -> env_ok rho e = true ->
  good (ty_of e) (seval rho e) /\
  forall pre, tenv pre -> leval (pre ++ lenv_of rho) (compile e) = enc_out (seval rho e).
Proof. exact compile_correct. Qed.
Print Assumptions expr_compile_correct.

(* the source meaning used above is the C01 reference semantics: VyCore evaluates the translated expression to the same
   value / Revert, without effects and without changing the state; so the compiled IR computes what VyCore says *)
Theorem expr_compile_matches_vycore : forall ix P ce e rho st, wt e = true -> env_ok rho e = true -> loc_ok ix rho st e ->
  VyCore.eval P ce (sdepth e) (to_vy ix e) st = vres (ty_of e) st (seval rho e) /\
  leval (lenv_of rho) (compile e) = enc_out (seval rho e).
Proof.
  intros ix P ce e rho st W E L. split.
  - apply seval_is_vycore; auto.
  - destruct (compile_correct e rho W E) as [_ C]. exact (C [] (Forall_nil _)).
Qed.
Print Assumptions expr_compile_matches_vycore.

Lemma samples_tied : forallb (fun p => tie_ok (fst p) (snd p)) samples = true.
Proof. vm_compute. reflexivity. Qed.

Theorem real_ir_correct : forall e t, In (e, t) samples ->
  forall rho, env_ok rho e = true -> leval (lenv_of rho) t = enc_out (seval rho e).
Proof.
  intros e t HIn rho E. pose proof samples_tied as H. rewrite forallb_forall in H. specialize (H _ HIn).
  cbn [fst snd] in H. unfold tie_ok in H. apply andb_true_iff in H. destruct H as [W Q].
  apply lir_eqb_eq in Q. subst t.
  destruct (compile_correct e rho W E) as [_ C]. exact (C [] (Forall_nil _)).
Qed.
Print Assumptions real_ir_correct.

(* non-vacuity: an expression that reverts and one that does not *)
Definition i8 := Build_nty 1 true false.
Definition demo_e := XBin BSub i8 false true true false (XNeg i8 false (XVar "m128" (SInt i8))) (XInt i8 1).
Example expr_nonvacuous :
  wt demo_e = true /\ env_ok [("m128"%string, 127)] demo_e = true /\
  seval [("m128"%string, 127)] demo_e = Val (-128) /\
  leval (lenv_of [("m128"%string, 127)]) (compile demo_e) = Val (W - 128) /\
  seval [("m128"%string, 128 - 256)] demo_e = Revert /\
  leval (lenv_of [("m128"%string, -128)]) (compile demo_e) = Revert /\
  (List.length samples > 0)%nat.
Proof. repeat split; try (vm_compute; reflexivity). vm_compute. apply le_n_S, Nat.le_0_l. Qed.
