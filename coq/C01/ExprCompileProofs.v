(* expr_compile_correct: for every well-typed integer/bool expression over locals, every assignment of cache flags in
   which only literals are inlined, and every environment binding its variables to values of their types, the IR
   produced by the re-implemented legacy expression lowering evaluates (C03/LIR.v leval) to exactly the source meaning:
   the encoded value, or Revert.  Structural induction; the arithmetic templates are discharged by C03's exactness
   theorems (LegacyExact.v). *)
From Coq Require Import ZArith Bool List String Lia ZifyBool.
From Verif Require Import Base.Word256 C03.LIR C03.ArithSpec C03.WordArith C03.TypeLemmas C03.ArithModel C03.LegacyExact
  C01.ExprCompile.
Import ListNotations.
Open Scope string_scope.
Open Scope Z_scope.
Open Scope list_scope.

(* ---------------- small facts ---------------- *)
Lemma nty_eqb_eq A B : nty_eqb A B = true -> A = B.
Proof.
  destruct A as [ka sa da], B as [kb sb db]. unfold nty_eqb. cbn [nbytes nsigned ndec]. intros H.
  apply andb_true_iff in H. destruct H as [H Hd]. apply andb_true_iff in H. destruct H as [Hk Hs].
  apply Z.eqb_eq in Hk. apply Bool.eqb_prop in Hs. apply Bool.eqb_prop in Hd. subst. reflexivity.
Qed.
Lemma sty_eqb_eq a b : sty_eqb a b = true -> a = b.
Proof. destruct a, b; cbn; try discriminate; auto. intros H. f_equal. apply nty_eqb_eq; auto. Qed.

Lemma int_ok_ty_ok T : int_ok T = true -> ty_ok T /\ 1 <= nbytes T <= 32 /\ ndec T = false.
Proof.
  unfold int_ok. intros H. apply andb_true_iff in H. destruct H as [H Hd]. apply andb_true_iff in H. destruct H as [H1 H2].
  apply negb_true_iff in Hd. unfold ty_ok. rewrite Hd. repeat split; try lia. all: discriminate.
Qed.

Definition tenv (pre : env) : Prop := Forall (fun p => reserved (fst p) = true) pre.

Lemma lookup_pre pre L s : tenv pre -> reserved s = false -> lookup (pre ++ L) s = lookup L s.
Proof.
  induction pre as [|[n w] pre IH]; intros Hp Hs; [reflexivity|]. inversion Hp; subst. cbn [app lookup].
  destruct (String.eqb n s) eqn:E; [|apply IH; assumption].
  apply String.eqb_eq in E. subst n. cbn in H1. congruence.
Qed.
Lemma lookup_lenv rho s : lookup (lenv_of rho) s = option_map wrap (lookup rho s).
Proof.
  induction rho as [|[n v] r IH]; [reflexivity|]. cbn [lenv_of map lookup fst snd].
  destruct (String.eqb n s); [reflexivity | exact IH].
Qed.

Lemma tenv_cons n w pre : reserved n = true -> tenv pre -> tenv ((n, w) :: pre).
Proof. intros; constructor; auto. Qed.

(* a variable bound by the compiler's own `with x` / `with y` is a stable operand *)
Lemma opd_bound_x e w v : w = wrap v -> opd (("x", w) :: e) (LVar "x") v.
Proof.
  intros ->. split; [|intros l E; discriminate E]. intros pre Hp. cbn [leval].
  rewrite lookup_tmp by (try assumption; left; reflexivity). reflexivity.
Qed.
Lemma opd_bound_y e w v : w = wrap v -> opd (("y", w) :: e) (LVar "y") v.
Proof.
  intros ->. split; [|intros l E; discriminate E]. intros pre Hp. cbn [leval].
  rewrite lookup_tmp by (try assumption; right; reflexivity). reflexivity.
Qed.
Lemma opd_under_y e wy t v : opd e t v -> (t = LVar "x" \/ exists l, t = LInt l) -> opd (("y", wy) :: e) t v.
Proof.
  intros [H L] Ht. split; [|exact L]. intros pre Hp. destruct Ht as [-> | [l ->]].
  - cbn [leval]. rewrite lookup_tmp by (try assumption; left; reflexivity). cbn [lookup].
    replace (String.eqb "y" "x") with false by reflexivity.
    specialize (H [] (Forall_nil _)). cbn [app leval] in H. exact H.
  - specialize (H pre Hp). cbn [leval] in *. exact H.
Qed.

(* ---------------- values ---------------- *)
Lemma val_ok_int T v : val_ok (SInt T) v = true -> in_range T v.
Proof. cbn. apply in_rangeb_iff. Qed.
Lemma val_ok_bool v : val_ok SBool v = true -> v = 0 \/ v = 1.
Proof. cbn. lia. Qed.

Lemma chk_good T r : match chk T r with Val v => in_rangeb T v = true | Revert => True | _ => False end.
Proof. unfold chk. destruct (in_rangeb T r) eqn:E; auto. Qed.

Lemma arith_spec_good T op x y : ndec T = false -> op <> APow ->
  match arith_spec T op x y with Val v => in_rangeb T v = true | Revert => True | _ => False end.
Proof.
  intros Hd Hp. destruct op; cbn [arith_spec]; rewrite ?Hd; try apply chk_good; try congruence.
  - destruct (y =? 0); [exact I | apply chk_good].
  - destruct (y =? 0); [exact I | apply chk_good].
Qed.

Lemma sword_of_range T v : 1 <= nbytes T <= 32 -> is_u256 (SInt T) = false -> in_range T v -> sword v.
Proof.
  destruct T as [k s d]. cbn [nbytes is_u256 nsigned]. intros Hk Hu Hr.
  pose proof (range_bounds k s d v ltac:(lia) Hr) as B. unfold sword.
  destruct s.
  - assert (Hb k <= HALF).
    { destruct (Z.eq_dec k 32) as [->|]; [rewrite Hb_32; lia|]. pose proof (Hb_le247 k ltac:(lia)). rewrite P247_val in *. wl. }
    wl.
  - assert (k <> 32) by (intros ->; cbn in Hu; discriminate).
    pose proof (Hb_le247 k ltac:(lia)). rewrite P247_val in *. wl.
Qed.

Lemma uword_of_u256 T v : is_u256 (SInt T) = true -> in_range T v -> 0 <= v < W.
Proof.
  destruct T as [k s d]. cbn [is_u256 nbytes nsigned]. intros Hu Hr.
  apply andb_true_iff in Hu. destruct Hu as [Hk Hs]. apply Z.eqb_eq in Hk. apply negb_true_iff in Hs. subst.
  pose proof (range_bounds 32 false d v ltac:(lia) Hr) as B. cbn beta iota in B. rewrite Hb_32 in B. wl.
Qed.

Lemma b2z_wrap b : wrap (b2z b) = b2z b.
Proof. destruct b; reflexivity. Qed.

(* comparison of two values of one type through the mirrored word operation *)
Lemma cmp_word op t x y : sty_ok t = true -> val_ok t x = true -> val_ok t y = true ->
  ev2 (cmp_op op t) (wrap y) (wrap x) = b2z (cmp_fun op x y).
Proof.
  intros Ht Hx Hy.
  destruct (is_u256 t) eqn:U.
  - destruct t as [T|]; [|discriminate U].
    pose proof (uword_of_u256 T x U (val_ok_int _ _ Hx)) as Bx. pose proof (uword_of_u256 T y U (val_ok_int _ _ Hy)) as By.
    unfold cmp_op. rewrite U. rewrite (wrap_small x), (wrap_small y) by lia.
    destruct op; cbn [ev2 cmp_fun]; unfold w_gt, w_lt, w_eq; rewrite ?w_iszero_b2z; f_equal; lia.
  - assert (sword x /\ sword y) as [Sx Sy].
    { destruct t as [T|].
      - cbn in Ht. destruct (int_ok_ty_ok T Ht) as (_ & Hk & _).
        split; eapply sword_of_range; eauto; apply val_ok_int; auto.
      - destruct (val_ok_bool _ Hx) as [-> | ->]; destruct (val_ok_bool _ Hy) as [-> | ->]; unfold sword; split; wl. }
    unfold cmp_op. rewrite U.
    destruct op; cbn [ev2 cmp_fun]; unfold w_sgt, w_slt;
      rewrite ?(ts_wrap x Sx), ?(ts_wrap y Sy), ?(w_eq_wrap y x Sy Sx), ?w_iszero_b2z; f_equal; lia.
Qed.

(* bitwise operations keep unsigned values of k bytes in range *)
Lemma bits_bound n x y : 0 <= n -> 0 <= x < 2 ^ n -> 0 <= y < 2 ^ n ->
  0 <= Z.land x y < 2 ^ n /\ 0 <= Z.lor x y < 2 ^ n /\ 0 <= Z.lxor x y < 2 ^ n.
Proof.
  intros Hn Hx Hy.
  assert (L : forall z, 0 <= z -> (z < 2 ^ n <-> z = 0 \/ Z.log2 z < n)).
  { intros z Hz. destruct (Z.eq_dec z 0) as [->|Nz].
    - split; [auto|]. intros _. apply Z.pow_pos_nonneg; lia.
    - split; [intros H; right; apply Z.log2_lt_pow2; lia | intros [->|H]; [lia | apply Z.log2_lt_pow2; lia]]. }
  assert (Ha : 0 <= Z.land x y) by (apply Z.land_nonneg; lia).
  assert (Ho : 0 <= Z.lor x y) by (apply Z.lor_nonneg; lia).
  assert (Hxo : 0 <= Z.lxor x y) by (apply Z.lxor_nonneg; lia).
  pose proof (Z.log2_land x y ltac:(lia) ltac:(lia)) as La.
  pose proof (Z.log2_lor x y ltac:(lia) ltac:(lia)) as Lo.
  pose proof (Z.log2_lxor x y ltac:(lia) ltac:(lia)) as Lx.
  pose proof (proj1 (L x ltac:(lia)) ltac:(lia)) as Bx. pose proof (proj1 (L y ltac:(lia)) ltac:(lia)) as By.
  pose proof (Z.log2_nonneg x). pose proof (Z.log2_nonneg y).
  assert (Z0 : Z.log2 0 = 0) by reflexivity.
  repeat split; try assumption; apply L; try assumption.
  - destruct Bx as [->|Bx]; [left; apply Z.land_0_l|]. destruct By as [->|By]; [left; apply Z.land_0_r|]. right. lia.
  - destruct Bx as [->|Bx]; [rewrite Z.lor_0_l; destruct By; [left|right]; auto|].
    destruct By as [->|By]; [rewrite Z.lor_0_r; right; auto|]. right. lia.
  - destruct Bx as [->|Bx]; [rewrite Z.lxor_0_l; destruct By; [left|right]; auto|].
    destruct By as [->|By]; [rewrite Z.lxor_0_r; right; auto|]. right. lia.
Qed.

Lemma bit_word op T x y : int_ok T = true -> nsigned T = false -> in_range T x -> in_range T y ->
  ev2 (bit_op op) (wrap y) (wrap x) = wrap (bit_fun op x y) /\ in_rangeb T (bit_fun op x y) = true.
Proof.
  destruct T as [k s d]. cbn [nsigned]. intros Ht -> Hx Hy.
  destruct (int_ok_ty_ok _ Ht) as (_ & Hk & _). cbn [nbytes] in Hk.
  pose proof (range_bounds k false d x ltac:(lia) Hx) as Bx. pose proof (range_bounds k false d y ltac:(lia) Hy) as By.
  cbn beta iota in Bx, By.
  assert (P : 2 * Hb k = 2 ^ (8 * k)) by (symmetry; apply pow_Hb; lia).
  destruct (Hb_W k Hk) as (c & Hc & HW).
  pose proof (bits_bound (8 * k) x y ltac:(lia) ltac:(lia) ltac:(lia)) as (Ba & Bo & Bxo).
  assert (R : forall z, 0 <= z < 2 ^ (8 * k) -> wrap z = z /\ in_rangeb (Build_nty k false d) z = true).
  { intros z Hz. split; [apply wrap_small; nia|]. apply in_rangeb_iff. unfold in_range. rewrite ty_lo_u, ty_hi_u by lia. lia. }
  rewrite (wrap_small x), (wrap_small y) by nia.
  destruct op; cbn [bit_op bit_fun ev2]; unfold w_and, w_or, w_xor.
  - rewrite Z.land_comm. destruct (R _ Ba) as [-> ->]. auto.
  - rewrite Z.lor_comm. destruct (R _ Bo) as [-> ->]. auto.
  - rewrite Z.lxor_comm. destruct (R _ Bxo) as [-> ->]. auto.
Qed.

(* ---------------- the invariant ---------------- *)
Definition good (t : sty) (o : outcome) : Prop :=
  match o with Val v => val_ok t v = true | Revert => True | _ => False end.

Definition correct (rho : senv) (e : sexpr) : Prop :=
  good (ty_of e) (seval rho e) /\
  forall pre, tenv pre -> leval (pre ++ lenv_of rho) (compile e) = enc_out (seval rho e).

Lemma res_x : reserved "x" = true. Proof. reflexivity. Qed.
Lemma res_y : reserved "y" = true. Proof. reflexivity. Qed.
Lemma res_c : reserved "clamp_arg" = true. Proof. reflexivity. Qed.

(* an int literal is its own (inlined) operand *)
Lemma lit_case e (T : nty) : is_int_lit e = true -> exists T' v, e = XInt T' v.
Proof. destruct e; try discriminate. eauto. Qed.

Lemma tmpl_exact op T e ea eb i1 i2 x y :
  int_ok T = true -> in_range T x -> in_range T y -> opd e ea x -> opd e eb y ->
  leval e (tmpl op T ea eb i1 i2) = enc_out (arith_spec T (aop_of op) x y).
Proof.
  intros Ht Hx Hy Oa Ob. destruct (int_ok_ty_ok T Ht) as (Tok & _ & _).
  destruct op; cbn [tmpl aop_of].
  - apply safe_add_exact; assumption.
  - apply safe_sub_exact; assumption.
  - apply safe_mul_exact; assumption.
  - apply safe_div_exact; assumption.
  - apply safe_mod_exact; assumption.
Qed.

Local Opaque int_ok sty_ok.

Theorem compile_correct : forall e rho, wt e = true -> env_ok rho e = true -> correct rho e.
Proof.
  induction e as [T v | b | s t | op T ia ib i1 i2 a IHa b IHb | op T a IHa b IHb | op t a IHa b IHb
                 | a IHa b IHb | a IHa b IHb | a IHa | T ic a IHa | c IHc a IHa b IHb];
    intros rho W E; cbn [wt env_ok] in W, E; unfold correct; cbn [ty_of seval compile].
  - (* XInt *)
    apply andb_true_iff in W. destruct W as [_ Hr]. split; [exact Hr|]. intros pre _. reflexivity.
  - (* XBool *)
    split; [destruct b; reflexivity|]. intros pre _. reflexivity.
  - (* XVar *)
    apply andb_true_iff in W. destruct W as [Hs _]. apply negb_true_iff in Hs.
    destruct (lookup rho s) as [v|] eqn:L; [|discriminate]. split; [exact E|].
    intros pre Hp. cbn [leval]. rewrite lookup_pre by assumption. rewrite lookup_lenv, L. reflexivity.
  - (* XBin *)
    repeat (apply andb_true_iff in W; destruct W as [W ?]).
    apply andb_true_iff in E. destruct E as [Ea Eb].
    match goal with H : sty_eqb (ty_of a) _ = true |- _ => apply sty_eqb_eq in H; rename H into Ta end.
    match goal with H : sty_eqb (ty_of b) _ = true |- _ => apply sty_eqb_eq in H; rename H into Tb end.
    destruct (IHa rho ltac:(assumption) Ea) as [Ga Ca]. destruct (IHb rho ltac:(assumption) Eb) as [Gb Cb].
    rewrite Ta in Ga. rewrite Tb in Gb.
    assert (Ht : int_ok T = true) by assumption.
    destruct (int_ok_ty_ok T Ht) as (_ & _ & Hd).
    assert (Cbx : forall w p, tenv p -> leval (("x", w) :: p ++ lenv_of rho) (compile b) = enc_out (seval rho b))
      by (intros w p Hp'; exact (Cb (("x", w) :: p) (tenv_cons _ _ _ res_x Hp'))).
    assert (IA : ia = true -> is_int_lit a = true) by (intros ->; match goal with H : (negb true || _) = true |- _ => exact H end).
    assert (IB : ib = true -> is_int_lit b = true) by (intros ->; match goal with H : (negb true || _) = true |- _ => exact H end).
    destruct (seval rho a) as [x| | |] eqn:Sa; try contradiction.
    2:{ (* a reverts: it is not a literal, so it is bound by `with x` *)
      split; [exact I|]. intros pre Hp.
      destruct ia. { destruct (lit_case a T (IA eq_refl)) as (T' & v' & ->). discriminate Sa. }
      cbn [m_cache leval]. rewrite (Ca pre Hp). reflexivity. }
    destruct (seval rho b) as [y| | |] eqn:Sb; try contradiction.
    2:{ split; [exact I|]. intros pre Hp.
      destruct ib. { destruct (lit_case b T (IB eq_refl)) as (T' & v' & ->). discriminate Sb. }
      destruct ia; cbn [m_cache leval].
      - rewrite (Cb pre Hp). reflexivity.
      - rewrite (Ca pre Hp). cbn [enc_out]. rewrite (Cbx _ pre Hp). reflexivity. }
    pose proof (val_ok_int _ _ Ga) as Rx. pose proof (val_ok_int _ _ Gb) as Ry.
    split.
    { pose proof (arith_spec_good T (aop_of op) x y Hd ltac:(destruct op; discriminate)) as G.
      destruct (arith_spec T (aop_of op) x y); auto. }
    intros pre Hp.
    destruct ia, ib; cbn [m_cache leval].
    + destruct (lit_case a T (IA eq_refl)) as (Ta' & va & ->). destruct (lit_case b T (IB eq_refl)) as (Tb' & vb & ->).
      cbn [seval] in Sa, Sb. inversion Sa; inversion Sb; subst. cbn [compile].
      apply tmpl_exact; auto using opd_lit.
    + destruct (lit_case a T (IA eq_refl)) as (Ta' & va & ->). cbn [seval] in Sa. inversion Sa; subst. cbn [compile].
      rewrite (Cb pre Hp). cbn [enc_out].
      apply tmpl_exact; auto using opd_lit. apply opd_bound_y. reflexivity.
    + destruct (lit_case b T (IB eq_refl)) as (Tb' & vb & ->). cbn [seval] in Sb. inversion Sb; subst. cbn [compile].
      rewrite (Ca pre Hp). cbn [enc_out].
      apply tmpl_exact; auto using opd_lit. apply opd_bound_x. reflexivity.
    + rewrite (Ca pre Hp). cbn [enc_out]. rewrite (Cbx _ pre Hp). cbn [enc_out].
      apply tmpl_exact; auto.
      * apply opd_under_y; [apply opd_bound_x; reflexivity | left; reflexivity].
      * apply opd_bound_y. reflexivity.
  - (* XBit *)
    repeat (apply andb_true_iff in W; destruct W as [W ?]).
    apply andb_true_iff in E. destruct E as [Ea Eb].
    match goal with H : sty_eqb (ty_of a) _ = true |- _ => apply sty_eqb_eq in H; rename H into Ta end.
    match goal with H : sty_eqb (ty_of b) _ = true |- _ => apply sty_eqb_eq in H; rename H into Tb end.
    destruct (IHa rho ltac:(assumption) Ea) as [Ga Ca]. destruct (IHb rho ltac:(assumption) Eb) as [Gb Cb].
    rewrite Ta in Ga. rewrite Tb in Gb.
    match goal with H : negb (nsigned T) = true |- _ => apply negb_true_iff in H; rename H into Hs end.
    destruct (seval rho a) as [x| | |] eqn:Sa; try contradiction.
    2:{ split; [exact I|]. intros pre Hp. cbn [leval]. rewrite (Ca pre Hp). reflexivity. }
    destruct (seval rho b) as [y| | |] eqn:Sb; try contradiction.
    2:{ split; [exact I|]. intros pre Hp. cbn [leval]. rewrite (Ca pre Hp), (Cb pre Hp). reflexivity. }
    destruct (bit_word op T x y ltac:(assumption) Hs (val_ok_int _ _ Ga) (val_ok_int _ _ Gb)) as [Hw Hr].
    split; [exact Hr|]. intros pre Hp. cbn [leval]. rewrite (Ca pre Hp), (Cb pre Hp). cbn [enc_out]. unfold enc. rewrite Hw. reflexivity.
  - (* XCmp *)
    repeat (apply andb_true_iff in W; destruct W as [W ?]).
    apply andb_true_iff in E. destruct E as [Ea Eb].
    match goal with H : sty_eqb (ty_of a) _ = true |- _ => apply sty_eqb_eq in H; rename H into Ta end.
    match goal with H : sty_eqb (ty_of b) _ = true |- _ => apply sty_eqb_eq in H; rename H into Tb end.
    destruct (IHa rho ltac:(assumption) Ea) as [Ga Ca]. destruct (IHb rho ltac:(assumption) Eb) as [Gb Cb].
    rewrite Ta in Ga. rewrite Tb in Gb.
    destruct (seval rho a) as [x| | |] eqn:Sa; try contradiction.
    2:{ split; [exact I|]. intros pre Hp. cbn [leval]. rewrite (Ca pre Hp). reflexivity. }
    destruct (seval rho b) as [y| | |] eqn:Sb; try contradiction.
    2:{ split; [exact I|]. intros pre Hp. cbn [leval]. rewrite (Ca pre Hp), (Cb pre Hp). reflexivity. }
    split; [cbn; destruct (cmp_fun op x y); reflexivity|].
    intros pre Hp. cbn [leval]. rewrite (Ca pre Hp), (Cb pre Hp). cbn [enc_out].
    unfold enc. rewrite (cmp_word op t x y) by assumption. rewrite b2z_wrap. reflexivity.
  - (* XAnd *)
    repeat (apply andb_true_iff in W; destruct W as [W ?]).
    apply andb_true_iff in E. destruct E as [Ea Eb].
    match goal with H : sty_eqb (ty_of a) _ = true |- _ => apply sty_eqb_eq in H; rename H into Ta end.
    match goal with H : sty_eqb (ty_of b) _ = true |- _ => apply sty_eqb_eq in H; rename H into Tb end.
    destruct (IHa rho ltac:(assumption) Ea) as [Ga Ca]. destruct (IHb rho ltac:(assumption) Eb) as [Gb Cb].
    rewrite Ta in Ga. rewrite Tb in Gb.
    destruct (seval rho a) as [x| | |] eqn:Sa; try contradiction.
    2:{ split; [exact I|]. intros pre Hp. cbn [leval]. rewrite (Ca pre Hp). reflexivity. }
    destruct (val_ok_bool _ Ga) as [-> | ->]; cbn [Z.eqb].
    + split; [reflexivity|]. intros pre Hp. cbn [leval]. rewrite (Ca pre Hp). reflexivity.
    + split; [exact Gb|]. intros pre Hp. cbn [leval]. rewrite (Ca pre Hp). cbn [enc_out].
      change (wrap 1 =? 0) with false. cbv iota. apply Cb; assumption.
  - (* XOr *)
    repeat (apply andb_true_iff in W; destruct W as [W ?]).
    apply andb_true_iff in E. destruct E as [Ea Eb].
    match goal with H : sty_eqb (ty_of a) _ = true |- _ => apply sty_eqb_eq in H; rename H into Ta end.
    match goal with H : sty_eqb (ty_of b) _ = true |- _ => apply sty_eqb_eq in H; rename H into Tb end.
    destruct (IHa rho ltac:(assumption) Ea) as [Ga Ca]. destruct (IHb rho ltac:(assumption) Eb) as [Gb Cb].
    rewrite Ta in Ga. rewrite Tb in Gb.
    destruct (seval rho a) as [x| | |] eqn:Sa; try contradiction.
    2:{ split; [exact I|]. intros pre Hp. cbn [leval]. rewrite (Ca pre Hp). reflexivity. }
    destruct (val_ok_bool _ Ga) as [-> | ->]; cbn [Z.eqb].
    + split; [exact Gb|]. intros pre Hp. cbn [leval]. rewrite (Ca pre Hp). cbn [enc_out].
      change (wrap 0 =? 0) with true. cbv iota. apply Cb; assumption.
    + split; [reflexivity|]. intros pre Hp. cbn [leval]. rewrite (Ca pre Hp). reflexivity.
  - (* XNot *)
    apply andb_true_iff in W. destruct W as [Wa Ta]. apply sty_eqb_eq in Ta.
    destruct (IHa rho Wa E) as [Ga Ca]. rewrite Ta in Ga.
    destruct (seval rho a) as [x| | |] eqn:Sa; try contradiction.
    2:{ split; [exact I|]. intros pre Hp. cbn [leval]. rewrite (Ca pre Hp). reflexivity. }
    split; [cbn; destruct (x =? 0); reflexivity|].
    intros pre Hp. cbn [leval]. rewrite (Ca pre Hp). cbn [enc_out ev1].
    destruct (val_ok_bool _ Ga) as [-> | ->]; reflexivity.
  - (* XNeg *)
    repeat (apply andb_true_iff in W; destruct W as [W ?]).
    match goal with H : sty_eqb (ty_of a) _ = true |- _ => apply sty_eqb_eq in H; rename H into Ta end.
    destruct (IHa rho ltac:(assumption) E) as [Ga Ca]. rewrite Ta in Ga.
    assert (Ht : int_ok T = true) by assumption.
    assert (Hs : nsigned T = true) by assumption.
    destruct (int_ok_ty_ok T Ht) as (_ & Hk & Hd).
    assert (IC : ic = true -> is_int_lit a = true) by (intros ->; match goal with H : (negb true || _) = true |- _ => exact H end).
    destruct (seval rho a) as [x| | |] eqn:Sa; try contradiction.
    2:{ split; [exact I|]. intros pre Hp.
      destruct ic. { destruct (lit_case a T (IC eq_refl)) as (T' & v' & ->). discriminate Sa. }
      cbn [m_cache leval]. rewrite (Ca pre Hp). reflexivity. }
    pose proof (val_ok_int _ _ Ga) as Rx.
    destruct T as [k s d]. cbn [nsigned nbytes ndec] in *. subst s d.
    pose proof (range_bounds k true false x ltac:(lia) Rx) as Bx. cbn beta iota in Bx.
    assert (HbH : Hb k <= HALF).
    { destruct (Z.eq_dec k 32) as [->|]; [rewrite Hb_32; lia|]. pose proof (Hb_le247 k ltac:(lia)). rewrite P247_val in *. wl. }
    pose proof (Hb_pos k ltac:(lia)) as HbP.
    assert (Sx : sword x) by (unfold sword; wl).
    assert (Sl : sword (- Hb k)) by (unfold sword; wl).
    cbn [arith_spec]. unfold chk.
    assert (Key : forall e0 er, leval e0 er = Val (wrap x) ->
              leval e0 (L2 OSub (LInt 0) (LSeq (LAssert (L2 OSgt er (LInt (ty_lo (Build_nty k true false))))) er))
              = enc_out (if in_rangeb (Build_nty k true false) (- x) then Val (- x) else Revert)).
    { intros e0 er Her. rewrite ty_lo_s. cbn [leval]. rewrite Her. cbn [ev2]. unfold w_sgt.
      rewrite (ts_wrap x Sx), (ts_wrap (- Hb k) Sl).
      destruct (x >? - Hb k) eqn:Gt.
      - cbn [b2z Z.eqb].
        replace (in_rangeb (Build_nty k true false) (- x)) with true.
        2:{ symmetry. apply in_rangeb_iff. unfold in_range. rewrite ty_lo_s, ty_hi_s. lia. }
        cbn [enc_out ev2]. rewrite w_sub_wrap. unfold enc. do 2 f_equal.
      - cbn [b2z Z.eqb].
        replace (in_rangeb (Build_nty k true false) (- x)) with false; [reflexivity|].
        symmetry. apply not_true_iff_false. intros C. apply in_rangeb_iff in C. unfold in_range in C.
        rewrite ty_lo_s, ty_hi_s in C. lia. }
    split.
    { destruct (in_rangeb (Build_nty k true false) (- x)) eqn:R; [exact R | exact I]. }
    intros pre Hp. destruct ic; cbn [m_cache].
    + destruct (lit_case a (Build_nty k true false) (IC eq_refl)) as (T' & v' & ->). cbn [seval] in Sa. inversion Sa; subst. cbn [compile].
      apply Key. reflexivity.
    + (* with clamp_arg *)
      rewrite ty_lo_s. cbn [leval]. rewrite (Ca pre Hp). cbn [enc_out lookup String.eqb Ascii.eqb Bool.eqb ev2].
      unfold enc, w_sgt. rewrite (ts_wrap x Sx), (ts_wrap (- Hb k) Sl).
      destruct (x >? - Hb k) eqn:Gt.
      * cbn [b2z Z.eqb].
        replace (in_rangeb (Build_nty k true false) (- x)) with true.
        2:{ symmetry. apply in_rangeb_iff. unfold in_range. rewrite ty_lo_s, ty_hi_s. lia. }
        cbn [enc_out ev2]. rewrite w_sub_wrap. unfold enc. do 2 f_equal.
      * cbn [b2z Z.eqb].
        replace (in_rangeb (Build_nty k true false) (- x)) with false; [reflexivity|].
        symmetry. apply not_true_iff_false. intros C. apply in_rangeb_iff in C. unfold in_range in C.
        rewrite ty_lo_s, ty_hi_s in C. lia.
  - (* XIf *)
    repeat (apply andb_true_iff in W; destruct W as [W ?]).
    repeat (apply andb_true_iff in E; destruct E as [E ?]).
    match goal with H : sty_eqb (ty_of c) _ = true |- _ => apply sty_eqb_eq in H; rename H into Tc end.
    match goal with H : sty_eqb (ty_of a) _ = true |- _ => apply sty_eqb_eq in H; rename H into Tab end.
    destruct (IHc rho ltac:(assumption) ltac:(assumption)) as [Gc Cc].
    destruct (IHa rho ltac:(assumption) ltac:(assumption)) as [Ga Ca].
    destruct (IHb rho ltac:(assumption) ltac:(assumption)) as [Gb Cb].
    rewrite Tc in Gc. rewrite <- Tab in Gb.
    destruct (seval rho c) as [x| | |] eqn:Sc; try contradiction.
    2:{ split; [exact I|]. intros pre Hp. cbn [leval]. rewrite (Cc pre Hp). reflexivity. }
    destruct (val_ok_bool _ Gc) as [-> | ->]; cbn [Z.eqb].
    + split; [exact Gb|]. intros pre Hp. cbn [leval]. rewrite (Cc pre Hp). cbn [enc_out].
      change (wrap 0 =? 0) with true. cbv iota. apply Cb; assumption.
    + split; [exact Ga|]. intros pre Hp. cbn [leval]. rewrite (Cc pre Hp). cbn [enc_out].
      change (wrap 1 =? 0) with false. cbv iota. apply Ca; assumption.
Qed.
