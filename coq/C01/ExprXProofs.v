(* ycompile_correct: for every well-typed expression of the larger fragment (ExprX.v: integers, decimals, flags, bool;
   checked arithmetic, bitwise operations, shifts, ~, flag membership, comparisons, and / or / not, unary minus,
   if-expressions; leaves = locals and state variables), every assignment of cache flags in which only literals are
   inlined, and every environment binding the leaves to values of their types, the IR produced by the re-implemented
   legacy expression lowering evaluates (C03/LIR.v leval) to exactly the source meaning: the encoded value, or Revert.
   Structural induction; arithmetic templates by C03's exactness theorems (which cover decimals), the operators that
   cannot revert by ExprXWord.lw2_correct / lw1_correct. *)
From Coq Require Import ZArith Bool List String Lia ZifyBool.
From Verif Require Import Base.Word256 C03.LIR C03.ArithSpec C03.WordArith C03.TypeLemmas C03.ArithModel C03.LegacyExact
  C01.ExprCompile C01.ExprCompileProofs C01.ExprX C01.ExprXWord.
Import ListNotations.
Open Scope string_scope.
Open Scope Z_scope.
Open Scope list_scope.

Definition ygood (t : yty) (o : outcome) : Prop :=
  match o with Val v => yval_ok t v = true | Revert => True | _ => False end.

Definition ycorrect (rho : senv) (e : yexpr) : Prop :=
  ygood (yty_of e) (yeval rho e) /\
  forall pre, tenv pre -> leval (pre ++ lenv_of rho) (ycompile e) = enc_out (yeval rho e).

Lemma arith_good T op x y : op <> APow ->
  match arith_spec T op x y with Val v => in_rangeb T v = true | Revert => True | _ => False end.
Proof.
  intros Hp. destruct op; cbn [arith_spec]; try apply chk_good; try congruence.
  - destruct (ndec T); apply chk_good.
  - destruct (y =? 0); [exact I|]. destruct (ndec T); apply chk_good.
  - destruct (y =? 0); [exact I | apply chk_good].
Qed.

Lemma ytmpl_exact op T e ea eb i1 i2 x y :
  ty_ok T -> in_range T x -> in_range T y -> opd e ea x -> opd e eb y ->
  leval e (tmpl op T ea eb i1 i2) = enc_out (arith_spec T (aop_of op) x y).
Proof.
  intros Tok Hx Hy Oa Ob. destruct op; cbn [tmpl aop_of].
  - apply safe_add_exact; assumption.
  - apply safe_sub_exact; assumption.
  - apply safe_mul_exact; assumption.
  - apply safe_div_exact; assumption.
  - apply safe_mod_exact; assumption.
Qed.

Lemma ylit_case e : y_is_lit e = true -> exists t v, e = YLit t v.
Proof. destruct e; try discriminate. eauto. Qed.

Lemma name_ok_res s : name_ok s = true -> reserved s = false.
Proof. unfold name_ok. intros H. apply andb_true_iff in H. destruct H as [H _]. apply negb_true_iff in H. exact H. Qed.

(* the chain of iszero *)
Lemma isz_l_val e j t w : leval e t = Val w -> leval e (isz_l j t) = Val (isz_w j w).
Proof. intros H. induction j as [|j IH]; cbn [isz_l isz_w leval]; [exact H|]. rewrite IH. reflexivity. Qed.
Lemma isz_l_rev e j t : leval e t = Revert -> leval e (isz_l j t) = Revert.
Proof. intros H. induction j as [|j IH]; cbn [isz_l leval]; [exact H|]. rewrite IH. reflexivity. Qed.

(* the left operand (second IR argument) is evaluated first *)
Lemma lp2_rev_a e o cb ca : leval e ca = Revert -> leval e (lp2 o cb ca) = Revert.
Proof. intros H. unfold lp2. apply isz_l_rev. cbn [leval]. rewrite H. reflexivity. Qed.
Lemma lp2_rev_b e o cb ca wx : leval e ca = Val wx -> leval e cb = Revert -> leval e (lp2 o cb ca) = Revert.
Proof. intros Ha Hb. unfold lp2. apply isz_l_rev. cbn [leval]. rewrite Ha, Hb. reflexivity. Qed.
Lemma lp2_val e o cb ca wx wy : leval e ca = Val wx -> leval e cb = Val wy -> leval e (lp2 o cb ca) = Val (lw2 o wy wx).
Proof. intros Ha Hb. unfold lp2, lw2. apply isz_l_val. cbn [leval]. rewrite Ha, Hb. reflexivity. Qed.

Lemma lp1_rev e o ca : leval e ca = Revert -> leval e (lp1 o ca) = Revert.
Proof. intros H. destruct o; cbn [lp1 leval]; rewrite H; reflexivity. Qed.
Lemma lp1_val e o ca wx : leval e ca = Val wx -> leval e (lp1 o ca) = Val (lw1 o wx).
Proof. intros H. destruct o; cbn [lp1 lw1 leval]; rewrite H; reflexivity. Qed.

Local Opaque num_ok yty_ok p2_ok p1_ok name_ok.

Theorem ycompile_correct : forall e rho, ywt true e = true -> yenv_ok rho e = true -> ycorrect rho e.
Proof.
  induction e as [t v | s t | op T ia ib i1 i2 a IHa b IHb | o a IHa b IHb | o a IHa
                 | a IHa b IHb | a IHa b IHb | T ic a IHa | c IHc a IHa b IHb];
    intros rho Wt E; cbn [ywt yenv_ok negb orb] in Wt, E; unfold ycorrect; cbn [yty_of yeval ycompile].
  - (* YLit *)
    apply andb_true_iff in Wt. destruct Wt as [_ Hr]. split; [exact Hr|]. intros pre _. reflexivity.
  - (* YVar *)
    apply andb_true_iff in Wt. destruct Wt as [Hs _]. apply name_ok_res in Hs.
    destruct (lookup rho s) as [v|] eqn:L; [|discriminate]. split; [exact E|].
    intros pre Hp. cbn [leval]. rewrite lookup_pre by assumption. rewrite lookup_lenv, L. reflexivity.
  - (* YBin *)
    repeat (apply andb_true_iff in Wt; destruct Wt as [Wt ?]).
    apply andb_true_iff in E. destruct E as [Ea Eb].
    match goal with H : (_ && _) = true |- _ => apply andb_true_iff in H; destruct H end.
    match goal with H : yty_eqb (yty_of a) _ = true |- _ => apply yty_eqb_eq in H; rename H into Ta end.
    match goal with H : yty_eqb (yty_of b) _ = true |- _ => apply yty_eqb_eq in H; rename H into Tb end.
    destruct (IHa rho ltac:(assumption) Ea) as [Ga Ca]. destruct (IHb rho ltac:(assumption) Eb) as [Gb Cb].
    rewrite Ta in Ga. rewrite Tb in Gb.
    assert (Ht : num_ok T = true) by assumption.
    destruct (num_ok_ty_ok T Ht) as (Tok & _).
    assert (Cbx : forall w p, tenv p -> leval (("x", w) :: p ++ lenv_of rho) (ycompile b) = enc_out (yeval rho b))
      by (intros w p Hp'; exact (Cb (("x", w) :: p) (tenv_cons _ _ _ res_x Hp'))).
    assert (IA : ia = true -> y_is_lit a = true) by (intros ->; match goal with H : (negb true || _) = true |- _ => exact H end).
    assert (IB : ib = true -> y_is_lit b = true) by (intros ->; match goal with H : (negb true || _) = true |- _ => exact H end).
    destruct (yeval rho a) as [x| | |] eqn:Sa; try contradiction.
    2:{ split; [exact I|]. intros pre Hp.
      destruct ia. { destruct (ylit_case a (IA eq_refl)) as (T' & v' & ->). discriminate Sa. }
      cbn [m_cache leval]. rewrite (Ca pre Hp). reflexivity. }
    destruct (yeval rho b) as [y| | |] eqn:Sb; try contradiction.
    2:{ split; [exact I|]. intros pre Hp.
      destruct ib. { destruct (ylit_case b (IB eq_refl)) as (T' & v' & ->). discriminate Sb. }
      destruct ia; cbn [m_cache leval].
      - rewrite (Cb pre Hp). reflexivity.
      - rewrite (Ca pre Hp). cbn [enc_out]. rewrite (Cbx _ pre Hp). reflexivity. }
    pose proof (yval_int _ _ Ga) as Rx. pose proof (yval_int _ _ Gb) as Ry.
    split.
    { pose proof (arith_good T (aop_of op) x y ltac:(destruct op; discriminate)) as G.
      destruct (arith_spec T (aop_of op) x y); auto. }
    intros pre Hp.
    destruct ia, ib; cbn [m_cache leval].
    + destruct (ylit_case a (IA eq_refl)) as (Ta' & va & ->). destruct (ylit_case b (IB eq_refl)) as (Tb' & vb & ->).
      cbn [yeval] in Sa, Sb. inversion Sa; inversion Sb; subst. cbn [ycompile].
      apply ytmpl_exact; auto using opd_lit.
    + destruct (ylit_case a (IA eq_refl)) as (Ta' & va & ->). cbn [yeval] in Sa. inversion Sa; subst. cbn [ycompile].
      rewrite (Cb pre Hp). cbn [enc_out].
      apply ytmpl_exact; auto using opd_lit. apply opd_bound_y. reflexivity.
    + destruct (ylit_case b (IB eq_refl)) as (Tb' & vb & ->). cbn [yeval] in Sb. inversion Sb; subst. cbn [ycompile].
      rewrite (Ca pre Hp). cbn [enc_out].
      apply ytmpl_exact; auto using opd_lit. apply opd_bound_x. reflexivity.
    + rewrite (Ca pre Hp). cbn [enc_out]. rewrite (Cbx _ pre Hp). cbn [enc_out].
      apply ytmpl_exact; auto.
      * apply opd_under_y; [apply opd_bound_x; reflexivity | left; reflexivity].
      * apply opd_bound_y. reflexivity.
  - (* YP2 *)
    repeat (apply andb_true_iff in Wt; destruct Wt as [Wt ?]).
    apply andb_true_iff in E. destruct E as [Ea Eb].
    match goal with H : yty_eqb (yty_of a) _ = true |- _ => apply yty_eqb_eq in H; rename H into Ta end.
    match goal with H : yty_eqb (yty_of b) _ = true |- _ => apply yty_eqb_eq in H; rename H into Tb end.
    destruct (IHa rho ltac:(assumption) Ea) as [Ga Ca]. destruct (IHb rho ltac:(assumption) Eb) as [Gb Cb].
    rewrite Ta in Ga. rewrite Tb in Gb.
    destruct (yeval rho a) as [x| | |] eqn:Sa; try contradiction.
    2:{ split; [exact I|]. intros pre Hp. apply lp2_rev_a. rewrite (Ca pre Hp). reflexivity. }
    destruct (yeval rho b) as [y| | |] eqn:Sb; try contradiction.
    2:{ split; [exact I|]. intros pre Hp. eapply lp2_rev_b; [rewrite (Ca pre Hp) | rewrite (Cb pre Hp)]; reflexivity. }
    destruct (lw2_correct o x y ltac:(assumption) Ga Gb) as [Hw Hr].
    split; [exact Hr|]. intros pre Hp.
    rewrite (lp2_val _ o _ _ (wrap x) (wrap y)); [| rewrite (Ca pre Hp); reflexivity | rewrite (Cb pre Hp); reflexivity].
    rewrite Hw. reflexivity.
  - (* YP1 *)
    repeat (apply andb_true_iff in Wt; destruct Wt as [Wt ?]).
    match goal with H : yty_eqb (yty_of a) _ = true |- _ => apply yty_eqb_eq in H; rename H into Ta end.
    destruct (IHa rho ltac:(assumption) E) as [Ga Ca]. rewrite Ta in Ga.
    destruct (yeval rho a) as [x| | |] eqn:Sa; try contradiction.
    2:{ split; [exact I|]. intros pre Hp. apply lp1_rev. rewrite (Ca pre Hp). reflexivity. }
    destruct (lw1_correct o x ltac:(assumption) Ga) as [Hw Hr].
    split; [exact Hr|]. intros pre Hp.
    rewrite (lp1_val _ o _ (wrap x)) by (rewrite (Ca pre Hp); reflexivity). rewrite Hw. reflexivity.
  - (* YAnd *)
    repeat (apply andb_true_iff in Wt; destruct Wt as [Wt ?]).
    apply andb_true_iff in E. destruct E as [Ea Eb].
    match goal with H : yty_eqb (yty_of a) _ = true |- _ => apply yty_eqb_eq in H; rename H into Ta end.
    match goal with H : yty_eqb (yty_of b) _ = true |- _ => apply yty_eqb_eq in H; rename H into Tb end.
    destruct (IHa rho ltac:(assumption) Ea) as [Ga Ca]. destruct (IHb rho ltac:(assumption) Eb) as [Gb Cb].
    rewrite Ta in Ga. rewrite Tb in Gb.
    destruct (yeval rho a) as [x| | |] eqn:Sa; try contradiction.
    2:{ split; [exact I|]. intros pre Hp. cbn [leval]. rewrite (Ca pre Hp). reflexivity. }
    destruct (yval_bool _ Ga) as [-> | ->]; cbn [Z.eqb].
    + split; [reflexivity|]. intros pre Hp. cbn [leval]. rewrite (Ca pre Hp). reflexivity.
    + split; [exact Gb|]. intros pre Hp. cbn [leval]. rewrite (Ca pre Hp). cbn [enc_out].
      change (wrap 1 =? 0) with false. cbv iota. apply Cb; assumption.
  - (* YOr *)
    repeat (apply andb_true_iff in Wt; destruct Wt as [Wt ?]).
    apply andb_true_iff in E. destruct E as [Ea Eb].
    match goal with H : yty_eqb (yty_of a) _ = true |- _ => apply yty_eqb_eq in H; rename H into Ta end.
    match goal with H : yty_eqb (yty_of b) _ = true |- _ => apply yty_eqb_eq in H; rename H into Tb end.
    destruct (IHa rho ltac:(assumption) Ea) as [Ga Ca]. destruct (IHb rho ltac:(assumption) Eb) as [Gb Cb].
    rewrite Ta in Ga. rewrite Tb in Gb.
    destruct (yeval rho a) as [x| | |] eqn:Sa; try contradiction.
    2:{ split; [exact I|]. intros pre Hp. cbn [leval]. rewrite (Ca pre Hp). reflexivity. }
    destruct (yval_bool _ Ga) as [-> | ->]; cbn [Z.eqb].
    + split; [exact Gb|]. intros pre Hp. cbn [leval]. rewrite (Ca pre Hp). cbn [enc_out].
      change (wrap 0 =? 0) with true. cbv iota. apply Cb; assumption.
    + split; [reflexivity|]. intros pre Hp. cbn [leval]. rewrite (Ca pre Hp). reflexivity.
  - (* YNeg *)
    repeat (apply andb_true_iff in Wt; destruct Wt as [Wt ?]).
    match goal with H : yty_eqb (yty_of a) _ = true |- _ => apply yty_eqb_eq in H; rename H into Ta end.
    destruct (IHa rho ltac:(assumption) E) as [Ga Ca]. rewrite Ta in Ga.
    assert (Ht : num_ok T = true) by assumption.
    assert (Hs : nsigned T = true) by assumption.
    destruct (num_ok_ty_ok T Ht) as (_ & Hk).
    assert (IC : ic = true -> y_is_lit a = true) by (intros ->; match goal with H : (negb true || _) = true |- _ => exact H end).
    destruct (yeval rho a) as [x| | |] eqn:Sa; try contradiction.
    2:{ split; [exact I|]. intros pre Hp.
      destruct ic. { destruct (ylit_case a (IC eq_refl)) as (T' & v' & ->). discriminate Sa. }
      cbn [m_cache leval]. rewrite (Ca pre Hp). reflexivity. }
    pose proof (yval_int _ _ Ga) as Rx.
    destruct T as [k s d]. cbn [nsigned nbytes ndec] in *. subst s.
    pose proof (range_bounds k true d x ltac:(lia) Rx) as Bx. cbn beta iota in Bx.
    assert (HbH : Hb k <= HALF).
    { destruct (Z.eq_dec k 32) as [->|]; [rewrite Hb_32; lia|]. pose proof (Hb_le247 k ltac:(lia)). rewrite P247_val in *. wl. }
    pose proof (Hb_pos k ltac:(lia)) as HbP.
    assert (Sx : sword x) by (unfold sword; wl).
    assert (Sl : sword (- Hb k)) by (unfold sword; wl).
    cbn [arith_spec]. unfold chk.
    assert (Key : forall e0 er, leval e0 er = Val (wrap x) ->
              leval e0 (L2 OSub (LInt 0) (LSeq (LAssert (L2 OSgt er (LInt (ty_lo (Build_nty k true d))))) er))
              = enc_out (if in_rangeb (Build_nty k true d) (- x) then Val (- x) else Revert)).
    { intros e0 er Her. rewrite ty_lo_s. cbn [leval]. rewrite Her. cbn [ev2]. unfold w_sgt.
      rewrite (ts_wrap x Sx), (ts_wrap (- Hb k) Sl).
      destruct (x >? - Hb k) eqn:Gt.
      - cbn [b2z Z.eqb].
        replace (in_rangeb (Build_nty k true d) (- x)) with true.
        2:{ symmetry. apply in_rangeb_iff. unfold in_range. rewrite ty_lo_s, ty_hi_s. lia. }
        cbn [enc_out ev2]. rewrite w_sub_wrap. unfold enc. do 2 f_equal.
      - cbn [b2z Z.eqb].
        replace (in_rangeb (Build_nty k true d) (- x)) with false; [reflexivity|].
        symmetry. apply not_true_iff_false. intros C. apply in_rangeb_iff in C. unfold in_range in C.
        rewrite ty_lo_s, ty_hi_s in C. lia. }
    split.
    { cbn [yval_ok]. destruct (in_rangeb (Build_nty k true d) (- x)) eqn:R; [exact R | exact I]. }
    intros pre Hp. destruct ic; cbn [m_cache].
    + destruct (ylit_case a (IC eq_refl)) as (T' & v' & ->). cbn [yeval] in Sa. inversion Sa; subst. cbn [ycompile].
      apply Key. reflexivity.
    + (* with clamp_arg *)
      rewrite ty_lo_s. cbn [leval]. rewrite (Ca pre Hp). cbn [enc_out lookup String.eqb Ascii.eqb Bool.eqb ev2].
      unfold enc, w_sgt. rewrite (ts_wrap x Sx), (ts_wrap (- Hb k) Sl).
      destruct (x >? - Hb k) eqn:Gt.
      * cbn [b2z Z.eqb].
        replace (in_rangeb (Build_nty k true d) (- x)) with true.
        2:{ symmetry. apply in_rangeb_iff. unfold in_range. rewrite ty_lo_s, ty_hi_s. lia. }
        cbn [enc_out ev2]. rewrite w_sub_wrap. unfold enc. do 2 f_equal.
      * cbn [b2z Z.eqb].
        replace (in_rangeb (Build_nty k true d) (- x)) with false; [reflexivity|].
        symmetry. apply not_true_iff_false. intros C. apply in_rangeb_iff in C. unfold in_range in C.
        rewrite ty_lo_s, ty_hi_s in C. lia.
  - (* YIf *)
    repeat (apply andb_true_iff in Wt; destruct Wt as [Wt ?]).
    repeat (apply andb_true_iff in E; destruct E as [E ?]).
    match goal with H : yty_eqb (yty_of c) _ = true |- _ => apply yty_eqb_eq in H; rename H into Tc end.
    match goal with H : yty_eqb (yty_of a) _ = true |- _ => apply yty_eqb_eq in H; rename H into Tab end.
    destruct (IHc rho ltac:(assumption) ltac:(assumption)) as [Gc Cc].
    destruct (IHa rho ltac:(assumption) ltac:(assumption)) as [Ga Ca].
    destruct (IHb rho ltac:(assumption) ltac:(assumption)) as [Gb Cb].
    rewrite Tc in Gc. rewrite <- Tab in Gb.
    destruct (yeval rho c) as [x| | |] eqn:Sc; try contradiction.
    2:{ split; [exact I|]. intros pre Hp. cbn [leval]. rewrite (Cc pre Hp). reflexivity. }
    destruct (yval_bool _ Gc) as [-> | ->]; cbn [Z.eqb].
    + split; [exact Gb|]. intros pre Hp. cbn [leval]. rewrite (Cc pre Hp). cbn [enc_out].
      change (wrap 0 =? 0) with true. cbv iota. apply Cb; assumption.
    + split; [exact Ga|]. intros pre Hp. cbn [leval]. rewrite (Cc pre Hp). cbn [enc_out].
      change (wrap 1 =? 0) with false. cbv iota. apply Ca; assumption.
Qed.
