(* ExprCompile: a Gallina re-implementation of the legacy front end's expression lowering
     vyper/codegen/expr.py  Expr.parse_Int / parse_NameConstant / parse_Name (locals) / parse_BinOp (handle_binop:
     + - * // % via arithmetic.safe_*, & | ^) / parse_Compare / parse_BoolOp / parse_UnaryOp (not, USub) / parse_IfExp
   for integer / bool expressions over local variables, producing the legacy s-expression IR (C03/LIR.v), and the
   source-level meaning of such expressions.  Definitions only; the theorem is in ExprCompileProofs.v.

   The arithmetic templates are C03's (ArithModel.v: m_safe_add ...), whose exactness C03 proves and whose equality with
   the real generators' output C03 checks on every run.  What is added here is everything around them: operand caching
   (`with x <left> (with y <right> ...)`), the mirrored comparison, short-circuit `if`s, USub's clamp, nesting.

   Cache decisions: IRnode.cache_when_complex binds its node with `with` unless the *optimised* node is not complex.  The
   decision depends on vyper/ir/optimizer.py, so every cache point carries a flag (true = inlined); the theorem holds
   for every flag assignment in which only literals are inlined, and the tie (GenExprTie.v) records the flags the real
   compiler chose.  A local variable is the IR term (mload <addr>); the exporter writes it as the LIR variable
   "m<addr>" (expressions of this fragment write no memory). *)
From Coq Require Import ZArith Bool List String.
From Verif Require Import Base.Word256 C03.LIR C03.ArithSpec C03.ArithModel.
Import ListNotations.
Open Scope string_scope.
Open Scope Z_scope.

Inductive bop := BAdd | BSub | BMul | BDiv | BMod.
Inductive bitop := BitAnd | BitOr | BitXor.
Inductive cop := CLt | CLe | CGt | CGe | CEq | CNe.
Inductive sty := SInt (T : nty) | SBool.

Inductive sexpr :=
| XInt (T : nty) (v : Z)                              (* integer literal typed T *)
| XBool (b : bool)
| XVar (s : string) (t : sty)                         (* local variable *)
| XBin (op : bop) (T : nty) (ia ib i1 i2 : bool) (a b : sexpr)
| XBit (op : bitop) (T : nty) (a b : sexpr)           (* unsigned T *)
| XCmp (op : cop) (t : sty) (a b : sexpr)             (* t = type of both operands *)
| XAnd (a b : sexpr)
| XOr (a b : sexpr)
| XNot (a : sexpr)
| XNeg (T : nty) (ic : bool) (a : sexpr)
| XIf (c a b : sexpr).

(* ---------------- typing ---------------- *)
Definition nty_eqb (A B : nty) : bool :=
  (nbytes A =? nbytes B) && Bool.eqb (nsigned A) (nsigned B) && Bool.eqb (ndec A) (ndec B).
Definition sty_eqb (a b : sty) : bool :=
  match a, b with SInt A, SInt B => nty_eqb A B | SBool, SBool => true | _, _ => false end.
Definition int_ok (T : nty) : bool := (1 <=? nbytes T) && (nbytes T <=? 32) && negb (ndec T).

(* names the compiler uses for its own `with` bindings; locals must differ from them *)
Definition reserved (s : string) : bool :=
  String.eqb s "x" || String.eqb s "y" || String.eqb s "ans" || String.eqb s "val" || String.eqb s "res"
  || String.eqb s "clamp_arg".

Definition is_int_lit (e : sexpr) : bool := match e with XInt _ _ => true | _ => false end.
Definition is_var (e : sexpr) : bool := match e with XVar _ _ => true | _ => false end.

Fixpoint ty_of (e : sexpr) : sty :=
  match e with
  | XInt T _ => SInt T
  | XBool _ => SBool
  | XVar _ t => t
  | XBin _ T _ _ _ _ _ _ => SInt T
  | XBit _ T _ _ => SInt T
  | XCmp _ _ _ _ => SBool
  | XAnd _ _ | XOr _ _ | XNot _ => SBool
  | XNeg T _ _ => SInt T
  | XIf _ a _ => ty_of a
  end.

Definition sty_ok (t : sty) : bool := match t with SInt T => int_ok T | SBool => true end.

(* well-typed, and only literals are inlined at cache points *)
Fixpoint wt (e : sexpr) : bool :=
  match e with
  | XInt T v => int_ok T && in_rangeb T v
  | XBool _ => true
  | XVar s t => negb (reserved s) && sty_ok t
  | XBin _ T ia ib _ _ a b =>
      int_ok T && wt a && wt b && sty_eqb (ty_of a) (SInt T) && sty_eqb (ty_of b) (SInt T)
      && (negb ia || is_int_lit a) && (negb ib || is_int_lit b)
  | XBit _ T a b =>
      int_ok T && negb (nsigned T) && wt a && wt b && sty_eqb (ty_of a) (SInt T) && sty_eqb (ty_of b) (SInt T)
  | XCmp op t a b =>
      sty_ok t && wt a && wt b && sty_eqb (ty_of a) t && sty_eqb (ty_of b) t
      && match t, op with SBool, CEq | SBool, CNe => true | SBool, _ => false | _, _ => true end
  | XAnd a b | XOr a b => wt a && wt b && sty_eqb (ty_of a) SBool && sty_eqb (ty_of b) SBool
  | XNot a => wt a && sty_eqb (ty_of a) SBool
  | XNeg T ic a => int_ok T && nsigned T && wt a && sty_eqb (ty_of a) (SInt T) && (negb ic || is_int_lit a)
  (* a branch that is a bare variable makes parse_IfExp select between *locations* (or copy to memory): outside LIR *)
  | XIf c a b => wt c && wt a && wt b && sty_eqb (ty_of c) SBool && sty_eqb (ty_of a) (ty_of b)
                 && negb (is_var a) && negb (is_var b)
  end.

(* ---------------- source meaning ---------------- *)
(* values are mathematical integers (bool = 0/1); the outcome type of LIR is reused: Val v | Revert | Stuck *)
Definition senv := list (string * Z).

Definition aop_of (op : bop) : aop :=
  match op with BAdd => AAdd | BSub => ASub | BMul => AMul | BDiv => ADiv | BMod => AMod end.
Definition bit_fun (op : bitop) : Z -> Z -> Z :=
  match op with BitAnd => Z.land | BitOr => Z.lor | BitXor => Z.lxor end.
Definition cmp_fun (op : cop) (x y : Z) : bool :=
  match op with
  | CLt => x <? y | CLe => x <=? y | CGt => x >? y | CGe => x >=? y | CEq => x =? y | CNe => negb (x =? y)
  end.

(* left operand first, then right; `and`/`or`/IfExp evaluate only what they need *)
Fixpoint seval (rho : senv) (e : sexpr) : outcome :=
  match e with
  | XInt _ v => Val v
  | XBool b => Val (b2z b)
  | XVar s _ => match lookup rho s with Some v => Val v | None => Stuck end
  | XBin op T _ _ _ _ a b =>
      match seval rho a with
      | Val x => match seval rho b with
                 | Val y => arith_spec T (aop_of op) x y
                 | o => o end
      | o => o end
  | XBit op _ a b =>
      match seval rho a with
      | Val x => match seval rho b with Val y => Val (bit_fun op x y) | o => o end
      | o => o end
  | XCmp op _ a b =>
      match seval rho a with
      | Val x => match seval rho b with Val y => Val (b2z (cmp_fun op x y)) | o => o end
      | o => o end
  | XAnd a b => match seval rho a with Val x => if x =? 0 then Val 0 else seval rho b | o => o end
  | XOr a b => match seval rho a with Val x => if x =? 0 then seval rho b else Val 1 | o => o end
  | XNot a => match seval rho a with Val x => Val (b2z (x =? 0)) | o => o end
  | XNeg T _ a => match seval rho a with Val x => arith_spec T AUSub x 0 | o => o end
  | XIf c a b => match seval rho c with Val x => if x =? 0 then seval rho b else seval rho a | o => o end
  end.

(* ---------------- the compiler ---------------- *)
Definition tmpl (op : bop) (T : nty) (x y : lir) (i1 i2 : bool) : lir :=
  match op with
  | BAdd => m_safe_add T x y i1
  | BSub => m_safe_sub T x y i1
  | BMul => m_safe_mul T x y i1 i2
  | BDiv => m_safe_div T x y i1
  | BMod => m_safe_mod T x y
  end.

Definition bit_op (op : bitop) : op2 := match op with BitAnd => OAnd | BitOr => OOr | BitXor => OXor end.

Definition is_u256 (t : sty) : bool :=
  match t with SInt T => (nbytes T =? 32) && negb (nsigned T) | SBool => false end.

(* parse_Compare: signed ops for every type but uint256; then the MIRRORED op with swapped operands, so that
   the left operand is evaluated first (IR arguments are evaluated last to first) *)
Definition cmp_op (op : cop) (t : sty) : op2 :=
  let u := is_u256 t in
  match op with
  | CLt => if u then OGt else OSgt
  | CLe => if u then OGe else OSge
  | CGt => if u then OLt else OSlt
  | CGe => if u then OLe else OSle
  | CEq => OEq
  | CNe => ONe
  end.

Fixpoint compile (e : sexpr) : lir :=
  match e with
  | XInt _ v => LInt v
  | XBool b => LInt (b2z b)
  | XVar s _ => LVar s
  | XBin op T ia ib i1 i2 a b =>
      m_cache ia "x" (compile a) (fun x =>
      m_cache ib "y" (compile b) (fun y => tmpl op T x y i1 i2))
  | XBit op _ a b => L2 (bit_op op) (compile b) (compile a)
  | XCmp op t a b => L2 (cmp_op op t) (compile b) (compile a)
  | XAnd a b => LIf (compile a) (compile b) (LInt 0)
  | XOr a b => LIf (compile a) (LInt 1) (compile b)
  | XNot a => L1 OIszero (compile a)
  | XNeg T ic a =>
      L2 OSub (LInt 0)
         (m_cache ic "clamp_arg" (compile a) (fun x => LSeq (LAssert (L2 OSgt x (LInt (ty_lo T)))) x))
  | XIf c a b => LIf (compile c) (compile a) (compile b)
  end.

(* ---------------- environments ---------------- *)
(* the IR environment of a source environment: every local holds the word of its value *)
Definition lenv_of (rho : senv) : env := map (fun p => (fst p, wrap (snd p))) rho.

Definition val_ok (t : sty) (v : Z) : bool :=
  match t with SInt T => in_rangeb T v | SBool => (v =? 0) || (v =? 1) end.

(* every variable of e is bound to a value of its declared type *)
Fixpoint env_ok (rho : senv) (e : sexpr) : bool :=
  match e with
  | XInt _ _ | XBool _ => true
  | XVar s t => match lookup rho s with Some v => val_ok t v | None => false end
  | XBin _ _ _ _ _ _ a b | XBit _ _ a b | XCmp _ _ a b | XAnd a b | XOr a b => env_ok rho a && env_ok rho b
  | XNot a | XNeg _ _ a => env_ok rho a
  | XIf c a b => env_ok rho c && env_ok rho a && env_ok rho b
  end.

(* the tie: the real compiler's IR for a sample equals the model's output *)
Definition tie_ok (e : sexpr) (t : lir) : bool := wt e && lir_eqb (compile e) t.
