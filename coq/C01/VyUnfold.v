(* Unfolding equations of the VyCore interpreter (one step of fuel).  GENERATED from VyCore.v by
   tools/vlib/c01_unfold_gen.py (copies the function bodies); each is proved by reflexivity, so a copy error
   cannot go unnoticed. *)
From Coq Require Import ZArith List Bool.
From Verif Require Import C01.VyCore.
Import ListNotations.
Open Scope Z_scope.

Section Unfold.
Variable P : prog.    (*section*)
Variable ce : cenv.   (*section*)
Let eval := VyCore.eval P ce.
Let eval_list := VyCore.eval_list P ce.
Let resolve := VyCore.resolve P ce.
Let call := VyCore.call P ce.
Let exec := VyCore.exec P ce.
Let exec_block := VyCore.exec_block P ce.

Lemma eval_S f e s :
  eval (S f) e s =
  match e with
  | EConst v => ret v s
  | EVar x => match lget x (st_loc s) with Some v => ret v s | None => Fail Stuck end
  | ESelf x => match nth_error (st_sto s) x with Some v => ret v s | None => Fail Stuck end
  | ETra x => match nth_error (st_tra s) x with Some v => ret v s | None => Fail Stuck end
  | EBin op t a b =>
      do va, s1 <- eval f a s;
      do vb, s2 <- eval f b s1;
      match t, va, vb with
      | TInt bits sg, VInt x, VInt y =>
          match arith op bits sg x y with Some z => ret (VInt z) s2 | None => Fail Revert end
      | _, _, _ => Fail Stuck
      end
  | ECmp op a b =>
      do va, s1 <- eval f a s;
      do vb, s2 <- eval f b s1;
      match va, vb with
      | VInt x, VInt y => ret (VBool (cmp_int op x y)) s2
      | VBool x, VBool y =>
          match op with
          | Eq => ret (VBool (Bool.eqb x y)) s2
          | Ne => ret (VBool (negb (Bool.eqb x y))) s2
          | _ => Fail Stuck
          end
      | VBytes x, VBytes y =>
          match op with
          | Eq => ret (VBool (bytes_eqb x y)) s2
          | Ne => ret (VBool (negb (bytes_eqb x y))) s2
          | _ => Fail Stuck
          end
      | _, _ => Fail Stuck
      end
  | EAnd a b =>
      do va, s1 <- eval f a s;
      match va with
      | VBool true => eval f b s1
      | VBool false => ret (VBool false) s1
      | _ => Fail Stuck
      end
  | EOr a b =>
      do va, s1 <- eval f a s;
      match va with
      | VBool true => ret (VBool true) s1
      | VBool false => eval f b s1
      | _ => Fail Stuck
      end
  | ENot a =>
      do va, s1 <- eval f a s;
      match va with VBool x => ret (VBool (negb x)) s1 | _ => Fail Stuck end
  | ENeg t a =>
      do va, s1 <- eval f a s;
      match t, va with
      | TInt bits sg, VInt x =>
          if in_range bits sg (- x) then ret (VInt (- x)) s1 else Fail Revert
      | _, _ => Fail Stuck
      end
  | EIfExp c a b =>
      do vc, s1 <- eval f c s;
      match vc with
      | VBool true => eval f a s1
      | VBool false => eval f b s1
      | _ => Fail Stuck
      end
  | ECall g args =>
      do vs, s1 <- eval_list f args s;
      call f g vs s1
  | EIdx a i =>
      do va, s1 <- eval f a s;
      do vi, s2 <- eval f i s1;
      match va, vi with
      | VList l, VInt z =>
          if (0 <=? z) && (z <? Z.of_nat (length l)) then
            match nth_error l (Z.to_nat z) with Some v => ret v s2 | None => Fail Stuck end
          else Fail Revert
      | VMap d m, _ =>
          match key_of vi with Some z => ret (mlook d z m) s2 | None => Fail Stuck end
      | _, _ => Fail Stuck
      end
  | EFld a k =>
      do va, s1 <- eval f a s;
      match va with
      | VList l => match nth_error l k with Some v => ret v s1 | None => Fail Stuck end
      | _ => Fail Stuck
      end
  | ELen a =>
      do va, s1 <- eval f a s;
      match va with
      | VList l => ret (VInt (Z.of_nat (length l))) s1
      | VBytes l => ret (VInt (Z.of_nat (length l))) s1
      | _ => Fail Stuck
      end
  | EMin a b =>
      do va, s1 <- eval f a s;
      do vb, s2 <- eval f b s1;
      match va, vb with VInt x, VInt y => ret (VInt (Z.min x y)) s2 | _, _ => Fail Stuck end
  | EMax a b =>
      do va, s1 <- eval f a s;
      do vb, s2 <- eval f b s1;
      match va, vb with VInt x, VInt y => ret (VInt (Z.max x y)) s2 | _, _ => Fail Stuck end
  | EConv t a =>
      do va, s1 <- eval f a s;
      match convert t va with
      | Some (Some v) => ret v s1
      | Some None => Fail Revert
      | None => Fail Stuck
      end
  | ESender => ret (VInt (c_sender ce)) s
  | EValue => ret (VInt (c_value ce)) s
  | EList l =>
      do vs, s1 <- eval_list f l s;
      ret (VList vs) s1
  | EShift lft t a b =>
      do va, s1 <- eval f a s;
      do vb, s2 <- eval f b s1;
      match t, va, vb with
      | TInt bits sg, VInt x, VInt y => ret (VInt (shift_val lft bits sg x y)) s2
      | _, _, _ => Fail Stuck
      end
  | EDec k t a =>
      do va, s1 <- eval f a s;
      match va with
      | VInt z =>
          match k with
          | ToDec => if in_range 168 true (z * DEC) then ret (VInt (z * DEC)) s1 else Fail Revert
          | FromDec =>
              match t with
              (* the scaled input is bounds-checked BEFORE truncation: convert(255.1, uint8) reverts *)
              | TInt bits sg => if (int_lo bits sg * DEC <=? z) && (z <=? int_hi bits sg * DEC)
                                then ret (VInt (Z.quot z DEC)) s1 else Fail Revert
              | _ => Fail Stuck
              end
          | Floor => ret (VInt (z / DEC)) s1
          | Ceil => ret (VInt (- ((- z) / DEC))) s1
          end
      | _ => Fail Stuck
      end
  | EConcat a b =>
      do va, s1 <- eval f a s;
      do vb, s2 <- eval f b s1;
      match va, vb with
      | VBytes x, VBytes y => ret (VBytes (x ++ y)) s2
      | _, _ => Fail Stuck
      end
  | ESlice a st ln =>
      do va, s1 <- eval f a s;
      do vs, s2 <- eval f st s1;
      do vl, s3 <- eval f ln s2;
      match va, vs, vl with
      | VBytes x, VInt i, VInt n =>
          if (0 <=? i) && (0 <=? n) && (i + n <=? Z.of_nat (length x)) then
            ret (VBytes (firstn (Z.to_nat n) (skipn (Z.to_nat i) x))) s3
          else Fail Revert
      | _, _, _ => Fail Stuck
      end
  | EPop b p =>
      match base_get b s with
      | None => Fail Stuck
      | Some root =>
          do cp, s1 <- resolve f p root s;
          match base_get b s1 with
          | None => Fail Stuck
          | Some root1 =>
              match get_path cp root1 with
              | Some (VList l) =>
                  match rev l with
                  | [] => Fail Revert
                  | last :: rest =>
                      match set_path cp (VList (rev rest)) root1 with
                      | Some root' => emit (store_event b cp (VList (rev rest))) last (base_set b root' s1)
                      | None => Fail Stuck
                      end
                  end
              | _ => Fail Stuck
              end
          end
      end
  end.
Proof. reflexivity. Qed.

Lemma eval_list_S f l s :
  eval_list (S f) l s =
  match l with
  | [] => ret [] s
  | e :: r =>
      do v, s1 <- eval f e s;
      do vs, s2 <- eval_list f r s1;
      ret (v :: vs) s2
  end.
Proof. reflexivity. Qed.

Lemma resolve_S f p cur s :
  resolve (S f) p cur s =
  match p with
  | [] => ret [] s
  | inr k :: r =>
      match cur with
      | VList l => match nth_error l k with
                   | Some w => do cp, s1 <- resolve f r w s; ret (Z.of_nat k :: cp) s1
                   | None => Fail Stuck
                   end
      | _ => Fail Stuck
      end
  | inl ie :: r =>
      do vi, s1 <- eval f ie s;
      match cur, vi with
      | VList l, VInt z =>
          if (0 <=? z) && (z <? Z.of_nat (length l)) then
            match nth_error l (Z.to_nat z) with
            | Some w => do cp, s2 <- resolve f r w s1; ret (z :: cp) s2
            | None => Fail Stuck
            end
          else Fail Revert
      | VMap d m, _ =>
          match key_of vi with
          | Some z => do cp, s2 <- resolve f r (mlook d z m) s1; ret (z :: cp) s2
          | None => Fail Stuck
          end
      | _, _ => Fail Stuck
      end
  end.
Proof. reflexivity. Qed.

Lemma call_S f g vs s :
  call (S f) g vs s =
  match nth_error (p_int P) g with
  | None => Fail Stuck
  | Some fd =>
      if negb (Nat.eqb (length vs) (length (f_params fd))) then Fail Stuck else
      match exec_block f (f_body fd) (mkState (bind_params vs) (st_sto s) (st_tra s)) with
      | Ok r s' t =>
          let s'' := mkState (st_loc s) (st_sto s') (st_tra s') in
          match r with
          | SRet v => Ok v s'' (EvCall g vs :: t ++ [EvRet g])
          | SNormal => Ok (VList []) s'' (EvCall g vs :: t ++ [EvRet g])
          | _ => Fail Stuck
          end
      | Fail x => Fail x
      end
  end.
Proof. reflexivity. Qed.

Lemma exec_S f c s :
  exec (S f) c s =
  match c with
  | SAssign b p e =>
      (* right-hand side first, then the target's index expressions *)
      do v, s1 <- eval f e s;
      match p with
      | [] => emit (store_event b [] v) SNormal (base_set b v s1)     (* may create a local *)
      | _ =>
        match base_get b s1 with
        | None => Fail Stuck
        | Some root =>
            do cp, s2 <- resolve f p root s1;
            match base_get b s2 with
            | None => Fail Stuck
            | Some root2 =>
                match set_path cp v root2 with
                | Some root' => emit (store_event b cp v) SNormal (base_set b root' s2)
                | None => Fail Stuck
                end
            end
        end
      end
  | SAug op t b p e =>
      (* target location, then its current value, then the right-hand side *)
      match base_get b s with
      | None => Fail Stuck
      | Some root =>
          do cp, s1 <- resolve f p root s;
          match base_get b s1 with
          | None => Fail Stuck
          | Some root1 =>
              match get_path cp root1 with
              | Some (VInt x) =>
                  do vr, s2 <- eval f e s1;
                  match t, vr with
                  | TInt bits sg, VInt y =>
                      match arith op bits sg x y with
                      | None => Fail Revert
                      | Some z =>
                          match base_get b s2 with
                          | None => Fail Stuck
                          | Some root2 =>
                              match set_path cp (VInt z) root2 with
                              | Some root' => emit (store_event b cp (VInt z)) SNormal (base_set b root' s2)
                              | None => Fail Stuck
                              end
                          end
                      end
                  | _, _ => Fail Stuck
                  end
              | _ => Fail Stuck
              end
          end
      end
  | SIf c th el =>
      do vc, s1 <- eval f c s;
      match vc with
      | VBool true => exec_block f th s1
      | VBool false => exec_block f el s1
      | _ => Fail Stuck
      end
  | SFor x start n body =>
      loop_n n start (fun i s' => exec_block f body (base_set (BLoc x) (VInt i) s')) s
  | SForDyn x e bound body =>
      do vn, s1 <- eval f e s;
      match vn with
      | VInt n =>
          if (0 <=? n) && (n <=? bound) then
            loop_n (Z.to_nat n) 0 (fun i s' => exec_block f body (base_set (BLoc x) (VInt i) s')) s1
          else Fail Revert
      | _ => Fail Stuck
      end
  | SForIn x e body =>
      do va, s1 <- eval f e s;
      match va with
      | VList l => loop_l l (fun v s' => exec_block f body (base_set (BLoc x) v s')) s1
      | _ => Fail Stuck
      end
  | SBreak => ret SBrk s
  | SContinue => ret SCont s
  | SPass => ret SNormal s
  | SAssert e =>
      do v, s1 <- eval f e s;
      match v with
      | VBool true => ret SNormal s1
      | VBool false => Fail Revert
      | _ => Fail Stuck
      end
  | SRaise => Fail Revert
  | SAssertR e id =>
      do v, s1 <- eval f e s;
      match v with
      | VBool true => ret SNormal s1
      | VBool false => Fail (RevertMsg id)
      | _ => Fail Stuck
      end
  | SRaiseR id => Fail (RevertMsg id)
  | SReturn None => ret (SRet (VList [])) s
  | SReturn (Some e) =>
      do v, s1 <- eval f e s;
      ret (SRet v) s1
  | SLog id args =>
      do vs, s1 <- eval_list f args s;
      emit [EvLog id vs] SNormal s1
  | SExpr e =>
      do v, s1 <- eval f e s;
      ret SNormal s1
  | SAppend b p cap e =>
      (* argument first, then the target *)
      do v, s1 <- eval f e s;
      match base_get b s1 with
      | None => Fail Stuck
      | Some root =>
          do cp, s2 <- resolve f p root s1;
          match base_get b s2 with
          | None => Fail Stuck
          | Some root2 =>
              match get_path cp root2 with
              | Some (VList l) =>
                  if Z.of_nat (length l) <? cap then
                    match set_path cp (VList (l ++ [v])) root2 with
                    | Some root' => emit (store_event b cp (VList (l ++ [v]))) SNormal (base_set b root' s2)
                    | None => Fail Stuck
                    end
                  else Fail Revert
              | _ => Fail Stuck
              end
          end
      end
  end.
Proof. reflexivity. Qed.

Lemma exec_block_S f l s :
  exec_block (S f) l s =
  match l with
  | [] => ret SNormal s
  | c :: r =>
      do q, s1 <- exec f c s;
      match q with
      | SNormal => exec_block f r s1
      | other => ret other s1
      end
  end.
Proof. reflexivity. Qed.

End Unfold.
