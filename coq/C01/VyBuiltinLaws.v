(* Laws of the builtin meanings of VyBuiltin.v: every builtin returns the mathematical value when it is representable in
   the result type and reverts otherwise (exact-or-revert); the evaluator is a function (determinism) and agrees with
   VyCore on VyCore expressions. *)
From Coq Require Import ZArith List Bool Lia ZifyBool.
From Verif Require Import Base.Word256 Base.PyInt Base.WordLemmas C01.VyCore C01.VyBuiltin.
Import ListNotations.
Open Scope Z_scope.
Ltac Zify.zify_post_hook ::= Z.to_euclidean_division_equations.

Lemma DEC_val : DEC = 10000000000.
Proof. reflexivity. Qed.
Lemma U256_pos : 0 < U256.
Proof. unfold U256. apply Z.pow_pos_nonneg; lia. Qed.

(* ---------- as_wei_value ---------- *)
Lemma as_wei_some denom dec z r : 0 < denom -> as_wei denom dec z = Some r ->
  0 <= z /\ 0 <= r < U256 /\
  (dec = false -> r = z * denom) /\
  (dec = true -> r * DEC <= z * denom < (r + 1) * DEC).
Proof.
  intros Hd. unfold as_wei. pose proof DEC_val as HD.
  destruct (z <? 0) eqn:Ez; [discriminate|]. apply Z.ltb_ge in Ez.
  destruct dec.
  - destruct (z * denom / DEC <? U256) eqn:E; [|discriminate]. intros H; inversion H; subst r. apply Z.ltb_lt in E.
    assert (0 <= z * denom) by nia.
    rewrite HD in *. generalize dependent (z * denom). intros p. intros.
    repeat split; try discriminate; try lia; intros _; lia.
  - destruct (z * denom <? U256) eqn:E; [|discriminate]. intros H; inversion H; subst r. apply Z.ltb_lt in E.
    repeat split; try discriminate; try nia; try lia.
Qed.

Lemma as_wei_none denom dec z : 0 < denom -> as_wei denom dec z = None ->
  z < 0 \/ (dec = false /\ U256 <= z * denom) \/ (dec = true /\ U256 * DEC <= z * denom).
Proof.
  intros Hd. unfold as_wei. pose proof DEC_val as HD.
  destruct (z <? 0) eqn:Ez; [left; lia|]. apply Z.ltb_ge in Ez.
  destruct dec.
  - destruct (z * denom / DEC <? U256) eqn:E; [discriminate|]. intros _. apply Z.ltb_ge in E. right. right. split; [reflexivity|].
    rewrite HD in *. generalize dependent (z * denom). intros p. intros. lia.
  - destruct (z * denom <? U256) eqn:E; [discriminate|]. intros _. apply Z.ltb_ge in E. right. left. split; [reflexivity|lia].
Qed.

(* ---------- abs / floor / ceil / isqrt ---------- *)
Lemma abs_some z r : abs_val z = Some r -> r = Z.abs z /\ in_range 256 true r = true.
Proof. unfold abs_val. destruct (in_range 256 true (Z.abs z)) eqn:E; [|discriminate]. intros H; inversion H; subst. auto. Qed.
Lemma abs_none z : in_range 256 true z = true -> abs_val z = None -> z = - 2 ^ 255.
Proof.
  unfold abs_val, in_range, int_lo, int_hi. change (256 - 1) with 255.
  destruct ((- 2 ^ 255 <=? Z.abs z) && (Z.abs z <=? 2 ^ 255 - 1)) eqn:E; [discriminate|].
  intros H _. lia.
Qed.

Lemma floor_exact z : let f := z / DEC in f * DEC <= z < (f + 1) * DEC.
Proof. cbv zeta. rewrite DEC_val. lia. Qed.
Lemma ceil_exact z : let c := - ((- z) / DEC) in (c - 1) * DEC < z <= c * DEC.
Proof. cbv zeta. rewrite DEC_val. lia. Qed.
Lemma floor_ceil_fit z : in_range 168 true z = true ->
  in_range 256 true (z / DEC) = true /\ in_range 256 true (- ((- z) / DEC)) = true.
Proof.
  unfold in_range, int_lo, int_hi. change (168 - 1) with 167. change (256 - 1) with 255. rewrite DEC_val.
  assert (2 ^ 167 < 2 ^ 255) by (apply Z.pow_lt_mono_r; lia).
  assert (0 < 2 ^ 167) by (apply Z.pow_pos_nonneg; lia).
  intros H1. split; lia.
Qed.

Lemma isqrt_exact x : 0 <= x -> let r := Z.sqrt x in 0 <= r /\ r * r <= x < (r + 1) * (r + 1).
Proof. intros Hx. cbv zeta. pose proof (Z.sqrt_spec x Hx). pose proof (Z.sqrt_nonneg x). unfold Z.succ in *. lia. Qed.
Lemma isqrt_fit x : 0 <= x < U256 -> 0 <= Z.sqrt x < 2 ^ 128.
Proof.
  intros Hx. split; [apply Z.sqrt_nonneg|].
  apply Z.sqrt_lt_square; try lia. change (2 ^ 128 * 2 ^ 128) with (2 ^ 256). exact (proj2 Hx).
Qed.

(* ---------- addmod / mulmod / pow_mod256 ---------- *)
Lemma mod_exact s c : 0 < c -> let r := s mod c in 0 <= r < c /\ exists q, s = q * c + r.
Proof. intros Hc. cbv zeta. split; [apply Z.mod_pos_bound; lia|]. exists (s / c). pose proof (Z.div_mod s c). lia. Qed.

Lemma powmod_exact a b : 0 <= b -> Word256.powmod a b U256 = (a ^ b) mod 2 ^ 256.
Proof. intros Hb. rewrite w_powmod_eq. apply powmod_spec; [exact Hb|]. apply U256_pos. Qed.

(* ---------- unsafe_* : wrap into the type ---------- *)
Lemma wrap_in_range bits sg z : 0 < bits -> in_range bits sg (wrap_t bits sg z) = true.
Proof.
  intros Hb. unfold wrap_t, in_range, int_lo, int_hi.
  assert (Hp : 2 ^ bits = 2 * 2 ^ (bits - 1)).
  { replace bits with (bits - 1 + 1) at 1 by lia. rewrite Z.pow_add_r by lia. lia. }
  assert (0 < 2 ^ (bits - 1)) by (apply Z.pow_pos_nonneg; lia).
  pose proof (Z.mod_pos_bound z (2 ^ bits)).
  destruct sg; cbn [andb]; [destruct (2 ^ (bits - 1) <=? z mod 2 ^ bits) eqn:E|]; lia.
Qed.
Lemma wrap_congr bits sg z : 0 < bits -> (wrap_t bits sg z - z) mod 2 ^ bits = 0.
Proof.
  intros Hb. unfold wrap_t.
  assert (0 < 2 ^ bits) by (apply Z.pow_pos_nonneg; lia).
  assert (E0 : (z mod 2 ^ bits - z) mod 2 ^ bits = 0).
  { rewrite Zminus_mod_idemp_l. rewrite Z.sub_diag. apply Z.mod_0_l. lia. }
  destruct (sg && (2 ^ (bits - 1) <=? z mod 2 ^ bits)); [|exact E0].
  replace (z mod 2 ^ bits - 2 ^ bits - z) with (z mod 2 ^ bits - z + (-1) * 2 ^ bits) by lia.
  rewrite Z.mod_add by lia. exact E0.
Qed.
Lemma wrap_id bits sg z : 0 < bits -> in_range bits sg z = true -> wrap_t bits sg z = z.
Proof.
  intros Hb. unfold wrap_t, in_range, int_lo, int_hi.
  assert (Hp : 2 ^ bits = 2 * 2 ^ (bits - 1)).
  { replace bits with (bits - 1 + 1) at 1 by lia. rewrite Z.pow_add_r by lia. lia. }
  assert (0 < 2 ^ (bits - 1)) by (apply Z.pow_pos_nonneg; lia).
  destruct sg; cbn [andb]; intros Hr.
  - assert (Hz : - 2 ^ (bits - 1) <= z <= 2 ^ (bits - 1) - 1) by lia. clear Hr.
    destruct (Z_lt_le_dec z 0) as [Hn|Hn].
    + assert (E : z mod 2 ^ bits = z + 2 ^ bits).
      { symmetry. apply (Z.mod_unique_pos _ _ (-1)); lia. }
      rewrite E. destruct (2 ^ (bits - 1) <=? z + 2 ^ bits) eqn:E2; lia.
    + rewrite Z.mod_small by lia. destruct (2 ^ (bits - 1) <=? z) eqn:E2; lia.
  - apply Z.mod_small. lia.
Qed.

Definition umath (op : uop) (a b : Z) : Z :=
  match op with UAdd => a + b | USub => a - b | UMul => a * b | UDiv => Z.quot a b end.

Lemma unsafe_exact op bits sg a b : 0 < bits ->
  in_range bits sg (unsafe_val op bits sg a b) = true /\
  (op = UDiv /\ b = 0 -> unsafe_val op bits sg a b = 0) /\
  (~ (op = UDiv /\ b = 0) ->
     (unsafe_val op bits sg a b - umath op a b) mod 2 ^ bits = 0 /\
     (in_range bits sg (umath op a b) = true -> unsafe_val op bits sg a b = umath op a b)).
Proof.
  intros Hb.
  assert (H0 : in_range bits sg 0 = true).
  { unfold in_range, int_lo, int_hi. assert (0 < 2 ^ (bits - 1)) by (apply Z.pow_pos_nonneg; lia).
    assert (0 < 2 ^ bits) by (apply Z.pow_pos_nonneg; lia). destruct sg; lia. }
  destruct op; cbn [unsafe_val umath].
  1-3: (split; [apply wrap_in_range; exact Hb|]; split; [intros [X _]; discriminate|]; intros _; split;
        [apply wrap_congr; exact Hb | apply wrap_id; exact Hb]).
  destruct (b =? 0) eqn:E.
  - split; [exact H0|]. split; [reflexivity|]. intros N. exfalso. apply N. split; [reflexivity|lia].
  - split; [apply wrap_in_range; exact Hb|]. split; [intros [_ X]; lia|]. intros _. split;
      [apply wrap_congr; exact Hb | apply wrap_id; exact Hb].
Qed.

(* ---------- shift(x, n) ---------- *)
Lemma shift_builtin_spec sg x n :
  (0 <= n -> shift_builtin sg x n = shift_val true 256 sg x n) /\
  (n < 0 -> shift_builtin sg x n = shift_val false 256 sg x (- n)).
Proof. unfold shift_builtin. destruct (0 <=? n) eqn:E; split; intros; try reflexivity; lia. Qed.

(* ---------- uint2str ---------- *)
Definition dec_step (acc c : Z) : Z := acc * 10 + (c - 48).
Definition dec_val (l : list Z) : Z := fold_left dec_step l 0.
Definition is_digit (c : Z) : Prop := 48 <= c <= 57.

Lemma digits_val fuel : forall z acc, 0 <= z < 10 ^ Z.of_nat fuel -> (0 < fuel)%nat ->
  fold_left dec_step (digits fuel z acc) 0 = fold_left dec_step acc z.
Proof.
  induction fuel as [|f IH]; intros z acc Hz Hf; [lia|].
  cbn [digits]. destruct (z <? 10) eqn:E.
  - cbn [fold_left]. unfold dec_step at 2. f_equal. lia.
  - apply Z.ltb_ge in E.
    assert (Hf' : (0 < f)%nat).
    { destruct f; [|lia]. cbn in Hz. lia. }
    rewrite IH; [|split; [lia|]|exact Hf'].
    + cbn [fold_left]. f_equal. unfold dec_step. lia.
    + rewrite Nat2Z.inj_succ, Z.pow_succ_r in Hz by lia. lia.
Qed.
Lemma digits_chars fuel : forall z acc, 0 <= z -> Forall is_digit acc -> Forall is_digit (digits fuel z acc).
Proof.
  induction fuel as [|f IH]; intros z acc Hz Ha; [exact Ha|].
  cbn [digits].
  assert (Hd : is_digit (48 + z mod 10)) by (unfold is_digit; lia).
  destruct (z <? 10); [constructor; assumption|].
  apply IH; [lia|constructor; assumption].
Qed.
Lemma digits_len fuel : forall acc y, (length acc <= length (digits fuel y acc))%nat.
Proof.
  induction fuel as [|f IH]; intros acc y; [cbn; lia|]. cbn [digits]. destruct (y <? 10); [cbn; lia|].
  etransitivity; [|apply IH]. cbn. lia.
Qed.
Lemma uint2str_exact z : 0 <= z < 10 ^ 80 ->
  dec_val (uint2str z) = z /\ Forall is_digit (uint2str z) /\ uint2str z <> [].
Proof.
  intros Hz. unfold uint2str, dec_val. split; [|split].
  - rewrite digits_val; [reflexivity| |lia]. change (Z.of_nat 80) with 80. exact Hz.
  - apply digits_chars; [lia|constructor].
  - change (digits 80 z []) with (let acc' := [48 + z mod 10] in if z <? 10 then acc' else digits 79 (z / 10) acc').
    cbv zeta. destruct (z <? 10); [discriminate|].
    intros E. pose proof (digits_len 79 [48 + z mod 10] (z / 10)) as L. rewrite E in L. cbn in L. lia.
Qed.

(* ---------- byte strings: slice / extract32 / bytesM ---------- *)
Lemma slice_some x i n r : slice_val x i n = Some r ->
  0 <= i /\ 0 <= n /\ i + n <= Z.of_nat (length x) /\
  r = firstn (Z.to_nat n) (skipn (Z.to_nat i) x) /\ Z.of_nat (length r) = n.
Proof.
  unfold slice_val. destruct ((0 <=? i) && (0 <=? n) && (i + n <=? Z.of_nat (length x))) eqn:E; [|discriminate].
  intros H; inversion H; subst r. repeat split; try lia.
  rewrite firstn_length, skipn_length. lia.
Qed.
Lemma slice_none x i n : slice_val x i n = None -> i < 0 \/ n < 0 \/ Z.of_nat (length x) < i + n.
Proof.
  unfold slice_val. destruct ((0 <=? i) && (0 <=? n) && (i + n <=? Z.of_nat (length x))) eqn:E; [discriminate|]. lia.
Qed.

Lemma extract_word_some x i w : extract_word x i = Some w ->
  0 <= i /\ i + 32 <= Z.of_nat (length x) /\ w = be_val (firstn 32 (skipn (Z.to_nat i) x)).
Proof.
  unfold extract_word. destruct (slice_val x i 32) eqn:E; [|discriminate]. intros H; inversion H; subst w.
  apply slice_some in E. destruct E as (A & _ & B & C & _). subst l. repeat split; try assumption.
Qed.
Lemma extract_word_none x i : extract_word x i = None -> i < 0 \/ Z.of_nat (length x) < i + 32.
Proof.
  unfold extract_word. destruct (slice_val x i 32) eqn:E; [discriminate|]. intros _.
  apply slice_none in E. lia.
Qed.

(* the word read as a value of the output type: the representative of w modulo 2^256 on the signed side for signed
   types, which must be a value of the type *)
Lemma extract_out_some o w v : 0 <= w < U256 -> extract_out o w = Some v ->
  (v - w) mod U256 = 0 /\
  match o with
  | XB32 => v = w
  | XAddr => v = w /\ v < 2 ^ 160
  | XInt bits sg => in_range bits sg v = true /\ (if sg then - 2 ^ 255 <= v < 2 ^ 255 else v = w)
  end.
Proof.
  intros Hw. pose proof U256_pos as HU. assert (HU2 : U256 = 2 * 2 ^ 255) by reflexivity.
  destruct o; cbn [extract_out].
  - intros H; inversion H; subst. rewrite Z.sub_diag. split; [apply Z.mod_0_l; lia|reflexivity].
  - destruct (sg && (2 ^ 255 <=? w)) eqn:E.
    + destruct (in_range bits sg (w - U256)) eqn:R; [|discriminate]. intros H; inversion H; subst v.
      split; [|split; [exact R|]].
      * replace (w - U256 - w) with (0 + (-1) * U256) by lia. rewrite Z.mod_add by lia. apply Z.mod_0_l. lia.
      * destruct sg; [|discriminate]. cbn [andb] in E. lia.
    + destruct (in_range bits sg w) eqn:R; [|discriminate]. intros H; inversion H; subst v.
      rewrite Z.sub_diag. split; [apply Z.mod_0_l; lia|]. split; [exact R|].
      destruct sg; [|reflexivity]. cbn [andb] in E. lia.
  - destruct (w <? 2 ^ 160) eqn:E; [|discriminate]. intros H; inversion H; subst v.
    rewrite Z.sub_diag. split; [apply Z.mod_0_l; lia|]. split; [reflexivity|lia].
Qed.
Lemma extract_out_none o w : extract_out o w = None ->
  match o with
  | XB32 => False
  | XAddr => 2 ^ 160 <= w
  | XInt bits sg => in_range bits sg (if sg && (2 ^ 255 <=? w) then w - U256 else w) = false
  end.
Proof.
  destruct o; cbn [extract_out].
  - discriminate.
  - destruct (in_range bits sg (if sg && (2 ^ 255 <=? w) then w - U256 else w)) eqn:R; [discriminate|reflexivity].
  - destruct (w <? 2 ^ 160) eqn:E; [discriminate|]. lia.
Qed.

Lemma be_bytes_length n z : length (be_bytes n z) = n.
Proof. revert z. induction n as [|k IH]; intros z; [reflexivity|]. cbn [be_bytes]. rewrite app_length, IH. cbn. lia. Qed.
Lemma be_val_app l b : be_val (l ++ [b]) = be_val l * 256 + b.
Proof. unfold be_val. rewrite fold_left_app. reflexivity. Qed.
Lemma be_val_bytes n z : be_val (be_bytes n z) = z mod 256 ^ Z.of_nat n.
Proof.
  revert z. induction n as [|k IH]; intros z.
  - cbn. rewrite Z.mod_1_r. reflexivity.
  - cbn [be_bytes]. rewrite be_val_app, IH. rewrite Nat2Z.inj_succ, Z.pow_succ_r by lia.
    assert (0 < 256 ^ Z.of_nat k) by (apply Z.pow_pos_nonneg; lia).
    rewrite Z.rem_mul_r by lia. ring.
Qed.
Lemma be_bytes_range n z : Forall (fun b => 0 <= b < 256) (be_bytes n z).
Proof.
  revert z. induction n as [|k IH]; intros z; [constructor|]. cbn [be_bytes]. apply Forall_app. split; [apply IH|].
  constructor; [lia|constructor].
Qed.

(* ---------- the evaluator ---------- *)
Lemma evalB_core tab c s : evalB tab (BCore c) s = eval P0 CE0 BFUEL c s.
Proof. reflexivity. Qed.

Lemma evalB_app_unfold tab b args s :
  evalB tab (BApp b args) s =
  bind (evalBs tab args s) (fun vs s1 =>
    match bi_eval tab b vs with
    | Some (Some v) => ret v s1
    | Some None => Fail Revert
    | None => Fail Stuck
    end).
Proof.
  reflexivity.
Qed.

Lemma evalB_app_ok tab b args s v s' t : evalB tab (BApp b args) s = Ok v s' t ->
  exists vs, evalBs tab args s = Ok vs s' t /\ bi_eval tab b vs = Some (Some v).
Proof.
  rewrite evalB_app_unfold. unfold bind. destruct (evalBs tab args s) as [vs s1 t1|]; [|discriminate].
  destruct (bi_eval tab b vs) as [[w|]|] eqn:E; cbn [ret]; try discriminate.
  intros H; inversion H; subst. exists vs. rewrite app_nil_r. split; [reflexivity|exact E].
Qed.
Lemma evalB_app_revert tab b args s vs s1 t1 : evalBs tab args s = Ok vs s1 t1 -> bi_eval tab b vs = Some None ->
  evalB tab (BApp b args) s = Fail Revert.
Proof. intros H1 H2. rewrite evalB_app_unfold, H1. unfold bind. rewrite H2. reflexivity. Qed.

Lemma call_b_deterministic tab fs idx args r1 r2 : call_b tab fs idx args = r1 -> call_b tab fs idx args = r2 -> r1 = r2.
Proof. intros; subst; reflexivity. Qed.

(* the oracle table is only consulted by the hash builtins: every other builtin has the same meaning under any table *)
Definition uses_oracle (b : builtin) : bool :=
  match b with BiHash _ _ | BiMethodId _ _ => true | _ => false end.
Lemma bi_eval_oracle_free tab1 tab2 b args : uses_oracle b = false -> bi_eval tab1 b args = bi_eval tab2 b args.
Proof. destruct b; cbn [uses_oracle]; try discriminate; intros _; reflexivity. Qed.

(* a hash builtin returns exactly the table's digest of the argument bytes, and is Stuck (never a guessed value) without it *)
Lemma hash_from_table tab k x : bi_eval tab (BiHash k false) [VBytes x] =
  match hlook tab k x with Some d => Some (Some (VInt d)) | None => None end.
Proof. reflexivity. Qed.

(* ---------- exact-or-revert at the level of the builtin table ---------- *)
Lemma bi_as_wei_exact tab denom dec z : 0 < denom ->
  match bi_eval tab (BiAsWei denom dec) [VInt z] with
  | Some (Some (VInt r)) => 0 <= z /\ 0 <= r < U256 /\ (dec = false -> r = z * denom) /\
                            (dec = true -> r * DEC <= z * denom < (r + 1) * DEC)
  | Some None => z < 0 \/ (dec = false /\ U256 <= z * denom) \/ (dec = true /\ U256 * DEC <= z * denom)
  | _ => False
  end.
Proof.
  intros Hd. cbn [bi_eval]. destruct (as_wei denom dec z) as [r|] eqn:E; cbn [lift okv].
  - apply as_wei_some; assumption.
  - apply as_wei_none; assumption.
Qed.

Lemma bi_abs_exact tab z : in_range 256 true z = true ->
  match bi_eval tab BiAbs [VInt z] with
  | Some (Some (VInt r)) => r = Z.abs z /\ in_range 256 true r = true
  | Some None => z = - 2 ^ 255
  | _ => False
  end.
Proof.
  intros Hz. cbn [bi_eval]. destruct (abs_val z) as [r|] eqn:E; cbn [lift okv].
  - apply abs_some; assumption.
  - apply abs_none; assumption.
Qed.

Lemma bi_addmulmod_exact tab a b c : 0 <= c ->
  (c = 0 -> bi_eval tab BiAddmod [VInt a; VInt b; VInt c] = Some None /\ bi_eval tab BiMulmod [VInt a; VInt b; VInt c] = Some None) /\
  (0 < c -> exists r1 r2, bi_eval tab BiAddmod [VInt a; VInt b; VInt c] = Some (Some (VInt r1)) /\
                          bi_eval tab BiMulmod [VInt a; VInt b; VInt c] = Some (Some (VInt r2)) /\
                          0 <= r1 < c /\ 0 <= r2 < c /\ (exists q, a + b = q * c + r1) /\ (exists q, a * b = q * c + r2)).
Proof.
  intros Hc. split.
  - intros ->. split; reflexivity.
  - intros Hp. exists ((a + b) mod c), ((a * b) mod c). cbn [bi_eval].
    assert (E : (c =? 0) = false) by lia. rewrite E.
    destruct (mod_exact (a + b) c Hp) as [A1 A2]. destruct (mod_exact (a * b) c Hp) as [B1 B2].
    repeat split; try reflexivity; try (apply A1); try (apply B1); assumption.
Qed.

Lemma bi_extract32_exact tab o x i : Forall (fun b => 0 <= b < 256) x ->
  match bi_eval tab (BiExtract32 o) [VBytes x; VInt i] with
  | Some (Some (VInt v)) => 0 <= i /\ i + 32 <= Z.of_nat (length x) /\
                            extract_out o (be_val (firstn 32 (skipn (Z.to_nat i) x))) = Some v
  | Some None => i < 0 \/ Z.of_nat (length x) < i + 32 \/
                 (exists w, extract_word x i = Some w /\ extract_out o w = None)
  | _ => False
  end.
Proof.
  intros _. cbn [bi_eval]. destruct (extract_word x i) as [w|] eqn:E.
  - pose proof (extract_word_some _ _ _ E) as (A & B & C).
    destruct (extract_out o w) as [v|] eqn:E2; cbn [lift okv].
    + subst w. auto.
    + right. right. exists w. auto.
  - apply extract_word_none in E. lia.
Qed.
