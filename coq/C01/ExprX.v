(* ExprX: the LARGER expression fragment of both front ends (extension of ExprCompile.v, which stays as it is).
   Added to ExprCompile's int/bool fragment:
     - shifts  << >>  on uint256 / int256 (amount of any unsigned integer type)         Expr.handle_binop, apply_binop
     - & | ^ on SIGNED integers as well, and ~ on uint256                               handle_binop, parse_UnaryOp Invert
     - flags (n members, n-bit masks): | & ^ ~, in / not in, == !=, flag constants       parse_Compare (FlagT), Invert (FlagT)
     - decimals (168-bit signed, scaled by 10^10): + - * / %, unary minus, comparisons   arithmetic.safe_* with DecimalT
     - state variables (storage reads) as leaves: a leaf is a NAMED word; the exporters write `(mload K)` of a local as
       "mK" and `(sload K)` of a state variable as "sK" (expressions of the fragment write neither memory nor storage).
   Source syntax `yexpr`, source meaning `yeval` (mathematical integers, exact-or-revert), the legacy lowering `ycompile`
   (to C03/LIR.v terms).  The Venom lowering is C01V/VExprX.v.  Definitions only; proofs in ExprXWord.v / ExprXProofs.v.

   Operators that never revert are grouped as `p2` (binary) / `p1` (unary): each has operand types, a result type, a
   meaning on integers and a *shape* in each IR: one word operation (operands in a fixed order) followed by 0-2 `iszero`. *)
From Coq Require Import ZArith Bool List String Ascii.
From Verif Require Import Base.Word256 C03.LIR C03.ArithSpec C03.ArithModel C01.ExprCompile.
Import ListNotations.
Open Scope string_scope.
Open Scope Z_scope.

(* ---------------- types ---------------- *)
Inductive yty := TI (T : nty) | TB | TF (n : Z).      (* integer or decimal / bool / flag with n members *)

(* bool version of ArithSpec.ty_ok: 1..32 bytes; decimal = (21, signed, dec) *)
Definition num_ok (T : nty) : bool :=
  (1 <=? nbytes T) && (nbytes T <=? 32) && (negb (ndec T) || ((nbytes T =? 21) && nsigned T)).
Definition yty_ok (t : yty) : bool :=
  match t with TI T => num_ok T | TB => true | TF n => (1 <=? n) && (n <=? 256) end.
Definition yval_ok (t : yty) (v : Z) : bool :=
  match t with
  | TI T => in_rangeb T v
  | TB => (v =? 0) || (v =? 1)
  | TF n => (0 <=? v) && (v <? 2 ^ n)
  end.
Definition yty_eqb (a b : yty) : bool :=
  match a, b with
  | TI A, TI B => nty_eqb A B
  | TB, TB => true
  | TF n, TF m => n =? m
  | _, _ => false
  end.
(* the comparison opcode only depends on "is it uint256" *)
Definition sty_of (t : yty) : sty := match t with TI T => SInt T | _ => SBool end.
Definition is_w256 (T : nty) : bool := (nbytes T =? 32) && negb (ndec T).
Definition uint_ok (T : nty) : bool := num_ok T && negb (nsigned T) && negb (ndec T).

(* ---------------- operators that cannot revert ---------------- *)
Inductive p2 :=
| PBit (op : bitop) (t : yty)          (* & | ^ on integers (signed too) and flags *)
| PShl (T Tb : nty)                    (* a << b : a of the 256-bit type T, b of the unsigned type Tb *)
| PShr (T Tb : nty)
| PCmp (op : cop) (t : yty)            (* < <= > >= on numbers; == != on every type *)
| PIn (neg : bool) (n : Z).            (* a in b / a not in b on flags with n members *)
Inductive p1 :=
| PNot                                 (* not (bool) *)
| PInv                                 (* ~ on uint256 *)
| PInvF (n : Z).                       (* ~ on a flag with n members *)

Definition p2_ta (o : p2) : yty :=
  match o with PBit _ t | PCmp _ t => t | PShl T _ | PShr T _ => TI T | PIn _ n => TF n end.
Definition p2_tb (o : p2) : yty :=
  match o with PBit _ t | PCmp _ t => t | PShl _ Tb | PShr _ Tb => TI Tb | PIn _ n => TF n end.
Definition p2_out (o : p2) : yty :=
  match o with PBit _ t => t | PShl T _ | PShr T _ => TI T | PCmp _ _ | PIn _ _ => TB end.
Definition p2_ok (o : p2) : bool :=
  match o with
  | PBit _ (TI T) => num_ok T && negb (ndec T)
  | PBit _ (TF n) => yty_ok (TF n)
  | PBit _ TB => false
  | PShl T Tb | PShr T Tb => num_ok T && is_w256 T && uint_ok Tb
  | PCmp op t => yty_ok t && match t, op with TI _, _ => true | _, CEq | _, CNe => true | _, _ => false end
  | PIn _ n => yty_ok (TF n)
  end.
Definition p1_t (o : p1) : yty :=
  match o with PNot => TB | PInv => TI (Build_nty 32 false false) | PInvF n => TF n end.
Definition p1_ok (o : p1) : bool := match o with PInvF n => yty_ok (TF n) | _ => true end.

(* meaning on mathematical integers.  Shifts: left = the representative of a * 2^b modulo 2^256 in the type's range,
   right = floor (a / 2^b); an amount >= 256 gives 0 (-1 for a negative a >> b).  Never a revert. *)
Definition sh_l (sg : bool) (x y : Z) : Z :=
  if 256 <=? y then 0
  else let w := (x * 2 ^ y) mod W in if sg && (HALF <=? w) then w - W else w.
Definition sh_r (x y : Z) : Z :=
  if 256 <=? y then (if x <? 0 then -1 else 0) else x / 2 ^ y.
Definition p2_fun (o : p2) (x y : Z) : Z :=
  match o with
  | PBit op _ => bit_fun op x y
  | PShl T _ => sh_l (nsigned T) x y
  | PShr _ _ => sh_r x y
  | PCmp op _ => b2z (cmp_fun op x y)
  | PIn neg _ => b2z (xorb neg (negb (Z.land x y =? 0)))
  end.
Definition p1_fun (o : p1) (x : Z) : Z :=
  match o with
  | PNot => b2z (x =? 0)
  | PInv => 2 ^ 256 - 1 - x
  | PInvF n => Z.lxor x (2 ^ n - 1)
  end.

(* ---------------- source syntax ---------------- *)
Inductive yexpr :=
| YLit (t : yty) (v : Z)                               (* integer / decimal (scaled) / bool / flag constant *)
| YVar (s : string) (t : yty)                          (* local variable or state variable: a named word *)
| YBin (op : bop) (T : nty) (ia ib i1 i2 : bool) (a b : yexpr)   (* checked arithmetic, T integer or decimal *)
| YP2 (o : p2) (a b : yexpr)
| YP1 (o : p1) (a : yexpr)
| YAnd (a b : yexpr)
| YOr (a b : yexpr)
| YNeg (T : nty) (ic : bool) (a : yexpr)
| YIf (c a b : yexpr).

Fixpoint yty_of (e : yexpr) : yty :=
  match e with
  | YLit t _ | YVar _ t => t
  | YBin _ T _ _ _ _ _ _ => TI T
  | YP2 o _ _ => p2_out o
  | YP1 o _ => p1_t o
  | YAnd _ _ | YOr _ _ => TB
  | YNeg T _ _ => TI T
  | YIf _ a _ => yty_of a
  end.

Definition y_is_lit (e : yexpr) : bool := match e with YLit _ _ => true | _ => false end.
Definition y_is_var (e : yexpr) : bool := match e with YVar _ _ => true | _ => false end.
(* names of leaves: not one of the legacy compiler's `with` names, not a Venom temporary *)
Definition name_ok (s : string) : bool :=
  negb (reserved s) && match s with String c _ => negb (Ascii.eqb c "%") | EmptyString => true end.

(* well-typed.  leg = true adds the two conditions that only concern the legacy generator: only literals are inlined at
   cache points, and the branches of an if-expression are not bare variables (parse_IfExp then selects locations). *)
Fixpoint ywt (leg : bool) (e : yexpr) : bool :=
  match e with
  | YLit t v => yty_ok t && yval_ok t v
  | YVar s t => name_ok s && yty_ok t
  | YBin _ T ia ib _ _ a b =>
      num_ok T && ywt leg a && ywt leg b && yty_eqb (yty_of a) (TI T) && yty_eqb (yty_of b) (TI T)
      && (negb leg || ((negb ia || y_is_lit a) && (negb ib || y_is_lit b)))
  | YP2 o a b => p2_ok o && ywt leg a && ywt leg b && yty_eqb (yty_of a) (p2_ta o) && yty_eqb (yty_of b) (p2_tb o)
  | YP1 o a => p1_ok o && ywt leg a && yty_eqb (yty_of a) (p1_t o)
  | YAnd a b | YOr a b => ywt leg a && ywt leg b && yty_eqb (yty_of a) TB && yty_eqb (yty_of b) TB
  | YNeg T ic a => num_ok T && nsigned T && ywt leg a && yty_eqb (yty_of a) (TI T) && (negb leg || negb ic || y_is_lit a)
  | YIf c a b => ywt leg c && ywt leg a && ywt leg b && yty_eqb (yty_of c) TB && yty_eqb (yty_of a) (yty_of b)
                 && (negb leg || (negb (y_is_var a) && negb (y_is_var b)))
  end.

(* ---------------- source meaning ---------------- *)
(* left operand first; and / or / if-expressions evaluate only what they need; arithmetic = C03's arith_spec (exact
   result or Revert; decimals: * and / truncate toward zero after rescaling) *)
Fixpoint yeval (rho : senv) (e : yexpr) : outcome :=
  match e with
  | YLit _ v => Val v
  | YVar s _ => match lookup rho s with Some v => Val v | None => Stuck end
  | YBin op T _ _ _ _ a b =>
      match yeval rho a with
      | Val x => match yeval rho b with Val y => arith_spec T (aop_of op) x y | o => o end
      | o => o end
  | YP2 o a b =>
      match yeval rho a with
      | Val x => match yeval rho b with Val y => Val (p2_fun o x y) | r => r end
      | r => r end
  | YP1 o a => match yeval rho a with Val x => Val (p1_fun o x) | r => r end
  | YAnd a b => match yeval rho a with Val x => if x =? 0 then Val 0 else yeval rho b | o => o end
  | YOr a b => match yeval rho a with Val x => if x =? 0 then yeval rho b else Val 1 | o => o end
  | YNeg T _ a => match yeval rho a with Val x => arith_spec T AUSub x 0 | o => o end
  | YIf c a b => match yeval rho c with Val x => if x =? 0 then yeval rho b else yeval rho a | o => o end
  end.

Fixpoint yenv_ok (rho : senv) (e : yexpr) : bool :=
  match e with
  | YLit _ _ => true
  | YVar s t => match lookup rho s with Some v => yval_ok t v | None => false end
  | YBin _ _ _ _ _ _ a b | YP2 _ a b | YAnd a b | YOr a b => yenv_ok rho a && yenv_ok rho b
  | YP1 _ a | YNeg _ _ a => yenv_ok rho a
  | YIf c a b => yenv_ok rho c && yenv_ok rho a && yenv_ok rho b
  end.

(* ---------------- shapes: one word operation + a chain of iszero ---------------- *)
Fixpoint isz_l (j : nat) (t : lir) : lir := match j with O => t | S k => L1 OIszero (isz_l k t) end.
Fixpoint isz_w (j : nat) (w : Z) : Z := match j with O => w | S k => w_iszero (isz_w k w) end.

(* legacy: (opcode, number of iszero); the term is  iszero^j (opcode <right> <left>)  -- IR arguments are evaluated
   last to first, so the LEFT operand is evaluated first; comparisons are therefore mirrored (ExprCompile.cmp_op) *)
Definition lshape (o : p2) : op2 * nat :=
  match o with
  | PBit op _ => (bit_op op, 0%nat)
  | PShl _ _ => (OShl, 0%nat)
  | PShr T _ => (if nsigned T then OSar else OShr, 0%nat)
  | PCmp op t => (cmp_op op (sty_of t), 0%nat)
  | PIn false _ => (OAnd, 2%nat)
  | PIn true _ => (OAnd, 1%nat)
  end.
Definition lp2 (o : p2) (cb ca : lir) : lir := isz_l (snd (lshape o)) (L2 (fst (lshape o)) cb ca).
Definition lw2 (o : p2) (wy wx : Z) : Z := isz_w (snd (lshape o)) (ev2 (fst (lshape o)) wy wx).

Definition lp1 (o : p1) (ca : lir) : lir :=
  match o with
  | PNot => L1 OIszero ca
  | PInv => L1 ONot ca
  | PInvF n => L2 OXor (LInt (2 ^ n - 1)) ca
  end.

(* ---------------- the legacy compiler ---------------- *)
Fixpoint ycompile (e : yexpr) : lir :=
  match e with
  | YLit _ v => LInt v
  | YVar s _ => LVar s
  | YBin op T ia ib i1 i2 a b =>
      m_cache ia "x" (ycompile a) (fun x =>
      m_cache ib "y" (ycompile b) (fun y => tmpl op T x y i1 i2))
  | YP2 o a b => lp2 o (ycompile b) (ycompile a)
  | YP1 o a => lp1 o (ycompile a)
  | YAnd a b => LIf (ycompile a) (ycompile b) (LInt 0)
  | YOr a b => LIf (ycompile a) (LInt 1) (ycompile b)
  | YNeg T ic a =>
      L2 OSub (LInt 0)
         (m_cache ic "clamp_arg" (ycompile a) (fun x => LSeq (LAssert (L2 OSgt x (LInt (ty_lo T)))) x))
  | YIf c a b => LIf (ycompile c) (ycompile a) (ycompile b)
  end.

(* the tie: the real legacy front end's IR for a sample equals the model's output *)
Definition ytie_ok (e : yexpr) (t : lir) : bool := ywt true e && lir_eqb (ycompile e) t.

(* embedding of the old fragment (ExprCompile.sexpr): the new language contains it, with the same meaning and the
   same compiled term (checked per sample by computation; not needed by the theorems) *)
Definition yty_of_sty (t : sty) : yty := match t with SInt T => TI T | SBool => TB end.
Fixpoint embed (e : sexpr) : yexpr :=
  match e with
  | XInt T v => YLit (TI T) v
  | XBool b => YLit TB (b2z b)
  | XVar s t => YVar s (yty_of_sty t)
  | XBin op T ia ib i1 i2 a b => YBin op T ia ib i1 i2 (embed a) (embed b)
  | XBit op T a b => YP2 (PBit op (TI T)) (embed a) (embed b)
  | XCmp op t a b => YP2 (PCmp op (yty_of_sty t)) (embed a) (embed b)
  | XAnd a b => YAnd (embed a) (embed b)
  | XOr a b => YOr (embed a) (embed b)
  | XNot a => YP1 PNot (embed a)
  | XNeg T ic a => YNeg T ic (embed a)
  | XIf c a b => YIf (embed c) (embed a) (embed b)
  end.
