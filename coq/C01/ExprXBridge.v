(* ExprXBridge: the operators ExprX.yeval adds to the old fragment mean what the C01 reference semantics (VyCore.v) says:
   shifts = VyCore.shift_val at 256 bits, decimal * and / = VyCore.arith DMul / DDiv at (168, signed), the other decimal
   operations and unary minus = the integer ones at (168, signed), bitwise operations = VyCore's, flags as the harness
   encodes them (c01_ast: ~x = x xor (2^n - 1), a in b = (a & b) != 0).  Operator level only: the induction that lifts this
   to VyCore.eval on whole expressions (as ExprBridge.seval_is_vycore does for the old fragment) is not done. *)
From Coq Require Import ZArith Bool List String.
From Verif Require Import Base.Word256 C03.LIR C03.ArithSpec C01.ExprCompile C01.ExprX.
From Verif Require C01.VyCore.
Open Scope Z_scope.

Module V := VyCore.

Lemma shl_is_vycore sg x y : sh_l sg x y = V.shift_val true 256 sg x y.
Proof. reflexivity. Qed.
Lemma shr_is_vycore sg x y : sh_r x y = V.shift_val false 256 sg x y.
Proof. reflexivity. Qed.

Definition o2s (o : outcome) : option Z := match o with Val z => Some z | _ => None end.

Lemma dec_arith_is_vycore x y :
  o2s (arith_spec decimal_t AMul x y) = V.arith V.DMul 168 true x y /\
  o2s (arith_spec decimal_t ADiv x y) = V.arith V.DDiv 168 true x y /\
  o2s (arith_spec decimal_t AAdd x y) = V.arith V.Add 168 true x y /\
  o2s (arith_spec decimal_t ASub x y) = V.arith V.Sub 168 true x y /\
  o2s (arith_spec decimal_t AMod x y) = V.arith V.Mod 168 true x y.
Proof.
  unfold arith_spec, V.arith, chk. change (ndec decimal_t) with true. cbv iota.
  change (V.in_range 168 true) with (in_rangeb decimal_t). change V.DEC with DIVISOR.
  repeat split.
  - destruct (in_rangeb decimal_t (Z.quot (x * y) DIVISOR)); reflexivity.
  - destruct (y =? 0); [reflexivity|]. destruct (in_rangeb decimal_t (Z.quot (x * DIVISOR) y)); reflexivity.
  - destruct (in_rangeb decimal_t (x + y)); reflexivity.
  - destruct (in_rangeb decimal_t (x - y)); reflexivity.
  - destruct (y =? 0); [reflexivity|]. destruct (in_rangeb decimal_t (Z.rem x y)); reflexivity.
Qed.

Lemma bit_is_vycore op bits sg x y :
  Some (bit_fun op x y) = V.arith (match op with BitAnd => V.BAnd | BitOr => V.BOr | BitXor => V.BXor end) bits sg x y.
Proof. destruct op; reflexivity. Qed.

(* flags, as tools/vlib/c01_ast.py writes them for VyCore *)
Lemma flag_ops_are_vycore n neg x y :
  Some (p1_fun (PInvF n) x) = V.arith V.BXor n false x (2 ^ n - 1) /\
  p2_fun (PIn neg n) x y = b2z (xorb neg (negb (Z.land x y =? 0))).
Proof. split; reflexivity. Qed.

Lemma ops_are_vycore :
  (forall sg x y, sh_l sg x y = V.shift_val true 256 sg x y /\ sh_r x y = V.shift_val false 256 sg x y) /\
  (forall x y, o2s (arith_spec decimal_t AMul x y) = V.arith V.DMul 168 true x y /\
               o2s (arith_spec decimal_t ADiv x y) = V.arith V.DDiv 168 true x y).
Proof.
  split; [intros; split; [apply shl_is_vycore | apply shr_is_vycore]|].
  intros x y. destruct (dec_arith_is_vycore x y) as (A & B & _). split; assumption.
Qed.
