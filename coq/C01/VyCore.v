(* VyCore: reference *source* semantics for a fragment of Vyper.
   Written from the language documentation; independent of both code generators
   (it mentions neither IR nor memory nor the EVM stack).  Executable (vm_compute).
   No proofs in this file.

   Fragment: integer types (bits, signed) with checked arithmetic, bool with short-circuit
   and/or, address (as an integer, no arithmetic), static arrays, DynArray (append/pop/len),
   structs; locals, storage and transient variables; internal functions (by-value arguments);
   statements AnnAssign/Assign/AugAssign/If/for-range/for-in/break/continue/assert/raise/
   return/log/append/pop/expression; external entry with ABI range validation of arguments.
   Every evaluation returns, next to the value and the new state, the ordered *effect trace*
   it produced (C08). *)
From Coq Require Import ZArith List Bool.
Import ListNotations.
Open Scope Z_scope.

(* ---------- types and values ---------- *)
Inductive ty :=
| TInt (bits : Z) (signed : bool)
| TBool
| TAddr
| TSArr (t : ty) (n : Z)
| TDArr (t : ty) (cap : Z)
| TStruct (fs : list ty)
| TMap (k v : ty)                    (* HashMap[k, v]: storage only; keys are integers / bool / address *)
| TBytes (n : Z).                    (* Bytes[n] *)

Inductive value :=
| VInt (z : Z)
| VBool (b : bool)
| VList (l : list value)           (* static array, DynArray (its live prefix), struct, unit = VList [] *)
| VMap (dflt : value) (m : list (Z * value))    (* HashMap: explicitly written keys; every other key holds dflt *)
| VBytes (l : list Z).                           (* byte string (each element in 0..255) *)

Definition int_lo (bits : Z) (signed : bool) : Z := if signed then - 2 ^ (bits - 1) else 0.
Definition int_hi (bits : Z) (signed : bool) : Z := if signed then 2 ^ (bits - 1) - 1 else 2 ^ bits - 1.
Definition in_range (bits : Z) (signed : bool) (z : Z) : bool :=
  (int_lo bits signed <=? z) && (z <=? int_hi bits signed).

Fixpoint repeat_v (v : value) (n : nat) : list value :=
  match n with O => [] | S k => v :: repeat_v v k end.

Fixpoint zero_of (t : ty) : value :=
  match t with
  | TInt _ _ => VInt 0
  | TBool => VBool false
  | TAddr => VInt 0
  | TSArr t n => VList (repeat_v (zero_of t) (Z.to_nat n))
  | TDArr _ _ => VList []
  | TStruct fs => VList ((fix go (l : list ty) : list value :=
                            match l with [] => [] | x :: r => zero_of x :: go r end) fs)
  | TMap _ v => VMap (zero_of v) []
  | TBytes _ => VBytes []
  end.

(* does a value inhabit a type (used for ABI validation of external arguments) *)
Fixpoint has_type (fuel : nat) (t : ty) (v : value) : bool :=
  match fuel with O => false | S f =>
  match t, v with
  | TInt bits sg, VInt z => in_range bits sg z
  | TBool, VBool _ => true
  | TBytes n, VBytes l => (Z.of_nat (length l) <=? n) && forallb (fun b => (0 <=? b) && (b <? 256)) l
  | TAddr, VInt z => in_range 160 false z
  | TSArr t n, VList l => (Z.of_nat (length l) =? n) && forallb (has_type f t) l
  | TDArr t cap, VList l => (Z.of_nat (length l) <=? cap) && forallb (has_type f t) l
  | TStruct fs, VList l =>
      (fix go (ts : list ty) (vs : list value) : bool :=
         match ts, vs with
         | [], [] => true
         | t :: ts', v :: vs' => has_type f t v && go ts' vs'
         | _, _ => false
         end) fs l
  | _, _ => false
  end end.

(* ---------- syntax ---------- *)
Inductive binop := Add | Sub | Mul | Div | Mod | BAnd | BOr | BXor | Pow | DMul | DDiv.   (* DMul/DDiv: decimal * and / *)
Inductive deck := ToDec | FromDec | Floor | Ceil.
Definition DEC : Z := 10 ^ 10.      (* decimals are integers scaled by 10^10, 168 bits signed *)
Inductive cmpop := Lt | Le | Gt | Ge | Eq | Ne.
Inductive tbase := BLoc (x : nat) | BSto (x : nat) | BTra (x : nat).

Inductive expr :=
| EConst (v : value)
| EVar (x : nat)                       (* local *)
| ESelf (x : nat)                      (* self.x, storage *)
| ETra (x : nat)                       (* self.x, transient *)
| EBin (op : binop) (t : ty) (a b : expr)
| ECmp (op : cmpop) (a b : expr)
| EAnd (a b : expr)
| EOr (a b : expr)
| ENot (a : expr)
| ENeg (t : ty) (a : expr)
| EIfExp (c a b : expr)
| ECall (f : nat) (args : list expr)   (* self.f(args), internal *)
| EIdx (a i : expr)                    (* a[i] with bounds check *)
| EFld (a : expr) (k : nat)            (* a.field_k *)
| ELen (a : expr)
| EMin (a b : expr)
| EMax (a b : expr)
| EConv (t : ty) (a : expr)            (* convert(a, t) between int/bool/address *)
| ESender
| EValue
| EList (l : list expr)                (* [a, b, ...] or Struct(f=a, ...) *)
| EPop (b : tbase) (p : list (expr + nat))    (* target.pop(); path element = inl index-expr | inr field *)
| EShift (lft : bool) (t : ty) (a b : expr)   (* a << b / a >> b on uint256 / int256: never reverts *)
| EDec (k : deck) (t : ty) (a : expr)  (* convert(int, decimal) / convert(decimal, t) / floor / ceil *)
| EConcat (a b : expr)                 (* concat(a, b) on Bytes *)
| ESlice (a start len : expr).         (* slice(a, start, len) on Bytes: reverts unless start + len <= len(a) *)

Definition path := list (expr + nat).

Inductive stmt :=
| SAssign (b : tbase) (p : path) (e : expr)            (* also AnnAssign *)
| SAug (op : binop) (t : ty) (b : tbase) (p : path) (e : expr)
| SIf (c : expr) (th el : list stmt)
| SFor (x : nat) (start : Z) (n : nat) (body : list stmt)        (* for x in range(start, start+n) *)
| SForDyn (x : nat) (e : expr) (bound : Z) (body : list stmt)    (* for x in range(e, bound=N) *)
| SForIn (x : nat) (e : expr) (body : list stmt)                 (* for x in <array value> *)
| SBreak | SContinue | SPass
| SAssert (e : expr)
| SRaise
| SAssertR (e : expr) (id : nat)      (* assert e, "reason" *)
| SRaiseR (id : nat)                  (* raise "reason" *)
| SReturn (e : option expr)
| SLog (id : nat) (args : list expr)
| SExpr (e : expr)
| SAppend (b : tbase) (p : path) (cap : Z) (e : expr).

Record fundef := mkFun {
  f_params : list ty;        (* parameter i is local i *)
  f_payable : bool;          (* external only *)
  f_body : list stmt }.

Record prog := mkProg {
  p_sto : list ty;           (* storage variables *)
  p_tra : list ty;           (* transient variables *)
  p_int : list fundef;       (* internal functions; function i may call only j < i *)
  p_ext : list fundef }.     (* external functions *)

(* ---------- state, effects, results ---------- *)
Inductive event :=
| EvLog (id : nat) (args : list value)
| EvStore (transient : bool) (x : nat) (p : list Z) (v : value)
| EvCall (f : nat) (args : list value)
| EvRet (f : nat).

Record state := mkState {
  st_loc : list (nat * value);
  st_sto : list value;
  st_tra : list value }.

Record cenv := mkCenv { c_sender : Z; c_value : Z }.

Inductive fail := Revert | RevertMsg (id : nat) | OutOfFuel | Stuck.   (* RevertMsg: assert/raise with reason string #id; Stuck = ill-typed program: never for generated programs *)

Inductive R (A : Type) :=
| Ok (a : A) (s : state) (t : list event)
| Fail (f : fail).
Arguments Ok {A} _ _ _.
Arguments Fail {A} _.

Definition ret {A} (a : A) (s : state) : R A := Ok a s [].
Definition bind {A B} (m : R A) (k : A -> state -> R B) : R B :=
  match m with
  | Ok a s t => match k a s with Ok b s' t' => Ok b s' (t ++ t') | Fail f => Fail f end
  | Fail f => Fail f
  end.
Notation "'do' x , s <- m ; k" := (bind m (fun x s => k))
  (at level 200, x name, s name, m at level 100, k at level 200).
Definition emit {A} (ev : list event) (a : A) (s : state) : R A := Ok a s ev.

Inductive sig := SNormal | SBrk | SCont | SRet (v : value).

(* ---------- stores (lenses) ---------- *)
Fixpoint lget (x : nat) (l : list (nat * value)) : option value :=
  match l with [] => None | (y, v) :: r => if Nat.eqb x y then Some v else lget x r end.
Fixpoint lset (x : nat) (v : value) (l : list (nat * value)) : list (nat * value) :=
  match l with
  | [] => [(x, v)]
  | (y, w) :: r => if Nat.eqb x y then (y, v) :: r else (y, w) :: lset x v r
  end.

Fixpoint upd_nth {A} (n : nat) (a : A) (l : list A) : list A :=
  match l, n with
  | [], _ => []
  | _ :: r, O => a :: r
  | x :: r, S k => x :: upd_nth k a r
  end.

(* association lists for HashMap contents *)
Fixpoint mget (k : Z) (m : list (Z * value)) : option value :=
  match m with [] => None | (j, v) :: r => if Z.eqb k j then Some v else mget k r end.
Fixpoint mset (k : Z) (v : value) (m : list (Z * value)) : list (Z * value) :=
  match m with
  | [] => [(k, v)]
  | (j, w) :: r => if Z.eqb k j then (j, v) :: r else (j, w) :: mset k v r
  end.
Definition mlook (d : value) (k : Z) (m : list (Z * value)) : value :=
  match mget k m with Some v => v | None => d end.

(* list access by a Z index (None when out of range; never converts a large Z to nat) *)
Definition zidx {A} (l : list A) (i : Z) : option A :=
  if (0 <=? i) && (i <? Z.of_nat (length l)) then nth_error l (Z.to_nat i) else None.

(* a HashMap key as an integer *)
Definition key_of (v : value) : option Z :=
  match v with VInt z => Some z | VBool b => Some (if b then 1 else 0) | _ => None end.

(* value at a concrete path inside a value tree; path elements are list indices / field numbers / map keys *)
Fixpoint get_path (p : list Z) (v : value) : option value :=
  match p with
  | [] => Some v
  | i :: r => match v with
              | VList l => match zidx l i with Some w => get_path r w | None => None end
              | VMap d m => get_path r (mlook d i m)
              | _ => None
              end
  end.
Fixpoint set_path (p : list Z) (x : value) (v : value) : option value :=
  match p with
  | [] => Some x
  | i :: r => match v with
              | VList l => match zidx l i with
                           | Some w => match set_path r x w with
                                       | Some w' => Some (VList (upd_nth (Z.to_nat i) w' l))
                                       | None => None
                                       end
                           | None => None
                           end
              | VMap d m => match set_path r x (mlook d i m) with
                            | Some w' => Some (VMap d (mset i w' m))
                            | None => None
                            end
              | _ => None
              end
  end.

Definition base_get (b : tbase) (s : state) : option value :=
  match b with
  | BLoc x => lget x (st_loc s)
  | BSto x => nth_error (st_sto s) x
  | BTra x => nth_error (st_tra s) x
  end.
Definition base_set (b : tbase) (v : value) (s : state) : state :=
  match b with
  | BLoc x => mkState (lset x v (st_loc s)) (st_sto s) (st_tra s)
  | BSto x => mkState (st_loc s) (upd_nth x v (st_sto s)) (st_tra s)
  | BTra x => mkState (st_loc s) (st_sto s) (upd_nth x v (st_tra s))
  end.
Definition store_event (b : tbase) (p : list Z) (v : value) : list event :=
  match b with
  | BLoc _ => []
  | BSto x => [EvStore false x p v]
  | BTra x => [EvStore true x p v]
  end.

(* ---------- arithmetic: the oracle of C03 ---------- *)
(* a ^ b for |a| <= 1 without iterating b times (b may be astronomically large) *)
Definition pow_val (a b : Z) : option Z :=
  if a =? 0 then Some (if b =? 0 then 1 else 0)
  else if a =? 1 then Some 1
  else if a =? -1 then Some (if Z.even b then 1 else -1)
  else None.

(* shifts wrap (left) / floor (right, arithmetic for signed); a shift by >= bits gives 0 (or -1 for negative >> ) *)
Definition shift_val (lft : bool) (bits : Z) (sg : bool) (a b : Z) : Z :=
  if lft then
    if bits <=? b then 0 else
    let w := (a * 2 ^ b) mod 2 ^ bits in
    if sg && (2 ^ (bits - 1) <=? w) then w - 2 ^ bits else w
  else
    if bits <=? b then (if a <? 0 then -1 else 0) else a / 2 ^ b.

Definition arith (op : binop) (bits : Z) (sg : bool) (a b : Z) : option Z :=
  let chk z := if in_range bits sg z then Some z else None in
  match op with
  | DMul => chk (Z.quot (a * b) DEC)
  | DDiv => if b =? 0 then None else chk (Z.quot (a * DEC) b)
  | Pow => if b <? 0 then None else
           match pow_val a b with
           | Some v => chk v
           | None => if bits <? b then None else chk (a ^ b)     (* |a| >= 2 and b > bits: cannot fit *)
           end
  | Add => chk (a + b)
  | Sub => chk (a - b)
  | Mul => chk (a * b)
  | Div => if b =? 0 then None else chk (Z.quot a b)       (* truncation toward zero *)
  | Mod => if b =? 0 then None else chk (Z.rem a b)        (* sign of the dividend *)
  | BAnd => Some (Z.land a b)
  | BOr => Some (Z.lor a b)
  | BXor => Some (Z.lxor a b)
  end.

Fixpoint bytes_eqb (a b : list Z) : bool :=
  match a, b with
  | [], [] => true
  | x :: a', y :: b' => Z.eqb x y && bytes_eqb a' b'
  | _, _ => false
  end.

Definition cmp_int (op : cmpop) (a b : Z) : bool :=
  match op with
  | Lt => a <? b | Le => a <=? b | Gt => a >? b | Ge => a >=? b | Eq => a =? b | Ne => negb (a =? b)
  end.

Definition convert (t : ty) (v : value) : option (option value) :=   (* None = Stuck, Some None = Revert *)
  match t, v with
  | TInt bits sg, VInt z => Some (if in_range bits sg z then Some (VInt z) else None)
  | TInt _ _, VBool b => Some (Some (VInt (if b then 1 else 0)))
  | TAddr, VInt z => Some (if in_range 160 false z then Some (VInt z) else None)
  | TBool, VInt z => Some (Some (VBool (negb (z =? 0))))
  | TBool, VBool b => Some (Some (VBool b))
  | _, _ => None
  end.

(* ---------- loops (structural on the iteration count, not on fuel) ---------- *)
Fixpoint loop_n (k : nat) (i : Z) (body : Z -> state -> R sig) (s : state) : R sig :=
  match k with
  | O => ret SNormal s
  | S k' =>
      do r, s1 <- body i s;
      match r with
      | SNormal | SCont => loop_n k' (i + 1) body s1
      | SBrk => ret SNormal s1
      | SRet v => ret (SRet v) s1
      end
  end.
Fixpoint loop_l (l : list value) (body : value -> state -> R sig) (s : state) : R sig :=
  match l with
  | [] => ret SNormal s
  | v :: r =>
      do q, s1 <- body v s;
      match q with
      | SNormal | SCont => loop_l r body s1
      | SBrk => ret SNormal s1
      | SRet w => ret (SRet w) s1
      end
  end.

Definition bind_params (vs : list value) : list (nat * value) :=
  (fix go (i : nat) (l : list value) : list (nat * value) :=
     match l with [] => [] | v :: r => (i, v) :: go (S i) r end) O vs.

(* ---------- the interpreter ---------- *)
Section Interp.
Variable P : prog.      (*section*)
Variable ce : cenv.     (*section*)

Fixpoint eval (fuel : nat) (e : expr) (s : state) {struct fuel} : R value :=
  match fuel with O => Fail OutOfFuel | S f =>
  match e with
  | EConst v => ret v s
  | EVar x => match lget x (st_loc s) with Some v => ret v s | None => Fail Stuck end
  | ESelf x => match nth_error (st_sto s) x with Some v => ret v s | None => Fail Stuck end
  | ETra x => match nth_error (st_tra s) x with Some v => ret v s | None => Fail Stuck end
  | EBin op t a b =>
      do va, s1 <- eval f a s;
      do vb, s2 <- eval f b s1;
      match t, va, vb with
      | TInt bits sg, VInt x, VInt y =>
          match arith op bits sg x y with Some z => ret (VInt z) s2 | None => Fail Revert end
      | _, _, _ => Fail Stuck
      end
  | ECmp op a b =>
      do va, s1 <- eval f a s;
      do vb, s2 <- eval f b s1;
      match va, vb with
      | VInt x, VInt y => ret (VBool (cmp_int op x y)) s2
      | VBool x, VBool y =>
          match op with
          | Eq => ret (VBool (Bool.eqb x y)) s2
          | Ne => ret (VBool (negb (Bool.eqb x y))) s2
          | _ => Fail Stuck
          end
      | VBytes x, VBytes y =>
          match op with
          | Eq => ret (VBool (bytes_eqb x y)) s2
          | Ne => ret (VBool (negb (bytes_eqb x y))) s2
          | _ => Fail Stuck
          end
      | _, _ => Fail Stuck
      end
  | EAnd a b =>
      do va, s1 <- eval f a s;
      match va with
      | VBool true => eval f b s1
      | VBool false => ret (VBool false) s1
      | _ => Fail Stuck
      end
  | EOr a b =>
      do va, s1 <- eval f a s;
      match va with
      | VBool true => ret (VBool true) s1
      | VBool false => eval f b s1
      | _ => Fail Stuck
      end
  | ENot a =>
      do va, s1 <- eval f a s;
      match va with VBool x => ret (VBool (negb x)) s1 | _ => Fail Stuck end
  | ENeg t a =>
      do va, s1 <- eval f a s;
      match t, va with
      | TInt bits sg, VInt x =>
          if in_range bits sg (- x) then ret (VInt (- x)) s1 else Fail Revert
      | _, _ => Fail Stuck
      end
  | EIfExp c a b =>
      do vc, s1 <- eval f c s;
      match vc with
      | VBool true => eval f a s1
      | VBool false => eval f b s1
      | _ => Fail Stuck
      end
  | ECall g args =>
      do vs, s1 <- eval_list f args s;
      call f g vs s1
  | EIdx a i =>
      do va, s1 <- eval f a s;
      do vi, s2 <- eval f i s1;
      match va, vi with
      | VList l, VInt z =>
          if (0 <=? z) && (z <? Z.of_nat (length l)) then
            match nth_error l (Z.to_nat z) with Some v => ret v s2 | None => Fail Stuck end
          else Fail Revert
      | VMap d m, _ =>
          match key_of vi with Some z => ret (mlook d z m) s2 | None => Fail Stuck end
      | _, _ => Fail Stuck
      end
  | EFld a k =>
      do va, s1 <- eval f a s;
      match va with
      | VList l => match nth_error l k with Some v => ret v s1 | None => Fail Stuck end
      | _ => Fail Stuck
      end
  | ELen a =>
      do va, s1 <- eval f a s;
      match va with
      | VList l => ret (VInt (Z.of_nat (length l))) s1
      | VBytes l => ret (VInt (Z.of_nat (length l))) s1
      | _ => Fail Stuck
      end
  | EMin a b =>
      do va, s1 <- eval f a s;
      do vb, s2 <- eval f b s1;
      match va, vb with VInt x, VInt y => ret (VInt (Z.min x y)) s2 | _, _ => Fail Stuck end
  | EMax a b =>
      do va, s1 <- eval f a s;
      do vb, s2 <- eval f b s1;
      match va, vb with VInt x, VInt y => ret (VInt (Z.max x y)) s2 | _, _ => Fail Stuck end
  | EConv t a =>
      do va, s1 <- eval f a s;
      match convert t va with
      | Some (Some v) => ret v s1
      | Some None => Fail Revert
      | None => Fail Stuck
      end
  | ESender => ret (VInt (c_sender ce)) s
  | EValue => ret (VInt (c_value ce)) s
  | EList l =>
      do vs, s1 <- eval_list f l s;
      ret (VList vs) s1
  | EShift lft t a b =>
      do va, s1 <- eval f a s;
      do vb, s2 <- eval f b s1;
      match t, va, vb with
      | TInt bits sg, VInt x, VInt y => ret (VInt (shift_val lft bits sg x y)) s2
      | _, _, _ => Fail Stuck
      end
  | EDec k t a =>
      do va, s1 <- eval f a s;
      match va with
      | VInt z =>
          match k with
          | ToDec => if in_range 168 true (z * DEC) then ret (VInt (z * DEC)) s1 else Fail Revert
          | FromDec =>
              match t with
              (* the scaled input is bounds-checked BEFORE truncation: convert(255.1, uint8) reverts *)
              | TInt bits sg => if (int_lo bits sg * DEC <=? z) && (z <=? int_hi bits sg * DEC)
                                then ret (VInt (Z.quot z DEC)) s1 else Fail Revert
              | _ => Fail Stuck
              end
          | Floor => ret (VInt (z / DEC)) s1
          | Ceil => ret (VInt (- ((- z) / DEC))) s1
          end
      | _ => Fail Stuck
      end
  | EConcat a b =>
      do va, s1 <- eval f a s;
      do vb, s2 <- eval f b s1;
      match va, vb with
      | VBytes x, VBytes y => ret (VBytes (x ++ y)) s2
      | _, _ => Fail Stuck
      end
  | ESlice a st ln =>
      do va, s1 <- eval f a s;
      do vs, s2 <- eval f st s1;
      do vl, s3 <- eval f ln s2;
      match va, vs, vl with
      | VBytes x, VInt i, VInt n =>
          if (0 <=? i) && (0 <=? n) && (i + n <=? Z.of_nat (length x)) then
            ret (VBytes (firstn (Z.to_nat n) (skipn (Z.to_nat i) x))) s3
          else Fail Revert
      | _, _, _ => Fail Stuck
      end
  | EPop b p =>
      match base_get b s with
      | None => Fail Stuck
      | Some root =>
          do cp, s1 <- resolve f p root s;
          match base_get b s1 with
          | None => Fail Stuck
          | Some root1 =>
              match get_path cp root1 with
              | Some (VList l) =>
                  match rev l with
                  | [] => Fail Revert
                  | last :: rest =>
                      match set_path cp (VList (rev rest)) root1 with
                      | Some root' => emit (store_event b cp (VList (rev rest))) last (base_set b root' s1)
                      | None => Fail Stuck
                      end
                  end
              | _ => Fail Stuck
              end
          end
      end
  end end

with eval_list (fuel : nat) (l : list expr) (s : state) {struct fuel} : R (list value) :=
  match fuel with O => Fail OutOfFuel | S f =>
  match l with
  | [] => ret [] s
  | e :: r =>
      do v, s1 <- eval f e s;
      do vs, s2 <- eval_list f r s1;
      ret (v :: vs) s2
  end end

(* evaluate the index expressions of a target path left to right, bounds-checking each
   against the array it indexes (HashMap keys need no check); yields a concrete path *)
with resolve (fuel : nat) (p : path) (cur : value) (s : state) {struct fuel} : R (list Z) :=
  match fuel with O => Fail OutOfFuel | S f =>
  match p with
  | [] => ret [] s
  | inr k :: r =>
      match cur with
      | VList l => match nth_error l k with
                   | Some w => do cp, s1 <- resolve f r w s; ret (Z.of_nat k :: cp) s1
                   | None => Fail Stuck
                   end
      | _ => Fail Stuck
      end
  | inl ie :: r =>
      do vi, s1 <- eval f ie s;
      match cur, vi with
      | VList l, VInt z =>
          if (0 <=? z) && (z <? Z.of_nat (length l)) then
            match nth_error l (Z.to_nat z) with
            | Some w => do cp, s2 <- resolve f r w s1; ret (z :: cp) s2
            | None => Fail Stuck
            end
          else Fail Revert
      | VMap d m, _ =>
          match key_of vi with
          | Some z => do cp, s2 <- resolve f r (mlook d z m) s1; ret (z :: cp) s2
          | None => Fail Stuck
          end
      | _, _ => Fail Stuck
      end
  end end

(* internal call: fresh locals (by value), shared storage, caller's locals restored *)
with call (fuel : nat) (g : nat) (vs : list value) (s : state) {struct fuel} : R value :=
  match fuel with O => Fail OutOfFuel | S f =>
  match nth_error (p_int P) g with
  | None => Fail Stuck
  | Some fd =>
      if negb (Nat.eqb (length vs) (length (f_params fd))) then Fail Stuck else
      match exec_block f (f_body fd) (mkState (bind_params vs) (st_sto s) (st_tra s)) with
      | Ok r s' t =>
          let s'' := mkState (st_loc s) (st_sto s') (st_tra s') in
          match r with
          | SRet v => Ok v s'' (EvCall g vs :: t ++ [EvRet g])
          | SNormal => Ok (VList []) s'' (EvCall g vs :: t ++ [EvRet g])
          | _ => Fail Stuck
          end
      | Fail x => Fail x
      end
  end end

with exec (fuel : nat) (c : stmt) (s : state) {struct fuel} : R sig :=
  match fuel with O => Fail OutOfFuel | S f =>
  match c with
  | SAssign b p e =>
      (* right-hand side first, then the target's index expressions *)
      do v, s1 <- eval f e s;
      match p with
      | [] => emit (store_event b [] v) SNormal (base_set b v s1)     (* may create a local *)
      | _ =>
        match base_get b s1 with
        | None => Fail Stuck
        | Some root =>
            do cp, s2 <- resolve f p root s1;
            match base_get b s2 with
            | None => Fail Stuck
            | Some root2 =>
                match set_path cp v root2 with
                | Some root' => emit (store_event b cp v) SNormal (base_set b root' s2)
                | None => Fail Stuck
                end
            end
        end
      end
  | SAug op t b p e =>
      (* target location, then its current value, then the right-hand side *)
      match base_get b s with
      | None => Fail Stuck
      | Some root =>
          do cp, s1 <- resolve f p root s;
          match base_get b s1 with
          | None => Fail Stuck
          | Some root1 =>
              match get_path cp root1 with
              | Some (VInt x) =>
                  do vr, s2 <- eval f e s1;
                  match t, vr with
                  | TInt bits sg, VInt y =>
                      match arith op bits sg x y with
                      | None => Fail Revert
                      | Some z =>
                          match base_get b s2 with
                          | None => Fail Stuck
                          | Some root2 =>
                              match set_path cp (VInt z) root2 with
                              | Some root' => emit (store_event b cp (VInt z)) SNormal (base_set b root' s2)
                              | None => Fail Stuck
                              end
                          end
                      end
                  | _, _ => Fail Stuck
                  end
              | _ => Fail Stuck
              end
          end
      end
  | SIf c th el =>
      do vc, s1 <- eval f c s;
      match vc with
      | VBool true => exec_block f th s1
      | VBool false => exec_block f el s1
      | _ => Fail Stuck
      end
  | SFor x start n body =>
      loop_n n start (fun i s' => exec_block f body (base_set (BLoc x) (VInt i) s')) s
  | SForDyn x e bound body =>
      do vn, s1 <- eval f e s;
      match vn with
      | VInt n =>
          if (0 <=? n) && (n <=? bound) then
            loop_n (Z.to_nat n) 0 (fun i s' => exec_block f body (base_set (BLoc x) (VInt i) s')) s1
          else Fail Revert
      | _ => Fail Stuck
      end
  | SForIn x e body =>
      do va, s1 <- eval f e s;
      match va with
      | VList l => loop_l l (fun v s' => exec_block f body (base_set (BLoc x) v s')) s1
      | _ => Fail Stuck
      end
  | SBreak => ret SBrk s
  | SContinue => ret SCont s
  | SPass => ret SNormal s
  | SAssert e =>
      do v, s1 <- eval f e s;
      match v with
      | VBool true => ret SNormal s1
      | VBool false => Fail Revert
      | _ => Fail Stuck
      end
  | SRaise => Fail Revert
  | SAssertR e id =>
      do v, s1 <- eval f e s;
      match v with
      | VBool true => ret SNormal s1
      | VBool false => Fail (RevertMsg id)
      | _ => Fail Stuck
      end
  | SRaiseR id => Fail (RevertMsg id)
  | SReturn None => ret (SRet (VList [])) s
  | SReturn (Some e) =>
      do v, s1 <- eval f e s;
      ret (SRet v) s1
  | SLog id args =>
      do vs, s1 <- eval_list f args s;
      emit [EvLog id vs] SNormal s1
  | SExpr e =>
      do v, s1 <- eval f e s;
      ret SNormal s1
  | SAppend b p cap e =>
      (* argument first, then the target *)
      do v, s1 <- eval f e s;
      match base_get b s1 with
      | None => Fail Stuck
      | Some root =>
          do cp, s2 <- resolve f p root s1;
          match base_get b s2 with
          | None => Fail Stuck
          | Some root2 =>
              match get_path cp root2 with
              | Some (VList l) =>
                  if Z.of_nat (length l) <? cap then
                    match set_path cp (VList (l ++ [v])) root2 with
                    | Some root' => emit (store_event b cp (VList (l ++ [v]))) SNormal (base_set b root' s2)
                    | None => Fail Stuck
                    end
                  else Fail Revert
              | _ => Fail Stuck
              end
          end
      end
  end end

with exec_block (fuel : nat) (l : list stmt) (s : state) {struct fuel} : R sig :=
  match fuel with O => Fail OutOfFuel | S f =>
  match l with
  | [] => ret SNormal s
  | c :: r =>
      do q, s1 <- exec f c s;
      match q with
      | SNormal => exec_block f r s1
      | other => ret other s1
      end
  end end.

End Interp.

(* ---------- external entry ---------- *)
Inductive ext_result :=
| XOk (ret : value) (trace : list event) (sto : list value) (tra : list value)
| XRevert
| XRevertMsg (id : nat)
| XError (f : fail).

Definition call_ext (fuel : nat) (P : prog) (ce : cenv) (idx : nat) (args : list value)
           (sto tra : list value) : ext_result :=
  match nth_error (p_ext P) idx with
  | None => XError Stuck
  | Some fd =>
      if negb (Nat.eqb (length args) (length (f_params fd))) then XError Stuck else
      if negb (forallb (fun tv => has_type 64 (fst tv) (snd tv)) (combine (f_params fd) args)) then XRevert else
      if negb (f_payable fd) && negb (c_value ce =? 0) then XRevert else
      match exec_block P ce fuel (f_body fd) (mkState (bind_params args) sto tra) with
      | Ok (SRet v) s t => XOk v t (st_sto s) (st_tra s)
      | Ok SNormal s t => XOk (VList []) t (st_sto s) (st_tra s)
      | Ok _ _ _ => XError Stuck
      | Fail Revert => XRevert
      | Fail (RevertMsg k) => XRevertMsg k
      | Fail x => XError x
      end
  end.

Definition init_sto (P : prog) : list value := map zero_of (p_sto P).
Definition init_tra (P : prog) : list value := map zero_of (p_tra P).

(* a transaction = one external call; transient storage is reset after each (every call in the
   harness is its own transaction); a reverted call leaves storage unchanged *)
Record xcall := mkCall { x_idx : nat; x_sender : Z; x_value : Z; x_args : list value }.

Fixpoint run_calls (fuel : nat) (P : prog) (calls : list xcall) (sto : list value)
  : list ext_result * list value :=
  match calls with
  | [] => ([], sto)
  | c :: r =>
      let res := call_ext fuel P (mkCenv (x_sender c) (x_value c)) (x_idx c) (x_args c) sto (init_tra P) in
      let sto' := match res with XOk _ _ s _ => s | _ => sto end in
      let '(rs, fin) := run_calls fuel P r sto' in
      (res :: rs, fin)
  end.

(* ---------- static fuel bound (proved sufficient in Terminates.v) ---------- *)
Section Depth.
Local Open Scope nat_scope.
Fixpoint depth_e (e : expr) : nat :=
  let depth_l := fix go (l : list expr) : nat :=
      match l with [] => 1 | x :: r => S (Nat.max (depth_e x) (go r)) end in
  let depth_p := fix go (p : list (expr + nat)) : nat :=
      match p with
      | [] => 1
      | inl x :: r => S (Nat.max (depth_e x) (go r))
      | inr _ :: r => S (go r)
      end in
  match e with
  | EConst _ | EVar _ | ESelf _ | ETra _ | ESender | EValue => 1
  | EBin _ _ a b | ECmp _ a b | EAnd a b | EOr a b | EIdx a b | EMin a b | EMax a b | EConcat a b | EShift _ _ a b =>
      S (Nat.max (depth_e a) (depth_e b))
  | ESlice a b c => S (Nat.max (depth_e a) (Nat.max (depth_e b) (depth_e c)))
  | ENot a | ENeg _ a | EFld a _ | ELen a | EConv _ a | EDec _ _ a => S (depth_e a)
  | EIfExp c a b => S (Nat.max (depth_e c) (Nat.max (depth_e a) (depth_e b)))
  | ECall _ args => S (S (depth_l args))     (* + the callee, accounted per call level *)
  | EList l => S (depth_l l)
  | EPop _ p => S (depth_p p)
  end.
Fixpoint depth_l (l : list expr) : nat :=
  match l with [] => 1 | x :: r => S (Nat.max (depth_e x) (depth_l r)) end.
Fixpoint depth_p (p : path) : nat :=
  match p with
  | [] => 1
  | inl x :: r => S (Nat.max (depth_e x) (depth_p r))
  | inr _ :: r => S (depth_p r)
  end.
Fixpoint depth_s (c : stmt) : nat :=
  let depth_b := fix go (l : list stmt) : nat :=
      match l with [] => 1 | x :: r => S (Nat.max (depth_s x) (go r)) end in
  match c with
  | SAssign _ p e | SAug _ _ _ p e | SAppend _ p _ e => S (Nat.max (depth_e e) (depth_p p))
  | SIf c th el => S (Nat.max (depth_e c) (Nat.max (depth_b th) (depth_b el)))
  | SFor _ _ _ body => S (depth_b body)
  | SForDyn _ e _ body | SForIn _ e body => S (Nat.max (depth_e e) (depth_b body))
  | SBreak | SContinue | SPass | SRaise | SRaiseR _ | SReturn None => 1
  | SAssert e | SAssertR e _ | SReturn (Some e) | SExpr e => S (depth_e e)
  | SLog _ args => S (depth_l args)
  end.
Fixpoint depth_b (l : list stmt) : nat :=
  match l with [] => 1 | x :: r => S (Nat.max (depth_s x) (depth_b r)) end.
End Depth.

Definition max_body_depth (P : prog) : nat :=
  fold_right Nat.max 0%nat (map (fun fd => depth_b (f_body fd)) (p_int P ++ p_ext P)).
(* every call level needs at most D+1 steps of recursion depth; at most |p_int| nested levels *)
Definition fuel_bound (P : prog) : nat :=
  (S (length (p_int P)) * S (max_body_depth P))%nat.
