(* VyBuiltin: source-level meaning of the pure, value-level builtin functions, as an extension of VyCore.
   Written from docs/built-in-functions.rst (and the builtins' literal-folding rules), NOT from either code generator:
   no IR, no memory, no EVM stack.  Executable (vm_compute).  No proofs in this file (laws: VyBuiltinLaws.v).

   Values are VyCore values: integers / decimals (scaled by 10^10) / addresses / bytesM (the M bytes read as a
   big-endian number) are `VInt`, Bytes and String are `VBytes`.
   `bexpr` extends VyCore's expressions: a leaf is ANY VyCore expression (evaluated by VyCore.eval over the function's
   parameters as locals), an inner node applies a builtin from the table `bi_eval` to argument values evaluated left to
   right.  keccak256 / sha256 are an oracle table (preimage -> digest) supplied per run by the harness; a preimage that is
   not in the table makes the evaluation Stuck (fail closed), never a guessed value. *)
From Coq Require Import ZArith List Bool.
From Verif Require Import Base.Word256 C01.VyCore.
Import ListNotations.
Open Scope Z_scope.

Inductive uop := UAdd | USub | UMul | UDiv.
Inductive xout := XB32 | XInt (bits : Z) (sg : bool) | XAddr.
Inductive hkind := HKeccak | HSha.

Inductive builtin :=
| BiAsWei (denom : Z) (dec : bool)     (* as_wei_value(x, unit): unit = denom wei; dec: x is a decimal *)
| BiMin | BiMax                        (* all numeric types (same type both sides) *)
| BiAbs                                (* int256 *)
| BiFloor | BiCeil                     (* decimal -> int256 *)
| BiIsqrt                              (* uint256 *)
| BiAddmod | BiMulmod                  (* uint256_addmod / uint256_mulmod *)
| BiPowMod                             (* pow_mod256 *)
| BiUnsafe (op : uop) (bits : Z) (sg : bool)   (* unsafe_add/sub/mul/div at an integer type *)
| BiShift (sg : bool)                  (* shift(x, n) on uint256 / int256; n > 0 left, n < 0 right *)
| BiUint2Str
| BiLen
| BiEmpty (t : ty)
| BiExtract32 (o : xout)
| BiSlice                              (* slice(Bytes/String, start, len) *)
| BiSliceB32                           (* slice(bytes32, start, len) *)
| BiConcat                             (* concat of two Bytes/String values *)
| BiConcatM (m : Z)                    (* concat(Bytes, bytesM) *)
| BiHash (k : hkind) (b32 : bool)      (* keccak256 / sha256 of Bytes/String (b32 = false) or of a bytes32 value *)
| BiMethodId (sig : list Z) (b4 : bool).  (* method_id("sig") as Bytes[4] (b4 = false) or bytes4 *)

(* ---------- arithmetic meanings ---------- *)
Definition U256 : Z := 2 ^ 256.

(* the representative of z modulo 2^bits in the range of the type *)
Definition wrap_t (bits : Z) (sg : bool) (z : Z) : Z :=
  let w := z mod 2 ^ bits in
  if sg && (2 ^ (bits - 1) <=? w) then w - 2 ^ bits else w.

(* floor(value * denom) as a uint256; negative amounts and results that do not fit revert *)
Definition as_wei (denom : Z) (dec : bool) (z : Z) : option Z :=
  if z <? 0 then None else
  let r := if dec then (z * denom) / DEC else z * denom in
  if r <? U256 then Some r else None.

Definition abs_val (z : Z) : option Z :=
  if in_range 256 true (Z.abs z) then Some (Z.abs z) else None.

Definition unsafe_val (op : uop) (bits : Z) (sg : bool) (a b : Z) : Z :=
  match op with
  | UAdd => wrap_t bits sg (a + b)
  | USub => wrap_t bits sg (a - b)
  | UMul => wrap_t bits sg (a * b)
  | UDiv => if b =? 0 then 0 else wrap_t bits sg (Z.quot a b)
  end.

Definition shift_builtin (sg : bool) (x n : Z) : Z :=
  if 0 <=? n then shift_val true 256 sg x n else shift_val false 256 sg x (- n).

(* ---------- byte strings ---------- *)
Definition be_val (l : list Z) : Z := fold_left (fun acc b => acc * 256 + b) l 0.
Fixpoint be_bytes (n : nat) (z : Z) : list Z :=      (* the n low-order bytes of z, most significant first *)
  match n with O => [] | S k => be_bytes k (z / 256) ++ [z mod 256] end.

Fixpoint digits (fuel : nat) (z : Z) (acc : list Z) : list Z :=
  match fuel with
  | O => acc
  | S f => let acc' := (48 + z mod 10) :: acc in if z <? 10 then acc' else digits f (z / 10) acc'
  end.
Definition uint2str (z : Z) : list Z := digits 80 z [].

Definition slice_val (x : list Z) (i n : Z) : option (list Z) :=
  if (0 <=? i) && (0 <=? n) && (i + n <=? Z.of_nat (length x))
  then Some (firstn (Z.to_nat n) (skipn (Z.to_nat i) x)) else None.

(* the 32-byte window at `start`, as a number; None unless it lies inside the byte string *)
Definition extract_word (x : list Z) (i : Z) : option Z :=
  match slice_val x i 32 with Some w => Some (be_val w) | None => None end.

Definition extract_out (o : xout) (w : Z) : option Z :=
  match o with
  | XB32 => Some w
  | XAddr => if w <? 2 ^ 160 then Some w else None
  | XInt bits sg =>
      let v := if sg && (2 ^ 255 <=? w) then w - U256 else w in
      if in_range bits sg v then Some v else None
  end.

(* ---------- the hash oracle ---------- *)
Definition hentry := (hkind * list Z * Z)%type.
Definition hkind_eqb (a b : hkind) : bool :=
  match a, b with HKeccak, HKeccak => true | HSha, HSha => true | _, _ => false end.
Fixpoint hlook (tab : list hentry) (k : hkind) (pre : list Z) : option Z :=
  match tab with
  | [] => None
  | (k', p, d) :: r => if hkind_eqb k k' && bytes_eqb pre p then Some d else hlook r k pre
  end.

(* ---------- the builtin table: None = Stuck (ill-typed use / preimage not in the oracle), Some None = Revert ---------- *)
Definition okv (z : Z) : option (option value) := Some (Some (VInt z)).
Definition lift (o : option Z) : option (option value) :=
  match o with Some z => okv z | None => Some None end.

Definition bi_eval (tab : list hentry) (b : builtin) (args : list value) : option (option value) :=
  match b, args with
  | BiAsWei denom dec, [VInt z] => lift (as_wei denom dec z)
  | BiMin, [VInt x; VInt y] => okv (Z.min x y)
  | BiMax, [VInt x; VInt y] => okv (Z.max x y)
  | BiAbs, [VInt x] => lift (abs_val x)
  | BiFloor, [VInt z] => okv (z / DEC)
  | BiCeil, [VInt z] => okv (- ((- z) / DEC))
  | BiIsqrt, [VInt x] => okv (Z.sqrt x)
  | BiAddmod, [VInt a; VInt b'; VInt c] => if c =? 0 then Some None else okv ((a + b') mod c)
  | BiMulmod, [VInt a; VInt b'; VInt c] => if c =? 0 then Some None else okv ((a * b') mod c)
  | BiPowMod, [VInt a; VInt b'] => okv (Word256.powmod a b' U256)
  | BiUnsafe op bits sg, [VInt x; VInt y] => okv (unsafe_val op bits sg x y)
  | BiShift sg, [VInt x; VInt n] => okv (shift_builtin sg x n)
  | BiUint2Str, [VInt z] => Some (Some (VBytes (uint2str z)))
  | BiLen, [VBytes l] => okv (Z.of_nat (length l))
  | BiLen, [VList l] => okv (Z.of_nat (length l))
  | BiEmpty t, [] => Some (Some (zero_of t))
  | BiExtract32 o, [VBytes x; VInt i] =>
      match extract_word x i with
      | Some w => lift (extract_out o w)
      | None => Some None
      end
  | BiSlice, [VBytes x; VInt i; VInt n] =>
      match slice_val x i n with Some r => Some (Some (VBytes r)) | None => Some None end
  | BiSliceB32, [VInt w; VInt i; VInt n] =>
      match slice_val (be_bytes 32 w) i n with Some r => Some (Some (VBytes r)) | None => Some None end
  | BiConcat, [VBytes x; VBytes y] => Some (Some (VBytes (x ++ y)))
  | BiConcatM m, [VBytes x; VInt w] => Some (Some (VBytes (x ++ be_bytes (Z.to_nat m) w)))
  | BiHash k false, [VBytes x] => match hlook tab k x with Some d => okv d | None => None end
  | BiHash k true, [VInt w] => match hlook tab k (be_bytes 32 w) with Some d => okv d | None => None end
  | BiMethodId sig b4, [] =>
      match hlook tab HKeccak sig with
      | Some d => let sel := d / 2 ^ 224 in
                  if b4 then okv sel else Some (Some (VBytes (be_bytes 4 sel)))
      | None => None
      end
  | _, _ => None
  end.

(* ---------- expressions with builtins ---------- *)
Inductive bexpr :=
| BCore (e : expr)                       (* any VyCore expression over the parameters (locals 0..n-1) *)
| BApp (b : builtin) (args : list bexpr).

Definition BFUEL : nat := 64.
Definition P0 : prog := mkProg [] [] [] [].
Definition CE0 : cenv := mkCenv 0 0.

Section EvalB.
Variable tab : list hentry.    (*section*)

Fixpoint evalB (e : bexpr) (s : state) : R value :=
  match e with
  | BCore c => eval P0 CE0 BFUEL c s
  | BApp b args =>
      do vs, s1 <- (fix go (l : list bexpr) (s : state) : R (list value) :=
                      match l with
                      | [] => ret [] s
                      | a :: r => do v, s1 <- evalB a s; do vs, s2 <- go r s1; ret (v :: vs) s2
                      end) args s;
      match bi_eval tab b vs with
      | Some (Some v) => ret v s1
      | Some None => Fail Revert
      | None => Fail Stuck
      end
  end.

Fixpoint evalBs (l : list bexpr) (s : state) : R (list value) :=
  match l with
  | [] => ret [] s
  | a :: r => do v, s1 <- evalB a s; do vs, s2 <- evalBs r s1; ret (v :: vs) s2
  end.

Record bfun := mkBFun { bf_params : list ty; bf_body : bexpr }.     (* def f(params) -> T: return body *)

Inductive bres := BOk (v : value) | BRevert | BError (f : fail).

(* external entry: ABI validation of the arguments (as VyCore.call_ext), then the body *)
Definition call_b (fs : list bfun) (idx : nat) (args : list value) : bres :=
  match nth_error fs idx with
  | None => BError Stuck
  | Some fd =>
      if negb (Nat.eqb (length args) (length (bf_params fd))) then BError Stuck else
      if negb (forallb (fun tv => has_type 64 (fst tv) (snd tv)) (combine (bf_params fd) args)) then BRevert else
      match evalB (bf_body fd) (mkState (bind_params args) [] []) with
      | Ok v _ _ => BOk v
      | Fail Revert => BRevert
      | Fail (RevertMsg _) => BRevert
      | Fail x => BError x
      end
  end.
End EvalB.

(* ---------- serialisation for the harness ---------- *)
Fixpoint enc_v (v : value) : list Z :=
  match v with
  | VInt z => [0; z]
  | VBool b => [1; if b then 1 else 0]
  | VList l => 2 :: Z.of_nat (length l) ::
      (fix go (l : list value) : list Z := match l with [] => [] | x :: r => enc_v x ++ go r end) l
  | VBytes l => 4 :: Z.of_nat (length l) :: l
  | VMap _ _ => [3]
  end.
Definition enc_bres (r : bres) : list Z :=
  match r with
  | BOk v => 1 :: enc_v v
  | BRevert => [0]
  | BError OutOfFuel => [2; 1]
  | BError _ => [2; 2]
  end.
Definition show_b (tab : list hentry) (fs : list bfun) (calls : list (nat * list value)) : list Z :=
  flat_map (fun c => enc_bres (call_b tab fs (fst c) (snd c))) calls.
