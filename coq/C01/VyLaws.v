(* Laws of the reference semantics VyCore: determinism, exact arithmetic, store lens laws,
   evaluation order / exactly-once (C08), pass-by-value (C08). *)
From Coq Require Import ZArith List Bool Lia ZifyBool Arith.
From Verif Require Import C01.VyCore.
Import ListNotations.
Open Scope Z_scope.
Ltac Zify.zify_post_hook ::= Z.to_euclidean_division_equations.

(* ------------------------------------------------------------------ monad inversion *)
Lemma bind_ok {A B} (m : R A) (k : A -> state -> R B) b s' t :
  bind m k = Ok b s' t ->
  exists a s1 t1 t2, m = Ok a s1 t1 /\ k a s1 = Ok b s' t2 /\ t = t1 ++ t2.
Proof.
  unfold bind. destruct m as [a s1 t1|f]; [|discriminate].
  destruct (k a s1) as [b' s2 t2|f] eqn:E; [|discriminate].
  intros H; inversion H; subst. exists a, s1, t1, t2. auto.
Qed.

Lemma ret_ok {A} (a : A) s b s' t : ret a s = Ok b s' t -> b = a /\ s' = s /\ t = [].
Proof. unfold ret. intros H; inversion H; auto. Qed.

(* ------------------------------------------------------------------ determinism *)
(* The semantics is a Coq function, so determinism is immediate; it is stated because C01/C02 cite it:
   the observable result of a call sequence is a function of program, calls and initial storage only
   (in particular there is no compiler-configuration parameter). *)
Lemma deterministic_call : forall fuel P ce idx args sto tra r1 r2,
  call_ext fuel P ce idx args sto tra = r1 -> call_ext fuel P ce idx args sto tra = r2 -> r1 = r2.
Proof. intros; congruence. Qed.

Lemma deterministic_run : forall fuel P calls sto r1 r2,
  run_calls fuel P calls sto = r1 -> run_calls fuel P calls sto = r2 -> r1 = r2.
Proof. intros; congruence. Qed.

(* ------------------------------------------------------------------ exact arithmetic *)
(* the mathematical specification of each operator, written without Z.quot/Z.rem *)
Definition math_spec (op : binop) (a b z : Z) : Prop :=
  match op with
  | Add => z = a + b
  | Sub => z = a - b
  | Mul => z = a * b
  | Div => b <> 0 /\ exists r, a = b * z + r /\ Z.abs r < Z.abs b /\ 0 <= r * a   (* truncated quotient *)
  | Mod => b <> 0 /\ exists q, a = b * q + z /\ Z.abs z < Z.abs b /\ 0 <= z * a   (* remainder, sign of dividend *)
  | BAnd => z = Z.land a b
  | BOr => z = Z.lor a b
  | BXor => z = Z.lxor a b
  | Pow => 0 <= b /\ z = a ^ b
  (* decimals: values scaled by DEC; * and / truncate toward zero on the exact scaled quotient *)
  | DMul => exists r, a * b = DEC * z + r /\ Z.abs r < Z.abs DEC /\ 0 <= r * (a * b)
  | DDiv => b <> 0 /\ exists r, a * DEC = b * z + r /\ Z.abs r < Z.abs b /\ 0 <= r * (a * DEC)
  end.

Definition is_checked (op : binop) : bool :=
  match op with Add | Sub | Mul | Div | Mod | Pow | DMul | DDiv => true | _ => false end.

(* exponentiation helpers *)
Lemma pow_val_ok a b v : 0 <= b -> pow_val a b = Some v -> v = a ^ b.
Proof.
  intros Hb. unfold pow_val.
  destruct (a =? 0) eqn:E0.
  { apply Z.eqb_eq in E0. subst a. intros H; inversion H; subst.
    destruct (b =? 0) eqn:Eb; [apply Z.eqb_eq in Eb; subst; reflexivity|].
    apply Z.eqb_neq in Eb. symmetry. apply Z.pow_0_l. lia. }
  destruct (a =? 1) eqn:E1.
  { apply Z.eqb_eq in E1. subst a. intros H; inversion H. symmetry. apply Z.pow_1_l. lia. }
  destruct (a =? -1) eqn:Em; [|discriminate].
  apply Z.eqb_eq in Em. subst a. intros H; inversion H; subst.
  destruct (Z.even b) eqn:Ev.
  - change (-1) with (- (1)). rewrite Z.pow_opp_even by (rewrite <- Z.even_spec; exact Ev). symmetry. apply Z.pow_1_l. lia.
  - change (-1) with (- (1)). rewrite Z.pow_opp_odd by (rewrite <- Z.odd_spec, <- Z.negb_even, Ev; reflexivity).
    rewrite Z.pow_1_l by lia. reflexivity.
Qed.

Lemma pow_too_big bits sg a b : pow_val a b = None -> 0 <= b -> bits < b -> in_range bits sg (a ^ b) = false.
Proof.
  intros Hp Hb Hbits.
  assert (Ha : 2 <= Z.abs a).
  { unfold pow_val in Hp. destruct (a =? 0) eqn:E0; [discriminate|]. destruct (a =? 1) eqn:E1; [discriminate|].
    destruct (a =? -1) eqn:Em; [discriminate|]. lia. }
  assert (Hbig : 2 ^ b <= Z.abs (a ^ b)).
  { rewrite Z.abs_pow. apply Z.pow_le_mono_l. lia. }
  unfold in_range, int_lo, int_hi.
  destruct (Z_lt_le_dec bits 1) as [Hs|Hs].
  - (* degenerate widths: the type is empty or {0} *)
    assert (Nz : a ^ b <> 0) by (apply Z.pow_nonzero; lia).
    destruct (Z.eq_dec bits 0) as [->|Hn0].
    + destruct sg; cbn; lia.
    + assert (2 ^ bits = 0) by (apply Z.pow_neg_r; lia).
      assert (2 ^ (bits - 1) = 0) by (apply Z.pow_neg_r; lia).
      destruct sg; lia.
  - assert (H1 : 2 ^ (bits + 1) <= 2 ^ b) by (apply Z.pow_le_mono_r; lia).
    rewrite Z.pow_add_r in H1 by lia. change (2 ^ 1) with 2 in H1.
    assert (Hp2 : 2 ^ bits = 2 * 2 ^ (bits - 1)).
    { replace bits with ((bits - 1) + 1) at 1 by lia. rewrite Z.pow_add_r by lia. change (2 ^ 1) with 2. lia. }
    assert (0 < 2 ^ (bits - 1)) by (apply Z.pow_pos_nonneg; lia).
    destruct sg; lia.
Qed.

Lemma quot_spec a b : b <> 0 ->
  exists r, a = b * Z.quot a b + r /\ Z.abs r < Z.abs b /\ 0 <= r * a.
Proof.
  intros Hb. exists (Z.rem a b). split; [apply Z.quot_rem'|]. split.
  - apply Z.rem_bound_abs; auto.
  - destruct (Z_le_gt_dec 0 a).
    + pose proof (Z.rem_nonneg a b Hb l). nia.
    + assert (Ha : a <= 0) by lia. pose proof (Z.rem_nonpos a b Hb Ha). nia.
Qed.

Lemma arith_some op bits sg a b z :
  arith op bits sg a b = Some z ->
  math_spec op a b z /\ (is_checked op = true -> in_range bits sg z = true).
Proof.
  unfold arith. destruct op; cbn [math_spec is_checked].
  - destruct (in_range bits sg (a + b)) eqn:E; intros H; inversion H; subst; auto.
  - destruct (in_range bits sg (a - b)) eqn:E; intros H; inversion H; subst; auto.
  - destruct (in_range bits sg (a * b)) eqn:E; intros H; inversion H; subst; auto.
  - destruct (b =? 0) eqn:Eb; [discriminate|]. apply Z.eqb_neq in Eb.
    destruct (in_range bits sg (Z.quot a b)) eqn:E; intros H; inversion H; subst.
    split; auto. split; auto. apply quot_spec; auto.
  - destruct (b =? 0) eqn:Eb; [discriminate|]. apply Z.eqb_neq in Eb.
    destruct (in_range bits sg (Z.rem a b)) eqn:E; intros H; inversion H; subst.
    split; auto. split; auto. exists (Z.quot a b). split; [apply Z.quot_rem'|]. split.
    + apply Z.rem_bound_abs; auto.
    + destruct (Z_le_gt_dec 0 a).
      * pose proof (Z.rem_nonneg a b Eb l). nia.
      * assert (Ha : a <= 0) by lia. pose proof (Z.rem_nonpos a b Eb Ha). nia.
  - intros H; inversion H; split; auto; discriminate.
  - intros H; inversion H; split; auto; discriminate.
  - intros H; inversion H; split; auto; discriminate.
  - destruct (b <? 0) eqn:Eb; [discriminate|]. assert (0 <= b) by lia.
    destruct (pow_val a b) as [v|] eqn:Ep.
    + destruct (in_range bits sg v) eqn:E; intros H0; inversion H0; subst.
      split; auto. split; auto. eapply pow_val_ok; eauto.
    + destruct (bits <? b); [discriminate|].
      destruct (in_range bits sg (a ^ b)) eqn:E; intros H0; inversion H0; subst. split; auto.
  - destruct (in_range bits sg (Z.quot (a * b) DEC)) eqn:E; intros H; inversion H; subst.
    split; auto. apply quot_spec. unfold DEC. lia.
  - destruct (b =? 0) eqn:Eb; [discriminate|]. apply Z.eqb_neq in Eb.
    destruct (in_range bits sg (Z.quot (a * DEC) b)) eqn:E; intros H; inversion H; subst.
    split; auto. split; auto. apply quot_spec; auto.
Qed.

(* the truncated quotient / remainder are unique, so [math_spec] determines the result *)
Lemma trunc_div_unique a b q1 r1 q2 r2 :
  b <> 0 ->
  a = b * q1 + r1 -> Z.abs r1 < Z.abs b -> 0 <= r1 * a ->
  a = b * q2 + r2 -> Z.abs r2 < Z.abs b -> 0 <= r2 * a ->
  q1 = q2 /\ r1 = r2.
Proof.
  intros Hb E1 B1 S1 E2 B2 S2.
  assert (Hq : q1 = q2); [|subst; lia].
  assert (b * (q1 - q2) = r2 - r1) by lia.
  destruct (Z.eq_dec q1 q2); auto. exfalso.
  assert (Z.abs b <= Z.abs (r2 - r1)).
  { rewrite <- H. rewrite Z.abs_mul. assert (1 <= Z.abs (q1 - q2)) by lia. nia. }
  (* r1, r2 have the sign of a (or are 0), so |r2 - r1| < |b| *)
  destruct (Z.lt_trichotomy a 0) as [Ha|[Ha|Ha]].
  - assert (r1 <= 0) by nia. assert (r2 <= 0) by nia. lia.
  - subst a.
    assert (A1 : Z.abs b * Z.abs q1 = Z.abs r1).
    { rewrite <- Z.abs_mul. replace (b * q1) with (- r1) by lia. apply Z.abs_opp. }
    assert (A2 : Z.abs b * Z.abs q2 = Z.abs r2).
    { rewrite <- Z.abs_mul. replace (b * q2) with (- r2) by lia. apply Z.abs_opp. }
    assert (Q1 : Z.abs q1 = 0).
    { destruct (Z.eq_dec (Z.abs q1) 0); auto. exfalso.
      assert (Z.abs b * 1 <= Z.abs b * Z.abs q1) by (apply Z.mul_le_mono_nonneg_l; lia). lia. }
    assert (Q2 : Z.abs q2 = 0).
    { destruct (Z.eq_dec (Z.abs q2) 0); auto. exfalso.
      assert (Z.abs b * 1 <= Z.abs b * Z.abs q2) by (apply Z.mul_le_mono_nonneg_l; lia). lia. }
    lia.
  - assert (0 <= r1) by nia. assert (0 <= r2) by nia. lia.
Qed.

Lemma math_spec_functional op a b z1 z2 : math_spec op a b z1 -> math_spec op a b z2 -> z1 = z2.
Proof.
  destruct op; cbn; try congruence.
  - intros [Hb [r1 [E1 [B1 S1]]]] [_ [r2 [E2 [B2 S2]]]].
    destruct (trunc_div_unique a b z1 r1 z2 r2); auto.
  - intros [Hb [q1 [E1 [B1 S1]]]] [_ [q2 [E2 [B2 S2]]]].
    destruct (trunc_div_unique a b q1 z1 q2 z2); auto.
  - intros [_ ->] [_ ->]. reflexivity.
  - intros [r1 [E1 [B1 S1]]] [r2 [E2 [B2 S2]]].
    destruct (trunc_div_unique (a * b) DEC z1 r1 z2 r2); auto. unfold DEC; lia.
  - intros [Hb [r1 [E1 [B1 S1]]]] [_ [r2 [E2 [B2 S2]]]].
    destruct (trunc_div_unique (a * DEC) b z1 r1 z2 r2); auto.
Qed.

(* None exactly when the mathematical result does not exist (division by zero) or does not fit *)
Lemma arith_none op bits sg a b :
  arith op bits sg a b = None ->
  is_checked op = true /\
  (((op = Div \/ op = Mod) /\ b = 0) \/ forall z, math_spec op a b z -> in_range bits sg z = false).
Proof.
  unfold arith. destruct op; cbn [is_checked]; try discriminate.
  - destruct (in_range bits sg (a + b)) eqn:E; [discriminate|]. intros _. split; auto. right.
    intros z Hz; cbn in Hz; subst; auto.
  - destruct (in_range bits sg (a - b)) eqn:E; [discriminate|]. intros _. split; auto. right.
    intros z Hz; cbn in Hz; subst; auto.
  - destruct (in_range bits sg (a * b)) eqn:E; [discriminate|]. intros _. split; auto. right.
    intros z Hz; cbn in Hz; subst; auto.
  - destruct (b =? 0) eqn:Eb. { apply Z.eqb_eq in Eb. intros _. split; auto. }
    apply Z.eqb_neq in Eb.
    destruct (in_range bits sg (Z.quot a b)) eqn:E; [discriminate|]. intros _. split; auto. right.
    intros z Hz.
    assert (math_spec Div a b (Z.quot a b)) by (split; auto; apply quot_spec; auto).
    rewrite (math_spec_functional Div a b z (Z.quot a b)); auto.
  - destruct (b =? 0) eqn:Eb. { apply Z.eqb_eq in Eb. intros _. split; auto. }
    apply Z.eqb_neq in Eb.
    destruct (in_range bits sg (Z.rem a b)) eqn:E; [discriminate|]. intros _. split; auto. right.
    intros z Hz.
    assert (Hm : arith Mod bits sg a b = None).
    { unfold arith. apply Z.eqb_neq in Eb. rewrite Eb, E. reflexivity. }
    assert (math_spec Mod a b (Z.rem a b)).
    { split; auto. exists (Z.quot a b). split; [apply Z.quot_rem'|]. split.
      - apply Z.rem_bound_abs; auto.
      - destruct (Z_le_gt_dec 0 a).
        + pose proof (Z.rem_nonneg a b Eb l). nia.
        + assert (Ha : a <= 0) by lia. pose proof (Z.rem_nonpos a b Eb Ha). nia. }
    rewrite (math_spec_functional Mod a b z (Z.rem a b)); auto.
  - (* Pow *)
    intros H. split; auto. right. intros z [Hb ->].
    destruct (b <? 0) eqn:Eb; [lia|].
    destruct (pow_val a b) as [v|] eqn:Ep.
    + rewrite (pow_val_ok a b v Hb Ep) in H. destruct (in_range bits sg (a ^ b)); [discriminate | reflexivity].
    + destruct (bits <? b) eqn:Eg.
      * apply pow_too_big; auto. lia.
      * destruct (in_range bits sg (a ^ b)); [discriminate | reflexivity].
  - (* DMul *)
    destruct (in_range bits sg (Z.quot (a * b) DEC)) eqn:E; [discriminate|]. intros _. split; auto. right.
    intros z Hz.
    assert (math_spec DMul a b (Z.quot (a * b) DEC)) by (unfold math_spec; apply quot_spec; unfold DEC; lia).
    rewrite (math_spec_functional DMul a b z (Z.quot (a * b) DEC)); auto.
  - (* DDiv *)
    destruct (b =? 0) eqn:Eb.
    { apply Z.eqb_eq in Eb. intros _. split; auto. right. intros z [Hz _]. contradiction. }
    apply Z.eqb_neq in Eb.
    destruct (in_range bits sg (Z.quot (a * DEC) b)) eqn:E; [discriminate|]. intros _. split; auto. right.
    intros z Hz.
    assert (math_spec DDiv a b (Z.quot (a * DEC) b)) by (unfold math_spec; split; auto; apply quot_spec; auto).
    rewrite (math_spec_functional DDiv a b z (Z.quot (a * DEC) b)); auto.
Qed.

(* shifts: the left shift is the unique representative in the type's range of a * 2^b modulo 2^bits; the right shift is
   the floor of a / 2^b (arithmetic shift for negative a) and stays in range *)
Lemma shl_spec bits sg a b : 0 < bits -> 0 <= b < bits ->
  let z := shift_val true bits sg a b in
  in_range bits sg z = true /\ (z - a * 2 ^ b) mod 2 ^ bits = 0.
Proof.
  intros Hbits Hb. cbv zeta. unfold shift_val. replace (bits <=? b) with false by lia.
  assert (P : 0 < 2 ^ bits) by (apply Z.pow_pos_nonneg; lia).
  assert (Hp2 : 2 ^ bits = 2 * 2 ^ (bits - 1)).
  { replace bits with ((bits - 1) + 1) at 1 by lia. rewrite Z.pow_add_r by lia. change (2 ^ 1) with 2. lia. }
  pose proof (Z.mod_pos_bound (a * 2 ^ b) (2 ^ bits) P) as Bw.
  set (w := (a * 2 ^ b) mod 2 ^ bits) in *.
  assert (Cw : (w - a * 2 ^ b) mod 2 ^ bits = 0).
  { unfold w. rewrite Zminus_mod, Z.mod_mod by lia. rewrite Z.sub_diag. apply Z.mod_0_l. lia. }
  unfold in_range, int_lo, int_hi. destruct sg; cbn [andb].
  - destruct (2 ^ (bits - 1) <=? w) eqn:E.
    + split; [lia|]. replace (w - 2 ^ bits - a * 2 ^ b) with ((w - a * 2 ^ b) + (-1) * 2 ^ bits) by lia.
      rewrite Z.mod_add by lia. exact Cw.
    + split; [lia | exact Cw].
  - split; [lia | exact Cw].
Qed.

Lemma shr_spec bits sg a b : 0 <= b < bits -> in_range bits sg a = true ->
  let z := shift_val false bits sg a b in
  z = a / 2 ^ b /\ in_range bits sg z = true.
Proof.
  intros Hb Ha. cbv zeta. unfold shift_val. replace (bits <=? b) with false by lia. split; [reflexivity|].
  assert (P : 0 < 2 ^ b) by (apply Z.pow_pos_nonneg; lia).
  unfold in_range in *. apply andb_true_iff in Ha. destruct Ha as [Hlo Hhi].
  apply andb_true_iff. split.
  - apply Z.leb_le. apply Z.leb_le in Hlo.
    assert (int_lo bits sg <= 0) by (unfold int_lo; destruct sg; [pose proof (Z.pow_nonneg 2 (bits - 1)); lia | lia]).
    destruct (Z_lt_le_dec a 0).
    + apply Z.div_le_lower_bound; auto. nia.
    + assert (0 <= a / 2 ^ b) by (apply Z.div_pos; lia). lia.
  - apply Z.leb_le. apply Z.leb_le in Hhi.
    destruct (Z_lt_le_dec a 0).
    + assert (a / 2 ^ b < 0) by (apply Z.div_lt_upper_bound; lia). 
      assert (-1 <= int_hi bits sg) by (unfold int_hi; destruct sg; [pose proof (Z.pow_nonneg 2 (bits - 1)) | pose proof (Z.pow_nonneg 2 bits)]; lia).
      lia.
    + assert (a / 2 ^ b <= a) by (apply Z.div_le_upper_bound; nia). lia.
Qed.

Lemma shift_saturates bits sg a b : bits <= b ->
  shift_val true bits sg a b = 0 /\ shift_val false bits sg a b = (if a <? 0 then -1 else 0).
Proof. intros H. unfold shift_val. replace (bits <=? b) with true by lia. auto. Qed.

(* interpreter level: a BinOp yields the mathematical result of its operand values, or the call fails *)
Section WithProg.
Variable P : prog.    (*section*)
Variable ce : cenv.   (*section*)

Lemma eval_bin_exact f op bits sg a b s v s' t :
  eval P ce (S f) (EBin op (TInt bits sg) a b) s = Ok v s' t ->
  exists x y s1 t1 t2,
    eval P ce f a s = Ok (VInt x) s1 t1 /\
    eval P ce f b s1 = Ok (VInt y) s' t2 /\
    t = t1 ++ t2 /\
    exists z, v = VInt z /\ math_spec op x y z /\ (is_checked op = true -> in_range bits sg z = true).
Proof.
  cbn [eval]. intros H.
  apply bind_ok in H. destruct H as (va & s1 & t1 & t2 & Ha & H & ->).
  apply bind_ok in H. destruct H as (vb & s2 & t2' & t3 & Hb & H & ->).
  destruct va as [x| | | |]; try discriminate. destruct vb as [y| | | |]; try discriminate.
  destruct (arith op bits sg x y) as [z|] eqn:Ez; try discriminate.
  apply ret_ok in H. destruct H as (-> & -> & ->).
  exists x, y, s1, t1, t2'. repeat split; auto. { rewrite app_nil_r; auto. }
  exists z. pose proof (arith_some _ _ _ _ _ _ Ez) as [? ?]. auto.
Qed.

(* Bytes: slice returns exactly the requested window or fails; concat appends *)
Lemma slice_window_length (x : list Z) i n :
  0 <= i -> 0 <= n -> i + n <= Z.of_nat (length x) ->
  Z.of_nat (length (firstn (Z.to_nat n) (skipn (Z.to_nat i) x))) = n.
Proof.
  intros Hi Hn Hb. rewrite firstn_length, skipn_length. lia.
Qed.

Lemma eval_slice_exact f a st ln s v s' t :
  eval P ce (S f) (ESlice a st ln) s = Ok v s' t ->
  exists x i n s1 s2 t1 t2 t3,
    eval P ce f a s = Ok (VBytes x) s1 t1 /\ eval P ce f st s1 = Ok (VInt i) s2 t2 /\
    eval P ce f ln s2 = Ok (VInt n) s' t3 /\ t = t1 ++ t2 ++ t3 /\
    0 <= i /\ 0 <= n /\ i + n <= Z.of_nat (length x) /\
    v = VBytes (firstn (Z.to_nat n) (skipn (Z.to_nat i) x)) /\
    Z.of_nat (length (firstn (Z.to_nat n) (skipn (Z.to_nat i) x))) = n.
Proof.
  cbn [eval]. intros H.
  apply bind_ok in H. destruct H as (va & s1 & t1 & t2 & Ha & H & ->).
  apply bind_ok in H. destruct H as (vs & s2 & t2' & t3 & Hs & H & ->).
  apply bind_ok in H. destruct H as (vl & s3 & t3' & t4 & Hl & H & ->).
  destruct va as [| | | |x]; try discriminate.
  destruct vs as [i| | | |]; try discriminate. destruct vl as [n| | | |]; try discriminate.
  destruct ((0 <=? i) && (0 <=? n) && (i + n <=? Z.of_nat (length x))) eqn:E; try discriminate.
  apply ret_ok in H. destruct H as (-> & -> & ->).
  assert (0 <= i /\ 0 <= n /\ i + n <= Z.of_nat (length x)) as (Hi & Hn & Hb) by lia.
  exists x, i, n, s1, s2, t1, t2', t3'. repeat split; auto.
  - rewrite app_nil_r. reflexivity.
  - apply slice_window_length; auto.
Qed.

Lemma eval_slice_out_of_range f a st ln s x i n s1 s2 s3 t1 t2 t3 :
  eval P ce f a s = Ok (VBytes x) s1 t1 -> eval P ce f st s1 = Ok (VInt i) s2 t2 ->
  eval P ce f ln s2 = Ok (VInt n) s3 t3 ->
  ~ (0 <= i /\ 0 <= n /\ i + n <= Z.of_nat (length x)) ->
  eval P ce (S f) (ESlice a st ln) s = Fail Revert.
Proof.
  intros Ha Hs Hl Hb. cbn [eval]. rewrite Ha. cbn [bind]. rewrite Hs. cbn [bind]. rewrite Hl. cbn [bind].
  destruct ((0 <=? i) && (0 <=? n) && (i + n <=? Z.of_nat (length x))) eqn:E; [exfalso; apply Hb; lia | reflexivity].
Qed.

Lemma eval_concat_exact f a b s v s' t :
  eval P ce (S f) (EConcat a b) s = Ok v s' t ->
  exists x y s1 t1 t2, eval P ce f a s = Ok (VBytes x) s1 t1 /\ eval P ce f b s1 = Ok (VBytes y) s' t2 /\
    t = t1 ++ t2 /\ v = VBytes (x ++ y).
Proof.
  cbn [eval]. intros H.
  apply bind_ok in H. destruct H as (va & s1 & t1 & t2 & Ha & H & ->).
  apply bind_ok in H. destruct H as (vb & s2 & t2' & t3 & Hb & H & ->).
  destruct va as [| | | |x]; try discriminate. destruct vb as [| | | |y]; try discriminate.
  apply ret_ok in H. destruct H as (-> & -> & ->).
  exists x, y, s1, t1, t2'. repeat split; auto. rewrite app_nil_r. reflexivity.
Qed.

(* ------------------------------------------------------------------ C08: once, in order *)
(* two-operand forms: left operand, then right operand, each exactly once *)
Definition two_operand (e : expr) : option (expr * expr) :=
  match e with
  | EBin _ _ a b | ECmp _ a b | EMin a b | EMax a b | EIdx a b | EShift _ _ a b => Some (a, b)
  | _ => None
  end.

Lemma operands_left_to_right f e a b s v s' t :
  two_operand e = Some (a, b) ->
  eval P ce (S f) e s = Ok v s' t ->
  exists va s1 t1 vb t2,
    eval P ce f a s = Ok va s1 t1 /\ eval P ce f b s1 = Ok vb s' t2 /\ t = t1 ++ t2.
Proof.
  destruct e; cbn [two_operand]; try discriminate; intros E; inversion E; subst; clear E;
    cbn [eval]; intros H;
    apply bind_ok in H; destruct H as (va & s1 & t1 & t2 & Ha & H & ->);
    apply bind_ok in H; destruct H as (vb & s2 & t2' & t3 & Hb & H & ->);
    exists va, s1, t1, vb, t2'.
  - destruct t0; try discriminate. destruct va; try discriminate. destruct vb; try discriminate.
    destruct (arith op bits signed z z0); try discriminate.
    apply ret_ok in H; destruct H as (-> & -> & ->). rewrite app_nil_r. auto.
  - destruct va as [x|x| | |x]; destruct vb as [y|y| | |y]; try discriminate.
    + apply ret_ok in H; destruct H as (-> & -> & ->). rewrite app_nil_r. auto.
    + destruct op; try discriminate; apply ret_ok in H; destruct H as (-> & -> & ->); rewrite app_nil_r; auto.
    + destruct op; try discriminate; apply ret_ok in H; destruct H as (-> & -> & ->); rewrite app_nil_r; auto.
  - destruct va as [x| |l|d m|]; try discriminate.
    + destruct vb as [y| | | |]; try discriminate.
      destruct ((0 <=? y) && (y <? Z.of_nat (length l))); try discriminate.
      destruct (nth_error l (Z.to_nat y)); try discriminate.
      apply ret_ok in H; destruct H as (-> & -> & ->). rewrite app_nil_r. auto.
    + destruct (key_of vb); try discriminate.
      apply ret_ok in H; destruct H as (-> & -> & ->). rewrite app_nil_r. auto.
  - destruct va; try discriminate. destruct vb; try discriminate.
    apply ret_ok in H; destruct H as (-> & -> & ->). rewrite app_nil_r. auto.
  - destruct va; try discriminate. destruct vb; try discriminate.
    apply ret_ok in H; destruct H as (-> & -> & ->). rewrite app_nil_r. auto.
  - match goal with H : match ?t with _ => _ end = _ |- _ => destruct t; try discriminate end.
    destruct va; try discriminate. destruct vb; try discriminate.
    apply ret_ok in H; destruct H as (-> & -> & ->). rewrite app_nil_r. auto.
Qed.

(* short circuit: the right operand of and/or and the untaken branch of IfExp contribute nothing *)
Lemma and_short_circuit f a b s v s' t :
  eval P ce (S f) (EAnd a b) s = Ok v s' t ->
  exists va s1 t1, eval P ce f a s = Ok (VBool va) s1 t1 /\
    if va then exists t2, eval P ce f b s1 = Ok v s' t2 /\ t = t1 ++ t2
    else v = VBool false /\ s' = s1 /\ t = t1.
Proof.
  cbn [eval]. intros H. apply bind_ok in H. destruct H as (va & s1 & t1 & t2 & Ha & H & ->).
  destruct va as [|[|]| | |]; try discriminate.
  - exists true, s1, t1. split; auto. exists t2; auto.
  - exists false, s1, t1. split; auto. apply ret_ok in H. destruct H as (-> & -> & ->).
    rewrite app_nil_r. auto.
Qed.

Lemma or_short_circuit f a b s v s' t :
  eval P ce (S f) (EOr a b) s = Ok v s' t ->
  exists va s1 t1, eval P ce f a s = Ok (VBool va) s1 t1 /\
    if va then v = VBool true /\ s' = s1 /\ t = t1
    else exists t2, eval P ce f b s1 = Ok v s' t2 /\ t = t1 ++ t2.
Proof.
  cbn [eval]. intros H. apply bind_ok in H. destruct H as (va & s1 & t1 & t2 & Ha & H & ->).
  destruct va as [|[|]| | |]; try discriminate.
  - exists true, s1, t1. split; auto. apply ret_ok in H. destruct H as (-> & -> & ->).
    rewrite app_nil_r. auto.
  - exists false, s1, t1. split; auto. exists t2; auto.
Qed.

Lemma ifexp_one_branch f c a b s v s' t :
  eval P ce (S f) (EIfExp c a b) s = Ok v s' t ->
  exists vc s1 t1 t2, eval P ce f c s = Ok (VBool vc) s1 t1 /\
    eval P ce f (if vc then a else b) s1 = Ok v s' t2 /\ t = t1 ++ t2.
Proof.
  cbn [eval]. intros H. apply bind_ok in H. destruct H as (vc & s1 & t1 & t2 & Hc & H & ->).
  destruct vc as [|[|]| | |]; try discriminate.
  - exists true, s1, t1, t2. auto.
  - exists false, s1, t1, t2. auto.
Qed.

(* argument lists: left to right, each exactly once *)
Inductive seq_eval (f : nat) : list expr -> state -> list value -> state -> list event -> Prop :=
| seq_nil s : seq_eval f [] s [] s []
| seq_cons e r s v s1 t1 vs s2 t2 :
    eval P ce f e s = Ok v s1 t1 ->
    seq_eval f r s1 vs s2 t2 ->
    seq_eval f (e :: r) s (v :: vs) s2 (t1 ++ t2).

(* the fuel the i-th argument gets is lower the further right it stands (the list is walked by the
   same fuel), so the statement is about some fuel per element: we expose it via [seq_eval_any] *)
Inductive seq_eval_any : list expr -> state -> list value -> state -> list event -> Prop :=
| seqa_nil s : seq_eval_any [] s [] s []
| seqa_cons f e r s v s1 t1 vs s2 t2 :
    eval P ce f e s = Ok v s1 t1 ->
    seq_eval_any r s1 vs s2 t2 ->
    seq_eval_any (e :: r) s (v :: vs) s2 (t1 ++ t2).

Lemma eval_list_in_order : forall f l s vs s' t,
  eval_list P ce f l s = Ok vs s' t -> seq_eval_any l s vs s' t.
Proof.
  induction f; intros l s vs s' t H; [discriminate|].
  destruct l as [|e r]; cbn [eval_list] in H.
  - apply ret_ok in H. destruct H as (-> & -> & ->). constructor.
  - apply bind_ok in H. destruct H as (v & s1 & t1 & t2 & He & H & ->).
    apply bind_ok in H. destruct H as (vs' & s2 & t2' & t3 & Hr & H & ->).
    apply ret_ok in H. destruct H as (-> & -> & ->). rewrite app_nil_r.
    econstructor; eauto.
Qed.

(* internal call: arguments (left to right), then the callee's trace bracketed by call/ret events *)
Lemma call_args_then_body f g args s v s' t :
  eval P ce (S f) (ECall g args) s = Ok v s' t ->
  exists vs s1 targs tbody,
    seq_eval_any args s vs s1 targs /\
    call P ce f g vs s1 = Ok v s' tbody /\ t = targs ++ tbody.
Proof.
  cbn [eval]. intros H. apply bind_ok in H. destruct H as (vs & s1 & t1 & t2 & Ha & H & ->).
  exists vs, s1, t1, t2. split; [eapply eval_list_in_order; eauto | auto].
Qed.

(* log: arguments once each, then exactly one log event *)
Lemma log_args_then_event f id args s q s' t :
  exec P ce (S f) (SLog id args) s = Ok q s' t ->
  exists vs targs, seq_eval_any args s vs s' targs /\ t = targs ++ [EvLog id vs] /\ q = SNormal.
Proof.
  cbn [exec]. intros H. apply bind_ok in H. destruct H as (vs & s1 & t1 & t2 & Ha & H & ->).
  unfold emit in H. inversion H; subst. exists vs, t1. split; [eapply eval_list_in_order; eauto | auto].
Qed.

(* plain assignment: right-hand side first, then the target's index expressions, then one store *)
Lemma assign_rhs_before_target f b p e s q s' t :
  exec P ce (S f) (SAssign b p e) s = Ok q s' t ->
  exists v s1 t1, eval P ce f e s = Ok v s1 t1 /\
    match p with
    | [] => s' = base_set b v s1 /\ t = t1 ++ store_event b [] v
    | _ => exists root cp s2 t2 root2 root',
             base_get b s1 = Some root /\ resolve P ce f p root s1 = Ok cp s2 t2 /\
             base_get b s2 = Some root2 /\ set_path cp v root2 = Some root' /\
             s' = base_set b root' s2 /\ t = t1 ++ t2 ++ store_event b cp v
    end.
Proof.
  cbn [exec]. intros H. apply bind_ok in H. destruct H as (v & s1 & t1 & t2 & He & H & ->).
  exists v, s1, t1. split; auto.
  destruct p as [|pe pr].
  - unfold emit in H. inversion H; subst. auto.
  - destruct (base_get b s1) as [root|] eqn:Eb; try discriminate.
    apply bind_ok in H. destruct H as (cp & s2 & t2' & t3 & Hr & H & ->).
    destruct (base_get b s2) as [root2|] eqn:Eb2; try discriminate.
    destruct (set_path cp v root2) as [root'|] eqn:Es; try discriminate.
    unfold emit in H. inversion H; subst.
    exists root, cp, s2, t2', root2, root'. repeat split; auto.
Qed.

(* loop over an array value: the iterable is evaluated once, before the first iteration *)
Lemma forin_iterable_once f x e body s q s' t :
  exec P ce (S f) (SForIn x e body) s = Ok q s' t ->
  exists l s1 t1 t2, eval P ce f e s = Ok (VList l) s1 t1 /\
    loop_l l (fun v st => exec_block P ce f body (base_set (BLoc x) v st)) s1 = Ok q s' t2 /\
    t = t1 ++ t2.
Proof.
  cbn [exec]. intros H. apply bind_ok in H. destruct H as (va & s1 & t1 & t2 & He & H & ->).
  destruct va as [| |l| |]; try discriminate. exists l, s1, t1, t2. auto.
Qed.

Lemma fordyn_bound_once f x e bound body s q s' t :
  exec P ce (S f) (SForDyn x e bound body) s = Ok q s' t ->
  exists n s1 t1 t2, eval P ce f e s = Ok (VInt n) s1 t1 /\ 0 <= n <= bound /\
    loop_n (Z.to_nat n) 0 (fun i st => exec_block P ce f body (base_set (BLoc x) (VInt i) st)) s1 = Ok q s' t2 /\
    t = t1 ++ t2.
Proof.
  cbn [exec]. intros H. apply bind_ok in H. destruct H as (va & s1 & t1 & t2 & He & H & ->).
  destruct va as [n| | | |]; try discriminate.
  destruct ((0 <=? n) && (n <=? bound)) eqn:E; try discriminate.
  exists n, s1, t1, t2. repeat split; auto; lia.
Qed.

(* statements of a block run in order; a statement after a break/continue/return does not run *)
Lemma block_in_order f c r s q s' t :
  exec_block P ce (S f) (c :: r) s = Ok q s' t ->
  exists q1 s1 t1, exec P ce f c s = Ok q1 s1 t1 /\
    match q1 with
    | SNormal => exists t2, exec_block P ce f r s1 = Ok q s' t2 /\ t = t1 ++ t2
    | _ => q = q1 /\ s' = s1 /\ t = t1
    end.
Proof.
  cbn [exec_block]. intros H. apply bind_ok in H. destruct H as (q1 & s1 & t1 & t2 & Hc & H & ->).
  exists q1, s1, t1. split; auto.
  destruct q1; try (apply ret_ok in H; destruct H as (-> & -> & ->); rewrite app_nil_r; auto).
  exists t2; auto.
Qed.

(* ------------------------------------------------------------------ C08: pass by value *)
(* a callee starts from fresh locals holding the argument *values*, never sees the caller's locals,
   and the caller's locals are exactly what they were when the call returns *)
Lemma call_unfold f g vs s :
  call P ce (S f) g vs s =
  match nth_error (p_int P) g with
  | None => Fail Stuck
  | Some fd =>
      if negb (Nat.eqb (length vs) (length (f_params fd))) then Fail Stuck else
      match exec_block P ce f (f_body fd) (mkState (bind_params vs) (st_sto s) (st_tra s)) with
      | Ok r s' t =>
          let s'' := mkState (st_loc s) (st_sto s') (st_tra s') in
          match r with
          | SRet v => Ok v s'' (EvCall g vs :: t ++ [EvRet g])
          | SNormal => Ok (VList []) s'' (EvCall g vs :: t ++ [EvRet g])
          | _ => Fail Stuck
          end
      | Fail x => Fail x
      end
  end.
Proof. reflexivity. Qed.

Lemma call_restores_locals f g vs s v s' t :
  call P ce f g vs s = Ok v s' t -> st_loc s' = st_loc s.
Proof.
  destruct f; [discriminate|]. rewrite call_unfold. intros H.
  destruct (nth_error (p_int P) g) as [fd|]; try discriminate.
  destruct (negb (length vs =? length (f_params fd))%nat); try discriminate.
  destruct (exec_block P ce f (f_body fd) _) as [r s2 t2|]; try discriminate.
  destruct r; inversion H; subst; reflexivity.
Qed.

(* the callee's trace is bracketed by exactly one call and one return event *)
Lemma call_trace_bracketed f g vs s v s' t :
  call P ce f g vs s = Ok v s' t -> exists tb, t = EvCall g vs :: tb ++ [EvRet g].
Proof.
  destruct f; [discriminate|]. rewrite call_unfold. intros H.
  destruct (nth_error (p_int P) g) as [fd|]; try discriminate.
  destruct (negb (length vs =? length (f_params fd))%nat); try discriminate.
  destruct (exec_block P ce f (f_body fd) _) as [r s2 t2|]; try discriminate.
  destruct r; inversion H; subst; eauto.
Qed.

Lemma call_ignores_caller_locals f g vs l1 l2 sto tra :
  match call P ce f g vs (mkState l1 sto tra), call P ce f g vs (mkState l2 sto tra) with
  | Ok v1 s1 t1, Ok v2 s2 t2 => v1 = v2 /\ t1 = t2 /\ st_sto s1 = st_sto s2 /\ st_tra s1 = st_tra s2
  | Fail x, Fail y => x = y
  | _, _ => False
  end.
Proof.
  destruct f; [cbn; auto|]. rewrite !call_unfold. cbn [st_sto st_tra st_loc].
  destruct (nth_error (p_int P) g) as [fd|]; auto.
  destruct (negb (length vs =? length (f_params fd))%nat); auto.
  destruct (exec_block P ce f (f_body fd) _) as [r s2 t2|]; auto.
  destruct r; cbn; auto.
Qed.

End WithProg.

(* ------------------------------------------------------------------ store lens laws (frame) *)
Lemma lget_lset_same x v l : lget x (lset x v l) = Some v.
Proof.
  induction l as [|[y w] r IH]; cbn.
  - rewrite Nat.eqb_refl; auto.
  - destruct (Nat.eqb x y) eqn:E; cbn; rewrite E; auto.
Qed.

Lemma lget_lset_other x y v l : x <> y -> lget y (lset x v l) = lget y l.
Proof.
  intros N. induction l as [|[z w] r IH]; cbn.
  - destruct (Nat.eqb y x) eqn:E; auto. apply Nat.eqb_eq in E. congruence.
  - destruct (Nat.eqb x z) eqn:E; cbn.
    + apply Nat.eqb_eq in E. subst z. destruct (Nat.eqb y x) eqn:E2; auto.
      apply Nat.eqb_eq in E2. congruence.
    + destruct (Nat.eqb y z); auto.
Qed.

Lemma nth_upd_same {A} n (a : A) l : (n < length l)%nat -> nth_error (upd_nth n a l) n = Some a.
Proof.
  revert n. induction l; intros n H; cbn in *; [lia|]. destruct n; cbn; auto. apply IHl. lia.
Qed.

Lemma nth_upd_other {A} n m (a : A) l : n <> m -> nth_error (upd_nth n a l) m = nth_error l m.
Proof.
  revert n m. induction l; intros n m H; cbn; [destruct n; auto|].
  destruct n, m; cbn; auto; try congruence.
Qed.

Lemma upd_nth_length {A} n (a : A) l : length (upd_nth n a l) = length l.
Proof. revert n; induction l; intros n; cbn; auto; destruct n; cbn; auto. Qed.

(* HashMap contents *)
Lemma mget_mset_same k v m : mget k (mset k v m) = Some v.
Proof.
  induction m as [|[j w] r IH]; cbn.
  - rewrite Z.eqb_refl; auto.
  - destruct (Z.eqb k j) eqn:E; cbn; rewrite E; auto.
Qed.

Lemma mget_mset_other k k' v m : k <> k' -> mget k' (mset k v m) = mget k' m.
Proof.
  intros N. induction m as [|[j w] r IH]; cbn.
  - destruct (Z.eqb k' k) eqn:E; auto. apply Z.eqb_eq in E. congruence.
  - destruct (Z.eqb k j) eqn:E; cbn.
    + apply Z.eqb_eq in E. subst j. destruct (Z.eqb k' k) eqn:E2; auto.
      apply Z.eqb_eq in E2. congruence.
    + destruct (Z.eqb k' j); auto.
Qed.

Lemma mlook_mset_same d k v m : mlook d k (mset k v m) = v.
Proof. unfold mlook. rewrite mget_mset_same. reflexivity. Qed.
Lemma mlook_mset_other d k k' v m : k <> k' -> mlook d k' (mset k v m) = mlook d k' m.
Proof. intros N. unfold mlook. rewrite mget_mset_other; auto. Qed.

(* list access by Z index *)
Lemma zidx_some_range {A} (l : list A) i w : zidx l i = Some w -> 0 <= i < Z.of_nat (length l).
Proof. unfold zidx. destruct ((0 <=? i) && (i <? Z.of_nat (length l))) eqn:E; [lia | discriminate]. Qed.

Lemma zidx_upd_same {A} (l : list A) i w w' : zidx l i = Some w -> zidx (upd_nth (Z.to_nat i) w' l) i = Some w'.
Proof.
  intros H. pose proof (zidx_some_range _ _ _ H) as R. unfold zidx. rewrite upd_nth_length.
  destruct ((0 <=? i) && (i <? Z.of_nat (length l))) eqn:E; [|lia].
  apply nth_upd_same. lia.
Qed.

Lemma zidx_upd_other {A} (l : list A) i j w w' :
  zidx l i = Some w -> i <> j -> zidx (upd_nth (Z.to_nat i) w' l) j = zidx l j.
Proof.
  intros H N. pose proof (zidx_some_range _ _ _ H) as R. unfold zidx. rewrite upd_nth_length.
  destruct ((0 <=? j) && (j <? Z.of_nat (length l))) eqn:E; auto.
  apply nth_upd_other. lia.
Qed.

(* two concrete paths are independent when they diverge at some index / key (neither is a prefix of the other) *)
Fixpoint indep (p q : list Z) : bool :=
  match p, q with
  | i :: p', j :: q' => if Z.eqb i j then indep p' q' else true
  | _, _ => false
  end.

Lemma get_set_same : forall p x v v', set_path p x v = Some v' -> get_path p v' = Some x.
Proof.
  induction p as [|i r IH]; intros x v v' H; cbn in *.
  - inversion H; auto.
  - destruct v as [| |l|d m|]; try discriminate.
    + destruct (zidx l i) as [w|] eqn:E; try discriminate.
      destruct (set_path r x w) as [w'|] eqn:E2; try discriminate.
      inversion H; subst. rewrite (zidx_upd_same _ _ _ _ E). eapply IH; eauto.
    + destruct (set_path r x (mlook d i m)) as [w'|] eqn:E2; try discriminate.
      inversion H; subst. rewrite mlook_mset_same. eapply IH; eauto.
Qed.

Lemma get_set_other : forall p q x v v',
  set_path p x v = Some v' -> indep p q = true -> get_path q v' = get_path q v.
Proof.
  induction p as [|i r IH]; intros q x v v' H I; cbn in *; [discriminate|].
  destruct q as [|j q']; [discriminate|].
  destruct v as [| |l|d m|]; try discriminate.
  - destruct (zidx l i) as [w|] eqn:E; try discriminate.
    destruct (set_path r x w) as [w'|] eqn:E2; try discriminate.
    inversion H; subst. cbn.
    destruct (Z.eqb i j) eqn:Eij.
    + apply Z.eqb_eq in Eij. subst j. rewrite (zidx_upd_same _ _ _ _ E). rewrite E. eapply IH; eauto.
    + apply Z.eqb_neq in Eij. rewrite (zidx_upd_other _ _ _ _ _ E Eij). reflexivity.
  - destruct (set_path r x (mlook d i m)) as [w'|] eqn:E2; try discriminate.
    inversion H; subst. cbn.
    destruct (Z.eqb i j) eqn:Eij.
    + apply Z.eqb_eq in Eij. subst j. rewrite mlook_mset_same. eapply IH; eauto.
    + apply Z.eqb_neq in Eij. rewrite mlook_mset_other; auto.
Qed.

(* a write keeps the shape: a path can be written exactly when it can be read (no aliasing, no resizing) *)
Lemma set_path_defined_iff_get : forall p x v, (exists v', set_path p x v = Some v') <-> (exists w, get_path p v = Some w).
Proof.
  induction p as [|i r IH]; intros x v; cbn.
  - split; eauto.
  - destruct v as [| |l|d m|]; try (split; intros [? ?]; discriminate).
    + destruct (zidx l i) as [w|]; try (split; intros [? ?]; discriminate).
      specialize (IH x w). split.
      * intros [v' H]. destruct (set_path r x w); try discriminate. apply IH. eauto.
      * intros H. apply IH in H. destruct H as [w' ->]. eauto.
    + specialize (IH x (mlook d i m)). split.
      * intros [v' H]. destruct (set_path r x (mlook d i m)); try discriminate. apply IH. eauto.
      * intros H. apply IH in H. destruct H as [w' ->]. eauto.
Qed.

(* top-level variables: distinct variables (and distinct stores) never alias *)
Definition base_valid (b : tbase) (s : state) : Prop :=
  match b with
  | BLoc _ => True
  | BSto x => (x < length (st_sto s))%nat
  | BTra x => (x < length (st_tra s))%nat
  end.

Lemma base_get_set_same b v s : base_valid b s -> base_get b (base_set b v s) = Some v.
Proof.
  destruct b; cbn; intros H.
  - apply lget_lset_same.
  - apply nth_upd_same; auto.
  - apply nth_upd_same; auto.
Qed.

Lemma base_get_set_other b b' v s : b <> b' -> base_get b' (base_set b v s) = base_get b' s.
Proof.
  destruct b, b'; cbn; intros H; auto.
  - apply lget_lset_other. congruence.
  - apply nth_upd_other. congruence.
  - apply nth_upd_other. congruence.
Qed.
