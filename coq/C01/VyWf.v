(* Static well-formedness of VyCore programs: the call graph is acyclic (internal function i only calls
   j < i; external functions call any internal function).  Definitions only. *)
From Coq Require Import ZArith List Bool Arith.
From Verif Require Import C01.VyCore.
Import ListNotations.
Local Open Scope nat_scope.

(* ---------- static well-formedness: every call site in code of level k targets a function < k ---------- *)
Fixpoint calls_e (k : nat) (e : expr) : bool :=
  let cl := fix go (l : list expr) : bool :=
      match l with [] => true | x :: r => calls_e k x && go r end in
  let cp := fix go (p : list (expr + nat)) : bool :=
      match p with
      | [] => true
      | inl x :: r => calls_e k x && go r
      | inr _ :: r => go r
      end in
  match e with
  | EConst _ | EVar _ | ESelf _ | ETra _ | ESender | EValue => true
  | EBin _ _ a b | ECmp _ a b | EAnd a b | EOr a b | EIdx a b | EMin a b | EMax a b | EConcat a b | EShift _ _ a b =>
      calls_e k a && calls_e k b
  | ESlice a b c => calls_e k a && (calls_e k b && calls_e k c)
  | ENot a | ENeg _ a | EFld a _ | ELen a | EConv _ a | EDec _ _ a => calls_e k a
  | EIfExp c a b => calls_e k c && (calls_e k a && calls_e k b)
  | ECall g args => Nat.ltb g k && cl args
  | EList l => cl l
  | EPop _ p => cp p
  end.
Fixpoint calls_l (k : nat) (l : list expr) : bool :=
  match l with [] => true | x :: r => calls_e k x && calls_l k r end.
Fixpoint calls_p (k : nat) (p : path) : bool :=
  match p with
  | [] => true
  | inl x :: r => calls_e k x && calls_p k r
  | inr _ :: r => calls_p k r
  end.
Fixpoint calls_s (k : nat) (c : stmt) : bool :=
  let cb := fix go (l : list stmt) : bool :=
      match l with [] => true | x :: r => calls_s k x && go r end in
  match c with
  | SAssign _ p e | SAug _ _ _ p e | SAppend _ p _ e => calls_e k e && calls_p k p
  | SIf c th el => calls_e k c && (cb th && cb el)
  | SFor _ _ _ body => cb body
  | SForDyn _ e _ body | SForIn _ e body => calls_e k e && cb body
  | SBreak | SContinue | SPass | SRaise | SRaiseR _ | SReturn None => true
  | SAssert e | SAssertR e _ | SReturn (Some e) | SExpr e => calls_e k e
  | SLog _ args => calls_l k args
  end.
Fixpoint calls_b (k : nat) (l : list stmt) : bool :=
  match l with [] => true | x :: r => calls_s k x && calls_b k r end.

Fixpoint wf_ints (i : nat) (l : list fundef) : bool :=
  match l with [] => true | fd :: r => calls_b i (f_body fd) && wf_ints (S i) r end.
Definition wf_prog (P : prog) : bool :=
  wf_ints 0 (p_int P) && forallb (fun fd => calls_b (length (p_int P)) (f_body fd)) (p_ext P).

