(* Compact serialisation of VyCore results as a list Z for the harness (no proofs). *)
From Coq Require Import ZArith List Bool.
From Verif Require Import C01.VyCore C01.VyWf.
Import ListNotations.
Open Scope Z_scope.

Fixpoint enc_value (v : value) : list Z :=
  match v with
  | VInt z => [0; z]
  | VBool b => [1; if b then 1 else 0]
  | VList l => 2 :: Z.of_nat (length l) ::
      (fix go (l : list value) : list Z := match l with [] => [] | x :: r => enc_value x ++ go r end) l
  | VBytes l => 4 :: Z.of_nat (length l) :: l
  | VMap d m => 3 :: Z.of_nat (length m) ::
      (fix go (m : list (Z * value)) : list Z :=
         match m with [] => [] | (k, x) :: r => k :: enc_value x ++ go r end) m
  end.
Definition enc_values (l : list value) : list Z :=
  Z.of_nat (length l) :: flat_map enc_value l.

Definition enc_path (p : list Z) : list Z := Z.of_nat (length p) :: p.

(* events: 0 = log, 1 = store, 2 = call, 3 = ret *)
Definition enc_event (e : event) : list Z :=
  match e with
  | EvLog id args => 0 :: Z.of_nat id :: enc_values args
  | EvStore tr x p v => 1 :: (if tr then 1 else 0) :: Z.of_nat x :: enc_path p ++ enc_value v
  | EvCall f args => 2 :: Z.of_nat f :: enc_values args
  | EvRet f => [3; Z.of_nat f]
  end.
Definition is_log (e : event) : bool := match e with EvLog _ _ => true | _ => false end.

Definition fail_code (f : fail) : Z := match f with Revert => 0 | RevertMsg _ => 0 | OutOfFuel => 1 | Stuck => 2 end.

(* full = also the non-log events *)
Definition enc_result (full : bool) (r : ext_result) : list Z :=
  match r with
  | XOk v t _ _ =>
      let t' := if full then t else filter is_log t in
      1 :: enc_value v ++ Z.of_nat (length t') :: flat_map enc_event t'
  | XRevert => [0]
  | XRevertMsg k => [3; Z.of_nat k]
  | XError f => [2; fail_code f]
  end.

Definition show_run (full : bool) (P : prog) (calls : list xcall) : list Z :=
  let '(rs, fin) := run_calls (fuel_bound P) P calls (init_sto P) in
  (if wf_prog P then 1 else 0) :: Z.of_nat (length rs) :: flat_map (enc_result full) rs ++ enc_values fin.
