(* C01: laws of the reference source semantics (the oracle the compiled bytecode is compared with).
   The compiler itself is tied to this semantics per generated program by tools/checks/c01.py. *)
From Coq Require Import ZArith List Bool Lia.
From Verif Require Import C01.VyCore C01.VyWf C01.VyLaws C01.Terminates.
Import ListNotations.
Open Scope Z_scope.

(* the result of a call sequence is a function of (program, calls, initial storage) only *)
Theorem vycore_deterministic : forall fuel P calls sto r1 r2,
  run_calls fuel P calls sto = r1 -> run_calls fuel P calls sto = r2 -> r1 = r2.
Proof. exact deterministic_run. Qed.
Print Assumptions vycore_deterministic.

(* every arithmetic BinOp returns the mathematical result (in range of its type) or fails;
   it fails exactly on division by zero or when the mathematical result does not fit *)
Theorem vycore_arith_exact :
  (forall op bits sg a b z, arith op bits sg a b = Some z ->
      math_spec op a b z /\ (is_checked op = true -> in_range bits sg z = true)) /\
  (forall op bits sg a b, arith op bits sg a b = None ->
      is_checked op = true /\
      (((op = Div \/ op = Mod) /\ b = 0) \/ forall z, math_spec op a b z -> in_range bits sg z = false)) /\
  (forall op a b z1 z2, math_spec op a b z1 -> math_spec op a b z2 -> z1 = z2) /\
  (forall P ce f op bits sg a b s v s' t,
      eval P ce (S f) (EBin op (TInt bits sg) a b) s = Ok v s' t ->
      exists x y s1 t1 t2,
        eval P ce f a s = Ok (VInt x) s1 t1 /\ eval P ce f b s1 = Ok (VInt y) s' t2 /\ t = t1 ++ t2 /\
        exists z, v = VInt z /\ math_spec op x y z /\ (is_checked op = true -> in_range bits sg z = true)).
Proof.
  split; [exact arith_some|]. split; [exact arith_none|]. split; [exact math_spec_functional|].
  exact eval_bin_exact.
Qed.
Print Assumptions vycore_arith_exact.

(* store lens laws: a write is read back, and leaves every independent location unchanged *)
Theorem vycore_frame :
  (forall p x v v', set_path p x v = Some v' -> get_path p v' = Some x) /\
  (forall p q x v v', set_path p x v = Some v' -> indep p q = true -> get_path q v' = get_path q v) /\
  (forall b v s, base_valid b s -> base_get b (base_set b v s) = Some v) /\
  (forall b b' v s, b <> b' -> base_get b' (base_set b v s) = base_get b' s).
Proof.
  split; [exact get_set_same|]. split; [exact get_set_other|]. split; [exact base_get_set_same|].
  exact base_get_set_other.
Qed.
Print Assumptions vycore_frame.

(* HashMap contents: a written key reads back, other keys (written or not) are unchanged, unwritten keys read the default *)
Theorem vycore_map_frame :
  (forall d k v m, mlook d k (mset k v m) = v) /\
  (forall d k k' v m, k <> k' -> mlook d k' (mset k v m) = mlook d k' m) /\
  (forall d k, mlook d k [] = d).
Proof. split; [exact mlook_mset_same|]. split; [exact mlook_mset_other|]. reflexivity. Qed.
Print Assumptions vycore_map_frame.

(* shifts (uint256 / int256) never revert: << is a * 2^b reduced into the type's range modulo 2^bits, >> is the floor of
   a / 2^b (arithmetic for negative a), and a shift by >= bits gives 0 (-1 for a negative value shifted right) *)
Theorem vycore_shift_exact :
  (forall bits sg a b, 0 < bits -> 0 <= b < bits ->
     in_range bits sg (shift_val true bits sg a b) = true /\ (shift_val true bits sg a b - a * 2 ^ b) mod 2 ^ bits = 0) /\
  (forall bits sg a b, 0 <= b < bits -> in_range bits sg a = true ->
     shift_val false bits sg a b = a / 2 ^ b /\ in_range bits sg (shift_val false bits sg a b) = true) /\
  (forall bits sg a b, bits <= b ->
     shift_val true bits sg a b = 0 /\ shift_val false bits sg a b = (if a <? 0 then -1 else 0)).
Proof. split; [exact shl_spec|]. split; [exact shr_spec | exact shift_saturates]. Qed.
Print Assumptions vycore_shift_exact.

(* Bytes: slice yields exactly the window [start, start+len) of its argument when it lies inside, and fails otherwise;
   concat appends *)
Theorem vycore_bytes_exact : forall P ce,
  (forall f a st ln s v s' t, eval P ce (S f) (ESlice a st ln) s = Ok v s' t ->
     exists x i n s1 s2 t1 t2 t3,
       eval P ce f a s = Ok (VBytes x) s1 t1 /\ eval P ce f st s1 = Ok (VInt i) s2 t2 /\
       eval P ce f ln s2 = Ok (VInt n) s' t3 /\ t = t1 ++ t2 ++ t3 /\
       0 <= i /\ 0 <= n /\ i + n <= Z.of_nat (length x) /\
       v = VBytes (firstn (Z.to_nat n) (skipn (Z.to_nat i) x)) /\
       Z.of_nat (length (firstn (Z.to_nat n) (skipn (Z.to_nat i) x))) = n) /\
  (forall f a st ln s x i n s1 s2 s3 t1 t2 t3,
     eval P ce f a s = Ok (VBytes x) s1 t1 -> eval P ce f st s1 = Ok (VInt i) s2 t2 ->
     eval P ce f ln s2 = Ok (VInt n) s3 t3 ->
     ~ (0 <= i /\ 0 <= n /\ i + n <= Z.of_nat (length x)) ->
     eval P ce (S f) (ESlice a st ln) s = Fail Revert) /\
  (forall f a b s v s' t, eval P ce (S f) (EConcat a b) s = Ok v s' t ->
     exists x y s1 t1 t2, eval P ce f a s = Ok (VBytes x) s1 t1 /\ eval P ce f b s1 = Ok (VBytes y) s' t2 /\
       t = t1 ++ t2 /\ v = VBytes (x ++ y)).
Proof.
  intros P ce. split; [apply eval_slice_exact|]. split; [apply eval_slice_out_of_range | apply eval_concat_exact].
Qed.
Print Assumptions vycore_bytes_exact.

(* with the statically computed fuel the interpreter never runs out of fuel *)
Theorem vycore_terminates : forall P ce idx args sto tra,
  wf_prog P = true ->
  call_ext (fuel_bound P) P ce idx args sto tra <> XError OutOfFuel.
Proof. exact call_ext_terminates. Qed.
Print Assumptions vycore_terminates.

(* non-vacuity: a concrete program with a loop, an internal call and checked arithmetic runs to a value,
   overflows to Revert, and is well-formed *)
Definition demo : prog :=
  mkProg [TInt 8 false] []
    [mkFun [TInt 8 false] false [SReturn (Some (EBin Add (TInt 8 false) (EVar 0) (EConst (VInt 100))))]]
    [mkFun [TInt 8 false] false
       [SFor 1 0 2 [SAug Add (TInt 8 false) (BSto 0) [] (ECall 0 [EVar 0])];
        SReturn (Some (ESelf 0))]].
Example vycore_nonvacuous :
  wf_prog demo = true /\
  call_ext (fuel_bound demo) demo (mkCenv 0 0) 0 [VInt 5] (init_sto demo) [] <> XRevert /\
  call_ext (fuel_bound demo) demo (mkCenv 0 0) 0 [VInt 200] (init_sto demo) [] = XRevert /\
  arith Div 8 true (-128) (-1) = None /\ arith Mod 8 true (-7) 2 = Some (-1) /\
  arith Pow 256 true (-2) 255 = Some (- 2 ^ 255) /\ arith Pow 256 true (-2) 256 = None /\ arith Pow 8 false 1 (2 ^ 200) = Some 1 /\
  shift_val true 256 true (2 ^ 254) 1 = - 2 ^ 255 /\ shift_val false 256 true (-8) 300 = -1 /\
  (* a nested HashMap path: m[5][-1] := 7 leaves m[5][0] and m[6][-1] at the default *)
  (match set_path [5; -1] (VInt 7) (zero_of (TMap (TInt 256 false) (TMap (TInt 8 true) (TInt 256 false)))) with
   | Some v' => get_path [5; -1] v' = Some (VInt 7) /\ get_path [5; 0] v' = Some (VInt 0) /\ get_path [6; -1] v' = Some (VInt 0)
   | None => False end).
Proof. vm_compute. repeat split; try discriminate. Qed.
