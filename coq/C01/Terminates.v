(* Termination of the reference interpreter: with fuel >= fuel_bound P (computed statically from the
   program) no evaluation returns OutOfFuel, provided the call graph is acyclic in the sense that
   internal function i only calls internal functions j < i (Vyper rejects recursion; the generator
   emits functions in that order).  Loops do not consume fuel depth (they are structural on the
   iteration count), calls consume one "level" of S D each. *)
From Coq Require Import ZArith List Bool Lia Arith.
From Verif Require Import C01.VyCore C01.VyWf C01.VyUnfold.
Import ListNotations.
Local Open Scope nat_scope.

(* ---------- "not out of fuel" ---------- *)
Definition nf {A} (r : R A) : Prop := r <> Fail OutOfFuel.

Lemma nf_bind {A B} (m : R A) (k : A -> state -> R B) :
  nf m -> (forall a s, nf (k a s)) -> nf (bind m k).
Proof.
  unfold nf, bind. intros Hm Hk. destruct m as [a s t|f]; [|congruence].
  specialize (Hk a s). destruct (k a s); congruence.
Qed.
Lemma nf_ret {A} (a : A) s : nf (ret a s).
Proof. unfold nf, ret; discriminate. Qed.
Lemma nf_emit {A} ev (a : A) s : nf (emit ev a s).
Proof. unfold nf, emit; discriminate. Qed.
Lemma nf_revert {A} : nf (@Fail A Revert).
Proof. unfold nf; discriminate. Qed.
Lemma nf_revertmsg {A} k : nf (@Fail A (RevertMsg k)).
Proof. unfold nf; discriminate. Qed.
Lemma nf_stuck {A} : nf (@Fail A Stuck).
Proof. unfold nf; discriminate. Qed.
Lemma nf_ok {A} (a : A) s t : nf (Ok a s t).
Proof. unfold nf; discriminate. Qed.

Lemma nf_loop_n body : (forall i s, nf (body i s)) -> forall k i s, nf (loop_n k i body s).
Proof.
  intros Hb. induction k; intros i s; cbn [loop_n].
  - apply nf_ret.
  - apply nf_bind; [apply Hb|]. intros r s1. destruct r; try apply nf_ret; apply IHk.
Qed.
Lemma nf_loop_l body : (forall v s, nf (body v s)) -> forall l s, nf (loop_l l body s).
Proof.
  intros Hb. induction l; intros s; cbn [loop_l].
  - apply nf_ret.
  - apply nf_bind; [apply Hb|]. intros r s1. destruct r; try apply nf_ret; apply IHl.
Qed.

(* ---------- unfolding the nested fixes of depth_e / calls_e to the top-level list functions ---------- *)
Lemma depth_call g args : depth_e (ECall g args) = S (S (depth_l args)).
Proof. reflexivity. Qed.
Lemma depth_list l : depth_e (EList l) = S (depth_l l).
Proof. reflexivity. Qed.
Lemma depth_pop b p : depth_e (EPop b p) = S (depth_p p).
Proof. reflexivity. Qed.
Lemma calls_call k g args : calls_e k (ECall g args) = Nat.ltb g k && calls_l k args.
Proof. simpl. f_equal. induction args as [|x r IH]; [reflexivity|]. simpl. rewrite <- IH. reflexivity. Qed.
Lemma calls_list k l : calls_e k (EList l) = calls_l k l.
Proof. simpl. induction l as [|x r IH]; [reflexivity|]. simpl. rewrite <- IH. reflexivity. Qed.
Lemma calls_pop k b p : calls_e k (EPop b p) = calls_p k p.
Proof. simpl. induction p as [|[x|x] r IH]; [reflexivity| |]; simpl; rewrite <- IH; reflexivity. Qed.
Lemma calls_blk k l : (fix go (l : list stmt) : bool :=
      match l with [] => true | x :: r => calls_s k x && go r end) l = calls_b k l.
Proof. induction l as [|x r IH]; [reflexivity|]. simpl. rewrite <- IH. reflexivity. Qed.
Lemma depth_if c th el : depth_s (SIf c th el) = S (Nat.max (depth_e c) (Nat.max (depth_b th) (depth_b el))).
Proof. reflexivity. Qed.
Lemma depth_for x a n body : depth_s (SFor x a n body) = S (depth_b body).
Proof. reflexivity. Qed.
Lemma depth_fordyn x e bd body : depth_s (SForDyn x e bd body) = S (Nat.max (depth_e e) (depth_b body)).
Proof. reflexivity. Qed.
Lemma depth_forin x e body : depth_s (SForIn x e body) = S (Nat.max (depth_e e) (depth_b body)).
Proof. reflexivity. Qed.
Lemma calls_if k c th el : calls_s k (SIf c th el) = calls_e k c && (calls_b k th && calls_b k el).
Proof. simpl. rewrite !calls_blk. reflexivity. Qed.
Lemma calls_for k x a n body : calls_s k (SFor x a n body) = calls_b k body.
Proof. simpl. rewrite !calls_blk. reflexivity. Qed.
Lemma calls_fordyn k x e bd body : calls_s k (SForDyn x e bd body) = calls_e k e && calls_b k body.
Proof. simpl. rewrite !calls_blk. reflexivity. Qed.
Lemma calls_forin k x e body : calls_s k (SForIn x e body) = calls_e k e && calls_b k body.
Proof. simpl. rewrite !calls_blk. reflexivity. Qed.

Section Term.
Variable P : prog.    (*section*)
Variable ce : cenv.   (*section*)
Let D := max_body_depth P.
Hypothesis WF : wf_prog P = true.   (*section*)

Lemma max_ge_in (l : list nat) x : In x l -> x <= fold_right Nat.max 0 l.
Proof. induction l; cbn; intros H; [tauto|]. destruct H as [->|H]; [lia | specialize (IHl H); lia]. Qed.

Lemma body_depth_le fd : In fd (p_int P ++ p_ext P) -> depth_b (f_body fd) <= D.
Proof.
  intros H. unfold D, max_body_depth. apply max_ge_in.
  apply in_map_iff. exists fd; auto.
Qed.

Lemma wf_ints_nth : forall l i g fd,
  wf_ints i l = true -> nth_error l g = Some fd -> calls_b (i + g) (f_body fd) = true.
Proof.
  induction l as [|x r IH]; intros i g fd Hw Hn; [destruct g; discriminate|].
  cbn in Hw. apply andb_true_iff in Hw. destruct Hw as [H1 H2].
  destruct g; cbn in Hn.
  - inversion Hn; subst. rewrite Nat.add_0_r; auto.
  - replace (i + S g) with (S i + g) by lia. eapply IH; eauto.
Qed.

Lemma int_body_calls g fd : nth_error (p_int P) g = Some fd -> calls_b g (f_body fd) = true.
Proof.
  intros H. unfold wf_prog in WF. apply andb_true_iff in WF. destruct WF as [W1 _].
  exact (wf_ints_nth _ 0 g fd W1 H).
Qed.

Definition fits_e k n e := calls_e k e = true /\ k * S D + depth_e e <= n.
Definition fits_l k n l := calls_l k l = true /\ k * S D + depth_l l <= n.
Definition fits_p k n p := calls_p k p = true /\ k * S D + depth_p p <= n.
Definition fits_s k n c := calls_s k c = true /\ k * S D + depth_s c <= n.
Definition fits_b k n b := calls_b k b = true /\ k * S D + depth_b b <= n.

Ltac split_fits :=
  unfold fits_e, fits_l, fits_p, fits_s, fits_b in *;
  repeat match goal with
  | H : _ /\ _ |- _ => destruct H
  | H : (_ && _) = true |- _ => apply andb_true_iff in H
  end.
Ltac fits := split_fits; split; [auto | lia].

Definition all_nf (n : nat) : Prop :=
  (forall k e s, fits_e k n e -> nf (eval P ce n e s)) /\
  (forall k l s, fits_l k n l -> nf (eval_list P ce n l s)) /\
  (forall k p cur s, fits_p k n p -> nf (resolve P ce n p cur s)) /\
  (forall g vs s, S (g * S D + D) <= n -> nf (call P ce n g vs s)) /\
  (forall k c s, fits_s k n c -> nf (exec P ce n c s)) /\
  (forall k b s, fits_b k n b -> nf (exec_block P ce n b s)).

Ltac fin := first [apply nf_ret | apply nf_emit | apply nf_revert | apply nf_revertmsg | apply nf_stuck | apply nf_ok].

Ltac crush IHe IHl IHp IHc IHs IHb k :=
  repeat first
    [ fin
    | apply nf_bind; [|intros ? ?]
    | match goal with
      | |- nf (eval _ _ _ _ _) => apply (IHe k); fits
      | |- nf (eval_list _ _ _ _ _) => apply (IHl k); fits
      | |- nf (resolve _ _ _ _ _ _) => apply (IHp k); fits
      | |- nf (exec _ _ _ _ _) => apply (IHs k); fits
      | |- nf (exec_block _ _ _ _ _) => apply (IHb k); fits
      | |- nf (loop_n _ _ _ _) => apply nf_loop_n; intros ? ?
      | |- nf (loop_l _ _ _) => apply nf_loop_l; intros ? ?
      | |- nf (match ?x with _ => _ end) => destruct x
      | |- nf (if ?x then _ else _) => destruct x
      end ].

Ltac prep F :=
  unfold fits_e, fits_l, fits_p, fits_s, fits_b in F;
  repeat first [rewrite depth_call in F | rewrite depth_list in F | rewrite depth_pop in F
               | rewrite calls_call in F | rewrite calls_list in F | rewrite calls_pop in F
               | rewrite depth_if in F | rewrite depth_for in F | rewrite depth_fordyn in F | rewrite depth_forin in F
               | rewrite calls_if in F | rewrite calls_for in F | rewrite calls_fordyn in F | rewrite calls_forin in F];
  cbn [calls_e depth_e calls_l depth_l calls_p depth_p calls_s depth_s calls_b depth_b] in F.

Lemma all_nf_step n : all_nf n -> all_nf (S n).
Proof.
  intros (IHe & IHl & IHp & IHc & IHs & IHb).
  unfold all_nf. repeat split.
  - (* eval *)
    intros k e s F. rewrite eval_S. destruct e; prep F;
      try solve [crush IHe IHl IHp IHc IHs IHb k].
    + (* ECall *)
      apply nf_bind; [apply (IHl k); fits|]. intros vs s1.
      apply IHc. split_fits. apply Nat.ltb_lt in H. nia.
  - (* eval_list *)
    intros k l s F. rewrite eval_list_S. destruct l; prep F; crush IHe IHl IHp IHc IHs IHb k.
  - (* resolve *)
    intros k p cur s F. rewrite resolve_S. destruct p as [|[ie|fk] r]; prep F;
      crush IHe IHl IHp IHc IHs IHb k.
  - (* call *)
    intros g vs s Hn. rewrite call_S.
    destruct (nth_error (p_int P) g) as [fd|] eqn:E; [|fin].
    destruct (negb _); [fin|].
    assert (Hb : nf (exec_block P ce n (f_body fd) (mkState (bind_params vs) (st_sto s) (st_tra s)))).
    { apply (IHb g). split; [apply int_body_calls; auto|].
      assert (depth_b (f_body fd) <= D).
      { apply body_depth_le. apply in_or_app. left. eapply nth_error_In; eauto. }
      lia. }
    unfold nf in *. destruct (exec_block P ce n (f_body fd) _) as [r s' t|x]; [|congruence].
    destruct r; cbn; discriminate.
  - (* exec *)
    intros k c s F. rewrite exec_S. destruct c; prep F;
      try solve [crush IHe IHl IHp IHc IHs IHb k].
  - (* exec_block *)
    intros k b s F. rewrite exec_block_S. destruct b; prep F; crush IHe IHl IHp IHc IHs IHb k.
Qed.

Lemma all_nf_0 : all_nf 0.
Proof.
  unfold all_nf, fits_e, fits_l, fits_p, fits_s, fits_b. repeat split; intros.
  - destruct H. destruct e; cbn in *; lia.
  - destruct H. destruct l; cbn in *; lia.
  - destruct H. destruct p as [|[|]]; cbn in *; lia.
  - lia.
  - destruct H. destruct c; cbn in *; try lia. destruct e; lia.
  - destruct H. destruct b; cbn in *; lia.
Qed.

Lemma all_nf_all n : all_nf n.
Proof. induction n; [apply all_nf_0 | apply all_nf_step; auto]. Qed.

End Term.

Theorem call_ext_terminates : forall P ce idx args sto tra,
  wf_prog P = true ->
  call_ext (fuel_bound P) P ce idx args sto tra <> XError OutOfFuel.
Proof.
  intros P ce idx args sto tra WF. unfold call_ext.
  destruct (nth_error (p_ext P) idx) as [fd|] eqn:E; [|discriminate].
  destruct (negb _); [discriminate|]. destruct (negb _); [discriminate|]. destruct (_ && _); [discriminate|].
  pose proof (all_nf_all P ce WF (fuel_bound P)) as (_ & _ & _ & _ & _ & Hb).
  assert (Hn : nf (exec_block P ce (fuel_bound P) (f_body fd) (mkState (bind_params args) sto tra))).
  { apply (Hb (length (p_int P))). split.
    - unfold wf_prog in WF. apply andb_true_iff in WF. destruct WF as [_ W2].
      rewrite forallb_forall in W2. apply W2. eapply nth_error_In; eauto.
    - assert (depth_b (f_body fd) <= max_body_depth P).
      { apply body_depth_le. apply in_or_app. right. eapply nth_error_In; eauto. }
      unfold fuel_bound. nia. }
  unfold nf in Hn. destruct (exec_block _ _ _ _ _) as [r s t|x].
  - destruct r; discriminate.
  - destruct x; try discriminate. congruence.
Qed.
