(* ExprXWord: word-level facts for the larger expression fragment (ExprX.v), shared by the legacy and the Venom proof:
   every operator of `p2` / `p1`, evaluated on the words of in-range operands by the shape the front end emits, yields the
   word of its mathematical meaning, and that meaning is a value of the result type. *)
From Coq Require Import ZArith Bool List String Lia ZifyBool.
From Verif Require Import Base.Word256 C03.LIR C03.ArithSpec C03.WordArith C03.TypeLemmas C03.ArithModel C03.LegacyExact
  C01.ExprCompile C01.ExprCompileProofs C01.ExprX.
Import ListNotations.
Open Scope string_scope.
Open Scope Z_scope.

(* ---------------- types and values ---------------- *)
Lemma num_ok_ty_ok T : num_ok T = true -> ty_ok T /\ 1 <= nbytes T <= 32.
Proof.
  unfold num_ok, ty_ok. intros H. apply andb_true_iff in H. destruct H as [H Hd]. apply andb_true_iff in H. destruct H as [H1 H2].
  split; [|lia]. split; [lia|]. intros D. rewrite D in Hd. cbn in Hd. apply andb_true_iff in Hd. destruct Hd as [A B].
  split; [lia | exact B].
Qed.
Lemma num_int_ok T : num_ok T = true -> ndec T = false -> int_ok T = true.
Proof.
  unfold num_ok, int_ok. intros H D. rewrite D. cbn. apply andb_true_iff in H. destruct H as [H _]. rewrite H. reflexivity.
Qed.
Lemma yty_eqb_eq a b : yty_eqb a b = true -> a = b.
Proof.
  destruct a, b; cbn; try discriminate; auto.
  - intros H. f_equal. apply nty_eqb_eq. exact H.
  - intros H. apply Z.eqb_eq in H. subst. reflexivity.
Qed.
Lemma yval_int T v : yval_ok (TI T) v = true -> in_range T v.
Proof. cbn. apply in_rangeb_iff. Qed.
Lemma yval_bool v : yval_ok TB v = true -> v = 0 \/ v = 1.
Proof. cbn. lia. Qed.
Lemma yval_flag n v : yval_ok (TF n) v = true -> 0 <= v < 2 ^ n.
Proof. unfold yval_ok. lia. Qed.
Lemma yflag_ok n : yty_ok (TF n) = true -> 1 <= n <= 256.
Proof. unfold yty_ok. lia. Qed.
Lemma pow_le_W n : 0 <= n <= 256 -> 2 ^ n <= W.
Proof. intros H. unfold W. apply Z.pow_le_mono_r; lia. Qed.
Lemma flag_uword n v : yty_ok (TF n) = true -> yval_ok (TF n) v = true -> 0 <= v < W.
Proof. intros Hn Hv. apply yflag_ok in Hn. apply yval_flag in Hv. pose proof (pow_le_W n ltac:(lia)). lia. Qed.

(* ---------------- bitwise operations ---------------- *)
Lemma wrap_ones z : wrap z = Z.land z (Z.ones 256).
Proof. unfold wrap, W. rewrite Z.land_ones by lia. reflexivity. Qed.

Lemma bit_wrap op x y : bit_fun op (wrap x) (wrap y) = wrap (bit_fun op x y).
Proof.
  rewrite !wrap_ones. apply Z.bits_inj'. intros n Hn.
  destruct op; cbn [bit_fun]; rewrite ?Z.land_spec, ?Z.lor_spec, ?Z.lxor_spec, ?Z.land_spec;
    destruct (Z.testbit x n), (Z.testbit y n), (Z.testbit (Z.ones 256) n); reflexivity.
Qed.

Lemma ev_bit op wx wy : ev2 (bit_op op) wy wx = bit_fun op wx wy.
Proof. destruct op; cbn [bit_op ev2 bit_fun]; unfold w_and, w_or, w_xor; [apply Z.land_comm | apply Z.lor_comm | apply Z.lxor_comm]. Qed.

(* signed ranges through the arithmetic shift: z in [-2^m, 2^m) iff z / 2^m is 0 or -1 *)
Lemma srange_iff m z : 0 <= m -> (- 2 ^ m <= z < 2 ^ m <-> Z.shiftr z m = 0 \/ Z.shiftr z m = -1).
Proof.
  intros Hm. rewrite Z.shiftr_div_pow2 by lia. pose proof (Z.pow_pos_nonneg 2 m ltac:(lia) Hm) as P.
  pose proof (Z.div_mod z (2 ^ m) ltac:(lia)) as D. pose proof (Z.mod_pos_bound z (2 ^ m) P) as B.
  set (q := z / 2 ^ m) in *. set (r := z mod 2 ^ m) in *. set (p := 2 ^ m) in *. split.
  - intros H. assert (-1 <= q <= 0) by nia. lia.
  - intros [-> | ->]; lia.
Qed.

Lemma sbit_range op m x y : 0 <= m -> - 2 ^ m <= x < 2 ^ m -> - 2 ^ m <= y < 2 ^ m ->
  - 2 ^ m <= bit_fun op x y < 2 ^ m.
Proof.
  intros Hm Hx Hy. apply (srange_iff m _ Hm). apply (srange_iff m _ Hm) in Hx. apply (srange_iff m _ Hm) in Hy.
  destruct op; cbn [bit_fun]; rewrite ?Z.shiftr_land, ?Z.shiftr_lor, ?Z.shiftr_lxor;
    destruct Hx as [-> | ->], Hy as [-> | ->]; cbn; auto.
Qed.

Lemma bit_int_word op T x y : num_ok T = true -> ndec T = false -> in_range T x -> in_range T y ->
  ev2 (bit_op op) (wrap y) (wrap x) = wrap (bit_fun op x y) /\ in_rangeb T (bit_fun op x y) = true.
Proof.
  intros Ht Hd Hx Hy. destruct (nsigned T) eqn:Hs.
  - (* signed *)
    split; [rewrite ev_bit; apply bit_wrap|].
    destruct T as [k s d]. cbn [nsigned ndec] in *. subst s d.
    destruct (num_ok_ty_ok _ Ht) as (_ & Hk). cbn [nbytes] in Hk.
    apply in_rangeb_iff. unfold in_range in *. rewrite ty_lo_s, ty_hi_s in *. unfold Hb in *.
    pose proof (sbit_range op (8 * k - 1) x y ltac:(lia) ltac:(lia) ltac:(lia)). lia.
  - apply bit_word; auto. apply num_int_ok; assumption.
Qed.

Lemma bit_flag_word op n x y : yty_ok (TF n) = true -> yval_ok (TF n) x = true -> yval_ok (TF n) y = true ->
  ev2 (bit_op op) (wrap y) (wrap x) = wrap (bit_fun op x y) /\ yval_ok (TF n) (bit_fun op x y) = true.
Proof.
  intros Hn Hx Hy. split; [rewrite ev_bit; apply bit_wrap|].
  cbn in Hn. apply yval_flag in Hx. apply yval_flag in Hy.
  pose proof (bits_bound n x y ltac:(lia) Hx Hy) as (Ba & Bo & Bx).
  destruct op; cbn [bit_fun yval_ok]; lia.
Qed.

(* ---------------- comparisons ---------------- *)
Lemma cmp_num_word op T x y : 1 <= nbytes T <= 32 -> in_range T x -> in_range T y ->
  ev2 (cmp_op op (SInt T)) (wrap y) (wrap x) = b2z (cmp_fun op x y).
Proof.
  intros Hk Hx Hy.
  destruct (is_u256 (SInt T)) eqn:U.
  - pose proof (uword_of_u256 T x U Hx) as Bx. pose proof (uword_of_u256 T y U Hy) as By.
    unfold cmp_op. rewrite U. rewrite (wrap_small x), (wrap_small y) by lia.
    destruct op; cbn [ev2 cmp_fun]; unfold w_gt, w_lt, w_eq; rewrite ?w_iszero_b2z; f_equal; lia.
  - pose proof (sword_of_range T x Hk U Hx) as Sx. pose proof (sword_of_range T y Hk U Hy) as Sy.
    unfold cmp_op. rewrite U.
    destruct op; cbn [ev2 cmp_fun]; unfold w_sgt, w_slt;
      rewrite ?(ts_wrap x Sx), ?(ts_wrap y Sy), ?(w_eq_wrap y x Sy Sx), ?w_iszero_b2z; f_equal; lia.
Qed.

Lemma eq_uword_word op x y : 0 <= x < W -> 0 <= y < W -> (op = CEq \/ op = CNe) ->
  ev2 (cmp_op op SBool) (wrap y) (wrap x) = b2z (cmp_fun op x y).
Proof.
  intros Hx Hy Hop. rewrite (wrap_small x), (wrap_small y) by lia.
  destruct Hop as [-> | ->]; cbn [cmp_op ev2 cmp_fun]; unfold w_eq; rewrite ?w_iszero_b2z; f_equal; lia.
Qed.

(* ---------------- shifts ---------------- *)
Lemma w256_cases T : num_ok T = true -> is_w256 T = true ->
  T = Build_nty 32 true false \/ T = Build_nty 32 false false.
Proof.
  destruct T as [k s d]. unfold is_w256. cbn [nbytes ndec]. intros _ H. apply andb_true_iff in H. destruct H as [Hk Hd].
  apply Z.eqb_eq in Hk. apply negb_true_iff in Hd. subst. destruct s; auto.
Qed.
Lemma uint_val T y : uint_ok T = true -> in_range T y -> 0 <= y < W.
Proof.
  unfold uint_ok. intros H Hy. apply andb_true_iff in H. destruct H as [H Hd]. apply andb_true_iff in H. destruct H as [Ht Hs].
  apply negb_true_iff in Hs. destruct (num_ok_ty_ok T Ht) as (_ & Hk). destruct T as [k s d]. cbn [nsigned nbytes] in *. subst s.
  pose proof (range_bounds k false d y ltac:(lia) Hy) as B. cbn beta iota in B.
  destruct (Hb_W k Hk) as (c & Hc & HW). pose proof (Hb_pos k ltac:(lia)). nia.
Qed.

Lemma i256_range v : in_range (Build_nty 32 true false) v <-> - HALF <= v <= HALF - 1.
Proof. unfold in_range. rewrite ty_lo_s, ty_hi_s, Hb_32. reflexivity. Qed.
Lemma u256_range v : in_range (Build_nty 32 false false) v <-> 0 <= v <= W - 1.
Proof. unfold in_range. rewrite ty_lo_u, ty_hi_u by lia. rewrite Hb_32, W_HALF. reflexivity. Qed.

Lemma shl_word sg x y : 0 <= y < W -> w_shl (wrap y) (wrap x) = wrap (sh_l sg x y).
Proof.
  intros Hy. rewrite (wrap_small y Hy). unfold w_shl, sh_l.
  destruct (y <? 256) eqn:Ly.
  - replace (256 <=? y) with false by lia.
    assert (E : (wrap x * 2 ^ y) mod W = (x * 2 ^ y) mod W) by (unfold wrap; apply Z.mul_mod_idemp_l; wl).
    rewrite E. set (w := (x * 2 ^ y) mod W).
    destruct (sg && (HALF <=? w)); unfold wrap.
    + unfold w. replace ((x * 2 ^ y) mod W - W) with ((x * 2 ^ y) mod W + (-1) * W) by lia.
      rewrite Z.mod_add by wl. rewrite Z.mod_mod by wl. reflexivity.
    + unfold w. rewrite Z.mod_mod by wl. reflexivity.
  - replace (256 <=? y) with true by lia. reflexivity.
Qed.
Lemma shl_range sg x y : in_rangeb (Build_nty 32 sg false) (sh_l sg x y) = true.
Proof.
  apply in_rangeb_iff. unfold sh_l. destruct (256 <=? y).
  - destruct sg; [apply i256_range | apply u256_range]; wl.
  - pose proof (Z.mod_pos_bound (x * 2 ^ y) W ltac:(wl)) as B. set (w := (x * 2 ^ y) mod W) in *.
    destruct sg; cbn [andb].
    + apply i256_range. destruct (HALF <=? w) eqn:E; wl.
    + apply u256_range. lia.
Qed.

Lemma shr_u_word x y : 0 <= x < W -> 0 <= y < W -> w_shr (wrap y) (wrap x) = wrap (sh_r x y) /\ 0 <= sh_r x y <= x.
Proof.
  intros Hx Hy. rewrite (wrap_small y Hy), (wrap_small x Hx). unfold w_shr, sh_r.
  destruct (y <? 256) eqn:Ly.
  - replace (256 <=? y) with false by lia.
    pose proof (Z.pow_pos_nonneg 2 y ltac:(lia) ltac:(lia)) as P.
    assert (0 <= x / 2 ^ y <= x).
    { split; [apply Z.div_pos; lia|]. apply Z.div_le_upper_bound; nia. }
    split; [symmetry; apply wrap_small; lia | lia].
  - replace (256 <=? y) with true by lia. replace (x <? 0) with false by lia. split; [reflexivity | lia].
Qed.
Lemma shr_s_word x y : - HALF <= x <= HALF - 1 -> 0 <= y < W ->
  w_sar (wrap y) (wrap x) = wrap (sh_r x y) /\ - HALF <= sh_r x y <= HALF - 1.
Proof.
  intros Hx Hy. assert (Sx : sword x) by (unfold sword; wl).
  rewrite (wrap_small y Hy). unfold w_sar, sh_r, of_signed. rewrite (ts_wrap x Sx).
  destruct (y <? 256) eqn:Ly.
  - replace (256 <=? y) with false by lia. split; [reflexivity|].
    pose proof (Z.pow_pos_nonneg 2 y ltac:(lia) ltac:(lia)) as P.
    pose proof (Z.div_mod x (2 ^ y) ltac:(lia)) as D. pose proof (Z.mod_pos_bound x (2 ^ y) P) as B.
    set (q := x / 2 ^ y) in *. set (r := x mod 2 ^ y) in *. set (p := 2 ^ y) in *. nia.
  - replace (256 <=? y) with true by lia. destruct (x <? 0); split; try reflexivity; wl.
Qed.

(* ---------------- the binary operators, legacy shape ---------------- *)
Lemma isz_b2z j b : exists c, isz_w j (b2z b) = b2z c.
Proof. induction j as [|j [c IH]]; [exists b; reflexivity|]. cbn [isz_w]. rewrite IH, w_iszero_b2z. eexists. reflexivity. Qed.

Theorem lw2_correct o x y : p2_ok o = true -> yval_ok (p2_ta o) x = true -> yval_ok (p2_tb o) y = true ->
  lw2 o (wrap y) (wrap x) = wrap (p2_fun o x y) /\ yval_ok (p2_out o) (p2_fun o x y) = true.
Proof.
  destruct o as [op t | T Tb | T Tb | op t | neg n]; unfold lw2; cbn [p2_ok p2_ta p2_tb p2_out p2_fun lshape fst snd isz_w];
    intros Hok Hx Hy.
  - (* bitwise *)
    destruct t as [T | | n]; [| discriminate |].
    + apply andb_true_iff in Hok. destruct Hok as [Ht Hd]. apply negb_true_iff in Hd.
      apply bit_int_word; auto using yval_int.
    + apply bit_flag_word; assumption.
  - (* << *)
    apply andb_true_iff in Hok. destruct Hok as [Hok Hb']. apply andb_true_iff in Hok. destruct Hok as [Ht H256].
    pose proof (uint_val Tb y Hb' (yval_int _ _ Hy)) as By.
    destruct (w256_cases T Ht H256) as [-> | ->]; cbn [nsigned ev2].
    + split; [apply shl_word; exact By | apply (shl_range true)].
    + split; [apply shl_word; exact By | apply (shl_range false)].
  - (* >> *)
    apply andb_true_iff in Hok. destruct Hok as [Hok Hb']. apply andb_true_iff in Hok. destruct Hok as [Ht H256].
    pose proof (uint_val Tb y Hb' (yval_int _ _ Hy)) as By. apply yval_int in Hx.
    destruct (w256_cases T Ht H256) as [-> | ->]; cbn [nsigned ev2].
    + apply (proj1 (i256_range x)) in Hx. destruct (shr_s_word x y Hx By) as [E R]. split; [exact E|].
      cbn [yval_ok]. apply in_rangeb_iff, i256_range. exact R.
    + apply (proj1 (u256_range x)) in Hx. assert (Bx : 0 <= x < W) by (clear - Hx; lia). destruct (shr_u_word x y Bx By) as [E R]. split; [exact E|].
      cbn [yval_ok]. apply in_rangeb_iff, u256_range. lia.
  - (* comparison *)
    apply andb_true_iff in Hok. destruct Hok as [Ht Hop].
    split; [|cbn; destruct (cmp_fun op x y); reflexivity]. rewrite b2z_wrap.
    destruct t as [T | | n]; cbn [sty_of].
    + cbn in Ht. destruct (num_ok_ty_ok T Ht) as (_ & Hk). apply cmp_num_word; auto using yval_int.
    + apply cmp_word; [reflexivity | exact Hx | exact Hy].
    + apply eq_uword_word; [eapply flag_uword; eassumption | eapply flag_uword; eassumption | destruct op; try discriminate; auto].
  - (* in / not in *)
    pose proof (flag_uword n x Hok Hx) as Bx. pose proof (flag_uword n y Hok Hy) as By.
    destruct (bit_flag_word BitAnd n x y Hok Hx Hy) as [E R]. cbn [bit_op bit_fun] in E, R.
    pose proof (yval_flag _ _ R) as Bl. pose proof (flag_uword n _ Hok R) as Bw.
    rewrite (wrap_small (Z.land x y) Bw) in E.
    split; [|destruct neg, (Z.land x y =? 0); reflexivity].
    destruct neg; cbn [lshape fst snd isz_w]; rewrite E; unfold w_iszero; rewrite ?b2z_wrap;
      destruct (Z.land x y =? 0); reflexivity.
Qed.

(* ---------------- the unary operators ---------------- *)
Definition lw1 (o : p1) (wx : Z) : Z :=
  match o with PNot => w_iszero wx | PInv => w_not wx | PInvF n => w_xor (wrap (2 ^ n - 1)) wx end.

Theorem lw1_correct o x : p1_ok o = true -> yval_ok (p1_t o) x = true ->
  lw1 o (wrap x) = wrap (p1_fun o x) /\ yval_ok (p1_t o) (p1_fun o x) = true.
Proof.
  destruct o as [ | | n]; cbn [p1_ok p1_t p1_fun lw1]; intros Hok Hx.
  - destruct (yval_bool _ Hx) as [-> | ->]; split; reflexivity.
  - apply yval_int in Hx. apply (proj1 (u256_range x)) in Hx. rewrite (wrap_small x) by lia. unfold w_not, MAXU.
    replace (2 ^ 256) with W by reflexivity. split; [symmetry; apply wrap_small; lia|].
    cbn [yval_ok]. apply in_rangeb_iff, u256_range. lia.
  - pose proof (flag_uword n x Hok Hx) as Bx. pose proof (yval_flag _ _ Hx) as Fx. cbn in Hok.
    pose proof (Z.pow_pos_nonneg 2 n ltac:(lia) ltac:(lia)) as P. pose proof (pow_le_W n ltac:(lia)) as PW.
    pose proof (bits_bound n x (2 ^ n - 1) ltac:(lia) Fx ltac:(lia)) as (_ & _ & B).
    rewrite (wrap_small x Bx), (wrap_small (2 ^ n - 1)) by lia. unfold w_xor. rewrite Z.lxor_comm.
    split; [symmetry; apply wrap_small; lia | cbn [yval_ok]; lia].
Qed.
