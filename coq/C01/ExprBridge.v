(* ExprBridge: the source meaning used by expr_compile_correct (ExprCompile.seval) IS the C01 reference semantics
   (VyCore.eval) on the expression fragment: translating an sexpr to a VyCore expression and evaluating it with enough
   fuel gives the same value / Revert, leaves the state unchanged and produces no effects.
   Together with expr_compile_correct:  leval (compile e) = encoding of VyCore.eval (to_vy e). *)
From Coq Require Import ZArith Bool List String Lia ZifyBool Arith.
From Verif Require Import Base.Word256 C03.LIR C03.ArithSpec C03.TypeLemmas C01.ExprCompile C01.ExprCompileProofs.
From Verif Require C01.VyCore.
Import ListNotations.
Open Scope Z_scope.

Module V := VyCore.

Definition to_ty (T : nty) : V.ty := V.TInt (8 * nbytes T) (nsigned T).
Definition val_of (t : sty) (z : Z) : V.value :=
  match t with SInt _ => V.VInt z | SBool => V.VBool (negb (z =? 0)) end.

Definition vop (op : bop) : V.binop :=
  match op with BAdd => V.Add | BSub => V.Sub | BMul => V.Mul | BDiv => V.Div | BMod => V.Mod end.
Definition vbit (op : bitop) : V.binop :=
  match op with BitAnd => V.BAnd | BitOr => V.BOr | BitXor => V.BXor end.
Definition vcmp (op : cop) : V.cmpop :=
  match op with CLt => V.Lt | CLe => V.Le | CGt => V.Gt | CGe => V.Ge | CEq => V.Eq | CNe => V.Ne end.

Section Bridge.
Variable ix : string -> nat.     (*section*)   (* local variable name -> VyCore local id *)

Fixpoint to_vy (e : sexpr) : V.expr :=
  match e with
  | XInt _ v => V.EConst (V.VInt v)
  | XBool b => V.EConst (V.VBool b)
  | XVar s _ => V.EVar (ix s)
  | XBin op T _ _ _ _ a b => V.EBin (vop op) (to_ty T) (to_vy a) (to_vy b)
  | XBit op T a b => V.EBin (vbit op) (to_ty T) (to_vy a) (to_vy b)
  | XCmp op _ a b => V.ECmp (vcmp op) (to_vy a) (to_vy b)
  | XAnd a b => V.EAnd (to_vy a) (to_vy b)
  | XOr a b => V.EOr (to_vy a) (to_vy b)
  | XNot a => V.ENot (to_vy a)
  | XNeg T _ a => V.ENeg (to_ty T) (to_vy a)
  | XIf c a b => V.EIfExp (to_vy c) (to_vy a) (to_vy b)
  end.

Fixpoint sdepth (e : sexpr) : nat :=
  match e with
  | XInt _ _ | XBool _ | XVar _ _ => 1
  | XBin _ _ _ _ _ _ a b | XBit _ _ a b | XCmp _ _ a b | XAnd a b | XOr a b => S (Nat.max (sdepth a) (sdepth b))
  | XNot a | XNeg _ _ a => S (sdepth a)
  | XIf c a b => S (Nat.max (sdepth c) (Nat.max (sdepth a) (sdepth b)))
  end.

(* the VyCore locals hold the values of the source environment *)
Fixpoint loc_ok (rho : senv) (st : V.state) (e : sexpr) : Prop :=
  match e with
  | XInt _ _ | XBool _ => True
  | XVar s t => forall v, lookup rho s = Some v -> V.lget (ix s) (V.st_loc st) = Some (val_of t v)
  | XBin _ _ _ _ _ _ a b | XBit _ _ a b | XCmp _ _ a b | XAnd a b | XOr a b => loc_ok rho st a /\ loc_ok rho st b
  | XNot a | XNeg _ _ a => loc_ok rho st a
  | XIf c a b => loc_ok rho st c /\ loc_ok rho st a /\ loc_ok rho st b
  end.

Definition vres (t : sty) (st : V.state) (o : outcome) : V.R V.value :=
  match o with
  | Val z => V.Ok (val_of t z) st []
  | Revert => V.Fail V.Revert
  | _ => V.Fail V.Stuck
  end.

Lemma in_range_same T z : V.in_range (8 * nbytes T) (nsigned T) z = in_rangeb T z.
Proof. reflexivity. Qed.

Lemma arith_same op T x y : ndec T = false ->
  V.arith (vop op) (8 * nbytes T) (nsigned T) x y =
  match arith_spec T (aop_of op) x y with Val z => Some z | _ => None end.
Proof.
  intros Hd. destruct op; cbn [vop aop_of V.arith arith_spec]; rewrite ?Hd; unfold chk; rewrite ?in_range_same.
  - destruct (in_rangeb T (x + y)); reflexivity.
  - destruct (in_rangeb T (x - y)); reflexivity.
  - destruct (in_rangeb T (x * y)); reflexivity.
  - destruct (y =? 0); [reflexivity|]. destruct (in_rangeb T (Z.quot x y)); reflexivity.
  - destruct (y =? 0); [reflexivity|]. destruct (in_rangeb T (Z.rem x y)); reflexivity.
Qed.

Variable P : V.prog.     (*section*)
Variable ce : V.cenv.    (*section*)

Local Opaque int_ok sty_ok.

Theorem seval_is_vycore : forall e rho st, wt e = true -> env_ok rho e = true -> loc_ok rho st e ->
  forall f, (sdepth e <= f)%nat ->
  V.eval P ce f (to_vy e) st = vres (ty_of e) st (seval rho e).
Proof.
  induction e as [T v | b | s t | op T ia ib i1 i2 a IHa b IHb | op T a IHa b IHb | op t a IHa b IHb
                 | a IHa b IHb | a IHa b IHb | a IHa | T ic a IHa | c IHc a IHa b IHb];
    intros rho st W E L f Hf; (destruct f as [|f]; [cbn [sdepth] in Hf; lia|]);
    pose proof (compile_correct _ rho W E) as [G _];
    cbn [wt env_ok loc_ok sdepth] in W, E, L, Hf; cbn [to_vy ty_of seval] in *.
  - reflexivity.
  - cbn [V.eval vres val_of]. destruct b; reflexivity.
  - cbn [V.eval]. destruct (lookup rho s) as [v|] eqn:Lk; [|discriminate]. rewrite (L v eq_refl). reflexivity.
  - (* XBin *)
    repeat (apply andb_true_iff in W; destruct W as [W ?]).
    apply andb_true_iff in E. destruct E as [Ea Eb]. destruct L as [La Lb].
    match goal with H : sty_eqb (ty_of a) _ = true |- _ => apply sty_eqb_eq in H; rename H into Ta end.
    match goal with H : sty_eqb (ty_of b) _ = true |- _ => apply sty_eqb_eq in H; rename H into Tb end.
    destruct (int_ok_ty_ok T ltac:(assumption)) as (_ & _ & Hd).
    pose proof (compile_correct a rho ltac:(assumption) Ea) as [Ga _].
    pose proof (compile_correct b rho ltac:(assumption) Eb) as [Gb _].
    cbn [V.eval]. rewrite (IHa rho st ltac:(assumption) Ea La f ltac:(lia)). rewrite Ta in *.
    destruct (seval rho a) as [x| | |] eqn:Sa; cbn [vres V.bind good] in *; try contradiction; [|reflexivity].
    rewrite (IHb rho st ltac:(assumption) Eb Lb f ltac:(lia)). rewrite Tb in *.
    destruct (seval rho b) as [y| | |] eqn:Sb; cbn [vres V.bind good val_of] in *; try contradiction; [|reflexivity].
    unfold to_ty. rewrite (arith_same op T x y Hd).
    pose proof (arith_spec_good T (aop_of op) x y Hd ltac:(destruct op; discriminate)) as Gs.
    destruct (arith_spec T (aop_of op) x y); try contradiction; reflexivity.
  - (* XBit *)
    repeat (apply andb_true_iff in W; destruct W as [W ?]).
    apply andb_true_iff in E. destruct E as [Ea Eb]. destruct L as [La Lb].
    match goal with H : sty_eqb (ty_of a) _ = true |- _ => apply sty_eqb_eq in H; rename H into Ta end.
    match goal with H : sty_eqb (ty_of b) _ = true |- _ => apply sty_eqb_eq in H; rename H into Tb end.
    pose proof (compile_correct a rho ltac:(assumption) Ea) as [Ga _].
    pose proof (compile_correct b rho ltac:(assumption) Eb) as [Gb _].
    cbn [V.eval]. rewrite (IHa rho st ltac:(assumption) Ea La f ltac:(lia)). rewrite Ta in *.
    destruct (seval rho a) as [x| | |] eqn:Sa; cbn [vres V.bind good] in *; try contradiction; [|reflexivity].
    rewrite (IHb rho st ltac:(assumption) Eb Lb f ltac:(lia)). rewrite Tb in *.
    destruct (seval rho b) as [y| | |] eqn:Sb; cbn [vres V.bind good val_of] in *; try contradiction; [|reflexivity].
    unfold to_ty. destruct op; reflexivity.
  - (* XCmp *)
    repeat (apply andb_true_iff in W; destruct W as [W ?]).
    apply andb_true_iff in E. destruct E as [Ea Eb]. destruct L as [La Lb].
    match goal with H : sty_eqb (ty_of a) _ = true |- _ => apply sty_eqb_eq in H; rename H into Ta end.
    match goal with H : sty_eqb (ty_of b) _ = true |- _ => apply sty_eqb_eq in H; rename H into Tb end.
    pose proof (compile_correct a rho ltac:(assumption) Ea) as [Ga _].
    pose proof (compile_correct b rho ltac:(assumption) Eb) as [Gb _].
    cbn [V.eval]. rewrite (IHa rho st ltac:(assumption) Ea La f ltac:(lia)). rewrite Ta in *.
    destruct (seval rho a) as [x| | |] eqn:Sa; cbn [vres V.bind good] in *; try contradiction; [|reflexivity].
    rewrite (IHb rho st ltac:(assumption) Eb Lb f ltac:(lia)). rewrite Tb in *.
    destruct (seval rho b) as [y| | |] eqn:Sb; cbn [vres V.bind good] in *; try contradiction; [|reflexivity].
    destruct t as [T|]; cbn [val_of].
    + cbn [app]. destruct op; cbn [vcmp V.cmp_int cmp_fun];
        match goal with |- context [b2z ?c] => destruct c end; reflexivity.
    + destruct (val_ok_bool _ Ga) as [-> | ->]; destruct (val_ok_bool _ Gb) as [-> | ->];
        destruct op; try discriminate; reflexivity.
  - (* XAnd *)
    repeat (apply andb_true_iff in W; destruct W as [W ?]).
    apply andb_true_iff in E. destruct E as [Ea Eb]. destruct L as [La Lb].
    match goal with H : sty_eqb (ty_of a) _ = true |- _ => apply sty_eqb_eq in H; rename H into Ta end.
    match goal with H : sty_eqb (ty_of b) _ = true |- _ => apply sty_eqb_eq in H; rename H into Tb end.
    pose proof (compile_correct a rho ltac:(assumption) Ea) as [Ga _].
    cbn [V.eval]. rewrite (IHa rho st ltac:(assumption) Ea La f ltac:(lia)). rewrite Ta in *.
    destruct (seval rho a) as [x| | |] eqn:Sa; cbn [vres V.bind good] in *; try contradiction; [|reflexivity].
    destruct (val_ok_bool _ Ga) as [-> | ->]; cbn [val_of Z.eqb negb].
    + reflexivity.
    + rewrite (IHb rho st ltac:(assumption) Eb Lb f ltac:(lia)). rewrite Tb.
      destruct (seval rho b); reflexivity.
  - (* XOr *)
    repeat (apply andb_true_iff in W; destruct W as [W ?]).
    apply andb_true_iff in E. destruct E as [Ea Eb]. destruct L as [La Lb].
    match goal with H : sty_eqb (ty_of a) _ = true |- _ => apply sty_eqb_eq in H; rename H into Ta end.
    match goal with H : sty_eqb (ty_of b) _ = true |- _ => apply sty_eqb_eq in H; rename H into Tb end.
    pose proof (compile_correct a rho ltac:(assumption) Ea) as [Ga _].
    cbn [V.eval]. rewrite (IHa rho st ltac:(assumption) Ea La f ltac:(lia)). rewrite Ta in *.
    destruct (seval rho a) as [x| | |] eqn:Sa; cbn [vres V.bind good] in *; try contradiction; [|reflexivity].
    destruct (val_ok_bool _ Ga) as [-> | ->]; cbn [val_of Z.eqb negb].
    + rewrite (IHb rho st ltac:(assumption) Eb Lb f ltac:(lia)). rewrite Tb.
      destruct (seval rho b); reflexivity.
    + reflexivity.
  - (* XNot *)
    apply andb_true_iff in W. destruct W as [Wa Ta]. apply sty_eqb_eq in Ta.
    pose proof (compile_correct a rho Wa E) as [Ga _].
    cbn [V.eval]. rewrite (IHa rho st Wa E L f ltac:(lia)). rewrite Ta in *.
    destruct (seval rho a) as [x| | |] eqn:Sa; cbn [vres V.bind good] in *; try contradiction; [|reflexivity].
    destruct (val_ok_bool _ Ga) as [-> | ->]; reflexivity.
  - (* XNeg *)
    repeat (apply andb_true_iff in W; destruct W as [W ?]).
    match goal with H : sty_eqb (ty_of a) _ = true |- _ => apply sty_eqb_eq in H; rename H into Ta end.
    pose proof (compile_correct a rho ltac:(assumption) E) as [Ga _].
    cbn [V.eval]. rewrite (IHa rho st ltac:(assumption) E L f ltac:(lia)). rewrite Ta in *.
    destruct (seval rho a) as [x| | |] eqn:Sa; cbn [vres V.bind good val_of] in *; try contradiction; [|reflexivity].
    unfold to_ty. rewrite in_range_same. cbn [arith_spec]. unfold chk.
    destruct (in_rangeb T (- x)); reflexivity.
  - (* XIf *)
    repeat (apply andb_true_iff in W; destruct W as [W ?]).
    repeat (apply andb_true_iff in E; destruct E as [E ?]). destruct L as (Lc & La & Lb).
    match goal with H : sty_eqb (ty_of c) _ = true |- _ => apply sty_eqb_eq in H; rename H into Tc end.
    match goal with H : sty_eqb (ty_of a) _ = true |- _ => apply sty_eqb_eq in H; rename H into Tab end.
    pose proof (compile_correct c rho ltac:(assumption) ltac:(assumption)) as [Gc _].
    cbn [V.eval]. rewrite (IHc rho st ltac:(assumption) ltac:(assumption) Lc f ltac:(lia)). rewrite Tc in *.
    destruct (seval rho c) as [x| | |] eqn:Sc; cbn [vres V.bind good] in *; try contradiction; [|reflexivity].
    destruct (val_ok_bool _ Gc) as [-> | ->]; cbn [val_of Z.eqb negb].
    + rewrite (IHb rho st ltac:(assumption) ltac:(assumption) Lb f ltac:(lia)). rewrite <- Tab.
      destruct (seval rho b); reflexivity.
    + rewrite (IHa rho st ltac:(assumption) ltac:(assumption) La f ltac:(lia)).
      destruct (seval rho a); reflexivity.
Qed.

End Bridge.
