(* C01: laws of the source-level meanings of the pure value-level builtins (coq/C01/VyBuiltin.v), the oracle the compiled
   bytecode of generated builtin programs is compared with (tools/vlib/c01_builtins.py).  Each builtin returns the
   mathematical value when it is representable in the result type and reverts otherwise. *)
From Coq Require Import ZArith List Bool Lia.
From Verif Require Import Base.Word256 C01.VyCore C01.VyBuiltin C01.VyBuiltinLaws.
Import ListNotations.
Open Scope Z_scope.

(* the result of an external call is a function of (oracle table, functions, index, arguments): no configuration parameter;
   on VyCore expressions the extended evaluator IS VyCore.eval; a builtin node evaluates its arguments left to right and
   applies the table; builtins other than the hashes never look at the oracle *)
Theorem builtin_deterministic :
  (forall tab fs idx args r1 r2, call_b tab fs idx args = r1 -> call_b tab fs idx args = r2 -> r1 = r2) /\
  (forall tab c s, evalB tab (BCore c) s = eval P0 CE0 BFUEL c s) /\
  (forall tab b args s v s' t, evalB tab (BApp b args) s = Ok v s' t ->
      exists vs, evalBs tab args s = Ok vs s' t /\ bi_eval tab b vs = Some (Some v)) /\
  (forall tab b args s vs s1 t1, evalBs tab args s = Ok vs s1 t1 -> bi_eval tab b vs = Some None ->
      evalB tab (BApp b args) s = Fail Revert) /\
  (forall tab1 tab2 b args, uses_oracle b = false -> bi_eval tab1 b args = bi_eval tab2 b args).
Proof.
  split; [exact call_b_deterministic|]. split; [exact evalB_core|]. split; [exact evalB_app_ok|].
  split; [exact evalB_app_revert|exact bi_eval_oracle_free].
Qed.
Print Assumptions builtin_deterministic.

(* as_wei_value: floor(value * denom) as a uint256 for a non-negative amount whose result fits; otherwise a revert,
   and a revert ONLY for a negative amount or a result >= 2^256 *)
Theorem builtin_as_wei_exact : forall tab denom dec z, 0 < denom ->
  match bi_eval tab (BiAsWei denom dec) [VInt z] with
  | Some (Some (VInt r)) => 0 <= z /\ 0 <= r < U256 /\ (dec = false -> r = z * denom) /\
                            (dec = true -> r * DEC <= z * denom < (r + 1) * DEC)
  | Some None => z < 0 \/ (dec = false /\ U256 <= z * denom) \/ (dec = true /\ U256 * DEC <= z * denom)
  | _ => False
  end.
Proof. exact bi_as_wei_exact. Qed.
Print Assumptions builtin_as_wei_exact.
Example as_wei_nonvacuous :
  bi_eval [] (BiAsWei (10 ^ 9) false) [VInt (2 ^ 255 / 10 ^ 9 + 1)] = Some (Some (VInt ((2 ^ 255 / 10 ^ 9 + 1) * 10 ^ 9))) /\
  bi_eval [] (BiAsWei (10 ^ 9) false) [VInt (2 ^ 256 / 10 ^ 9 + 1)] = Some None /\
  bi_eval [] (BiAsWei (10 ^ 9) false) [VInt (-1)] = Some None /\
  bi_eval [] (BiAsWei 1 true) [VInt 122000000000] = Some (Some (VInt 12)).
Proof. vm_compute. repeat split; reflexivity. Qed.

(* abs / floor / ceil / isqrt *)
Theorem builtin_math_exact :
  (forall tab z, in_range 256 true z = true ->
     match bi_eval tab BiAbs [VInt z] with
     | Some (Some (VInt r)) => r = Z.abs z /\ in_range 256 true r = true
     | Some None => z = - 2 ^ 255
     | _ => False
     end) /\
  (forall z, let f := z / DEC in f * DEC <= z < (f + 1) * DEC) /\
  (forall z, let c := - ((- z) / DEC) in (c - 1) * DEC < z <= c * DEC) /\
  (forall z, in_range 168 true z = true ->
     in_range 256 true (z / DEC) = true /\ in_range 256 true (- ((- z) / DEC)) = true) /\
  (forall x, 0 <= x -> let r := Z.sqrt x in 0 <= r /\ r * r <= x < (r + 1) * (r + 1)) /\
  (forall x, 0 <= x < U256 -> 0 <= Z.sqrt x < 2 ^ 128) /\
  (forall x y, (Z.min x y = x \/ Z.min x y = y) /\ Z.min x y <= x /\ Z.min x y <= y /\
               (Z.max x y = x \/ Z.max x y = y) /\ x <= Z.max x y /\ y <= Z.max x y).
Proof.
  split; [exact bi_abs_exact|]. split; [exact floor_exact|]. split; [exact ceil_exact|]. split; [exact floor_ceil_fit|].
  split; [exact isqrt_exact|]. split; [exact isqrt_fit|]. intros x y. lia.
Qed.
Print Assumptions builtin_math_exact.
Example math_nonvacuous :
  bi_eval [] BiAbs [VInt (- 2 ^ 255)] = Some None /\ bi_eval [] BiAbs [VInt (-5)] = Some (Some (VInt 5)) /\
  bi_eval [] BiFloor [VInt (-31337000000)] = Some (Some (VInt (-4))) /\ bi_eval [] BiCeil [VInt 31337000000] = Some (Some (VInt 4)) /\
  bi_eval [] BiIsqrt [VInt 101] = Some (Some (VInt 10)).
Proof. vm_compute. repeat split; reflexivity. Qed.

(* uint256_addmod / uint256_mulmod (no intermediate wrap; revert exactly for modulus 0), pow_mod256 *)
Theorem builtin_modular_exact :
  (forall tab a b c, 0 <= c ->
    (c = 0 -> bi_eval tab BiAddmod [VInt a; VInt b; VInt c] = Some None /\ bi_eval tab BiMulmod [VInt a; VInt b; VInt c] = Some None) /\
    (0 < c -> exists r1 r2, bi_eval tab BiAddmod [VInt a; VInt b; VInt c] = Some (Some (VInt r1)) /\
                            bi_eval tab BiMulmod [VInt a; VInt b; VInt c] = Some (Some (VInt r2)) /\
                            0 <= r1 < c /\ 0 <= r2 < c /\ (exists q, a + b = q * c + r1) /\ (exists q, a * b = q * c + r2))) /\
  (forall a b, 0 <= b -> Word256.powmod a b U256 = (a ^ b) mod 2 ^ 256).
Proof. split; [exact bi_addmulmod_exact|exact powmod_exact]. Qed.
Print Assumptions builtin_modular_exact.
Example modular_nonvacuous :
  bi_eval [] BiAddmod [VInt (2 ^ 256 - 1); VInt (2 ^ 256 - 1); VInt (2 ^ 256 - 2)] = Some (Some (VInt 2)) /\
  bi_eval [] BiMulmod [VInt 11; VInt 2; VInt 0] = Some None /\
  bi_eval [] BiPowMod [VInt 2; VInt 256] = Some (Some (VInt 0)).
Proof. vm_compute. repeat split; reflexivity. Qed.

(* unsafe_add/sub/mul/div: the representative of the mathematical result modulo 2^bits inside the type (so the exact
   result whenever that fits), unsafe_div by zero is 0; shift(x, n) is << for n >= 0 and >> for n < 0 *)
Theorem builtin_unsafe_exact :
  (forall op bits sg a b, 0 < bits ->
    in_range bits sg (unsafe_val op bits sg a b) = true /\
    (op = UDiv /\ b = 0 -> unsafe_val op bits sg a b = 0) /\
    (~ (op = UDiv /\ b = 0) ->
       (unsafe_val op bits sg a b - umath op a b) mod 2 ^ bits = 0 /\
       (in_range bits sg (umath op a b) = true -> unsafe_val op bits sg a b = umath op a b))) /\
  (forall sg x n, (0 <= n -> shift_builtin sg x n = shift_val true 256 sg x n) /\
                  (n < 0 -> shift_builtin sg x n = shift_val false 256 sg x (- n))).
Proof. split; [exact unsafe_exact|exact shift_builtin_spec]. Qed.
Print Assumptions builtin_unsafe_exact.
Example unsafe_nonvacuous :
  unsafe_val UAdd 8 true 127 127 = -2 /\ unsafe_val USub 8 false 0 1 = 255 /\ unsafe_val UMul 8 true 127 (-128) = -128 /\
  unsafe_val UDiv 8 true (-128) (-1) = -128 /\ unsafe_val UDiv 8 false 1 0 = 0.
Proof. vm_compute. repeat split; reflexivity. Qed.

(* uint2str: the decimal digits of the value (reading them back gives the value), never empty;
   slice: exactly the window or a revert; extract32: the 32-byte window read as a value of the output type, a revert when
   the window leaves the byte string or the word is not a value of the type; bytesM <-> number *)
Theorem builtin_bytes_exact :
  (forall z, 0 <= z < 10 ^ 80 -> dec_val (uint2str z) = z /\ Forall is_digit (uint2str z) /\ uint2str z <> []) /\
  (forall x i n r, slice_val x i n = Some r ->
     0 <= i /\ 0 <= n /\ i + n <= Z.of_nat (length x) /\ r = firstn (Z.to_nat n) (skipn (Z.to_nat i) x) /\ Z.of_nat (length r) = n) /\
  (forall x i n, slice_val x i n = None -> i < 0 \/ n < 0 \/ Z.of_nat (length x) < i + n) /\
  (forall tab o x i, Forall (fun b => 0 <= b < 256) x ->
     match bi_eval tab (BiExtract32 o) [VBytes x; VInt i] with
     | Some (Some (VInt v)) => 0 <= i /\ i + 32 <= Z.of_nat (length x) /\
                               extract_out o (be_val (firstn 32 (skipn (Z.to_nat i) x))) = Some v
     | Some None => i < 0 \/ Z.of_nat (length x) < i + 32 \/ (exists w, extract_word x i = Some w /\ extract_out o w = None)
     | _ => False
     end) /\
  (forall o w v, 0 <= w < U256 -> extract_out o w = Some v ->
     (v - w) mod U256 = 0 /\
     match o with
     | XB32 => v = w
     | XAddr => v = w /\ v < 2 ^ 160
     | XInt bits sg => in_range bits sg v = true /\ (if sg then - 2 ^ 255 <= v < 2 ^ 255 else v = w)
     end) /\
  (forall o w, extract_out o w = None ->
     match o with
     | XB32 => False
     | XAddr => 2 ^ 160 <= w
     | XInt bits sg => in_range bits sg (if sg && (2 ^ 255 <=? w) then w - U256 else w) = false
     end) /\
  (forall n z, length (be_bytes n z) = n /\ be_val (be_bytes n z) = z mod 256 ^ Z.of_nat n /\
               Forall (fun b => 0 <= b < 256) (be_bytes n z)).
Proof.
  split; [exact uint2str_exact|]. split; [exact slice_some|]. split; [exact slice_none|]. split; [exact bi_extract32_exact|].
  split; [exact extract_out_some|]. split; [exact extract_out_none|].
  intros n z. split; [apply be_bytes_length|]. split; [apply be_val_bytes|apply be_bytes_range].
Qed.
Print Assumptions builtin_bytes_exact.
Example bytes_nonvacuous :
  uint2str 420 = [52; 50; 48] /\ uint2str 0 = [48] /\
  bi_eval [] (BiExtract32 (XInt 128 true)) [VBytes (be_bytes 32 (2 ^ 256 - 1)); VInt 0] = Some (Some (VInt (-1))) /\
  bi_eval [] (BiExtract32 (XInt 128 true)) [VBytes (be_bytes 32 (2 ^ 127)); VInt 0] = Some None /\
  bi_eval [] (BiExtract32 XB32) [VBytes (be_bytes 32 7); VInt 1] = Some None /\
  bi_eval [] BiSliceB32 [VInt 258; VInt 30; VInt 2] = Some (Some (VBytes [1; 2])).
Proof. vm_compute. repeat split; reflexivity. Qed.
