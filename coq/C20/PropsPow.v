(* C20 (and C03) property theorems about the translated guards of vyper/codegen/arithmetic.py.
   GenPow.v is regenerated from /repo on every run; the Decimal/math initial guess is the parameter [g]. *)
From Coq Require Import ZArith Bool List Lia.
From Verif Require Import Base.PyInt C20.Loop C20.GenPow C20.PowGuards.
Open Scope Z_scope.

(* calculate_largest_power: for ANY guess in [0, 4000] the adjust loops terminate without tripping the
   `assert num_iterations < 10000` (the result is Ok: no raw AssertionError, no hang), and the result r is exact:
   a^p is representable in the type  <->  p <= r.  For a guess <= 1 the function returns 1 unchecked, so
   exactness needs that the guess is right there (2^V <= a^2); the harness checks this on the real guess. *)
Theorem largest_power_total : forall (a nb : Z) (sg : bool) (g : Z),
  (nb mod 8 = 0) -> (8 <= nb <= 256) -> (a <> -1) -> (a <> 0) -> (a <> 1) ->
  let V := nb - (if sg then 1 else 0) in
  - 2 ^ V <= a < 2 ^ V -> 0 <= g <= 4000 -> (sg = false -> 0 <= a) -> (g <= 1 -> 2 ^ V <= a * a) ->
  exists r, calculate_largest_power a nb sg g = Ok r /\
            forall p, 0 <= p -> (fits sg V (a ^ p) <-> p <= r).
Proof. intros. eapply largest_power_ok; eassumption. Qed.
Print Assumptions largest_power_total.

(* calculate_largest_base: for any guess within 4000 of the true root R the loops terminate (Ok) and the
   result is the exact interval of bases whose b-th power is representable. *)
Theorem largest_base_total : forall (b nb : Z) (sg : bool) (g R : Z),
  (nb mod 8 = 0) -> (8 <= nb <= 256) ->
  let V := nb - (if sg then 1 else 0) in
  2 <= b <= V -> (0 <= R /\ R ^ b < 2 ^ V <= (R + 1) ^ b) -> (0 <= g /\ R - 4000 <= g <= R + 4000) ->
  exists lo hi, calculate_largest_base b nb sg g = Ok (lo, hi) /\ hi = R /\
                forall x, (sg = false -> 0 <= x) -> (fits sg V (x ^ b) <-> lo <= x <= hi).
Proof.
  intros b nb sg g R Hm Hn V Hb HR Hg.
  destruct (largest_base_ok b nb sg g R Hm Hn Hb HR Hg) as (lo & hi & E & S).
  pose proof (largest_base_ok b nb sg g R Hm Hn Hb HR Hg) as _.
  exists lo, hi. split; [exact E |]. split; [| exact S].
  (* hi = R: both R and hi satisfy the spec at x = hi, x = R *)
  destruct HR as (HR0 & HRlo & HRhi).
  assert (HV : 7 <= V <= 256) by (subst V; destruct sg; lia).
  assert (FR : fits sg V (R ^ b)).
  { assert (0 <= R ^ b) by (apply Z.pow_nonneg; lia). unfold fits. destruct sg; lia. }
  assert (R <= hi) by (apply S in FR; [lia | intros; lia]).
  destruct (Z.eq_dec hi R) as [|N]; [assumption | exfalso].
  assert (Fh : fits sg V (hi ^ b)) by (apply S; [intros; lia | ]; apply S in FR; [lia | intros; lia]).
  assert ((R + 1) ^ b <= hi ^ b) by (apply Z.pow_le_mono_l; lia).
  unfold fits in Fh. destruct sg; lia.
Qed.
Print Assumptions largest_base_total.

(* non-vacuity *)
Example ex_power : calculate_largest_power (-2) 8 true 7 = Ok 7.
Proof. vm_compute. reflexivity. Qed.
Example ex_power_bad_guess : calculate_largest_power 10 256 false 120 = Ok 77.
Proof. vm_compute. reflexivity. Qed.
Example ex_base : calculate_largest_base 3 8 true 6 = Ok (-5, 5).
Proof. vm_compute. reflexivity. Qed.
