(* C20 model: vyper/codegen/jumptable_utils.py  _image_of / find_magic_for / _mk_buckets /
   _dense_jumptable_info / generate_dense_jumptable_info  on method ids (the keccak step is outside).
   Hand model (H-tie: differential against the real functions each run).  No proofs here. *)
From Coq Require Import ZArith List Bool.
Import ListNotations.
Open Scope Z_scope.

Definition BITS_MAGIC := 24.

Definition image_of (xs : list Z) (magic : Z) : list Z :=
  map (fun x => Z.shiftr (x * magic) BITS_MAGIC mod Z.of_nat (length xs)) xs.

Fixpoint distinct (l : list Z) : bool :=
  match l with [] => true | x :: r => negb (existsb (Z.eqb x) r) && distinct r end.

(* for m in range(2**16): first m whose image has no repetition; None = _FindMagicFailure *)
Fixpoint find_magic_from (fuel : nat) (m : Z) (xs : list Z) : option Z :=
  match fuel with
  | O => None
  | S f => if distinct (image_of xs m) then Some m else find_magic_from f (m + 1) xs
  end.
Definition find_magic_for (xs : list Z) : option Z := find_magic_from (Z.to_nat 65536) 0 xs.

(* dict with insertion order: bucket id -> ids (in order) *)
Fixpoint bucket_add (t x : Z) (bs : list (Z * list Z)) : list (Z * list Z) :=
  match bs with
  | [] => [(t, [x])]
  | (k, l) :: r => if k =? t then (k, l ++ [x]) :: r else (k, l) :: bucket_add t x r
  end.
Definition mk_buckets (ids : list Z) (n : Z) : list (Z * list Z) :=
  fold_left (fun bs x => bucket_add (x mod n) x bs) ids [].

Inductive dres := DOk (sol : list (Z * Z * list Z)) | DEmpty | DNoMagic.

Fixpoint magics (bs : list (Z * list Z)) : option (list (Z * Z * list Z)) :=
  match bs with
  | [] => Some []
  | (k, l) :: r =>
      match find_magic_for l with
      | None => None
      | Some m => match magics r with Some s => Some ((k, m, l) :: s) | None => None end
      end
  end.

Definition dense_info (ids : list Z) (n : Z) : dres :=
  let bs := mk_buckets ids n in
  if negb (Z.of_nat (length bs) =? n) then DEmpty
  else match magics bs with Some s => DOk s | None => DNoMagic end.

Inductive gres := GRet (r : option (Z * list (Z * Z * list Z))) | GRuntimeError | GFuel.

(* the while loop of generate_dense_jumptable_info *)
Fixpoint gen_loop (fuel : nat) (ids : list Z) (n_buckets : Z) (ret : option (Z * list (Z * Z * list Z)))
         (tried : bool) : gres :=
  match fuel with
  | O => GFuel
  | S f =>
      if n_buckets <=? 0 then GRet ret
      else match dense_info ids n_buckets with
           | DOk s => gen_loop f ids (n_buckets - 1) (Some (n_buckets, s)) tried
           | DEmpty => gen_loop f ids (n_buckets - 1) ret tried
           | DNoMagic =>
               match ret with
               | Some _ => GRet ret
               | None => if tried then GRuntimeError
                         else gen_loop f ids (Z.of_nat (length ids)) ret true
               end
           end
  end.

Definition generate_dense (ids : list Z) : gres :=
  let n := Z.of_nat (length ids) in
  gen_loop (2 * length ids + 4) ids (n / 5 + 1) None false.

(* compact result for the differential: [-1] error, [-2] fuel, [0] None, or n_buckets :: magics (dict order) *)
Definition show (g : gres) : list Z :=
  match g with
  | GRuntimeError => [-1]
  | GFuel => [-2]
  | GRet None => [0]
  | GRet (Some (n, s)) => n :: flat_map (fun e => [fst (fst e); snd (fst e)]) s
  end.
