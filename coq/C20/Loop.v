(* while-loop combinator for py2coq-translated code (C20).  Out of fuel = Err OutOfFuel (never a default value). *)
From Coq Require Import ZArith.
From Verif Require Import Base.PyInt.
Open Scope Z_scope.

Fixpoint while_loop {S : Type} (fuel : nat) (cond : S -> res bool) (body : S -> res S) (s : S) : res S :=
  match fuel with
  | O => Err OutOfFuel
  | S f =>
      c <- cond s ;;
      if c then (s' <- body s ;; while_loop f cond body s') else Ok s
  end.

(* the loops translated here assert `num_iterations < 10000`, so 10001 iterations of fuel are never exhausted
   before the assert fires: the fuelled model is exact for them *)
Definition LOOP_FUEL : nat := Z.to_nat 10001.
