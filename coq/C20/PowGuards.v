(* C20 / C03 guards: calculate_largest_power / calculate_largest_base (vyper/codegen/arithmetic.py), translated by
   py2coq into C20/GenPow.v with the Decimal/math initial guess abstracted as the parameter [guess].
   Theorems: for ANY guess in a stated window the two adjust loops terminate without tripping
   `assert num_iterations < 10000` (no raw AssertionError, no hang), and the result is the exact extremal value. *)
From Coq Require Import ZArith Bool List Lia.
From Verif Require Import Base.PyInt C20.Loop C20.GenPow.
Open Scope Z_scope.

(* ---------- generic loop rule *)
Lemma while_loop_ok {S : Type} (Inv : S -> Prop) (m : S -> nat) cond body :
  (forall s, Inv s -> exists c, cond s = Ok c /\
      (c = true -> exists s', body s = Ok s' /\ Inv s' /\ (m s' < m s)%nat)) ->
  forall fuel s, Inv s -> (m s < fuel)%nat ->
  exists s', while_loop fuel cond body s = Ok s' /\ Inv s' /\ cond s' = Ok false.
Proof.
  intros H. induction fuel; intros s Hi Hm; [lia |].
  destruct (H s Hi) as (c & Hc & Hstep). simpl. rewrite Hc. simpl.
  destruct c.
  - destruct (Hstep eq_refl) as (s' & Hb & Hi' & Hlt). rewrite Hb. simpl. apply IHfuel; [assumption | lia].
  - exists s. auto.
Qed.


Lemma py_pow_ok : forall a b, 0 <= b -> py_pow a b = Ok (a ^ b).
Proof. intros a b H. unfold py_pow. destruct (b <? 0) eqn:E; [lia | reflexivity]. Qed.

(* ---------- powers *)
Lemma pow_mono_exp : forall A n m, 2 <= A -> 0 <= n <= m -> A ^ n <= A ^ m.
Proof. intros. apply Z.pow_le_mono_r; lia. Qed.

Lemma pow_smono_exp : forall A n m, 2 <= A -> 0 <= n < m -> A ^ n < A ^ m.
Proof. intros. apply Z.pow_lt_mono_r; lia. Qed.

Lemma pow_ge_two_pow : forall A n, 2 <= A -> 0 <= n -> 2 ^ n <= A ^ n.
Proof. intros. apply Z.pow_le_mono_l. lia. Qed.

Lemma pow_step : forall A n, 2 <= A -> 0 <= n -> 2 * A ^ n <= A ^ (n + 1).
Proof. intros. replace (n + 1) with (Z.succ n) by lia. rewrite Z.pow_succ_r by lia. assert (0 < A ^ n) by (apply Z.pow_pos_nonneg; lia). nia. Qed.

Lemma pow_pos : forall A n, 2 <= A -> 0 <= n -> 0 < A ^ n.
Proof. intros. apply Z.pow_pos_nonneg; lia. Qed.

Lemma pow_opp : forall A p, 0 <= p -> (- A) ^ p = if Z.even p then A ^ p else - A ^ p.
Proof.
  intros A p Hp. destruct (Z.even p) eqn:E.
  - apply Z.pow_opp_even. now apply Z.even_spec.
  - apply Z.pow_opp_odd. apply Z.odd_spec. rewrite <- Z.negb_even, E. reflexivity.
Qed.

(* ---------- specification *)
Definition fits (signed : bool) (V x : Z) : Prop :=
  if signed then - 2 ^ V <= x < 2 ^ V else 0 <= x < 2 ^ V.

(* core fact established by the two loops *)
Definition bracket (A V b : Z) : Prop := 0 <= b /\ A ^ b < 2 ^ V <= A ^ (b + 1).

Lemma bracket_spec_pos : forall A V b sg, 2 <= A -> 0 <= V -> bracket A V b ->
  forall p, 0 <= p -> (fits sg V (A ^ p) <-> p <= b).
Proof.
  intros A V b sg HA HV (Hb & Hlo & Hhi) p Hp.
  assert (0 < A ^ p) by (apply pow_pos; lia).
  assert (0 < 2 ^ V) by (apply Z.pow_pos_nonneg; lia).
  split.
  - intro F. destruct (Z_le_gt_dec p b) as [|G]; [assumption | exfalso].
    assert (A ^ (b + 1) <= A ^ p) by (apply pow_mono_exp; lia).
    unfold fits in F. destruct sg; lia.
  - intro L. assert (A ^ p <= A ^ b) by (apply pow_mono_exp; lia).
    unfold fits. destruct sg; lia.
Qed.

Lemma bracket_spec_neg : forall A V b, 2 <= A -> 0 <= V -> bracket A V b ->
  let r := if ((- A) ^ (b + 1) =? - 2 ^ V) then b + 1 else b in
  forall p, 0 <= p -> (fits true V ((- A) ^ p) <-> p <= r).
Proof.
  intros A V b HA HV (Hb & Hlo & Hhi) r p Hp. subst r.
  assert (P2 : 0 < 2 ^ V) by (apply Z.pow_pos_nonneg; lia).
  assert (Pp : 0 < A ^ p) by (apply pow_pos; lia).
  unfold fits. rewrite (pow_opp A p Hp).
  rewrite (pow_opp A (b + 1)) by lia.
  destruct (Z_le_gt_dec p b) as [Lpb | Gpb].
  - (* small exponents always fit *)
    assert (A ^ p <= A ^ b) by (apply pow_mono_exp; lia).
    split; [intros _ | intros _].
    + destruct (_ =? _); lia.
    + destruct (Z.even p); lia.
  - assert (Hge : A ^ (b + 1) <= A ^ p) by (apply pow_mono_exp; lia).
    destruct (Z.eq_dec p (b + 1)) as [-> | Np].
    + (* p = b+1 *)
      destruct (Z.even (b + 1)) eqn:Ev.
      * assert (E : (A ^ (b + 1) =? - 2 ^ V) = false) by (apply Z.eqb_neq; lia). rewrite E. split; lia.
      * destruct (- A ^ (b + 1) =? - 2 ^ V) eqn:E.
        -- apply Z.eqb_eq in E. split; lia.
        -- apply Z.eqb_neq in E. split; lia.
    + (* p >= b+2 : magnitude at least 2 * 2^V *)
      assert (Hbig : 2 * A ^ (b + 1) <= A ^ p).
      { transitivity (A ^ (b + 1 + 1)); [apply pow_step; lia | apply pow_mono_exp; lia]. }
      split.
      * intro F. exfalso. destruct (Z.even p); lia.
      * intro L. exfalso. destruct (_ =? _); lia.
Qed.

(* ---------- calculate_largest_power *)
Section Power.
  Variables (a nb : Z) (sg : bool) (g : Z).
  Let V := nb - (if sg then 1 else 0).
  Let A := Z.abs a.
  Hypothesis Hmod : nb mod 8 = 0.
  Hypothesis Hnb : 8 <= nb <= 256.
  Hypothesis Ha1 : a <> -1.
  Hypothesis Ha0 : a <> 0.
  Hypothesis Ha2 : a <> 1.
  Hypothesis Harange : - 2 ^ V <= a < 2 ^ V.
  Hypothesis Hg : 0 <= g <= 4000.

  Lemma V_range : 7 <= V <= 256.
  Proof. subst V. destruct sg; lia. Qed.

  Lemma A_ge2 : 2 <= A.
  Proof. subst A. lia. Qed.

  (* the two loops, started from any guess b0 >= 0, end in the bracket *)
  Lemma loops_bracket : forall b0, 0 <= b0 <= 4000 ->
    forall (K : Z * Z -> res Z),
    exists b n, bracket A V b /\
      ('(b', n') <- while_loop LOOP_FUEL
          (fun st => let '(b, num_iterations) := st in
             v5 <- py_pow A (b + 1) ;; Ok (v5 <? 2 ^ V))
          (fun st => let '(b, num_iterations) := st in
             if num_iterations + 1 <? 10000 then Ok (b + 1, num_iterations + 1) else Err AssertFail)
          (b0, 0) ;;
       '(b'', n'') <- while_loop LOOP_FUEL
          (fun st => let '(b, num_iterations) := st in
             v8 <- py_pow A b ;; Ok (v8 >=? 2 ^ V))
          (fun st => let '(b, num_iterations) := st in
             if num_iterations + 1 <? 10000 then Ok (b - 1, num_iterations + 1) else Err AssertFail)
          (b', n') ;;
       K (b'', n'')) = K (b, n).
  Proof.
    intros b0 Hb0 K.
    pose proof V_range as HV. pose proof A_ge2 as HA.
    (* loop 1 *)
    set (Inv1 := fun st : Z * Z => let '(b, n) := st in
                   b0 <= b /\ n = b - b0 /\ (b = b0 \/ A ^ b < 2 ^ V)).
    set (m1 := fun st : Z * Z => Z.to_nat (V + 1 - fst st)).
    match goal with |- context [while_loop LOOP_FUEL ?c ?bd (b0, 0)] =>
      destruct (while_loop_ok Inv1 m1 c bd) with (fuel := LOOP_FUEL) (s := (b0, 0)) as ((b1, n1) & E1 & I1 & C1)
    end.
    { intros (b, n) (Hb & Hn & Hlt).
      rewrite !py_pow_ok by lia.
      eexists. split; [reflexivity |]. intro Hc. apply Z.ltb_lt in Hc.
      assert (b + 1 < V).
      { destruct (Z_lt_ge_dec (b + 1) V); [assumption | exfalso].
        assert (2 ^ V <= 2 ^ (b + 1)) by (apply Z.pow_le_mono_r; lia).
        assert (2 ^ (b + 1) <= A ^ (b + 1)) by (apply pow_ge_two_pow; lia). lia. }
      cbv zeta. assert (Hn' : (n + 1 <? 10000) = true) by (apply Z.ltb_lt; lia). rewrite Hn'.
      eexists. split; [reflexivity |]. split.
      - unfold Inv1. repeat split; lia.
      - unfold m1. simpl. lia. }
    { unfold Inv1. lia. }
    { unfold m1, LOOP_FUEL. simpl fst. lia. }
    rewrite E1. cbn [bind].
    unfold Inv1 in I1. destruct I1 as (Hb1 & Hn1 & Hlt1).
    assert (Hb1V : b1 <= Z.max b0 V).
    { destruct Hlt1 as [-> | Hl]; [lia |].
      destruct (Z_le_gt_dec b1 V); [lia | exfalso].
      assert (2 ^ V <= 2 ^ b1) by (apply Z.pow_le_mono_r; lia).
      assert (2 ^ b1 <= A ^ b1) by (apply pow_ge_two_pow; lia). lia. }
    rewrite !py_pow_ok in C1 by lia. injection C1 as C1. apply Z.ltb_ge in C1.
    (* loop 2 *)
    set (Inv2 := fun st : Z * Z => let '(b, n) := st in
                   0 <= b <= b1 /\ n = n1 + (b1 - b) /\ 2 ^ V <= A ^ (b + 1)).
    set (m2 := fun st : Z * Z => Z.to_nat (fst st)).
    match goal with |- context [while_loop LOOP_FUEL ?c ?bd (b1, n1)] =>
      destruct (while_loop_ok Inv2 m2 c bd) with (fuel := LOOP_FUEL) (s := (b1, n1)) as ((b2, n2) & E2 & I2 & C2)
    end.
    { intros (b, n) (Hb & Hn & Hge).
      rewrite !py_pow_ok by lia.
      eexists. split; [reflexivity |]. intro Hc. apply Z.geb_le in Hc.
      assert (b <> 0).
      { intros ->. rewrite Z.pow_0_r in Hc. assert (H21 : 2 ^ 1 <= 2 ^ V) by (apply Z.pow_le_mono_r; lia). rewrite Z.pow_1_r in H21. lia. }
      cbv zeta. assert (Hn' : (n + 1 <? 10000) = true) by (apply Z.ltb_lt; lia). rewrite Hn'.
      eexists. split; [reflexivity |]. split.
      - unfold Inv2. replace (b - 1 + 1) with b by lia. repeat split; lia.
      - unfold m2. simpl. lia. }
    { unfold Inv2. repeat split; lia. }
    { unfold m2, LOOP_FUEL. simpl fst. lia. }
    rewrite E2. cbn [bind].
    unfold Inv2 in I2. destruct I2 as (Hb2 & Hn2 & Hge2).
    rewrite !py_pow_ok in C2 by lia. injection C2 as C2.
    assert (A ^ b2 < 2 ^ V).
    { destruct (A ^ b2 >=? 2 ^ V) eqn:E; [discriminate |]. rewrite Z.geb_leb in E. apply Z.leb_gt in E. lia. }
    exists b2, n2. split; [| reflexivity].
    unfold bracket. lia.
  Qed.

  Definition power_result_spec (r : Z) : Prop := forall p, 0 <= p -> (fits sg V (a ^ p) <-> p <= r).

  Lemma final_spec : forall b, bracket A V b -> (sg = false -> 0 <= a) ->
    power_result_spec (if (a <? 0) && ((- A) ^ (b + 1) =? - 2 ^ V) then b + 1 else b).
  Proof.
    intros b Hbr Hs. pose proof V_range. pose proof A_ge2.
    unfold power_result_spec. destruct (a <? 0) eqn:En.
    - apply Z.ltb_lt in En. assert (sg = true) by (destruct sg; [reflexivity | specialize (Hs eq_refl); lia]). subst sg.
      replace a with (- A) by (subst A; lia). cbn [andb]. apply bracket_spec_neg; try lia. assumption.
    - apply Z.ltb_ge in En. replace a with A by (subst A; lia). cbn [andb].
      apply bracket_spec_pos; try lia. assumption.
  Qed.

  Theorem largest_power_ok : (sg = false -> 0 <= a) -> (g <= 1 -> 2 ^ V <= a * a) ->
    exists r, calculate_largest_power a nb sg g = Ok r /\ power_result_spec r.
  Proof.
    intros Hs Hg1. pose proof V_range as HV. pose proof A_ge2 as HA.
    assert (P2 : 0 < 2 ^ V) by (apply Z.pow_pos_nonneg; lia).
    unfold calculate_largest_power. unfold py_mod. simpl (8 =? 0). cbv iota. rewrite Hmod. cbn [bind z2b Z.eqb negb].
    assert (E1 : ((a =? -1) || (a =? 0) || (a =? 1)) = false).
    { rewrite !orb_false_iff. repeat split; apply Z.eqb_neq; assumption. }
    rewrite E1. fold V. cbv zeta. fold V.
    rewrite !(py_pow_ok 2 V) by lia. cbn [bind].
    assert (E2 : (a >=? 2 ^ V) = false) by (rewrite Z.geb_leb; apply Z.leb_gt; lia). rewrite E2.
    assert (E3 : (a <? - 2 ^ V) = false) by (apply Z.ltb_ge; lia). rewrite E3.
    fold A.
    destruct (g <=? 1) eqn:Eg.
    - (* early return 1 *)
      apply Z.leb_le in Eg. specialize (Hg1 Eg). exists 1. split; [reflexivity |].
      assert (HAA : 2 ^ V <= A ^ 2) by (replace (A ^ 2) with (A * A) by ring; subst A; lia).
      destruct (Z.eq_dec A (2 ^ V)) as [Emax | Nmax].
      + (* a = -2^V *)
        assert (Hb : bracket A V 0).
        { unfold bracket. rewrite Z.pow_0_r, Z.pow_1_r. assert (H21 : 2 ^ 1 <= 2 ^ V) by (apply Z.pow_le_mono_r; lia). rewrite Z.pow_1_r in H21. lia. }
        pose proof (final_spec 0 Hb Hs) as F. simpl (0 + 1) in F. rewrite Z.pow_1_r in F.
        assert (En : (a <? 0) = true) by (apply Z.ltb_lt; subst A; lia).
        assert (Ee : (- A =? - 2 ^ V) = true) by (apply Z.eqb_eq; lia).
        rewrite En, Ee in F. exact F.
      + assert (Hb : bracket A V 1).
        { unfold bracket. simpl (1 + 1). rewrite Z.pow_1_r. subst A. lia. }
        pose proof (final_spec 1 Hb Hs) as F. simpl (1 + 1) in F.
        assert (Ee : ((- A) ^ 2 =? - 2 ^ V) = false).
        { apply Z.eqb_neq. replace ((- A) ^ 2) with (A * A) by ring. nia. }
        rewrite Ee, andb_false_r in F. exact F.
    - apply Z.leb_gt in Eg.
      set (K := fun st : Z * Z => let '(b, num_iterations) := st in
         sc <- (if a <? 0 then v10 <- py_pow (- A) (b + 1) ;; Ok (v10 =? - 2 ^ V) else Ok false) ;;
         if sc then Ok (b + 1) else Ok b).
      destruct (loops_bracket g ltac:(lia) K) as (b & n & Hbr & Eq).
      exists (if (a <? 0) && ((- A) ^ (b + 1) =? - 2 ^ V) then b + 1 else b).
      split; [| now apply final_spec].
      etransitivity; [| etransitivity; [exact Eq |]].
      + timeout 30 reflexivity.
      + unfold K. destruct Hbr as (Hb0 & _). rewrite !py_pow_ok by lia. cbn [bind].
        destruct (a <? 0); cbn [bind andb]; [destruct ((- A) ^ (b + 1) =? - 2 ^ V); reflexivity | reflexivity].
  Qed.
End Power.

(* ---------- calculate_largest_base *)
Lemma pow_mono_base : forall x y b, 0 <= x <= y -> 0 <= b -> x ^ b <= y ^ b.
Proof. intros. apply Z.pow_le_mono_l. lia. Qed.

Lemma pow_smono_base : forall x y b, 0 <= x < y -> 0 < b -> x ^ b < y ^ b.
Proof. intros. apply Z.pow_lt_mono_l; lia. Qed.

(* 2^V is not a perfect square for the value widths of signed types (V = 8k-1) *)
Definition odd_widths : list Z := map (fun k => 8 * k - 1) (map Z.of_nat (seq 1 32)).

Lemma odd_width_not_square : forall V, In V odd_widths -> forall s, s * s <> 2 ^ V.
Proof.
  intros V HV s E.
  assert (Hs : Z.sqrt (2 ^ V) * Z.sqrt (2 ^ V) = 2 ^ V).
  { assert (Ea : Z.abs s * Z.abs s = 2 ^ V) by (rewrite Z.abs_square; exact E).
    rewrite <- Ea at 1 2. rewrite Z.sqrt_square by lia. exact Ea. }
  revert Hs. clear E s.
  unfold odd_widths in HV. cbv [seq map] in HV. simpl Z.of_nat in HV.
  repeat (destruct HV as [<- | HV]; [vm_compute; discriminate |]). destruct HV.
Qed.

Section Base.
  Variables (b nb : Z) (sg : bool) (g R : Z).
  Let V := nb - (if sg then 1 else 0).
  Hypothesis Hmod : nb mod 8 = 0.
  Hypothesis Hnb : 8 <= nb <= 256.
  Hypothesis Hb : 2 <= b <= V.
  Hypothesis HR : 0 <= R /\ R ^ b < 2 ^ V <= (R + 1) ^ b.     (* R = floor of the b-th root of 2^V - 1 *)
  Hypothesis Hg : 0 <= g /\ R - 4000 <= g <= R + 4000.        (* any guess within 4000 of the root *)

  Lemma VB_range : 7 <= V <= 256.
  Proof. subst V. destruct sg; lia. Qed.

  Lemma below_root : forall x, 0 <= x -> (x ^ b < 2 ^ V <-> x <= R).
  Proof.
    intros x Hx. pose proof HR as (HR0 & HRlo & HRhi). split.
    - intro L. destruct (Z_le_gt_dec x R); [assumption | exfalso].
      assert ((R + 1) ^ b <= x ^ b) by (apply pow_mono_base; lia). lia.
    - intro L. assert (x ^ b <= R ^ b) by (apply pow_mono_base; lia). lia.
  Qed.

  Lemma base_loops : forall (K : Z * Z -> res (Z * Z)),
    exists n,
      ('(a', n') <- while_loop LOOP_FUEL
          (fun st => let '(a, num_iterations) := st in
             v <- py_pow (a + 1) b ;; Ok (v <? 2 ^ V))
          (fun st => let '(a, num_iterations) := st in
             if num_iterations + 1 <? 10000 then Ok (a + 1, num_iterations + 1) else Err AssertFail)
          (g, 0) ;;
       '(a'', n'') <- while_loop LOOP_FUEL
          (fun st => let '(a, num_iterations) := st in
             v <- py_pow a b ;; Ok (v >=? 2 ^ V))
          (fun st => let '(a, num_iterations) := st in
             if num_iterations + 1 <? 10000 then Ok (a - 1, num_iterations + 1) else Err AssertFail)
          (a', n') ;;
       K (a'', n'')) = K (R, n).
  Proof.
    intro K. pose proof VB_range as HV. pose proof HR as (HR0 & HRlo & HRhi). pose proof Hg as (Hg0 & Hgw).
    set (Inv1 := fun st : Z * Z => let '(a, n) := st in g <= a /\ n = a - g /\ (a = g \/ a <= R)).
    set (m1 := fun st : Z * Z => Z.to_nat (Z.max g R + 1 - fst st)).
    match goal with |- context [while_loop LOOP_FUEL ?c ?bd (g, 0)] =>
      destruct (while_loop_ok Inv1 m1 c bd) with (fuel := LOOP_FUEL) (s := (g, 0)) as ((a1, n1) & E1 & I1 & C1)
    end.
    { intros (a, n) (Ha & Hn & Hlt).
      rewrite !py_pow_ok by lia.
      eexists. split; [reflexivity |]. intro Hc. apply Z.ltb_lt in Hc.
      apply below_root in Hc; [| lia].
      assert (Hn' : (n + 1 <? 10000) = true) by (apply Z.ltb_lt; lia). rewrite Hn'.
      eexists. split; [reflexivity |]. split.
      - unfold Inv1. repeat split; lia.
      - unfold m1. simpl fst. lia. }
    { unfold Inv1. lia. }
    { unfold m1, LOOP_FUEL. simpl fst. lia. }
    rewrite E1. cbn [bind].
    unfold Inv1 in I1. destruct I1 as (Ha1 & Hn1 & Hlt1).
    rewrite !py_pow_ok in C1 by lia. injection C1 as C1. apply Z.ltb_ge in C1.
    assert (Ha1R : R <= a1).
    { destruct (Z_le_gt_dec R a1); [assumption | exfalso].
      assert ((a1 + 1) ^ b <= R ^ b) by (apply pow_mono_base; lia). lia. }
    set (Inv2 := fun st : Z * Z => let '(a, n) := st in R <= a <= a1 /\ n = n1 + (a1 - a)).
    set (m2 := fun st : Z * Z => Z.to_nat (fst st - R)).
    match goal with |- context [while_loop LOOP_FUEL ?c ?bd (a1, n1)] =>
      destruct (while_loop_ok Inv2 m2 c bd) with (fuel := LOOP_FUEL) (s := (a1, n1)) as ((a2, n2) & E2 & I2 & C2)
    end.
    { intros (a, n) (Ha & Hn).
      rewrite !py_pow_ok by lia.
      eexists. split; [reflexivity |]. intro Hc. apply Z.geb_le in Hc.
      assert (a <> R) by (intros ->; lia).
      assert (Hn' : (n + 1 <? 10000) = true) by (apply Z.ltb_lt; lia). rewrite Hn'.
      eexists. split; [reflexivity |]. split.
      - unfold Inv2. repeat split; lia.
      - unfold m2. simpl fst. lia. }
    { unfold Inv2. repeat split; lia. }
    { unfold m2, LOOP_FUEL. simpl fst. lia. }
    rewrite E2. cbn [bind].
    unfold Inv2 in I2. destruct I2 as (Ha2 & Hn2).
    rewrite !py_pow_ok in C2 by lia. injection C2 as C2.
    assert (a2 ^ b < 2 ^ V).
    { destruct (a2 ^ b >=? 2 ^ V) eqn:E; [discriminate |]. rewrite Z.geb_leb in E. apply Z.leb_gt in E. lia. }
    assert (a2 = R) by (apply below_root in H; lia). subst a2.
    exists n2. reflexivity.
  Qed.

  Definition base_result_spec (lo hi : Z) : Prop :=
    forall x, (sg = false -> 0 <= x) -> (fits sg V (x ^ b) <-> lo <= x <= hi).

  Lemma base_final_spec :
    base_result_spec (if sg then (if (R + 1) ^ b =? 2 ^ V then - (R + 1) else - R) else 0) R.
  Proof.
    pose proof VB_range as HV. pose proof HR as (HR0 & HRlo & HRhi).
    assert (P2 : 0 < 2 ^ V) by (apply Z.pow_pos_nonneg; lia).
    intros x Hx. destruct (Z_le_gt_dec 0 x) as [Px | Nx].
    - (* x >= 0 *)
      assert (0 <= x ^ b) by (apply Z.pow_nonneg; lia).
      pose proof (below_root x Px) as BR.
      unfold fits. destruct sg; [destruct (_ =? _) |]; split; intro F; lia.
    - (* x < 0: signed only *)
      set (y := - x). assert (Hy : 0 < y) by (subst y; lia).
      pose proof (below_root y ltac:(lia)) as BR.
      assert (Py : 0 < y ^ b) by (apply Z.pow_pos_nonneg; lia).
      assert (HVin : sg = true -> In V odd_widths).
      { intro Es. subst V. rewrite Es. unfold odd_widths.
        assert (exists k, (1 <= k <= 32)%nat /\ nb = 8 * Z.of_nat k) as (k & Hk & ->).
        { exists (Z.to_nat (nb / 8)). assert (nb = 8 * (nb / 8)) by (apply Z_div_exact_2; lia). lia. }
        apply in_map_iff. exists (Z.of_nat k). split; [lia |]. apply in_map. apply in_seq. lia. }
      replace x with (- y) by (subst y; lia).
      rewrite (pow_opp y b) by lia.
      destruct sg; [| specialize (Hx eq_refl); lia]. specialize (HVin eq_refl).
      unfold fits. destruct (Z.even b) eqn:Ev.
      + (* even exponent: no edge, because 2^V is not a square *)
        assert (Ne : ((R + 1) ^ b =? 2 ^ V) = false).
        { apply Z.eqb_neq. intro E.
          apply Z.even_spec in Ev. destruct Ev as (c & Ec).
          apply (odd_width_not_square V HVin ((R + 1) ^ c)).
          rewrite <- E. rewrite <- Z.pow_add_r by lia. f_equal. lia. }
        rewrite Ne. split; intro F; lia.
      + destruct ((R + 1) ^ b =? 2 ^ V) eqn:Ee.
        * apply Z.eqb_eq in Ee. split; intro F.
          -- destruct (Z_le_gt_dec y (R + 1)); [lia | exfalso].
             assert ((R + 1) ^ b < y ^ b) by (apply pow_smono_base; lia). lia.
          -- assert (y ^ b <= (R + 1) ^ b) by (apply pow_mono_base; lia). lia.
        * apply Z.eqb_neq in Ee. split; intro F.
          -- destruct (Z_le_gt_dec y R); [lia | exfalso].
             assert ((R + 1) ^ b <= y ^ b) by (apply pow_mono_base; lia). lia.
          -- lia.
  Qed.

  Theorem largest_base_ok :
    exists lo hi, calculate_largest_base b nb sg g = Ok (lo, hi) /\ base_result_spec lo hi.
  Proof.
    pose proof VB_range as HV. pose proof HR as (HR0 & HRlo & HRhi).
    unfold calculate_largest_base. unfold py_mod. simpl (8 =? 0). cbv iota. rewrite Hmod. cbn [bind z2b Z.eqb negb].
    assert (E1 : ((b =? 0) || (b =? 1)) = false) by (rewrite orb_false_iff; split; apply Z.eqb_neq; lia).
    rewrite E1. assert (E2 : (b <? 0) = false) by (apply Z.ltb_ge; lia). rewrite E2.
    fold V. cbv zeta. fold V.
    assert (E3 : (b >? V) = false) by (rewrite Z.gtb_ltb; apply Z.ltb_ge; lia). rewrite E3.
    rewrite !(py_pow_ok 2 V) by lia. cbn [bind].
    set (K := fun st : Z * Z => let '(a, num_iterations) := st in
       if negb sg then Ok (0, a) else
       v20 <- py_pow (a + 1) b ;; (if v20 =? 2 ^ V then Ok (- (a + 1), a) else Ok (- a, a))).
    destruct (base_loops K) as (n & Eq).
    exists (if sg then (if (R + 1) ^ b =? 2 ^ V then - (R + 1) else - R) else 0), R.
    split; [| apply base_final_spec].
    etransitivity; [| etransitivity; [exact Eq |]].
    - timeout 30 reflexivity.
    - unfold K. rewrite !py_pow_ok by lia. cbn [bind].
      destruct sg; cbn [negb]; [destruct ((R + 1) ^ b =? 2 ^ V); reflexivity | reflexivity].
  Qed.
End Base.
