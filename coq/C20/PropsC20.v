(* C20: what can be proved about "never an internal error": a refutation.  The dense selector-table builder
   raises a raw RuntimeError on a family of selector sets.  (PUSH totality is proved under C16: push_total.) *)
From Coq Require Import ZArith List Bool Lia.
From Verif Require Import C20.DenseTable.
Import ListNotations.
Open Scope Z_scope.

Definition witness : list Z := map (fun k => 0x10000000 + 60 * k) [0; 1; 2; 3; 4].

Lemma witness_fails : generate_dense witness = GRuntimeError.
Proof. vm_compute. reflexivity. Qed.

Definition valid_ids (ids : list Z) : Prop :=
  NoDup ids /\ Forall (fun x => 0 <= x < 2 ^ 32) ids.

(* there are 5 distinct 4-byte method ids for which generate_dense_jumptable_info ends in RuntimeError *)
Theorem dense_table_refuted : exists ids, valid_ids ids /\ generate_dense ids = GRuntimeError.
Proof.
  exists witness. split; [| exact witness_fails].
  split.
  - unfold witness. simpl. repeat constructor; simpl; intuition lia.
  - unfold witness. simpl. repeat constructor; lia.
Qed.
Print Assumptions dense_table_refuted.

(* the reason, for this family: every multiplier below 2^16 maps the five ids to at most two adjacent values *)
Lemma witness_no_magic : find_magic_for witness = None.
Proof. vm_compute. reflexivity. Qed.

(* sanity: an ordinary id set does get a table *)
Example ex_ok : exists r, generate_dense [0xa9059cbb; 0x70a08231; 0x095ea7b3; 0x18160ddd; 0x23b872dd; 0xdd62ed3e] = GRet (Some r).
Proof. eexists. vm_compute. reflexivity. Qed.
