(* C07: "a call carrying value to a non-payable entry point reverts before any effect of the function body".
   Property theorems about the guard templates of PayGuard.v (tied syntactically, on every run, to the IR the six real
   selector-section generators emit for every entry point: tools/vlib/c07_pay.py).  Proofs in PayGuardProofs.v. *)
From Coq Require Import ZArith List Bool Lia.
From Verif Require Import Base.Word256 C07.Jumptable C07.Dispatch C07.DispatchProofs C07.DenseProofs
                          C07.PayGuard C07.PayGuardProofs.
Import ListNotations.
Open Scope Z_scope.

(* the comparison used by the tie identifies the extracted arm with the template *)
Theorem C07_guard_tie_sound : forall kind payable mincds F arm,
  tie_arm kind payable mincds F arm = 1 -> arm = tpl_of kind payable mincds F.
Proof. exact tie_arm_sound. Qed.
Print Assumptions C07_guard_tie_sound.

(* for EVERY call value v <> 0 (0 < v < 2^256), whatever calldatasize / info word / method id are: the emitted arm of
   a non-payable entry point ends in a revert - in the dense dispatcher possibly in the fallback when the method id
   stored in the table is not the calldata's (no entry point was selected) - and never reaches SEnter / SEnterLabel *)
Theorem C07_nonpayable_refuses_any_value : forall e en,
  e_payable e = false -> 0 < v_value en < W ->
  run_arm (tpl_linear_legacy e) en = ARevert /\
  run_arm (tpl_sparse_legacy e) en = ARevert /\
  run_arm (tpl_venom e) en = ARevert /\
  run_arm (tpl_fallback false) en = ARevert /\
  (forall F, w_and 1 (v_info en) = 1 ->
             run_arm (tpl_dense F) en = AFallback \/ run_arm (tpl_dense F) en = ARevert).
Proof.
  intros e en Hp Hv. repeat split.
  - apply linear_legacy_refuses; [assumption|lia].
  - apply sparse_legacy_refuses; [assumption|lia|lia].
  - apply venom_refuses; [assumption|lia].
  - apply fallback_refuses; lia.
  - intros F Hb. apply dense_refuses; assumption.
Qed.
Print Assumptions C07_nonpayable_refuses_any_value.

(* dense: the non-payable bit is set in the info word packed for a non-payable entry (metadata = min_calldatasize | 1) *)
Theorem C07_dense_nonpayable_refuses_packed : forall F e en,
  1 <= F <= 26 -> 0 <= e_id e -> 0 <= e_target e < 2 ^ 16 ->
  4 <= e_mincds e -> (e_mincds e - 4) mod 32 = 0 -> e_mincds e < 2 ^ (8 * F) ->
  e_payable e = false -> v_info en = info_word F e -> 0 < v_value en < W ->
  run_arm (tpl_dense F) en = AFallback \/ run_arm (tpl_dense F) en = ARevert.
Proof. exact dense_refuses_packed. Qed.
Print Assumptions C07_dense_nonpayable_refuses_packed.

(* the templates ARE the entry checks of the dispatcher models of Dispatch.v (which equal spec_dispatch:
   C07_linear_dispatch_spec, C07_sparse_dispatch_spec, C07_dense_dispatch_spec) *)
Theorem C07_guard_templates_model : forall e fb cd value info mid,
  run_arm (tpl_linear_legacy e) (env_of cd value info mid) = of_outcome (checks_linear e cd value) /\
  run_arm (tpl_sparse_legacy e) (env_of cd value info mid) = of_outcome (checks_sparse e cd value) /\
  run_arm (tpl_venom e) (env_of cd value info mid) = of_outcome (checks_venom e cd value) /\
  (forall F, of_dense_outcome F fb value (run_arm (tpl_dense F) (env_of cd value info (calldata_method_id cd)))
             = Some (dense_tail F fb cd value info)) /\
  (forall p, run_arm (tpl_fallback p) (env_of cd value info mid) =
             match do_fallback (Some p) value with Default => AEnter | _ => ARevert end).
Proof.
  intros e fb cd value info mid. repeat split.
  - apply tpl_linear_legacy_model.
  - apply tpl_sparse_legacy_model.
  - apply tpl_venom_model.
  - intros F. apply tpl_dense_model.
  - intros p. apply tpl_fallback_model.
Qed.
Print Assumptions C07_guard_templates_model.

Theorem C07_dense_core_tail : forall t fb cd value,
  dense_core t fb cd value =
  match nth_z (dt_headers t) (w_mod (calldata_method_id cd) (dt_n t)) with
  | None => None
  | Some hdr =>
    match al_find (w_and 65535 (w_shr 8 hdr)) (dt_data t) with
    | None => None
    | Some infos =>
      match nth_z infos (w_mod (w_shr BITS_MAGIC (w_mul (w_shr 24 hdr) (calldata_method_id cd))) (w_and 255 hdr)) with
      | None => None
      | Some func_info => Some (dense_tail (dt_F t) fb cd value func_info)
      end
    end
  end.
Proof. exact dense_core_tail. Qed.
Print Assumptions C07_dense_core_tail.

(* the specification: a call selecting a non-payable entry with any non-zero value reverts *)
Theorem C07_spec_nonpayable_refuses : forall fns fb cd value e,
  find (selects cd) fns = Some e -> e_payable e = false -> value <> 0 -> spec_dispatch fns fb cd value = Revert.
Proof. exact spec_nonpayable_refuses. Qed.
Print Assumptions C07_spec_nonpayable_refuses.

(* non-vacuity: a non-payable entry (min_calldatasize 36, label 7, F = 1) called with 2 wei / 1 ether / 2^255 is refused
   by every template, with value 0 it is entered; and the theorem is about the emitted OPERATOR: the same dense arm with a
   bitwise `and` in place of `mul` lets every even value through (2 wei enters label 7) *)
Definition ex_e : entry := mkEntry 0xa9059cbb false 36 7.
Definition ex_env (v : Z) : genv := mkGenv v 36 (info_word 1 ex_e) 0xa9059cbb.
Example C07_pay_nonvacuous :
  e_payable ex_e = false /\ 0 < v_value (ex_env 2) < W /\ w_and 1 (v_info (ex_env 2)) = 1 /\
  map (fun v => run_arm (tpl_dense 1) (ex_env v)) [0; 1; 2; 10 ^ 18; 2 ^ 255]
    = [AEnterAt 7; ARevert; ARevert; ARevert; ARevert] /\
  map (fun v => run_arm (tpl_sparse_legacy ex_e) (ex_env v)) [0; 1; 2; 10 ^ 18; 2 ^ 255]
    = [AEnter; ARevert; ARevert; ARevert; ARevert] /\
  map (fun v => run_arm (tpl_linear_legacy ex_e) (ex_env v)) [0; 2] = [AEnter; ARevert] /\
  map (fun v => run_arm (tpl_venom ex_e) (ex_env v)) [0; 2] = [AEnter; ARevert] /\
  map (fun v => run_arm (tpl_dense_bitand 1) (ex_env v)) [0; 1; 2; 10 ^ 18; 2 ^ 255]
    = [AEnterAt 7; ARevert; AEnterAt 7; AEnterAt 7; AEnterAt 7].
Proof. repeat split; vm_compute; reflexivity. Qed.
