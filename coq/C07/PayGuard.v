(* C07: the payability / calldatasize guard of an entry point, as IR.

   A tiny expression language (the operators the selector sections use in their entry checks), an evaluator over the
   EVM word operations of Base/Word256.v, "arms" (the statements between the method-id match and the function body) and
   one TEMPLATE arm per emitted dispatcher:
     tpl_linear_legacy / tpl_sparse_legacy / tpl_dense      vyper/codegen/module.py _selector_section_linear/_sparse/_dense
     tpl_venom (linear + sparse: _emit_entry_checks) / tpl_dense   vyper/codegen_venom/module.py
     tpl_fallback                                            __default__ in both code generators
   tools/vlib/c07_pay.py extracts the arm of EVERY entry point from the IR the six real generators return / build
   and compares it syntactically (arm_eqb, sound by PayGuardProofs.arm_eqb_eq) with the template instantiated with the
   entry's payability and min_calldatasize.  No proofs in this file. *)
From Coq Require Import ZArith List Bool.
From Verif Require Import Base.Word256 C07.Jumptable C07.Dispatch.
Import ListNotations.
Open Scope Z_scope.

Inductive gop1 : Set := OIszero.
Inductive gop2 : Set := OOr | OAnd | OMul | OLt | OGt | OGe | OEq | OShr.
Inductive gx : Set :=
| GLit (z : Z)
| GCallvalue                      (* callvalue *)
| GCalldatasize                   (* calldatasize *)
| GInfo                           (* dense: the function-info word read from the data section (mload) *)
| GMid                            (* _calldata_method_id = shr(224, calldataload(0)) *)
| GBad                            (* anything the extractor does not know: never equal to a template, never evaluates *)
| G1 (o : gop1) (a : gx)
| G2 (o : gop2) (a b : gx).

Record genv : Set := mkGenv { v_value : Z; v_cds : Z; v_info : Z; v_mid : Z }.

Definition ev2 (o : gop2) (a b : Z) : Z :=
  match o with
  | OOr => w_or a b | OAnd => w_and a b | OMul => w_mul a b | OLt => w_lt a b | OGt => w_gt a b
  | OGe => w_iszero (w_lt a b)      (* legacy pseudo-opcode ge = iszero(lt) *)
  | OEq => w_eq a b | OShr => w_shr a b
  end.
Fixpoint geval (en : genv) (e : gx) : option Z :=
  match e with
  | GLit z => Some z
  | GCallvalue => Some (v_value en)
  | GCalldatasize => Some (v_cds en)
  | GInfo => Some (v_info en)
  | GMid => Some (v_mid en)
  | GBad => None
  | G1 OIszero a => option_map w_iszero (geval en a)
  | G2 o a b => match geval en a, geval en b with Some x, Some y => Some (ev2 o x y) | _, _ => None end
  end.

(* an arm: what runs after the dispatcher has located the entry (linear/sparse: after the method id matched) *)
Inductive gstmt : Set :=
| SAssert (e : gx)                 (* assert e: revert unless e is non-zero *)
| SFallbackIf (e : gx)             (* if e: goto fallback *)
| SEnter                           (* the code of the entry point follows (keyword defaults + body) *)
| SEnterLabel (e : gx).            (* djump e: enters the entry point whose label is e *)
Inductive aout : Set := ARevert | AFallback | AEnter | AEnterAt (l : Z) | AStuck.
Fixpoint run_arm (arm : list gstmt) (en : genv) : aout :=
  match arm with
  | [] => AStuck
  | SAssert e :: t => match geval en e with Some w => if nz w then run_arm t en else ARevert | None => AStuck end
  | SFallbackIf e :: t => match geval en e with Some w => if nz w then AFallback else run_arm t en | None => AStuck end
  | SEnter :: _ => AEnter
  | SEnterLabel e :: _ => match geval en e with Some l => AEnterAt l | None => AStuck end
  end.

(* ---------------- templates ---------------- *)
Definition x_iszero (a : gx) : gx := G1 OIszero a.
Definition nonpayable_assert : gstmt := SAssert (x_iszero GCallvalue).         (* assert (iszero callvalue) *)

(* legacy linear: [assert (iszero callvalue)] if nonpayable; assert (ge calldatasize N); body *)
Definition tpl_linear_legacy (e : entry) : list gstmt :=
  (if e_payable e then [] else [nonpayable_assert]) ++
  [SAssert (G2 OGe GCalldatasize (GLit (e_mincds e))); SEnter].
(* legacy sparse: assert (iszero (or bad_callvalue bad_calldatasize)); body *)
Definition tpl_sparse_legacy (e : entry) : list gstmt :=
  [SAssert (x_iszero (G2 OOr (if e_payable e then GLit 0 else GCallvalue)
                              (if e_mincds e =? 4 then GLit 0 else G2 OLt GCalldatasize (GLit (e_mincds e)))));
   SEnter].
(* venom _emit_entry_checks (linear and sparse) *)
Definition tpl_venom (e : entry) : list gstmt :=
  (if e_payable e then [] else [nonpayable_assert]) ++
  (if 4 <? e_mincds e then [SAssert (x_iszero (G2 OLt GCalldatasize (GLit (e_mincds e))))] else []) ++
  [SEnter].
(* dense (both generators; F = FN_METADATA_BYTES): fallback unless the method id stored in the info word is the
   calldata's; assert (iszero (or (mul is_nonpayable callvalue) (lt calldatasize expected_calldatasize))); djump label *)
Definition x_is_nonpayable : gx := G2 OAnd (GLit 1) GInfo.
Definition tpl_dense (F : Z) : list gstmt :=
  [SFallbackIf (x_iszero (G2 OAnd (G2 OGt GCalldatasize (GLit 3))
                                   (G2 OEq (G2 OShr (GLit ((F + 2) * 8)) GInfo) GMid)));
   SAssert (x_iszero (G2 OOr (G2 OMul x_is_nonpayable GCallvalue)
                              (G2 OLt GCalldatasize (G2 OAnd (GLit (2 ^ (F * 8) - 1 - 1)) GInfo))));
   SEnterLabel (G2 OAnd (GLit 65535) (G2 OShr (GLit (F * 8)) GInfo))].
(* __default__ (both generators): [assert (iszero callvalue)] if nonpayable; body *)
Definition tpl_fallback (payable : bool) : list gstmt :=
  (if payable then [] else [nonpayable_assert]) ++ [SEnter].

(* ---------------- syntactic equality (decided by computation in the tie) ---------------- *)
Definition gop2_eqb (a b : gop2) : bool :=
  match a, b with
  | OOr, OOr | OAnd, OAnd | OMul, OMul | OLt, OLt | OGt, OGt | OGe, OGe | OEq, OEq | OShr, OShr => true
  | _, _ => false
  end.
Fixpoint gx_eqb (a b : gx) : bool :=
  match a, b with
  | GLit x, GLit y => x =? y
  | GCallvalue, GCallvalue | GCalldatasize, GCalldatasize | GInfo, GInfo | GMid, GMid => true
  | G1 OIszero x, G1 OIszero y => gx_eqb x y
  | G2 o x1 x2, G2 p y1 y2 => gop2_eqb o p && gx_eqb x1 y1 && gx_eqb x2 y2
  | _, _ => false                                   (* GBad is equal to nothing, not even itself *)
  end.
Definition gstmt_eqb (a b : gstmt) : bool :=
  match a, b with
  | SAssert x, SAssert y | SFallbackIf x, SFallbackIf y | SEnterLabel x, SEnterLabel y => gx_eqb x y
  | SEnter, SEnter => true
  | _, _ => false
  end.
Fixpoint arm_eqb (a b : list gstmt) : bool :=
  match a, b with
  | [], [] => true
  | x :: s, y :: t => gstmt_eqb x y && arm_eqb s t
  | _, _ => false
  end.

(* ---------------- harness (vm_compute from tools/vlib/c07_pay.py) ---------------- *)
(* kind: 0 legacy linear, 1 legacy sparse, 2 venom linear/sparse, 3 dense (arg = F), 4 __default__ (payable flag) *)
Definition tpl_of (kind : Z) (payable : bool) (mincds F : Z) : list gstmt :=
  let e := mkEntry 0 payable mincds 0 in
  if kind =? 0 then tpl_linear_legacy e else if kind =? 1 then tpl_sparse_legacy e
  else if kind =? 2 then tpl_venom e else if kind =? 3 then tpl_dense F else tpl_fallback payable.
Definition tie_arm (kind : Z) (payable : bool) (mincds F : Z) (extracted : list gstmt) : Z :=
  b2z (arm_eqb extracted (tpl_of kind payable mincds F)).
Definition enc_aout (o : aout) : Z :=
  match o with ARevert => 0 | AFallback => 1 | AEnter => 2 | AEnterAt _ => 2 | AStuck => -1 end.
(* the extracted arm run on a value family (Search hint when the tie breaks: which values the emitted guard lets through) *)
Definition run_arm_values (arm : list gstmt) (cdsz info mid : Z) (values : list Z) : list Z :=
  map (fun v => enc_aout (run_arm arm (mkGenv v cdsz info mid))) values.
