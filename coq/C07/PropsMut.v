(* C07: "a call carrying value to a non-payable entry point reverts" - non-payable means EVERY mutability other than
   @payable: @nonpayable / undecorated, @view and @pure.  Property theorems; proofs in MutabilityProofs.v. *)
From Coq Require Import ZArith List Bool Lia.
From Verif Require Import Base.Word256 C07.Jumptable C07.Dispatch C07.PayGuard C07.PayGuardProofs
                          C07.Mutability C07.MutabilityProofs.
Import ListNotations.
Open Scope Z_scope.

(* exactly one mutability accepts value *)
Theorem C07_only_payable_accepts_value : forall m, mut_payable m = true <-> m = MPayable.
Proof. exact mut_payable_iff. Qed.
Print Assumptions C07_only_payable_accepts_value.

(* the guard template of __default__ (and of the constructor), instantiated by decorator: for every decorator other
   than @payable - in particular @view and @pure - every non-zero call value ends in a revert before the body *)
Theorem C07_default_guard_refuses_unless_payable : forall m en,
  m <> MPayable -> 0 < v_value en < W -> run_arm (tpl_fallback_m m) en = ARevert.
Proof. intros m en Hm Hv. apply fallback_m_refuses; [assumption|lia]. Qed.
Print Assumptions C07_default_guard_refuses_unless_payable.

(* ... and it does not refuse more than that: value 0, or a @payable decorator, reaches the body *)
Theorem C07_default_guard_enters : forall m en,
  (v_value en = 0 -> run_arm (tpl_fallback_m m) en = AEnter) /\ run_arm (tpl_fallback_m MPayable) en = AEnter.
Proof. intros m en. split; [apply fallback_m_zero_enters | apply fallback_m_payable_enters]. Qed.
Print Assumptions C07_default_guard_enters.

(* the specification by decorator: every unmatched-call path (no entry point selected; in particular calldata shorter
   than four bytes, whatever it holds) carrying value reverts unless __default__ is @payable *)
Theorem C07_unmatched_call_with_value_reverts : forall fns fb cd value,
  fb <> Some MPayable -> value <> 0 ->
  (find (selects cd) fns = None -> spec_dispatch_m fns fb cd value = Revert) /\
  (cds cd < 4 -> spec_dispatch_m fns fb cd value = Revert).
Proof.
  intros fns fb cd value Hm Hv. split; intros H.
  - apply spec_m_unmatched_refuses; assumption.
  - apply spec_m_short_refuses; assumption.
Qed.
Print Assumptions C07_unmatched_call_with_value_reverts.

Theorem C07_entry_by_mutability_refuses : forall fns fb cd value id m mincds tgt,
  find (selects cd) fns = Some (entry_m id m mincds tgt) -> m <> MPayable -> value <> 0 ->
  spec_dispatch_m fns fb cd value = Revert.
Proof.
  intros fns fb cd value id m mincds tgt Hf Hm Hv. eapply spec_m_entry_refuses; [exact Hf| |exact Hv].
  cbn. apply mut_not_payable. assumption.
Qed.
Print Assumptions C07_entry_by_mutability_refuses.

(* the tie by decorator code identifies the extracted arm with the template instantiated through mut_payable *)
Theorem C07_guard_tie_by_mutability_sound : forall kind c mincds F arm,
  tie_arm_m kind c mincds F arm = 1 -> arm = tpl_of kind (mut_payable (mut_of_code c)) mincds F.
Proof. exact tie_arm_m_sound. Qed.
Print Assumptions C07_guard_tie_by_mutability_sound.

(* non-vacuity / sharpness: with 1 wei, 1 ether, 2^255: @view, @pure and @nonpayable revert, @payable enters; a guard
   keyed on "is @nonpayable" (instead of "is not @payable") is NOT the template for @view / @pure, and lets value in *)
Definition ex_menv (v : Z) : genv := mkGenv v 0 0 0.
Example C07_mut_nonvacuous :
  MView <> MPayable /\ 0 < v_value (ex_menv 1) < W /\
  map (fun m => map (fun v => run_arm (tpl_fallback_m m) (ex_menv v)) [0; 1; 10 ^ 18; 2 ^ 255])
      [MPayable; MNonpayable; MView; MPure]
    = [[AEnter; AEnter; AEnter; AEnter]; [AEnter; ARevert; ARevert; ARevert];
       [AEnter; ARevert; ARevert; ARevert]; [AEnter; ARevert; ARevert; ARevert]] /\
  map (fun m => arm_eqb (tpl_fallback_only_nonpayable m) (tpl_fallback_m m)) [MPayable; MNonpayable; MView; MPure]
    = [true; true; false; false] /\
  map (fun m => run_arm (tpl_fallback_only_nonpayable m) (ex_menv 1)) [MView; MPure] = [AEnter; AEnter] /\
  map (fun c => tie_arm_m 4 c 0 0 [SEnter]) [0; 1; 2; 3] = [1; 0; 0; 0] /\
  spec_dispatch_m [entry_m 0xa9059cbb MPayable 4 0] (Some MView) [0xa9; 0x05; 0x9c] 1 = Revert /\
  spec_dispatch_m [entry_m 0xa9059cbb MPayable 4 0] (Some MView) [0xa9; 0x05; 0x9c] 0 = Default /\
  spec_dispatch_m [entry_m 0xa9059cbb MPayable 4 0] (Some MPayable) [] 1 = Default.
Proof. repeat split; try (vm_compute; reflexivity); try discriminate. Qed.
