(* C07: table-construction theorems stated directly about the definitions generated from the current
   vyper/codegen/jumptable_utils.py (GenJumptable.v), via the bridge to the hand model. *)
From Coq Require Import ZArith List Bool Lia Permutation.
From Verif Require Import C07.Jumptable C07.JumptableProofs C07.JtSupport C07.GenJumptable C07.Bridge.
Import ListNotations.
Open Scope Z_scope.

Theorem C07_src_find_magic_injective : forall xs m,
  g_find_magic_for xs = JOk m ->
  0 <= m < 65536 /\ NoDup (g__image_of xs m) /\ (forall m', 0 <= m' < m -> ~ NoDup (g__image_of xs m')).
Proof. intros xs m. rewrite bridge_find_magic_for. exact (find_magic_injective xs m). Qed.
Print Assumptions C07_src_find_magic_injective.

Theorem C07_src_mk_buckets_partition : forall ids n bk,
  g__mk_buckets ids n = JOk bk -> n <> 0 ->
  NoDup (keys bk) /\
  Permutation ids (concat (map snd bk)) /\
  (forall k, al_find k bk = match filter (in_bucket n k) ids with [] => None | l => Some l end) /\
  (forall k l, In (k, l) bk -> l <> [] /\ l = filter (in_bucket n k) ids /\ (forall x, In x l -> x mod n = k /\ In x ids)) /\
  (forall x, In x ids -> exists l, al_find (x mod n) bk = Some l /\ In x l).
Proof. intros ids n bk. rewrite bridge_mk_buckets. exact (mk_buckets_partition ids n bk). Qed.
Print Assumptions C07_src_mk_buckets_partition.

Lemma al_find_tag k sol : al_find k (tag sol) = find_bucket k sol.
Proof.
  unfold tag, find_bucket. induction sol as [|b t IH]; [reflexivity|]. cbn [map al_find find].
  rewrite (Z.eqb_sym k (b_id b)). destruct (b_id b =? k); [reflexivity | assumption].
Qed.

(* _dense_jumptable_info returned d: d has exactly n_buckets entries; entry k (every k in [0,n)) is
   Bucket(k, magic, ids congruent to k) with a non-empty id list and an injective two-byte magic *)
Theorem C07_src_dense_jumptable_info_ok : forall ids n d,
  0 < n -> g__dense_jumptable_info ids n = JOk d ->
  zlen d = n /\
  forall k, 0 <= k < n ->
    exists m, al_find k d = Some (k, m, filter (in_bucket n k) ids) /\
              filter (in_bucket n k) ids <> [] /\
              0 <= m < 65536 /\ NoDup (g__image_of (filter (in_bucket n k) ids) m).
Proof.
  intros ids n d Hn. rewrite bridge_dense_jumptable_info.
  destruct (dense_jumptable_info ids n) as [sol|e] eqn:E; [|discriminate]. intros [= <-].
  destruct (dense_jumptable_info_ok ids n sol Hn E) as [Hl Hk]. split.
  - unfold tag, zlen in *. rewrite map_length. assumption.
  - intros k Hkr. destruct (Hk k Hkr) as (m & H1 & H2 & H3). exists m. rewrite al_find_tag.
    apply find_magic_injective in H3. destruct H3 as (H3 & H4 & _). auto.
Qed.
Print Assumptions C07_src_dense_jumptable_info_ok.

Example C07_src_nonvacuous :
  exists d, g__dense_jumptable_info [0x12345600; 0xa9059cbb; 0x12345601; 0x70a08231] 2 = JOk d /\ zlen d = 2.
Proof. eexists. split; vm_compute; reflexivity. Qed.
