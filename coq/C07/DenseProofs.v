(* C07: the dense (two-level perfect hash) dispatcher equals spec_dispatch; word-level lemmas. *)
From Coq Require Import ZArith List Bool Lia Permutation Sorted.
From Verif Require Import Base.Word256 C07.GenConsts C07.Jumptable C07.JumptableProofs C07.Dispatch C07.DispatchProofs.
Import ListNotations.
Open Scope Z_scope.
Ltac Zify.zify_post_hook ::= Z.to_euclidean_division_equations.

(* ---------- EVM arithmetic = Python arithmetic on the ranges that occur ---------- *)
(* ((method_id * magic) >> 24) % size computed with 256-bit wrap-around mul equals the unbounded computation *)
Lemma bits_magic_range : 0 <= BITS_MAGIC < 256.
Proof. unfold BITS_MAGIC, GenConsts.g_BITS_MAGIC. lia. Qed.

Lemma image_no_overflow x m n :
  0 <= x < 2 ^ 32 -> 0 <= m < 2 ^ 16 -> 0 < n ->
  w_mod (w_shr BITS_MAGIC (w_mul m x)) n = image1 n m x.
Proof.
  intros Hx Hm Hn. unfold image1, w_mod, w_shr, w_mul. pose proof bits_magic_range as Hb.
  assert (Hn0 : n =? 0 = false) by (apply Z.eqb_neq; lia). rewrite Hn0.
  destruct (BITS_MAGIC <? 256) eqn:Eb; [|apply Z.ltb_ge in Eb; lia].
  assert (Hp : 0 <= m * x < 2 ^ 48).
  { change (2 ^ 48) with (2 ^ 16 * 2 ^ 32). split; [apply Z.mul_nonneg_nonneg; lia|].
    apply Z.mul_lt_mono_nonneg; lia. }
  rewrite (Z.mod_small (m * x)) by (rewrite W_val; change (2 ^ 256) with (2 ^ 48 * 2 ^ 208); nia).
  rewrite Z.shiftr_div_pow2 by lia. rewrite (Z.mul_comm x m). reflexivity.
Qed.

Lemma land_ones_l k x : 0 <= k -> Z.land (2 ^ k - 1) x = x mod 2 ^ k.
Proof.
  intros. rewrite Z.land_comm. replace (2 ^ k - 1) with (Z.ones k) by (rewrite Z.ones_equiv; lia).
  apply Z.land_ones. assumption.
Qed.

Lemma header_unpack magic loc size :
  0 <= magic < 2 ^ 16 -> 0 <= loc < 2 ^ 16 -> 0 <= size < 2 ^ 8 ->
  let hdr := header_word magic loc size in
  w_shr 24 hdr = magic /\ w_and 65535 (w_shr 8 hdr) = loc /\ w_and 255 hdr = size.
Proof.
  intros Hm Hl Hs hdr. subst hdr. unfold header_word, w_shr, w_and.
  change (24 <? 256) with true. change (8 <? 256) with true. cbv iota.
  change 65535 with (2 ^ 16 - 1). change 255 with (2 ^ 8 - 1). rewrite !land_ones_l by lia.
  change (2 ^ 24) with 16777216. change (2 ^ 16) with 65536 in *. change (2 ^ 8) with 256 in *.
  repeat split; lia.
Qed.

(* Z.land with an even mask *)
Lemma land_double a y : Z.land (2 * a) y = 2 * Z.land a (y / 2).
Proof.
  apply Z.bits_inj'. intros n Hn. rewrite Z.land_spec.
  destruct (Z.eq_dec n 0) as [->|Hne].
  - rewrite !Z.testbit_even_0. reflexivity.
  - replace n with (Z.succ (n - 1)) by lia. rewrite !Z.testbit_even_succ by lia.
    rewrite Z.land_spec. f_equal.
    change (y / 2) with (y / 2 ^ 1). rewrite <- Z.shiftr_div_pow2 by lia. rewrite Z.shiftr_spec by lia.
    f_equal; lia.
Qed.

Lemma land_low a x k : 0 <= k -> 0 <= a < 2 ^ k -> Z.land a x = Z.land a (x mod 2 ^ k).
Proof.
  intros Hk Ha. rewrite <- (Z.land_ones x k) by assumption. rewrite (Z.land_comm x), Z.land_assoc.
  rewrite (Z.land_ones a k) by assumption. rewrite Z.mod_small by assumption. reflexivity.
Qed.

(* metadata = min_calldatasize | int(not payable): the two fields are recovered by the masks
   (calldatasize_mask = 2^(8F) - 2, and 1) because min_calldatasize = 4 mod 32; and it fits F bytes *)
Lemma metadata_pack_unpack mincds (np : bool) F :
  1 <= F -> 4 <= mincds -> (mincds - 4) mod 32 = 0 -> mincds < 2 ^ (8 * F) ->
  let meta := Z.lor mincds (Word256.b2z np) in
  0 <= meta < 2 ^ (8 * F) /\
  Z.land (2 ^ (F * 8) - 1 - 1) meta = mincds /\
  Z.land 1 meta = Word256.b2z np.
Proof.
  intros HF H4 H32 Hlt meta.
  assert (Heven : mincds = 2 * (mincds / 2)) by lia.
  assert (Hb : Word256.b2z np = 0 \/ Word256.b2z np = 1) by (destruct np; cbn; auto).
  assert (Hland : Z.land mincds (Word256.b2z np) = 0).
  { rewrite Heven. rewrite land_double. destruct Hb as [-> | ->]; cbn; rewrite Z.land_0_r; reflexivity. }
  assert (Hmeta : meta = mincds + Word256.b2z np).
  { subst meta. rewrite <- Z.lxor_lor by assumption. symmetry. apply Z.add_nocarry_lxor. assumption. }
  assert (HP : 2 ^ (8 * F) = 2 * 2 ^ (8 * F - 1)).
  { rewrite <- Z.pow_succ_r by lia. f_equal. lia. }
  assert (Hpos : 0 < 2 ^ (8 * F - 1)) by (apply Z.pow_pos_nonneg; lia).
  split; [lia|]. split.
  - replace (F * 8) with (8 * F) by lia. rewrite HP.
    replace (2 * 2 ^ (8 * F - 1) - 1 - 1) with (2 * (2 ^ (8 * F - 1) - 1)) by lia.
    rewrite land_double. rewrite land_ones_l by lia.
    replace (meta / 2) with (mincds / 2) by lia. rewrite Z.mod_small by lia. lia.
  - change 1 with (2 ^ 1 - 1) at 1. rewrite land_ones_l by lia. change (2 ^ 1) with 2. lia.
Qed.

Lemma info_unpack F e :
  1 <= F <= 26 -> 0 <= e_id e -> 0 <= e_target e < 2 ^ 16 ->
  4 <= e_mincds e -> (e_mincds e - 4) mod 32 = 0 -> e_mincds e < 2 ^ (8 * F) ->
  let info := info_word F e in
  w_shr ((F + 2) * 8) info = e_id e /\
  w_and 65535 (w_shr (F * 8) info) = e_target e /\
  w_and (2 ^ (F * 8) - 1 - 1) info = e_mincds e /\
  w_and 1 info = Word256.b2z (negb (e_payable e)).
Proof.
  intros HF Hid Ht H4 H32 Hlt info.
  destruct (metadata_pack_unpack (e_mincds e) (negb (e_payable e)) F ltac:(lia) H4 H32 Hlt) as (Hm & Hm1 & Hm2).
  fold (metadata e) in Hm, Hm1, Hm2.
  set (P := 2 ^ (8 * F)) in *.
  assert (HP : 0 < P) by (apply Z.pow_pos_nonneg; lia).
  assert (Hinfo : info = (e_id e * 65536 + e_target e) * P + metadata e).
  { subst info. unfold info_word. replace (8 * (F + 2)) with (16 + 8 * F) by lia.
    rewrite Z.pow_add_r by lia. change (2 ^ 16) with 65536. fold P. lia. }
  assert (Hdiv : info / P = e_id e * 65536 + e_target e).
  { rewrite Hinfo. rewrite Z.div_add_l by lia. rewrite Z.div_small by assumption. lia. }
  assert (Hmod : info mod P = metadata e).
  { rewrite Hinfo. rewrite Z.add_comm. rewrite Z.mod_add by lia. apply Z.mod_small. assumption. }
  unfold w_shr, w_and.
  assert (H1 : (F + 2) * 8 <? 256 = true) by (apply Z.ltb_lt; lia).
  assert (H2 : F * 8 <? 256 = true) by (apply Z.ltb_lt; lia).
  rewrite H1, H2. change (2 ^ 16) with 65536 in Ht.
  split; [|split; [|split]].
  - replace ((F + 2) * 8) with (8 * F + 16) by lia. rewrite Z.pow_add_r by lia. fold P.
    rewrite <- Z.div_div by lia. rewrite Hdiv. change (2 ^ 16) with 65536. lia.
  - replace (F * 8) with (8 * F) by lia. fold P. rewrite Hdiv.
    change 65535 with (2 ^ 16 - 1). rewrite land_ones_l by lia. change (2 ^ 16) with 65536. lia.
  - rewrite (land_low _ info (8 * F)); [fold P; rewrite Hmod; assumption | lia |].
    replace (F * 8) with (8 * F) by lia. fold P. lia.
  - rewrite (land_low 1 info (8 * F)); [fold P; rewrite Hmod; assumption | lia |].
    split; [lia|]. apply Z.pow_gt_1; lia.
Qed.

(* ---------- sorting by image ---------- *)
Definition fle (a b : Z * Z) : Prop := fst a <= fst b.

Lemma pinsert_perm p l : Permutation (pinsert p l) (p :: l).
Proof.
  induction l as [|q t IH]; cbn; [reflexivity|].
  destruct (pair_leb p q); [reflexivity|]. rewrite IH. apply perm_swap.
Qed.

Lemma psort_perm l : Permutation (psort l) l.
Proof. induction l as [|p t IH]; cbn; [reflexivity|]. rewrite pinsert_perm. constructor. assumption. Qed.

Lemma pair_leb_true p q : pair_leb p q = true -> fle p q.
Proof. unfold pair_leb, fle. intros H. apply orb_true_iff in H. destruct H as [H|H]; [apply Z.ltb_lt in H; lia|].
  apply andb_true_iff in H. destruct H as [H _]. apply Z.eqb_eq in H. lia. Qed.
Lemma pair_leb_false p q : pair_leb p q = false -> fle q p.
Proof. unfold pair_leb, fle. intros H. apply orb_false_iff in H. destruct H as [H _]. apply Z.ltb_ge in H. assumption. Qed.

Lemma pinsert_sorted p l : StronglySorted fle l -> StronglySorted fle (pinsert p l).
Proof.
  induction l as [|q t IH]; cbn; intros Hs.
  - constructor; constructor.
  - inversion Hs; subst. destruct (pair_leb p q) eqn:E.
    + constructor; [assumption|]. apply pair_leb_true in E. constructor; [assumption|].
      eapply Forall_impl; [|eassumption]. unfold fle in *. intros; lia.
    + constructor; [auto|]. apply pair_leb_false in E.
      eapply Permutation_Forall; [symmetry; apply pinsert_perm|]. constructor; assumption.
Qed.

Lemma psort_sorted l : StronglySorted fle (psort l).
Proof. induction l; cbn; [constructor | apply pinsert_sorted; assumption]. Qed.

Lemma sorted_fst l : StronglySorted fle l -> StronglySorted Z.le (map fst l).
Proof.
  induction 1; cbn; constructor; [assumption|]. rewrite Forall_map. assumption.
Qed.

Lemma sorted_le_lt l : StronglySorted Z.le l -> NoDup l -> StronglySorted Z.lt l.
Proof.
  induction 1; intros Hnd; constructor; inversion Hnd; subst; [auto|].
  rewrite Forall_forall in *. intros x Hx. specialize (H0 x Hx).
  assert (a <> x) by (intros ->; contradiction). lia.
Qed.

Definition iota (lo : Z) (n : nat) : list Z := map (fun k => lo + Z.of_nat k) (seq 0 n).

Lemma iota_S lo n : iota lo (S n) = lo :: iota (lo + 1) n.
Proof.
  unfold iota. cbn [seq map]. f_equal; [lia|]. rewrite <- seq_shift, map_map. apply map_ext. intros; lia.
Qed.

Lemma iota_in lo n x : In x (iota lo n) <-> lo <= x < lo + Z.of_nat n.
Proof.
  unfold iota. rewrite in_map_iff. split.
  - intros (k & <- & Hk). apply in_seq in Hk. lia.
  - intros H. exists (Z.to_nat (x - lo)). split; [lia|]. apply in_seq. lia.
Qed.

(* a strictly increasing list of [length l] integers inside [lo, lo + length l) is lo, lo+1, ... *)
Lemma incr_range l : forall lo,
  StronglySorted Z.lt l -> (forall x, In x l -> lo <= x < lo + Z.of_nat (length l)) -> l = iota lo (length l).
Proof.
  induction l as [|h t IH]; intros lo Hs Hb; [reflexivity|].
  inversion Hs; subst. rewrite Forall_forall in H2.
  assert (Hh : lo <= h < lo + Z.of_nat (length (h :: t))) by (apply Hb; left; reflexivity).
  assert (Ht : t = iota (h + 1) (length t)).
  { apply IH; [assumption|]. intros x Hx. specialize (H2 x Hx).
    assert (lo <= x < lo + Z.of_nat (length (h :: t))) by (apply Hb; right; assumption). cbn [length] in *. lia. }
  assert (h = lo).
  { destruct t as [|y t']; [cbn [length] in Hh; lia|].
    assert (Hlast : In (h + 1 + Z.of_nat (length (y :: t')) - 1) (y :: t')).
    { rewrite Ht at 2. apply iota_in. cbn [length]. lia. }
    assert (lo <= h + 1 + Z.of_nat (length (y :: t')) - 1 < lo + Z.of_nat (length (h :: y :: t')))
      by (apply Hb; right; assumption).
    cbn [length] in *. lia. }
  subst h. cbn [length]. rewrite iota_S. f_equal. assumption.
Qed.

Lemma iota_nth lo n j : (j < n)%nat -> nth_error (iota lo n) j = Some (lo + Z.of_nat j).
Proof.
  intros H. unfold iota. erewrite map_nth_error; [reflexivity|].
  rewrite nth_error_nth' with (d := O) by (rewrite seq_length; assumption). rewrite seq_nth by assumption. reflexivity.
Qed.

Lemma map_fst_combine {A B} (a : list A) (b : list B) : length a = length b -> map fst (combine a b) = a.
Proof. revert b. induction a as [|x a IH]; intros [|y b] H; cbn in *; try reflexivity; try discriminate. f_equal. apply IH. lia. Qed.
Lemma map_snd_combine {A B} (a : list A) (b : list B) : length a = length b -> map snd (combine a b) = b.
Proof. revert b. induction a as [|x a IH]; intros [|y b] H; cbn in *; try reflexivity; try discriminate. f_equal. apply IH. lia. Qed.
Lemma combine_map_l {A B} (f : A -> B) (l : list A) : combine (map f l) l = map (fun y => (f y, y)) l.
Proof. induction l; cbn; [reflexivity | f_equal; assumption]. Qed.

Lemma image_order_perm l m : Permutation (image_order l m) l.
Proof.
  unfold image_order. rewrite psort_perm. rewrite map_snd_combine by apply image_of_length. reflexivity.
Qed.

(* Bucket.method_ids_image_order puts the id with image j at position j *)
Lemma image_order_nth l m x :
  NoDup (image_of l m) -> In x l ->
  nth_error (image_order l m) (Z.to_nat (image1 (zlen l) m x)) = Some x.
Proof.
  intros Hnd Hx. unfold image_order.
  set (s := psort (combine (image_of l m) l)).
  assert (Hperm : Permutation s (combine (image_of l m) l)) by apply psort_perm.
  assert (Hfst : Permutation (map fst s) (image_of l m)).
  { rewrite Hperm. rewrite map_fst_combine by apply image_of_length. reflexivity. }
  assert (Hlen : length (map fst s) = length l).
  { rewrite (Permutation_length Hfst). apply image_of_length. }
  assert (Hiota : map fst s = iota 0 (length (map fst s))).
  { apply incr_range.
    - apply sorted_le_lt; [apply sorted_fst; apply psort_sorted|].
      eapply Permutation_NoDup; [symmetry; exact Hfst | assumption].
    - intros y Hy. rewrite Hlen. eapply Permutation_in in Hy; [|exact Hfst].
      apply image_of_range in Hy. unfold zlen in Hy. lia. }
  assert (Hin : In (image1 (zlen l) m x, x) s).
  { eapply Permutation_in; [symmetry; exact Hperm|]. unfold image_of. rewrite combine_map_l.
    apply in_map_iff. exists x. auto. }
  apply In_nth_error in Hin. destruct Hin as [j Hj].
  assert (Hjl : (j < length s)%nat) by (apply nth_error_Some; congruence).
  assert (Hfj : nth_error (map fst s) j = Some (image1 (zlen l) m x)) by (rewrite (map_nth_error fst j s Hj); reflexivity).
  rewrite Hiota in Hfj. rewrite iota_nth in Hfj by (rewrite map_length; assumption).
  assert (Hij : image1 (zlen l) m x = 0 + Z.of_nat j) by congruence. rewrite Hij. replace (Z.to_nat (0 + Z.of_nat j)) with j by lia.
  rewrite (map_nth_error snd j s Hj). reflexivity.
Qed.

(* ---------- table access ---------- *)
Lemma omap_nth {A B} (f : A -> option B) l : forall r j x,
  omap f l = Some r -> nth_error l j = Some x -> exists y, f x = Some y /\ nth_error r j = Some y.
Proof.
  induction l as [|a t IH]; intros r j x Hr Hj; [destruct j; discriminate|].
  cbn [omap] in Hr. destruct (f a) as [y|] eqn:Ef; [|discriminate]. destruct (omap f t) as [r'|] eqn:Er; [|discriminate].
  inversion Hr; subst r. destruct j as [|j]; cbn in *.
  - inversion Hj; subst. eauto.
  - eapply IH; eauto.
Qed.

Lemma zrange_nth n k : 0 <= k < n -> nth_error (zrange 0 n) (Z.to_nat k) = Some k.
Proof.
  intros H. change (zrange 0 n) with (iota 0 (Z.to_nat (n - 0))). rewrite iota_nth by lia. f_equal. lia.
Qed.

Lemma data_lookup {E} (q : bucket -> option (list E)) (h : list E -> list Z) sol : forall ds k b,
  omap (fun b => option_map (fun es => (b_id b, h es)) (q b)) sol = Some ds ->
  find_bucket k sol = Some b ->
  exists es, q b = Some es /\ al_find k ds = Some (h es).
Proof.
  induction sol as [|b0 t IH]; intros ds k b Hd Hf; [discriminate|].
  cbn [omap] in Hd. destruct (q b0) as [es0|] eqn:Eq; [|discriminate]. cbn [option_map] in Hd.
  destruct (omap _ t) as [ds'|] eqn:Ed; [|discriminate]. inversion Hd; subst ds.
  unfold find_bucket in Hf. cbn [find] in Hf. cbn [al_find]. rewrite (Z.eqb_sym k (b_id b0)).
  destruct (b_id b0 =? k) eqn:Ek.
  - inversion Hf; subst b. eauto.
  - eapply IH; eauto.
Qed.

Lemma entries_of_nth fns : forall xs es j i,
  entries_of fns xs = Some es -> nth_error xs j = Some i ->
  exists e, nth_error es j = Some e /\ In e fns /\ e_id e = i.
Proof.
  induction xs as [|x t IH]; intros es j i He Hj; [destruct j; discriminate|].
  cbn [entries_of] in He. destruct (lookup_entry fns x) as [e0|] eqn:El; [|discriminate].
  destruct (entries_of fns t) as [r|] eqn:Er; [|discriminate]. inversion He; subst es.
  destruct j as [|j]; cbn in *.
  - inversion Hj; subst. exists e0. split; [reflexivity|]. unfold lookup_entry in El. apply find_some in El.
    destruct El as [H1 H2]. apply Z.eqb_eq in H2. auto.
  - eapply IH; eauto.
Qed.

(* ---------- FN_METADATA_BYTES ---------- *)
Lemma fold_max_ge l : forall a, a <= fold_left Z.max l a /\ (forall x, In x l -> x <= fold_left Z.max l a).
Proof.
  induction l as [|y t IH]; intros a; cbn; [split; [lia | tauto]|].
  destruct (IH (Z.max a y)) as [H1 H2]. split; [lia|]. intros x [->|Hx]; [lia | auto].
Qed.

Lemma metadata_bytes_ok fns e :
  In e fns -> 4 <= e_mincds e -> 1 <= fn_metadata_bytes fns /\ e_mincds e < 2 ^ (8 * fn_metadata_bytes fns).
Proof.
  intros Hin H4. unfold fn_metadata_bytes, bit_length.
  assert (Hle : e_mincds e <= largest_mincds fns).
  { unfold largest_mincds. apply fold_max_ge. apply in_map. assumption. }
  set (L := largest_mincds fns) in *.
  assert (HL : L <=? 0 = false) by (apply Z.leb_gt; lia). rewrite HL.
  assert (Hlog : 2 <= Z.log2 L) by (change 2 with (Z.log2 4); apply Z.log2_le_mono; lia).
  pose proof (Z.log2_spec L ltac:(lia)) as [_ Hs].
  split; [lia|].
  eapply Z.le_lt_trans; [exact Hle|]. eapply Z.lt_le_trans; [exact Hs|].
  apply Z.pow_le_mono_r; lia.
Qed.

Lemma find_unique fns cd e :
  calldata_ok cd -> NoDup (map e_id fns) -> In e fns -> selects cd e = true -> find (selects cd) fns = Some e.
Proof.
  intros Hcd Hnd Hin Hs. destruct (find (selects cd) fns) as [e'|] eqn:Ef.
  - apply find_some in Ef. destruct Ef as [Hin' Hs']. apply selects_id in Hs, Hs'; try assumption.
    f_equal. assert (Hid : e_id e' = e_id e) by (destruct Hs, Hs'; congruence).
    clear - Hnd Hin Hin' Hid. induction fns as [|x t IH]; [contradiction|]. cbn in Hnd. inversion Hnd; subst.
    destruct Hin as [->|Hin], Hin' as [->|Hin']; try reflexivity.
    + exfalso. apply H1. rewrite <- Hid. apply in_map. assumption.
    + exfalso. apply H1. rewrite Hid. apply in_map. assumption.
    + auto.
  - exfalso. eapply find_none in Ef; [|exact Hin]. congruence.
Qed.

Definition dense_entry_ok (e : entry) : Prop := (e_mincds e - 4) mod 32 = 0 /\ 0 <= e_target e < 2 ^ 16.

(* the emitted entry conditions, on the unpacked metadata *)
Lemma dense_conditions e cd value :
  value_ok value ->
  nz (w_iszero (w_or (w_mul (Word256.b2z (negb (e_payable e))) value) (w_lt (cds cd) (e_mincds e)))) = true ->
  entry_conditions e cd value = Enter (e_target e).
Proof.
  intros Hv H. rewrite nz_iszero in H. unfold w_or in H. rewrite lor_zero in H. apply andb_true_iff in H.
  destruct H as [H1 H2]. rewrite wlt_eq0 in H2. apply negb_true_iff in H2. unfold entry_conditions. rewrite H2.
  destruct (e_payable e); cbn [negb andb orb]; [reflexivity|].
  unfold w_mul in H1. cbn [negb Word256.b2z] in H1. rewrite Z.mul_1_l in H1. unfold value_ok in Hv.
  rewrite Z.mod_small in H1 by assumption. rewrite H1. reflexivity.
Qed.
Lemma dense_conditions_neg e cd value :
  value_ok value ->
  nz (w_iszero (w_or (w_mul (Word256.b2z (negb (e_payable e))) value) (w_lt (cds cd) (e_mincds e)))) = false ->
  entry_conditions e cd value = Revert.
Proof.
  intros Hv H. rewrite nz_iszero in H. unfold w_or in H. rewrite lor_zero in H. rewrite wlt_eq0 in H.
  unfold entry_conditions. destruct (cds cd <? e_mincds e); [rewrite orb_true_r; reflexivity|].
  rewrite andb_true_r in H. rewrite orb_false_r.
  destruct (e_payable e); cbn [negb Word256.b2z andb] in *.
  - unfold w_mul in H. rewrite Z.mul_0_l in H. discriminate.
  - unfold w_mul in H. rewrite Z.mul_1_l in H. unfold value_ok in Hv. rewrite Z.mod_small in H by assumption.
    rewrite H. reflexivity.
Qed.

Theorem dense_core_spec fns fb cd value n sol t :
  calldata_ok cd -> value_ok value -> fns_ok fns -> Forall dense_entry_ok fns ->
  generate_dense (map e_id fns) = JOk (Some (n, sol)) -> n <= 65536 ->
  build_dense n sol fns = Some t ->
  dense_core t fb cd value = Some (spec_dispatch fns fb cd value).
Proof.
  intros Hcd Hv [Hok Hnd] Hdok Hgen Hn16 Hbuild.
  apply dense_info_ok in Hgen. destruct Hgen as (Hn & Hlen & Hbk).
  unfold build_dense in Hbuild. set (F := fn_metadata_bytes fns) in *.
  destruct (negb (4 + 2 + F <=? 32)) eqn:EF; [discriminate|]. apply negb_false_iff in EF. apply Z.leb_le in EF.
  destruct (omap _ (zrange 0 n)) as [hs|] eqn:Ehs; [|discriminate].
  destruct (omap _ sol) as [ds|] eqn:Eds; [|discriminate]. inversion Hbuild; subst t; clear Hbuild.
  destruct (mid_cases cd Hcd) as (Hmid & Hshort & Hlong).
  unfold dense_core. cbn [dt_n dt_F dt_headers dt_data]. set (mid := calldata_method_id cd) in *.
  rewrite w_mod_nz by lia. set (k := mid mod n).
  assert (Hk : 0 <= k < n) by (apply Z.mod_pos_bound; lia).
  destruct (Hbk k Hk) as (m & Hfb & Hne & Hm & Hinj). set (l := filter (in_bucket n k) (map e_id fns)) in *.
  (* header *)
  unfold nth_z. assert (Hk0 : k <? 0 = false) by (apply Z.ltb_ge; lia). rewrite Hk0.
  destruct (omap_nth _ _ _ _ _ Ehs (zrange_nth n k Hk)) as (hdr & Hhdr & Hnth). rewrite Hnth.
  fold (find_bucket k sol) in Hhdr. rewrite Hfb in Hhdr. unfold b_magic, b_id, b_ids in Hhdr. cbn [fst snd] in Hhdr.
  destruct ((m <? 65536) && (zlen l <? 256)) eqn:Efit; [|discriminate]. inversion Hhdr; subst hdr; clear Hhdr.
  apply andb_true_iff in Efit. destruct Efit as [_ Hsz]. apply Z.ltb_lt in Hsz.
  assert (Hsz0 : 0 < zlen l) by (unfold zlen; destruct l; [congruence | cbn; lia]).
  destruct (header_unpack m k (zlen l)) as (Hu1 & Hu2 & Hu3);
    [change (2 ^ 16) with 65536; lia | change (2 ^ 16) with 65536; lia | change (2 ^ 8) with 256; lia|].
  cbv zeta in Hu1, Hu2, Hu3. rewrite Hu1, Hu2, Hu3.
  rewrite image_no_overflow by (try assumption; change (2 ^ 16) with 65536; lia).
  set (j := image1 (zlen l) m mid). assert (Hj : 0 <= j < zlen l) by (apply image1_range; assumption).
  (* bucket data *)
  destruct (data_lookup (fun b => entries_of fns (image_order (b_ids b) (b_magic b))) (map (info_word F))
              sol ds k _ Eds Hfb) as (es & Hes & Hal).
  unfold b_magic, b_id, b_ids in Hes. cbn [fst snd] in Hes. rewrite Hal.
  assert (Hj0 : j <? 0 = false) by (apply Z.ltb_ge; lia). rewrite Hj0.
  assert (Hjlen : (Z.to_nat j < length (image_order l m))%nat).
  { rewrite (Permutation_length (image_order_perm l m)). unfold zlen in Hj. lia. }
  destruct (nth_error (image_order l m) (Z.to_nat j)) as [x'|] eqn:Ex; [|apply nth_error_None in Ex; lia].
  destruct (entries_of_nth fns _ _ _ _ Hes Ex) as (e' & He' & Hin' & Hid').
  rewrite (map_nth_error (info_word F) _ _ He').
  (* unpack the function info *)
  rewrite Forall_forall in Hok, Hdok. destruct (Hok e' Hin') as [Hidr H4]. destruct (Hdok e' Hin') as [H32 Htg].
  destruct (metadata_bytes_ok fns e' Hin' H4) as [HF1 HFlt]. fold F in HF1, HFlt.
  destruct (info_unpack F e') as (Hi1 & Hi2 & Hi3 & Hi4); try assumption; try lia.
  cbv zeta in Hi1, Hi2, Hi3, Hi4. rewrite Hi1, Hi2, Hi3, Hi4.
  (* method id check *)
  assert (Hchk : nz (w_iszero (w_and (w_gt (cds cd) 3) (w_eq (e_id e') mid))) = negb ((3 <? cds cd) && (e_id e' =? mid))).
  { unfold nz, w_iszero, w_and, w_gt, w_eq, Word256.b2z. rewrite Z.gtb_ltb.
    destruct (3 <? cds cd), (e_id e' =? mid); reflexivity. }
  rewrite Hchk. clear Hchk. destruct ((3 <? cds cd) && (e_id e' =? mid)) eqn:Esel; cbn [negb].
  - (* selected *)
    apply andb_true_iff in Esel. destruct Esel as [Hc Hi]. apply Z.ltb_lt in Hc. apply Z.eqb_eq in Hi.
    assert (Hs : selects cd e' = true).
    { rewrite selects_long by (try assumption; lia). fold mid. rewrite Hi. apply Z.eqb_refl. }
    unfold spec_dispatch. rewrite (find_unique fns cd e' Hcd Hnd Hin' Hs).
    destruct (nz (w_iszero (w_or _ _))) eqn:Ec.
    + rewrite (dense_conditions _ _ _ Hv Ec). reflexivity.
    + rewrite (dense_conditions_neg _ _ _ Hv Ec). reflexivity.
  - (* fallback *)
    f_equal. unfold spec_dispatch. rewrite find_none_all; [reflexivity|].
    intros e Hin. destruct (selects cd e) eqn:Es; [|reflexivity]. exfalso.
    apply selects_id in Es; [|assumption]. destruct Es as [Hc Hide]. fold mid in Hide.
    assert (Hinl : In mid l).
    { unfold l. apply filter_In. split; [rewrite <- Hide; apply in_map; assumption|]. unfold in_bucket. apply Z.eqb_refl. }
    pose proof (image_order_nth l m mid Hinj Hinl) as Hnthm. fold j in Hnthm. rewrite Ex in Hnthm.
    inversion Hnthm; subst x'. apply andb_false_iff in Esel. destruct Esel as [Hc'|Hi'].
    + apply Z.ltb_ge in Hc'. lia.
    + apply Z.eqb_neq in Hi'. congruence.
Qed.

Theorem dense_dispatch_legacy_spec fns fb cd value n sol t :
  calldata_ok cd -> value_ok value -> fns_ok fns -> Forall dense_entry_ok fns ->
  generate_dense (map e_id fns) = JOk (Some (n, sol)) -> n <= 65536 ->
  build_dense n sol fns = Some t ->
  dense_dispatch_legacy t fns fb cd value = Some (spec_dispatch fns fb cd value).
Proof.
  intros. unfold dense_dispatch_legacy. destruct fns; [reflexivity|]. eapply dense_core_spec; eauto.
Qed.

Theorem dense_dispatch_venom_spec fns fb cd value n sol t :
  calldata_ok cd -> value_ok value -> fns_ok fns -> Forall dense_entry_ok fns ->
  generate_dense (map e_id fns) = JOk (Some (n, sol)) -> n <= 65536 ->
  build_dense n sol fns = Some t ->
  dense_dispatch_venom t fns fb cd value = Some (spec_dispatch fns fb cd value).
Proof.
  intros Hcd. intros. unfold dense_dispatch_venom. rewrite nz_iszero, wlt_eq0. destruct (cds cd <? 4) eqn:E; cbn [negb].
  - apply Z.ltb_lt in E. rewrite spec_short by assumption. reflexivity.
  - eapply dense_core_spec; eauto.
Qed.
