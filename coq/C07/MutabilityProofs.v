(* C07: proofs about mutability -> payability (Mutability.v). *)
From Coq Require Import ZArith List Bool Lia.
From Verif Require Import Base.Word256 C07.Jumptable C07.Dispatch C07.PayGuard C07.PayGuardProofs C07.Mutability.
Import ListNotations.
Open Scope Z_scope.

Lemma mut_payable_iff m : mut_payable m = true <-> m = MPayable.
Proof. destruct m; cbn; split; intros H; try reflexivity; discriminate H. Qed.

Lemma mut_not_payable m : m <> MPayable -> mut_payable m = false.
Proof. destruct m; intros H; try reflexivity. contradiction H; reflexivity. Qed.

(* the guard in front of __default__ / the constructor refuses every non-zero value unless the decorator is @payable *)
Lemma fallback_m_refuses m en : m <> MPayable -> v_value en <> 0 -> run_arm (tpl_fallback_m m) en = ARevert.
Proof. intros Hm Hv. unfold tpl_fallback_m. rewrite (mut_not_payable m Hm). apply fallback_refuses. assumption. Qed.

Lemma fallback_m_payable_enters en : run_arm (tpl_fallback_m MPayable) en = AEnter.
Proof. reflexivity. Qed.

Lemma fallback_m_zero_enters m en : v_value en = 0 -> run_arm (tpl_fallback_m m) en = AEnter.
Proof.
  intros Hv. destruct m; [reflexivity| | |];
    unfold tpl_fallback_m, tpl_fallback, nonpayable_assert, x_iszero; cbn [mut_payable app run_arm geval option_map];
    rewrite Hv; reflexivity.
Qed.

(* the specification: a call that selects no entry point and carries value reverts unless __default__ is @payable *)
Lemma spec_m_unmatched_refuses fns fb cd value :
  find (selects cd) fns = None -> fb <> Some MPayable -> value <> 0 -> spec_dispatch_m fns fb cd value = Revert.
Proof.
  intros Hf Hm Hv. unfold spec_dispatch_m, spec_dispatch. rewrite Hf.
  destruct fb as [m|]; [|reflexivity]. cbn [fb_m option_map do_fallback].
  rewrite (mut_not_payable m) by (intros E; apply Hm; rewrite E; reflexivity).
  apply Z.eqb_neq in Hv. rewrite Hv. reflexivity.
Qed.

Lemma short_selects_none fns cd : cds cd < 4 -> find (selects cd) fns = None.
Proof.
  intros H. induction fns as [|e t IH]; [reflexivity|]. cbn [find]. unfold selects at 1.
  replace (4 <=? cds cd) with false by (symmetry; apply Z.leb_gt; assumption). cbn [andb]. exact IH.
Qed.

Lemma spec_m_short_refuses fns fb cd value :
  cds cd < 4 -> fb <> Some MPayable -> value <> 0 -> spec_dispatch_m fns fb cd value = Revert.
Proof. intros Hc. apply spec_m_unmatched_refuses. apply short_selects_none. assumption. Qed.

Lemma spec_m_entry_refuses fns fb cd value e :
  find (selects cd) fns = Some e -> e_payable e = false -> value <> 0 -> spec_dispatch_m fns fb cd value = Revert.
Proof. intros. unfold spec_dispatch_m. eapply spec_nonpayable_refuses; eassumption. Qed.

Lemma tie_arm_m_sound kind c mincds F arm :
  tie_arm_m kind c mincds F arm = 1 -> arm = tpl_of kind (mut_payable (mut_of_code c)) mincds F.
Proof. unfold tie_arm_m. apply tie_arm_sound. Qed.

Lemma tpl_of_fallback p mincds F : tpl_of 4 p mincds F = tpl_fallback p.
Proof. reflexivity. Qed.
