(* C07: runtime support for the generated translation of jumptable_utils (dicts as association lists in
   insertion order, len(set(..)), fallible %, folds in the jres monad).  No proofs. *)
From Coq Require Import ZArith List Bool.
From Verif Require Import C07.Jumptable.
Import ListNotations.
Open Scope Z_scope.

Definition jmod (a b : Z) : jres Z := if b =? 0 then JErr JZeroDivision else JOk (a mod b).

Fixpoint jfold {A B} (f : A -> B -> jres A) (l : list B) (a : A) : jres A :=
  match l with
  | [] => JOk a
  | x :: t => match f a x with JOk a' => jfold f t a' | JErr e => JErr e end
  end.

(* set(l) has as many elements as l has distinct values *)
Fixpoint dedup (l : list Z) : list Z :=
  match l with [] => [] | x :: t => if mem_z x t then dedup t else x :: dedup t end.
Definition pyset_len (l : list Z) : Z := zlen (dedup l).

(* d.setdefault(k, v) *)
Fixpoint d_setdefault (k : Z) (v : list Z) (d : buckets) : buckets :=
  match d with
  | [] => [(k, v)]
  | (k', l) :: t => if k =? k' then (k', l) :: t else (k', l) :: d_setdefault k v t
  end.
(* d[k].append(x): KeyError when k is absent *)
Fixpoint d_append_at (k x : Z) (d : buckets) : jres buckets :=
  match d with
  | [] => JErr JKeyError
  | (k', l) :: t =>
      if k =? k' then JOk ((k', l ++ [x]) :: t)
      else match d_append_at k x t with JOk t' => JOk ((k', l) :: t') | JErr e => JErr e end
  end.
(* d[k] = v : replace in place or insert at the end *)
Fixpoint db_set {V} (k : Z) (v : V) (d : list (Z * V)) : list (Z * V) :=
  match d with
  | [] => [(k, v)]
  | (k', v') :: t => if k =? k' then (k', v) :: t else (k', v') :: db_set k v t
  end.
