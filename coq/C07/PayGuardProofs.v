(* C07: proofs about the guard templates of PayGuard.v:
   - arm_eqb is sound (the syntactic tie really identifies the extracted arm with the template);
   - every template computes the entry checks of the dispatcher models of Dispatch.v (checks_linear / checks_sparse /
     checks_venom / the tail of dense_core / do_fallback), which are proved equal to spec_dispatch elsewhere;
   - every template of a non-payable entry refuses every non-zero call value before the body is entered. *)
From Coq Require Import ZArith List Bool Lia.
From Verif Require Import Base.Word256 C07.Jumptable C07.Dispatch C07.DispatchProofs C07.DenseProofs C07.PayGuard.
Import ListNotations.
Open Scope Z_scope.

(* ---------- soundness of the syntactic comparison ---------- *)
Lemma gop2_eqb_eq a b : gop2_eqb a b = true -> a = b.
Proof. destruct a, b; cbn; congruence. Qed.
Lemma gx_eqb_eq : forall a b, gx_eqb a b = true -> a = b.
Proof.
  induction a as [z| | | | | |o a IHa|o a1 IHa1 a2 IHa2]; intros b; destruct b as [z'| | | | | |o' b|o' b1 b2];
    repeat match goal with q : gop1 |- _ => destruct q end;
    cbn; try discriminate; intros H; try reflexivity.
  - apply Z.eqb_eq in H. congruence.
  - f_equal. auto.
  - apply andb_true_iff in H. destruct H as [H H2]. apply andb_true_iff in H. destruct H as [H0 H1].
    apply gop2_eqb_eq in H0. f_equal; auto.
Qed.
Lemma gstmt_eqb_eq a b : gstmt_eqb a b = true -> a = b.
Proof. destruct a, b; cbn; try discriminate; intros H; try reflexivity; f_equal; apply gx_eqb_eq; assumption. Qed.
Lemma arm_eqb_eq : forall a b, arm_eqb a b = true -> a = b.
Proof.
  induction a; destruct b; cbn; try discriminate; intros H; [reflexivity|].
  apply andb_true_iff in H. destruct H as [H1 H2]. f_equal; [apply gstmt_eqb_eq | apply IHa]; assumption.
Qed.
Lemma tie_arm_sound kind payable mincds F arm :
  tie_arm kind payable mincds F arm = 1 -> arm = tpl_of kind payable mincds F.
Proof.
  unfold tie_arm. destruct (arm_eqb arm (tpl_of kind payable mincds F)) eqn:E; [|discriminate].
  intros _. apply arm_eqb_eq. assumption.
Qed.

(* ---------- templates compute the entry checks of the dispatcher models ---------- *)
Definition of_outcome (o : outcome) : aout :=
  match o with Enter _ => AEnter | Default => AFallback | Revert => ARevert end.
Definition env_of (cd : list Z) (value info mid : Z) : genv := mkGenv value (cds cd) info mid.

Lemma nz_b2z b : nz (Word256.b2z b) = b.
Proof. destruct b; reflexivity. Qed.

Lemma tpl_linear_legacy_model e cd value info mid :
  run_arm (tpl_linear_legacy e) (env_of cd value info mid) = of_outcome (checks_linear e cd value).
Proof.
  unfold tpl_linear_legacy, checks_linear, env_of, nonpayable_assert, x_iszero.
  destruct (e_payable e); cbn [app run_arm geval option_map v_value v_cds ev2 negb andb].
  - destruct (nz (w_iszero (w_lt (cds cd) (e_mincds e)))); reflexivity.
  - destruct (nz (w_iszero value)); cbn [negb]; [|reflexivity].
    destruct (nz (w_iszero (w_lt (cds cd) (e_mincds e)))); reflexivity.
Qed.

Lemma tpl_sparse_legacy_model e cd value info mid :
  run_arm (tpl_sparse_legacy e) (env_of cd value info mid) = of_outcome (checks_sparse e cd value).
Proof.
  unfold tpl_sparse_legacy, checks_sparse, env_of, x_iszero.
  destruct (e_payable e), (e_mincds e =? 4); cbn [run_arm geval option_map v_value v_cds ev2];
    match goal with |- context [nz ?w] => destruct (nz w) end; reflexivity.
Qed.

Lemma tpl_venom_model e cd value info mid :
  run_arm (tpl_venom e) (env_of cd value info mid) = of_outcome (checks_venom e cd value).
Proof.
  unfold tpl_venom, checks_venom, env_of, nonpayable_assert, x_iszero.
  destruct (e_payable e), (4 <? e_mincds e); cbn [app run_arm geval option_map v_value v_cds ev2 negb andb];
    repeat match goal with |- context [nz ?w] => destruct (nz w); cbn [negb andb] end; reflexivity.
Qed.

Lemma tpl_fallback_model p value cdsz info mid :
  run_arm (tpl_fallback p) (mkGenv value cdsz info mid) =
  match do_fallback (Some p) value with Default => AEnter (* the body of __default__ *) | _ => ARevert end.
Proof.
  unfold tpl_fallback, do_fallback, nonpayable_assert, x_iszero.
  destruct p; cbn [app run_arm geval option_map v_value orb]; [reflexivity|].
  rewrite nz_iszero. destruct (value =? 0); reflexivity.
Qed.

(* the part of dense_core after the function-info word has been read *)
Definition dense_tail (F : Z) (fb : option bool) (cd : list Z) (value func_info : Z) : outcome :=
  let mid := calldata_method_id cd in
  let fn_metadata_mask := 2 ^ (F * 8) - 1 in
  let calldatasize_mask := fn_metadata_mask - 1 in
  let is_nonpayable := w_and 1 func_info in
  let expected_calldatasize := w_and calldatasize_mask func_info in
  let function_label := w_and 65535 (w_shr (F * 8) func_info) in
  let function_method_id := w_shr ((F + 2) * 8) func_info in
  let calldatasize_valid := w_gt (cds cd) 3 in
  let method_id_correct := w_eq function_method_id mid in
  let should_fallback := w_iszero (w_and calldatasize_valid method_id_correct) in
  if nz should_fallback then do_fallback fb value
  else
    let bad_callvalue := w_mul is_nonpayable value in
    let bad_calldatasize := w_lt (cds cd) expected_calldatasize in
    if nz (w_iszero (w_or bad_callvalue bad_calldatasize)) then Enter function_label else Revert.

Lemma dense_core_tail t fb cd value :
  dense_core t fb cd value =
  match nth_z (dt_headers t) (w_mod (calldata_method_id cd) (dt_n t)) with
  | None => None
  | Some hdr =>
    match al_find (w_and 65535 (w_shr 8 hdr)) (dt_data t) with
    | None => None
    | Some infos =>
      match nth_z infos (w_mod (w_shr BITS_MAGIC (w_mul (w_shr 24 hdr) (calldata_method_id cd))) (w_and 255 hdr)) with
      | None => None
      | Some func_info => Some (dense_tail (dt_F t) fb cd value func_info)
      end
    end
  end.
Proof.
  unfold dense_core, dense_tail.
  destruct (nth_z (dt_headers t) (w_mod (calldata_method_id cd) (dt_n t))) as [hdr|]; [|reflexivity].
  destruct (al_find (w_and 65535 (w_shr 8 hdr)) (dt_data t)) as [infos|]; [|reflexivity].
  destruct (nth_z infos _) as [fi|]; [|reflexivity].
  cbv zeta. destruct (nz _); [reflexivity|]. destruct (nz _); reflexivity.
Qed.

(* the dense template is that tail (the fallback target is the __default__ arm / revert: do_fallback) *)
Definition of_dense_outcome (F : Z) (fb : option bool) (value : Z) (a : aout) : option outcome :=
  match a with
  | ARevert => Some Revert | AFallback => Some (do_fallback fb value) | AEnterAt l => Some (Enter l)
  | AEnter | AStuck => None
  end.
Lemma tpl_dense_model F fb cd value func_info :
  of_dense_outcome F fb value (run_arm (tpl_dense F) (env_of cd value func_info (calldata_method_id cd)))
  = Some (dense_tail F fb cd value func_info).
Proof.
  unfold tpl_dense, dense_tail, env_of, x_iszero, x_is_nonpayable.
  cbn [run_arm geval option_map v_value v_cds v_info v_mid ev2]. cbv zeta.
  destruct (nz (w_iszero (w_and (w_gt (cds cd) 3) (w_eq (w_shr ((F + 2) * 8) func_info) (calldata_method_id cd)))));
    [reflexivity|].
  destruct (nz (w_iszero (w_or (w_mul (w_and 1 func_info) value)
                               (w_lt (cds cd) (w_and (2 ^ (F * 8) - 1 - 1) func_info))))); reflexivity.
Qed.

(* ---------- a non-payable entry refuses every non-zero call value ---------- *)
Definition refused (a : aout) : Prop := a = ARevert.

Lemma nz_iszero_nonzero v : v <> 0 -> nz (w_iszero v) = false.
Proof. intros H. rewrite nz_iszero. apply Z.eqb_neq. assumption. Qed.

Lemma linear_legacy_refuses e en :
  e_payable e = false -> v_value en <> 0 -> run_arm (tpl_linear_legacy e) en = ARevert.
Proof.
  intros Hp Hv. unfold tpl_linear_legacy, nonpayable_assert, x_iszero. rewrite Hp.
  cbn [app run_arm geval option_map]. rewrite nz_iszero_nonzero by assumption. reflexivity.
Qed.
Lemma venom_refuses e en :
  e_payable e = false -> v_value en <> 0 -> run_arm (tpl_venom e) en = ARevert.
Proof.
  intros Hp Hv. unfold tpl_venom, nonpayable_assert, x_iszero. rewrite Hp.
  cbn [app run_arm geval option_map]. rewrite nz_iszero_nonzero by assumption. reflexivity.
Qed.
Lemma fallback_refuses en : v_value en <> 0 -> run_arm (tpl_fallback false) en = ARevert.
Proof.
  intros Hv. unfold tpl_fallback, nonpayable_assert, x_iszero.
  cbn [app run_arm geval option_map]. rewrite nz_iszero_nonzero by assumption. reflexivity.
Qed.
Lemma lor_nonzero_l a b : 0 <= a -> a <> 0 -> Z.lor a b <> 0.
Proof. intros H0 Ha E. apply Z.lor_eq_0_iff in E. destruct E. contradiction. Qed.
Lemma sparse_legacy_refuses e en :
  e_payable e = false -> 0 <= v_value en -> v_value en <> 0 -> run_arm (tpl_sparse_legacy e) en = ARevert.
Proof.
  intros Hp H0 Hv. unfold tpl_sparse_legacy, x_iszero. rewrite Hp.
  destruct (e_mincds e =? 4); cbn [run_arm geval option_map ev2]; unfold w_or;
    rewrite nz_iszero_nonzero by (apply lor_nonzero_l; assumption); reflexivity.
Qed.
(* dense: whatever the other fields of the info word are, a set non-payable bit and a non-zero value below 2^256
   end in the fallback (method id mismatch) or in a revert - never in a function *)
Lemma dense_refuses F en :
  w_and 1 (v_info en) = 1 -> 0 < v_value en < W ->
  run_arm (tpl_dense F) en = AFallback \/ run_arm (tpl_dense F) en = ARevert.
Proof.
  intros Hb Hv. unfold tpl_dense, x_iszero, x_is_nonpayable.
  cbn [run_arm geval option_map ev2].
  destruct (nz (w_iszero (w_and (w_gt (v_cds en) 3) (w_eq (w_shr ((F + 2) * 8) (v_info en)) (v_mid en)))));
    [left; reflexivity|right].
  rewrite Hb. unfold w_mul. rewrite Z.mul_1_l, Z.mod_small by lia. unfold w_or.
  rewrite nz_iszero_nonzero by (apply lor_nonzero_l; lia). reflexivity.
Qed.
(* ... and the bit IS set in the info word the compiler packs for a non-payable entry (metadata = mincds | 1) *)
Lemma dense_refuses_packed F e en :
  1 <= F <= 26 -> 0 <= e_id e -> 0 <= e_target e < 2 ^ 16 ->
  4 <= e_mincds e -> (e_mincds e - 4) mod 32 = 0 -> e_mincds e < 2 ^ (8 * F) ->
  e_payable e = false -> v_info en = info_word F e -> 0 < v_value en < W ->
  run_arm (tpl_dense F) en = AFallback \/ run_arm (tpl_dense F) en = ARevert.
Proof.
  intros HF Hid Ht H4 H32 Hlt Hp Hi Hv. apply dense_refuses; [|assumption].
  destruct (info_unpack F e HF Hid Ht H4 H32 Hlt) as (_ & _ & _ & H1). rewrite Hi, H1, Hp. reflexivity.
Qed.

(* the specification itself: a call that selects a non-payable entry with a non-zero value reverts *)
Lemma spec_nonpayable_refuses fns fb cd value e :
  find (selects cd) fns = Some e -> e_payable e = false -> value <> 0 -> spec_dispatch fns fb cd value = Revert.
Proof.
  intros Hf Hp Hv. unfold spec_dispatch. rewrite Hf. unfold entry_conditions. rewrite Hp.
  apply Z.eqb_neq in Hv. rewrite Hv. reflexivity.
Qed.

(* the guard that accepts even values (bitwise and instead of mul) is NOT refusing: the theorem above is about the
   emitted operator, not about any arm of this shape *)
Definition tpl_dense_bitand (F : Z) : list gstmt :=
  [SFallbackIf (x_iszero (G2 OAnd (G2 OGt GCalldatasize (GLit 3))
                                   (G2 OEq (G2 OShr (GLit ((F + 2) * 8)) GInfo) GMid)));
   SAssert (x_iszero (G2 OOr (G2 OAnd x_is_nonpayable GCallvalue)
                              (G2 OLt GCalldatasize (G2 OAnd (GLit (2 ^ (F * 8) - 1 - 1)) GInfo))));
   SEnterLabel (G2 OAnd (GLit 65535) (G2 OShr (GLit (F * 8)) GInfo))].
