(* C07: the dispatcher models equal spec_dispatch. *)
From Coq Require Import ZArith List Bool Lia Permutation.
From Verif Require Import Base.Word256 C07.Jumptable C07.JumptableProofs C07.Dispatch.
Import ListNotations.
Open Scope Z_scope.
Ltac Zify.zify_post_hook ::= Z.to_euclidean_division_equations.

Definition byte_ok (b : Z) : Prop := 0 <= b < 256.
Definition calldata_ok (cd : list Z) : Prop := Forall byte_ok cd.
Definition value_ok (v : Z) : Prop := 0 <= v < W.
Definition entry_ok (e : entry) : Prop := 0 <= e_id e < 2 ^ 32 /\ 4 <= e_mincds e.
Definition fns_ok (fns : list entry) : Prop := Forall entry_ok fns /\ NoDup (map e_id fns).

Lemma W_val : W = 2 ^ 256. Proof. reflexivity. Qed.

(* ---------- calldata ---------- *)
Lemma be4 a b c d : be [a; b; c; d] = ((a * 256 + b) * 256 + c) * 256 + d.
Proof. unfold be. cbn. lia. Qed.

Lemma mid_cases cd : calldata_ok cd ->
  0 <= calldata_method_id cd < 2 ^ 32 /\
  (cds cd < 4 -> calldata_method_id cd mod 256 = 0) /\
  (4 <= cds cd -> calldata_method_id cd = be (firstn 4 cd)).
Proof.
  intros H. unfold calldata_method_id, cds, zlen. unfold calldata_ok in H.
  destruct cd as [|a [|b [|c [|d t]]]]; cbn [app firstn length];
    repeat match goal with H : Forall byte_ok (_ :: _) |- _ => inversion H; clear H; subst end;
    unfold byte_ok in *; rewrite ?be4; change (2 ^ 32) with 4294967296;
    (split; [lia | split; [intros; try lia | intros; try lia; try reflexivity]]).
Qed.

(* a zero-padded short selector can equal a method id only if that id ends in a zero byte: this is why
   the sparse dispatcher needs (and only needs) the calldatasize >= 4 guard for such ids *)
Lemma short_calldata_no_false_match cd id :
  calldata_ok cd -> cds cd < 4 -> calldata_method_id cd = id -> trailing_zero id = true.
Proof.
  intros H Hs <-. unfold trailing_zero. apply Z.eqb_eq. apply mid_cases; assumption.
Qed.

(* the condition actually tested by the emitted code coincides with the specification's *)
Definition matches (mid : Z) (cd : list Z) (e : entry) : bool :=
  if trailing_zero (e_id e) then (4 <=? cds cd) && (mid =? e_id e) else mid =? e_id e.

Lemma matches_selects cd e :
  calldata_ok cd -> matches (calldata_method_id cd) cd e = selects cd e.
Proof.
  intros H. destruct (mid_cases cd H) as (_ & Hs & Hl). unfold matches, selects.
  destruct (4 <=? cds cd) eqn:E.
  - apply Z.leb_le in E. rewrite Hl by assumption. cbn [andb]. destruct (trailing_zero (e_id e)); reflexivity.
  - apply Z.leb_gt in E. cbn [andb]. destruct (trailing_zero (e_id e)) eqn:Et; [reflexivity|].
    destruct (calldata_method_id cd =? e_id e) eqn:Em; [|reflexivity].
    apply Z.eqb_eq in Em. apply short_calldata_no_false_match in Em; [congruence | assumption | assumption].
Qed.

Lemma selects_id cd e : calldata_ok cd -> selects cd e = true -> 4 <= cds cd /\ e_id e = calldata_method_id cd.
Proof.
  intros H Hs. unfold selects in Hs. apply andb_true_iff in Hs. destruct Hs as [H1 H2].
  apply Z.leb_le in H1. apply Z.eqb_eq in H2. destruct (mid_cases cd H) as (_ & _ & Hl). rewrite Hl by assumption. auto.
Qed.

(* ---------- entry checks ---------- *)
Lemma nz_iszero x : nz (w_iszero x) = (x =? 0).
Proof. unfold nz, w_iszero, Word256.b2z. destruct (x =? 0); reflexivity. Qed.
Lemma nz_lt a b : nz (w_lt a b) = (a <? b).
Proof. unfold nz, w_lt, Word256.b2z. destruct (a <? b); reflexivity. Qed.
Lemma nz_eq a b : nz (w_eq a b) = (a =? b).
Proof. unfold nz, w_eq, Word256.b2z. destruct (a =? b); reflexivity. Qed.
Lemma wlt_eq0 a b : (w_lt a b =? 0) = negb (a <? b).
Proof. unfold w_lt, Word256.b2z. destruct (a <? b); reflexivity. Qed.

Lemma checks_linear_ok e cd value : checks_linear e cd value = entry_conditions e cd value.
Proof.
  unfold checks_linear, entry_conditions. rewrite !nz_iszero, wlt_eq0.
  destruct (e_payable e), (value =? 0), (cds cd <? e_mincds e); reflexivity.
Qed.

Lemma checks_venom_ok e cd value :
  4 <= cds cd -> checks_venom e cd value = entry_conditions e cd value.
Proof.
  intros H. unfold checks_venom, entry_conditions. rewrite !nz_iszero, wlt_eq0.
  destruct (4 <? e_mincds e) eqn:E4.
  - destruct (e_payable e), (value =? 0), (cds cd <? e_mincds e); reflexivity.
  - apply Z.ltb_ge in E4. assert (Hc : cds cd <? e_mincds e = false) by (apply Z.ltb_ge; lia).
    rewrite Hc. destruct (e_payable e), (value =? 0); reflexivity.
Qed.

Lemma lor_zero a b : (Z.lor a b =? 0) = (a =? 0) && (b =? 0).
Proof.
  destruct (Z.lor a b =? 0) eqn:E.
  - apply Z.eqb_eq in E. apply Z.lor_eq_0_iff in E. destruct E as [-> ->]. reflexivity.
  - destruct (a =? 0) eqn:Ea, (b =? 0) eqn:Eb; try reflexivity.
    apply Z.eqb_eq in Ea, Eb. subst. discriminate.
Qed.

Lemma checks_sparse_ok e cd value :
  4 <= cds cd -> 4 <= e_mincds e -> checks_sparse e cd value = entry_conditions e cd value.
Proof.
  intros H Hm. unfold checks_sparse, entry_conditions. rewrite nz_iszero. unfold w_or. rewrite lor_zero.
  destruct (e_mincds e =? 4) eqn:E4.
  - apply Z.eqb_eq in E4. assert (Hc : cds cd <? e_mincds e = false) by (apply Z.ltb_ge; lia). rewrite Hc.
    destruct (e_payable e); cbn; [reflexivity|]. destruct (value =? 0); reflexivity.
  - rewrite wlt_eq0. destruct (e_payable e), (value =? 0), (cds cd <? e_mincds e); reflexivity.
Qed.

(* ---------- linear ---------- *)
Lemma linear_scan_find chk es mid fb cd value :
  linear_scan chk es mid fb cd value =
  match find (fun e => mid =? e_id e) es with Some e => chk e cd value | None => do_fallback fb value end.
Proof.
  induction es as [|e t IH]; cbn [linear_scan find]; [reflexivity|].
  rewrite nz_eq. destruct (mid =? e_id e); [reflexivity | assumption].
Qed.

Lemma find_ext {A} (f g : A -> bool) l : (forall x, In x l -> f x = g x) -> find f l = find g l.
Proof.
  induction l as [|x t IH]; cbn; intros H; [reflexivity|].
  rewrite (H x) by auto. destruct (g x); [reflexivity|]. apply IH. intros; apply H; auto.
Qed.

Lemma selects_long cd e : calldata_ok cd -> 4 <= cds cd -> selects cd e = (calldata_method_id cd =? e_id e).
Proof.
  intros H H4. destruct (mid_cases cd H) as (_ & _ & Hl). unfold selects. rewrite Hl by assumption.
  apply Z.leb_le in H4. rewrite H4. reflexivity.
Qed.

Lemma selects_short cd e : cds cd < 4 -> selects cd e = false.
Proof. intros H. unfold selects. apply Z.leb_gt in H. rewrite H. reflexivity. Qed.

Lemma find_none_all {A} (f : A -> bool) l : (forall x, In x l -> f x = false) -> find f l = None.
Proof. induction l as [|x t IH]; cbn; intros H; [reflexivity|]. rewrite H by auto. apply IH. intros; apply H; auto. Qed.

Lemma spec_short fns fb cd value : cds cd < 4 -> spec_dispatch fns fb cd value = do_fallback fb value.
Proof.
  intros H. unfold spec_dispatch. rewrite find_none_all; [reflexivity|]. intros; apply selects_short; assumption.
Qed.

Theorem linear_dispatch_legacy_spec fns fb cd value :
  calldata_ok cd -> linear_dispatch_legacy fns fb cd value = spec_dispatch fns fb cd value.
Proof.
  intros Hcd. unfold linear_dispatch_legacy. destruct fns as [|e0 t]; [reflexivity|]. set (fns := e0 :: t).
  rewrite nz_lt. destruct (cds cd <? 4) eqn:E.
  - apply Z.ltb_lt in E. rewrite spec_short by assumption. reflexivity.
  - apply Z.ltb_ge in E. rewrite linear_scan_find. unfold spec_dispatch.
    rewrite (find_ext (selects cd) (fun e => calldata_method_id cd =? e_id e)) by (intros; apply selects_long; assumption).
    destruct (find _ fns); [apply checks_linear_ok | reflexivity].
Qed.

Theorem linear_dispatch_venom_spec fns fb cd value :
  calldata_ok cd -> linear_dispatch_venom fns fb cd value = spec_dispatch fns fb cd value.
Proof.
  intros Hcd. unfold linear_dispatch_venom. rewrite nz_iszero, wlt_eq0. destruct (cds cd <? 4) eqn:E; cbn [negb].
  - apply Z.ltb_lt in E. rewrite spec_short by assumption. reflexivity.
  - apply Z.ltb_ge in E. rewrite linear_scan_find. unfold spec_dispatch.
    rewrite (find_ext (selects cd) (fun e => calldata_method_id cd =? e_id e)) by (intros; apply selects_long; assumption).
    destruct (find _ fns); [apply checks_venom_ok; assumption | reflexivity].
Qed.

(* ---------- sparse ---------- *)
Lemma bucket_scan_find chk es mid fb cd value :
  bucket_scan chk es mid fb cd value =
  match find (matches mid cd) es with Some e => chk e cd value | None => do_fallback fb value end.
Proof.
  induction es as [|e t IH]; cbn [bucket_scan find]; [reflexivity|].
  unfold matches at 1. rewrite nz_eq.
  assert (Hand : nz (w_and (w_iszero (w_lt (cds cd) 4)) (w_eq mid (e_id e))) = (4 <=? cds cd) && (mid =? e_id e)).
  { unfold nz, w_and, w_iszero, w_eq, w_lt, Word256.b2z. rewrite Z.leb_antisym.
    destruct (cds cd <? 4), (mid =? e_id e); reflexivity. }
  rewrite Hand. destruct (trailing_zero (e_id e)).
  - destruct ((4 <=? cds cd) && (mid =? e_id e)); [reflexivity | assumption].
  - destruct (mid =? e_id e); [reflexivity | assumption].
Qed.

Lemma lookup_entry_in fns e : NoDup (map e_id fns) -> In e fns -> lookup_entry fns (e_id e) = Some e.
Proof.
  unfold lookup_entry. induction fns as [|x t IH]; cbn; [tauto|]. intros Hnd [->|Hin].
  - rewrite Z.eqb_refl. reflexivity.
  - inversion Hnd; subst. destruct (e_id x =? e_id e) eqn:E; [|auto].
    apply Z.eqb_eq in E. exfalso. apply H1. rewrite E. apply in_map. assumption.
Qed.

(* the ids of a bucket map back to exactly the entries with those ids, in table order *)
Lemma entries_of_filter fns (p : Z -> bool) : forall sub,
  NoDup (map e_id fns) -> incl sub fns ->
  entries_of fns (filter p (map e_id sub)) = Some (filter (fun e => p (e_id e)) sub).
Proof.
  induction sub as [|e t IH]; intros Hnd Hincl; [reflexivity|]. cbn [map filter].
  assert (Ht : incl t fns) by (intros x Hx; apply Hincl; right; assumption).
  destruct (p (e_id e)); [|auto]. cbn [entries_of].
  rewrite lookup_entry_in by (auto; apply Hincl; left; reflexivity). rewrite IH by assumption. reflexivity.
Qed.

Lemma find_filter {A} (f p : A -> bool) l : (forall x, f x = true -> p x = true) -> find f (filter p l) = find f l.
Proof.
  intros H. induction l as [|x t IH]; [reflexivity|]. cbn [filter find].
  destruct (p x) eqn:Ep; cbn [find].
  - destruct (f x); [reflexivity | assumption].
  - destruct (f x) eqn:Ef; [apply H in Ef; congruence | assumption].
Qed.

(* scanning the bucket [mid mod n] with the emitted tests = searching the whole table with the spec test *)
Lemma scan_bucket_spec chk fns fb cd value n :
  calldata_ok cd -> fns_ok fns -> n <> 0 ->
  (forall e, In e fns -> 4 <= cds cd -> chk e cd value = entry_conditions e cd value) ->
  let mid := calldata_method_id cd in
  bucket_scan chk (filter (fun e => in_bucket n (mid mod n) (e_id e)) fns) mid fb cd value
  = spec_dispatch fns fb cd value.
Proof.
  intros Hcd [Hok Hnd] Hn Hchk mid. rewrite bucket_scan_find. unfold spec_dispatch.
  rewrite (find_ext (matches mid cd) (selects cd)) by (intros; apply matches_selects; assumption).
  rewrite find_filter.
  - destruct (find (selects cd) fns) as [e|] eqn:Ef; [|reflexivity].
    apply find_some in Ef. destruct Ef as [Hin Hs]. apply selects_id in Hs; [|assumption]. apply Hchk; tauto.
  - intros e Hs. apply selects_id in Hs; [|assumption]. destruct Hs as [_ ->]. unfold in_bucket. apply Z.eqb_refl.
Qed.

Lemma mk_buckets_mkb ids n bk : n <> 0 -> mk_buckets ids n = JOk bk -> bk = mkb ids n.
Proof. unfold mk_buckets. intros Hn. apply Z.eqb_neq in Hn. rewrite Hn. intros [= <-]. reflexivity. Qed.

Lemma w_mod_nz a n : n <> 0 -> w_mod a n = a mod n.
Proof. intros H. unfold w_mod. apply Z.eqb_neq in H. rewrite H. reflexivity. Qed.

Lemma filter_nil_find_none fns cd n :
  calldata_ok cd ->
  filter (in_bucket n (calldata_method_id cd mod n)) (map e_id fns) = [] -> find (selects cd) fns = None.
Proof.
  intros Hcd Hf. apply find_none_all. intros e Hin. destruct (selects cd e) eqn:Es; [|reflexivity].
  apply selects_id in Es; [|assumption]. destruct Es as [_ Hid].
  assert (Hx : In (e_id e) (filter (in_bucket n (calldata_method_id cd mod n)) (map e_id fns))).
  { apply filter_In. split; [apply in_map; assumption|]. unfold in_bucket. rewrite Hid. apply Z.eqb_refl. }
  rewrite Hf in Hx. contradiction.
Qed.

Lemma sparse_bucket_case chk fns fb cd value n :
  calldata_ok cd -> fns_ok fns -> n <> 0 ->
  (forall e, In e fns -> 4 <= cds cd -> chk e cd value = entry_conditions e cd value) ->
  let mid := calldata_method_id cd in
  match al_find (mid mod n) (mkb (map e_id fns) n) with
  | None => Some (do_fallback fb value)
  | Some l => option_map (fun es => bucket_scan chk es mid fb cd value) (entries_of fns l)
  end = Some (spec_dispatch fns fb cd value).
Proof.
  intros Hcd Hok Hn Hchk mid. rewrite mkb_find.
  destruct (filter (in_bucket n (mid mod n)) (map e_id fns)) as [|y l'] eqn:Ef.
  - unfold spec_dispatch. rewrite (filter_nil_find_none fns cd n) by assumption. reflexivity.
  - rewrite <- Ef. rewrite entries_of_filter; [|apply Hok | apply incl_refl]. cbn [option_map].
    f_equal. apply scan_bucket_spec; assumption.
Qed.

Theorem sparse_dispatch_legacy_spec fns fb cd value n bk :
  calldata_ok cd -> fns_ok fns -> 1 <= n -> mk_buckets (map e_id fns) n = JOk bk ->
  sparse_dispatch_legacy n bk fns fb cd value = Some (spec_dispatch fns fb cd value).
Proof.
  intros Hcd Hok Hn Hbk. apply mk_buckets_mkb in Hbk; [|lia]. subst bk.
  unfold sparse_dispatch_legacy. destruct fns as [|e0 t]; [reflexivity|]. set (fns := e0 :: t) in *.
  assert (Hchk : forall e, In e fns -> 4 <= cds cd -> checks_sparse e cd value = entry_conditions e cd value).
  { intros e Hin H4. apply checks_sparse_ok; [assumption|]. destruct Hok as [Hall _].
    rewrite Forall_forall in Hall. apply Hall in Hin. apply Hin. }
  destruct (1 <? n) eqn:E1.
  - rewrite w_mod_nz by lia. apply sparse_bucket_case; try assumption; lia.
  - apply Z.ltb_ge in E1. assert (n = 1) by lia. subst n.
    (* one bucket: everything is in bucket 0, which is the first (only) one *)
    pose proof (sparse_bucket_case checks_sparse fns fb cd value 1 Hcd Hok ltac:(lia) Hchk) as Hc.
    cbn zeta in Hc. rewrite Z.mod_1_r in Hc.
    destruct (mkb (map e_id fns) 1) as [|[k l] rest] eqn:Em.
    + cbn [al_find] in Hc. assumption.
    + assert (Hk : k = 0).
      { assert (Hin : In k (keys (mkb (map e_id fns) 1))) by (rewrite Em; left; reflexivity).
        apply mkb_keys_range in Hin; lia. }
      subst k. cbn [al_find] in Hc. rewrite Z.eqb_refl in Hc. assumption.
Qed.

Theorem sparse_dispatch_venom_spec fns fb cd value n bk :
  calldata_ok cd -> fns_ok fns -> 1 <= n -> mk_buckets (map e_id fns) n = JOk bk ->
  sparse_dispatch_venom n bk fns fb cd value = Some (spec_dispatch fns fb cd value).
Proof.
  intros Hcd Hok Hn Hbk. apply mk_buckets_mkb in Hbk; [|lia]. subst bk.
  unfold sparse_dispatch_venom. rewrite nz_iszero, wlt_eq0. destruct (cds cd <? 4) eqn:E; cbn [negb].
  - apply Z.ltb_lt in E. rewrite spec_short by assumption. reflexivity.
  - rewrite w_mod_nz by lia. apply sparse_bucket_case; try assumption; [lia|].
    intros e _ H4. apply checks_venom_ok. assumption.
Qed.

(* ---------- dispatch depends only on the first four bytes, the length and the value ---------- *)
Lemma spec_dispatch_prefix fns fb cd cd' value :
  firstn 4 cd = firstn 4 cd' -> cds cd = cds cd' -> spec_dispatch fns fb cd value = spec_dispatch fns fb cd' value.
Proof.
  intros Hp Hl. unfold spec_dispatch.
  rewrite (find_ext (selects cd) (selects cd')) by (intros; unfold selects; rewrite Hp, Hl; reflexivity).
  destruct (find (selects cd') fns); [|reflexivity]. unfold entry_conditions. rewrite Hl. reflexivity.
Qed.
