(* C07: encoders used by tools/checks/c07.py to compare model outputs with the implementation
   (vm_compute inside coqc).  No proofs. *)
From Coq Require Import ZArith List Bool.
From Verif Require Import Base.Word256 C07.Jumptable C07.Dispatch.
Import ListNotations.
Open Scope Z_scope.

Definition enc_err (e : jerr) : Z :=
  match e with HasEmptyBuckets => 1 | FindMagicFailure => 2 | JRuntimeError => 3 | JZeroDivision => 4
             | JOutOfFuel => 5 | JValueError => 6 | JKeyError => 7 end.
Definition enc_buckets (bk : buckets) : list Z := flat_map (fun p => fst p :: zlen (snd p) :: snd p) bk.
Definition enc_sol (sol : list bucket) : list Z :=
  flat_map (fun b => b_id b :: b_magic b :: zlen (b_ids b) :: (b_ids b ++ image_order (b_ids b) (b_magic b))) sol.
Definition enc_image (xs : list Z) (m : Z) : list Z := image_of xs m.
Definition enc_magic (xs : list Z) : list Z :=
  match find_magic_for xs with JOk m => 1 :: m :: image_of xs m | JErr e => [0; enc_err e] end.
Definition enc_mk (ids : list Z) (n : Z) : list Z :=
  match mk_buckets ids n with JOk bk => 1 :: enc_buckets bk | JErr e => [0; enc_err e] end.
Definition enc_dji (ids : list Z) (n : Z) : list Z :=
  match dense_jumptable_info ids n with JOk sol => 1 :: enc_sol sol | JErr e => [0; enc_err e] end.
Definition enc_dense (ids : list Z) : list Z :=
  match generate_dense ids with
  | JOk (Some (n, sol)) => 1 :: n :: enc_sol sol
  | JOk None => [2]
  | JErr e => [0; enc_err e]
  end.
Definition enc_sparse (ids : list Z) : list Z :=
  match generate_sparse ids with JOk (n, bk) => 1 :: n :: enc_buckets bk | JErr e => [0; enc_err e] end.

(* dispatch: 0 = Revert, 1 = Default, 2 + t = Enter t, -1 = model undefined *)
Definition enc_outcome (o : outcome) : Z := match o with Revert => 0 | Default => 1 | Enter t => 2 + t end.
Definition enc_oo (o : option outcome) : Z := match o with Some x => enc_outcome x | None => -1 end.
(* a call = (selector bytes (<= 4 of them), total calldata length, value); the rest of calldata is irrelevant
   for dispatch (DispatchProofs.spec_dispatch_prefix) and is taken as zeros here *)
Definition call := (list Z * Z * Z)%type.
Definition mkcd (c : call) : list Z :=
  let p := fst (fst c) in p ++ repeat 0 (Z.to_nat (snd (fst c)) - length p).
Definition run_spec (fns : list entry) (fb : option bool) (calls : list call) : list Z :=
  map (fun c => enc_outcome (spec_dispatch fns fb (mkcd c) (snd c))) calls.
(* all six model dispatchers on the same calls, tables built by the model builders *)
Definition run_models (fns : list entry) (fb : option bool) (calls : list call) : list Z :=
  let ids := map e_id fns in
  let sp := match generate_sparse ids with JOk r => Some r | JErr _ => None end in
  let dn := match generate_dense ids with JOk (Some (n, sol)) => build_dense n sol fns | _ => None end in
  flat_map (fun c =>
    let cd := mkcd c in let v := snd c in
    [ enc_outcome (linear_dispatch_legacy fns fb cd v);
      enc_outcome (linear_dispatch_venom fns fb cd v);
      match sp with Some (n, bk) => enc_oo (sparse_dispatch_legacy n bk fns fb cd v) | None => -2 end;
      match sp with Some (n, bk) => enc_oo (sparse_dispatch_venom n bk fns fb cd v) | None => -2 end;
      match dn with Some t => enc_oo (dense_dispatch_legacy t fns fb cd v) | None => -2 end;
      match dn with Some t => enc_oo (dense_dispatch_venom t fns fb cd v) | None => -2 end ]) calls.
Definition enc_strategy (s : strategy) : Z := match s with Linear => 0 | Sparse => 1 | Dense => 2 end.
