(* C07: the mutability decorator of an entry point and its payability.
   Vyper has FOUR state mutabilities; exactly one of them, @payable, accepts call value.  @nonpayable (also: no
   decorator), @view and @pure are all non-payable.  The guard templates of PayGuard.v and spec_dispatch take a
   boolean `payable`; this file fixes how that boolean is obtained from the decorator (mut_payable) so that the
   tie of tools/vlib/c07_pay.py instantiates the template of a @view / @pure entry point as NON-payable.
   Model only; proofs in MutabilityProofs.v, property theorems in PropsMut.v. *)
From Coq Require Import ZArith List Bool.
From Verif Require Import Base.Word256 C07.Jumptable C07.Dispatch C07.PayGuard.
Import ListNotations.
Open Scope Z_scope.

Inductive mutability : Set := MPayable | MNonpayable | MView | MPure.

(* the only mutability that accepts value *)
Definition mut_payable (m : mutability) : bool :=
  match m with MPayable => true | MNonpayable | MView | MPure => false end.

Definition entry_m (id : Z) (m : mutability) (mincds target : Z) : entry := mkEntry id (mut_payable m) mincds target.
Definition fb_m (m : option mutability) : option bool := option_map mut_payable m.
(* specification and __default__ / constructor guard template, by decorator *)
Definition spec_dispatch_m (fns : list entry) (fb : option mutability) (cd : list Z) (value : Z) : outcome :=
  spec_dispatch fns (fb_m fb) cd value.
Definition tpl_fallback_m (m : mutability) : list gstmt := tpl_fallback (mut_payable m).

(* a guard keyed on "the mutability IS nonpayable" instead of "is NOT payable": not the template (see PropsMut.v) *)
Definition tpl_fallback_only_nonpayable (m : mutability) : list gstmt :=
  (match m with MNonpayable => [nonpayable_assert] | _ => [] end) ++ [SEnter].

(* ---------------- harness (vm_compute from tools/vlib/c07_pay.py) ---------------- *)
(* decorator codes: 0 @payable, 1 @nonpayable / undecorated, 2 @view, 3 @pure *)
Definition mut_of_code (c : Z) : mutability :=
  if c =? 0 then MPayable else if c =? 2 then MView else if c =? 3 then MPure else MNonpayable.
Definition tie_arm_m (kind c mincds F : Z) (extracted : list gstmt) : Z :=
  tie_arm kind (mut_payable (mut_of_code c)) mincds F extracted.
Definition payable_codes (cs : list Z) : list Z := map (fun c => b2z (mut_payable (mut_of_code c))) cs.
