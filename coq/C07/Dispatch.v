(* C07: specification of selector dispatch and executable models of the dispatchers emitted by
   vyper/codegen/module.py (_selector_section_linear/_sparse/_dense) and
   vyper/codegen_venom/module.py (_generate_selector_section_linear/_sparse/_dense).
   The models use the EVM word operations of Base/Word256.v where the emitted code does arithmetic.
   No proofs in this file.  Tied to the emitted bytecode by tools/checks/c07.py (real compiler + pyrevm). *)
From Coq Require Import ZArith List Bool.
From Verif Require Import Base.Word256 C07.Jumptable.
Import ListNotations.
Open Scope Z_scope.

(* one ABI entry point (a function, or one default-argument variant of it) *)
Record entry : Set := mkEntry {
  e_id : Z;          (* four-byte method id *)
  e_payable : bool;
  e_mincds : Z;      (* min_calldatasize = 4 + static size of the arguments present in calldata *)
  e_target : Z       (* identity of the code entered (a label) *)
}.
Inductive outcome : Set := Enter (target : Z) | Default | Revert.

(* calldata = list of bytes *)
Definition be (bs : list Z) : Z := fold_left (fun a b => a * 256 + b) bs 0.
Definition cds (cd : list Z) : Z := zlen cd.                        (* calldatasize *)
(* shr(224, calldataload(0)): the first four bytes, zero-padded on the right when calldata is short *)
Definition calldata_method_id (cd : list Z) : Z := be (firstn 4 (cd ++ [0; 0; 0; 0])).

(* ---------------- specification ---------------- *)
(* fb: None = no __default__; Some payable = __default__ with that payability *)
Definition do_fallback (fb : option bool) (value : Z) : outcome :=
  match fb with
  | None => Revert
  | Some p => if p || (value =? 0) then Default else Revert
  end.
Definition selects (cd : list Z) (e : entry) : bool := (4 <=? cds cd) && (be (firstn 4 cd) =? e_id e).
Definition entry_conditions (e : entry) (cd : list Z) (value : Z) : outcome :=
  if (negb (e_payable e) && negb (value =? 0)) || (cds cd <? e_mincds e) then Revert else Enter (e_target e).
Definition spec_dispatch (fns : list entry) (fb : option bool) (cd : list Z) (value : Z) : outcome :=
  match find (selects cd) fns with
  | Some e => entry_conditions e cd value
  | None => do_fallback fb value
  end.

(* ---------------- entry checks as emitted ---------------- *)
Definition nz (w : Z) : bool := negb (w =? 0).                      (* EVM truthiness *)
(* legacy linear: [assert (iszero callvalue)] if nonpayable; [assert (ge calldatasize N)] *)
Definition checks_linear (e : entry) (cd : list Z) (value : Z) : outcome :=
  if negb (e_payable e) && negb (nz (w_iszero value)) then Revert
  else if negb (nz (w_iszero (w_lt (cds cd) (e_mincds e)))) then Revert
  else Enter (e_target e).
(* legacy sparse: [assert (iszero (or bad_callvalue bad_calldatasize))], each operand 0 when skipped *)
Definition checks_sparse (e : entry) (cd : list Z) (value : Z) : outcome :=
  let bad_callvalue := if e_payable e then 0 else value in
  let bad_calldatasize := if e_mincds e =? 4 then 0 else w_lt (cds cd) (e_mincds e) in
  if nz (w_iszero (w_or bad_callvalue bad_calldatasize)) then Enter (e_target e) else Revert.
(* venom _emit_entry_checks: nonpayable check; calldatasize check only if min_calldatasize > 4 *)
Definition checks_venom (e : entry) (cd : list Z) (value : Z) : outcome :=
  if negb (e_payable e) && negb (nz (w_iszero value)) then Revert
  else if (4 <? e_mincds e) && negb (nz (w_iszero (w_lt (cds cd) (e_mincds e)))) then Revert
  else Enter (e_target e).

(* ---------------- linear ---------------- *)
Fixpoint linear_scan (chk : entry -> list Z -> Z -> outcome) (es : list entry) (mid : Z)
         (fb : option bool) (cd : list Z) (value : Z) : outcome :=
  match es with
  | [] => do_fallback fb value
  | e :: t => if nz (w_eq mid (e_id e)) then chk e cd value else linear_scan chk t mid fb cd value
  end.
Definition linear_dispatch_legacy (fns : list entry) (fb : option bool) (cd : list Z) (value : Z) : outcome :=
  match fns with
  | [] => do_fallback fb value
  | _ => if nz (w_lt (cds cd) 4) then do_fallback fb value
         else linear_scan checks_linear fns (calldata_method_id cd) fb cd value
  end.
Definition linear_dispatch_venom (fns : list entry) (fb : option bool) (cd : list Z) (value : Z) : outcome :=
  if nz (w_iszero (w_lt (cds cd) 4)) then linear_scan checks_venom fns (calldata_method_id cd) fb cd value
  else do_fallback fb value.

(* ---------------- sparse ---------------- *)
(* sig_of[method_id] / entry_points[sig]: KeyError -> None *)
Definition lookup_entry (fns : list entry) (id : Z) : option entry := find (fun e => e_id e =? id) fns.
Fixpoint entries_of (fns : list entry) (ids : list Z) : option (list entry) :=
  match ids with
  | [] => Some []
  | i :: t => match lookup_entry fns i, entries_of fns t with
              | Some e, Some r => Some (e :: r)
              | _, _ => None
              end
  end.
(* method_id.to_bytes(4, "big").endswith(b"\x00") *)
Definition trailing_zero (id : Z) : bool := id mod 256 =? 0.
Fixpoint bucket_scan (chk : entry -> list Z -> Z -> outcome) (es : list entry) (mid : Z)
         (fb : option bool) (cd : list Z) (value : Z) : outcome :=
  match es with
  | [] => do_fallback fb value                                   (* goto fallback *)
  | e :: t =>
      let method_id_check := nz (w_eq mid (e_id e)) in
      let c := if trailing_zero (e_id e)
               then nz (w_and (w_iszero (w_lt (cds cd) 4)) (w_eq mid (e_id e)))   (* (and (ge calldatasize 4) ..) *)
               else method_id_check in
      if c then chk e cd value else bucket_scan chk t mid fb cd value
  end.
(* result None = the compiler itself would have failed (KeyError); never for well-formed input *)
Definition sparse_dispatch_legacy (n : Z) (bk : buckets) (fns : list entry) (fb : option bool)
           (cd : list Z) (value : Z) : option outcome :=
  match fns with
  | [] => Some (do_fallback fb value)
  | _ =>
    let mid := calldata_method_id cd in
    if 1 <? n then
      match al_find (w_mod mid n) bk with                         (* djump through the bucket table *)
      | None => Some (do_fallback fb value)                       (* empty bucket -> fallback *)
      | Some l => option_map (fun es => bucket_scan checks_sparse es mid fb cd value) (entries_of fns l)
      end
    else                                                          (* no jump: falls into the first bucket *)
      match bk with
      | [] => Some (do_fallback fb value)
      | (_, l) :: _ => option_map (fun es => bucket_scan checks_sparse es mid fb cd value) (entries_of fns l)
      end
  end.
Definition sparse_dispatch_venom (n : Z) (bk : buckets) (fns : list entry) (fb : option bool)
           (cd : list Z) (value : Z) : option outcome :=
  if nz (w_iszero (w_lt (cds cd) 4)) then
    let mid := calldata_method_id cd in
    match al_find (w_mod mid n) bk with
    | None => Some (do_fallback fb value)
    | Some l => option_map (fun es => bucket_scan checks_venom es mid fb cd value) (entries_of fns l)
    end
  else Some (do_fallback fb value).

(* ---------------- dense ---------------- *)
(* FN_METADATA_BYTES = (largest_mincalldatasize.bit_length() + 7) // 8 *)
Definition bit_length (x : Z) : Z := if x <=? 0 then 0 else Z.log2 x + 1.
Definition largest_mincds (fns : list entry) : Z := fold_left Z.max (map e_mincds fns) 0.
Definition fn_metadata_bytes (fns : list entry) : Z := (bit_length (largest_mincds fns) + 7) / 8.

(* data words as read by codecopy to (32 - size) + mload: big-endian fields, right-aligned *)
(* bucket header: magic <2 bytes> | location <2 bytes> | size <1 byte> *)
Definition header_word (magic loc size : Z) : Z := magic * 2 ^ 24 + loc * 2 ^ 8 + size.
(* function info: method id <4 bytes> | label <2 bytes> | metadata <F bytes>;
   metadata = min_calldatasize | int(not payable) *)
Definition metadata (e : entry) : Z := Z.lor (e_mincds e) (b2z (negb (e_payable e))).
Definition info_word (F : Z) (e : entry) : Z :=
  e_id e * 2 ^ (8 * (F + 2)) + e_target e * 2 ^ (8 * F) + metadata e.

Record dense_table : Type := mkDense {
  dt_n : Z;                       (* n_buckets *)
  dt_F : Z;                       (* FN_METADATA_BYTES *)
  dt_headers : list Z;            (* header words, index = bucket id *)
  dt_data : list (Z * list Z)     (* bucket location |-> its info words (in image order) *)
}.
Fixpoint omap {A B} (f : A -> option B) (l : list A) : option (list B) :=
  match l with
  | [] => Some []
  | x :: t => match f x, omap f t with Some y, Some r => Some (y :: r) | _, _ => None end
  end.
(* location of bucket k is abstract (its label); label resolution belongs to the assembler (C16) *)
Definition build_dense (n : Z) (sol : list bucket) (fns : list entry) : option dense_table :=
  let F := fn_metadata_bytes fns in
  if negb (4 + 2 + F <=? 32) then None else        (* assert dst >= 0 *)
  match omap (fun i => match find (fun b => b_id b =? i) sol with
                       | Some b =>      (* magic.to_bytes(2), bucket_size.to_bytes(1): OverflowError -> None *)
                           if (b_magic b <? 65536) && (zlen (b_ids b) <? 256)
                           then Some (header_word (b_magic b) (b_id b) (zlen (b_ids b))) else None
                       | None => None   (* assert i == bucket_id *)
                       end) (zrange 0 n),
        omap (fun b => option_map (fun es => (b_id b, map (info_word F) es))
                                  (entries_of fns (image_order (b_ids b) (b_magic b)))) sol with
  | Some hs, Some ds => Some (mkDense n F hs ds)
  | _, _ => None
  end.

Definition nth_z {A} (l : list A) (i : Z) : option A := if i <? 0 then None else nth_error l (Z.to_nat i).

(* None = a read outside the emitted tables (never happens for tables built from an Ok builder result) *)
Definition dense_core (t : dense_table) (fb : option bool) (cd : list Z) (value : Z) : option outcome :=
  let mid := calldata_method_id cd in
  let F := dt_F t in
  let bucket_id := w_mod mid (dt_n t) in
  match nth_z (dt_headers t) bucket_id with
  | None => None
  | Some hdr =>
    let bucket_location := w_and 65535 (w_shr 8 hdr) in
    let bucket_magic := w_shr 24 hdr in
    let bucket_size := w_and 255 hdr in
    let func_id := w_mod (w_shr BITS_MAGIC (w_mul bucket_magic mid)) bucket_size in
    match al_find bucket_location (dt_data t) with
    | None => None
    | Some infos =>
      match nth_z infos func_id with
      | None => None
      | Some func_info =>
        let fn_metadata_mask := 2 ^ (F * 8) - 1 in
        let calldatasize_mask := fn_metadata_mask - 1 in
        let is_nonpayable := w_and 1 func_info in
        let expected_calldatasize := w_and calldatasize_mask func_info in
        let function_label := w_and 65535 (w_shr (F * 8) func_info) in
        let function_method_id := w_shr ((F + 2) * 8) func_info in
        let calldatasize_valid := w_gt (cds cd) 3 in
        let method_id_correct := w_eq function_method_id mid in
        let should_fallback := w_iszero (w_and calldatasize_valid method_id_correct) in
        if nz should_fallback then Some (do_fallback fb value)
        else
          let bad_callvalue := w_mul is_nonpayable value in
          let bad_calldatasize := w_lt (cds cd) expected_calldatasize in
          if nz (w_iszero (w_or bad_callvalue bad_calldatasize)) then Some (Enter function_label)
          else Some Revert
      end
    end
  end.
Definition dense_dispatch_legacy (t : dense_table) (fns : list entry) (fb : option bool)
           (cd : list Z) (value : Z) : option outcome :=
  match fns with [] => Some (do_fallback fb value) | _ => dense_core t fb cd value end.
Definition dense_dispatch_venom (t : dense_table) (fns : list entry) (fb : option bool)
           (cd : list Z) (value : Z) : option outcome :=
  if nz (w_iszero (w_lt (cds cd) 4)) then dense_core t fb cd value else Some (do_fallback fb value).

(* strategy selection: module.py generate_ir_for_module / generate_runtime_venom
   (n_functions = number of external functions, not entry points) *)
Inductive strategy : Set := Linear | Sparse | Dense.
Definition select_legacy (opt_none opt_codesize debug : bool) (n_functions : Z) : strategy :=
  if opt_none then Linear
  else if opt_codesize && ((4 <? n_functions) || debug) then Dense
  else Sparse.
Definition select_venom (opt_none opt_codesize : bool) (n_functions : Z) : strategy :=
  if opt_none then Linear
  else if opt_codesize && (4 <? n_functions) then Dense
  else if 3 <? n_functions then Sparse
  else Linear.
