(* C07: hand-written executable model of vyper/codegen/jumptable_utils.py
   (tied to the real functions by exact-output correspondence on every run, tools/checks/c07.py).
   No proofs in this file.

   Python                         model
   _image_of(xs, magic)           image_of xs magic
   find_magic_for(xs)             find_magic_for xs         (_FindMagicFailure  -> JErr FindMagicFailure)
   _mk_buckets(ids, n)            mk_buckets ids n          (dict in insertion order -> association list)
   _dense_jumptable_info(ids, n)  dense_jumptable_info ids n (_HasEmptyBuckets  -> JErr HasEmptyBuckets)
   generate_dense_jumptable_info  generate_dense ids        (RuntimeError       -> JErr JRuntimeError)
   generate_sparse_jumptable_buckets  generate_sparse ids
   Bucket.method_ids_image_order  image_order ids magic
   The two generate_* functions take the list of method ids (the Python ones take signatures and
   hash them first with method_id_int; hashing is outside the model). *)
From Coq Require Import ZArith List Bool.
From Verif Require Import C07.GenConsts.   (* module constants, regenerated from the source on every run *)
Import ListNotations.
Open Scope Z_scope.

Inductive jerr : Set :=
  HasEmptyBuckets | FindMagicFailure | JRuntimeError | JZeroDivision | JOutOfFuel | JValueError | JKeyError.
Inductive jres (A : Type) : Type := JOk (a : A) | JErr (e : jerr).
Arguments JOk {A} _.
Arguments JErr {A} _.

Definition BITS_MAGIC : Z := g_BITS_MAGIC.
Definition MAGIC_RANGE : Z := 65536.   (* range(2**16) *)
Definition START_BUCKET_SIZE : Z := g_START_BUCKET_SIZE.

Definition zlen {A} (l : list A) : Z := Z.of_nat (length l).

(* ((x * magic) >> bits_shift) % len(xs); Python ints: unbounded *)
Definition image1 (n magic x : Z) : Z := (Z.shiftr (x * magic) BITS_MAGIC) mod n.
Definition image_of (xs : list Z) (magic : Z) : list Z := map (image1 (zlen xs) magic) xs.

Fixpoint mem_z (x : Z) (l : list Z) : bool :=
  match l with [] => false | y :: t => (x =? y) || mem_z x t end.
(* len(test) == len(set(test)) *)
Fixpoint nodupb (l : list Z) : bool :=
  match l with [] => true | x :: t => negb (mem_z x t) && nodupb t end.

Fixpoint find_magic_from (fuel : nat) (m : Z) (xs : list Z) : jres Z :=
  match fuel with
  | O => JErr FindMagicFailure
  | S f => if nodupb (image_of xs m) then JOk m else find_magic_from f (m + 1) xs
  end.
Definition find_magic_for (xs : list Z) : jres Z := find_magic_from (Z.to_nat MAGIC_RANGE) 0 xs.

(* dict[int, list[int]] in insertion order *)
Definition buckets := list (Z * list Z).
Fixpoint al_find {A} (k : Z) (al : list (Z * A)) : option A :=
  match al with [] => None | (k', v) :: t => if k =? k' then Some v else al_find k t end.
(* buckets.setdefault(t, []); buckets[t].append(x) *)
Fixpoint al_append (k x : Z) (al : buckets) : buckets :=
  match al with
  | [] => [(k, [x])]
  | (k', l) :: t => if k =? k' then (k', l ++ [x]) :: t else (k', l) :: al_append k x t
  end.
Definition mk_buckets (ids : list Z) (n : Z) : jres buckets :=
  if n =? 0 then (match ids with [] => JOk [] | _ => JErr JZeroDivision end)
  else JOk (fold_left (fun al x => al_append (x mod n) x al) ids []).

(* Bucket(bucket_id, magic, method_ids) *)
Definition bucket := (Z * Z * list Z)%type.
Definition b_id (b : bucket) : Z := fst (fst b).
Definition b_magic (b : bucket) : Z := snd (fst b).
Definition b_ids (b : bucket) : list Z := snd b.

Fixpoint magic_all (bk : buckets) : jres (list bucket) :=
  match bk with
  | [] => JOk []
  | (k, l) :: t =>
      match find_magic_for l with
      | JOk m => match magic_all t with JOk r => JOk ((k, m, l) :: r) | JErr e => JErr e end
      | JErr e => JErr e
      end
  end.
Definition dense_jumptable_info (ids : list Z) (n : Z) : jres (list bucket) :=
  match mk_buckets ids n with
  | JErr e => JErr e
  | JOk bk => if zlen bk =? n then magic_all bk else JErr HasEmptyBuckets
  end.

(* the while loop of generate_dense_jumptable_info; state = (n_buckets, ret, tried_exhaustive) *)
Fixpoint dense_loop (fuel : nat) (ids : list Z) (nb : Z) (ret : option (Z * list bucket)) (tried : bool)
  : jres (option (Z * list bucket)) :=
  match fuel with
  | O => JErr JOutOfFuel
  | S f =>
      if nb >? 0 then
        match dense_jumptable_info ids nb with
        | JOk sol => dense_loop f ids (nb - 1) (Some (nb, sol)) tried
        | JErr HasEmptyBuckets => dense_loop f ids (nb - 1) ret tried
        | JErr FindMagicFailure =>
            match ret with
            | Some _ => JOk ret                                   (* break *)
            | None => if tried then JErr JRuntimeError
                      else dense_loop f ids (zlen ids) ret true   (* n_buckets = n; continue *)
            end
        | JErr e => JErr e
        end
      else JOk ret
  end.
Definition generate_dense (ids : list Z) : jres (option (Z * list bucket)) :=
  let n := zlen ids in
  dense_loop (S (S (length ids + length ids))) ids (n / START_BUCKET_SIZE + 1) None false.

(* sorted(zip(image, method_ids)) : insertion sort with the lexicographic tuple order *)
Definition pair_leb (a b : Z * Z) : bool := (fst a <? fst b) || ((fst a =? fst b) && (snd a <=? snd b)).
Fixpoint pinsert (p : Z * Z) (l : list (Z * Z)) : list (Z * Z) :=
  match l with [] => [p] | q :: t => if pair_leb p q then p :: q :: t else q :: pinsert p t end.
Fixpoint psort (l : list (Z * Z)) : list (Z * Z) :=
  match l with [] => [] | p :: t => pinsert p (psort t) end.
Definition image_order (ids : list Z) (magic : Z) : list Z :=
  map snd (psort (combine (image_of ids magic) ids)).

(* generate_sparse_jumptable_buckets *)
Definition zrange (lo hi : Z) : list Z := map (fun k => lo + Z.of_nat k) (seq 0 (Z.to_nat (hi - lo))).
(* max(len(bucket) for bucket in buckets.values()) : ValueError on empty *)
Definition max_bucket (bk : buckets) : option Z :=
  match bk with [] => None | _ => Some (fold_left Z.max (map (fun p => zlen (snd p)) bk) 0) end.
Fixpoint sparse_pick (ids : list Z) (cands : list Z) (best : Z) (ret : option (Z * buckets))
  : jres (option (Z * buckets)) :=
  match cands with
  | [] => JOk ret
  | i :: t =>
      match mk_buckets ids i with
      | JErr e => JErr e
      | JOk bk =>
          match max_bucket bk with
          | None => JErr JValueError
          | Some mx => if mx <? best then sparse_pick ids t mx (Some (i, bk)) else sparse_pick ids t best ret
          end
      end
  end.
(* lo = max(1, floor(n*0.85)), hi = max(1, ceil(n*1.15)) -- integer form of the float expressions
   (the check compares them with the float expressions for n <= 4096) *)
Definition sparse_lo (n : Z) : Z := Z.max 1 (17 * n / 20).
Definition sparse_hi (n : Z) : Z := Z.max 1 (- ((- (23 * n)) / 20)).
Definition generate_sparse_in (ids : list Z) (lo hi : Z) : jres (Z * buckets) :=
  match sparse_pick ids (zrange lo (hi + 1)) (hi + 1) None with
  | JOk (Some r) => JOk r
  | JOk None => JErr JRuntimeError
  | JErr e => JErr e
  end.
Definition generate_sparse (ids : list Z) : jres (Z * buckets) :=
  generate_sparse_in ids (sparse_lo (zlen ids)) (sparse_hi (zlen ids)).
