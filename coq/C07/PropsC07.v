(* C07: calls are dispatched to exactly the function whose selector they carry.
   Property theorems (statements at full strength over the models; proofs in *Proofs.v). *)
From Coq Require Import ZArith List Bool Lia Permutation.
From Verif Require Import Base.Word256 C07.Jumptable C07.JumptableProofs C07.Dispatch C07.DispatchProofs C07.DenseProofs.
Import ListNotations.
Open Scope Z_scope.

(* --- table construction (jumptable_utils) --- *)
Theorem C07_find_magic_injective : forall xs m,
  find_magic_for xs = JOk m ->
  0 <= m < 65536 /\ NoDup (image_of xs m) /\ (forall m', 0 <= m' < m -> ~ NoDup (image_of xs m')).
Proof. exact find_magic_injective. Qed.
Print Assumptions C07_find_magic_injective.

Theorem C07_mk_buckets_partition : forall ids n bk,
  mk_buckets ids n = JOk bk -> n <> 0 ->
  NoDup (keys bk) /\
  Permutation ids (concat (map snd bk)) /\
  (forall k, al_find k bk = match filter (in_bucket n k) ids with [] => None | l => Some l end) /\
  (forall k l, In (k, l) bk -> l <> [] /\ l = filter (in_bucket n k) ids /\ (forall x, In x l -> x mod n = k /\ In x ids)) /\
  (forall x, In x ids -> exists l, al_find (x mod n) bk = Some l /\ In x l).
Proof. exact mk_buckets_partition. Qed.
Print Assumptions C07_mk_buckets_partition.

Theorem C07_dense_info_ok : forall ids n sol,
  generate_dense ids = JOk (Some (n, sol)) ->
  0 < n /\ zlen sol = n /\
  forall k, 0 <= k < n ->
    exists m, find_bucket k sol = Some (k, m, filter (in_bucket n k) ids) /\
              filter (in_bucket n k) ids <> [] /\
              0 <= m < 65536 /\ NoDup (image_of (filter (in_bucket n k) ids) m).
Proof. exact dense_info_ok. Qed.
Print Assumptions C07_dense_info_ok.

Theorem C07_sparse_buckets_ok : forall ids lo hi n bk,
  generate_sparse_in ids lo hi = JOk (n, bk) -> lo <= n <= hi /\ n <> 0 /\ mk_buckets ids n = JOk bk.
Proof. exact sparse_buckets_ok. Qed.
Print Assumptions C07_sparse_buckets_ok.

(* --- dispatch --- *)
Theorem C07_short_calldata_no_false_match : forall cd id,
  calldata_ok cd -> cds cd < 4 -> calldata_method_id cd = id -> trailing_zero id = true.
Proof. exact short_calldata_no_false_match. Qed.
Print Assumptions C07_short_calldata_no_false_match.

Theorem C07_linear_dispatch_spec : forall fns fb cd value,
  calldata_ok cd ->
  linear_dispatch_legacy fns fb cd value = spec_dispatch fns fb cd value /\
  linear_dispatch_venom fns fb cd value = spec_dispatch fns fb cd value.
Proof. intros; split; [apply linear_dispatch_legacy_spec | apply linear_dispatch_venom_spec]; assumption. Qed.
Print Assumptions C07_linear_dispatch_spec.

(* for every bucket count n >= 1 (in particular the one chosen by generate_sparse_jumptable_buckets) *)
Theorem C07_sparse_dispatch_spec : forall fns fb cd value n bk,
  calldata_ok cd -> fns_ok fns -> 1 <= n -> mk_buckets (map e_id fns) n = JOk bk ->
  sparse_dispatch_legacy n bk fns fb cd value = Some (spec_dispatch fns fb cd value) /\
  sparse_dispatch_venom n bk fns fb cd value = Some (spec_dispatch fns fb cd value).
Proof. intros; split; [apply sparse_dispatch_legacy_spec | apply sparse_dispatch_venom_spec]; assumption. Qed.
Print Assumptions C07_sparse_dispatch_spec.

Theorem C07_sparse_dispatch_generated : forall fns fb cd value n bk,
  calldata_ok cd -> fns_ok fns -> fns <> [] -> generate_sparse (map e_id fns) = JOk (n, bk) ->
  sparse_dispatch_legacy n bk fns fb cd value = Some (spec_dispatch fns fb cd value) /\
  sparse_dispatch_venom n bk fns fb cd value = Some (spec_dispatch fns fb cd value).
Proof.
  intros fns fb cd value n bk Hcd Hok Hne Hg. unfold generate_sparse in Hg.
  apply sparse_buckets_ok in Hg. destruct Hg as (Hr & Hn & Hm).
  apply C07_sparse_dispatch_spec; try assumption. unfold sparse_lo in Hr. lia.
Qed.
Print Assumptions C07_sparse_dispatch_generated.

(* the arithmetic the dense dispatcher performs on 256-bit words is the arithmetic the builder performed on ints *)
Theorem C07_image_no_overflow : forall x m n,
  0 <= x < 2 ^ 32 -> 0 <= m < 2 ^ 16 -> 0 < n ->
  w_mod (w_shr BITS_MAGIC (w_mul m x)) n = image1 n m x.
Proof. exact image_no_overflow. Qed.
Print Assumptions C07_image_no_overflow.

Theorem C07_metadata_pack_unpack : forall mincds (np : bool) F,
  1 <= F -> 4 <= mincds -> (mincds - 4) mod 32 = 0 -> mincds < 2 ^ (8 * F) ->
  let meta := Z.lor mincds (Word256.b2z np) in
  0 <= meta < 2 ^ (8 * F) /\
  Z.land (2 ^ (F * 8) - 1 - 1) meta = mincds /\
  Z.land 1 meta = Word256.b2z np.
Proof. exact metadata_pack_unpack. Qed.
Print Assumptions C07_metadata_pack_unpack.

Theorem C07_image_order_position : forall l m x,
  NoDup (image_of l m) -> In x l ->
  nth_error (image_order l m) (Z.to_nat (image1 (zlen l) m x)) = Some x.
Proof. exact image_order_nth. Qed.
Print Assumptions C07_image_order_position.

(* dense: for every table the builder returns and that fits the emitted field widths *)
Theorem C07_dense_dispatch_spec : forall fns fb cd value n sol t,
  calldata_ok cd -> value_ok value -> fns_ok fns -> Forall dense_entry_ok fns ->
  generate_dense (map e_id fns) = JOk (Some (n, sol)) -> n <= 65536 ->
  build_dense n sol fns = Some t ->
  dense_dispatch_legacy t fns fb cd value = Some (spec_dispatch fns fb cd value) /\ dense_dispatch_venom t fns fb cd value = Some (spec_dispatch fns fb cd value).
Proof. intros; split; [eapply dense_dispatch_legacy_spec | eapply dense_dispatch_venom_spec]; eassumption. Qed.
Print Assumptions C07_dense_dispatch_spec.

(* all six emitted dispatchers behave identically on every call *)
Theorem C07_dispatch_strategies_agree : forall fns fb cd value ns bk nd sol t,
  calldata_ok cd -> value_ok value -> fns_ok fns -> Forall dense_entry_ok fns -> fns <> [] ->
  generate_sparse (map e_id fns) = JOk (ns, bk) ->
  generate_dense (map e_id fns) = JOk (Some (nd, sol)) -> nd <= 65536 -> build_dense nd sol fns = Some t ->
  let r := Some (spec_dispatch fns fb cd value) in
  Some (linear_dispatch_legacy fns fb cd value) = r /\ Some (linear_dispatch_venom fns fb cd value) = r /\ sparse_dispatch_legacy ns bk fns fb cd value = r /\ sparse_dispatch_venom ns bk fns fb cd value = r /\ dense_dispatch_legacy t fns fb cd value = r /\ dense_dispatch_venom t fns fb cd value = r.
Proof.
  intros fns fb cd value ns bk nd sol t Hcd Hv Hok Hd Hne Hs Hg Hn Hb r. subst r.
  destruct (C07_linear_dispatch_spec fns fb cd value Hcd) as [-> ->].
  destruct (C07_sparse_dispatch_generated fns fb cd value ns bk Hcd Hok Hne Hs) as [-> ->].
  destruct (C07_dense_dispatch_spec fns fb cd value nd sol t Hcd Hv Hok Hd Hg Hn Hb) as [-> ->].
  repeat split; reflexivity.
Qed.
Print Assumptions C07_dispatch_strategies_agree.

(* non-vacuity: a three-entry table (one id with a trailing zero byte), short calldata that zero-pads to it *)
Definition ex_fns : list entry :=
  [mkEntry 0x12345600 false 4 0; mkEntry 0xa9059cbb true 68 1; mkEntry 0x12345601 false 36 2].
Example C07_nonvacuous :
  fns_ok ex_fns /\ calldata_ok [0x12; 0x34; 0x56] /\
  spec_dispatch ex_fns (Some false) [0x12; 0x34; 0x56] 0 = Default /\
  spec_dispatch ex_fns None [0x12; 0x34; 0x56; 0x00] 0 = Enter 0 /\
  spec_dispatch ex_fns None [0x12; 0x34; 0x56; 0x00] 1 = Revert /\
  (exists n bk, generate_sparse (map e_id ex_fns) = JOk (n, bk) /\
     sparse_dispatch_legacy n bk ex_fns (Some false) [0x12; 0x34; 0x56] 0 = Some Default) /\
  (exists n sol t, generate_dense (map e_id ex_fns) = JOk (Some (n, sol)) /\ n <= 65536 /\
     build_dense n sol ex_fns = Some t /\ Forall dense_entry_ok ex_fns /\
     dense_dispatch_legacy t ex_fns (Some false) [0x12; 0x34; 0x56] 0 = Some Default).
Proof.
  split. { split; [repeat constructor; cbn; lia | cbn; repeat constructor; cbn; intuition lia]. }
  split. { repeat constructor; lia. }
  split; [vm_compute; reflexivity|]. split; [vm_compute; reflexivity|]. split; [vm_compute; reflexivity|].
  split.
  - eexists; eexists; split; vm_compute; reflexivity.
  - eexists; eexists; eexists. split; [vm_compute; reflexivity|]. split; [lia|]. split; [vm_compute; reflexivity|].
    split; [|vm_compute; reflexivity].
    unfold dense_entry_ok. repeat constructor; cbn [e_mincds e_target]; lia.
Qed.
