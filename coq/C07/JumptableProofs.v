(* C07: theorems about the jumptable_utils model. *)
From Coq Require Import ZArith List Bool Lia Permutation Sorted.
From Verif Require Import C07.Jumptable.
Import ListNotations.
Open Scope Z_scope.

(* ---------- nodupb / find_magic ---------- *)
Lemma mem_z_spec x l : mem_z x l = true <-> In x l.
Proof.
  induction l as [|y t IH]; cbn; [split; [discriminate | tauto]|].
  rewrite orb_true_iff, IH, Z.eqb_eq. intuition.
Qed.

Lemma nodupb_spec l : nodupb l = true <-> NoDup l.
Proof.
  induction l as [|x t IH]; cbn.
  - split; [constructor | reflexivity].
  - rewrite andb_true_iff, negb_true_iff, IH. split.
    + intros [H1 H2]. constructor; [|assumption]. rewrite <- mem_z_spec. congruence.
    + intros H. inversion H; subst. split; [|assumption].
      destruct (mem_z x t) eqn:E; [|reflexivity]. apply mem_z_spec in E. contradiction.
Qed.

Lemma find_magic_from_spec fuel : forall m xs r,
  find_magic_from fuel m xs = JOk r ->
  m <= r < m + Z.of_nat fuel /\ NoDup (image_of xs r) /\
  (forall m', m <= m' < r -> ~ NoDup (image_of xs m')).
Proof.
  induction fuel as [|f IH]; intros m xs r H; [discriminate|].
  cbn [find_magic_from] in H.
  destruct (nodupb (image_of xs m)) eqn:E.
  - inversion H; subst. apply nodupb_spec in E. split; [lia|]. split; [assumption|]. intros; lia.
  - apply IH in H. destruct H as (H1 & H2 & H3). split; [lia|]. split; [assumption|].
    intros m' Hm'. destruct (Z.eq_dec m' m) as [->|].
    + rewrite <- nodupb_spec. congruence.
    + apply H3. lia.
Qed.

Lemma find_magic_from_fail fuel : forall m xs e,
  find_magic_from fuel m xs = JErr e -> e = FindMagicFailure.
Proof.
  induction fuel as [|f IH]; intros m xs e H; cbn in H; [congruence|].
  destruct (nodupb (image_of xs m)); [discriminate | eauto].
Qed.

(* the magic returned is the smallest one below 2^16 that makes the image injective *)
Lemma find_magic_injective xs m :
  find_magic_for xs = JOk m ->
  0 <= m < 65536 /\ NoDup (image_of xs m) /\ (forall m', 0 <= m' < m -> ~ NoDup (image_of xs m')).
Proof.
  unfold find_magic_for. intros H. apply find_magic_from_spec in H.
  rewrite Z2Nat.id in H by (unfold MAGIC_RANGE; lia). change MAGIC_RANGE with 65536 in H.
  destruct H as (H1 & H2 & H3). split; [lia|]. split; [assumption|]. intros; apply H3; lia.
Qed.

Lemma find_magic_for_fail xs e : find_magic_for xs = JErr e -> e = FindMagicFailure.
Proof. unfold find_magic_for. generalize (Z.to_nat MAGIC_RANGE). intros n. apply find_magic_from_fail. Qed.

Lemma image1_range n magic x : 0 < n -> 0 <= image1 n magic x < n.
Proof. intros. unfold image1. apply Z.mod_pos_bound. assumption. Qed.

Lemma image_of_range xs magic y : In y (image_of xs magic) -> 0 <= y < zlen xs.
Proof.
  unfold image_of. rewrite in_map_iff. intros (x & <- & Hx).
  apply image1_range. unfold zlen. destruct xs; [contradiction | cbn; lia].
Qed.

Lemma image_of_length xs magic : length (image_of xs magic) = length xs.
Proof. apply map_length. Qed.

(* ---------- association lists / mk_buckets ---------- *)
Definition keys (bk : buckets) : list Z := map fst bk.
Definition in_bucket (n k x : Z) : bool := x mod n =? k.

Lemma al_find_append k k' x al :
  al_find k (al_append k' x al) =
  if k =? k' then Some (match al_find k al with Some l => l ++ [x] | None => [x] end) else al_find k al.
Proof.
  induction al as [|[k0 l0] t IH]; cbn.
  - destruct (k =? k'); reflexivity.
  - destruct (k' =? k0) eqn:E0; cbn.
    + apply Z.eqb_eq in E0; subst k0. destruct (k =? k'); reflexivity.
    + destruct (k =? k0) eqn:E1.
      * apply Z.eqb_eq in E1; subst k0. rewrite Z.eqb_sym in E0. rewrite E0. reflexivity.
      * apply IH.
Qed.

Lemma keys_append k x al :
  keys (al_append k x al) = if mem_z k (keys al) then keys al else keys al ++ [k].
Proof.
  induction al as [|[k0 l0] t IH]; cbn; [reflexivity|].
  destruct (k =? k0) eqn:E; cbn; [reflexivity|].
  unfold keys in *. rewrite IH. destruct (mem_z k (map fst t)); reflexivity.
Qed.

Definition mkb (ids : list Z) (n : Z) : buckets := fold_left (fun al x => al_append (x mod n) x al) ids [].

Lemma mkb_snoc ids x n : mkb (ids ++ [x]) n = al_append (x mod n) x (mkb ids n).
Proof. unfold mkb. rewrite fold_left_app. reflexivity. Qed.

(* bucket k holds exactly the ids congruent to k, in their original order; absent iff there are none *)
Lemma mkb_find ids n k :
  al_find k (mkb ids n) =
  match filter (in_bucket n k) ids with [] => None | l => Some l end.
Proof.
  induction ids as [|x ids IH] using rev_ind; [reflexivity|].
  rewrite mkb_snoc, al_find_append, filter_app, IH.
  replace (filter (in_bucket n k) [x]) with (if k =? x mod n then [x] else [])
    by (cbn; unfold in_bucket; rewrite (Z.eqb_sym (x mod n) k); reflexivity).
  destruct (k =? x mod n); [|rewrite app_nil_r; reflexivity].
  destruct (filter (in_bucket n k) ids); reflexivity.
Qed.

Lemma mkb_keys_nodup ids n : NoDup (keys (mkb ids n)).
Proof.
  induction ids as [|x ids IH] using rev_ind; [constructor|].
  rewrite mkb_snoc, keys_append.
  destruct (mem_z (x mod n) (keys (mkb ids n))) eqn:E; [assumption|].
  apply NoDup_rev in IH. rewrite <- (rev_involutive (_ ++ _)). apply NoDup_rev.
  rewrite rev_app_distr. cbn. constructor; [|assumption].
  rewrite <- in_rev, <- mem_z_spec. congruence.
Qed.

Lemma al_find_keys {A} k (al : list (Z * A)) : In k (map fst al) <-> exists v, al_find k al = Some v.
Proof.
  induction al as [|[k0 v0] t IH]; cbn.
  - split; [tauto | intros [v H]; discriminate].
  - destruct (k =? k0) eqn:E.
    + apply Z.eqb_eq in E. subst. split; eauto.
    + apply Z.eqb_neq in E. rewrite IH. split; [intros [H|H]; [congruence | assumption] | tauto].
Qed.

Lemma al_find_in {A} k (al : list (Z * A)) v : al_find k al = Some v -> In (k, v) al.
Proof.
  induction al as [|[k0 v0] t IH]; cbn; [discriminate|].
  destruct (k =? k0) eqn:E; [apply Z.eqb_eq in E; subst; intros [= ->]; auto | auto].
Qed.

Lemma in_al_find {A} k (al : list (Z * A)) v : NoDup (map fst al) -> In (k, v) al -> al_find k al = Some v.
Proof.
  induction al as [|[k0 v0] t IH]; cbn; [tauto|]. intros Hnd [H|H].
  - inversion H; subst. rewrite Z.eqb_refl. reflexivity.
  - inversion Hnd; subst. destruct (k =? k0) eqn:E; [|auto].
    apply Z.eqb_eq in E; subst. exfalso. apply H2. apply in_map_iff. exists (k0, v). auto.
Qed.

Lemma al_append_perm k x al :
  Permutation (concat (map snd (al_append k x al))) (concat (map snd al) ++ [x]).
Proof.
  induction al as [|[k0 l0] t IH]; cbn; [reflexivity|].
  destruct (k =? k0); cbn.
  - rewrite <- !app_assoc. apply Permutation_app_head. apply Permutation_app_comm.
  - rewrite <- app_assoc. apply Permutation_app_head. assumption.
Qed.

Lemma mkb_perm ids n : Permutation ids (concat (map snd (mkb ids n))).
Proof.
  induction ids as [|x ids IH] using rev_ind; [reflexivity|].
  rewrite mkb_snoc. rewrite al_append_perm. apply Permutation_app_tail. assumption.
Qed.

Lemma filter_in_bucket_nonempty n k ids x l :
  filter (in_bucket n k) ids = x :: l -> x mod n = k.
Proof.
  intros H. assert (Hin : In x (filter (in_bucket n k) ids)) by (rewrite H; left; reflexivity).
  apply filter_In in Hin. destruct Hin as [_ Hb]. unfold in_bucket in Hb. apply Z.eqb_eq in Hb. assumption.
Qed.

Lemma mkb_keys_range ids n k : 0 < n -> In k (keys (mkb ids n)) -> 0 <= k < n.
Proof.
  intros Hn Hk. apply al_find_keys in Hk. destruct Hk as [l Hl]. rewrite mkb_find in Hl.
  destruct (filter (in_bucket n k) ids) as [|x l'] eqn:E; [discriminate|].
  apply filter_in_bucket_nonempty in E. subst k. apply Z.mod_pos_bound. assumption.
Qed.

(* mk_buckets partitions the ids: bucket keys are distinct residues; bucket k is exactly the
   sub-list of ids congruent to k (non-empty); the buckets together are a permutation of ids *)
Theorem mk_buckets_partition ids n bk :
  mk_buckets ids n = JOk bk -> n <> 0 ->
  NoDup (keys bk) /\
  Permutation ids (concat (map snd bk)) /\
  (forall k, al_find k bk = match filter (in_bucket n k) ids with [] => None | l => Some l end) /\
  (forall k l, In (k, l) bk -> l <> [] /\ l = filter (in_bucket n k) ids /\ (forall x, In x l -> x mod n = k /\ In x ids)) /\
  (forall x, In x ids -> exists l, al_find (x mod n) bk = Some l /\ In x l).
Proof.
  unfold mk_buckets. intros H Hn. apply Z.eqb_neq in Hn. rewrite Hn in H. inversion H; subst bk; clear H.
  fold (mkb ids n). split; [apply mkb_keys_nodup|]. split; [apply mkb_perm|]. split; [apply mkb_find|]. split.
  - intros k l Hin. apply in_al_find in Hin; [|apply mkb_keys_nodup]. rewrite mkb_find in Hin.
    destruct (filter (in_bucket n k) ids) as [|y l'] eqn:E; [discriminate|]. inversion Hin; subst l.
    split; [discriminate|]. split; [reflexivity|]. intros x Hx. rewrite <- E in Hx. apply filter_In in Hx.
    destruct Hx as [Hx Hb]. unfold in_bucket in Hb. apply Z.eqb_eq in Hb. auto.
  - intros x Hx. rewrite mkb_find.
    assert (Hf : In x (filter (in_bucket n (x mod n)) ids)).
    { apply filter_In. split; [assumption|]. unfold in_bucket. apply Z.eqb_refl. }
    destruct (filter (in_bucket n (x mod n)) ids) as [|y l'] eqn:E; [contradiction|]. eauto.
Qed.

(* ---------- dense ---------- *)
Arguments find_magic_for : simpl never.
Definition find_bucket (k : Z) (sol : list bucket) : option bucket := find (fun b => b_id b =? k) sol.

Lemma magic_all_find bk : forall r, magic_all bk = JOk r ->
  length r = length bk /\
  forall k, match al_find k bk with
       | Some l => exists m, find_bucket k r = Some (k, m, l) /\ find_magic_for l = JOk m
       | None => find_bucket k r = None
       end.
Proof.
  induction bk as [|[k0 l0] t IH]; cbn [magic_all al_find]; intros r H.
  - inversion H; subst. split; [reflexivity|]. intros; reflexivity.
  - destruct (find_magic_for l0) as [m0|] eqn:Em; [|discriminate].
    destruct (magic_all t) as [r'|] eqn:Er; [|discriminate]. inversion H; subst r; clear H.
    destruct (IH r' eq_refl) as [Hlen Hf]. split; [cbn; congruence|].
    intros k. unfold find_bucket. cbn [find]. change (b_id (k0, m0, l0)) with k0. fold (find_bucket k r').
    rewrite (Z.eqb_sym k0 k). destruct (k =? k0) eqn:E.
    + apply Z.eqb_eq in E; subst. eauto.
    + apply Hf.
Qed.

Lemma magic_all_err bk e : magic_all bk = JErr e -> e = FindMagicFailure.
Proof.
  induction bk as [|[k0 l0] t IH]; cbn [magic_all]; [discriminate|].
  destruct (find_magic_for l0) eqn:Em.
  - destruct (magic_all t); [discriminate|]. intros [= <-]. auto.
  - intros [= <-]. apply find_magic_for_fail in Em. assumption.
Qed.

Lemma zrange_in lo hi x : In x (zrange lo hi) <-> lo <= x < hi.
Proof.
  unfold zrange. rewrite in_map_iff. split.
  - intros (k & <- & Hk). apply in_seq in Hk. lia.
  - intros H. exists (Z.to_nat (x - lo)). split; [lia|]. apply in_seq. lia.
Qed.

Lemma zrange_length lo hi : length (zrange lo hi) = Z.to_nat (hi - lo).
Proof. unfold zrange. rewrite map_length, seq_length. reflexivity. Qed.

Lemma zrange_nodup lo hi : NoDup (zrange lo hi).
Proof.
  unfold zrange. apply FinFun.Injective_map_NoDup; [|apply seq_NoDup].
  intros a b H. lia.
Qed.

(* [dense_jumptable_info ids n = Ok sol]: exactly n buckets, none empty, bucket k (for every k in [0,n))
   is the list of ids congruent to k together with the magic found for it *)
Lemma dense_jumptable_info_ok ids n sol :
  0 < n -> dense_jumptable_info ids n = JOk sol ->
  zlen sol = n /\
  forall k, 0 <= k < n ->
    exists m, find_bucket k sol = Some (k, m, filter (in_bucket n k) ids) /\
              filter (in_bucket n k) ids <> [] /\
              find_magic_for (filter (in_bucket n k) ids) = JOk m.
Proof.
  intros Hn H. unfold dense_jumptable_info, mk_buckets in H.
  destruct (n =? 0) eqn:E0; [apply Z.eqb_eq in E0; lia|]. fold (mkb ids n) in H.
  destruct (zlen (mkb ids n) =? n) eqn:El; [|discriminate]. apply Z.eqb_eq in El.
  apply magic_all_find in H. destruct H as [Hlen Hf]. split; [unfold zlen in *; congruence|].
  intros k Hk.
  assert (Hin : In k (keys (mkb ids n))).
  { apply (@NoDup_length_incl Z (keys (mkb ids n)) (zrange 0 n) (mkb_keys_nodup ids n)).
    - rewrite zrange_length. unfold keys. rewrite map_length. unfold zlen in El. lia.
    - intros a Ha. apply zrange_in. apply mkb_keys_range with (ids := ids); assumption.
    - apply zrange_in. lia. }
  apply al_find_keys in Hin. destruct Hin as [l Hl]. specialize (Hf k). rewrite Hl in Hf.
  rewrite mkb_find in Hl. destruct (filter (in_bucket n k) ids) as [|y l'] eqn:Ef; [discriminate|].
  inversion Hl; subst l. destruct Hf as [m [H1 H2]]. exists m. split; [assumption|]. split; [discriminate | assumption].
Qed.

Lemma dense_loop_ok fuel : forall ids nb ret tried n sol,
  dense_loop fuel ids nb ret tried = JOk (Some (n, sol)) ->
  (forall n' sol', ret = Some (n', sol') -> 0 < n' /\ dense_jumptable_info ids n' = JOk sol') ->
  0 < n /\ dense_jumptable_info ids n = JOk sol.
Proof.
  induction fuel as [|f IH]; intros ids nb ret tried n sol H Hret; [discriminate|].
  cbn [dense_loop] in H. destruct (nb >? 0) eqn:Enb.
  - destruct (dense_jumptable_info ids nb) as [s|e] eqn:Ed.
    + eapply IH; [exact H|]. intros n' sol' [= <- <-]. split; [lia | assumption].
    + destruct e; try discriminate.
      * eapply IH; eauto.
      * destruct ret as [[n0 s0]|].
        -- inversion H; subst. apply Hret. reflexivity.
        -- destruct tried; [discriminate|]. eapply IH; [exact H|]. intros; discriminate.
  - inversion H; subst. apply Hret. reflexivity.
Qed.

(* generate_dense_jumptable_info returned (n, info): n buckets, all non-empty, partitioning the ids by
   residue mod n, each with a magic < 2^16 making its image injective *)
Theorem dense_info_ok ids n sol :
  generate_dense ids = JOk (Some (n, sol)) ->
  0 < n /\ zlen sol = n /\
  forall k, 0 <= k < n ->
    exists m, find_bucket k sol = Some (k, m, filter (in_bucket n k) ids) /\
              filter (in_bucket n k) ids <> [] /\
              0 <= m < 65536 /\ NoDup (image_of (filter (in_bucket n k) ids) m).
Proof.
  unfold generate_dense. intros H. apply dense_loop_ok in H; [|intros; discriminate].
  destruct H as [Hn H]. split; [assumption|]. apply dense_jumptable_info_ok in H; [|assumption].
  destruct H as [Hl Hk]. split; [assumption|]. intros k Hkr. destruct (Hk k Hkr) as (m & H1 & H2 & H3).
  apply find_magic_injective in H3. destruct H3 as (H3 & H4 & _). exists m. auto.
Qed.

(* ---------- sparse ---------- *)
Lemma sparse_pick_ok ids cands : forall best ret n bk,
  sparse_pick ids cands best ret = JOk (Some (n, bk)) ->
  (ret = Some (n, bk)) \/ (In n cands /\ n <> 0 /\ bk = mkb ids n).
Proof.
  induction cands as [|i t IH]; cbn; intros best ret n bk H.
  - inversion H; auto.
  - destruct (mk_buckets ids i) as [b|] eqn:Em; [|discriminate].
    destruct (max_bucket b) as [mx|] eqn:Ex; [|discriminate].
    assert (Hb : i <> 0 /\ b = mkb ids i).
    { unfold mk_buckets in Em. destruct (i =? 0) eqn:E0.
      - destruct ids; [|discriminate]. inversion Em; subst b. discriminate.
      - apply Z.eqb_neq in E0. inversion Em. auto. }
    destruct (mx <? best).
    + apply IH in H. destruct H as [H | (H1 & H2 & H3)]; [inversion H; subst; right; tauto | right; tauto].
    + apply IH in H. destruct H as [H | (H1 & H2 & H3)]; [auto | right; tauto].
Qed.

Theorem sparse_buckets_ok ids lo hi n bk :
  generate_sparse_in ids lo hi = JOk (n, bk) ->
  lo <= n <= hi /\ n <> 0 /\ mk_buckets ids n = JOk bk.
Proof.
  unfold generate_sparse_in. intros H.
  destruct (sparse_pick ids (zrange lo (hi + 1)) (hi + 1) None) as [[[n' bk']|]|] eqn:E; try discriminate.
  inversion H; subst. apply sparse_pick_ok in E. destruct E as [E | (H1 & H2 & H3)]; [discriminate|].
  apply zrange_in in H1. split; [lia|]. split; [assumption|].
  unfold mk_buckets. apply Z.eqb_neq in H2. rewrite H2. subst bk. reflexivity.
Qed.
