(* C07 T-tie: the definitions generated from the current jumptable_utils.py (GenJumptable.v) are equal to
   the hand model (Jumptable.v) the theorems are stated about.  Re-checked on every run. *)
From Coq Require Import ZArith List Bool Lia.
From Verif Require Import C07.Jumptable C07.JumptableProofs C07.JtSupport C07.GenJumptable.
Import ListNotations.
Open Scope Z_scope.

Lemma bridge_image_of xs magic : g__image_of xs magic = image_of xs magic.
Proof. reflexivity. Qed.

Lemma dedup_length_le l : (length (dedup l) <= length l)%nat.
Proof. induction l as [|x t IH]; cbn; [lia|]. destruct (mem_z x t); cbn; lia. Qed.

Lemma pyset_len_nodup l : (zlen l =? pyset_len l) = nodupb l.
Proof.
  unfold pyset_len, zlen. induction l as [|x t IH]; [reflexivity|]. cbn [dedup nodupb length].
  pose proof (dedup_length_le t) as Hle. destruct (mem_z x t); cbn [negb andb length].
  - apply Z.eqb_neq. lia.
  - rewrite <- IH. destruct (Z.of_nat (length t) =? Z.of_nat (length (dedup t))) eqn:E.
    + apply Z.eqb_eq in E. apply Z.eqb_eq. lia.
    + apply Z.eqb_neq in E. apply Z.eqb_neq. lia.
Qed.

Lemma bridge_find_magic_loop fuel : forall m xs, g_find_magic_for_loop fuel m xs = find_magic_from fuel m xs.
Proof.
  induction fuel as [|f IH]; intros m xs; [reflexivity|]. cbn [g_find_magic_for_loop find_magic_from].
  rewrite bridge_image_of. cbv zeta. rewrite pyset_len_nodup. rewrite IH. reflexivity.
Qed.

Lemma bridge_find_magic_for xs : g_find_magic_for xs = find_magic_for xs.
Proof. unfold g_find_magic_for, find_magic_for. change MAGIC_RANGE with 65536. apply bridge_find_magic_loop. Qed.

Lemma setdefault_append k x d :
  d_append_at k x (d_setdefault k [] d) = JOk (al_append k x d).
Proof.
  induction d as [|[k' l] t IH]; cbn.
  - rewrite Z.eqb_refl. reflexivity.
  - destruct (k =? k') eqn:E; cbn; rewrite E; [reflexivity|]. rewrite IH. reflexivity.
Qed.

Lemma jfold_err {A B} (f : A -> B -> jres A) l a e :
  l <> [] -> (forall a x, f a x = JErr e) -> jfold f l a = JErr e.
Proof. destruct l as [|x t]; [congruence|]. intros _ H. cbn. rewrite H. reflexivity. Qed.

Lemma bridge_mk_buckets ids n : g__mk_buckets ids n = mk_buckets ids n.
Proof.
  unfold g__mk_buckets, mk_buckets. cbv zeta. destruct (n =? 0) eqn:E.
  - destruct ids as [|x t]; [reflexivity|]. rewrite (jfold_err _ _ _ JZeroDivision); [reflexivity | discriminate|].
    intros a y. unfold jmod. rewrite E. reflexivity.
  - generalize (@nil (Z * list Z)). induction ids as [|x t IH]; intros acc; [reflexivity|].
    cbn [jfold fold_left]. unfold jmod at 1. rewrite E. rewrite setdefault_append. apply IH.
Qed.

(* ret[bucket_id] = Bucket(...) over buckets with distinct keys builds the list in order *)
Definition tag (sol : list bucket) : list (Z * bucket) := map (fun b => (b_id b, b)) sol.

Lemma db_set_fresh {V} k (v : V) d : ~ In k (map fst d) -> db_set k v d = d ++ [(k, v)].
Proof.
  induction d as [|[k' v'] t IH]; cbn; intros H; [reflexivity|].
  destruct (k =? k') eqn:E; [apply Z.eqb_eq in E; subst; tauto|]. rewrite IH by tauto. reflexivity.
Qed.

Lemma magic_all_ids bk : forall r, magic_all bk = JOk r -> map b_id r = map fst bk.
Proof.
  induction bk as [|[k l] t IH]; cbn [magic_all]; intros r H; [inversion H; reflexivity|].
  destruct (find_magic_for l); [|discriminate]. destruct (magic_all t) eqn:E; [|discriminate].
  inversion H; subst. cbn. f_equal. apply IH. reflexivity.
Qed.

Lemma bridge_magic_loop bk : forall acc,
  NoDup (map fst acc ++ map fst bk) ->
  jfold (fun ret kv => match g_find_magic_for (snd kv) with
                       | JErr e => JErr e
                       | JOk v => JOk (db_set (fst kv) (fst kv, v, snd kv) ret)
                       end) bk acc
  = match magic_all bk with JOk r => JOk (acc ++ tag r) | JErr e => JErr e end.
Proof.
  induction bk as [|[k l] t IH]; intros acc Hnd; cbn [jfold magic_all].
  - unfold tag. cbn. rewrite app_nil_r. reflexivity.
  - cbn [fst snd]. rewrite bridge_find_magic_for. destruct (find_magic_for l) as [m|e]; [|reflexivity].
    rewrite db_set_fresh.
    + rewrite IH.
      * destruct (magic_all t); [|reflexivity]. unfold tag. cbn [map]. rewrite <- app_assoc. reflexivity.
      * rewrite map_app. cbn [map fst]. rewrite <- app_assoc. exact Hnd.
    + cbn [map] in Hnd. apply NoDup_remove_2 in Hnd. intros Hin. apply Hnd. apply in_or_app. left. assumption.
Qed.

Lemma bridge_dense_jumptable_info ids n :
  g__dense_jumptable_info ids n =
  match dense_jumptable_info ids n with JOk sol => JOk (tag sol) | JErr e => JErr e end.
Proof.
  unfold g__dense_jumptable_info, dense_jumptable_info. rewrite bridge_mk_buckets.
  destruct (mk_buckets ids n) as [bk|e] eqn:Em; [|reflexivity]. cbv beta zeta iota.
  destruct (zlen bk =? n) eqn:El; cbn [negb]; [|reflexivity].
  assert (Hnd : NoDup (map fst bk)).
  { unfold mk_buckets in Em. destruct (n =? 0).
    - destruct ids; [inversion Em; constructor | discriminate].
    - inversion Em. apply mkb_keys_nodup. }
  pose proof (bridge_magic_loop bk [] Hnd) as Hb. unfold bucket in *. rewrite Hb. destruct (magic_all bk); reflexivity.
Qed.
