(* C11: the array a `for` loop iterates over is not written during the loop, neither directly nor by any
   internally called function (semantic counterpart of the iterator-mutation rules). *)
From Coq Require Import ZArith Bool List Lia.
From Verif Require Import C11.Effects C11.EffectsReject.
Import ListNotations.
Open Scope Z_scope.

(* state writes of a trace are contained in W *)
Definition wsub (t : list eff) (W : list (vkind * nat)) : Prop :=
  forall k x, In (Write k x) t -> is_state k = true -> In (k, x) W.
Lemma wsub_nil W : wsub [] W. Proof. intros k x []. Qed.
Lemma wsub_app t1 t2 W : wsub t1 W -> wsub t2 W -> wsub (t1 ++ t2) W.
Proof. intros A B k x H. apply in_app_or in H. destruct H; eauto. Qed.
Lemma wsub_mono t W W' : wsub t W -> incl W W' -> wsub t W'.
Proof. intros A I k x H S. apply I. eauto. Qed.
Lemma wsub_cons_other e t W : (forall k x, e <> Write k x) -> wsub t W -> wsub (e :: t) W.
Proof. intros N A k x [H|H] S; [exfalso; eapply N; eauto | eauto]. Qed.
Lemma wsub_one_other e W : (forall k x, e <> Write k x) -> wsub [e] W.
Proof. intros. apply wsub_cons_other; auto. apply wsub_nil. Qed.

Ltac inapp := repeat rewrite in_app_iff in *; tauto.

Lemma loop_wsub body i cnt W :
  (forall w fr o w' fr' t, body w fr = Done (o, w', fr', t) -> wsub t W) ->
  forall cur w fr o w' fr' t, loop body i cnt cur w fr = Done (o, w', fr', t) -> wsub t W.
Proof.
  intros Hb. induction cnt as [|c IH]; intros cur w fr o w' fr' t H; cbn in H.
  - inversion H; subst. apply wsub_nil.
  - destruct (body w _) as [[[[o1 w1] fr2] t1]| |] eqn:E; try discriminate.
    pose proof (Hb _ _ _ _ _ _ E) as C1.
    destruct o1.
    + destruct (loop body i c (cur + 1) w1 fr2) as [[[[o2 w2] fr3] t2]| |] eqn:E2; try discriminate.
      inversion H; subst. apply wsub_cons_other; [discriminate|]. apply wsub_app; eauto.
    + inversion H; subst. apply wsub_cons_other; [discriminate|]. auto.
Qed.

Lemma wr_wsub w fr k x v w2 fr2 t2 : wr w fr k x v = (w2, fr2, t2) -> wsub t2 (if is_state k then [(k, x)] else []).
Proof.
  destruct k; cbn; intros H; inversion H; subst; try apply wsub_nil;
    intros kk xx [E|[]] S; inversion E; subst; cbn in *; auto; discriminate.
Qed.

Section InnerW.
  Variable p : prog.
  Variable k : nat.
  Hypothesis HF : forall f g n w fr o w' fr' t, calls_ok k p f = true -> nth_error (funs p) f = Some g ->
    exec n p w fr (fbody g) = Done (o, w', fr', t) -> wsub t (fwrites k p f).
  Let CW (fs : list nat) := flat_map (fwrites k p) fs.

  Lemma inner_w : forall n,
    (forall e w fr v w' t, forallb (calls_ok k p) (callees_e e) = true ->
        eval n p w fr e = Done (v, w', t) -> wsub t (CW (callees_e e))) /\
    (forall s w fr o w' fr' t, forallb (calls_ok k p) (callees_s s) = true ->
        exec n p w fr s = Done (o, w', fr', t) -> wsub t (writes_s s ++ CW (callees_s s))).
  Proof.
    assert (CWapp : forall a b, CW (a ++ b) = CW a ++ CW b) by (intros; unfold CW; apply flat_map_app).
    induction n as [|n [IHe IHs]]; [split; intros; discriminate|]. split.
    - intros e w fr v w' t Hc H. destruct e; cbn in Hc, H; cbn [callees_e].
      + inversion H; subst. apply wsub_nil.
      + inversion H; subst. destruct (is_state k0); [apply wsub_one_other; discriminate | apply wsub_nil].
      + inversion H; subst. apply wsub_one_other; discriminate.
      + inversion H; subst. apply wsub_one_other; discriminate.
      + inversion H; subst. apply wsub_one_other; discriminate.
      + rewrite forallb_app in Hc. apply andb_prop in Hc. destruct Hc as [Ca Cb].
        destruct (eval n p w fr e1) as [[[va w1] t1]| |] eqn:E1; try discriminate.
        destruct (eval n p w1 fr e2) as [[[vb w2] t2]| |] eqn:E2; try discriminate.
        inversion H; subst. rewrite CWapp. apply wsub_app.
        * eapply wsub_mono; [exact (IHe _ _ _ _ _ _ Ca E1)|]. apply incl_appl, incl_refl.
        * eapply wsub_mono; [exact (IHe _ _ _ _ _ _ Cb E2)|]. apply incl_appr, incl_refl.
      + apply andb_prop in Hc. destruct Hc as [Cf Ca].
        destruct (eval n p w fr e) as [[[va w1] t1]| |] eqn:E1; try discriminate.
        destruct (nth_error (funs p) f) as [g|] eqn:Eg; [|discriminate].
        destruct (exec n p w1 _ (fbody g)) as [[[[o w2] fr2] t2]| |] eqn:E2; try discriminate.
        inversion H; subst. change (CW (f :: callees_e e)) with (fwrites k p f ++ CW (callees_e e)).
        apply wsub_app.
        * eapply wsub_mono; [eapply IHe; eauto|]. apply incl_appr, incl_refl.
        * eapply wsub_mono; [eapply HF; eauto|]. apply incl_appl, incl_refl.
      + destruct (eval n p w fr e) as [[[va w1] t1]| |] eqn:E1; try discriminate.
        pose proof (IHe _ _ _ _ _ _ Hc E1) as A.
        destruct k0.
        * destruct (ext_mod w1 (sto w1) va). inversion H; subst. apply wsub_app; auto. apply wsub_one_other; discriminate.
        * destruct m; inversion H; subst; auto; (apply wsub_app; auto; apply wsub_one_other; discriminate).
      + destruct (eval n p w fr e) as [[[va w1] t1]| |] eqn:E1; try discriminate.
        pose proof (IHe _ _ _ _ _ _ Hc E1) as A.
        destruct m; try (destruct (ext_mod w1 (sto w1) va)); inversion H; subst; auto;
          (apply wsub_app; auto; apply wsub_one_other; discriminate).
    - intros s w fr o w' fr' t Hc H. destruct s; cbn in Hc, H; cbn [callees_s writes_s].
      + inversion H; subst. apply wsub_nil.
      + rewrite forallb_app in Hc. apply andb_prop in Hc. destruct Hc as [Ca Cb].
        destruct (exec n p w fr s1) as [[[[o1 w1] fr1] t1]| |] eqn:E1; try discriminate.
        pose proof (IHs _ _ _ _ _ _ _ Ca E1) as A. rewrite CWapp.
        assert (A' : wsub t1 ((writes_s s1 ++ writes_s s2) ++ CW (callees_s s1) ++ CW (callees_s s2))).
        { eapply wsub_mono; [exact A|]. intros q Hq. inapp. }
        destruct o1.
        * destruct (exec n p w1 fr1 s2) as [[[[o2 w2] fr2] t2]| |] eqn:E2; try discriminate.
          inversion H; subst. apply wsub_app; auto.
          eapply wsub_mono; [exact (IHs _ _ _ _ _ _ _ Cb E2)|]. intros q Hq. inapp.
        * inversion H; subst. auto.
      + destruct (eval n p w fr e) as [[[va w1] t1]| |] eqn:E1; try discriminate.
        destruct (wr w1 fr k0 x va) as [[w2 fr2] t2] eqn:Ew. inversion H; subst.
        apply wsub_app.
        * eapply wsub_mono; [eapply IHe; eauto|]. apply incl_appr, incl_refl.
        * eapply wsub_mono; [eapply wr_wsub; eauto|]. apply incl_appl, incl_refl.
      + destruct (eval n p w fr e) as [[[va w1] t1]| |] eqn:E1; try discriminate.
        destruct (wr w1 fr k0 x _) as [[w2 fr2] t2] eqn:Ew. inversion H; subst.
        apply wsub_app; [destruct (is_state k0); [apply wsub_one_other; discriminate | apply wsub_nil]|].
        apply wsub_app.
        * eapply wsub_mono; [eapply IHe; eauto|]. apply incl_appr, incl_refl.
        * eapply wsub_mono; [eapply wr_wsub; eauto|]. apply incl_appl, incl_refl.
      + destruct (eval n p w fr e) as [[[va w1] t1]| |] eqn:E1; try discriminate. inversion H; subst.
        eapply IHe; eauto.
      + destruct (eval n p w fr e) as [[[va w1] t1]| |] eqn:E1; try discriminate. inversion H; subst.
        apply wsub_app; [eapply IHe; eauto | apply wsub_one_other; discriminate].
      + rewrite !forallb_app in Hc. apply andb_prop in Hc. destruct Hc as [Cc Hc]. apply andb_prop in Hc. destruct Hc as [Ca Cb].
        destruct (eval n p w fr c) as [[[v w1] t1]| |] eqn:E1; try discriminate.
        destruct (exec n p w1 fr (if v =? 0 then s2 else s1)) as [[[[o2 w2] fr2] t2]| |] eqn:E2; try discriminate.
        inversion H; subst. rewrite !CWapp. apply wsub_app.
        * eapply wsub_mono; [exact (IHe _ _ _ _ _ _ Cc E1)|]. auto with datatypes.
        * destruct (v =? 0).
          -- eapply wsub_mono; [exact (IHs _ _ _ _ _ _ _ Cb E2)|]. intros q Hq. inapp.
          -- eapply wsub_mono; [exact (IHs _ _ _ _ _ _ _ Ca E2)|]. intros q Hq. inapp.
      + rewrite forallb_app in Hc. apply andb_prop in Hc. destruct Hc as [Cr Cb]. rewrite CWapp.
        assert (Hbody : forall w fr o w' fr' t, (fun w' fr' => exec n p w' fr' s) w fr = Done (o, w', fr', t) ->
                   wsub t (writes_s s ++ CW (callees_r r) ++ CW (callees_s s))).
        { intros ? ? ? ? ? ? H0. cbv beta in H0. eapply wsub_mono; [eapply IHs; eauto|].
          intros q Hq. inapp. }
        destruct r; cbn in Cr.
        * eapply loop_wsub; [exact Hbody | exact H].
        * destruct (eval n p w fr e) as [[[v w1] t1]| |] eqn:E1; try discriminate.
          destruct (K <? v); [discriminate|].
          destruct (loop _ i (Z.to_nat v) 0 w1 fr) as [[[[o2 w2] fr2] t2]| |] eqn:E2; try discriminate.
          inversion H; subst. apply wsub_app; [|eapply loop_wsub; [exact Hbody | exact E2]].
          eapply wsub_mono; [eapply IHe; eauto|]. cbn. auto with datatypes.
        * destruct (eval n p w fr e) as [[[v w1] t1]| |] eqn:E1; try discriminate.
          destruct (loop _ i (Z.to_nat v) 0 w1 fr) as [[[[o2 w2] fr2] t2]| |] eqn:E2; try discriminate.
          inversion H; subst. apply wsub_app; [|eapply loop_wsub; [exact Hbody | exact E2]].
          eapply wsub_mono; [eapply IHe; eauto|]. cbn. auto with datatypes.
      + assert (Hbody : forall w fr o w' fr' t, (fun w' fr' => exec n p w' fr' s) w fr = Done (o, w', fr', t) ->
                   wsub t (writes_s s ++ CW (callees_s s))) by (intros ? ? ? ? ? ? H0; cbv beta in H0; eapply IHs; eauto).
        destruct (loop _ i len 0 w fr) as [[[[o2 w2] fr2] t2]| |] eqn:E2; try discriminate.
        inversion H; subst. apply wsub_app; [destruct (is_state k0); [apply wsub_one_other; discriminate | apply wsub_nil]|].
        eapply loop_wsub; [exact Hbody | exact E2].
      + destruct (eval n p w fr e) as [[[va w1] t1]| |] eqn:E1; try discriminate. inversion H; subst.
        eapply IHe; eauto.
  Qed.
End InnerW.

(* a function's state writes are contained in its static write set *)
Lemma fn_writes_sound p : forall k f g n w fr o w' fr' t, calls_ok k p f = true -> nth_error (funs p) f = Some g ->
  exec n p w fr (fbody g) = Done (o, w', fr', t) -> wsub t (fwrites k p f).
Proof.
  induction k as [|k IH]; intros f g n w fr o w' fr' t Hc Hf H; [discriminate|].
  cbn in Hc. cbn [fwrites]. rewrite Hf in *.
  destruct (inner_w p k IH n) as [_ Hs]. eapply Hs; eauto.
Qed.

(* ------------------------------------------------------------------ the iterated array is not written *)
Definition nw (L1 L2 : list (vkind * nat)) (t : list eff) : Prop :=
  forall k x, In (Write k x) t -> is_state k = true -> in_iter L1 k x && in_iter L2 k x = false.
Lemma nw_nil L1 L2 : nw L1 L2 []. Proof. intros k x []. Qed.
Lemma nw_app L1 L2 a b : nw L1 L2 a -> nw L1 L2 b -> nw L1 L2 (a ++ b).
Proof. intros A B k x H. apply in_app_or in H. destruct H; eauto. Qed.
Lemma nw_cons_other L1 L2 e t : (forall k x, e <> Write k x) -> nw L1 L2 t -> nw L1 L2 (e :: t).
Proof. intros N A k x [H|H] S; [exfalso; eapply N; eauto | eauto]. Qed.
Lemma nw_one_other L1 L2 e : (forall k x, e <> Write k x) -> nw L1 L2 [e].
Proof. intros. apply nw_cons_other; auto. apply nw_nil. Qed.
Lemma nw_weaken q1 q2 L1 L2 t : nw (q1 :: L1) (q2 :: L2) t -> nw L1 L2 t.
Proof.
  intros A k x H S. specialize (A k x H S). unfold in_iter in *. cbn in A.
  destruct (existsb _ L1); [|reflexivity]. destruct (existsb _ L2); [|reflexivity].
  rewrite !orb_true_r in A. discriminate.
Qed.

Lemma loop_nw body i cnt L1 L2 :
  (forall w fr o w' fr' t, body w fr = Done (o, w', fr', t) -> nw L1 L2 t) ->
  forall cur w fr o w' fr' t, loop body i cnt cur w fr = Done (o, w', fr', t) -> nw L1 L2 t.
Proof.
  intros Hb. induction cnt as [|c IH]; intros cur w fr o w' fr' t H; cbn in H.
  - inversion H; subst. apply nw_nil.
  - destruct (body w _) as [[[[o1 w1] fr2] t1]| |] eqn:E; try discriminate.
    pose proof (Hb _ _ _ _ _ _ E) as C1.
    destruct o1.
    + destruct (loop body i c (cur + 1) w1 fr2) as [[[[o2 w2] fr3] t2]| |] eqn:E2; try discriminate.
      inversion H; subst. apply nw_cons_other; [discriminate|]. apply nw_app; eauto.
    + inversion H; subst. apply nw_cons_other; [discriminate|]. auto.
Qed.

Lemma chk_callees_exist p c e : chk_expr p c e = true -> forall f, In f (callees_e e) -> nth_error (funs p) f <> None.
Proof.
  induction e; cbn; intros H f0 Hf; try contradiction.
  - apply andb_prop in H. destruct H. apply in_app_or in Hf. destruct Hf; eauto.
  - apply andb_prop in H. destruct H as [Hg Ha]. destruct Hf as [<-|Hf]; eauto.
    destruct (nth_error (funs p) f); [discriminate|discriminate].
  - repeat (apply andb_prop in H; destruct H as [H ?]). eauto.
  - apply andb_prop in H. destruct H. eauto.
Qed.

Section Iter.
  Variable p : prog.
  Hypothesis Hacyc : forall f, nth_error (funs p) f <> None -> calls_ok (length (funs p)) p f = true.

  Lemma expr_nw c e n w fr v w' t L1 L2 :
    chk_expr p c e = true -> calls_keep p L2 (callees_e e) = true ->
    eval n p w fr e = Done (v, w', t) -> nw L1 L2 t.
  Proof.
    intros Hc Hk H.
    assert (Hall : forallb (calls_ok (length (funs p)) p) (callees_e e) = true).
    { apply forallb_forall. intros f Hf. apply Hacyc. eapply chk_callees_exist; eauto. }
    destruct (inner_w p (length (funs p)) (fn_writes_sound p (length (funs p))) n) as [He _].
    pose proof (He _ _ _ _ _ _ Hall H) as W.
    intros k x Hin S. specialize (W k x Hin S). apply in_flat_map in W. destruct W as [f [Hf Hw]].
    unfold calls_keep in Hk. rewrite forallb_forall in Hk. specialize (Hk f Hf). apply negb_true_iff in Hk.
    destruct (in_iter L2 k x) eqn:E2; [|apply andb_false_r].
    exfalso. assert (existsb (fun q => in_iter L2 (fst q) (snd q)) (fwrites (length (funs p)) p f) = true)
      by (apply existsb_exists; exists (k, x); auto). congruence.
  Qed.

  Lemma wr_nw w fr k x v w2 fr2 t2 L1 L2 : in_iter L1 k x = false -> wr w fr k x v = (w2, fr2, t2) -> nw L1 L2 t2.
  Proof.
    intros Hn. destruct k; cbn; intros H; inversion H; subst; try apply nw_nil;
      intros kk xx [E|[]] S; inversion E; subst; rewrite Hn; reflexivity.
  Qed.

  Lemma stmt_nw : forall n c L1 L2 s w fr o w' fr' t,
    chk_stmt p c L1 s = true -> iter_calls_ok p L2 s = true ->
    exec n p w fr s = Done (o, w', fr', t) -> nw L1 L2 t.
  Proof.
    induction n as [|n IH]; intros c L1 L2 s w fr o w' fr' t Hc Hi H; [discriminate|].
    destruct s; cbn in Hc, Hi, H.
    - inversion H; subst. apply nw_nil.
    - apply andb_prop in Hc. destruct Hc as [Ca Cb]. apply andb_prop in Hi. destruct Hi as [Ia Ib].
      destruct (exec n p w fr s1) as [[[[o1 w1] fr1] t1]| |] eqn:E1; try discriminate.
      pose proof (IH _ _ _ _ _ _ _ _ _ _ Ca Ia E1) as A.
      destruct o1.
      + destruct (exec n p w1 fr1 s2) as [[[[o2 w2] fr2] t2]| |] eqn:E2; try discriminate.
        inversion H; subst. apply nw_app; auto. exact (IH _ _ _ _ _ _ _ _ _ _ Cb Ib E2).
      + inversion H; subst. auto.
    - apply andb_prop in Hc. destruct Hc as [Hc He]. apply andb_prop in Hc. destruct Hc as [_ Hn]. apply negb_true_iff in Hn.
      destruct (eval n p w fr e) as [[[va w1] t1]| |] eqn:E1; try discriminate.
      destruct (wr w1 fr k x va) as [[w2 fr2] t2] eqn:Ew. inversion H; subst.
      apply nw_app; [eapply expr_nw; eauto | eapply wr_nw; eauto].
    - apply andb_prop in Hc. destruct Hc as [Hc He]. apply andb_prop in Hc. destruct Hc as [_ Hn]. apply negb_true_iff in Hn.
      destruct (eval n p w fr e) as [[[va w1] t1]| |] eqn:E1; try discriminate.
      destruct (wr w1 fr k x _) as [[w2 fr2] t2] eqn:Ew. inversion H; subst.
      apply nw_app; [destruct (is_state k); [apply nw_one_other; discriminate | apply nw_nil]|].
      apply nw_app; [eapply expr_nw; eauto | eapply wr_nw; eauto].
    - destruct (eval n p w fr e) as [[[va w1] t1]| |] eqn:E1; try discriminate. inversion H; subst. eapply expr_nw; eauto.
    - apply andb_prop in Hc. destruct Hc as [_ He].
      destruct (eval n p w fr e) as [[[va w1] t1]| |] eqn:E1; try discriminate. inversion H; subst.
      apply nw_app; [eapply expr_nw; eauto | apply nw_one_other; discriminate].
    - apply andb_prop in Hc. destruct Hc as [Hc Cb]. apply andb_prop in Hc. destruct Hc as [Ce Ca].
      apply andb_prop in Hi. destruct Hi as [Hi Ib]. apply andb_prop in Hi. destruct Hi as [Ie Ia].
      destruct (eval n p w fr c0) as [[[v w1] t1]| |] eqn:E1; try discriminate.
      destruct (exec n p w1 fr (if v =? 0 then s2 else s1)) as [[[[o2 w2] fr2] t2]| |] eqn:E2; try discriminate.
      inversion H; subst. apply nw_app; [eapply expr_nw; eauto|].
      destruct (v =? 0); [exact (IH _ _ _ _ _ _ _ _ _ _ Cb Ib E2) | exact (IH _ _ _ _ _ _ _ _ _ _ Ca Ia E2)].
    - apply andb_prop in Hc. destruct Hc as [Cr Cb]. apply andb_prop in Hi. destruct Hi as [Ir Ib].
      assert (Hbody : forall w fr o w' fr' t, (fun w' fr' => exec n p w' fr' s) w fr = Done (o, w', fr', t) -> nw L1 L2 t)
        by (intros ? ? ? ? ? ? H0; cbv beta in H0; exact (IH _ _ _ _ _ _ _ _ _ _ Cb Ib H0)).
      destruct r; cbn in Cr, Ir.
      + eapply loop_nw; [exact Hbody | exact H].
      + repeat (apply andb_prop in Cr; destruct Cr as [Cr ?]).
        destruct (eval n p w fr e) as [[[v w1] t1]| |] eqn:E1; try discriminate.
        destruct (K <? v); [discriminate|].
        destruct (loop _ i (Z.to_nat v) 0 w1 fr) as [[[[o2 w2] fr2] t2]| |] eqn:E2; try discriminate.
        inversion H; subst. apply nw_app; [eapply expr_nw; eauto | eapply loop_nw; [exact Hbody | exact E2]].
      + discriminate.
    - apply andb_prop in Hc. destruct Hc as [_ Cb].
      assert (Hbody : forall w fr o w' fr' t, (fun w' fr' => exec n p w' fr' s) w fr = Done (o, w', fr', t) ->
                 nw ((k, x) :: L1) ((k, x) :: L2) t)
        by (intros ? ? ? ? ? ? H0; cbv beta in H0; exact (IH _ _ _ _ _ _ _ _ _ _ Cb Hi H0)).
      destruct (loop _ i len 0 w fr) as [[[[o2 w2] fr2] t2]| |] eqn:E2; try discriminate.
      inversion H; subst. apply nw_app; [destruct (is_state k); [apply nw_one_other; discriminate | apply nw_nil]|].
      eapply nw_weaken. eapply loop_nw; [exact Hbody | exact E2].
    - destruct (eval n p w fr e) as [[[va w1] t1]| |] eqn:E1; try discriminate. inversion H; subst. eapply expr_nw; eauto.
  Qed.
End Iter.

Lemma check_acyc p : check p = true -> forall f, nth_error (funs p) f <> None -> calls_ok (length (funs p)) p f = true.
Proof.
  intros Hc f Hf. unfold check in Hc. apply andb_prop in Hc. destruct Hc as [Hc _]. apply andb_prop in Hc. destruct Hc as [_ Ha].
  unfold acyclic in Ha. rewrite forallb_forall in Ha. apply Ha. apply in_seq.
  apply nth_error_Some in Hf. lia.
Qed.

(* any `for i in <state array (k,x)>` occurring anywhere in an accepted program: while it runs, (k,x) is never written,
   neither by the loop body nor by any function the body calls (transitively) *)
Theorem iterator_not_modified_lemma p g i k x len b : check p = true -> In g (funs p) ->
  subs (SForList i k x len b) (fbody g) -> is_state k = true ->
  forall n w fr o w' fr' t, exec n p w fr (SForList i k x len b) = Done (o, w', fr', t) -> ~ In (Write k x) t.
Proof.
  intros Hc Hg Hs Sk n w fr o w' fr' t H Hin.
  destruct (chk_subs p g _ _ Hs _ (check_fn p g Hc Hg)) as [L1 C1].
  destruct (iter_subs p _ _ Hs _ (check_fn_iter p g Hc Hg)) as [L2 [_ C2]].
  destruct n; [discriminate|]. cbn in H, C1, C2. apply andb_prop in C1. destruct C1 as [_ C1].
  destruct (loop _ i len 0 w fr) as [[[[o2 w2] fr2] t2]| |] eqn:E2; try discriminate.
  inversion H; subst. rewrite Sk in Hin. destruct Hin as [Hin|Hin]; [discriminate|].
  assert (N : nw ((k, x) :: L1) ((k, x) :: L2) t2).
  { eapply loop_nw; [|exact E2]. intros ? ? ? ? ? ? H0. cbv beta in H0.
    eapply (stmt_nw p (check_acyc p Hc)); eauto. }
  specialize (N k x Hin Sk). unfold in_iter in N. cbn in N.
  assert (vk_eqb k k && Nat.eqb x x = true) by (destruct k; cbn; rewrite Nat.eqb_refl; reflexivity).
  rewrite H0 in N. cbn in N. discriminate.
Qed.
