(* C11: `range_guard_correct` -- the guard the venom code generator emits in front of a bounded range loop (templates recorded
   from the real Stmt._lower_range_loop on every run, GenRangeGuard.v) lets the loop start exactly when the mathematical span
   end - start is within [0, bound]; in particular a span >= 2^255 of an int256 loop variable is rejected. *)
From Coq Require Import ZArith List String Bool.
From Verif Require Import Base.Word256 C03.LIR C03.VSL C11.GenRangeGuard C11.RangeGuard.
Import ListNotations.
Open Scope string_scope.
Open Scope Z_scope.

Theorem range_guard_correct : forall signed bits N t, In (signed, bits, true, N, t) venom_range_guards ->
  forall x y, 0 <= x < W -> 0 <= y < W -> 0 <= N < W ->
  vrun [("%2", y); ("%1", x)] t =
    (if (0 <=? sval signed y - sval signed x) && (sval signed y - sval signed x <=? N) then Val y else Revert).
Proof. exact venom_range_guard_correct_lemma. Qed.
Print Assumptions range_guard_correct.

Theorem range_guard_template_correct : forall signed N x y, 0 <= x < W -> 0 <= y < W -> 0 <= N < W ->
  vrun [("%2", y); ("%1", x)] (m_guard signed true N) =
    (if (0 <=? sval signed y - sval signed x) && (sval signed y - sval signed x <=? N) then Val y else Revert).
Proof. exact range_guard_correct_lemma. Qed.
Theorem range_guard1_template_correct : forall signed N x, 0 <= x < W -> 0 <= N < W ->
  vrun [("%1", x)] (m_guard signed false N) = (if (0 <=? sval signed x) && (sval signed x <=? N) then Val x else Revert).
Proof. exact range_guard1_correct_lemma. Qed.
Theorem range_guard_family : forallb guard_tie_one venom_range_guards = true /\ List.length venom_range_guards = 36%nat.
Proof. split; [exact tie_range_guards | reflexivity]. Qed.

(* non-vacuity: the recorded int256 template rejects range(MIN_INT256, 0, bound=4) and accepts range(-2, 2, bound=4) *)
Example range_guard_nonvacuous :
  match find (fun g => let '(s, b, two, n, _) := g in s && (b =? 256) && two && (n =? 4)) venom_range_guards with
  | Some (_, _, _, _, t) =>
      vrun [("%2", 0); ("%1", HALF)] t = Revert /\ vrun [("%2", 2); ("%1", W - 2)] t = Val 2 /\
      vrun [("%2", HALF - 1); ("%1", HALF)] t = Revert
  | None => False
  end.
Proof. vm_compute. repeat split; reflexivity. Qed.
