(* C11: completeness of `check` for single-rule violations at any syntactic position, and acyclicity. *)
From Coq Require Import ZArith Bool List Lia.
From Verif Require Import C11.Effects.
Import ListNotations.
Open Scope Z_scope.

(* e occurs inside e' (evaluation contexts C[.] for expressions) *)
Inductive sube (e : expr) : expr -> Prop :=
| sube_refl : sube e e
| sube_binl a b : sube e a -> sube e (EBin a b)
| sube_binr a b : sube e b -> sube e (EBin a b)
| sube_call f a : sube e a -> sube e (ECall f a)
| sube_ext k m a : sube e a -> sube e (EExtCall k m a)
| sube_blt m a : sube e a -> sube e (EBuiltin m a).

(* s occurs inside s' *)
Inductive subs (s : stmt) : stmt -> Prop :=
| subs_refl : subs s s
| subs_seql a b : subs s a -> subs s (SSeq a b)
| subs_seqr a b : subs s b -> subs s (SSeq a b)
| subs_ifl c a b : subs s a -> subs s (SIf c a b)
| subs_ifr c a b : subs s b -> subs s (SIf c a b)
| subs_for i r b : subs s b -> subs s (SFor i r b)
| subs_forlist i k x n b : subs s b -> subs s (SForList i k x n b).

(* e is an expression position of statement s *)
Inductive top_expr (e : expr) : stmt -> Prop :=
| te_assign k x : top_expr e (SAssign k x e)
| te_aug k x : top_expr e (SAug k x e)
| te_expr : top_expr e (SExpr e)
| te_log : top_expr e (SLog e)
| te_if a b : top_expr e (SIf e a b)
| te_bound i K b : top_expr e (SFor i (RBound e K) b)
| te_return : top_expr e (SReturn e).

Lemma chk_sube p c e e' : sube e e' -> chk_expr p c e' = true -> chk_expr p c e = true.
Proof.
  induction 1; cbn; intros Hc; auto;
    repeat (apply andb_prop in Hc; destruct Hc as [Hc ?]); auto.
Qed.

Lemma chk_subs p c s s' : subs s s' -> forall L, chk_stmt p c L s' = true -> exists L', chk_stmt p c L' s = true.
Proof.
  induction 1; cbn; intros L Hc; eauto;
    repeat (apply andb_prop in Hc; destruct Hc as [Hc ?]); eauto.
Qed.

Lemma chk_top p c L e s : top_expr e s -> chk_stmt p c L s = true -> chk_expr p c e = true.
Proof.
  destruct 1; cbn; intros Hc; auto; repeat (apply andb_prop in Hc; destruct Hc as [Hc ?]); auto.
Qed.

Lemma check_fn p g : check p = true -> In g (funs p) -> chk_stmt p g [] (fbody g) = true.
Proof.
  unfold check. intros H Hg. apply andb_prop in H. destruct H as [H _]. apply andb_prop in H. destruct H as [H _].
  rewrite forallb_forall in H.
  specialize (H g Hg). unfold fn_ok in H. repeat (apply andb_prop in H; destruct H as [H ?]). exact H.
Qed.

(* any expression e that fails the expression rules, at any position of any statement of any function *)
Theorem reject_expr_anywhere p g s e0 e :
  In g (funs p) -> subs s (fbody g) -> top_expr e0 s -> sube e e0 -> chk_expr p g e = false -> check p = false.
Proof.
  intros Hg Hs Ht He Hbad. destruct (check p) eqn:C; [|reflexivity]. exfalso.
  pose proof (check_fn p g C Hg) as H1.
  destruct (chk_subs p g s _ Hs _ H1) as [L' H2].
  pose proof (chk_top p g L' e0 s Ht H2) as H3.
  pose proof (chk_sube p g e e0 He H3) as H4. congruence.
Qed.

(* any statement s that fails the statement rules under every loop context, at any position *)
Theorem reject_stmt_anywhere p g s :
  In g (funs p) -> subs s (fbody g) -> (forall L, chk_stmt p g L s = false) -> check p = false.
Proof.
  intros Hg Hs Hbad. destruct (check p) eqn:C; [|reflexivity]. exfalso.
  pose proof (check_fn p g C Hg) as H1.
  destruct (chk_subs p g s _ Hs _ H1) as [L' H2]. rewrite Hbad in H2. discriminate.
Qed.

(* ---- the single-rule violations (each makes the local check false) *)
Definition le_view (g : fn) := mle (fmut g) View = true.

Lemma viol_pure_env p g x : fmut g = Pure -> chk_expr p g (EEnv x) = false.
Proof. cbn. intros ->. reflexivity. Qed.
Lemma viol_pure_addr p g x : fmut g = Pure -> chk_expr p g (EAddrMember x) = false.
Proof. cbn. intros ->. reflexivity. Qed.
Lemma viol_pure_state p g k x : fmut g = Pure -> is_state k = true -> chk_expr p g (EVar k x) = false.
Proof. cbn. intros -> ->. reflexivity. Qed.
Lemma viol_msgvalue p g : fmut g <> Pay -> chk_expr p g EMsgValue = false.
Proof. cbn. destruct (fmut g); cbn; congruence. Qed.
Lemma viol_view_calls_mod p g f h a : le_view g -> nth_error (funs p) f = Some h -> mle NonPay (fmut h) = true ->
  chk_expr p g (ECall f a) = false.
Proof.
  unfold le_view. cbn. intros Hg -> Hh. unfold call_ok.
  destruct (fmut g), (fmut h); cbn in *; try discriminate; destruct (fvis h); reflexivity.
Qed.
Lemma viol_pure_calls_view p g f h a : fmut g = Pure -> nth_error (funs p) f = Some h -> fmut h <> Pure ->
  chk_expr p g (ECall f a) = false.
Proof.
  cbn. intros Hg -> Hh. unfold call_ok. rewrite Hg. destruct (fmut h); cbn; try congruence; destruct (fvis h); reflexivity.
Qed.
Lemma viol_call_unknown p g f a : nth_error (funs p) f = None -> chk_expr p g (ECall f a) = false.
Proof. cbn. intros ->. reflexivity. Qed.
Lemma viol_view_extcall p g k m a : le_view g -> mle NonPay m = true -> chk_expr p g (EExtCall k m a) = false.
Proof.
  unfold le_view. cbn. unfold call_ok. intros Hg Hm.
  destruct (fmut g), m, k; cbn in *; try discriminate; reflexivity.
Qed.
Lemma viol_keyword p g k m a :
  (k = KExt /\ mle NonPay m = false) \/ (k = KStatic /\ mle NonPay m = true) -> chk_expr p g (EExtCall k m a) = false.
Proof. cbn. intros [[-> H]|[-> H]]; rewrite H; reflexivity. Qed.
Lemma viol_pure_staticcall_view p g k m a : fmut g = Pure -> m <> Pure -> chk_expr p g (EExtCall k m a) = false.
Proof. cbn. unfold call_ok. intros -> Hm. destruct m, k; cbn; congruence. Qed.
Lemma viol_view_builtin p g m a : le_view g -> mle NonPay m = true -> chk_expr p g (EBuiltin m a) = false.
Proof. unfold le_view. cbn. unfold call_ok. intros Hg Hm. destruct (fmut g), m; cbn in *; try discriminate; reflexivity. Qed.

Lemma viol_view_write p g L k x e : le_view g -> (k = VStorage \/ k = VTransient) -> chk_stmt p g L (SAssign k x e) = false.
Proof. unfold le_view. cbn. intros Hg [->| ->]; cbn; rewrite Hg; reflexivity. Qed.
Lemma viol_view_augwrite p g L k x e : le_view g -> (k = VStorage \/ k = VTransient) -> chk_stmt p g L (SAug k x e) = false.
Proof. unfold le_view. cbn. intros Hg [->| ->]; cbn; rewrite Hg; reflexivity. Qed.
Lemma viol_const_write p g L x e : chk_stmt p g L (SAssign VConst x e) = false.
Proof. reflexivity. Qed.
Lemma viol_loopvar_write p g L x e : chk_stmt p g L (SAssign VLoop x e) = false.
Proof. reflexivity. Qed.
Lemma viol_calldata_write p g L x e : fvis g <> Internal -> chk_stmt p g L (SAssign VArg x e) = false.
Proof. intros H. cbn. destruct (fvis g); cbn; congruence. Qed.
Lemma viol_immutable_write p g L x e : fvis g <> Ctor -> chk_stmt p g L (SAssign VImm x e) = false.
Proof. intros H. cbn. destruct (fvis g); cbn; congruence. Qed.
Lemma viol_view_log p g L e : le_view g -> chk_stmt p g L (SLog e) = false.
Proof. unfold le_view. cbn. intros ->. reflexivity. Qed.
Lemma viol_unbounded_range p g L i e b : chk_stmt p g L (SFor i (RExpr e) b) = false.
Proof. reflexivity. Qed.
Lemma viol_bad_bound p g L i e K b : K < 1 -> chk_stmt p g L (SFor i (RBound e K) b) = false.
Proof. cbn. intros H. destruct (1 <=? K) eqn:E; [lia|reflexivity]. Qed.
Lemma viol_empty_range p g L i n b : n <= 0 -> chk_stmt p g L (SFor i (RLit n) b) = false.
Proof. cbn. intros H. destruct (0 <? n) eqn:E; [lia|reflexivity]. Qed.
Lemma viol_range_modcall p g L i e K b : has_modcall p e = true -> chk_stmt p g L (SFor i (RBound e K) b) = false.
Proof. cbn. intros ->. rewrite !andb_false_r. reflexivity. Qed.
(* assigning the array being iterated, anywhere inside the loop body *)
Lemma in_iter_mono L k x q : in_iter L k x = true -> in_iter (q :: L) k x = true.
Proof. unfold in_iter. cbn. intros ->. apply orb_true_r. Qed.
Lemma chk_iter_assign p g s k x e : subs (SAssign k x e) s ->
  forall L, in_iter L k x = true -> chk_stmt p g L s = false.
Proof.
  induction 1; intros L HL; cbn.
  - rewrite HL. cbn. rewrite andb_false_r. reflexivity.
  - rewrite IHsubs; auto.
  - rewrite IHsubs; auto. apply andb_false_r.
  - rewrite IHsubs; auto. rewrite andb_false_r. reflexivity.
  - rewrite IHsubs; auto. apply andb_false_r.
  - rewrite IHsubs; auto. apply andb_false_r.
  - rewrite IHsubs; auto. apply andb_false_r. apply in_iter_mono. exact HL.
Qed.
Lemma viol_iterator_mutation p g L i k x n b e : subs (SAssign k x e) b -> chk_stmt p g L (SForList i k x n b) = false.
Proof.
  intros H. cbn. rewrite (chk_iter_assign p g b k x e H); [apply andb_false_r|].
  unfold in_iter. cbn. destruct k; cbn; rewrite Nat.eqb_refl; reflexivity.
Qed.

(* ---- recursion *)
Definition edge (p : prog) (f g : nat) : Prop :=
  exists h, nth_error (funs p) f = Some h /\ In g (callees_s (fbody h)).
Inductive path (p : prog) : nat -> nat -> Prop :=
| path_one f g : edge p f g -> path p f g
| path_step f g h : edge p f g -> path p g h -> path p f h.

Lemma calls_ok_edge p n f g : calls_ok n p f = true -> edge p f g -> exists m, n = S m /\ calls_ok m p g = true.
Proof.
  destruct n; cbn; [discriminate|]. intros H [h [Hf Hin]]. rewrite Hf in H.
  rewrite forallb_forall in H. eauto.
Qed.
Lemma calls_ok_path p f g : path p f g -> forall n, calls_ok n p f = true -> exists m, (m < n)%nat /\ calls_ok m p g = true.
Proof.
  induction 1; intros n Hn.
  - destruct (calls_ok_edge p n f g Hn H) as [m [-> Hm]]. exists m. split; [lia|auto].
  - destruct (calls_ok_edge p n f g Hn H) as [m [-> Hm]].
    destruct (IHpath m Hm) as [m' [Hlt Hm']]. exists m'. split; [lia|auto].
Qed.
Lemma no_cycle_from_ok p : forall n f, calls_ok n p f = true -> path p f f -> False.
Proof.
  induction n as [n IH] using lt_wf_ind. intros f Hn Hp.
  destruct (calls_ok_path p f f Hp n Hn) as [m [Hlt Hm]]. exact (IH m Hlt f Hm Hp).
Qed.
Theorem acyclic_lemma p : check p = true -> forall f, ~ path p f f.
Proof.
  intros Hc f Hp. unfold check in Hc. apply andb_prop in Hc. destruct Hc as [Hc _]. apply andb_prop in Hc. destruct Hc as [_ Ha].
  unfold acyclic in Ha. rewrite forallb_forall in Ha.
  assert (Hf : (f < length (funs p))%nat).
  { inversion Hp as [? ? [h [Hh _]]|? ? ? [h [Hh _]]]; subst; apply nth_error_Some; congruence. }
  apply (no_cycle_from_ok p (length (funs p)) f); auto. apply Ha. apply in_seq. lia.
Qed.
(* direct or mutual recursion is rejected *)
Corollary reject_recursion p f : path p f f -> check p = false.
Proof. intros H. destruct (check p) eqn:C; auto. exfalso. exact (acyclic_lemma p C f H). Qed.

(* in an accepted program every assignment, at any nesting depth, targets a writable variable: never a constant,
   a loop variable or (in an external function) a calldata argument; an immutable only inside the constructor;
   storage / transient storage only above @view *)
Lemma assign_targets_lemma p g k x e : check p = true -> In g (funs p) ->
  (subs (SAssign k x e) (fbody g) \/ subs (SAug k x e) (fbody g)) -> writable g k = true.
Proof.
  intros C Hg Hs. pose proof (check_fn p g C Hg) as H1.
  destruct Hs as [Hs|Hs]; destruct (chk_subs p g _ _ Hs _ H1) as [L' H2]; cbn in H2;
    repeat (apply andb_prop in H2; destruct H2 as [H2 ?]); exact H2.
Qed.

(* ---- iterator mutation through an internal call *)
Lemma check_fn_iter p g : check p = true -> In g (funs p) -> iter_calls_ok p [] (fbody g) = true.
Proof.
  unfold check. intros H Hg. apply andb_prop in H. destruct H as [H _]. apply andb_prop in H. destruct H as [H _].
  rewrite forallb_forall in H.
  specialize (H g Hg). unfold fn_ok in H. apply andb_prop in H. destruct H as [H _]. apply andb_prop in H. tauto.
Qed.
Lemma iter_subs p s s' : subs s s' -> forall L, iter_calls_ok p L s' = true -> exists L', incl L L' /\ iter_calls_ok p L' s = true.
Proof.
  induction 1; cbn; intros L Hc.
  - exists L. split; [apply incl_refl|auto].
  - apply andb_prop in Hc. destruct Hc as [Hc ?]. eauto.
  - apply andb_prop in Hc. destruct Hc as [? Hc]. eauto.
  - apply andb_prop in Hc. destruct Hc as [Hc ?]. apply andb_prop in Hc. destruct Hc as [? Hc]. eauto.
  - apply andb_prop in Hc. destruct Hc as [? Hc]. eauto.
  - apply andb_prop in Hc. destruct Hc as [? Hc]. eauto.
  - destruct (IHsubs _ Hc) as [L' [Hi Hk]]. exists L'. split; auto. intros q Hq. apply Hi. right. exact Hq.
Qed.
Lemma in_iter_incl L L' k x : incl L L' -> in_iter L k x = true -> in_iter L' k x = true.
Proof.
  unfold in_iter. rewrite !existsb_exists. intros Hi [q [Hq Hb]]. exists q. split; auto.
Qed.
(* `for i in <k,x>: ... self.f(..) ...` where f (transitively) writes <k,x>, the call at any depth of the loop body,
   in any expression position: rejected *)
Theorem reject_iterator_mutation_via_call p g i k x n b s e0 f a :
  In g (funs p) -> subs (SForList i k x n b) (fbody g) -> subs s b -> top_expr e0 s -> sube (ECall f a) e0 ->
  In (k, x) (fwrites (length (funs p)) p f) -> check p = false.
Proof.
  intros Hg Hfor Hs Ht He Hw. destruct (check p) eqn:C; [|reflexivity]. exfalso.
  pose proof (check_fn_iter p g C Hg) as H1.
  destruct (iter_subs p _ _ Hfor _ H1) as [L1 [_ H2]]. cbn in H2.
  destruct (iter_subs p _ _ Hs _ H2) as [L2 [Hi H3]].
  assert (HL : in_iter L2 k x = true).
  { apply (in_iter_incl ((k, x) :: L1)); auto. unfold in_iter. cbn. destruct k; cbn; rewrite Nat.eqb_refl; reflexivity. }
  assert (Hcal : In f (callees_e e0)).
  { clear -He. induction He; cbn; auto with datatypes. }
  assert (Hk : calls_keep p L2 (callees_e e0) = true).
  { destruct Ht; cbn in H3; auto; repeat (apply andb_prop in H3; destruct H3 as [H3 ?]); auto. }
  unfold calls_keep in Hk. rewrite forallb_forall in Hk. specialize (Hk f Hcal).
  apply negb_true_iff in Hk. 
  assert (existsb (fun q => in_iter L2 (fst q) (snd q)) (fwrites (length (funs p)) p f) = true).
  { apply existsb_exists. exists (k, x). split; auto. }
  congruence.
Qed.

(* ---- modules *)
Lemma check_fn_mod p g : check p = true -> In g (funs p) -> mod_fn_ok p g = true.
Proof.
  unfold check. intros H Hg. apply andb_prop in H. destruct H as [H _]. apply andb_prop in H. destruct H as [H _].
  rewrite forallb_forall in H. specialize (H g Hg). unfold fn_ok in H. apply andb_prop in H. tauto.
Qed.
Lemma touches_sube e e' : sube e e' -> touches_e e = true -> touches_e e' = true.
Proof. induction 1; cbn; intros Ht; auto; rewrite IHsube; auto; apply orb_true_r. Qed.
Lemma touches_top e s : top_expr e s -> touches_e e = true -> touches_s s = true.
Proof. destruct 1; cbn; intros ->; auto; rewrite ?orb_true_r; reflexivity. Qed.
Lemma touches_subs s s' : subs s s' -> touches_s s = true -> touches_s s' = true.
Proof. induction 1; cbn; intros Ht; auto; rewrite IHsubs; auto; rewrite ?orb_true_r; reflexivity. Qed.

(* the main contract touches lib1 state (read or write, any position) without `uses` / `initializes` *)
Theorem reject_lib_state_access p g s e0 k x :
  In g (funs p) -> flib g = false -> owns p = NoOwn -> lib_var k x = true ->
  subs s (fbody g) -> (top_expr e0 s /\ sube (EVar k x) e0 \/ (exists e, s = SAssign k x e \/ s = SAug k x e)) ->
  check p = false.
Proof.
  intros Hg Hl Ho Hv Hs Hpos. destruct (check p) eqn:C; [|reflexivity]. exfalso.
  pose proof (check_fn_mod p g C Hg) as M. unfold mod_fn_ok in M. rewrite Hl, Ho in M.
  apply andb_prop in M. destruct M as [M _]. apply negb_true_iff in M.
  assert (touches_s (fbody g) = true); [|congruence].
  apply (touches_subs s); auto.
  destruct Hpos as [[Ht He]|[e [->| ->]]].
  - apply (touches_top e0); auto. apply (touches_sube (EVar k x)); auto.
  - cbn. rewrite Hv. reflexivity.
  - cbn. rewrite Hv. reflexivity.
Qed.
(* ... or calls (at any position) a lib1 function that uses lib1 state, directly or transitively *)
Theorem reject_lib_stateful_call p g f :
  In g (funs p) -> flib g = false -> owns p = NoOwn -> In f (callees_s (fbody g)) ->
  fuses (length (funs p)) p f = true -> check p = false.
Proof.
  intros Hg Hl Ho Hf Hu. destruct (check p) eqn:C; [|reflexivity]. exfalso.
  pose proof (check_fn_mod p g C Hg) as M. unfold mod_fn_ok in M. rewrite Hl, Ho in M.
  apply andb_prop in M. destruct M as [_ M]. apply negb_true_iff in M.
  assert (existsb (fuses (length (funs p)) p) (callees_s (fbody g)) = true); [|congruence].
  apply existsb_exists. eauto.
Qed.
Theorem reject_uses_without_initializes p : owns p = Uses -> check p = false.
Proof. intros H. unfold check, own_ok. rewrite H. apply andb_false_r. Qed.
