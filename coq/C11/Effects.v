(* C11: EffVy -- a core calculus of Vyper's mutability / constancy / loop rules.
   `check` transcribes the analyser's rules (vyper/semantics/analysis/local.py: _handle_modification,
   _check_call_mutability, _validate_pure_access, _validate_msg_value_access, visit_Log, visit_For,
   _validate_range_call; module.py: _compute_and_validate_reachable_r).  `eval/exec` is a fuelled value-level
   semantics that also records an effect trace.  Hand-written (H-tie: tools/checks/c11.py compares `check`
   with the real front end on generated programs).  No proofs here. *)
From Coq Require Import ZArith Bool List Lia.
Import ListNotations.
Open Scope Z_scope.

Inductive mut : Set := Pure | View | NonPay | Pay.
Definition mrank (m : mut) : nat := match m with Pure => 0 | View => 1 | NonPay => 2 | Pay => 3 end.
Definition mle (a b : mut) : bool := Nat.leb (mrank a) (mrank b).
Inductive vis : Set := External | Internal | Ctor.
Inductive kw : Set := KExt | KStatic.
(* variable kinds, as resolved by the namespace *)
Inductive vkind : Set := VLocal | VArg | VStorage | VTransient | VConst | VImm | VLoop.
Definition is_state (k : vkind) : bool :=
  match k with VStorage | VTransient | VImm => true | _ => false end.

Inductive expr : Set :=
| ELit (n : Z)
| EVar (k : vkind) (x : nat)
| EEnv (x : nat)                      (* block.*, msg.sender, tx.*, chain.id *)
| EAddrMember (x : nat)               (* <address>.balance / .codesize / ... , self.balance *)
| EMsgValue
| EBin (a b : expr)
| ECall (f : nat) (a : expr)          (* internal call, by function index *)
| EExtCall (k : kw) (m : mut) (a : expr)   (* extcall / staticcall to an interface function declared m *)
| EBuiltin (m : mut) (a : expr).      (* builtin tagged with its mutability (raw_call, send, create_*: NonPay; blockhash: View) *)

Inductive rng : Set :=
| RLit (n : Z)                        (* range(n), literal *)
| RBound (e : expr) (K : Z)           (* range(e, bound=K) *)
| RExpr (e : expr).                   (* range(e), e not a literal, no bound *)

Inductive stmt : Set :=
| SSkip
| SSeq (s t : stmt)
| SAssign (k : vkind) (x : nat) (e : expr)
| SAug (k : vkind) (x : nat) (e : expr)
| SExpr (e : expr)
| SLog (e : expr)
| SIf (c : expr) (s t : stmt)
| SFor (i : nat) (r : rng) (b : stmt)
| SForList (i : nat) (k : vkind) (x : nat) (len : nat) (b : stmt)   (* for i in <array variable (k,x)> *)
| SReturn (e : expr).

(* modules: a function lives in the main contract or in the imported library module `lib1`; the main contract
   declares nothing, `uses: lib1` or `initializes: lib1`.  Storage variables with index >= 5 belong to lib1. *)
Inductive ownership : Set := NoOwn | Uses | Initializes.
Record fn : Set := mk_fn { fmut : mut; fvis : vis; flib : bool; fbody : stmt }.
Record prog : Set := mk_prog { funs : list fn; cst : nat -> Z; owns : ownership }.
Definition lib_var (k : vkind) (x : nat) : bool :=
  match k with VStorage => Nat.leb 5 x && negb (Nat.eqb x 8) && negb (Nat.eqb x 9) | _ => false end.

(* ------------------------------------------------------------------ the checker *)
Definition call_ok (callee caller : mut) : bool := mle callee caller || mle NonPay caller.

Fixpoint has_modcall (p : prog) (e : expr) : bool :=
  match e with
  | EBin a b => has_modcall p a || has_modcall p b
  | ECall f a => (match nth_error (funs p) f with Some g => mle NonPay (fmut g) | None => false end) || has_modcall p a
  | EExtCall _ m a => mle NonPay m || has_modcall p a
  | EBuiltin m a => mle NonPay m || has_modcall p a
  | _ => false
  end.

Fixpoint chk_expr (p : prog) (c : fn) (e : expr) : bool :=
  match e with
  | ELit _ => true
  | EVar k _ => negb (mle (fmut c) Pure && is_state k)
  | EEnv _ => negb (mle (fmut c) Pure)
  | EAddrMember _ => negb (mle (fmut c) Pure)
  | EMsgValue => mle Pay (fmut c)
  | EBin a b => chk_expr p c a && chk_expr p c b
  | ECall f a =>
      match nth_error (funs p) f with
      | Some g => (match fvis g with Internal => true | _ => false end) && call_ok (fmut g) (fmut c)
      | None => false
      end && chk_expr p c a
  | EExtCall k m a =>
      (* keyword must match the declared mutability, then the usual call rule *)
      Bool.eqb (match k with KStatic => true | KExt => false end) (negb (mle NonPay m))
      && call_ok m (fmut c) && chk_expr p c a
  | EBuiltin m a => call_ok m (fmut c) && chk_expr p c a
  end.

Definition writable (c : fn) (k : vkind) : bool :=
  match k with
  | VLocal => true
  | VArg => match fvis c with Internal => true | _ => false end   (* calldata args are read-only *)
  | VStorage | VTransient => negb (mle (fmut c) View)
  | VConst => false
  | VImm => match fvis c with Ctor => true | _ => false end
  | VLoop => false
  end.

Definition vk_eqb (a b : vkind) : bool :=
  match a, b with
  | VLocal, VLocal | VArg, VArg | VStorage, VStorage | VTransient, VTransient | VConst, VConst
  | VImm, VImm | VLoop, VLoop => true
  | _, _ => false
  end.
Definition in_iter (L : list (vkind * nat)) (k : vkind) (x : nat) : bool :=
  existsb (fun q => vk_eqb (fst q) k && Nat.eqb (snd q) x) L.

(* expressions the constant folder reduces to a literal (`reduced()` is an Int) *)
Fixpoint foldable (e : expr) : bool :=
  match e with
  | ELit _ | EVar VConst _ => true
  | EBin a b => foldable a && foldable b
  | EBuiltin Pure a => foldable a
  | _ => false
  end.

Definition chk_rng (p : prog) (c : fn) (r : rng) : bool :=
  match r with
  | RLit n => 0 <? n
  (* "Please remove the bound= kwarg when using range with constants" *)
  | RBound e K => (1 <=? K) && negb (foldable e) && chk_expr p c e && negb (has_modcall p e)
  | RExpr _ => false
  end.

(* L = arrays currently being iterated (they may not be assigned) *)
Fixpoint chk_stmt (p : prog) (c : fn) (L : list (vkind * nat)) (s : stmt) : bool :=
  match s with
  | SSkip => true
  | SSeq s t => chk_stmt p c L s && chk_stmt p c L t
  (* the target is also visited as an expression, so the @pure read rule applies to it *)
  | SAssign k x e | SAug k x e =>
      writable c k && negb (mle (fmut c) Pure && is_state k) && negb (in_iter L k x) && chk_expr p c e
  | SExpr e => chk_expr p c e
  | SLog e => negb (mle (fmut c) View) && chk_expr p c e
  | SIf e s t => chk_expr p c e && chk_stmt p c L s && chk_stmt p c L t
  | SFor _ r b => chk_rng p c r && chk_stmt p c L b
  | SForList _ k x _ b => negb (mle (fmut c) Pure && is_state k) && chk_stmt p c ((k, x) :: L) b
  | SReturn e => chk_expr p c e
  end.

(* call-graph: callees of a body *)
Fixpoint callees_e (e : expr) : list nat :=
  match e with
  | EBin a b => callees_e a ++ callees_e b
  | ECall f a => f :: callees_e a
  | EExtCall _ _ a | EBuiltin _ a => callees_e a
  | _ => []
  end.
Definition callees_r (r : rng) : list nat :=
  match r with RLit _ => [] | RBound e _ | RExpr e => callees_e e end.
Fixpoint callees_s (s : stmt) : list nat :=
  match s with
  | SSkip => []
  | SSeq s t => callees_s s ++ callees_s t
  | SAssign _ _ e | SAug _ _ e | SExpr e | SLog e | SReturn e => callees_e e
  | SIf e s t => callees_e e ++ callees_s s ++ callees_s t
  | SFor _ r b => callees_r r ++ callees_s b
  | SForList _ _ _ _ b => callees_s b
  end.
(* depth-bounded descent: with n = number of functions, a cycle exhausts the budget *)
Fixpoint calls_ok (n : nat) (p : prog) (f : nat) : bool :=
  match n with
  | O => false
  | S n' => match nth_error (funs p) f with
            | Some g => forallb (calls_ok n' p) (callees_s (fbody g))
            | None => false
            end
  end.
Definition acyclic (p : prog) : bool :=
  forallb (calls_ok (length (funs p)) p) (seq 0 (length (funs p))).

(* iterator mutation through internal calls: state variables a function may write, directly ... *)
Fixpoint writes_s (s : stmt) : list (vkind * nat) :=
  match s with
  | SSeq s t | SIf _ s t => writes_s s ++ writes_s t
  | SAssign k x _ | SAug k x _ => if is_state k then [(k, x)] else []
  | SFor _ _ b | SForList _ _ _ _ b => writes_s b
  | _ => []
  end.
(* ... or through at most n nested internal calls (func_t.get_variable_writes of the callee) *)
Fixpoint fwrites (n : nat) (p : prog) (f : nat) : list (vkind * nat) :=
  match n with
  | O => []
  | S n' => match nth_error (funs p) f with
            | Some g => writes_s (fbody g) ++ flat_map (fwrites n' p) (callees_s (fbody g))
            | None => []
            end
  end.
Definition calls_keep (p : prog) (L : list (vkind * nat)) (fs : list nat) : bool :=
  forallb (fun f => negb (existsb (fun q => in_iter L (fst q) (snd q)) (fwrites (length (funs p)) p f))) fs.
(* no statement inside `for x in <array>` calls a function that writes <array> *)
Fixpoint iter_calls_ok (p : prog) (L : list (vkind * nat)) (s : stmt) : bool :=
  match s with
  | SSkip => true
  | SSeq s t => iter_calls_ok p L s && iter_calls_ok p L t
  | SAssign _ _ e | SAug _ _ e | SExpr e | SLog e | SReturn e => calls_keep p L (callees_e e)
  | SIf c s t => calls_keep p L (callees_e c) && iter_calls_ok p L s && iter_calls_ok p L t
  | SFor _ r b => calls_keep p L (callees_r r) && iter_calls_ok p L b
  | SForList _ k x _ b => iter_calls_ok p ((k, x) :: L) b
  end.

(* module state: does a function touch lib1's state, directly or through at most n nested calls (`uses_state`) *)
Fixpoint touches_e (e : expr) : bool :=
  match e with
  | EVar k x => lib_var k x
  | EBin a b => touches_e a || touches_e b
  | ECall _ a | EExtCall _ _ a | EBuiltin _ a => touches_e a
  | _ => false
  end.
Definition touches_r (r : rng) : bool := match r with RLit _ => false | RBound e _ | RExpr e => touches_e e end.
Fixpoint touches_s (s : stmt) : bool :=
  match s with
  | SSkip => false
  | SSeq s t => touches_s s || touches_s t
  | SAssign k x e | SAug k x e => lib_var k x || touches_e e
  | SExpr e | SLog e | SReturn e => touches_e e
  | SIf c s t => touches_e c || touches_s s || touches_s t
  | SFor _ r b => touches_r r || touches_s b
  | SForList _ k x _ b => lib_var k x || touches_s b
  end.
Fixpoint fuses (n : nat) (p : prog) (f : nat) : bool :=
  match n with
  | O => false
  | S n' => match nth_error (funs p) f with
            | Some g => touches_s (fbody g) || existsb (fuses n' p) (callees_s (fbody g))
            | None => false
            end
  end.
(* check_module_uses: a main-contract function may touch lib1 state, or call a lib1 function that uses lib1 state,
   only if the contract `uses` / `initializes` lib1; library code never calls back into the main contract *)
Definition mod_fn_ok (p : prog) (g : fn) : bool :=
  if flib g then
    forallb (fun f => match nth_error (funs p) f with Some h => flib h | None => false end) (callees_s (fbody g))
  else
    match owns p with
    | NoOwn => negb (touches_s (fbody g)) && negb (existsb (fuses (length (funs p)) p) (callees_s (fbody g)))
    | _ => true
    end.
(* validate_compilation_target: a module that is `uses`-d by the compilation target must be initialized *)
Definition own_ok (p : prog) : bool := match owns p with Uses => false | _ => true end.

Definition fn_ok (p : prog) (g : fn) : bool :=
  chk_stmt p g [] (fbody g) && iter_calls_ok p [] (fbody g) && mod_fn_ok p g.
Definition check (p : prog) : bool := forallb (fn_ok p) (funs p) && acyclic p && own_ok p.

(* ------------------------------------------------------------------ semantics *)
Inductive eff : Set :=
| Write (k : vkind) (x : nat)   (* state write: storage / transient / immutable *)
| ModCall                        (* a call that may modify state (CALL, CREATE, SELFDESTRUCT...) *)
| EnvRead | StateRead | MsgValueRead | Log | Iter.

Record world : Type := mk_world {
  sto : nat -> Z; tra : nat -> Z; imm : nat -> Z; env : nat -> Z; bal : nat -> Z; msgval : Z;
  ext_pure : Z -> Z;                         (* result of a call to a pure external function *)
  ext_view : (nat -> Z) -> Z -> Z;           (* result of a state-reading call *)
  ext_mod : (nat -> Z) -> Z -> (nat -> Z) * Z  (* a modifying call: new storage and result *)
}.
Record frame : Type := mk_frame { loc : nat -> Z; arg : Z; lp : nat -> Z }.

Definition upd (f : nat -> Z) (x : nat) (v : Z) : nat -> Z := fun y => if Nat.eqb y x then v else f y.
Definition set_sto (w : world) s := mk_world s (tra w) (imm w) (env w) (bal w) (msgval w) (ext_pure w) (ext_view w) (ext_mod w).
Definition set_tra (w : world) s := mk_world (sto w) s (imm w) (env w) (bal w) (msgval w) (ext_pure w) (ext_view w) (ext_mod w).
Definition set_imm (w : world) s := mk_world (sto w) (tra w) s (env w) (bal w) (msgval w) (ext_pure w) (ext_view w) (ext_mod w).

Definition rd (p : prog) (w : world) (fr : frame) (k : vkind) (x : nat) : Z :=
  match k with
  | VLocal => loc fr x | VArg => arg fr | VStorage => sto w x | VTransient => tra w x
  | VConst => cst p x | VImm => imm w x | VLoop => lp fr x
  end.
Definition wr (w : world) (fr : frame) (k : vkind) (x : nat) (v : Z) : world * frame * list eff :=
  match k with
  | VLocal => (w, mk_frame (upd (loc fr) x v) (arg fr) (lp fr), [])
  | VArg => (w, mk_frame (loc fr) v (lp fr), [])
  | VStorage => (set_sto w (upd (sto w) x v), fr, [Write VStorage x])
  | VTransient => (set_tra w (upd (tra w) x v), fr, [Write VTransient x])
  | VImm => (set_imm w (upd (imm w) x v), fr, [Write VImm x])
  | VConst => (w, fr, [Write VConst x])          (* never accepted by check *)
  | VLoop => (w, mk_frame (loc fr) (arg fr) (upd (lp fr) x v), [Write VLoop x])
  end.

Inductive outcome : Set := Normal | Returned (v : Z).

(* outcome of a fuelled run: a result, a run-time revert (failed bound assertion, call of a missing function),
   or fuel exhaustion *)
Inductive res3 (A : Type) : Type := Done (a : A) | Revert | Fuel.
Arguments Done {A} _.
Arguments Revert {A}.
Arguments Fuel {A}.
Notation "' pat <- m ;; k" := (match m with Done pat => k | Revert => Revert | Fuel => Fuel end)
  (at level 61, pat pattern, m at next level, right associativity).

(* n iterations of a body, loop variable i = start, start+1, ... ; stops at Returned *)
Fixpoint loop (body : world -> frame -> res3 (outcome * world * frame * list eff))
         (i : nat) (cnt : nat) (cur : Z) (w : world) (fr : frame) : res3 (outcome * world * frame * list eff) :=
  match cnt with
  | O => Done (Normal, w, fr, [])
  | S c =>
      let fr1 := mk_frame (loc fr) (arg fr) (upd (lp fr) i cur) in
      '(o, w1, fr2, t1) <- body w fr1 ;;
      match o with
      | Returned _ => Done (o, w1, fr2, Iter :: t1)
      | Normal => '(o2, w2, fr3, t2) <- loop body i c (cur + 1) w1 fr2 ;; Done (o2, w2, fr3, Iter :: t1 ++ t2)
      end
  end.

Fixpoint eval (n : nat) (p : prog) (w : world) (fr : frame) (e : expr) {struct n} : res3 (Z * world * list eff) :=
  match n with
  | O => Fuel
  | S n =>
    match e with
    | ELit z => Done (z, w, [])
    | EVar k x => Done (rd p w fr k x, w, if is_state k then [StateRead] else [])
    | EEnv x => Done (env w x, w, [EnvRead])
    | EAddrMember x => Done (bal w x, w, [EnvRead])
    | EMsgValue => Done (msgval w, w, [MsgValueRead])
    | EBin a b =>
        '(va, w1, t1) <- eval n p w fr a ;; '(vb, w2, t2) <- eval n p w1 fr b ;; Done (va + vb, w2, t1 ++ t2)
    | ECall f a =>
        '(va, w1, t1) <- eval n p w fr a ;;
        match nth_error (funs p) f with
        | None => Revert
        | Some g =>
            '(o, w2, _, t2) <- exec n p w1 (mk_frame (fun _ => 0) va (fun _ => 0)) (fbody g) ;;
            Done (match o with Returned v => v | Normal => 0 end, w2, t1 ++ t2)
        end
    | EExtCall k m a =>
        '(va, w1, t1) <- eval n p w fr a ;;
        match k with
        | KExt => let '(s, r) := ext_mod w1 (sto w1) va in Done (r, set_sto w1 s, t1 ++ [ModCall])
        | KStatic => match m with
                     | Pure => Done (ext_pure w1 va, w1, t1)
                     | _ => Done (ext_view w1 (sto w1) va, w1, t1 ++ [StateRead])
                     end
        end
    | EBuiltin m a =>
        '(va, w1, t1) <- eval n p w fr a ;;
        match m with
        | Pure => Done (ext_pure w1 va, w1, t1)
        | View => Done (ext_view w1 (sto w1) va, w1, t1 ++ [StateRead])
        | _ => let '(s, r) := ext_mod w1 (sto w1) va in Done (r, set_sto w1 s, t1 ++ [ModCall])
        end
    end
  end
with exec (n : nat) (p : prog) (w : world) (fr : frame) (s : stmt) {struct n} : res3 (outcome * world * frame * list eff) :=
  match n with
  | O => Fuel
  | S n =>
    match s with
    | SSkip => Done (Normal, w, fr, [])
    | SSeq s t =>
        '(o, w1, fr1, t1) <- exec n p w fr s ;;
        match o with
        | Returned _ => Done (o, w1, fr1, t1)
        | Normal => '(o2, w2, fr2, t2) <- exec n p w1 fr1 t ;; Done (o2, w2, fr2, t1 ++ t2)
        end
    | SAssign k x e =>
        '(v, w1, t1) <- eval n p w fr e ;;
        let '(w2, fr2, t2) := wr w1 fr k x v in Done (Normal, w2, fr2, t1 ++ t2)
    | SAug k x e =>
        '(v, w1, t1) <- eval n p w fr e ;;
        let '(w2, fr2, t2) := wr w1 fr k x (rd p w1 fr k x + v) in
        Done (Normal, w2, fr2, (if is_state k then [StateRead] else []) ++ t1 ++ t2)
    | SExpr e => '(_, w1, t1) <- eval n p w fr e ;; Done (Normal, w1, fr, t1)
    | SLog e => '(_, w1, t1) <- eval n p w fr e ;; Done (Normal, w1, fr, t1 ++ [Log])
    | SIf c s t =>
        '(v, w1, t1) <- eval n p w fr c ;;
        '(o, w2, fr2, t2) <- exec n p w1 fr (if v =? 0 then t else s) ;; Done (o, w2, fr2, t1 ++ t2)
    | SFor i r b =>
        match r with
        | RLit c => loop (fun w' fr' => exec n p w' fr' b) i (Z.to_nat c) 0 w fr
        | RBound e K =>
            '(v, w1, t1) <- eval n p w fr e ;;
            if K <? v then Revert                       (* run-time assert: reverts *)
            else '(o, w2, fr2, t2) <- loop (fun w' fr' => exec n p w' fr' b) i (Z.to_nat v) 0 w1 fr ;;
                 Done (o, w2, fr2, t1 ++ t2)
        | RExpr e =>
            '(v, w1, t1) <- eval n p w fr e ;;
            '(o, w2, fr2, t2) <- loop (fun w' fr' => exec n p w' fr' b) i (Z.to_nat v) 0 w1 fr ;;
            Done (o, w2, fr2, t1 ++ t2)
        end
    | SForList i k x len b =>
        '(o, w2, fr2, t2) <- loop (fun w' fr' => exec n p w' fr' b) i len 0 w fr ;;
        Done (o, w2, fr2, (if is_state k then [StateRead] else []) ++ t2)
    | SReturn e => '(v, w1, t1) <- eval n p w fr e ;; Done (Returned v, w1, fr, t1)
    end
  end.

(* effects that a @view / @pure function must never produce (and STATICCALL would trap) *)
Definition loud (e : eff) : bool :=
  match e with Write VStorage _ | Write VTransient _ | ModCall | Log => true | _ => false end.
Definition quiet (t : list eff) : Prop := forallb (fun e => negb (loud e)) t = true.
(* effects a @pure function must never produce *)
Definition impure (e : eff) : bool :=
  match e with EnvRead | StateRead | MsgValueRead | Write _ _ => true | _ => loud e end.
Definition silent (t : list eff) : Prop := forallb (fun e => negb (impure e)) t = true.
