(* C11: soundness of `check` w.r.t. the effect semantics of EffVy. *)
From Coq Require Import ZArith Bool List Lia.
From Verif Require Import C11.Effects.
Import ListNotations.
Open Scope Z_scope.

Definition clean (bad : eff -> bool) (t : list eff) : Prop := forallb (fun e => negb (bad e)) t = true.

Lemma clean_nil bad : clean bad []. Proof. reflexivity. Qed.
Lemma clean_app bad a b : clean bad a -> clean bad b -> clean bad (a ++ b).
Proof. unfold clean. intros. rewrite forallb_app. now rewrite H, H0. Qed.
Lemma clean_app_inv bad a b : clean bad (a ++ b) -> clean bad a /\ clean bad b.
Proof. unfold clean. rewrite forallb_app. intros H. apply andb_prop in H. exact H. Qed.
Lemma clean_cons bad e t : bad e = false -> clean bad t -> clean bad (e :: t).
Proof. unfold clean. cbn. intros -> ->. reflexivity. Qed.

(* bad effects for a function of mutability <= lim, lim in {Pure, View} *)
Definition badl (lim : mut) : eff -> bool := match lim with Pure => impure | _ => loud end.
Definition lim_ok (lim : mut) : Prop := lim = Pure \/ lim = View.

Definition all_ok (p : prog) : Prop := forall g, In g (funs p) -> chk_stmt p g [] (fbody g) = true.

Lemma loop_clean bad body i cnt : 
  bad Iter = false ->
  (forall w fr o w' fr' t, body w fr = Done (o, w', fr', t) -> clean bad t) ->
  forall cur w fr o w' fr' t, loop body i cnt cur w fr = Done (o, w', fr', t) -> clean bad t.
Proof.
  intros HI Hb. induction cnt as [|c IH]; intros cur w fr o w' fr' t H; cbn in H.
  - inversion H; subst. apply clean_nil.
  - destruct (body w _) as [[[[o1 w1] fr2] t1]| |] eqn:E; try discriminate.
    pose proof (Hb _ _ _ _ _ _ E) as C1.
    destruct o1.
    + destruct (loop body i c (cur + 1) w1 fr2) as [[[[o2 w2] fr3] t2]| |] eqn:E2; try discriminate.
      inversion H; subst. apply clean_cons; auto. apply clean_app; eauto.
    + inversion H; subst. apply clean_cons; auto.
Qed.

Lemma mle_trans a b c : mle a b = true -> mle b c = true -> mle a c = true.
Proof. destruct a, b, c; cbn; auto. Qed.

(* (B) a checked function of mutability <= lim produces no effect that is bad at level lim *)
Lemma checked_clean p lim : lim_ok lim -> all_ok p ->
  forall n,
    (forall c w fr e v w' t, mle (fmut c) lim = true -> chk_expr p c e = true ->
        eval n p w fr e = Done (v, w', t) -> clean (badl lim) t) /\
    (forall c L w fr s o w' fr' t, mle (fmut c) lim = true -> chk_stmt p c L s = true ->
        exec n p w fr s = Done (o, w', fr', t) -> clean (badl lim) t).
Proof.
  intros Hlim Hall. induction n as [|n [IHe IHs]].
  - split; intros; discriminate.
  - assert (HIter : badl lim Iter = false) by (destruct Hlim; subst; reflexivity).
    split.
    + intros c w fr e v w' t Hm Hc H. destruct e; cbn in H, Hc.
      * inversion H; subst. apply clean_nil.
      * inversion H; subst. destruct (is_state k) eqn:Ek; [|apply clean_nil].
        destruct Hlim; subst lim; cbn.
        -- rewrite Hm in Hc. cbn in Hc. discriminate.
        -- reflexivity.
      * inversion H; subst. destruct Hlim; subst lim; cbn; [|reflexivity].
        rewrite Hm in Hc. discriminate.
      * inversion H; subst. destruct Hlim; subst lim; cbn; [|reflexivity].
        rewrite Hm in Hc. discriminate.
      * inversion H; subst. exfalso. destruct Hlim; subst lim; destruct (fmut c); cbn in *; discriminate.
      * apply andb_prop in Hc. destruct Hc as [Ha Hb].
        destruct (eval n p w fr e1) as [[[va w1] t1]| |] eqn:E1; try discriminate.
        destruct (eval n p w1 fr e2) as [[[vb w2] t2]| |] eqn:E2; try discriminate.
        inversion H; subst. apply clean_app; eauto.
      * apply andb_prop in Hc. destruct Hc as [Hg Ha].
        destruct (eval n p w fr e) as [[[va w1] t1]| |] eqn:E1; try discriminate.
        destruct (nth_error (funs p) f) as [g|] eqn:Eg; [|discriminate].
        destruct (exec n p w1 _ (fbody g)) as [[[[o w2] fr2] t2]| |] eqn:E2; try discriminate.
        inversion H; subst. apply clean_app; [eauto|].
        apply andb_prop in Hg. destruct Hg as [_ Hcall].
        assert (Hgm : mle (fmut g) lim = true).
        { unfold call_ok in Hcall. destruct Hlim; subst lim; destruct (fmut g), (fmut c); cbn in *; try discriminate; auto. }
        eapply (IHs g []); eauto. apply Hall. eapply nth_error_In; eauto.
      * apply andb_prop in Hc. destruct Hc as [Hc Ha]. apply andb_prop in Hc. destruct Hc as [Hk Hcall].
        destruct (eval n p w fr e) as [[[va w1] t1]| |] eqn:E1; try discriminate.
        pose proof (IHe _ _ _ _ _ _ _ Hm Ha E1) as C1.
        unfold call_ok in Hcall.
        destruct k.
        -- exfalso. destruct Hlim; subst lim; destruct m, (fmut c); cbn in *; discriminate.
        -- destruct m.
           ++ inversion H; subst. exact C1.
           ++ inversion H; subst. apply clean_app; auto.
              destruct Hlim; subst lim; [|reflexivity].
              exfalso. destruct (fmut c); cbn in *; discriminate.
           ++ cbn in Hk. discriminate.
           ++ cbn in Hk. discriminate.
      * apply andb_prop in Hc. destruct Hc as [Hcall Ha].
        destruct (eval n p w fr e) as [[[va w1] t1]| |] eqn:E1; try discriminate.
        pose proof (IHe _ _ _ _ _ _ _ Hm Ha E1) as C1.
        unfold call_ok in Hcall.
        destruct m.
        -- inversion H; subst. exact C1.
        -- inversion H; subst. apply clean_app; auto.
           destruct Hlim; subst lim; [|reflexivity].
           exfalso. destruct (fmut c); cbn in *; discriminate.
        -- exfalso. destruct Hlim; subst lim; destruct (fmut c); cbn in *; discriminate.
        -- exfalso. destruct Hlim; subst lim; destruct (fmut c); cbn in *; discriminate.
    + intros c L w fr s o w' fr' t Hm Hc H. destruct s; cbn in H, Hc.
      * inversion H; subst. apply clean_nil.
      * apply andb_prop in Hc. destruct Hc as [Ha Hb].
        destruct (exec n p w fr s1) as [[[[o1 w1] fr1] t1]| |] eqn:E1; try discriminate.
        destruct o1.
        -- destruct (exec n p w1 fr1 s2) as [[[[o2 w2] fr2] t2]| |] eqn:E2; try discriminate.
           inversion H; subst. apply clean_app; eauto.
        -- inversion H; subst. eauto.
      * (* assign *) apply andb_prop in Hc. destruct Hc as [Hc He]. apply andb_prop in Hc. destruct Hc as [Hc _].
        apply andb_prop in Hc. destruct Hc as [Hw Hp].
        destruct (eval n p w fr e) as [[[v w1] t1]| |] eqn:E1; try discriminate.
        pose proof (IHe _ _ _ _ _ _ _ Hm He E1) as C1.
        destruct k; cbn in H; inversion H; subst; try (rewrite app_nil_r; exact C1);
          try (exfalso; unfold writable in Hw; destruct Hlim; subst lim; destruct (fmut c); cbn in *; discriminate).
        -- apply clean_app; auto. destruct Hlim; subst lim; [|reflexivity].
           exfalso. rewrite Hm in Hp. discriminate.
      * (* augassign *) apply andb_prop in Hc. destruct Hc as [Hc He]. apply andb_prop in Hc. destruct Hc as [Hc _].
        apply andb_prop in Hc. destruct Hc as [Hw Hp].
        destruct (eval n p w fr e) as [[[v w1] t1]| |] eqn:E1; try discriminate.
        pose proof (IHe _ _ _ _ _ _ _ Hm He E1) as C1.
        destruct k; cbn in H; inversion H; subst; cbn [app]; try (rewrite app_nil_r; exact C1);
          try (exfalso; unfold writable in Hw; destruct Hlim; subst lim; destruct (fmut c); cbn in *; discriminate).
        -- destruct Hlim; subst lim.
           ++ exfalso. rewrite Hm in Hp. discriminate.
           ++ apply clean_cons; [reflexivity|]. apply clean_app; auto. reflexivity.
      * destruct (eval n p w fr e) as [[[v w1] t1]| |] eqn:E1; try discriminate. inversion H; subst. eauto.
      * exfalso. apply andb_prop in Hc. destruct Hc as [Hl _].
        destruct Hlim; subst lim; destruct (fmut c); cbn in *; discriminate.
      * apply andb_prop in Hc. destruct Hc as [Hc Hb]. apply andb_prop in Hc. destruct Hc as [He Ha].
        destruct (eval n p w fr c0) as [[[v w1] t1]| |] eqn:E1; try discriminate.
        destruct (exec n p w1 fr (if v =? 0 then s2 else s1)) as [[[[o2 w2] fr2] t2]| |] eqn:E2; try discriminate.
        inversion H; subst. apply clean_app; [eauto|]. destruct (v =? 0); eauto.
      * (* for range *) apply andb_prop in Hc. destruct Hc as [Hr Hb].
        assert (Hbody : forall w fr o w' fr' t, exec n p w fr s = Done (o, w', fr', t) -> clean (badl lim) t)
          by (intros; eapply IHs; eauto).
        destruct r; cbn in Hr.
        -- eapply loop_clean; [exact HIter| |exact H]. exact Hbody.
        -- apply andb_prop in Hr. destruct Hr as [Hr _]. apply andb_prop in Hr. destruct Hr as [_ He].
           destruct (eval n p w fr e) as [[[v w1] t1]| |] eqn:E1; try discriminate.
           destruct (K <? v); [discriminate|].
           destruct (loop _ i (Z.to_nat v) 0 w1 fr) as [[[[o2 w2] fr2] t2]| |] eqn:E2; try discriminate.
           inversion H; subst. apply clean_app; [eauto|]. eapply loop_clean; [exact HIter| |exact E2]. exact Hbody.
        -- discriminate.
      * (* for list *) apply andb_prop in Hc. destruct Hc as [Hk Hb].
        destruct (loop _ i len 0 w fr) as [[[[o2 w2] fr2] t2]| |] eqn:E2; try discriminate.
        inversion H; subst. apply clean_app.
        -- destruct (is_state k) eqn:Ek; [|apply clean_nil].
           destruct Hlim; subst lim; cbn; [|reflexivity]. rewrite Hm in Hk. discriminate.
        -- eapply loop_clean; [exact HIter| |exact E2]. intros ? ? ? ? ? ? H0. cbv beta in H0. eapply IHs; eauto.
      * destruct (eval n p w fr e) as [[[v w1] t1]| |] eqn:E1; try discriminate. inversion H; subst. eauto.
Qed.

Lemma check_all_ok p : check p = true -> all_ok p.
Proof.
  unfold check, all_ok. intros H g Hg. apply andb_prop in H. destruct H as [H _]. apply andb_prop in H. destruct H as [H _].
  rewrite forallb_forall in H. specialize (H g Hg). unfold fn_ok in H.
  repeat (apply andb_prop in H; destruct H as [H ?]). exact H.
Qed.

Lemma view_no_write_lemma p : check p = true ->
  forall n f g w fr o w' fr' t, nth_error (funs p) f = Some g -> mle (fmut g) View = true ->
    exec n p w fr (fbody g) = Done (o, w', fr', t) -> quiet t.
Proof.
  intros Hc n f g w fr o w' fr' t Hf Hm H.
  pose proof (check_all_ok p Hc) as Hall.
  destruct (checked_clean p View (or_intror eq_refl) Hall n) as [_ Hs].
  eapply (Hs g []); eauto. apply Hall. eapply nth_error_In; eauto.
Qed.

Lemma pure_silent_lemma p : check p = true ->
  forall n f g w fr o w' fr' t, nth_error (funs p) f = Some g -> fmut g = Pure ->
    exec n p w fr (fbody g) = Done (o, w', fr', t) -> silent t.
Proof.
  intros Hc n f g w fr o w' fr' t Hf Hm H.
  pose proof (check_all_ok p Hc) as Hall.
  destruct (checked_clean p Pure (or_introl eq_refl) Hall n) as [_ Hs].
  eapply (Hs g []); eauto. rewrite Hm. reflexivity. apply Hall. eapply nth_error_In; eauto.
Qed.

(* ---- (A) unconditional: the world changes only where the trace says so *)
Definition sto_quiet (e : eff) : bool := match e with Write VStorage _ | ModCall => true | _ => false end.
Definition tra_quiet (e : eff) : bool := match e with Write VTransient _ => true | _ => false end.
Definition imm_quiet (e : eff) : bool := match e with Write VImm _ => true | _ => false end.
Definition pres (w w' : world) (t : list eff) : Prop :=
  (clean sto_quiet t -> sto w' = sto w) /\ (clean tra_quiet t -> tra w' = tra w) /\ (clean imm_quiet t -> imm w' = imm w).

Lemma pres_refl w : pres w w []. Proof. repeat split. Qed.
Lemma pres_trans w1 w2 w3 t1 t2 : pres w1 w2 t1 -> pres w2 w3 t2 -> pres w1 w3 (t1 ++ t2).
Proof.
  intros [A1 [A2 A3]] [B1 [B2 B3]]. repeat split; intros H; apply clean_app_inv in H; destruct H as [Ha Hb].
  - rewrite B1, A1; auto. - rewrite B2, A2; auto. - rewrite B3, A3; auto.
Qed.
Lemma pres_cons_harmless e w w' t : sto_quiet e = false -> tra_quiet e = false -> imm_quiet e = false ->
  pres w w' t -> pres w w' (e :: t).
Proof.
  intros H1 H2 H3 [A1 [A2 A3]]. repeat split; intros H; unfold clean in H; cbn in H; apply andb_prop in H; destruct H; auto.
Qed.
Lemma pres_any w w' e : (sto_quiet e = true \/ sto w' = sto w) -> (tra_quiet e = true \/ tra w' = tra w) ->
  (imm_quiet e = true \/ imm w' = imm w) -> pres w w' [e].
Proof.
  intros H1 H2 H3. repeat split; intros H; unfold clean in H; cbn in H; rewrite andb_true_r in H.
  - destruct H1 as [E|]; auto. rewrite E in H. discriminate.
  - destruct H2 as [E|]; auto. rewrite E in H. discriminate.
  - destruct H3 as [E|]; auto. rewrite E in H. discriminate.
Qed.

Lemma loop_pres body i cnt :
  (forall w fr o w' fr' t, body w fr = Done (o, w', fr', t) -> pres w w' t) ->
  forall cur w fr o w' fr' t, loop body i cnt cur w fr = Done (o, w', fr', t) -> pres w w' t.
Proof.
  intros Hb. induction cnt as [|c IH]; intros cur w fr o w' fr' t H; cbn in H.
  - inversion H; subst. apply pres_refl.
  - destruct (body w _) as [[[[o1 w1] fr2] t1]| |] eqn:E; try discriminate.
    pose proof (Hb _ _ _ _ _ _ E) as C1.
    destruct o1.
    + destruct (loop body i c (cur + 1) w1 fr2) as [[[[o2 w2] fr3] t2]| |] eqn:E2; try discriminate.
      inversion H; subst. apply pres_cons_harmless; try reflexivity. eapply pres_trans; eauto.
    + inversion H; subst. apply pres_cons_harmless; try reflexivity. exact C1.
Qed.

Lemma wr_pres w fr k x v w2 fr2 t2 : wr w fr k x v = (w2, fr2, t2) -> pres w w2 t2.
Proof.
  destruct k; cbn; intros H; inversion H; subst; try apply pres_refl;
    try (apply pres_any; cbn; auto).
Qed.

Lemma world_pres p : forall n,
  (forall w fr e v w' t, eval n p w fr e = Done (v, w', t) -> pres w w' t) /\
  (forall w fr s o w' fr' t, exec n p w fr s = Done (o, w', fr', t) -> pres w w' t).
Proof.
  induction n as [|n [IHe IHs]]; [split; intros; discriminate|]. split.
  - intros w fr e v w' t H. destruct e; cbn in H.
    + inversion H; subst. apply pres_refl.
    + inversion H; subst. destruct (is_state k); [apply pres_any; cbn; auto | apply pres_refl].
    + inversion H; subst. apply pres_any; cbn; auto.
    + inversion H; subst. apply pres_any; cbn; auto.
    + inversion H; subst. apply pres_any; cbn; auto.
    + destruct (eval n p w fr e1) as [[[va w1] t1]| |] eqn:E1; try discriminate.
      destruct (eval n p w1 fr e2) as [[[vb w2] t2]| |] eqn:E2; try discriminate.
      inversion H; subst. eapply pres_trans; eauto.
    + destruct (eval n p w fr e) as [[[va w1] t1]| |] eqn:E1; try discriminate.
      destruct (nth_error (funs p) f) as [g|]; [|discriminate].
      destruct (exec n p w1 _ (fbody g)) as [[[[o w2] fr2] t2]| |] eqn:E2; try discriminate.
      inversion H; subst. eapply pres_trans; eauto.
    + destruct (eval n p w fr e) as [[[va w1] t1]| |] eqn:E1; try discriminate.
      destruct k.
      * destruct (ext_mod w1 (sto w1) va) as [s r]. inversion H; subst.
        eapply pres_trans; eauto. apply pres_any; cbn; auto.
      * destruct m; inversion H; subst; eauto; (eapply pres_trans; eauto; apply pres_any; cbn; auto).
    + destruct (eval n p w fr e) as [[[va w1] t1]| |] eqn:E1; try discriminate.
      destruct m.
      * inversion H; subst. eauto.
      * inversion H; subst. eapply pres_trans; eauto. apply pres_any; cbn; auto.
      * destruct (ext_mod w1 (sto w1) va) as [s r]. inversion H; subst.
        eapply pres_trans; eauto. apply pres_any; cbn; auto.
      * destruct (ext_mod w1 (sto w1) va) as [s r]. inversion H; subst.
        eapply pres_trans; eauto. apply pres_any; cbn; auto.
  - intros w fr s o w' fr' t H. destruct s; cbn in H.
    + inversion H; subst. apply pres_refl.
    + destruct (exec n p w fr s1) as [[[[o1 w1] fr1] t1]| |] eqn:E1; try discriminate.
      destruct o1.
      * destruct (exec n p w1 fr1 s2) as [[[[o2 w2] fr2] t2]| |] eqn:E2; try discriminate.
        inversion H; subst. eapply pres_trans; eauto.
      * inversion H; subst. eauto.
    + destruct (eval n p w fr e) as [[[v w1] t1]| |] eqn:E1; try discriminate.
      destruct (wr w1 fr k x v) as [[w2 fr2] t2] eqn:Ew. inversion H; subst.
      eapply pres_trans; eauto. eapply wr_pres; eauto.
    + destruct (eval n p w fr e) as [[[v w1] t1]| |] eqn:E1; try discriminate.
      destruct (wr w1 fr k x _) as [[w2 fr2] t2] eqn:Ew. inversion H; subst.
      apply (pres_trans w w w'); [destruct (is_state k); [apply pres_any; cbn; auto | apply pres_refl]|].
      eapply pres_trans; eauto. eapply wr_pres; eauto.
    + destruct (eval n p w fr e) as [[[v w1] t1]| |] eqn:E1; try discriminate. inversion H; subst. eauto.
    + destruct (eval n p w fr e) as [[[v w1] t1]| |] eqn:E1; try discriminate. inversion H; subst.
      eapply pres_trans; eauto. apply pres_any; cbn; auto.
    + destruct (eval n p w fr c) as [[[v w1] t1]| |] eqn:E1; try discriminate.
      destruct (exec n p w1 fr (if v =? 0 then s2 else s1)) as [[[[o2 w2] fr2] t2]| |] eqn:E2; try discriminate.
      inversion H; subst. eapply pres_trans; eauto.
    + assert (Hbody : forall w fr o w' fr' t, (fun w' fr' => exec n p w' fr' s) w fr = Done (o, w', fr', t) -> pres w w' t)
        by (intros ? ? ? ? ? ? H0; cbv beta in H0; eauto).
      destruct r.
      * eapply loop_pres; eauto.
      * destruct (eval n p w fr e) as [[[v w1] t1]| |] eqn:E1; try discriminate.
        destruct (K <? v); [discriminate|].
        destruct (loop _ i (Z.to_nat v) 0 w1 fr) as [[[[o2 w2] fr2] t2]| |] eqn:E2; try discriminate.
        inversion H; subst. eapply pres_trans; eauto. eapply loop_pres; eauto.
      * destruct (eval n p w fr e) as [[[v w1] t1]| |] eqn:E1; try discriminate.
        destruct (loop _ i (Z.to_nat v) 0 w1 fr) as [[[[o2 w2] fr2] t2]| |] eqn:E2; try discriminate.
        inversion H; subst. eapply pres_trans; eauto. eapply loop_pres; eauto.
    + destruct (loop _ i len 0 w fr) as [[[[o2 w2] fr2] t2]| |] eqn:E2; try discriminate.
      inversion H; subst.
      apply (pres_trans w w w'); [destruct (is_state k); [apply pres_any; cbn; auto | apply pres_refl]|].
      eapply loop_pres; eauto. intros ? ? ? ? ? ? H0; cbv beta in H0; eauto.
    + destruct (eval n p w fr e) as [[[v w1] t1]| |] eqn:E1; try discriminate. inversion H; subst. eauto.
Qed.

Lemma quiet_sto t : quiet t -> clean sto_quiet t /\ clean tra_quiet t.
Proof.
  unfold quiet, clean. induction t as [|e t IH]; cbn; [auto|].
  intros H. apply andb_prop in H. destruct H as [He Ht]. destruct (IH Ht) as [A B].
  rewrite A, B. destruct e as [[] ?| | | | | |]; cbn in *; try discriminate; auto.
Qed.

Lemma view_state_unchanged_lemma p : check p = true ->
  forall n f g w fr o w' fr' t, nth_error (funs p) f = Some g -> mle (fmut g) View = true ->
    exec n p w fr (fbody g) = Done (o, w', fr', t) -> quiet t /\ sto w' = sto w /\ tra w' = tra w.
Proof.
  intros Hc n f g w fr o w' fr' t Hf Hm H.
  pose proof (view_no_write_lemma p Hc n f g w fr o w' fr' t Hf Hm H) as Q.
  destruct (world_pres p n) as [_ Hs]. destruct (Hs _ _ _ _ _ _ _ H) as [A [B _]].
  destruct (quiet_sto t Q). auto.
Qed.
