(* C11: accepted programs terminate within a statically computed fuel (acyclic call graph => finite call depth;
   loops are iterated by structural recursion on their count, so they cost no fuel in depth). *)
From Coq Require Import ZArith Bool List Lia.
From Verif Require Import C11.Effects.
Import ListNotations.
Open Scope Z_scope.

(* evaluation depth needed, given the depth `cf g` needed by each callee g *)
Fixpoint need_e (cf : nat -> nat) (e : expr) : nat :=
  match e with
  | EBin a b => S (Nat.max (need_e cf a) (need_e cf b))
  | ECall f a => S (Nat.max (need_e cf a) (cf f))
  | EExtCall _ _ a | EBuiltin _ a => S (need_e cf a)
  | _ => 1%nat
  end.
Definition need_r (cf : nat -> nat) (r : rng) : nat :=
  match r with RLit _ => 0%nat | RBound e _ | RExpr e => need_e cf e end.
Fixpoint need_s (cf : nat -> nat) (s : stmt) : nat :=
  match s with
  | SSkip => 1%nat
  | SSeq s t => S (Nat.max (need_s cf s) (need_s cf t))
  | SAssign _ _ e | SAug _ _ e | SExpr e | SLog e | SReturn e => S (need_e cf e)
  | SIf c s t => S (Nat.max (need_e cf c) (Nat.max (need_s cf s) (need_s cf t)))
  | SFor _ r b => S (Nat.max (need_r cf r) (need_s cf b))
  | SForList _ _ _ _ b => S (need_s cf b)
  end.
(* k = remaining call depth *)
Fixpoint need_f (k : nat) (p : prog) (f : nat) : nat :=
  match k with
  | O => 0%nat
  | S k' => match nth_error (funs p) f with
            | Some g => need_s (need_f k' p) (fbody g)
            | None => 0%nat
            end
  end.
Definition fuel_bound (p : prog) : nat :=
  list_max (map (need_f (length (funs p)) p) (seq 0 (length (funs p)))).

Definition nofuel {A} (r : res3 A) : Prop := r <> Fuel.

Lemma loop_nofuel body i cnt : (forall w fr, nofuel (body w fr)) ->
  forall cur w fr, nofuel (loop body i cnt cur w fr).
Proof.
  intros Hb. induction cnt as [|c IH]; intros cur w fr; cbn; [discriminate|].
  pose proof (Hb w (mk_frame (loc fr) (arg fr) (upd (lp fr) i cur))) as H1.
  destruct (body w _) as [[[[o1 w1] fr2] t1]| |]; try discriminate; [|contradiction].
  destruct o1; [|discriminate].
  pose proof (IH (cur + 1) w1 fr2) as H2.
  destruct (loop body i c (cur + 1) w1 fr2) as [[[[o2 w2] fr3] t2]| |]; try discriminate. contradiction.
Qed.

Ltac step H :=
  match goal with
  | |- nofuel (match ?x with _ => _ end) =>
      let E := fresh "E" in
      pose proof H as E; destruct x as [[[? ?] ?]| |] eqn:?; [| discriminate | exfalso; apply E; reflexivity]
  end.

Section Inner.
  (* hypotheses of the inner induction, discharged by the outer induction on call depth *)
  Variable p : prog.
  Variable k : nat.
  Hypothesis HF : forall f g n w fr, calls_ok k p f = true -> nth_error (funs p) f = Some g ->
    (need_f k p f <= n)%nat -> nofuel (exec n p w fr (fbody g)).

  Lemma inner : forall n,
    (forall e w fr, forallb (calls_ok k p) (callees_e e) = true -> (need_e (need_f k p) e <= n)%nat ->
        nofuel (eval n p w fr e)) /\
    (forall s w fr, forallb (calls_ok k p) (callees_s s) = true -> (need_s (need_f k p) s <= n)%nat ->
        nofuel (exec n p w fr s)).
  Proof.
    induction n as [|n [IHe IHs]].
    - split; intros x w fr _ H; exfalso; destruct x; cbn in H; lia.
    - split.
      + intros e w fr Hc Hn. destruct e; cbn in Hc, Hn; cbn [eval]; try discriminate.
        * rewrite forallb_app in Hc. apply andb_prop in Hc. destruct Hc as [Ca Cb].
          assert (Na : nofuel (eval n p w fr e1)) by (apply IHe; auto; lia).
          destruct (eval n p w fr e1) as [[[va w1] t1]| |]; try discriminate; [|contradiction].
          assert (Nb : nofuel (eval n p w1 fr e2)) by (apply IHe; auto; lia).
          destruct (eval n p w1 fr e2) as [[[vb w2] t2]| |]; try discriminate. contradiction.
        * apply andb_prop in Hc. destruct Hc as [Cf Ca].
          assert (Na : nofuel (eval n p w fr e)) by (apply IHe; auto; lia).
          destruct (eval n p w fr e) as [[[va w1] t1]| |]; try discriminate; [|contradiction].
          destruct (nth_error (funs p) f) as [g|] eqn:Eg; [|discriminate].
          assert (Nb : nofuel (exec n p w1 (mk_frame (fun _ => 0) va (fun _ => 0)) (fbody g))) by (eapply HF; eauto; lia).
          destruct (exec n p w1 _ (fbody g)) as [[[[o w2] fr2] t2]| |]; try discriminate. contradiction.
        * assert (Na : nofuel (eval n p w fr e)) by (apply IHe; auto; lia).
          destruct (eval n p w fr e) as [[[va w1] t1]| |]; try discriminate; [|contradiction].
          destruct k0; [destruct (ext_mod w1 (sto w1) va); discriminate | destruct m; discriminate].
        * assert (Na : nofuel (eval n p w fr e)) by (apply IHe; auto; lia).
          destruct (eval n p w fr e) as [[[va w1] t1]| |]; try discriminate; [|contradiction].
          destruct m; try discriminate; destruct (ext_mod w1 (sto w1) va); discriminate.
      + intros s w fr Hc Hn. destruct s; cbn in Hc, Hn; cbn [exec]; try discriminate.
        * rewrite forallb_app in Hc. apply andb_prop in Hc. destruct Hc as [Ca Cb].
          assert (Na : nofuel (exec n p w fr s1)) by (apply IHs; auto; lia).
          destruct (exec n p w fr s1) as [[[[o1 w1] fr1] t1]| |]; try discriminate; [|contradiction].
          destruct o1; [|discriminate].
          assert (Nb : nofuel (exec n p w1 fr1 s2)) by (apply IHs; auto; lia).
          destruct (exec n p w1 fr1 s2) as [[[[o2 w2] fr2] t2]| |]; try discriminate. contradiction.
        * assert (Na : nofuel (eval n p w fr e)) by (apply IHe; auto; lia).
          destruct (eval n p w fr e) as [[[va w1] t1]| |]; try discriminate; [|contradiction].
          destruct (wr w1 fr k0 x va) as [[? ?] ?]. discriminate.
        * assert (Na : nofuel (eval n p w fr e)) by (apply IHe; auto; lia).
          destruct (eval n p w fr e) as [[[va w1] t1]| |]; try discriminate; [|contradiction].
          destruct (wr w1 fr k0 x _) as [[? ?] ?]. discriminate.
        * assert (Na : nofuel (eval n p w fr e)) by (apply IHe; auto; lia).
          destruct (eval n p w fr e) as [[[va w1] t1]| |]; try discriminate. contradiction.
        * assert (Na : nofuel (eval n p w fr e)) by (apply IHe; auto; lia).
          destruct (eval n p w fr e) as [[[va w1] t1]| |]; try discriminate. contradiction.
        * rewrite !forallb_app in Hc. apply andb_prop in Hc. destruct Hc as [Cc Hc]. apply andb_prop in Hc. destruct Hc as [Ca Cb].
          assert (Na : nofuel (eval n p w fr c)) by (apply IHe; auto; lia).
          destruct (eval n p w fr c) as [[[v w1] t1]| |]; try discriminate; [|contradiction].
          assert (Nb : nofuel (exec n p w1 fr (if v =? 0 then s2 else s1))) by (destruct (v =? 0); apply IHs; auto; lia).
          destruct (exec n p w1 fr (if v =? 0 then s2 else s1)) as [[[[o2 w2] fr2] t2]| |]; try discriminate. contradiction.
        * rewrite forallb_app in Hc. apply andb_prop in Hc. destruct Hc as [Cr Cb].
          assert (Hbody : forall w fr, nofuel ((fun w' fr' => exec n p w' fr' s) w fr)) by (intros; apply IHs; auto; lia).
          destruct r; cbn in Cr, Hn.
          -- apply loop_nofuel. exact Hbody.
          -- assert (Na : nofuel (eval n p w fr e)) by (apply IHe; auto; lia).
             destruct (eval n p w fr e) as [[[v w1] t1]| |]; try discriminate; [|contradiction].
             destruct (K <? v); [discriminate|].
             pose proof (loop_nofuel _ i (Z.to_nat v) Hbody 0 w1 fr) as Nb.
             destruct (loop _ i (Z.to_nat v) 0 w1 fr) as [[[[o2 w2] fr2] t2]| |]; try discriminate. contradiction.
          -- assert (Na : nofuel (eval n p w fr e)) by (apply IHe; auto; lia).
             destruct (eval n p w fr e) as [[[v w1] t1]| |]; try discriminate; [|contradiction].
             pose proof (loop_nofuel _ i (Z.to_nat v) Hbody 0 w1 fr) as Nb.
             destruct (loop _ i (Z.to_nat v) 0 w1 fr) as [[[[o2 w2] fr2] t2]| |]; try discriminate. contradiction.
        * assert (Hbody : forall w fr, nofuel ((fun w' fr' => exec n p w' fr' s) w fr)) by (intros; apply IHs; auto; lia).
          pose proof (loop_nofuel _ i len Hbody 0 w fr) as Nb.
          destruct (loop _ i len 0 w fr) as [[[[o2 w2] fr2] t2]| |]; try discriminate. contradiction.
        * assert (Na : nofuel (eval n p w fr e)) by (apply IHe; auto; lia).
          destruct (eval n p w fr e) as [[[va w1] t1]| |]; try discriminate. contradiction.
  Qed.
End Inner.

Lemma fn_nofuel p : forall k f g n w fr, calls_ok k p f = true -> nth_error (funs p) f = Some g ->
  (need_f k p f <= n)%nat -> nofuel (exec n p w fr (fbody g)).
Proof.
  induction k as [|k IH]; intros f g n w fr Hc Hf Hn; [discriminate|].
  cbn in Hc, Hn. rewrite Hf in Hc, Hn.
  destruct (inner p k IH n) as [_ Hs]. apply Hs; auto.
Qed.

Lemma list_max_ge l x : In x l -> (x <= list_max l)%nat.
Proof.
  intros H. pose proof (proj1 (list_max_le l (list_max l)) (le_n _)) as F.
  rewrite Forall_forall in F. apply F. exact H.
Qed.

Theorem acyclic_terminates_lemma p : check p = true ->
  forall f g, nth_error (funs p) f = Some g ->
  forall n, (fuel_bound p <= n)%nat -> forall w fr, exec n p w fr (fbody g) <> Fuel.
Proof.
  intros Hc f g Hf n Hn w fr. unfold check in Hc. apply andb_prop in Hc. destruct Hc as [_ Ha].
  unfold acyclic in Ha. rewrite forallb_forall in Ha.
  assert (Hlt : (f < length (funs p))%nat) by (apply nth_error_Some; congruence).
  assert (Hin : In f (seq 0 (length (funs p)))) by (apply in_seq; lia).
  eapply fn_nofuel; eauto.
  unfold fuel_bound in Hn.
  assert ((need_f (length (funs p)) p f <= list_max (map (need_f (length (funs p)) p) (seq 0 (length (funs p)))))%nat).
  { apply list_max_ge. apply in_map. exact Hin. }
  lia.
Qed.
