(* C11: accepted programs terminate within a statically computed fuel (acyclic call graph => finite call depth;
   loops are iterated by structural recursion on their count, so they cost no fuel in depth). *)
From Coq Require Import ZArith Bool List Lia.
From Verif Require Import C11.Effects.
Import ListNotations.
Open Scope Z_scope.

(* evaluation depth needed, given the depth `cf g` needed by each callee g *)
Fixpoint need_e (cf : nat -> nat) (e : expr) : nat :=
  match e with
  | EBin a b => S (Nat.max (need_e cf a) (need_e cf b))
  | ECall f a => S (Nat.max (need_e cf a) (cf f))
  | EExtCall _ _ a | EBuiltin _ a => S (need_e cf a)
  | _ => 1%nat
  end.
Definition need_r (cf : nat -> nat) (r : rng) : nat :=
  match r with RLit _ => 0%nat | RBound e _ | RExpr e => need_e cf e end.
Fixpoint need_s (cf : nat -> nat) (s : stmt) : nat :=
  match s with
  | SSkip => 1%nat
  | SSeq s t => S (Nat.max (need_s cf s) (need_s cf t))
  | SAssign _ _ e | SAug _ _ e | SExpr e | SLog e | SReturn e => S (need_e cf e)
  | SIf c s t => S (Nat.max (need_e cf c) (Nat.max (need_s cf s) (need_s cf t)))
  | SFor _ r b => S (Nat.max (need_r cf r) (need_s cf b))
  | SForList _ _ _ _ b => S (need_s cf b)
  end.
(* k = remaining call depth *)
Fixpoint need_f (k : nat) (p : prog) (f : nat) : nat :=
  match k with
  | O => 0%nat
  | S k' => match nth_error (funs p) f with
            | Some g => need_s (need_f k' p) (fbody g)
            | None => 0%nat
            end
  end.
Definition fuel_bound (p : prog) : nat :=
  list_max (map (need_f (length (funs p)) p) (seq 0 (length (funs p)))).

Definition nofuel {A} (r : res3 A) : Prop := r <> Fuel.

Lemma loop_nofuel body i cnt : (forall w fr, nofuel (body w fr)) ->
  forall cur w fr, nofuel (loop body i cnt cur w fr).
Proof.
  intros Hb. induction cnt as [|c IH]; intros cur w fr; cbn; [discriminate|].
  pose proof (Hb w (mk_frame (loc fr) (arg fr) (upd (lp fr) i cur))) as H1.
  destruct (body w _) as [[[[o1 w1] fr2] t1]| |]; try discriminate; [|contradiction].
  destruct o1; [|discriminate].
  pose proof (IH (cur + 1) w1 fr2) as H2.
  destruct (loop body i c (cur + 1) w1 fr2) as [[[[o2 w2] fr3] t2]| |]; try discriminate. contradiction.
Qed.

Section Inner.
  (* hypotheses of the inner induction, discharged by the outer induction on call depth *)
  Variable p : prog.
  Variable k : nat.
  Hypothesis HF : forall f g n w fr, calls_ok k p f = true -> nth_error (funs p) f = Some g ->
    (need_f k p f <= n)%nat -> nofuel (exec n p w fr (fbody g)).

  Lemma inner : forall n,
    (forall e w fr, forallb (calls_ok k p) (callees_e e) = true -> (need_e (need_f k p) e <= n)%nat ->
        nofuel (eval n p w fr e)) /\
    (forall s w fr, forallb (calls_ok k p) (callees_s s) = true -> (need_s (need_f k p) s <= n)%nat ->
        nofuel (exec n p w fr s)).
  Proof.
    induction n as [|n [IHe IHs]].
    - split; intros x w fr _ H; exfalso; destruct x; cbn in H; lia.
    - split.
      + intros e w fr Hc Hn. destruct e; cbn in Hc, Hn; cbn [eval]; try discriminate.
        * rewrite forallb_app in Hc. apply andb_prop in Hc. destruct Hc as [Ca Cb].
          assert (Na : nofuel (eval n p w fr e1)) by (apply IHe; auto; lia).
          destruct (eval n p w fr e1) as [[[va w1] t1]| |]; try discriminate; [|contradiction].
          assert (Nb : nofuel (eval n p w1 fr e2)) by (apply IHe; auto; lia).
          destruct (eval n p w1 fr e2) as [[[vb w2] t2]| |]; try discriminate. contradiction.
        * apply andb_prop in Hc. destruct Hc as [Cf Ca].
          assert (Na : nofuel (eval n p w fr e)) by (apply IHe; auto; lia).
          destruct (eval n p w fr e) as [[[va w1] t1]| |]; try discriminate; [|contradiction].
          destruct (nth_error (funs p) f) as [g|] eqn:Eg; [|discriminate].
          assert (Nb : nofuel (exec n p w1 (mk_frame (fun _ => 0) va (fun _ => 0)) (fbody g))) by (eapply HF; eauto; lia).
          destruct (exec n p w1 _ (fbody g)) as [[[[o w2] fr2] t2]| |]; try discriminate. contradiction.
        * assert (Na : nofuel (eval n p w fr e)) by (apply IHe; auto; lia).
          destruct (eval n p w fr e) as [[[va w1] t1]| |]; try discriminate; [|contradiction].
          destruct k0; [destruct (ext_mod w1 (sto w1) va); discriminate | destruct m; discriminate].
        * assert (Na : nofuel (eval n p w fr e)) by (apply IHe; auto; lia).
          destruct (eval n p w fr e) as [[[va w1] t1]| |]; try discriminate; [|contradiction].
          destruct m; try discriminate; destruct (ext_mod w1 (sto w1) va); discriminate.
      + intros s w fr Hc Hn. destruct s; cbn in Hc, Hn; cbn [exec]; try discriminate.
        * rewrite forallb_app in Hc. apply andb_prop in Hc. destruct Hc as [Ca Cb].
          assert (Na : nofuel (exec n p w fr s1)) by (apply IHs; auto; lia).
          destruct (exec n p w fr s1) as [[[[o1 w1] fr1] t1]| |]; try discriminate; [|contradiction].
          destruct o1; [|discriminate].
          assert (Nb : nofuel (exec n p w1 fr1 s2)) by (apply IHs; auto; lia).
          destruct (exec n p w1 fr1 s2) as [[[[o2 w2] fr2] t2]| |]; try discriminate. contradiction.
        * assert (Na : nofuel (eval n p w fr e)) by (apply IHe; auto; lia).
          destruct (eval n p w fr e) as [[[va w1] t1]| |]; try discriminate; [|contradiction].
          destruct (wr w1 fr k0 x va) as [[? ?] ?]. discriminate.
        * assert (Na : nofuel (eval n p w fr e)) by (apply IHe; auto; lia).
          destruct (eval n p w fr e) as [[[va w1] t1]| |]; try discriminate; [|contradiction].
          destruct (wr w1 fr k0 x _) as [[? ?] ?]. discriminate.
        * assert (Na : nofuel (eval n p w fr e)) by (apply IHe; auto; lia).
          destruct (eval n p w fr e) as [[[va w1] t1]| |]; try discriminate. contradiction.
        * assert (Na : nofuel (eval n p w fr e)) by (apply IHe; auto; lia).
          destruct (eval n p w fr e) as [[[va w1] t1]| |]; try discriminate. contradiction.
        * rewrite !forallb_app in Hc. apply andb_prop in Hc. destruct Hc as [Cc Hc]. apply andb_prop in Hc. destruct Hc as [Ca Cb].
          assert (Na : nofuel (eval n p w fr c)) by (apply IHe; auto; lia).
          destruct (eval n p w fr c) as [[[v w1] t1]| |]; try discriminate; [|contradiction].
          assert (Nb : nofuel (exec n p w1 fr (if v =? 0 then s2 else s1))) by (destruct (v =? 0); apply IHs; auto; lia).
          destruct (exec n p w1 fr (if v =? 0 then s2 else s1)) as [[[[o2 w2] fr2] t2]| |]; try discriminate. contradiction.
        * rewrite forallb_app in Hc. apply andb_prop in Hc. destruct Hc as [Cr Cb].
          assert (Hbody : forall w fr, nofuel ((fun w' fr' => exec n p w' fr' s) w fr)) by (intros; apply IHs; auto; lia).
          destruct r; cbn in Cr, Hn.
          -- apply loop_nofuel. exact Hbody.
          -- assert (Na : nofuel (eval n p w fr e)) by (apply IHe; auto; lia).
             destruct (eval n p w fr e) as [[[v w1] t1]| |]; try discriminate; [|contradiction].
             destruct (K <? v); [discriminate|].
             pose proof (loop_nofuel _ i (Z.to_nat v) Hbody 0 w1 fr) as Nb.
             destruct (loop _ i (Z.to_nat v) 0 w1 fr) as [[[[o2 w2] fr2] t2]| |]; try discriminate. contradiction.
          -- assert (Na : nofuel (eval n p w fr e)) by (apply IHe; auto; lia).
             destruct (eval n p w fr e) as [[[v w1] t1]| |]; try discriminate; [|contradiction].
             pose proof (loop_nofuel _ i (Z.to_nat v) Hbody 0 w1 fr) as Nb.
             destruct (loop _ i (Z.to_nat v) 0 w1 fr) as [[[[o2 w2] fr2] t2]| |]; try discriminate. contradiction.
        * assert (Hbody : forall w fr, nofuel ((fun w' fr' => exec n p w' fr' s) w fr)) by (intros; apply IHs; auto; lia).
          pose proof (loop_nofuel _ i len Hbody 0 w fr) as Nb.
          destruct (loop _ i len 0 w fr) as [[[[o2 w2] fr2] t2]| |]; try discriminate. contradiction.
        * assert (Na : nofuel (eval n p w fr e)) by (apply IHe; auto; lia).
          destruct (eval n p w fr e) as [[[va w1] t1]| |]; try discriminate. contradiction.
  Qed.
End Inner.

Lemma fn_nofuel p : forall k f g n w fr, calls_ok k p f = true -> nth_error (funs p) f = Some g ->
  (need_f k p f <= n)%nat -> nofuel (exec n p w fr (fbody g)).
Proof.
  induction k as [|k IH]; intros f g n w fr Hc Hf Hn; [discriminate|].
  cbn in Hc, Hn. rewrite Hf in Hc, Hn.
  destruct (inner p k IH n) as [_ Hs]. apply Hs; auto.
Qed.

Lemma list_max_ge l x : In x l -> (x <= list_max l)%nat.
Proof.
  intros H. pose proof (proj1 (list_max_le l (list_max l)) (le_n _)) as F.
  rewrite Forall_forall in F. apply F. exact H.
Qed.

Theorem acyclic_terminates_lemma p : check p = true ->
  forall f g, nth_error (funs p) f = Some g ->
  forall n, (fuel_bound p <= n)%nat -> forall w fr, exec n p w fr (fbody g) <> Fuel.
Proof.
  intros Hc f g Hf n Hn w fr. unfold check in Hc. apply andb_prop in Hc. destruct Hc as [Hc _]. apply andb_prop in Hc. destruct Hc as [_ Ha].
  unfold acyclic in Ha. rewrite forallb_forall in Ha.
  assert (Hlt : (f < length (funs p))%nat) by (apply nth_error_Some; congruence).
  assert (Hin : In f (seq 0 (length (funs p)))) by (apply in_seq; lia).
  eapply fn_nofuel; eauto.
  unfold fuel_bound in Hn.
  assert ((need_f (length (funs p)) p f <= list_max (map (need_f (length (funs p)) p) (seq 0 (length (funs p)))))%nat).
  { apply list_max_ge. apply in_map. exact Hin. }
  lia.
Qed.

(* ------------------------------------------------------------------ static bound on the number of loop iterations *)
Definition is_iter (e : eff) : bool := match e with Iter => true | _ => false end.
Definition niter (t : list eff) : nat := length (filter is_iter t).
Lemma niter_app a b : niter (a ++ b) = (niter a + niter b)%nat.
Proof. unfold niter. rewrite filter_app, app_length. reflexivity. Qed.

Fixpoint ib_e (cf : nat -> nat) (e : expr) : nat :=
  match e with
  | EBin a b => (ib_e cf a + ib_e cf b)%nat
  | ECall f a => (ib_e cf a + cf f)%nat
  | EExtCall _ _ a | EBuiltin _ a => ib_e cf a
  | _ => 0%nat
  end.
Fixpoint ib_s (cf : nat -> nat) (s : stmt) : nat :=
  match s with
  | SSkip => 0%nat
  | SSeq s t => (ib_s cf s + ib_s cf t)%nat
  | SAssign _ _ e | SAug _ _ e | SExpr e | SLog e | SReturn e => ib_e cf e
  | SIf c s t => (ib_e cf c + (ib_s cf s + ib_s cf t))%nat
  | SFor _ (RLit n) b => (Z.to_nat n * S (ib_s cf b))%nat
  | SFor _ (RBound e K) b => (ib_e cf e + Z.to_nat K * S (ib_s cf b))%nat
  | SFor _ (RExpr e) b => 0%nat            (* no static bound: rejected by check *)
  | SForList _ _ _ len b => (len * S (ib_s cf b))%nat
  end.
Fixpoint ib_f (k : nat) (p : prog) (f : nat) : nat :=
  match k with
  | O => 0%nat
  | S k' => match nth_error (funs p) f with
            | Some g => ib_s (ib_f k' p) (fbody g)
            | None => 0%nat
            end
  end.

Fixpoint bounded_loops (s : stmt) : bool :=
  match s with
  | SSeq s t | SIf _ s t => bounded_loops s && bounded_loops t
  | SFor _ (RExpr _) _ => false
  | SFor _ _ b | SForList _ _ _ _ b => bounded_loops b
  | _ => true
  end.
Lemma chk_bounded p c s : forall L, chk_stmt p c L s = true -> bounded_loops s = true.
Proof.
  induction s; cbn; intros L H; auto; repeat (apply andb_prop in H; destruct H as [H ?]); eauto.
  - rewrite (IHs1 L), (IHs2 L); auto.
  - rewrite (IHs1 L), (IHs2 L); auto.
  - destruct r; cbn in H; try discriminate; eauto.
Qed.

Lemma niter_iter_cons t : niter (Iter :: t) = S (niter t). Proof. reflexivity. Qed.
Lemma niter_cons_other e t : is_iter e = false -> niter (e :: t) = niter t.
Proof. unfold niter. cbn. intros ->. reflexivity. Qed.
Lemma niter_nil : niter [] = 0%nat. Proof. reflexivity. Qed.
Ltac nit := repeat (rewrite niter_app || rewrite niter_nil || (rewrite niter_cons_other by reflexivity)); try lia.

Lemma loop_iters body i cnt B :
  (forall w fr o w' fr' t, body w fr = Done (o, w', fr', t) -> (niter t <= B)%nat) ->
  forall cur w fr o w' fr' t, loop body i cnt cur w fr = Done (o, w', fr', t) -> (niter t <= cnt * S B)%nat.
Proof.
  intros Hb. induction cnt as [|c IH]; intros cur w fr o w' fr' t H; cbn in H.
  - inversion H; subst. cbn. lia.
  - destruct (body w _) as [[[[o1 w1] fr2] t1]| |] eqn:E; try discriminate.
    pose proof (Hb _ _ _ _ _ _ E) as B1.
    destruct o1.
    + destruct (loop body i c (cur + 1) w1 fr2) as [[[[o2 w2] fr3] t2]| |] eqn:E2; try discriminate.
      inversion H; subst. pose proof (IH _ _ _ _ _ _ _ E2) as B2.
      rewrite niter_iter_cons, niter_app. lia.
    + inversion H; subst. rewrite niter_iter_cons. lia.
Qed.

Section InnerIters.
  Variable p : prog.
  Variable k : nat.
  Hypothesis HF : forall f g n w fr o w' fr' t, calls_ok k p f = true -> nth_error (funs p) f = Some g ->
    exec n p w fr (fbody g) = Done (o, w', fr', t) -> (niter t <= ib_f k p f)%nat.

  Lemma inner_iters : forall n,
    (forall e w fr v w' t, forallb (calls_ok k p) (callees_e e) = true ->
        eval n p w fr e = Done (v, w', t) -> (niter t <= ib_e (ib_f k p) e)%nat) /\
    (forall s w fr o w' fr' t, forallb (calls_ok k p) (callees_s s) = true -> bounded_loops s = true ->
        exec n p w fr s = Done (o, w', fr', t) -> (niter t <= ib_s (ib_f k p) s)%nat).
  Proof.
    induction n as [|n [IHe IHs]]; [split; intros; discriminate|]. split.
    - intros e w fr v w' t Hc H. destruct e; cbn in Hc, H; cbn [ib_e].
      + inversion H; subst. cbn. lia.
      + inversion H; subst. destruct (is_state k0); cbn; lia.
      + inversion H; subst. cbn. lia.
      + inversion H; subst. cbn. lia.
      + inversion H; subst. cbn. lia.
      + rewrite forallb_app in Hc. apply andb_prop in Hc. destruct Hc as [Ca Cb].
        destruct (eval n p w fr e1) as [[[va w1] t1]| |] eqn:E1; try discriminate.
        destruct (eval n p w1 fr e2) as [[[vb w2] t2]| |] eqn:E2; try discriminate.
        inversion H; subst. rewrite niter_app.
        pose proof (IHe _ _ _ _ _ _ Ca E1). pose proof (IHe _ _ _ _ _ _ Cb E2). lia.
      + apply andb_prop in Hc. destruct Hc as [Cf Ca].
        destruct (eval n p w fr e) as [[[va w1] t1]| |] eqn:E1; try discriminate.
        destruct (nth_error (funs p) f) as [g|] eqn:Eg; [|discriminate].
        destruct (exec n p w1 _ (fbody g)) as [[[[o w2] fr2] t2]| |] eqn:E2; try discriminate.
        inversion H; subst. rewrite niter_app.
        pose proof (IHe _ _ _ _ _ _ Ca E1). pose proof (HF _ _ _ _ _ _ _ _ _ Cf Eg E2). lia.
      + destruct (eval n p w fr e) as [[[va w1] t1]| |] eqn:E1; try discriminate.
        pose proof (IHe _ _ _ _ _ _ Hc E1).
        destruct k0.
        * destruct (ext_mod w1 (sto w1) va). inversion H; subst. rewrite niter_app. cbn. lia.
        * destruct m; inversion H; subst; rewrite ?niter_app; cbn; lia.
      + destruct (eval n p w fr e) as [[[va w1] t1]| |] eqn:E1; try discriminate.
        pose proof (IHe _ _ _ _ _ _ Hc E1).
        destruct m; try (destruct (ext_mod w1 (sto w1) va)); inversion H; subst; rewrite ?niter_app; cbn; lia.
    - intros s w fr o w' fr' t Hc Hb H. destruct s; cbn in Hc, Hb, H; cbn [ib_s].
      + inversion H; subst. cbn. lia.
      + rewrite forallb_app in Hc. apply andb_prop in Hc. destruct Hc as [Ca Cb]. apply andb_prop in Hb. destruct Hb as [Ba Bb].
        destruct (exec n p w fr s1) as [[[[o1 w1] fr1] t1]| |] eqn:E1; try discriminate.
        pose proof (IHs _ _ _ _ _ _ _ Ca Ba E1).
        destruct o1.
        * destruct (exec n p w1 fr1 s2) as [[[[o2 w2] fr2] t2]| |] eqn:E2; try discriminate.
          inversion H; subst. rewrite niter_app. pose proof (IHs _ _ _ _ _ _ _ Cb Bb E2). lia.
        * inversion H; subst. lia.
      + destruct (eval n p w fr e) as [[[va w1] t1]| |] eqn:E1; try discriminate.
        pose proof (IHe _ _ _ _ _ _ Hc E1).
        destruct k0; cbn in H; inversion H; subst; nit.
      + destruct (eval n p w fr e) as [[[va w1] t1]| |] eqn:E1; try discriminate.
        pose proof (IHe _ _ _ _ _ _ Hc E1).
        destruct k0; cbn in H; inversion H; subst; nit.
      + destruct (eval n p w fr e) as [[[va w1] t1]| |] eqn:E1; try discriminate.
        pose proof (IHe _ _ _ _ _ _ Hc E1). inversion H; subst. lia.
      + destruct (eval n p w fr e) as [[[va w1] t1]| |] eqn:E1; try discriminate.
        pose proof (IHe _ _ _ _ _ _ Hc E1). inversion H; subst. rewrite niter_app. cbn. lia.
      + rewrite !forallb_app in Hc. apply andb_prop in Hc. destruct Hc as [Cc Hc]. apply andb_prop in Hc. destruct Hc as [Ca Cb].
        apply andb_prop in Hb. destruct Hb as [Ba Bb].
        destruct (eval n p w fr c) as [[[v w1] t1]| |] eqn:E1; try discriminate.
        destruct (exec n p w1 fr (if v =? 0 then s2 else s1)) as [[[[o2 w2] fr2] t2]| |] eqn:E2; try discriminate.
        inversion H; subst. rewrite niter_app. pose proof (IHe _ _ _ _ _ _ Cc E1).
        destruct (v =? 0); [pose proof (IHs _ _ _ _ _ _ _ Cb Bb E2) | pose proof (IHs _ _ _ _ _ _ _ Ca Ba E2)]; lia.
      + rewrite forallb_app in Hc. apply andb_prop in Hc. destruct Hc as [Cr Cb].
        destruct r; try discriminate.
        * assert (Hbody : forall w fr o w' fr' t, (fun w' fr' => exec n p w' fr' s) w fr = Done (o, w', fr', t) ->
                     (niter t <= ib_s (ib_f k p) s)%nat) by (intros ? ? ? ? ? ? H0; cbv beta in H0; eapply IHs; eauto).
          eapply loop_iters; eauto.
        * assert (Hbody : forall w fr o w' fr' t, (fun w' fr' => exec n p w' fr' s) w fr = Done (o, w', fr', t) ->
                     (niter t <= ib_s (ib_f k p) s)%nat) by (intros ? ? ? ? ? ? H0; cbv beta in H0; eapply IHs; eauto).
          cbn in Cr.
          destruct (eval n p w fr e) as [[[v w1] t1]| |] eqn:E1; try discriminate.
          destruct (K <? v) eqn:EK; [discriminate|].
          destruct (loop _ i (Z.to_nat v) 0 w1 fr) as [[[[o2 w2] fr2] t2]| |] eqn:E2; try discriminate.
          inversion H; subst. rewrite niter_app. pose proof (IHe _ _ _ _ _ _ Cr E1).
          pose proof (loop_iters _ i (Z.to_nat v) _ Hbody _ _ _ _ _ _ _ E2).
          assert ((Z.to_nat v <= Z.to_nat K)%nat) by lia.
          assert ((Z.to_nat v * S (ib_s (ib_f k p) s) <= Z.to_nat K * S (ib_s (ib_f k p) s))%nat) by (apply Nat.mul_le_mono_r; lia).
          lia.
      + assert (Hbody : forall w fr o w' fr' t, (fun w' fr' => exec n p w' fr' s) w fr = Done (o, w', fr', t) ->
                   (niter t <= ib_s (ib_f k p) s)%nat) by (intros ? ? ? ? ? ? H0; cbv beta in H0; eapply IHs; eauto).
        destruct (loop _ i len 0 w fr) as [[[[o2 w2] fr2] t2]| |] eqn:E2; try discriminate.
        inversion H; subst. rewrite niter_app.
        pose proof (loop_iters _ i len _ Hbody _ _ _ _ _ _ _ E2).
        destruct (is_state k0); cbn; lia.
      + destruct (eval n p w fr e) as [[[va w1] t1]| |] eqn:E1; try discriminate.
        pose proof (IHe _ _ _ _ _ _ Hc E1). inversion H; subst. lia.
  Qed.
End InnerIters.

Lemma fn_iters p : (forall g, In g (funs p) -> fn_ok p g = true) ->
  forall k f g n w fr o w' fr' t, calls_ok k p f = true -> nth_error (funs p) f = Some g ->
    exec n p w fr (fbody g) = Done (o, w', fr', t) -> (niter t <= ib_f k p f)%nat.
Proof.
  intros Hall. induction k as [|k IH]; intros f g n w fr o w' fr' t Hc Hf H; [discriminate|].
  cbn in Hc. cbn [ib_f]. rewrite Hf in *.
  destruct (inner_iters p k IH n) as [_ Hs]. eapply Hs; eauto.
  eapply chk_bounded. pose proof (Hall g (nth_error_In _ _ Hf)) as Hg. unfold fn_ok in Hg. repeat (apply andb_prop in Hg; destruct Hg as [Hg ?]). exact Hg.
Qed.

(* every run of a function of an accepted program performs at most `ib_f` loop iterations in total (including
   those of the functions it calls): a number computed from the literal range ends / bounds / array lengths *)
Theorem static_iteration_bound_lemma p : check p = true ->
  forall f g n w fr o w' fr' t, nth_error (funs p) f = Some g ->
    exec n p w fr (fbody g) = Done (o, w', fr', t) -> (niter t <= ib_f (length (funs p)) p f)%nat.
Proof.
  intros Hc f g n w fr o w' fr' t Hf H.
  pose proof Hc as Hc2. unfold check in Hc2. apply andb_prop in Hc2. destruct Hc2 as [Hc2 _]. apply andb_prop in Hc2. destruct Hc2 as [Hall Ha].
  rewrite forallb_forall in Hall. unfold acyclic in Ha. rewrite forallb_forall in Ha.
  assert (Hlt : (f < length (funs p))%nat) by (apply nth_error_Some; congruence).
  eapply fn_iters; eauto. apply Ha. apply in_seq. lia.
Qed.
