(* C11: the run-time guard of `for i: T in range(a, b, bound=N)` / `range(n, bound=N)` as emitted by the venom code generator
   (GenRangeGuard.v: recorded from the real Stmt._lower_range_loop on every run) rejects exactly when the mathematical span
   end - start lies outside [0, N]; otherwise the loop end value is `end`.  Semantics: C03.VSL over Base.Word256. *)
From Coq Require Import ZArith List String Bool Lia ZifyBool.
From Verif Require Import Base.Word256 C03.LIR C03.VSL C11.GenRangeGuard.
Import ListNotations.
Open Scope string_scope.
Open Scope Z_scope.

(* the template, parametrically *)
Definition m_guard (signed two : bool) (N : Z) : vtemplate :=
  let st := if two then VVar "%1" else VLit 0 in
  let en := if two then VVar "%2" else VVar "%1" in
  ([V2 "%3" OSub st en; VAssign "%4" st; V2 "%5" (if signed then OSgt else OGt) en st; V1 "%6" OIszero (VVar "%5");
    VAssert (VVar "%6"); V2 "%7" OGt (VLit N) (VVar "%3"); V1 "%8" OIszero (VVar "%7"); VAssert (VVar "%8");
    V2 "%9" OAdd (VVar "%3") st], VVar "%9").

Definition guard_tie_one (g : bool * Z * bool * Z * vtemplate) : bool :=
  let '(signed, bits, two, N, t) := g in vtemplate_eqb t (m_guard signed two N).
Lemma tie_range_guards : forallb guard_tie_one venom_range_guards = true.
Proof. vm_compute. reflexivity. Qed.

Lemma W_val : W = 115792089237316195423570985008687907853269984665640564039457584007913129639936.
Proof. reflexivity. Qed.
Lemma HALF_val : HALF = 57896044618658097711785492504343953926634992332820282019728792003956564819968.
Proof. reflexivity. Qed.

Definition sval (signed : bool) (x : Z) : Z := if signed then to_signed x else x.

Lemma wrap_small v : 0 <= v < W -> wrap v = v.
Proof. intros. unfold wrap. apply Z.mod_small. assumption. Qed.

(* the straight-line evaluation of the template, with the word operations kept abstract *)
Lemma guard_run signed N x y :
  vrun [("%2", y); ("%1", x)] (m_guard signed true N) =
    (if w_iszero ((if signed then w_sgt else w_gt) x y) =? 0 then Revert
     else if w_iszero (w_gt (w_sub y x) (wrap N)) =? 0 then Revert
     else Val (w_add x (w_sub y x))).
Proof.
  unfold vrun, m_guard. destruct signed; cbn -[w_sub w_gt w_sgt w_add w_iszero wrap Z.eqb];
    destruct (w_iszero _ =? 0); try reflexivity; cbn -[w_sub w_gt w_sgt w_add w_iszero wrap Z.eqb];
    destruct (w_iszero _ =? 0); reflexivity.
Qed.

Lemma iszero_b2z b : (w_iszero (Word256.b2z b) =? 0) = b.
Proof. destruct b; reflexivity. Qed.

(* two-argument form: passes iff 0 <= end - start <= N (mathematical values), and then the loop runs up to `end` *)
Theorem range_guard_correct_lemma : forall signed N x y, 0 <= x < W -> 0 <= y < W -> 0 <= N < W ->
  vrun [("%2", y); ("%1", x)] (m_guard signed true N) =
    (if (0 <=? sval signed y - sval signed x) && (sval signed y - sval signed x <=? N) then Val y else Revert).
Proof.
  intros signed N x y Hx Hy HN. pose proof W_val as HW. pose proof HALF_val as HH.
  rewrite guard_run. rewrite (wrap_small N HN).
  assert (Hd : w_sub y x = (y - x) mod W) by reflexivity.
  assert (Hend : forall d, d = (y - x) mod W -> w_add x d = y).
  { intros d ->. unfold w_add. rewrite Z.add_mod_idemp_r by lia. replace (x + (y - x)) with y by lia. apply Z.mod_small. lia. }
  destruct signed; cbn [sval].
  - unfold w_sgt. rewrite iszero_b2z.
    destruct (to_signed x >? to_signed y) eqn:E.
    + destruct (0 <=? to_signed y - to_signed x) eqn:E2; [lia|]. reflexivity.
    + assert (Hdd : w_sub y x = to_signed y - to_signed x).
      { rewrite Hd. unfold to_signed in *. destruct (x <? HALF) eqn:Ex; destruct (y <? HALF) eqn:Ey.
        - apply Z.mod_small. lia.
        - exfalso. lia.
        - symmetry. apply Z.mod_unique with (q := -1); lia.
        - replace (y - W - (x - W)) with (y - x) by lia. apply Z.mod_small. lia. }
      unfold w_gt. rewrite iszero_b2z, Hdd.
      destruct (to_signed y - to_signed x >? N) eqn:E3;
        destruct (0 <=? to_signed y - to_signed x) eqn:E4; destruct (to_signed y - to_signed x <=? N) eqn:E5; try lia; cbn [andb]; try reflexivity.
      f_equal. rewrite <- Hdd. apply Hend. exact Hd.
  - unfold w_gt at 1. rewrite iszero_b2z.
    destruct (x >? y) eqn:E.
    + destruct (0 <=? y - x) eqn:E2; [lia|]. reflexivity.
    + assert (Hdd : w_sub y x = y - x) by (rewrite Hd; apply Z.mod_small; lia).
      unfold w_gt. rewrite iszero_b2z, Hdd.
      destruct (y - x >? N) eqn:E3; destruct (0 <=? y - x) eqn:E4; destruct (y - x <=? N) eqn:E5; try lia; cbn [andb]; try reflexivity.
      f_equal. rewrite <- Hdd. apply Hend. exact Hd.
Qed.

(* one-argument form range(n, bound=N): start is the literal 0 *)
Lemma guard1_run signed N x :
  vrun [("%1", x)] (m_guard signed false N) =
    (if w_iszero ((if signed then w_sgt else w_gt) (wrap 0) x) =? 0 then Revert
     else if w_iszero (w_gt (w_sub x (wrap 0)) (wrap N)) =? 0 then Revert
     else Val (w_add (wrap 0) (w_sub x (wrap 0)))).
Proof.
  unfold vrun, m_guard. destruct signed; cbn -[w_sub w_gt w_sgt w_add w_iszero wrap Z.eqb];
    destruct (w_iszero _ =? 0); try reflexivity; cbn -[w_sub w_gt w_sgt w_add w_iszero wrap Z.eqb];
    destruct (w_iszero _ =? 0); reflexivity.
Qed.
Theorem range_guard1_correct_lemma : forall signed N x, 0 <= x < W -> 0 <= N < W ->
  vrun [("%1", x)] (m_guard signed false N) =
    (if (0 <=? sval signed x) && (sval signed x <=? N) then Val x else Revert).
Proof.
  intros signed N x Hx HN. pose proof W_val as HW. pose proof HALF_val as HH.
  rewrite guard1_run. rewrite (wrap_small N HN). change (wrap 0) with 0.
  assert (Hd : w_sub x 0 = x) by (unfold w_sub; rewrite Z.sub_0_r; apply Z.mod_small; lia).
  assert (Ha : w_add 0 x = x) by (unfold w_add; cbn; apply Z.mod_small; lia).
  rewrite Hd, Ha.
  destruct signed; cbn [sval].
  - unfold w_sgt. rewrite iszero_b2z. change (to_signed 0) with 0.
    destruct (0 >? to_signed x) eqn:E.
    + destruct (0 <=? to_signed x) eqn:E2; [lia|]. reflexivity.
    + assert (to_signed x = x) by (unfold to_signed in *; destruct (x <? HALF) eqn:Ex; lia).
      unfold w_gt. rewrite iszero_b2z, H.
      destruct (x >? N) eqn:E3; destruct (0 <=? x) eqn:E4; destruct (x <=? N) eqn:E5; try lia; reflexivity.
  - unfold w_gt at 1. rewrite iszero_b2z.
    destruct (0 >? x) eqn:E; [lia|].
    unfold w_gt. rewrite iszero_b2z.
    destruct (x >? N) eqn:E3; destruct (0 <=? x) eqn:E4; destruct (x <=? N) eqn:E5; try lia; reflexivity.
Qed.

(* transferred to every template the real code generator emitted in this run *)
Theorem venom_range_guard_correct_lemma : forall signed bits N t, In (signed, bits, true, N, t) venom_range_guards ->
  forall x y, 0 <= x < W -> 0 <= y < W -> 0 <= N < W ->
  vrun [("%2", y); ("%1", x)] t =
    (if (0 <=? sval signed y - sval signed x) && (sval signed y - sval signed x <=? N) then Val y else Revert).
Proof.
  intros signed bits N t HIn x y Hx Hy HN.
  pose proof tie_range_guards as Tie. rewrite forallb_forall in Tie. specialize (Tie _ HIn). cbn in Tie.
  assert (E : t = m_guard signed true N).
  { unfold vtemplate_eqb in Tie. apply andb_prop in Tie. destruct Tie as [T1 T2].
    destruct t as [l r]. cbn [fst snd] in *.
    assert (Hl : forall a b, vlist_eqb a b = true -> a = b).
    { assert (Hop : forall a b, vop_eqb a b = true -> a = b).
      { intros [n|s0] [m|s1]; cbn; intros H0; try discriminate; f_equal; [apply Z.eqb_eq | apply String.eqb_eq]; auto. }
      induction a as [|i a IH]; intros [|j b]; cbn; intros H0; try discriminate; auto.
      apply andb_prop in H0. destruct H0 as [Hi Hr]. f_equal; [|auto].
      destruct i, j; cbn in Hi; try discriminate; repeat (apply andb_prop in Hi; destruct Hi as [Hi ?]);
        repeat match goal with
               | H0 : String.eqb _ _ = true |- _ => apply String.eqb_eq in H0; subst
               | H0 : vop_eqb _ _ = true |- _ => apply Hop in H0; subst
               | H0 : op1_eqb ?p ?q = true |- _ => destruct p, q; try discriminate; clear H0
               | H0 : op2_eqb ?p ?q = true |- _ => destruct p, q; try discriminate; clear H0
               | H0 : op3_eqb ?p ?q = true |- _ => destruct p, q; try discriminate; clear H0
               end; reflexivity. }
    apply Hl in T1. subst l.
    destruct r as [n|s0]; cbn in T2; try discriminate. apply String.eqb_eq in T2. subst. reflexivity. }
  subst t. apply range_guard_correct_lemma; assumption.
Qed.
