(* C11: a run whose trace is `silent` does not depend on storage, transient storage, immutables, environment,
   balances or msg.value: it yields the same result in every world with the same pure external functions. *)
From Coq Require Import ZArith Bool List Lia.
From Verif Require Import C11.Effects C11.EffectsSound.
Import ListNotations.
Open Scope Z_scope.

Definition same_pure (w w2 : world) : Prop := ext_pure w2 = ext_pure w.

Lemma silent_app a b : silent (a ++ b) -> silent a /\ silent b.
Proof. apply clean_app_inv. Qed.
Lemma silent_cons e t : silent (e :: t) -> impure e = false /\ silent t.
Proof.
  unfold silent. cbn. intros H. apply andb_prop in H. destruct H as [A B]. split; auto.
  destruct (impure e); [discriminate|reflexivity].
Qed.

Lemma loop_indep body i cnt :
  (forall w fr o w' fr' t, body w fr = Done (o, w', fr', t) -> silent t ->
      w' = w /\ forall w2, same_pure w w2 -> body w2 fr = Done (o, w2, fr', t)) ->
  forall cur w fr o w' fr' t, loop body i cnt cur w fr = Done (o, w', fr', t) -> silent t ->
      w' = w /\ forall w2, same_pure w w2 -> loop body i cnt cur w2 fr = Done (o, w2, fr', t).
Proof.
  intros Hb. induction cnt as [|c IH]; intros cur w fr o w' fr' t H S; cbn in H.
  - inversion H; subst. split; auto.
  - destruct (body w _) as [[[[o1 w1] fr2] t1]| |] eqn:E; try discriminate.
    destruct o1.
    + destruct (loop body i c (cur + 1) w1 fr2) as [[[[o2 w2] fr3] t2]| |] eqn:E2; try discriminate.
      inversion H; subst. apply silent_cons in S. destruct S as [_ S]. apply silent_app in S. destruct S as [S1 S2].
      destruct (Hb _ _ _ _ _ _ E S1) as [-> Hb2].
      destruct (IH _ _ _ _ _ _ _ E2 S2) as [-> IH2].
      split; auto. intros w3 Hw. cbn. rewrite (Hb2 w3 Hw). rewrite (IH2 w3 Hw). reflexivity.
    + inversion H; subst. apply silent_cons in S. destruct S as [_ S1].
      destruct (Hb _ _ _ _ _ _ E S1) as [-> Hb2].
      split; auto. intros w3 Hw. cbn. rewrite (Hb2 w3 Hw). reflexivity.
Qed.

Lemma rd_indep p w w2 fr k x : is_state k = false -> rd p w fr k x = rd p w2 fr k x.
Proof. destruct k; cbn; intros; try discriminate; reflexivity. Qed.

Lemma pure_frame p : forall n,
  (forall w fr e v w' t, eval n p w fr e = Done (v, w', t) -> silent t ->
      w' = w /\ forall w2, same_pure w w2 -> eval n p w2 fr e = Done (v, w2, t)) /\
  (forall w fr s o w' fr' t, exec n p w fr s = Done (o, w', fr', t) -> silent t ->
      w' = w /\ forall w2, same_pure w w2 -> exec n p w2 fr s = Done (o, w2, fr', t)).
Proof.
  induction n as [|n [IHe IHs]]; [split; intros; discriminate|]. split.
  - intros w fr e v w' t H S. destruct e; cbn in H.
    + inversion H; subst. split; auto.
    + inversion H; subst. destruct (is_state k) eqn:Ek; [discriminate S|].
      split; auto. intros w2 _. cbn. rewrite Ek. do 3 f_equal. apply rd_indep. exact Ek.
    + inversion H; subst. discriminate S.
    + inversion H; subst. discriminate S.
    + inversion H; subst. discriminate S.
    + destruct (eval n p w fr e1) as [[[va w1] t1]| |] eqn:E1; try discriminate.
      destruct (eval n p w1 fr e2) as [[[vb w2] t2]| |] eqn:E2; try discriminate.
      inversion H; subst. apply silent_app in S. destruct S as [S1 S2].
      destruct (IHe _ _ _ _ _ _ E1 S1) as [-> A1]. destruct (IHe _ _ _ _ _ _ E2 S2) as [-> A2].
      split; auto. intros w3 Hw. cbn. rewrite (A1 w3 Hw), (A2 w3 Hw). reflexivity.
    + destruct (eval n p w fr e) as [[[va w1] t1]| |] eqn:E1; try discriminate.
      destruct (nth_error (funs p) f) as [g|] eqn:Eg; [|discriminate].
      destruct (exec n p w1 _ (fbody g)) as [[[[o w2] fr2] t2]| |] eqn:E2; try discriminate.
      inversion H; subst. apply silent_app in S. destruct S as [S1 S2].
      destruct (IHe _ _ _ _ _ _ E1 S1) as [-> A1]. destruct (IHs _ _ _ _ _ _ _ E2 S2) as [-> A2].
      split; auto. intros w3 Hw. cbn. rewrite (A1 w3 Hw), Eg, (A2 w3 Hw). reflexivity.
    + destruct (eval n p w fr e) as [[[va w1] t1]| |] eqn:E1; try discriminate.
      destruct k.
      * destruct (ext_mod w1 (sto w1) va) as [s r]. inversion H; subst.
        apply silent_app in S. destruct S as [_ S2]. discriminate S2.
      * destruct m; inversion H; subst.
        -- destruct (IHe _ _ _ _ _ _ E1 S) as [-> A1]. split; auto.
           intros w3 Hw. cbn. rewrite (A1 w3 Hw). unfold same_pure in Hw. rewrite Hw. reflexivity.
        -- apply silent_app in S. destruct S as [_ S2]. discriminate S2.
        -- apply silent_app in S. destruct S as [_ S2]. discriminate S2.
        -- apply silent_app in S. destruct S as [_ S2]. discriminate S2.
    + destruct (eval n p w fr e) as [[[va w1] t1]| |] eqn:E1; try discriminate.
      destruct m.
      * inversion H; subst. destruct (IHe _ _ _ _ _ _ E1 S) as [-> A1]. split; auto.
        intros w3 Hw. cbn. rewrite (A1 w3 Hw). unfold same_pure in Hw. rewrite Hw. reflexivity.
      * inversion H; subst. apply silent_app in S. destruct S as [_ S2]. discriminate S2.
      * destruct (ext_mod w1 (sto w1) va) as [s r]. inversion H; subst.
        apply silent_app in S. destruct S as [_ S2]. discriminate S2.
      * destruct (ext_mod w1 (sto w1) va) as [s r]. inversion H; subst.
        apply silent_app in S. destruct S as [_ S2]. discriminate S2.
  - intros w fr s o w' fr' t H S. destruct s; cbn in H.
    + inversion H; subst. split; auto.
    + destruct (exec n p w fr s1) as [[[[o1 w1] fr1] t1]| |] eqn:E1; try discriminate.
      destruct o1.
      * destruct (exec n p w1 fr1 s2) as [[[[o2 w2] fr2] t2]| |] eqn:E2; try discriminate.
        inversion H; subst. apply silent_app in S. destruct S as [S1 S2].
        destruct (IHs _ _ _ _ _ _ _ E1 S1) as [-> A1]. destruct (IHs _ _ _ _ _ _ _ E2 S2) as [-> A2].
        split; auto. intros w3 Hw. cbn. rewrite (A1 w3 Hw), (A2 w3 Hw). reflexivity.
      * inversion H; subst. destruct (IHs _ _ _ _ _ _ _ E1 S) as [-> A1].
        split; auto. intros w3 Hw. cbn. rewrite (A1 w3 Hw). reflexivity.
    + (* assign *) destruct (eval n p w fr e) as [[[v w1] t1]| |] eqn:E1; try discriminate.
      destruct (wr w1 fr k x v) as [[w2 fr2] t2] eqn:Ew. inversion H; subst.
      apply silent_app in S. destruct S as [S1 S2]. destruct (IHe _ _ _ _ _ _ E1 S1) as [-> A1].
      destruct k; cbn in Ew; inversion Ew; subst; try discriminate S2;
        (split; auto; intros w3 Hw; cbn; rewrite (A1 w3 Hw); reflexivity).
    + (* aug *) destruct (eval n p w fr e) as [[[v w1] t1]| |] eqn:E1; try discriminate.
      destruct (wr w1 fr k x _) as [[w2 fr2] t2] eqn:Ew. inversion H; subst.
      apply silent_app in S. destruct S as [S0 S]. apply silent_app in S. destruct S as [S1 S2].
      destruct (IHe _ _ _ _ _ _ E1 S1) as [-> A1].
      destruct k; cbn in Ew; inversion Ew; subst; try discriminate S2; try discriminate S0;
        (split; auto; intros w3 Hw; cbn; rewrite (A1 w3 Hw); reflexivity).
    + destruct (eval n p w fr e) as [[[v w1] t1]| |] eqn:E1; try discriminate. inversion H; subst.
      destruct (IHe _ _ _ _ _ _ E1 S) as [-> A1]. split; auto. intros w3 Hw. cbn. rewrite (A1 w3 Hw). reflexivity.
    + destruct (eval n p w fr e) as [[[v w1] t1]| |] eqn:E1; try discriminate. inversion H; subst.
      apply silent_app in S. destruct S as [_ S2]. discriminate S2.
    + destruct (eval n p w fr c) as [[[v w1] t1]| |] eqn:E1; try discriminate.
      destruct (exec n p w1 fr (if v =? 0 then s2 else s1)) as [[[[o2 w2] fr2] t2]| |] eqn:E2; try discriminate.
      inversion H; subst. apply silent_app in S. destruct S as [S1 S2].
      destruct (IHe _ _ _ _ _ _ E1 S1) as [-> A1]. destruct (IHs _ _ _ _ _ _ _ E2 S2) as [-> A2].
      split; auto. intros w3 Hw. cbn. rewrite (A1 w3 Hw), (A2 w3 Hw). reflexivity.
    + assert (Hbody : forall w fr o w' fr' t, (fun w' fr' => exec n p w' fr' s) w fr = Done (o, w', fr', t) -> silent t ->
                 w' = w /\ forall w2, same_pure w w2 -> (fun w' fr' => exec n p w' fr' s) w2 fr = Done (o, w2, fr', t))
        by (intros ? ? ? ? ? ? H0 S0; cbv beta in *; eauto).
      destruct r.
      * destruct (loop_indep _ i _ Hbody _ _ _ _ _ _ _ H S) as [-> A]. split; auto.
      * destruct (eval n p w fr e) as [[[v w1] t1]| |] eqn:E1; try discriminate.
        destruct (K <? v) eqn:EK; [discriminate|].
        destruct (loop _ i (Z.to_nat v) 0 w1 fr) as [[[[o2 w2] fr2] t2]| |] eqn:E2; try discriminate.
        inversion H; subst. apply silent_app in S. destruct S as [S1 S2].
        destruct (IHe _ _ _ _ _ _ E1 S1) as [-> A1].
        destruct (loop_indep _ i _ Hbody _ _ _ _ _ _ _ E2 S2) as [-> A2]. split; auto.
        intros w3 Hw. cbn. rewrite (A1 w3 Hw), EK, (A2 w3 Hw). reflexivity.
      * destruct (eval n p w fr e) as [[[v w1] t1]| |] eqn:E1; try discriminate.
        destruct (loop _ i (Z.to_nat v) 0 w1 fr) as [[[[o2 w2] fr2] t2]| |] eqn:E2; try discriminate.
        inversion H; subst. apply silent_app in S. destruct S as [S1 S2].
        destruct (IHe _ _ _ _ _ _ E1 S1) as [-> A1].
        destruct (loop_indep _ i _ Hbody _ _ _ _ _ _ _ E2 S2) as [-> A2]. split; auto.
        intros w3 Hw. cbn. rewrite (A1 w3 Hw), (A2 w3 Hw). reflexivity.
    + assert (Hbody : forall w fr o w' fr' t, (fun w' fr' => exec n p w' fr' s) w fr = Done (o, w', fr', t) -> silent t ->
                 w' = w /\ forall w2, same_pure w w2 -> (fun w' fr' => exec n p w' fr' s) w2 fr = Done (o, w2, fr', t))
        by (intros ? ? ? ? ? ? H0 S0; cbv beta in *; eauto).
      destruct (loop _ i len 0 w fr) as [[[[o2 w2] fr2] t2]| |] eqn:E2; try discriminate.
      inversion H; subst. apply silent_app in S. destruct S as [S1 S2].
      destruct (loop_indep _ i _ Hbody _ _ _ _ _ _ _ E2 S2) as [-> A2]. split; auto.
      intros w3 Hw. cbn. rewrite (A2 w3 Hw). reflexivity.
    + destruct (eval n p w fr e) as [[[v w1] t1]| |] eqn:E1; try discriminate. inversion H; subst.
      destruct (IHe _ _ _ _ _ _ E1 S) as [-> A1]. split; auto. intros w3 Hw. cbn. rewrite (A1 w3 Hw). reflexivity.
Qed.

Lemma pure_independent_lemma p : check p = true ->
  forall n f g w fr o w' fr' t, nth_error (funs p) f = Some g -> fmut g = Pure ->
    exec n p w fr (fbody g) = Done (o, w', fr', t) ->
    forall w2, ext_pure w2 = ext_pure w -> exec n p w2 fr (fbody g) = Done (o, w2, fr', t).
Proof.
  intros Hc n f g w fr o w' fr' t Hf Hm H w2 Hw.
  pose proof (pure_silent_lemma p Hc n f g w fr o w' fr' t Hf Hm H) as S.
  destruct (pure_frame p n) as [_ Hs]. destruct (Hs _ _ _ _ _ _ _ H S) as [_ A]. apply A. exact Hw.
Qed.

(* range(e, bound=K): the loop body runs at most K times, or the statement reverts *)
Lemma loop_bound_lemma p n w fr i e K b o w' fr' t :
  exec (S n) p w fr (SFor i (RBound e K) b) = Done (o, w', fr', t) ->
  exists v w1 t1, eval n p w fr e = Done (v, w1, t1) /\ v <= K /\
    exists t2, loop (fun w' fr' => exec n p w' fr' b) i (Z.to_nat v) 0 w1 fr = Done (o, w', fr', t2) /\ t = t1 ++ t2.
Proof.
  cbn. destruct (eval n p w fr e) as [[[v w1] t1]| |] eqn:E1; try discriminate.
  destruct (K <? v) eqn:EK; [discriminate|].
  destruct (loop _ i (Z.to_nat v) 0 w1 fr) as [[[[o2 w2] fr2] t2]| |] eqn:E2; try discriminate.
  intros H. inversion H; subst. exists v, w1, t1. repeat split; auto. lia. exists t2. split; auto.
Qed.
