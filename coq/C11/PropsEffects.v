(* C11: accepted programs keep their static promises; rule-breaking ones are rejected (on the calculus EffVy). *)
From Coq Require Import ZArith Bool List.
From Verif Require Import C11.Effects C11.EffectsSound C11.EffectsPure C11.EffectsReject C11.EffectsTerm C11.EffectsIter.
Import ListNotations.
Open Scope Z_scope.

(* a checked @view/@pure function, and everything it transitively calls, emits no state write, no
   state-modifying call and no log (exactly what traps under STATICCALL), and leaves storage and
   transient storage unchanged *)
Theorem view_no_write : forall p, check p = true ->
  forall n f g w fr o w' fr' t, nth_error (funs p) f = Some g -> mle (fmut g) View = true ->
    exec n p w fr (fbody g) = Done (o, w', fr', t) -> quiet t /\ sto w' = sto w /\ tra w' = tra w.
Proof. exact view_state_unchanged_lemma. Qed.
Print Assumptions view_no_write.

(* a checked @pure function additionally reads no environment, balance, msg.value or state *)
Theorem pure_no_reads : forall p, check p = true ->
  forall n f g w fr o w' fr' t, nth_error (funs p) f = Some g -> fmut g = Pure ->
    exec n p w fr (fbody g) = Done (o, w', fr', t) -> silent t.
Proof. exact pure_silent_lemma. Qed.
Print Assumptions pure_no_reads.

(* ... hence its outcome (returned value, final frame, trace) is the same in every world: whatever the storage,
   transient storage, immutables, environment, balances and msg.value are (external `pure` callees being functions
   of their argument) *)
Theorem pure_independent : forall p, check p = true ->
  forall n f g w fr o w' fr' t, nth_error (funs p) f = Some g -> fmut g = Pure ->
    exec n p w fr (fbody g) = Done (o, w', fr', t) ->
    forall w2, ext_pure w2 = ext_pure w -> exec n p w2 fr (fbody g) = Done (o, w2, fr', t).
Proof. exact pure_independent_lemma. Qed.
Print Assumptions pure_independent.

Theorem constants_immutable : forall p g k x e, check p = true -> In g (funs p) ->
  (subs (SAssign k x e) (fbody g) \/ subs (SAug k x e) (fbody g)) -> writable g k = true.
Proof. exact assign_targets_lemma. Qed.

(* for i in range(e, bound=K): the count is evaluated once, the statement reverts unless count <= K, and the body
   runs exactly count (<= K) times unless it returns earlier *)
Theorem loop_bound_respected : forall p n w fr i e K b o w' fr' t,
  exec (S n) p w fr (SFor i (RBound e K) b) = Done (o, w', fr', t) ->
  exists v w1 t1, eval n p w fr e = Done (v, w1, t1) /\ v <= K /\
    exists t2, loop (fun w' fr' => exec n p w' fr' b) i (Z.to_nat v) 0 w1 fr = Done (o, w', fr', t2) /\ t = t1 ++ t2.
Proof. exact loop_bound_lemma. Qed.

Theorem acyclic_call_graph : forall p, check p = true -> forall f, ~ path p f f.
Proof. exact acyclic_lemma. Qed.
Print Assumptions acyclic_call_graph.

(* acyclic_terminates: with the statically computed fuel `fuel_bound p` (from the syntax and the acyclic call graph)
   no run of any function of an accepted program runs out of fuel: it ends with a result or a revert ... *)
Theorem acyclic_terminates : forall p, check p = true ->
  forall f g, nth_error (funs p) f = Some g ->
  forall n, (fuel_bound p <= n)%nat -> forall w fr, exec n p w fr (fbody g) <> Fuel.
Proof. exact acyclic_terminates_lemma. Qed.
Print Assumptions acyclic_terminates.
(* ... after at most `ib_f` loop iterations in total (its own and those of everything it calls), a number computed from
   the literal range ends, the `bound=` values and the array lengths alone *)
Theorem static_iteration_bound : forall p, check p = true ->
  forall f g n w fr o w' fr' t, nth_error (funs p) f = Some g ->
    exec n p w fr (fbody g) = Done (o, w', fr', t) -> (niter t <= ib_f (length (funs p)) p f)%nat.
Proof. exact static_iteration_bound_lemma. Qed.
Print Assumptions static_iteration_bound.

(* reject_complete: a rule violation at ANY position (statement nesting x expression nesting) of ANY function
   makes check false; the viol_* lemmas enumerate the single-rule violations *)
Theorem reject_complete_expr : forall p g s e0 e,
  In g (funs p) -> subs s (fbody g) -> top_expr e0 s -> sube e e0 -> chk_expr p g e = false -> check p = false.
Proof. exact reject_expr_anywhere. Qed.
Theorem reject_complete_stmt : forall p g s,
  In g (funs p) -> subs s (fbody g) -> (forall L, chk_stmt p g L s = false) -> check p = false.
Proof. exact reject_stmt_anywhere. Qed.
Theorem reject_complete_recursion : forall p f, path p f f -> check p = false.
Proof. exact reject_recursion. Qed.
Print Assumptions reject_complete_expr.
Print Assumptions reject_complete_recursion.

(* iterator rules: semantic statement and rejection through internal calls *)
Theorem iterator_not_modified : forall p g i k x len b, check p = true -> In g (funs p) ->
  subs (SForList i k x len b) (fbody g) -> is_state k = true ->
  forall n w fr o w' fr' t, exec n p w fr (SForList i k x len b) = Done (o, w', fr', t) -> ~ In (Write k x) t.
Proof. exact iterator_not_modified_lemma. Qed.
Print Assumptions iterator_not_modified.
Theorem reject_complete_iterator_via_call : forall p g i k x n b s e0 f a,
  In g (funs p) -> subs (SForList i k x n b) (fbody g) -> subs s b -> top_expr e0 s -> sube (ECall f a) e0 ->
  In (k, x) (fwrites (length (funs p)) p f) -> check p = false.
Proof. exact reject_iterator_mutation_via_call. Qed.
(* module rules *)
Theorem reject_complete_lib_state : forall p g s e0 k x,
  In g (funs p) -> flib g = false -> owns p = NoOwn -> lib_var k x = true ->
  subs s (fbody g) -> (top_expr e0 s /\ sube (EVar k x) e0 \/ (exists e, s = SAssign k x e \/ s = SAug k x e)) ->
  check p = false.
Proof. exact reject_lib_state_access. Qed.
Theorem reject_complete_lib_call : forall p g f,
  In g (funs p) -> flib g = false -> owns p = NoOwn -> In f (callees_s (fbody g)) ->
  fuses (length (funs p)) p f = true -> check p = false.
Proof. exact reject_lib_stateful_call. Qed.
Theorem reject_complete_uses_only : forall p, owns p = Uses -> check p = false.
Proof. exact reject_uses_without_initializes. Qed.

(* non-vacuity: an accepted program with a view function calling a pure one through a bounded loop;
   and a one-rule mutation of it that is rejected *)
Definition f_pure := mk_fn Pure Internal false (SReturn (EBin (EVar VArg 0) (EVar VConst 0))).
Definition f_view := mk_fn View External false
  (SSeq (SAssign VLocal 0 (ELit 0))
  (SSeq (SFor 0 (RBound (EVar VArg 0) 5) (SAug VLocal 0 (EBin (ECall 0 (EVar VLoop 0)) (EVar VStorage 1))))
        (SReturn (EVar VLocal 0)))).
Definition f_write := mk_fn NonPay External false (SSeq (SAssign VStorage 1 (EVar VArg 0)) (SLog (EVar VArg 0))).
Definition p_ok := mk_prog [f_pure; f_view; f_write] (fun _ => 7) NoOwn.
Definition f_view_bad := mk_fn View External false (SIf (EVar VArg 0) (SAssign VStorage 1 (ELit 1)) SSkip).
Definition w0 := mk_world (fun _ => 3) (fun _ => 0) (fun _ => 0) (fun _ => 0) (fun _ => 0) 0
                          (fun x => x) (fun _ x => x) (fun s x => (s, x)).
Example effects_nonvacuous :
  check p_ok = true /\
  (exists w' fr' t, exec 50 p_ok w0 (mk_frame (fun _ => 0) 2 (fun _ => 0)) (fbody f_view) = Done (Returned 21, w', fr', t)) /\
  check (mk_prog [f_pure; f_view_bad; f_write] (fun _ => 7) NoOwn) = false /\
  check (mk_prog [mk_fn View Internal false (SReturn (ECall 0 (ELit 1)))] (fun _ => 0) NoOwn) = false.
Proof. repeat split; try (vm_compute; reflexivity). eexists. eexists. eexists. vm_compute. reflexivity. Qed.
Example termination_nonvacuous :
  fuel_bound p_ok = 9%nat /\ ib_f 3 p_ok 1 = 5%nat /\
  (exists w' fr' t, exec (fuel_bound p_ok) p_ok w0 (mk_frame (fun _ => 0) 5 (fun _ => 0)) (fbody f_view) = Done (Returned 60, w', fr', t)
                    /\ niter t = 5%nat) /\
  exec 50 p_ok w0 (mk_frame (fun _ => 0) 6 (fun _ => 0)) (fbody f_view) = Revert.
Proof. repeat split; try (vm_compute; reflexivity). eexists. eexists. eexists. vm_compute. split; reflexivity. Qed.
