(* C18: compiler/output_bundle.py:_anonymize on path segments:
     for i, s in enumerate(PurePath(p).parts): segments.append(str(i) if s == ".." else s)
   The bundle's `sources` dict is keyed by the anonymised path, so two inputs with the same key overwrite each other. *)
From Coq Require Import ZArith List Bool String Ascii DecimalString Lia.
Import ListNotations.
Open Scope string_scope.

Definition zs (n : Z) : string := NilZero.string_of_int (Z.to_int n).

Fixpoint anon_from (i : nat) (segs : list string) : list string :=
  match segs with
  | [] => []
  | s :: r => (if s =? ".." then zs (Z.of_nat i) else s) :: anon_from (S i) r
  end.
Definition anonymize (segs : list string) : list string := anon_from 0 segs.

Definition is_digit (c : ascii) : bool :=
  let n := nat_of_ascii c in andb (Nat.leb 48 n) (Nat.leb n 57).
Fixpoint all_digits (s : string) : bool :=
  match s with EmptyString => true | String c r => is_digit c && all_digits r end.
Definition numeral (s : string) : bool := negb (s =? "") && all_digits s.

(* ---- refutation: the map is not injective *)
Theorem anonymize_refuted : exists p1 p2, p1 <> p2 /\ anonymize p1 = anonymize p2.
Proof. exists [".."; "lib.vy"], ["0"; "lib.vy"]. split; [discriminate | reflexivity]. Qed.

(* ---- it is injective on paths none of whose segments is a numeral *)
Lemma uint_digits : forall d, all_digits (NilEmpty.string_of_uint d) = true.
Proof. induction d; simpl; auto. Qed.

Lemma zs_numeral : forall n, (0 <= n)%Z -> numeral (zs n) = true.
Proof.
  intros n Hn. unfold zs, numeral.
  destruct n as [| p | p]; [reflexivity | | lia].
  unfold Z.to_int. simpl. unfold NilZero.string_of_uint.
  destruct (Pos.to_uint p) eqn:E; try (rewrite <- E at 2; simpl; rewrite uint_digits; reflexivity).
  - reflexivity.
  Unshelve. all: exact EmptyString.
Qed.

Definition clean (segs : list string) : bool := forallb (fun s => negb (numeral s)) segs.

Lemma anon_from_inj : forall p1 p2 i, clean p1 = true -> clean p2 = true ->
  anon_from i p1 = anon_from i p2 -> p1 = p2.
Proof.
  induction p1 as [| s1 r1 IH]; intros [| s2 r2] i C1 C2 E; simpl in *; try discriminate; [reflexivity |].
  apply andb_prop in C1. destruct C1 as [N1 C1]. apply andb_prop in C2. destruct C2 as [N2 C2].
  injection E as Eh Et. f_equal; [| eapply IH; eassumption].
  assert (Hz : numeral (zs (Z.of_nat i)) = true) by (apply zs_numeral; lia).
  destruct (s1 =? "..") eqn:E1; destruct (s2 =? "..") eqn:E2.
  - apply String.eqb_eq in E1, E2. congruence.
  - rewrite <- Eh in N2. rewrite Hz in N2. discriminate.
  - rewrite Eh in N1. rewrite Hz in N1. discriminate.
  - assumption.
Qed.

Theorem anonymize_injective_on_clean_inputs : forall p1 p2, clean p1 = true -> clean p2 = true ->
  anonymize p1 = anonymize p2 -> p1 = p2.
Proof. intros. eapply anon_from_inj; eassumption. Qed.
