(* C18 proofs: the integrity sum determines the whole import tree, given a collision-free
   fixed-width hex digest (Section hypotheses = the SHA-256 assumption). *)
From Coq Require Import List String Arith Bool Lia.
From Verif Require Import C18.Integrity.
Import ListNotations.
Open Scope string_scope.

Lemma sapp_inj_len : forall a b x y : string,
  String.length a = String.length b -> a ++ x = b ++ y -> a = b /\ x = y.
Proof.
  induction a; destruct b; simpl; intros x y Hl He; try discriminate.
  - auto.
  - injection Hl as Hl. injection He as Hc He. destruct (IHa b x y Hl He). subst. auto.
Qed.

Lemma slen_app : forall a b : string, String.length (a ++ b) = String.length a + String.length b.
Proof. induction a; simpl; intros; [reflexivity | now rewrite IHa]. Qed.

Lemma sapp_nil_r : forall a : string, a ++ "" = a.
Proof. induction a; simpl; [reflexivity | now rewrite IHa]. Qed.

Section TreeInd.
  Variable P : tree -> Prop.
  Hypothesis Hleaf : forall j, P (Leaf j).
  Hypothesis Hnode : forall s cs, Forall P cs -> P (Node s cs).
  Fixpoint tree_ind' (t : tree) : P t :=
    match t with
    | Leaf j => Hleaf j
    | Node s cs => Hnode s cs ((fix go (l : list tree) : Forall P l :=
                      match l with [] => Forall_nil _ | x :: r => Forall_cons _ (tree_ind' x) (go r) end) cs)
    end.
End TreeInd.

Lemma wf_node : forall s cs, wf (Node s cs) <-> Forall wf cs.
Proof.
  intros s cs. simpl. induction cs; simpl.
  - split; auto.
  - rewrite IHcs. split; [intros [x y]; constructor; auto | intro F; inversion F; auto].
Qed.

Section Sha.
  Variable H : string -> string.
  Hypothesis H_len : forall s, String.length (H s) = 64.
  Hypothesis H_hex : forall s, first_char_in is_hex (H s).
  Hypothesis H_inj : forall a b, H a = H b -> a = b.

  Lemma integrity_len : forall t, String.length (integrity H t) = 64.
  Proof. destruct t; simpl; apply H_len. Qed.

  Lemma cat_inj : forall l1 l2,
    Forall (fun t => forall t', wf t' -> integrity H t = integrity H t' -> t = t') l1 ->
    Forall wf l2 ->
    cat (map (integrity H) l1) = cat (map (integrity H) l2) -> l1 = l2.
  Proof.
    induction l1 as [| a r IH]; intros l2 F W E; destruct l2 as [| b r2]; simpl in E.
    - reflexivity.
    - apply (f_equal String.length) in E. rewrite slen_app, integrity_len in E. simpl in E. lia.
    - apply (f_equal String.length) in E. rewrite slen_app, integrity_len in E. simpl in E. lia.
    - inversion F as [| ? ? Ha Fr]; subst. inversion W as [| ? ? Wb Wr]; subst.
      apply sapp_inj_len in E; [| now rewrite !integrity_len]. destruct E as [E1 E2].
      f_equal; [now apply Ha | now apply IH].
  Qed.

  Lemma leaf_not_node : forall j s cs, first_char_in (fun c => negb (is_hex c)) j ->
    j <> cat (H s :: map (integrity H) cs).
  Proof.
    intros j s cs (c & r & -> & Hc) E. simpl in E.
    destruct (H_hex s) as (c' & r' & E' & Hc'). rewrite E' in E. simpl in E.
    injection E as E1 _. subst c'. rewrite Hc' in Hc. discriminate.
  Qed.

  Theorem integrity_inj : forall t1 t2, wf t1 -> wf t2 ->
    integrity H t1 = integrity H t2 -> t1 = t2.
  Proof.
    induction t1 as [j | s cs IH] using tree_ind'; intros t2 W1 W2 E; destruct t2 as [s2 cs2 | j2]; simpl in E.
    - exfalso. apply H_inj in E. eapply leaf_not_node; [exact W1 | exact E].
    - apply H_inj in E. now subst.
    - apply H_inj in E. simpl in E.
      apply sapp_inj_len in E; [| now rewrite !H_len]. destruct E as [E1 E2].
      apply H_inj in E1. subst s2. f_equal.
      apply wf_node in W1. apply wf_node in W2.
      apply cat_inj; [| assumption | assumption].
      rewrite Forall_forall in *. intros t Ht t' Wt' Et. apply IH; auto.
    - exfalso. apply H_inj in E. symmetry in E. eapply leaf_not_node; [exact W2 | exact E].
  Qed.

  (* with a layout override: hash determines the override text and the tree *)
  Theorem override_inj : forall l1 l2 t1 t2, wf t1 -> wf t2 ->
    compute_integrity H (Some l1) t1 = compute_integrity H (Some l2) t2 -> l1 = l2 /\ t1 = t2.
  Proof.
    intros l1 l2 t1 t2 W1 W2 E. simpl in E. apply H_inj in E.
    apply sapp_inj_len in E; [| now rewrite !H_len]. destruct E as [E1 E2].
    split; [now apply H_inj | now apply integrity_inj].
  Qed.

  (* the two formulas are not domain separated: an override build collides with an override-free
     build exactly when the other target is a module whose text is the override file and whose only
     import is the first target *)
  Theorem override_vs_none : forall l t t', wf t -> wf t' ->
    compute_integrity H (Some l) t = compute_integrity H None t' -> t' = Node l [t].
  Proof.
    intros l t t' W W' E. simpl in E. destruct t' as [s cs | j]; simpl in E; apply H_inj in E.
    - simpl in E. apply sapp_inj_len in E; [| now rewrite !H_len]. destruct E as [E1 E2].
      apply H_inj in E1. subst s. f_equal.
      destruct cs as [| c [| c2 r]]; simpl in E2.
      + apply (f_equal String.length) in E2. rewrite integrity_len in E2. simpl in E2. lia.
      + rewrite sapp_nil_r in E2.
        apply wf_node in W'. inversion W' as [| ? ? Wc Wr]; subst. f_equal. symmetry. now apply integrity_inj.
      + apply (f_equal String.length) in E2. rewrite !slen_app, !integrity_len in E2. lia.
    - exfalso. simpl in W'. destruct W' as (c & r & -> & Hc).
      destruct (H_hex l) as (c' & r' & E' & Hc'). rewrite E' in E. simpl in E.
      injection E as E1 _. subst c'. rewrite Hc' in Hc. discriminate.
  Qed.

  Corollary override_separated : forall l t t', wf t -> wf t' ->
    t' <> Node l [t] -> compute_integrity H (Some l) t <> compute_integrity H None t'.
  Proof. intros l t t' W W' N E. apply N. eapply override_vs_none; eauto. Qed.
End Sha.
