(* C18 model: Settings.as_dict / Settings.from_dict and VenomOptimizationFlags.as_dict / from_dict
   (vyper/compiler/settings.py), the settings part of both bundle formats.  No proofs here. *)
From Coq Require Import ZArith List String Bool.
Import ListNotations.
Open Scope string_scope.

Inductive optlevel := NONE | GAS | CODESIZE | O2 | O3 | Os.

(* OptimizationLevel.__str__ *)
Definition level_str (l : optlevel) : string :=
  match l with NONE => "none" | GAS => "gas" | CODESIZE => "codesize" | O2 => "O2" | O3 => "O3" | Os => "Os" end.

(* OptimizationLevel.from_string (ValueError -> None) *)
Definition level_from_string (s : string) : option optlevel :=
  if s =? "none" then Some NONE
  else if (s =? "O1") || (s =? "O2") || (s =? "gas") then Some GAS
  else if (s =? "codesize") || (s =? "Os") then Some CODESIZE
  else if (s =? "O3") || (s =? "o3") then Some O3
  else None.

Definition threshold_for (l : optlevel) : Z :=
  match l with O3 => 30 | Os | CODESIZE => 5 | _ => 15 end.

(* VenomOptimizationFlags after __post_init__: inline_threshold is always set *)
Record vflags := mkvf { vf_level : optlevel; vf_disable : list bool (* the 11 disable_* fields *); vf_thr : Z }.

Definition new_vflags (level : optlevel) (dis : list bool) (thr : option Z) : vflags :=
  mkvf level dis (match thr with Some t => t | None => threshold_for level end).

Record vdict := mkvd { vd_level : string; vd_disable : list bool; vd_thr : Z }.
Definition vflags_as_dict (v : vflags) : vdict := mkvd (level_str (vf_level v)) (vf_disable v) (vf_thr v).
Definition vflags_from_dict (d : vdict) : option vflags :=
  match level_from_string (vd_level d) with
  | Some l => Some (new_vflags l (vd_disable d) (Some (vd_thr d)))
  | None => None
  end.

Record settings := mks {
  compiler_version : option string;
  optimize : option optlevel;
  evm_version : option string;
  experimental_codegen : option bool;
  debug : option bool;
  enable_decimals : option bool;
  nonreentrancy_by_default : option bool;
  disable_static_exceptions : option bool;
  venom_flags : option vflags }.

(* the dict: a key is present iff the option is Some; compiler_version is never written *)
Record sdict := mkd {
  d_optimize : option string;
  d_evm_version : option string;
  d_experimental_codegen : option bool;
  d_debug : option bool;
  d_enable_decimals : option bool;
  d_nonreentrancy_by_default : option bool;
  d_disable_static_exceptions : option bool;
  d_venom_flags : option vdict }.

Definition as_dict (s : settings) : sdict :=
  mkd (option_map level_str (optimize s)) (evm_version s) (experimental_codegen s) (debug s) (enable_decimals s)
      (nonreentrancy_by_default s) (disable_static_exceptions s) (option_map vflags_as_dict (venom_flags s)).

Definition from_dict (d : sdict) : option settings :=
  match (match d_optimize d with Some x => option_map Some (level_from_string x) | None => Some None end),
        (match d_venom_flags d with Some v => option_map Some (vflags_from_dict v) | None => Some None end) with
  | Some o, Some v =>
      Some (mks None o (d_evm_version d) (d_experimental_codegen d) (d_debug d) (d_enable_decimals d)
                (d_nonreentrancy_by_default d) (d_disable_static_exceptions d) v)
  | _, _ => None
  end.

(* the documented aliasing: O2 reads back as gas, Os as codesize; compiler_version is dropped *)
Definition norm_level (l : optlevel) : optlevel := match l with O2 => GAS | Os => CODESIZE | x => x end.
Definition norm_vflags (v : vflags) : vflags := mkvf (norm_level (vf_level v)) (vf_disable v) (vf_thr v).
Definition norm (s : settings) : settings :=
  mks None (option_map norm_level (optimize s)) (evm_version s) (experimental_codegen s) (debug s) (enable_decimals s)
      (nonreentrancy_by_default s) (disable_static_exceptions s) (option_map norm_vflags (venom_flags s)).

Definition cli_level (l : optlevel) : bool := match l with O2 | Os => false | _ => true end.
Definition cli_reachable (s : settings) : Prop :=
  compiler_version s = None /\
  match optimize s with Some l => cli_level l = true | None => True end /\
  match venom_flags s with Some v => cli_level (vf_level v) = true | None => True end.

(* ---- enumeration + encoding for the exhaustive differential against the real classes *)
Definition levels := [NONE; GAS; CODESIZE; O2; O3; Os].
Definition level_idx (l : optlevel) : Z := match l with NONE => 1 | GAS => 2 | CODESIZE => 3 | O2 => 4 | O3 => 5 | Os => 6 end.
Definition ob (o : option bool) : Z := match o with None => 0 | Some false => 1 | Some true => 2 end.
Definition obs := [None; Some false; Some true].
Definition evms := [None; Some "cancun"; Some "london"].
Definition evm_idx (e : option string) : Z := match e with None => 0 | Some s => if s =? "cancun" then 1 else 2 end.
Definition dis_of (a b : bool) : list bool := [a; false; false; false; false; false; false; false; false; b; false].
Definition vfs : list (option vflags) :=
  None :: flat_map (fun l => flat_map (fun a => flat_map (fun b => map (fun t => Some (new_vflags l (dis_of a b) t))
                     [None; Some 7%Z]) [false; true]) [false; true]) levels.
Definition vf_enc (v : option vflags) : Z :=
  match v with
  | None => 0
  | Some v => 1 + level_idx (vf_level v) + 8 * ((if nth 0 (vf_disable v) false then 1 else 0)
              + 2 * ((if nth 9 (vf_disable v) false then 1 else 0) + 2 * vf_thr v))
  end%Z.
Definition enc (s : settings) : list Z :=
  [match compiler_version s with None => 0 | Some _ => 1 end;
   match optimize s with None => 0 | Some l => level_idx l end; evm_idx (evm_version s);
   ob (experimental_codegen s); ob (debug s); ob (enable_decimals s); ob (nonreentrancy_by_default s);
   ob (disable_static_exceptions s); vf_enc (venom_flags s)]%Z.
Definition enc_res (r : option settings) : list Z := match r with Some s => 1%Z :: enc s | None => [0;0;0;0;0;0;0;0;0;0]%Z end.
