(* C18 property theorems (logic half; process-history determinism is exploration, see tools/checks/c18.py). *)
From Coq Require Import List String Ascii.
From Verif Require Import C18.Integrity C18.IntegrityProofs C18.SettingsModel C18.SettingsProofs C18.Anonymize C18.BundleSettings C18.BundleSettingsProofs.
Import ListNotations.
Open Scope string_scope.

Section Sha256.
  Variable H : string -> string.                                     (*section*)
  Hypothesis H_len : forall s, String.length (H s) = 64.             (*section*)
  Hypothesis H_hex : forall s, first_char_in is_hex (H s).           (*section*)
  Hypothesis H_inj : forall a b, H a = H b -> a = b.                 (*section*)

  (* equal integrity sums => equal import trees (every source text, every position) *)
  Theorem integrity_injective : forall t1 t2, wf t1 -> wf t2 -> integrity H t1 = integrity H t2 -> t1 = t2.
  Proof. exact (integrity_inj H H_len H_hex H_inj). Qed.

  (* with a layout override the sum determines the override text and the tree: changing either changes the hash *)
  Theorem override_changes_hash : forall l1 l2 t1 t2, wf t1 -> wf t2 ->
    (l1 <> l2 \/ t1 <> t2) -> compute_integrity H (Some l1) t1 <> compute_integrity H (Some l2) t2.
  Proof.
    intros l1 l2 t1 t2 W1 W2 D E.
    destruct (override_inj H H_len H_hex H_inj l1 l2 t1 t2 W1 W2 E) as [A B]. destruct D; contradiction.
  Qed.

  (* override build vs override-free build: separated except for the one shape forced by the missing domain separation *)
  Theorem override_vs_none_separated : forall l t t', wf t -> wf t' ->
    t' <> Node l [t] -> compute_integrity H (Some l) t <> compute_integrity H None t'.
  Proof. exact (override_separated H H_len H_hex H_inj). Qed.
End Sha256.
Print Assumptions integrity_injective.
Print Assumptions override_changes_hash.
Print Assumptions override_vs_none_separated.

Theorem settings_roundtrip : forall s, from_dict (as_dict s) = Some (norm s).
Proof. exact settings_rt. Qed.
Print Assumptions settings_roundtrip.

Theorem settings_roundtrip_exact : forall s, cli_reachable s -> from_dict (as_dict s) = Some s.
Proof. exact settings_rt_exact. Qed.
Print Assumptions settings_roundtrip_exact.

Theorem settings_roundtrip_stable : forall s s', from_dict (as_dict s) = Some s' -> from_dict (as_dict s') = Some s'.
Proof. exact settings_rt_stable. Qed.

(* bundle_roundtrip, settings part.  archive: MANIFEST/settings.json is json(as_dict) read with from_dict = settings_roundtrip
   above.  solc_json: REFUTED -- the writer emits Settings.as_dict() keys (snake_case `disable_static_exceptions`,
   `venom_flags`), the reader looks up `disableStaticExceptions` and `venom`; those settings are silently lost (replayed on the
   compiler by the check: the recompiled bundle gives different bytecode).  Everything else round-trips. *)
Theorem bundle_roundtrip_solc_json_settings_refuted :
  exists s, json_read_settings false (json_write_settings s) <> Some (json_expected s).
Proof. exact solc_json_settings_refuted. Qed.
Print Assumptions bundle_roundtrip_solc_json_settings_refuted.

Theorem bundle_roundtrip_solc_json_settings_partial : forall s, lossless s ->
  json_read_settings false (json_write_settings s) = Some (json_expected s).
Proof. exact solc_json_settings_partial. Qed.
Print Assumptions bundle_roundtrip_solc_json_settings_partial.

(* with the reader repaired to accept the exported keys the round trip holds for every setting *)
Theorem bundle_roundtrip_solc_json_settings_fixed : forall s,
  json_read_settings true (json_write_settings s) = Some (json_expected s).
Proof. exact solc_json_settings_fixed. Qed.
Print Assumptions bundle_roundtrip_solc_json_settings_fixed.

Theorem bundle_roundtrip_archive_settings : forall s, from_dict (as_dict s) = Some (norm s).
Proof. exact settings_rt. Qed.

(* DESIGN's `anonymize_injective_on_inputs` is FALSE for the faithful model: `../lib.vy` and `0/lib.vy` get the
   same bundle key (replayed on the real compiler by the check: a source is silently dropped from the bundle). *)
Theorem anonymize_injective_on_inputs_refuted : exists p1 p2, p1 <> p2 /\ anonymize p1 = anonymize p2.
Proof. exact anonymize_refuted. Qed.
Print Assumptions anonymize_injective_on_inputs_refuted.

(* what does hold: injective on paths without all-digit segments *)
Theorem anonymize_injective_on_inputs_partial : forall p1 p2, clean p1 = true -> clean p2 = true ->
  anonymize p1 = anonymize p2 -> p1 = p2.
Proof. exact anonymize_injective_on_clean_inputs. Qed.
Print Assumptions anonymize_injective_on_inputs_partial.

(* non-vacuity: a diamond import with a JSON leaf is well-formed; and the hypotheses are jointly
   satisfiable is NOT provable for a real hash (pigeonhole) -- they are the SHA-256 idealisation. *)
Example ex_wf : wf (Node "import a, b" [Node "a" [Node "c" []; Leaf "[{}]"]; Node "b" [Node "c" []]]).
Proof. simpl. repeat split. exists "["%char, "{}]". split; reflexivity. Qed.
