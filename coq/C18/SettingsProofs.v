From Coq Require Import ZArith List String Bool.
From Verif Require Import C18.SettingsModel.
Import ListNotations.
Open Scope string_scope.

Lemma level_rt : forall l, level_from_string (level_str l) = Some (norm_level l).
Proof. destruct l; reflexivity. Qed.

Lemma vflags_rt : forall v, vflags_from_dict (vflags_as_dict v) = Some (norm_vflags v).
Proof. intros [l d t]. unfold vflags_from_dict, vflags_as_dict. simpl. now rewrite level_rt. Qed.

Theorem settings_rt : forall s, from_dict (as_dict s) = Some (norm s).
Proof.
  intros [cv o e x d dec nr dse v]. unfold from_dict, as_dict, norm. simpl.
  destruct o as [l |]; simpl; [rewrite level_rt |]; (destruct v as [vf |]; simpl; [rewrite vflags_rt |]); reflexivity.
Qed.

Lemma norm_level_cli : forall l, cli_level l = true -> norm_level l = l.
Proof. destruct l; simpl; intro; try reflexivity; discriminate. Qed.

Theorem settings_rt_exact : forall s, cli_reachable s -> from_dict (as_dict s) = Some s.
Proof.
  intros s (Hc & Ho & Hv). rewrite settings_rt. f_equal.
  destruct s as [cv o e x d dec nr dse v]. unfold norm. simpl in *. subst cv. f_equal.
  - destruct o; simpl; [now rewrite norm_level_cli | reflexivity].
  - destruct v as [[l dis t] |]; simpl in *; [unfold norm_vflags; simpl; now rewrite norm_level_cli | reflexivity].
Qed.

Theorem norm_idem : forall s, norm (norm s) = norm s.
Proof.
  intros [cv o e x d dec nr dse v]. unfold norm. simpl. f_equal.
  - destruct o as [[]|]; reflexivity.
  - destruct v as [[[] dis t]|]; reflexivity.
Qed.

(* a second export/import changes nothing *)
Corollary settings_rt_stable : forall s s', from_dict (as_dict s) = Some s' -> from_dict (as_dict s') = Some s'.
Proof. intros s s' E. rewrite settings_rt in E. injection E as <-. now rewrite settings_rt, norm_idem. Qed.
