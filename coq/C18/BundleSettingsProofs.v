From Coq Require Import ZArith List String Bool.
From Verif Require Import C18.SettingsModel C18.SettingsProofs C18.BundleSettings.
Import ListNotations.
Open Scope string_scope.

(* the solc_json format loses settings: refutation of the round trip *)
Theorem solc_json_settings_refuted : exists s, json_read_settings false (json_write_settings s) <> Some (json_expected s).
Proof.
  exists (mks None None None None None None None (Some true) None). vm_compute. discriminate.
Qed.

Theorem solc_json_venom_flags_refuted : exists s,
  json_read_settings false (json_write_settings s) <> Some (json_expected s) /\ disable_static_exceptions s = None.
Proof.
  exists (mks None (Some GAS) None (Some true) None None None None
              (Some (new_vflags GAS [true;false;false;false;false;false;false;false;false;false;false] None))).
  split; [vm_compute; discriminate | reflexivity].
Qed.

(* ... and keeps everything else *)
Theorem solc_json_settings_partial : forall s, lossless s ->
  json_read_settings false (json_write_settings s) = Some (json_expected s).
Proof.
  intros [cv o e x d dec nr dse v] (Hn & Hd & Hv). simpl in Hn, Hd, Hv. subst nr dse v.
  unfold json_write_settings, json_read_settings, json_expected. simpl.
  destruct o as [l |]; destruct e as [ev |]; destruct x as [xb |]; destruct d as [db |]; destruct dec as [cb |];
    simpl; try (destruct l; reflexivity); reflexivity.
Qed.

(* the repaired reader (accepting the exported keys) round-trips every setting *)
Theorem solc_json_settings_fixed : forall s, json_read_settings true (json_write_settings s) = Some (json_expected s).
Proof.
  intros [cv o e x d dec nr dse v].
  unfold json_write_settings, json_read_settings, json_expected. simpl.
  destruct o as [l |]; destruct e as [ev |]; destruct x as [xb |]; destruct d as [db |]; destruct dec as [cb |];
    destruct nr as [nb |]; destruct dse as [sb |]; destruct v as [[vl vd vt] |]; simpl;
    try (destruct l); try (destruct vl); reflexivity.
Qed.
