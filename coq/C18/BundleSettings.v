(* C18: the settings part of the two bundle formats at key/value level.
   archive  : MANIFEST/settings.json = json(Settings.as_dict()), read back with Settings.from_dict   (SettingsModel.v)
   solc_json: SolcJSONWriter.write_settings = as_dict() with evm_version->evmVersion, experimental_codegen->experimentalCodegen
              (all other keys keep their snake_case names); read back by vyper_json.get_settings, which looks up
              evmVersion, optimize, experimentalCodegen, debug, enable_decimals, disableStaticExceptions, venom{camelCase}. *)
From Coq Require Import ZArith List String Bool.
From Verif Require Import C18.SettingsModel.
Import ListNotations.
Open Scope string_scope.

Inductive jval := JS (s : string) | JB (b : bool) | JV (v : vdict).
Definition jobj := list (string * jval).

Fixpoint jget (k : string) (o : jobj) : option jval :=
  match o with [] => None | (k', v) :: r => if k' =? k then Some v else jget k r end.

Definition opt_entry {A} (k : string) (f : A -> jval) (o : option A) : jobj :=
  match o with Some x => [(k, f x)] | None => [] end.

(* SolcJSONWriter.write_settings *)
Definition json_write_settings (s : settings) : jobj :=
  (opt_entry "optimize" (fun l => JS (level_str l)) (optimize s) ++
   opt_entry "evmVersion" JS (evm_version s) ++
   opt_entry "experimentalCodegen" JB (experimental_codegen s) ++
   opt_entry "debug" JB (debug s) ++
   opt_entry "enable_decimals" JB (enable_decimals s) ++
   opt_entry "nonreentrancy_by_default" JB (nonreentrancy_by_default s) ++
   opt_entry "disable_static_exceptions" JB (disable_static_exceptions s) ++
   opt_entry "venom_flags" (fun v => JV (vflags_as_dict v)) (venom_flags s))%list.

Definition jbool (o : option jval) : option bool := match o with Some (JB b) => Some b | _ => None end.
Definition jstr (o : option jval) : option string := match o with Some (JS s) => Some s | _ => None end.

Definition default_disable : list bool := repeat false 11.

(* vyper_json.get_settings (as of the snapshot): no "venom" object is ever written by the writer, so the flags are
   always the defaults for the level; `disableStaticExceptions` (camelCase) is looked up *)
Definition jvd (o : option jval) : option vdict := match o with Some (JV v) => Some v | _ => None end.

(* [accept_exported = false]: the reader of the snapshot.  [true]: the repaired reader, which also accepts the keys the
   writer emits (`disable_static_exceptions`, `nonreentrancy_by_default`, `venom_flags`).  The check determines which one
   the current /repo implements by the differential. *)
Definition json_read_settings (accept_exported : bool) (o : jobj) : option settings :=
  match (match jstr (jget "optimize" o) with Some x => option_map Some (level_from_string x) | None => Some None end) with
  | None => None
  | Some lvl =>
      let default_flags := new_vflags (match lvl with Some l => l | None => GAS end) default_disable None in
      let dse := match jbool (jget "disableStaticExceptions" o) with
                 | Some b => Some b
                 | None => if accept_exported then jbool (jget "disable_static_exceptions" o) else None
                 end in
      let nr := if accept_exported then jbool (jget "nonreentrancy_by_default" o) else None in
      match (if accept_exported then
               match jvd (jget "venom_flags" o) with
               | Some vd => vflags_from_dict vd
               | None => Some default_flags
               end
             else Some default_flags) with
      | None => None
      | Some vf =>
          Some (mks None lvl (jstr (jget "evmVersion" o)) (jbool (jget "experimentalCodegen" o)) (jbool (jget "debug" o))
                    (jbool (jget "enable_decimals" o)) nr dse (Some vf))
      end
  end.

(* what a faithful round trip would return (cf. SettingsModel.norm), with the venom flags object the reader always builds *)
Definition json_expected (s : settings) : settings :=
  mks None (option_map norm_level (optimize s)) (evm_version s) (experimental_codegen s) (debug s) (enable_decimals s)
      (nonreentrancy_by_default s) (disable_static_exceptions s)
      (Some (match venom_flags s with
             | Some v => norm_vflags v
             | None => new_vflags (match optimize s with Some l => norm_level l | None => GAS end) default_disable None
             end)).

Definition lossless (s : settings) : Prop :=
  nonreentrancy_by_default s = None /\ disable_static_exceptions s = None /\ venom_flags s = None.
