(* C18 model: integrity sum over the import graph.
   vyper/semantics/analysis/imports.py:_calculate_integrity_sum_r
       acc = [sha256sum(module.full_source_code)]
       for each import (in source order): JSON input -> its sha256sum ; module -> recursive sum
       return sha256sum("".join(acc))
   vyper/compiler/phases.py:_compute_integrity_sum
       with a storage-layout override: sha256sum(layout.sha256sum + imports_sum), else imports_sum
   The hash is a parameter [H]; no proofs here. *)
From Coq Require Import List String Arith Bool.
Import ListNotations.
Open Scope string_scope.

Inductive tree :=
| Node (src : string) (children : list tree)     (* .vy / .vyi module and its imports, in source order *)
| Leaf (json : string).                          (* JSON ABI input: hashed flat *)

Definition cat (l : list string) : string := fold_right append "" l.   (* python "".join(l) *)

Fixpoint integrity (H : string -> string) (t : tree) : string :=
  match t with
  | Leaf j => H j
  | Node src cs => H (cat (H src :: map (integrity H) cs))
  end.

Definition compute_integrity (H : string -> string) (layout : option string) (t : tree) : string :=
  match layout with
  | Some l => H (H l ++ integrity H t)
  | None => integrity H t
  end.

(* the sequence of strings handed to the hash function, in call order (for the structural tie) *)
Fixpoint hashed (H : string -> string) (t : tree) : list string :=
  match t with
  | Leaf j => [j]
  | Node src cs => (src :: flat_map (hashed H) cs) ++ [cat (H src :: map (integrity H) cs)]
  end.

Definition first_char_in (p : Ascii.ascii -> bool) (s : string) : Prop :=
  exists c r, s = String c r /\ p c = true.

Definition is_hex (c : Ascii.ascii) : bool :=
  let n := Ascii.nat_of_ascii c in
  orb (andb (Nat.leb 48 n) (Nat.leb n 57)) (andb (Nat.leb 97 n) (Nat.leb n 102)).

(* well-formed: every JSON leaf starts with a character that is not a hex digit
   (a JSON ABI file starts with '[' or '{', possibly after whitespace) *)
Fixpoint wf (t : tree) : Prop :=
  match t with
  | Leaf j => first_char_in (fun c => negb (is_hex c)) j
  | Node _ cs => (fix all (l : list tree) : Prop := match l with [] => True | x :: r => wf x /\ all r end) cs
  end.
