From Coq Require Import ZArith List Bool Lia.
From Verif Require Import C12.ExtCall C12.ExtCallProofs C12.Builtins.
Import ListNotations.
Open Scope Z_scope.

Lemma send_semantics_thm : forall o,
  (send o = Ok [] <-> exists rd, o = Success rd) /\
  (forall rd, o = Failure rd -> send o = Revert []).
Proof.
  intros o. split; [split|].
  - destruct o; simpl; intro H; [eauto|discriminate].
  - intros [rd H]; subst; reflexivity.
  - intros rd H; subst; reflexivity.
Qed.

Lemma raw_revert_exact_thm : forall d, raw_revert d = Revert d.
Proof. reflexivity. Qed.

Lemma create_failure_reverts_thm : forall b cs rd,
  pre_ok b cs = true ->
  create_builtin b true cs (CreateFail rd) = Revert rd /\
  create_builtin b false cs (CreateFail rd) = Ok [0].
Proof. intros b cs rd H. unfold create_builtin. rewrite H. split; reflexivity. Qed.

Lemma create_success_thm : forall b R cs a, pre_ok b cs = true -> create_builtin b R cs (CreateOk a) = Ok [a].
Proof. intros. unfold create_builtin. rewrite H. reflexivity. Qed.

Lemma create_empty_target_reverts_thm : forall R r,
  create_builtin CopyOf R 0 r = Revert [] /\
  (forall off cs, 0 <= cs < 2 ^ 255 -> 0 <= off < 2 ^ 255 -> cs <= off -> create_builtin (FromBlueprint off) R cs r = Revert []).
Proof.
  intros R r. split; [reflexivity|].
  intros off cs Hc Ho Hle. unfold create_builtin, pre_ok, to_signed.
  assert (E : 0 <? (if (cs - off) mod 2 ^ 256 <? 2 ^ 255 then (cs - off) mod 2 ^ 256 else (cs - off) mod 2 ^ 256 - 2 ^ 256) = false).
  { destruct (Z.eq_dec cs off).
    - subst. rewrite Z.sub_diag, Z.mod_0_l by (compute; discriminate). reflexivity.
    - assert (H : (cs - off) mod 2 ^ 256 = cs - off + 2 ^ 256).
      { rewrite <- (Z.mod_add _ 1) by (compute; discriminate). rewrite Z.mul_1_l. apply Z.mod_small. lia. }
      rewrite H. destruct (Z.ltb_spec (cs - off + 2 ^ 256) (2 ^ 255)); [lia|].
      apply Z.ltb_ge. lia. }
  rewrite E. reflexivity.
Qed.

Lemma rawcall_k_semantics_thm : forall k M R v ans rd,
  let a := ans k (match k with KCall => v | _ => 0 end) in
  (a = Failure rd -> R = true -> raw_call_k k M R v ans = Revert rd) /\
  (a = Failure rd -> R = false -> raw_call_k k M R v ans = Ok (0 :: len (truncate M rd) :: truncate M rd)) /\
  (a = Success rd -> raw_call_k k M R v ans = Ok (1 :: len (truncate M rd) :: truncate M rd)) /\
  len (truncate M rd) <= Z.max 0 M.
Proof.
  intros k M R v ans rd a. subst a. unfold raw_call_k. repeat split; try (intros H; try intros HR; rewrite H; subst; reflexivity).
  unfold len, truncate. pose proof (firstn_le_length (Z.to_nat M) rd). lia.
Qed.
