(* C12 model: decision tables of the low-level builtins.
     send(to, v, gas=g)                      CALL with empty calldata; failure => revert with EMPTY data (assert)
     raw_revert(data)                        revert with exactly data
     raw_call(..., is_delegate_call / is_static_call / plain, max_outsize, revert_on_failure)
     create_minimal_proxy_to / create_copy_of / create_from_blueprint (revert_on_failure, salt, value, code_offset)
   The EVM's answer to CALL / CREATE is an oracle.  No proofs in this file. *)
From Coq Require Import ZArith List Bool.
From Verif Require Import C12.ExtCall.
Import ListNotations.
Open Scope Z_scope.

(* ---- send ---- *)
Definition send (o : outcome) : res :=
  match o with Success _ => Ok [] | Failure _ => Revert [] end.

(* ---- raw_revert ---- *)
Definition raw_revert (data : bytes) : res := Revert data.

(* ---- raw_call, all call kinds ---- *)
Inductive ckind := KCall | KStatic | KDelegate.
(* the callee oracle seen through a call kind: delegatecall runs the target's code (same outcome function,
   non-static, no value transfer) *)
Definition raw_call_k (k : ckind) (max_outsize : Z) (revert_on_failure : bool) (value : Z)
                      (answer : ckind -> Z -> outcome) : res :=
  match answer k (match k with KCall => value | _ => 0 end) with
  | Success rd => Ok (1 :: len (truncate max_outsize rd) :: truncate max_outsize rd)
  | Failure rd => if revert_on_failure then Revert rd
                  else Ok (0 :: len (truncate max_outsize rd) :: truncate max_outsize rd)
  end.

(* ---- create_* ---- *)
Inductive cres := CreateOk (addr : Z) | CreateFail (rd : bytes).
Inductive cbuiltin := MinimalProxy | CopyOf | FromBlueprint (code_offset : Z).

(* precondition checked before CREATE: the target must have code (copy_of), resp. code beyond code_offset
   (from_blueprint: signed comparison  extcodesize - code_offset > 0) *)
Definition to_signed (w : Z) : Z := if w <? 2 ^ 255 then w else w - 2 ^ 256.
Definition pre_ok (b : cbuiltin) (target_codesize : Z) : bool :=
  match b with
  | MinimalProxy => true
  | CopyOf => negb (target_codesize =? 0)
  | FromBlueprint off => 0 <? to_signed ((target_codesize - off) mod 2 ^ 256)
  end.

Definition create_builtin (b : cbuiltin) (revert_on_failure : bool) (target_codesize : Z) (r : cres) : res :=
  if negb (pre_ok b target_codesize) then Revert []
  else match r with
       | CreateOk a => Ok [a]
       | CreateFail rd => if revert_on_failure then Revert rd else Ok [0]
       end.

(* CREATE vs CREATE2 and the forwarded value *)
Definition create_opcode (salt : option Z) : bool (* true = CREATE2 *) := match salt with Some _ => true | None => false end.
