(* C12 proofs about the outgoing-call protocol model (ExtCall.v), for every callee behaviour. *)
From Coq Require Import ZArith List Bool Lia.
From Verif Require Import C12.ExtCall.
Import ListNotations.
Open Scope Z_scope.

Lemma len_nil : len [] = 0. Proof. reflexivity. Qed.
Lemma len_nonneg : forall b, 0 <= len b. Proof. intros; unfold len; lia. Qed.

Lemma static_size_pos : forall tys, tys <> [] -> 0 < static_size tys.
Proof. intros [|t r] H; [congruence|]. unfold static_size. simpl length. lia. Qed.

Lemma no_code_reverts_thm : forall kw m ret o,
  has_code o = false -> (forall st v, result o st v = Success []) -> kw_skip kw = false ->
  match ret with Some tys => tys <> [] | None => True end ->
  ext_call kw m ret o = Revert [].
Proof.
  intros kw m ret o Hc Hr Hs Hn. unfold ext_call. rewrite Hr, Hc, Hs. simpl.
  destruct ret as [tys|]; [|reflexivity].
  pose proof (static_size_pos tys Hn) as Hp.
  destruct (kw_default kw).
  - reflexivity.
  - rewrite len_nil. destruct (Z.ltb_spec 0 (static_size tys)); [reflexivity|lia].
Qed.

Lemma failure_propagates_exact_thm : forall kw m ret o rd,
  result o (call_opcode m) (call_value m kw) = Failure rd ->
  (ret = None -> kw_skip kw = true \/ has_code o = true) ->
  ext_call kw m ret o = Revert rd.
Proof.
  intros kw m ret o rd Hr Hn. unfold ext_call. rewrite Hr. destruct ret; [reflexivity|].
  destruct (Hn eq_refl) as [H|H]; rewrite H; simpl; [reflexivity|].
  rewrite andb_false_r. reflexivity.
Qed.

Lemma short_returndata_reverts_thm : forall kw m tys o rd,
  result o (call_opcode m) (call_value m kw) = Success rd ->
  len rd < static_size tys -> (kw_default kw = None \/ len rd <> 0) ->
  ext_call kw m (Some tys) o = Revert [].
Proof.
  intros kw m tys o rd Hr Hl Hd. unfold ext_call. rewrite Hr.
  destruct (Z.ltb_spec (len rd) (static_size tys)); [|lia].
  destruct (kw_default kw); [|reflexivity].
  destruct Hd as [Hd|Hd]; [discriminate|].
  destruct (Z.eqb_spec (len rd) 0); [contradiction|reflexivity].
Qed.

Lemma bad_value_reverts_thm : forall kw m tys o rd,
  result o (call_opcode m) (call_value m kw) = Success rd ->
  decode tys rd 0 = None -> (kw_default kw = None \/ len rd <> 0) ->
  ext_call kw m (Some tys) o = Revert [].
Proof.
  intros kw m tys o rd Hr Hdec Hd. unfold ext_call. rewrite Hr, Hdec.
  destruct (kw_default kw).
  - destruct Hd as [Hd|Hd]; [discriminate|].
    destruct (Z.eqb_spec (len rd) 0); [contradiction|].
    destruct (len rd <? static_size tys); reflexivity.
  - destruct (len rd <? static_size tys); reflexivity.
Qed.

(* decoding is sound: the words returned are the words of the returndata and each is in its type *)
Lemma decode_sound : forall tys rd i l,
  decode tys rd i = Some l ->
  Forall2 (fun t w => in_range t w = true) tys l /\
  forall j, (j < length tys)%nat -> nth j l 0 = word_at rd (i + j).
Proof.
  induction tys as [|t r IH]; intros rd i l H; simpl in H.
  - inversion H; subst. split; [constructor|]. intros j Hj; simpl in Hj; lia.
  - destruct (in_range t (word_at rd i)) eqn:E; [|discriminate].
    destruct (decode r rd (S i)) as [l'|] eqn:D; [|discriminate]. inversion H; subst.
    destruct (IH rd (S i) l' D) as [F N]. split; [constructor; assumption|].
    intros [|j] Hj; simpl.
    + rewrite Nat.add_0_r. reflexivity.
    + rewrite N by (simpl in Hj; lia). f_equal. lia.
Qed.

(* characterisation of every successful interface call with a return type *)
Lemma ok_characterisation_thm : forall kw m tys o l,
  ext_call kw m (Some tys) o = Ok l ->
  exists rd, result o (call_opcode m) (call_value m kw) = Success rd /\
   ((len rd = 0 /\ kw_default kw = Some l /\ (kw_skip kw = true \/ has_code o = true)) \/
    ((kw_default kw = None \/ len rd <> 0) /\ static_size tys <= len rd /\ decode tys rd 0 = Some l /\
     Forall2 (fun t w => in_range t w = true) tys l)).
Proof.
  intros kw m tys o l H. unfold ext_call in H.
  destruct (result o (call_opcode m) (call_value m kw)) as [rd|rd]; [|discriminate].
  exists rd. split; [reflexivity|].
  destruct (kw_default kw) as [d|].
  - destruct (Z.eqb_spec (len rd) 0).
    + left. destruct (kw_skip kw); destruct (has_code o); simpl in H; try discriminate; inversion H; subst; auto.
    + right. destruct (Z.ltb_spec (len rd) (static_size tys)); [discriminate|].
      destruct (decode tys rd 0) as [l'|] eqn:D; [|discriminate]. inversion H; subst.
      repeat split; auto. apply (decode_sound _ _ _ _ D).
  - right. destruct (Z.ltb_spec (len rd) (static_size tys)); [discriminate|].
    destruct (decode tys rd 0) as [l'|] eqn:D; [|discriminate]. inversion H; subst.
    repeat split; auto. apply (decode_sound _ _ _ _ D).
Qed.

Lemma default_only_on_empty_thm : forall kw m tys o rd l,
  result o (call_opcode m) (call_value m kw) = Success rd -> len rd <> 0 ->
  ext_call kw m (Some tys) o = Ok l -> decode tys rd 0 = Some l.
Proof.
  intros kw m tys o rd l Hr Hn H. destruct (ok_characterisation_thm _ _ _ _ _ H) as [rd' [Hr' [[A _]|[_ [_ [D _]]]]]];
    rewrite Hr in Hr'; inversion Hr'; subst; [contradiction|exact D].
Qed.

Lemma no_return_ok_thm : forall kw m o,
  ext_call kw m None o = Ok [] <->
  ((kw_skip kw = true \/ has_code o = true) /\ exists rd, result o (call_opcode m) (call_value m kw) = Success rd).
Proof.
  intros kw m o. unfold ext_call. split.
  - intro H. destruct (kw_skip kw); destruct (has_code o); simpl in H; try discriminate;
      (split; [auto|]); destruct (result o (call_opcode m) (call_value m kw)) as [rd|rd]; try discriminate; eauto.
  - intros [[A|A] [rd Hr]]; rewrite A, Hr; simpl; try reflexivity. rewrite andb_false_r. reflexivity.
Qed.

Lemma static_for_view_pure_thm : forall m kw,
  (call_opcode m = true <-> (m = Pure \/ m = ViewM)) /\
  (call_opcode m = true -> call_value m kw = 0) /\
  (call_opcode m = false -> call_value m kw = kw_value kw).
Proof.
  intros m kw. unfold call_opcode, call_value. destruct m; simpl; repeat split; intros; auto; try discriminate;
    try (destruct H; discriminate).
Qed.

Lemma firstn_len_le : forall (n : nat) (l : bytes), (length (firstn n l) <= n)%nat.
Proof. intros. apply firstn_le_length. Qed.

Lemma rawcall_truncates_to_max_thm : forall M R st v o f n resp,
  raw_call M R st v o = Ok (f :: n :: resp) ->
  n = len resp /\ len resp <= Z.max 0 M /\
  exists rd, (result o st (if st then 0 else v) = Success rd \/ result o st (if st then 0 else v) = Failure rd) /\
             resp = firstn (Z.to_nat M) rd /\ (len rd <= M -> resp = rd).
Proof.
  intros M R st v o f n resp H. unfold raw_call in H.
  destruct (result o st (if st then 0 else v)) as [rd|rd].
  - inversion H; subst. split; [reflexivity|]. split.
    + unfold len, truncate. pose proof (firstn_len_le (Z.to_nat M) rd). lia.
    + exists rd. split; [left; reflexivity|]. split; [reflexivity|].
      intro Hl. unfold truncate. apply firstn_all2. unfold len in Hl. lia.
  - destruct R; [discriminate|]. inversion H; subst. split; [reflexivity|]. split.
    + unfold len, truncate. pose proof (firstn_len_le (Z.to_nat M) rd). lia.
    + exists rd. split; [right; reflexivity|]. split; [reflexivity|].
      intro Hl. unfold truncate. apply firstn_all2. unfold len in Hl. lia.
Qed.

Lemma rawcall_flag_semantics_thm : forall M R st v o rd,
  (result o st (if st then 0 else v) = Failure rd -> R = true -> raw_call M R st v o = Revert rd) /\
  (result o st (if st then 0 else v) = Failure rd -> R = false ->
     raw_call M R st v o = Ok (0 :: len (truncate M rd) :: truncate M rd)) /\
  (result o st (if st then 0 else v) = Success rd ->
     raw_call M R st v o = Ok (1 :: len (truncate M rd) :: truncate M rd)).
Proof.
  intros. unfold raw_call. repeat split; intros H; try intros HR; rewrite H; subst; reflexivity.
Qed.
