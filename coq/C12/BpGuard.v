(* C12 (session 3, seeded change C12_m6): the fail-closed guard of create_from_blueprint.

   Documented rule (docs/built-in-functions.rst): "If code_offset >= target.codesize (ex. if there is no code at
   target), execution will revert."  Both generators emit, between EXTCODESIZE and CREATE, asserts over the words
   extcodesize(target), code_offset and (possibly) the length of the constructor arguments.  This file holds
     - the syntax of those asserted conditions (CallTpl.sx) and an evaluator [gev] over EVM words,
     - [run_guards]: executing the asserts in order (Some true = the site reverts before CREATE),
     - the documented rule [bp_must_revert],
     - the generator template [gen_bp_guard] (what an exact guard looks like).
   Leaves other than literals are symbols: their value is given by an ARBITRARY environment (so a theorem quantified
   over the environment holds for every constructor-argument length, salt, value, memory content ...).
   No proofs in this file. *)
From Coq Require Import ZArith List Bool String.
From Verif Require Import C12.CallTpl.
Import ListNotations.
Open Scope string_scope.
Open Scope Z_scope.
Local Notation "a == b" := (String.eqb a b) (at level 70).

Definition BW : Z := 2 ^ 256.
Definition BHALF : Z := 2 ^ 255.
Definition bsgn (w : Z) : Z := if w <? BHALF then w else w - BW.
Definition b2z (b : bool) : Z := if b then 1 else 0.

Record genv := mkGE { g_codesize : Z;            (* EXTCODESIZE of the blueprint target *)
                      g_sym : string -> Z }.     (* every other leaf: code_offset, args length, ... *)

Definition gbin (op : string) (a b : Z) : option Z :=
  if op == "sub" then Some ((a - b) mod BW)
  else if op == "add" then Some ((a + b) mod BW)
  else if op == "sgt" then Some (b2z (bsgn b <? bsgn a))
  else if op == "slt" then Some (b2z (bsgn a <? bsgn b))
  else if op == "sge" then Some (b2z (bsgn b <=? bsgn a))
  else if op == "sle" then Some (b2z (bsgn a <=? bsgn b))
  else if op == "gt" then Some (b2z (b <? a))
  else if op == "lt" then Some (b2z (a <? b))
  else if op == "ge" then Some (b2z (b <=? a))
  else if op == "le" then Some (b2z (a <=? b))
  else if op == "eq" then Some (b2z (a =? b))
  else if op == "ne" then Some (b2z (negb (a =? b)))
  else if op == "and" then Some (Z.land a b)
  else if op == "or" then Some (Z.lor a b)
  else None.

Fixpoint gev (e : sx) (E : genv) {struct e} : option Z :=
  match e with
  | SL n => Some (n mod BW)
  | SN op args =>
    match args with
    | [] => Some (g_sym E op mod BW)
    | [a] =>
      if op == "extcodesize" then
        match a with SN "to_sym" [] => Some (g_codesize E mod BW) | _ => None end
      else match gev a E with
           | Some v => if op == "iszero" then Some (b2z (v =? 0)) else None
           | None => None
           end
    | [a; b] =>
      match gev a E, gev b E with
      | Some x, Some y => gbin op x y
      | _, _ => None
      end
    | _ => None
    end
  end.

(* the asserts of the site, in execution order: Some true = reverts before CREATE, Some false = CREATE is reached,
   None = a condition outside the fragment (no claim) *)
Fixpoint run_guards (gs : list sx) (E : genv) : option bool :=
  match gs with
  | [] => Some false
  | g :: r => match gev g E with
              | None => None
              | Some v => if v =? 0 then Some true else run_guards r E
              end
  end.

(* the documented rule *)
Definition bp_must_revert (codesize code_offset : Z) : bool := codesize <=? code_offset.

(* the exact guard: assert (gt (extcodesize target) code_offset) -- unsigned comparison of the two operands *)
Definition gen_bp_guard (off : sx) : sx :=
  SN "gt" [SN "extcodesize" [SN "to_sym" []]; off].
(* the guard both generators emitted before /repo commit 0e3d467 (regression witness: exact only while the signed
   difference does not wrap) *)
Definition gen_bp_guard_signed (off : sx) : sx :=
  SN "sgt" [SN "sub" [SN "extcodesize" [SN "to_sym" []]; off]; SL 0].
Definition off_operand (o : string) : sx :=
  if o == "lit3" then SL 3 else if o == "lit0" then SL 0 else SN "ofs_sym" [].
