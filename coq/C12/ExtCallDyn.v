(* C12 model, dynamic return types: the interface-call protocol of ExtCall.v composed with the shared
   ABI model (C06/Abi.v) and the returndata acceptance model C05.Dec.accept_ret
   (returndatasize >= static_size; every item footprint inside hi = min(returndatasize, size_bound);
   lengths within the declared bounds; scalars in range).  [t] is the wrapped return type
   (calculate_type_for_external_return: a tuple).  No proofs in this file. *)
From Coq Require Import ZArith List Bool.
From Verif Require Import C12.ExtCall C06.Abi C05.Dec.
Import ListNotations.
Open Scope Z_scope.

Inductive dres := DOk (v : val) | DRevert (rd : list Z).

Definition ext_call_dyn (skip : bool) (dflt : option val) (value : Z) (m : mutability) (t : ty) (o : callee) : dres :=
  match result o (call_opcode m) (if is_static m then 0 else value) with
  | Failure rd => DRevert rd
  | Success rd =>
    match dflt with
    | Some d =>
      if zlen rd =? 0 then (if negb skip && negb (has_code o) then DRevert [] else DOk d)
      else match accept_ret t rd with Some v => DOk v | None => DRevert [] end
    | None => match accept_ret t rd with Some v => DOk v | None => DRevert [] end
    end
  end.

(* what the caller hands back when it returns the decoded value: status :: canonical re-encoding *)
Definition dres_to_list (t : ty) (r : dres) : list Z :=
  match r with DOk v => 1 :: enc t v | DRevert rd => 0 :: rd end.
