(* C12 extension O-tie: the observed use-sites (GenSites.v, regenerated every run from RawCall.build_IR, _create_ir,
   the create builtins' _build_create_IR and the raw venom IR of probe contracts) are syntactically the Coq generators'
   output over the whole family of keyword combinations, hence compute the documented behaviour. *)
From Coq Require Import ZArith List Bool String.
From Verif Require Import C12.ExtCall C12.Builtins C12.CallTpl C12.EvmFrag C12.EvmFragProofs C12.GenSites.
Import ListNotations.
Open Scope string_scope.
Open Scope list_scope.
Open Scope Z_scope.

Definition rkey := (ckind * Z * bool * bool * bool)%type.   (* kind, max_outsize, revert_on_failure, value=, gas= *)
Definition ckey := (string * bool * bool * bool)%type.       (* builtin, salt=, revert_on_failure, value= *)

Definition fam_kind (k : ckind) : list rkey :=
  flat_map (fun M => flat_map (fun R => flat_map (fun hv => map (fun hg => (k, M, R, hv, hg)) [false; true])
                                                 (match k with KCall => [false; true] | _ => [false] end))
                               [true; false]) [0; 32]
  ++ [(k, 7, true, false, false); (k, 7, false, false, true)].
Definition raw_family : list rkey := flat_map fam_kind [KCall; KStatic; KDelegate].
Definition raw_family_london : list rkey :=
  filter (fun key => match key with (_, M, _, _, hg) => (M =? 32) && negb hg end) raw_family.
Definition fam_builtin (b : string) : list ckey :=
  flat_map (fun salt => map (fun R => (b, salt, R, false)) [true; false]) [false; true]
  ++ [(b, false, true, true); (b, true, false, true)].
Definition create_family : list ckey :=
  flat_map fam_builtin ["raw_create"; "raw_create_args"; "proxy"; "copy"; "blueprint"; "blueprint_raw"].
Definition create_family_london : list ckey := filter (fun key => match key with (_, _, _, hv) => negb hv end) create_family.

Definition exp_rawcall_legacy (key : rkey) : sx :=
  match key with (k, M, R, hv, hg) => gen_rawcall_legacy k M R hg (if hv then sym "value_sym" else SL 0) 64 end.
Definition exp_rawcall_venom (key : rkey) : vsite :=
  match key with (k, M, R, hv, hg) =>
    gen_rawcall_venom k M R (if hg then SL 888 else sym "gas") (SL (if hv then 777 else 0)) end.
Definition exp_create_legacy (salt R hv : bool) : sx :=
  gen_create_legacy (if salt then Some (sym "salt_sym") else None) R (if hv then sym "value_sym" else SL 0)
                    (sym "buf_sym") (sym "len_sym").
Definition exp_create_legacy_key (key : ckey) : sx := match key with (_, salt, R, hv) => exp_create_legacy salt R hv end.
Definition exp_create_venom (key : ckey) : vsite :=
  match key with (_, salt, R, hv) =>
    gen_create_venom (if salt then Some (SL 999) else None) R (SL (if hv then 777 else 0)) (sym "buf_sym") (sym "len_sym") end.

Lemma obs_rawcall_legacy_eq : obs_rawcall_legacy = map (fun key => (key, exp_rawcall_legacy key)) raw_family.
Proof. vm_compute. reflexivity. Qed.
Lemma obs_create_ir_legacy_eq :
  obs_create_ir_legacy = map (fun sr => (sr, exp_create_legacy (fst sr) (snd sr) true)) [(false, true); (false, false); (true, true); (true, false)].
Proof. vm_compute. reflexivity. Qed.
Lemma obs_create_use_legacy_eq :
  obs_create_use_legacy = map (fun key => (key, exp_create_legacy_key key)) create_family.
Proof. vm_compute. reflexivity. Qed.
Lemma obs_rawcall_venom_cancun_eq : obs_rawcall_venom_cancun = map (fun key => (key, exp_rawcall_venom key)) raw_family.
Proof. vm_compute. reflexivity. Qed.
Lemma obs_rawcall_venom_london_eq : obs_rawcall_venom_london = map (fun key => (key, exp_rawcall_venom key)) raw_family_london.
Proof. vm_compute. reflexivity. Qed.
Lemma obs_create_venom_cancun_eq : obs_create_venom_cancun = map (fun key => (key, exp_create_venom key)) create_family.
Proof. vm_compute. reflexivity. Qed.
Lemma obs_create_venom_london_eq : obs_create_venom_london = map (fun key => (key, exp_create_venom key)) create_family_london.
Proof. vm_compute. reflexivity. Qed.

Definition m_ok (key : rkey) : bool := match key with (_, M, _, _, _) => (0 <=? M) && (M <? WW) end.
Lemma raw_family_m_ok : forallb m_ok raw_family = true.
Proof. vm_compute. reflexivity. Qed.
Lemma m_ok_in : forall k M R hv hg, In (k, M, R, hv, hg) raw_family -> 0 <= M < WW.
Proof.
  intros k M R hv hg H. pose proof raw_family_m_ok as F. rewrite forallb_forall in F. specialize (F _ H).
  unfold m_ok in F. apply andb_prop in F. destruct F as [F1 F2]. apply Z.leb_le in F1. apply Z.ltb_lt in F2. split; assumption.
Qed.
Lemma london_sub : forall key, In key raw_family_london -> In key raw_family.
Proof. intros key H. unfold raw_family_london in H. apply filter_In in H. exact (proj1 H). Qed.
Lemma london_sub_c : forall key, In key create_family_london -> In key create_family.
Proof. intros key H. unfold create_family_london in H. apply filter_In in H. exact (proj1 H). Qed.

Definition rawcall_legacy_sites_ok (obs : list (rkey * sx)) (fam : list rkey) : Prop :=
  map fst obs = fam /\
  forall k M R hv hg e, In ((k, M, R, hv, hg), e) obs -> legacy_rawcall_ok e k M R hv.
Definition rawcall_venom_sites_ok (obs : list (rkey * vsite)) (fam : list rkey) : Prop :=
  map fst obs = fam /\
  forall k M R hv hg v, In ((k, M, R, hv, hg), v) obs -> venom_rawcall_ok v k M R (if hv then 777 else 0).
Definition create_legacy_sites_ok (obs : list (ckey * sx)) (fam : list ckey) : Prop :=
  map fst obs = fam /\
  forall b salt R hv e, In ((b, salt, R, hv), e) obs -> legacy_create_ok e salt R hv.
Definition create_venom_sites_ok (obs : list (ckey * vsite)) (fam : list ckey) : Prop :=
  map fst obs = fam /\
  forall b salt R hv v, In ((b, salt, R, hv), v) obs -> venom_create_ok v salt R (if hv then 777 else 0) 999.

Lemma map_fst_pair : forall (A B : Type) (f : A -> B) (l : list A), map fst (map (fun x => (x, f x)) l) = l.
Proof. intros. induction l; simpl; congruence. Qed.

Lemma rawcall_legacy_tie : rawcall_legacy_sites_ok obs_rawcall_legacy raw_family.
Proof.
  rewrite obs_rawcall_legacy_eq. split; [apply map_fst_pair|].
  intros k M R hv hg e H. apply in_map_iff in H. destruct H as [key [E Hin]]. inversion E; subst.
  apply gen_rawcall_legacy_ok. eapply m_ok_in; exact Hin.
Qed.
Lemma rawcall_venom_tie_gen : forall fam, (forall key, In key fam -> In key raw_family) ->
  rawcall_venom_sites_ok (map (fun key => (key, exp_rawcall_venom key)) fam) fam.
Proof.
  intros fam Hsub. split; [apply map_fst_pair|].
  intros k M R hv hg v H. apply in_map_iff in H. destruct H as [key [E Hin]]. inversion E; subst.
  apply gen_rawcall_venom_ok. eapply m_ok_in. apply Hsub. exact Hin.
Qed.
Lemma create_legacy_tie : create_legacy_sites_ok obs_create_use_legacy create_family.
Proof.
  rewrite obs_create_use_legacy_eq. split.
  - apply map_fst_pair.
  - intros b salt R hv e H. apply in_map_iff in H. destruct H as [[[[b' s'] r'] h'] [E Hin]]. inversion E; subst.
    apply gen_create_legacy_ok.
Qed.
Lemma create_ir_tie : forall salt R e, In ((salt, R), e) obs_create_ir_legacy -> legacy_create_ok e salt R true.
Proof.
  intros salt R e H. rewrite obs_create_ir_legacy_eq in H. apply in_map_iff in H. destruct H as [[s r] [E _]].
  inversion E; subst. apply gen_create_legacy_ok.
Qed.
Lemma create_venom_tie_gen : forall fam, create_venom_sites_ok (map (fun key => (key, exp_create_venom key)) fam) fam.
Proof.
  intros fam. split; [apply map_fst_pair|].
  intros b salt R hv v H. apply in_map_iff in H. destruct H as [[[[b' s'] r'] h'] [E Hin]]. inversion E; subst.
  apply gen_create_venom_ok.
Qed.

Lemma usesite_spec_thm :
  rawcall_legacy_sites_ok obs_rawcall_legacy raw_family /\
  rawcall_venom_sites_ok obs_rawcall_venom_cancun raw_family /\
  rawcall_venom_sites_ok obs_rawcall_venom_london raw_family_london /\
  (forall salt R e, In ((salt, R), e) obs_create_ir_legacy -> legacy_create_ok e salt R true) /\
  List.length obs_create_ir_legacy = 4%nat /\
  create_legacy_sites_ok obs_create_use_legacy create_family /\
  create_venom_sites_ok obs_create_venom_cancun create_family /\
  create_venom_sites_ok obs_create_venom_london create_family_london.
Proof.
  rewrite obs_rawcall_venom_cancun_eq, obs_rawcall_venom_london_eq, obs_create_venom_cancun_eq, obs_create_venom_london_eq.
  refine (conj rawcall_legacy_tie (conj _ (conj _ (conj create_ir_tie (conj _ (conj create_legacy_tie (conj _ _))))))).
  - apply rawcall_venom_tie_gen. auto.
  - apply rawcall_venom_tie_gen. apply london_sub.
  - rewrite obs_create_ir_legacy_eq. reflexivity.
  - apply create_venom_tie_gen.
  - apply create_venom_tie_gen.
Qed.
