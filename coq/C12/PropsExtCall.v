(* C12 property theorems.  Model: ExtCall.v; proofs: ExtCallProofs.v. *)
From Coq Require Import ZArith List Bool.
From Verif Require Import C12.ExtCall C12.ExtCallProofs.
Import ListNotations.
Open Scope Z_scope.

(* calling an address without code reverts unless skip_contract_check -- for every return type
   (incl. with default_return_value): without a return type by the extcodesize check before the
   call, with one because empty returndata is shorter than static_size > 0 *)
Theorem no_code_reverts : forall kw m ret o,
  has_code o = false -> (forall st v, result o st v = Success []) -> kw_skip kw = false ->
  match ret with Some tys => tys <> [] | None => True end ->
  ext_call kw m ret o = Revert [].
Proof. exact no_code_reverts_thm. Qed.
Print Assumptions no_code_reverts.

Theorem failure_propagates_exact : forall kw m ret o rd,
  result o (call_opcode m) (call_value m kw) = Failure rd ->
  (ret = None -> kw_skip kw = true \/ has_code o = true) ->
  ext_call kw m ret o = Revert rd.
Proof. exact failure_propagates_exact_thm. Qed.
Print Assumptions failure_propagates_exact.

Theorem short_returndata_reverts : forall kw m tys o rd,
  result o (call_opcode m) (call_value m kw) = Success rd ->
  len rd < static_size tys -> (kw_default kw = None \/ len rd <> 0) ->
  ext_call kw m (Some tys) o = Revert [].
Proof. exact short_returndata_reverts_thm. Qed.
Print Assumptions short_returndata_reverts.

Theorem bad_value_reverts : forall kw m tys o rd,
  result o (call_opcode m) (call_value m kw) = Success rd ->
  decode tys rd 0 = None -> (kw_default kw = None \/ len rd <> 0) ->
  ext_call kw m (Some tys) o = Revert [].
Proof. exact bad_value_reverts_thm. Qed.
Print Assumptions bad_value_reverts.

(* every Ok result is either the default on exactly-empty returndata from a checked target, or the
   in-range decoding of long-enough returndata *)
Theorem ok_characterisation : forall kw m tys o l,
  ext_call kw m (Some tys) o = Ok l ->
  exists rd, result o (call_opcode m) (call_value m kw) = Success rd /\
   ((len rd = 0 /\ kw_default kw = Some l /\ (kw_skip kw = true \/ has_code o = true)) \/
    ((kw_default kw = None \/ len rd <> 0) /\ static_size tys <= len rd /\ decode tys rd 0 = Some l /\
     Forall2 (fun t w => in_range t w = true) tys l)).
Proof. exact ok_characterisation_thm. Qed.
Print Assumptions ok_characterisation.

Theorem default_only_on_empty : forall kw m tys o rd l,
  result o (call_opcode m) (call_value m kw) = Success rd -> len rd <> 0 ->
  ext_call kw m (Some tys) o = Ok l -> decode tys rd 0 = Some l.
Proof. exact default_only_on_empty_thm. Qed.
Print Assumptions default_only_on_empty.

Theorem no_return_ok : forall kw m o,
  ext_call kw m None o = Ok [] <->
  ((kw_skip kw = true \/ has_code o = true) /\ exists rd, result o (call_opcode m) (call_value m kw) = Success rd).
Proof. exact no_return_ok_thm. Qed.

Theorem static_for_view_pure : forall m kw,
  (call_opcode m = true <-> (m = Pure \/ m = ViewM)) /\
  (call_opcode m = true -> call_value m kw = 0) /\
  (call_opcode m = false -> call_value m kw = kw_value kw).
Proof. exact static_for_view_pure_thm. Qed.
Print Assumptions static_for_view_pure.

Theorem rawcall_truncates_to_max : forall M R st v o f n resp,
  raw_call M R st v o = Ok (f :: n :: resp) ->
  n = len resp /\ len resp <= Z.max 0 M /\
  exists rd, (result o st (if st then 0 else v) = Success rd \/ result o st (if st then 0 else v) = Failure rd) /\
             resp = firstn (Z.to_nat M) rd /\ (len rd <= M -> resp = rd).
Proof. exact rawcall_truncates_to_max_thm. Qed.
Print Assumptions rawcall_truncates_to_max.

Theorem rawcall_flag_semantics : forall M R st v o rd,
  (result o st (if st then 0 else v) = Failure rd -> R = true -> raw_call M R st v o = Revert rd) /\
  (result o st (if st then 0 else v) = Failure rd -> R = false ->
     raw_call M R st v o = Ok (0 :: len (truncate M rd) :: truncate M rd)) /\
  (result o st (if st then 0 else v) = Success rd ->
     raw_call M R st v o = Ok (1 :: len (truncate M rd) :: truncate M rd)).
Proof. exact rawcall_flag_semantics_thm. Qed.

(* non-vacuity *)
Definition w32 (v : Z) : bytes := word_bytes 32 v [].
Example ex_ok : ext_call (mkKw false None 0) Nonpayable (Some [TUint 8; TBool]) (scripted_callee true 0 (w32 255 ++ w32 1)) = Ok [255; 1].
Proof. vm_compute. reflexivity. Qed.
Example ex_bad : ext_call (mkKw false None 0) Nonpayable (Some [TUint 8; TBool]) (scripted_callee true 0 (w32 256 ++ w32 1)) = Revert [].
Proof. vm_compute. reflexivity. Qed.
Example ex_default : ext_call (mkKw false (Some [7]) 0) ViewM (Some [TUint 256]) (scripted_callee true 0 []) = Ok [7]
  /\ ext_call (mkKw false (Some [7]) 0) ViewM (Some [TUint 256]) (scripted_callee false 0 []) = Revert []
  /\ ext_call (mkKw true (Some [7]) 0) ViewM (Some [TUint 256]) (scripted_callee false 0 []) = Ok [7].
Proof. vm_compute. repeat split; reflexivity. Qed.
Example ex_static : ext_call (mkKw false None 0) ViewM (Some [TUint 256]) (scripted_callee true 3 (w32 5)) = Revert []
  /\ ext_call (mkKw false None 0) Nonpayable (Some [TUint 256]) (scripted_callee true 3 (w32 5)) = Ok [5].
Proof. vm_compute. split; reflexivity. Qed.
