(* C12 property theorems: create_from_blueprint fails closed on a blueprint that holds no initcode. *)
From Coq Require Import ZArith List Bool String.
From Verif Require Import C12.CallTpl C12.BpGuard C12.BpGuardProofs.
Import ListNotations.
Open Scope string_scope.
Open Scope Z_scope.

(* the site reverts iff code_offset >= extcodesize(target): for EVERY uint256 code_offset and every environment E
   (constructor-argument length, salt, value ... are leaves of E and do not matter) *)
Theorem blueprint_guard_exact : forall off E o,
  gev off E = Some o -> 0 <= g_codesize E < BW -> 0 <= o < BW ->
  run_guards [gen_bp_guard off] E = Some (bp_must_revert (g_codesize E) o).
Proof. exact guard_exact. Qed.
Print Assumptions blueprint_guard_exact.

(* regression witnesses about the SIGNED template sgt(extcodesize - code_offset, 0) emitted before /repo 0e3d467:
   it reverts exactly on codesize <= code_offset <= codesize + 2^255 ... *)
Theorem signed_guard_characterisation : forall off E o,
  gev off E = Some o -> 0 <= g_codesize E < BHALF -> 0 <= o < BW ->
  run_guards [gen_bp_guard_signed off] E = Some ((g_codesize E <=? o) && (o <=? g_codesize E + BHALF)).
Proof. exact signed_guard_char. Qed.
Print Assumptions signed_guard_characterisation.

(* ... hence the documented rule is refuted for it: the signed difference wraps for code_offset > codesize + 2^255
   (replayed on the pre-fix implementation: finding C12:blueprint-code_offset-wraps, fixed) *)
Theorem signed_guard_refuted : exists off E o,
  gev off E = Some o /\ 0 <= g_codesize E < BHALF /\ 0 <= o < BW /\
  bp_must_revert (g_codesize E) o = true /\ run_guards [gen_bp_guard_signed off] E = Some false.
Proof.
  exists (SN "ofs_sym" []), (mkGE 0 (fun _ => BW - 1)), (BW - 1).
  repeat split; vm_compute; congruence.
Qed.
Print Assumptions signed_guard_refuted.

(* non-vacuity: code_offset = codesize with 32 bytes of constructor arguments reverts; one byte of initcode passes;
   code_offset = 2^256-1 reverts; a split guard (offset test, then non-emptiness of codesize + args_len) does NOT revert on
   code_offset = codesize *)
Example blueprint_guard_examples :
  let E := mkGE 3 (fun s => if String.eqb s "ofs_sym" then 3 else if String.eqb s "args_len" then 32 else if String.eqb s "max" then BW - 1 else 0) in
  run_guards [gen_bp_guard (SN "ofs_sym" [])] E = Some true /\
  run_guards [gen_bp_guard (SL 2)] E = Some false /\
  run_guards [gen_bp_guard (SN "max" [])] E = Some true /\
  run_guards [SN "ge" [SN "extcodesize" [SN "to_sym" []]; SN "ofs_sym" []];
              SN "add" [SN "sub" [SN "extcodesize" [SN "to_sym" []]; SN "ofs_sym" []]; SN "args_len" []]] E = Some false.
Proof. repeat split; vm_compute; reflexivity. Qed.
