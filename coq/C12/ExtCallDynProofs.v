(* C12 proofs for dynamic return types. *)
From Coq Require Import ZArith List Bool Lia.
From Verif Require Import C12.ExtCall C06.Abi C05.Dec C05.DecProofs C12.ExtCallDyn.
Import ListNotations.
Open Scope Z_scope.

Definition hi_of (t : ty) (rd : list Z) : Z := Z.min (zlen rd) (size_bound t).
Definition payload_of (t : ty) (rd : list Z) : list Z := firstn (Z.to_nat (hi_of t rd)) rd.

Lemma accept_ret_some : forall t rd v, accept_ret t rd = Some v ->
  static_size t <= zlen rd /\ inb t (payload_of t rd) 0 (hi_of t rd) = true /\ dec_at t (payload_of t rd) 0 = Some v.
Proof.
  intros t rd v H. unfold accept_ret in H. fold (hi_of t rd) in H. fold (payload_of t rd) in H.
  destruct (Z.ltb_spec (zlen rd) (static_size t)); [discriminate|].
  destruct (inb t (payload_of t rd) 0 (hi_of t rd)); [|discriminate]. repeat split; auto; lia.
Qed.

Lemma dyn_failure_propagates_exact_thm : forall skip dflt value m t o rd,
  result o (call_opcode m) (if is_static m then 0 else value) = Failure rd ->
  ext_call_dyn skip dflt value m t o = DRevert rd.
Proof. intros. unfold ext_call_dyn. rewrite H. reflexivity. Qed.

Lemma dyn_short_returndata_reverts_thm : forall skip dflt value m t o rd,
  result o (call_opcode m) (if is_static m then 0 else value) = Success rd ->
  zlen rd < static_size t -> (dflt = None \/ zlen rd <> 0) ->
  ext_call_dyn skip dflt value m t o = DRevert [].
Proof.
  intros skip dflt value m t o rd Hr Hl Hd. unfold ext_call_dyn. rewrite Hr.
  assert (A : accept_ret t rd = None).
  { unfold accept_ret. destruct (Z.ltb_spec (zlen rd) (static_size t)); [reflexivity|lia]. }
  rewrite A. destruct dflt; [|reflexivity].
  destruct Hd as [Hd|Hd]; [discriminate|]. destruct (Z.eqb_spec (zlen rd) 0); [contradiction|reflexivity].
Qed.

Lemma dyn_no_code_reverts_thm : forall skip dflt value m t o,
  has_code o = false -> (forall st v, result o st v = Success []) -> skip = false -> 0 < static_size t ->
  ext_call_dyn skip dflt value m t o = DRevert [].
Proof.
  intros skip dflt value m t o Hc Hr Hs Hp. unfold ext_call_dyn. rewrite Hr, Hc, Hs. simpl.
  destruct dflt; [reflexivity|].
  unfold accept_ret. change (zlen []) with 0. destruct (Z.ltb_spec 0 (static_size t)); [reflexivity|lia].
Qed.

Lemma dyn_ok_characterisation_thm : forall skip dflt value m t o v,
  ext_call_dyn skip dflt value m t o = DOk v ->
  exists rd, result o (call_opcode m) (if is_static m then 0 else value) = Success rd /\
   ((zlen rd = 0 /\ dflt = Some v /\ (skip = true \/ has_code o = true)) \/
    ((dflt = None \/ zlen rd <> 0) /\ static_size t <= zlen rd /\
     inb t (payload_of t rd) 0 (hi_of t rd) = true /\ dec_at t (payload_of t rd) 0 = Some v)).
Proof.
  intros skip dflt value m t o v H. unfold ext_call_dyn in H.
  destruct (result o (call_opcode m) (if is_static m then 0 else value)) as [rd|rd]; [|discriminate].
  exists rd. split; [reflexivity|].
  destruct dflt as [d|].
  - destruct (Z.eqb_spec (zlen rd) 0).
    + left. destruct skip; destruct (has_code o); simpl in H; try discriminate; inversion H; subst; auto.
    + right. destruct (accept_ret t rd) as [v'|] eqn:A; [|discriminate]. inversion H; subst.
      destruct (accept_ret_some _ _ _ A) as [A1 [A2 A3]]. auto.
  - right. destruct (accept_ret t rd) as [v'|] eqn:A; [|discriminate]. inversion H; subst.
    destruct (accept_ret_some _ _ _ A) as [A1 [A2 A3]]. auto.
Qed.

Lemma bytes_ok_firstn : forall n bs, bytes_ok bs -> bytes_ok (firstn n bs).
Proof. intros. unfold bytes_ok in *. apply forallb_firstn. assumption. Qed.

(* every value handed to the program lies in the declared type: lengths within bounds, scalars in range *)
Lemma dyn_ok_in_type_thm : forall skip dflt value m t o v rd,
  wf_ty t = true ->
  result o (call_opcode m) (if is_static m then 0 else value) = Success rd -> bytes_ok rd ->
  (forall d, dflt = Some d -> in_type t d = true) ->
  ext_call_dyn skip dflt value m t o = DOk v -> in_type t v = true.
Proof.
  intros skip dflt value m t o v rd Hwf Hr Hb Hd H.
  destruct (dyn_ok_characterisation_thm _ _ _ _ _ _ _ H) as [rd' [Hr' [[_ [D _]]|[_ [_ [_ D]]]]]].
  - apply Hd; exact D.
  - rewrite Hr in Hr'. inversion Hr'; subst rd'.
    apply (dec_sound_g Z.add t (payload_of t rd) Hwf (bytes_ok_firstn _ _ Hb) 0 v D).
Qed.

(* ---- concrete shapes: a single byte string / dynamic array result ---- *)
Lemma bytes_ret_spec : forall b ret v, 0 <= b ->
  accept_ret (TTuple [TBytes b]) ret = Some v ->
  let p := payload_of (TTuple [TBytes b]) ret in
  let h := hi_of (TTuple [TBytes b]) ret in
  let off := Abi.rd p 0 in let n := Abi.rd p off in
  32 <= zlen ret /\ n <= b /\ off + 32 + n <= h /\ v = VList [VBytes (slice p (off + 32) n)].
Proof.
  intros b ret v Hb H. destruct (accept_ret_some _ _ _ H) as [A1 [A2 A3]].
  set (p := payload_of (TTuple [TBytes b]) ret) in *. set (h := hi_of (TTuple [TBytes b]) ret) in *.
  cbn [inb inb_seq map is_dynamic emb_static] in A2.
  unfold dec_at in A3. cbn [dec_at_g map is_dynamic emb_static run_seq_g opt_list] in A3.
  change (0 + 0) with 0 in *.
  replace (0 + Abi.rd p 0) with (Abi.rd p 0) in * by lia.
  destruct (0 + Abi.static_size (TTuple [TBytes b]) <=? h); [|discriminate].
  destruct (Z.leb_spec (Abi.rd p (Abi.rd p 0)) b); [|discriminate].
  destruct (Z.leb_spec (Abi.rd p 0 + 32 + Abi.rd p (Abi.rd p 0)) h); [|discriminate].
  cbn in A3. inversion A3; subst. cbn in A1. repeat split; auto.
Qed.

Lemma string_ret_spec : forall b ret v, 0 <= b ->
  accept_ret (TTuple [TString b]) ret = Some v ->
  let p := payload_of (TTuple [TString b]) ret in
  let h := hi_of (TTuple [TString b]) ret in
  let off := Abi.rd p 0 in let n := Abi.rd p off in
  32 <= zlen ret /\ n <= b /\ off + 32 + n <= h /\ v = VList [VBytes (slice p (off + 32) n)].
Proof.
  intros b ret v Hb H. destruct (accept_ret_some _ _ _ H) as [A1 [A2 A3]].
  set (p := payload_of (TTuple [TString b]) ret) in *. set (h := hi_of (TTuple [TString b]) ret) in *.
  cbn [inb inb_seq map is_dynamic emb_static] in A2.
  unfold dec_at in A3. cbn [dec_at_g map is_dynamic emb_static run_seq_g opt_list] in A3.
  change (0 + 0) with 0 in *.
  replace (0 + Abi.rd p 0) with (Abi.rd p 0) in * by lia.
  destruct (0 + Abi.static_size (TTuple [TString b]) <=? h); [|discriminate].
  destruct (Z.leb_spec (Abi.rd p (Abi.rd p 0)) b); [|discriminate].
  destruct (Z.leb_spec (Abi.rd p 0 + 32 + Abi.rd p (Abi.rd p 0)) h); [|discriminate].
  cbn in A3. inversion A3; subst. cbn in A1. repeat split; auto.
Qed.

Lemma darr_ret_spec : forall t' b ret v,
  accept_ret (TTuple [TDArr t' b]) ret = Some v ->
  let p := payload_of (TTuple [TDArr t' b]) ret in
  let h := hi_of (TTuple [TDArr t' b]) ret in
  let off := Abi.rd p 0 in let n := Abi.rd p off in
  32 <= zlen ret /\ n <= b /\ off + 32 + n * emb_static t' <= h.
Proof.
  intros t' b ret v H. destruct (accept_ret_some _ _ _ H) as [A1 [A2 _]].
  set (p := payload_of (TTuple [TDArr t' b]) ret) in *. set (h := hi_of (TTuple [TDArr t' b]) ret) in *.
  cbn [inb inb_seq map is_dynamic emb_static] in A2.
  change (0 + 0) with 0 in *.
  replace (0 + Abi.rd p 0) with (Abi.rd p 0) in * by lia.
  destruct (0 + Abi.static_size (TTuple [TDArr t' b]) <=? h); [|discriminate].
  destruct (Z.leb_spec (Abi.rd p (Abi.rd p 0)) b); [|discriminate].
  destruct (Z.leb_spec (Abi.rd p 0 + 32 + Abi.rd p (Abi.rd p 0) * emb_static t') h); [|discriminate].
  cbn in A1. repeat split; auto.
Qed.

Lemma dyn_reject_reverts_thm : forall skip dflt value m t o ret,
  result o (call_opcode m) (if is_static m then 0 else value) = Success ret ->
  accept_ret t ret = None -> (dflt = None \/ zlen ret <> 0) ->
  ext_call_dyn skip dflt value m t o = DRevert [].
Proof.
  intros skip dflt value m t o ret Hr A Hd. unfold ext_call_dyn. rewrite Hr, A.
  destruct dflt; [|reflexivity]. destruct Hd as [Hd|Hd]; [discriminate|].
  destruct (Z.eqb_spec (zlen ret) 0); [contradiction|reflexivity].
Qed.

(* length word above the declared bound, or item footprint outside the returndata / the size bound: revert *)
Lemma dyn_bad_length_or_offset_reverts_thm : forall skip dflt value m o ret b (str : bool),
  0 <= b ->
  let t := TTuple [if str then TString b else TBytes b] in
  let p := payload_of t ret in let h := hi_of t ret in
  let off := Abi.rd p 0 in let n := Abi.rd p off in
  result o (call_opcode m) (if is_static m then 0 else value) = Success ret ->
  (dflt = None \/ zlen ret <> 0) ->
  (b < n \/ h < off + 32 + n) ->
  ext_call_dyn skip dflt value m t o = DRevert [].
Proof.
  intros skip dflt value m o ret b str Hb. destruct str; cbv zeta iota; intros Hr Hd Hbad;
    apply (dyn_reject_reverts_thm _ _ _ _ _ _ _ Hr); try exact Hd;
    match goal with |- accept_ret ?t ret = None => destruct (accept_ret t ret) as [v|] eqn:A; [|reflexivity] end; exfalso.
  - destruct (string_ret_spec b ret v Hb A) as [_ [H1 [H2 _]]]. cbv zeta in H1, H2. lia.
  - destruct (bytes_ret_spec b ret v Hb A) as [_ [H1 [H2 _]]]. cbv zeta in H1, H2. lia.
Qed.

Lemma dyn_darr_bad_count_reverts_thm : forall skip dflt value m o ret t' b,
  let t := TTuple [TDArr t' b] in
  let p := payload_of t ret in let h := hi_of t ret in
  let off := Abi.rd p 0 in let n := Abi.rd p off in
  result o (call_opcode m) (if is_static m then 0 else value) = Success ret ->
  (dflt = None \/ zlen ret <> 0) ->
  (b < n \/ h < off + 32 + n * emb_static t') ->
  ext_call_dyn skip dflt value m t o = DRevert [].
Proof.
  intros skip dflt value m o ret t' b. cbv zeta. intros Hr Hd Hbad.
  apply (dyn_reject_reverts_thm _ _ _ _ _ _ _ Hr); [|exact Hd].
  destruct (accept_ret (TTuple [TDArr t' b]) ret) as [v|] eqn:A; [|reflexivity]. exfalso.
  destruct (darr_ret_spec t' b ret v A) as [_ [H1 H2]]. cbv zeta in H1, H2. lia.
Qed.
