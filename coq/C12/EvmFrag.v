(* C12 extension (session 3): an EVM fragment with storage contexts, and the call / create USE-SITES evaluated in it.

   World: every account has a storage, a code size and (optionally) a behaviour.  A behaviour is an ARBITRARY
   function of the frame it is entered with (owner of the storage it runs on, sender, value, calldata, static flag)
   and of that storage; it answers with success/failure, return bytes and a list of SSTOREs.  This is the adversary.
     CALL          runs the target's behaviour on the TARGET's storage, sender = executing contract
     DELEGATECALL  runs the target's behaviour on the EXECUTING CONTRACT's storage, sender and value inherited
     STATICCALL    as CALL with value 0 and the static flag; any SSTORE attempt under the static flag is an
                   exceptional halt (failure, empty returndata)
   A failed frame leaves the world unchanged.  An address without behaviour answers success with empty data
   (precompiles are accounts with code size 0 AND a behaviour).  CREATE/CREATE2 are an arbitrary function of
   (creator, value, initcode, salt) answering an address or failure returndata.
   Not modelled: nested calls of the callee into other accounts (an effect only writes the frame owner's storage),
   balances, gas.

   Evaluator [ev]: the legacy IR s-expressions (CallTpl.sx) of the builtins' use-sites, with memory (bytes),
   returndata buffer and world.  Venom call sites are evaluated as: operand trees (backward slices of the call's
   operands, same syntax) -> the call opcode -> CallTpl.run_site (the failure handling, already tied) -> the
   store of the capped length.  No proofs in this file. *)
From Coq Require Import ZArith List Bool String.
From Verif Require Import C12.ExtCall C12.Builtins C12.CallTpl.
Import ListNotations.
Open Scope string_scope.
Open Scope Z_scope.
Local Notation "a == b" := (String.eqb a b) (at level 70).

(* ---------------- world ---------------- *)
Definition storage := Z -> Z.
Record frame := mkFrame { f_owner : Z; f_sender : Z; f_value : Z; f_data : list Z; f_static : bool }.
Record effect := mkEff { ef_ok : bool; ef_out : list Z; ef_writes : list (Z * Z) }.
Definition behaviour := frame -> storage -> effect.
Record world := mkWorld { w_beh : Z -> option behaviour; w_size : Z -> Z; w_store : Z -> storage }.
(* the executing contract's own frame *)
Record cctx := mkCtx { c_self : Z; c_sender : Z; c_callvalue : Z; c_static : bool }.

Definition upd (s : storage) (k v : Z) : storage := fun a => if a =? k then v else s a.
Fixpoint apply_writes (ws : list (Z * Z)) (s : storage) : storage :=
  match ws with [] => s | (k, v) :: r => apply_writes r (upd s k v) end.
Definition set_store (w : world) (a : Z) (s : storage) : world :=
  mkWorld (w_beh w) (w_size w) (fun x => if x =? a then s else w_store w x).
Definition no_writes (e : effect) : bool := match ef_writes e with [] => true | _ => false end.

Definition frame_of (c : cctx) (k : ckind) (to value : Z) (data : list Z) : frame :=
  mkFrame (match k with KDelegate => c_self c | _ => to end)
          (match k with KDelegate => c_sender c | _ => c_self c end)
          (match k with KCall => value | KDelegate => c_callvalue c | KStatic => 0 end)
          data
          (c_static c || match k with KStatic => true | _ => false end).

Record callout := mkOut { o_ok : bool; o_rd : list Z; o_world : world }.
Definition exec_call (w : world) (c : cctx) (k : ckind) (to value : Z) (data : list Z) : callout :=
  match w_beh w to with
  | None => mkOut true [] w
  | Some beh =>
    let fr := frame_of c k to value data in
    let e := beh fr (w_store w (f_owner fr)) in
    if f_static fr && negb (no_writes e) then mkOut false [] w
    else if ef_ok e then mkOut true (ef_out e) (set_store w (f_owner fr) (apply_writes (ef_writes e) (w_store w (f_owner fr))))
    else mkOut false (ef_out e) w
  end.

Definition creator := Z -> Z -> list Z -> option Z -> cres.
(* word pushed by CREATE/CREATE2 and the returndata buffer afterwards *)
Definition exec_create (cr : creator) (c : cctx) (value : Z) (initcode : list Z) (salt : option Z) : Z * list Z :=
  match cr (c_self c) value initcode salt with CreateOk a => (a, []) | CreateFail rd => (0, rd) end.

(* ---------------- documented behaviour of the builtins in this world (the specification) ---------------- *)
Inductive obs := OOk (flag : Z) (out : list Z) (w : world) | ORev (rd : list Z) | OStuck.

Definition raw_call_w (k : ckind) (M : Z) (R : bool) (c : cctx) (to value : Z) (data : list Z) (w : world) : obs :=
  let o := exec_call w c k to value data in
  if o_ok o then OOk 1 (truncate M (o_rd o)) (o_world o)
  else if R then ORev (o_rd o) else OOk 0 (truncate M (o_rd o)) (o_world o).

(* raw_create / the CREATE step of every create_* builtin: [OOk addr [] w] | revert with the constructor's data *)
Definition create_w (R : bool) (cr : creator) (c : cctx) (value : Z) (initcode : list Z) (salt : option Z) (w : world) : obs :=
  match cr (c_self c) value initcode salt with
  | CreateOk a => if a =? 0 then (if R then ORev [] else OOk 0 [] w) else OOk a [] w
  | CreateFail rd => if R then ORev rd else OOk 0 [] w
  end.
(* raw_create(bytecode, *args): the initcode is the bytecode followed by the ABI encoding of the arguments *)
Definition raw_create_w (R : bool) (cr : creator) (c : cctx) (value : Z) (bytecode encoded_args : list Z) (salt : option Z)
                        (w : world) : obs :=
  create_w R cr c value (bytecode ++ encoded_args) salt w.

(* ---------------- machine state and evaluator ---------------- *)
Record mst := mkSt { s_mem : mem; s_rd : list Z; s_world : world }.
Record genv := mkG { g_ctx : cctx; g_create : creator; g_sym : string -> option Z }.
Inductive xr := RV (s : mst) (v : Z) | RRev (rd : list Z) | RStuck.
Inductive lr := LV (s : mst) (vs : list Z) | LRev (rd : list Z) | LStuck.

Definition WW := 2 ^ 256.
Definition b2z (b : bool) : Z := if b then 1 else 0.
Definition byte_of (v i : Z) : Z := (v / 256 ^ (31 - i)) mod 256.
Definition mstore (m : mem) (p v : Z) : mem := fun a => if (p <=? a) && (a <? p + 32) then byte_of v (a - p) else m a.
Definition mload (m : mem) (p : Z) : Z := be (mread m p 32) 0.
Definition bytes_at (m : mem) (p : Z) : list Z := mread m (p + 32) (mload m p).

Definition do_call (G : genv) (k : ckind) (to value ap al op os : Z) (s : mst) : xr :=
  let o := exec_call (s_world s) (g_ctx G) k to value (mread (s_mem s) ap al) in
  RV (mkSt (rdcopy (s_mem s) op 0 (Z.min os (blen (o_rd o))) (o_rd o)) (o_rd o) (o_world o)) (b2z (o_ok o)).
Definition do_create (G : genv) (value buf n : Z) (salt : option Z) (s : mst) : xr :=
  let '(a, rd) := exec_create (g_create G) (g_ctx G) value (mread (s_mem s) buf n) salt in
  RV (mkSt (s_mem s) rd (s_world s)) a.

Definition apply_op (G : genv) (op : string) (vs : list Z) (s : mst) : xr :=
  match vs with
  | [] =>
    if op == "returndatasize" then RV s (blen (s_rd s))
    else if op == "pass" then RV s 0
    else match g_sym G op with Some v => RV s v | None => RStuck end
  | [a] =>
    if op == "iszero" then RV s (if a =? 0 then 1 else 0)
    else if op == "mload" then RV s (mload (s_mem s) a)
    else if op == "sload" then RV s (w_store (s_world s) (c_self (g_ctx G)) a)
    else if op == "extcodesize" then RV s (w_size (s_world s) a)
    else if op == "assert" then (if a =? 0 then RRev [] else RV s 0)
    else RStuck
  | [a; b] =>
    if op == "add" then RV s ((a + b) mod WW)
    else if op == "sub" then RV s ((a - b) mod WW)
    else if op == "mul" then RV s ((a * b) mod WW)
    else if op == "xor" then RV s (Z.lxor a b)
    else if op == "lt" then RV s (b2z (a <? b))
    else if op == "gt" then RV s (b2z (b <? a))
    else if op == "mstore" then RV (mkSt (mstore (s_mem s) a b) (s_rd s) (s_world s)) 0
    else if op == "revert" then RRev (mread (s_mem s) a b)
    else RStuck
  | [a; b; c] =>
    if op == "select" then RV s (if a =? 0 then c else b)
    else if op == "returndatacopy" then
      (if blen (s_rd s) <? b + c then RRev [] else RV (mkSt (rdcopy (s_mem s) a b c (s_rd s)) (s_rd s) (s_world s)) 0)
    else if op == "create" then do_create G a b c None s
    else RStuck
  | [a; b; c; d] => if op == "create2" then do_create G a b c (Some d) s else RStuck
  | [g; t; ap; al; op_; os] =>
    if op == "staticcall" then do_call G KStatic t 0 ap al op_ os s
    else if op == "delegatecall" then do_call G KDelegate t 0 ap al op_ os s
    else RStuck
  | [g; t; v; ap; al; op_; os] => if op == "call" then do_call G KCall t v ap al op_ os s else RStuck
  | _ => RStuck
  end.

Fixpoint vlook (e : list (string * Z)) (x : string) : option Z :=
  match e with [] => None | (y, v) :: r => if x == y then Some v else vlook r x end.

Fixpoint ev (G : genv) (e : sx) (env : list (string * Z)) (s : mst) {struct e} : xr :=
  match e with
  | SL n => RV s n
  | SN op args =>
    let evl := (fix evl (l : list sx) (s : mst) (acc : list Z) {struct l} : lr :=
                  match l with
                  | [] => LV s (rev acc)
                  | a :: r => match ev G a env s with RV s' v => evl r s' (v :: acc) | RRev rd => LRev rd | RStuck => LStuck end
                  end) in
    if op == "unique_symbol" then RV s 0
    else if op == "with" then
      match args with
      | [SN x []; a; b] => match ev G a env s with RV s1 v => ev G b ((x, v) :: env) s1 | r => r end
      | _ => RStuck
      end
    else if op == "if" then
      match args with
      | [c; t] => match ev G c env s with RV s1 v => if v =? 0 then RV s1 0 else ev G t env s1 | r => r end
      | [c; t; f] => match ev G c env s with RV s1 v => if v =? 0 then ev G f env s1 else ev G t env s1 | r => r end
      | _ => RStuck
      end
    else if op == "seq" then
      match evl args s [] with LV s1 vs => RV s1 (last vs 0) | LRev rd => RRev rd | LStuck => RStuck end
    else
      match args, vlook env op with
      | [], Some v => RV s v
      | _, _ => match evl args s [] with LV s1 vs => apply_op G op vs s1 | LRev rd => RRev rd | LStuck => RStuck end
      end
  end.

(* value of a builtin expression: one value, or the two members of a `multi` *)
Inductive tv := TV (s : mst) (vs : list Z) | TRev (rd : list Z) | TStuck.
Definition ev1 (G : genv) (e : sx) (s : mst) : tv :=
  match ev G e [] s with RV s1 v => TV s1 [v] | RRev rd => TRev rd | RStuck => TStuck end.
Definition ev_top (G : genv) (e : sx) (s : mst) : tv :=
  match e with
  | SN op [a; b] =>
    if op == "multi" then
      match ev G a [] s with
      | RV s1 v1 => match ev G b [] s1 with RV s2 v2 => TV s2 [v1; v2] | RRev rd => TRev rd | RStuck => TStuck end
      | RRev rd => TRev rd | RStuck => TStuck
      end
    else ev1 G e s
  | _ => ev1 G e s
  end.

(* how the caller reads the value of raw_call(max_outsize=M, revert_on_failure=R) *)
Definition observe (M : Z) (R : bool) (t : tv) : obs :=
  match t with
  | TRev rd => ORev rd
  | TStuck => OStuck
  | TV s vs =>
    match 0 <? M, R, vs with
    | true, true, [p] => OOk 1 (bytes_at (s_mem s) p) (s_world s)
    | true, false, [f; p] => OOk f (bytes_at (s_mem s) p) (s_world s)
    | false, true, [_] => OOk 1 [] (s_world s)
    | false, false, [f] => OOk f [] (s_world s)
    | _, _, _ => OStuck
    end
  end.
Definition observe_create (t : tv) : obs :=
  match t with TRev rd => ORev rd | TStuck => OStuck | TV s [a] => OOk a [] (s_world s) | TV _ _ => OStuck end.

(* ---------------- venom call sites ---------------- *)
Record vsite := mkVS {
  vs_op : string;               (* call staticcall delegatecall create create2 *)
  vs_args : list sx;            (* operand trees, printed order (gas to [value] argsptr argslen outptr outsize | value buf len [salt]) *)
  vs_site : site;               (* CallTpl site: guard / uses of the result / jnz / failure block *)
  vs_len : option (sx * sx);    (* the store of the capped response length: (pointer tree, value tree) *)
  vs_flag : bool;               (* the builtin's value includes the success flag (revert_on_failure=False) *)
}.
Definition run_vsite (G : genv) (v : vsite) (fail_ptr target : Z) (s : mst) : tv :=
  match ev G (SN (vs_op v) (vs_args v)) [] s with
  | RRev rd => TRev rd
  | RStuck => TStuck
  | RV s1 r =>
    match run_site (vs_site v) (mkEnv (s_rd s1) r target (w_size (s_world s1)) fail_ptr) (s_mem s1) with
    | Rev rd => TRev rd
    | Stuck => TStuck
    | Cont m =>
      let s2 := mkSt m (s_rd s1) (s_world s1) in
      match vs_len v with
      | None => TV s2 [r]
      | Some (p, x) =>
        match ev G p [] s2 with
        | RV s3 pv => match ev G (SN "mstore" [p; x]) [] s3 with
                      | RV s4 _ => TV s4 (if vs_flag v then [r; pv] else [pv])
                      | RRev rd => TRev rd | RStuck => TStuck end
        | RRev rd => TRev rd | RStuck => TStuck
        end
      end
    end
  end.

(* ---------------- generators (Coq re-statements of what the compiler emits) ---------------- *)
Definition sym (x : string) : sx := SN x [].
Definition kind_op (k : ckind) : string := match k with KCall => "call" | KStatic => "staticcall" | KDelegate => "delegatecall" end.
Definition call_node (k : ckind) (g t v ap al op_ os : sx) : sx :=
  match k with KCall => SN "call" [g; t; v; ap; al; op_; os] | _ => SN (kind_op k) [g; t; ap; al; op_; os] end.
Definition propagate : sx :=
  SN "seq" [SN "returndatacopy" [SL 0; SL 0; sym "returndatasize"]; SN "revert" [SL 0; sym "returndatasize"]].

(* RawCall.build_IR on symbolic operands; [buf] is the internal variable holding the response;
   without gas= the GAS opcode is cached in `_gas` *)
Definition gen_rawcall_legacy (k : ckind) (M : Z) (R : bool) (hg : bool) (v : sx) (buf : Z) : sx :=
  let inner :=
    SN "with" [sym "arg_buf"; sym "data_sym";
      SN "seq" [SN "unique_symbol" [];
                call_node k (if hg then sym "gas_sym" else sym "_gas") (sym "to_sym") v
                          (SN "add" [sym "arg_buf"; SL 32]) (SN "mload" [sym "arg_buf"])
                          (if M =? 0 then SL 0 else SN "add" [SL buf; SL 32]) (SL M)]] in
  let call_ir := if hg then inner else SN "with" [sym "_gas"; sym "gas"; inner] in
  let store_size :=
    SN "seq" [SN "mstore" [SL buf; SN "select" [SN "lt" [SL M; sym "returndatasize"]; SL M; sym "returndatasize"]]; SL buf] in
  if M =? 0 then (if R then SN "if" [SN "iszero" [call_ir]; propagate] else call_ir)
  else if R then SN "seq" [SN "if" [SN "iszero" [call_ir]; propagate]; store_size]
  else SN "multi" [call_ir; store_size].

(* _create_ir(value, buf, length, salt, revert_on_failure) on symbolic operands *)
Definition gen_create_legacy (salt : option sx) (R : bool) (v b n : sx) : sx :=
  let op := SN "seq" [SN "unique_symbol" [];
                      match salt with None => SN "create" [v; b; n] | Some sl => SN "create2" [v; b; n; sl] end] in
  if R then SN "with" [sym "addr"; op; SN "seq" [SN "if" [SN "iszero" [sym "addr"]; propagate]; sym "addr"]]
  else op.

(* lower_raw_call: data in alloca1, response in alloca2 *)
Definition cap_tree (M : Z) : sx :=
  SN "xor" [SL M; SN "mul" [SN "lt" [sym "returndatasize"; SL M]; SN "xor" [sym "returndatasize"; SL M]]].
Definition gen_rawcall_venom (k : ckind) (M : Z) (R : bool) (g v : sx) : vsite :=
  mkVS (kind_op k)
       (match k with
        | KCall => [g; sym "to_sym"; v; SN "add" [sym "alloca1"; SL 32]; SN "mload" [sym "alloca1"];
                    (if M =? 0 then sym "alloca2" else SN "add" [sym "alloca2"; SL 32]); SL M]
        | _ => [g; sym "to_sym"; SN "add" [sym "alloca1"; SL 32]; SN "mload" [sym "alloca1"];
                (if M =? 0 then sym "alloca2" else SN "add" [sym "alloca2"; SL 32]); SL M]
        end)
       (gen_site (if R then KProp else KNoProp) (kind_op k))
       (if M =? 0 then None else Some (sym "alloca2", cap_tree M))
       (negb R).
Definition gen_create_venom (salt : option sx) (R : bool) (v b n : sx) : vsite :=
  mkVS (match salt with None => "create" | Some _ => "create2" end)
       (match salt with None => [v; b; n] | Some sl => [v; b; n; sl] end)
       (gen_site (if R then KProp else KNoProp) (match salt with None => "create" | Some _ => "create2" end))
       None false.

(* symbol table of the use-site theorems *)
Record syms := mkSyms { y_to : Z; y_gas : Z; y_gasleft : Z; y_value : Z; y_data : Z; y_out : Z; y_buf : Z; y_len : Z; y_salt : Z }.
Definition symtab (y : syms) (x : string) : option Z :=
  if x == "to_sym" then Some (y_to y) else if x == "gas_sym" then Some (y_gas y) else if x == "gas" then Some (y_gasleft y)
  else if x == "value_sym" then Some (y_value y) else if x == "data_sym" then Some (y_data y)
  else if x == "alloca1" then Some (y_data y) else if x == "alloca2" then Some (y_out y)
  else if x == "buf_sym" then Some (y_buf y) else if x == "len_sym" then Some (y_len y)
  else if x == "salt_sym" then Some (y_salt y) else None.

(* ---------------- scripted behaviours used by the correspondence runs ---------------- *)
(* the hand-assembled WRITER target (tools/vlib/c12_ext.py): calldata = mode byte ++ slot word ++ value word;
   SSTORE(slot, value) unless mode >= 4; answers with word(old SLOAD(slot)) ++ word(ADDRESS) ++ word(CALLER) ++ word(CALLVALUE);
   mode 0/4 return, mode 1/5 revert with that data, mode 2 INVALID *)
Definition word_of (l : list Z) (i : nat) : Z := be (firstn 32 (skipn i l)) 0.
Definition writer : behaviour := fun fr st =>
  let mode := nth 0 (f_data fr) 0 in
  let slot := word_of (f_data fr) 1 in
  let v := word_of (f_data fr) 33 in
  let out := (word_bytes 32 (st slot) [] ++ word_bytes 32 (f_owner fr) [] ++ word_bytes 32 (f_sender fr) []
              ++ word_bytes 32 (f_value fr) [])%list in
  let ws := if mode <? 4 then [(slot, v)] else [] in
  if (mode =? 2) then mkEff false [] ws
  else if (mode =? 1) || (mode =? 5) then mkEff false out ws
  else mkEff true out ws.
Definition obs_to_list (o : obs) (probe : world -> list Z) : list Z :=
  match o with
  | OOk f out w => (1 :: f :: len out :: out ++ probe w)%list
  | ORev rd => 0 :: rd
  | OStuck => [2]
  end.
