(* C12 extension property theorems: storage contexts of CALL / DELEGATECALL / STATICCALL, raw_call and raw_create in a world
   with arbitrary callee / constructor behaviour, and the generators of the use-sites (both code generators). *)
From Coq Require Import ZArith List Bool String.
From Verif Require Import C12.ExtCall C12.Builtins C12.CallTpl C12.EvmFrag C12.EvmFragProofs.
Import ListNotations.
Open Scope string_scope.
Open Scope list_scope.
Open Scope Z_scope.

(* raw_call(is_delegate_call=True): the target's code runs on the CALLER's storage with the caller's sender / value;
   success commits its writes to the caller's storage, failure leaves the world unchanged and reverts with the exact
   data (revert_on_failure) or yields (False, truncated data) *)
Theorem rawcall_delegate_storage_context : forall w c to v data beh M R,
  w_beh w to = Some beh -> c_static c = false ->
  let e := beh (delegate_frame c data) (w_store w (c_self c)) in
  (ef_ok e = true ->
     raw_call_w KDelegate M R c to v data w
     = OOk 1 (truncate M (ef_out e)) (set_store w (c_self c) (apply_writes (ef_writes e) (w_store w (c_self c))))) /\
  (ef_ok e = false -> raw_call_w KDelegate M R c to v data w = if R then ORev (ef_out e) else OOk 0 (truncate M (ef_out e)) w).
Proof. exact delegate_context_thm. Qed.
Print Assumptions rawcall_delegate_storage_context.

Theorem delegate_other_storage_untouched : forall w c to v data a,
  a <> c_self c -> w_store (o_world (exec_call w c KDelegate to v data)) a = w_store w a.
Proof. exact delegate_other_untouched_thm. Qed.
Print Assumptions delegate_other_storage_untouched.

Theorem call_other_storage_untouched : forall w c to v data a,
  a <> to -> w_store (o_world (exec_call w c KCall to v data)) a = w_store w a.
Proof. exact call_other_untouched_thm. Qed.

(* raw_call(is_static_call=True): no storage changes whatever the callee does; a callee that attempts one fails *)
Theorem rawcall_static_no_state_change : forall w c to v data,
  (forall a, w_store (o_world (exec_call w c KStatic to v data)) a = w_store w a) /\
  (forall beh, w_beh w to = Some beh ->
     no_writes (beh (frame_of c KStatic to v data) (w_store w to)) = false ->
     exec_call w c KStatic to v data = mkOut false [] w).
Proof. exact static_no_state_change_thm. Qed.
Print Assumptions rawcall_static_no_state_change.

Theorem call_failure_rolls_back : forall w c k to v data,
  o_ok (exec_call w c k to v data) = false -> o_world (exec_call w c k to v data) = w.
Proof. exact failure_rolls_back_thm. Qed.

(* the world-level raw_call refines the decision table of Builtins.v (flag, length, truncated bytes | exact revert data) *)
Theorem rawcall_world_refines_table : forall k M R c to v data w,
  raw_call_k k M R v (answer_of w c to data)
  = match raw_call_w k M R c to (match k with KCall => v | _ => 0 end) data w with
    | OOk f out _ => Ok (f :: len out :: out)
    | ORev rd => Revert rd
    | OStuck => Revert []
    end.
Proof. exact rawcall_w_table_thm. Qed.
Print Assumptions rawcall_world_refines_table.

(* raw_create / CREATE step: success gives the address; failure reverts with exactly the constructor's data, or yields 0 *)
Theorem create_world_semantics : forall R cr c v ic salt w,
  match cr (c_self c) v ic salt with
  | CreateOk a => a <> 0 -> create_w R cr c v ic salt w = OOk a [] w
  | CreateFail rd => create_w R cr c v ic salt w = if R then ORev rd else OOk 0 [] w
  end.
Proof. exact create_w_table_thm. Qed.
Print Assumptions create_world_semantics.

(* what the caller reads back is exactly the first max_outsize bytes of the response *)
Theorem response_is_truncation : forall m p M rd, 0 <= M < WW ->
  bytes_at (mstore (rdcopy m (p + 32) 0 (Z.min M (blen rd)) rd) p (Z.min M (blen rd))) p = truncate M rd.
Proof. exact response_read. Qed.
Print Assumptions response_is_truncation.

(* the Coq generators of the use-sites compute the documented behaviour, for every keyword combination, every world /
   callee / constructor behaviour, memory and operand values *)
Theorem rawcall_usesite_generators : 
  (forall k M R hg (hv : bool), 0 <= M < WW ->
     legacy_rawcall_ok (gen_rawcall_legacy k M R hg (if hv then sym "value_sym" else SL 0) 64) k M R hv) /\
  (forall k M R (hg : bool) glit vlit, 0 <= M < WW ->
     venom_rawcall_ok (gen_rawcall_venom k M R (if hg then SL glit else sym "gas") (SL vlit)) k M R vlit).
Proof. split; [exact gen_rawcall_legacy_ok|exact gen_rawcall_venom_ok]. Qed.
Print Assumptions rawcall_usesite_generators.

Theorem create_usesite_generators :
  (forall (salt R hv : bool),
     legacy_create_ok (gen_create_legacy (if salt then Some (sym "salt_sym") else None) R
                                         (if hv then sym "value_sym" else SL 0) (sym "buf_sym") (sym "len_sym")) salt R hv) /\
  (forall (salt R : bool) vlit slit,
     venom_create_ok (gen_create_venom (if salt then Some (SL slit) else None) R (SL vlit) (sym "buf_sym") (sym "len_sym")) salt R vlit slit).
Proof. split; [exact gen_create_legacy_ok|exact gen_create_venom_ok]. Qed.
Print Assumptions create_usesite_generators.

(* non-vacuity: a world where account 7 runs the WRITER; the caller (account 9) delegate-calls it with
   calldata = mode 0, slot 3, value 5: the CALLER's slot 3 becomes 5, account 7's storage stays untouched;
   under STATICCALL the same callee fails; a failing constructor with R = false yields 0 *)
Definition ex_world : world := mkWorld (fun a => if a =? 7 then Some writer else None) (fun _ => 1) (fun _ _ => 0).
Definition ex_ctx : cctx := mkCtx 9 1 0 false.
Definition ex_data : list Z := 0 :: word_bytes 32 3 [] ++ word_bytes 32 5 [].
Example evmfrag_examples :
  (match raw_call_w KDelegate 32 true ex_ctx 7 0 ex_data ex_world with
   | OOk 1 out w => (len out =? 32) && (w_store w 9 3 =? 5) && (w_store w 7 3 =? 0) | _ => false end) = true /\
  (match raw_call_w KCall 32 true ex_ctx 7 0 ex_data ex_world with
   | OOk 1 _ w => (w_store w 9 3 =? 0) && (w_store w 7 3 =? 5) | _ => false end) = true /\
  raw_call_w KStatic 32 true ex_ctx 7 0 ex_data ex_world = ORev [] /\
  (match raw_call_w KStatic 32 false ex_ctx 7 0 ex_data ex_world with OOk 0 [] _ => true | _ => false end) = true /\
  create_w false (fun _ _ _ _ => CreateFail [1; 2]) ex_ctx 0 [] None ex_world = OOk 0 [] ex_world /\
  create_w true (fun _ _ _ _ => CreateFail [1; 2]) ex_ctx 0 [] None ex_world = ORev [1; 2].
Proof. repeat split; vm_compute; reflexivity. Qed.
