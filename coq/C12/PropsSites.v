(* C12 extension O-tie property theorem: the use-sites the compiler emits for raw_call (all call kinds, max_outsize,
   revert_on_failure, value=, gas=) and for the CREATE step of raw_create / create_minimal_proxy_to / create_copy_of /
   create_from_blueprint (salt=, value=, revert_on_failure, raw_args) in BOTH generators compute raw_call_w / create_w,
   for every world, callee / constructor behaviour, memory and operand values. *)
From Coq Require Import ZArith List Bool String.
From Verif Require Import C12.ExtCall C12.Builtins C12.CallTpl C12.EvmFrag C12.EvmFragProofs C12.GenSites C12.TieSites C12.PropsEvmFrag.
Import ListNotations.
Open Scope Z_scope.

Theorem usesite_spec :
  rawcall_legacy_sites_ok obs_rawcall_legacy raw_family /\
  rawcall_venom_sites_ok obs_rawcall_venom_cancun raw_family /\
  rawcall_venom_sites_ok obs_rawcall_venom_london raw_family_london /\
  (forall salt R e, In ((salt, R), e) obs_create_ir_legacy -> legacy_create_ok e salt R true) /\
  List.length obs_create_ir_legacy = 4%nat /\
  create_legacy_sites_ok obs_create_use_legacy create_family /\
  create_venom_sites_ok obs_create_venom_cancun create_family /\
  create_venom_sites_ok obs_create_venom_london create_family_london.
Proof. exact usesite_spec_thm. Qed.
Print Assumptions usesite_spec.

(* non-vacuity: the families are not empty and the observed delegatecall site really commits the callee's write to the
   caller's storage (evaluated on the observed template, not on the generator) *)
Example usesite_examples :
  List.length raw_family = 38%nat /\ List.length create_family = 36%nat /\
  (match find (fun p => match fst p with (KDelegate, 32, true, false, false) => true | _ => false end) obs_rawcall_legacy with
   | Some (_, e) =>
     match observe 32 true (ev_top (mkG ex_ctx (fun _ _ _ _ => CreateFail []) (symtab (mkSyms 7 0 0 0 1000 0 0 0 0))) e
                                   (mkSt (fun a => if a =? 1031 then 65 else if a =? 1032 then 0 else if a =? 1064 then 3 else if a =? 1096 then 5 else 0)
                                         [] PropsEvmFrag.ex_world)) with
     | OOk 1 out w => (w_store w 9 3 =? 5) && (w_store w 7 3 =? 0)
     | _ => false
     end
   | None => false
   end) = true.
Proof. repeat split; vm_compute; reflexivity. Qed.
