(* C12 template tie: evaluators for the failure-handling templates around a message call / create,
   Coq re-statements of the generators, and the lemmas that they compute the model's steps:
     propagate : call result word = 0  ->  revert with exactly the callee's returndata
     codecheck : extcodesize target = 0 ->  revert with empty data (before the call)
     send      : result = 0 -> revert with EMPTY data (no propagation)
   GenCall.v (exported from the real check_external_call / check_create_operation / _extcodesize_check
   and from the raw Venom IR emitted by lower_ExtCall / lower_raw_call / lower_send / _check_create_result)
   is compared with the generators by kernel computation in TieCall.v.  No ExtCall import needed. *)
From Coq Require Import ZArith List Bool String Lia.
Import ListNotations.
Open Scope string_scope.
Open Scope Z_scope.
Local Notation "a == b" := (String.eqb a b) (at level 70).

Definition bytes := list Z.
Definition mem := Z -> Z.
Definition blen (b : bytes) : Z := Z.of_nat (List.length b).

(* environment of the template: what the preceding call/create produced *)
Record cenv := mkEnv {
  e_rd : bytes;        (* RETURNDATA buffer after the call *)
  e_res : Z;           (* word pushed by CALL/STATICCALL/DELEGATECALL (0/1) or CREATE/CREATE2 (address or 0) *)
  e_target : Z;        (* the call target *)
  e_code : Z -> Z;     (* EXTCODESIZE *)
  e_ptr : Z;           (* value returned by venom `alloca` (any address) *)
}.

Definition rdcopy (m : mem) (d s n : Z) (rd : bytes) : mem :=
  fun a => if (d <=? a) && (a <? d + n) then nth (Z.to_nat (a - d + s)) rd 0 else m a.
Definition mread (m : mem) (o n : Z) : bytes :=
  map (fun i => m (o + Z.of_nat i)) (seq 0 (Z.to_nat n)).

Inductive tres := Cont (m : mem) | Rev (rd : bytes) | Stuck.

(* ---------------- legacy s-expressions ---------------- *)
Inductive sx := SL (n : Z) | SN (op : string) (args : list sx).
Inductive xres := XV (m : mem) (v : Z) | XRev (rd : bytes) | XStuck.

Fixpoint evx (e : sx) (E : cenv) (m : mem) {struct e} : xres :=
  match e with
  | SL n => XV m n
  | SN op args =>
    let evs := (fix evs (l : list sx) (m : mem) (last : Z) {struct l} : xres :=
                  match l with
                  | [] => XV m last
                  | a :: r => match evx a E m with XV m' v => evs r m' v | x => x end
                  end) in
    match args with
    | [] =>
      if op == "call_result" then XV m (e_res E)
      else if op == "target" then XV m (e_target E)
      else if op == "returndatasize" then XV m (blen (e_rd E))
      else if op == "pass" then XV m 0
      else if op == "seq" then XV m 0
      else XStuck
    | [a] =>
      if op == "seq" then evx a E m
      else match evx a E m with
      | XV m1 v =>
        if op == "iszero" then XV m1 (if v =? 0 then 1 else 0)
        else if op == "extcodesize" then XV m1 (e_code E v)
        else if op == "assert" then (if v =? 0 then XRev [] else XV m1 0)
        else XStuck
      | x => x
      end
    | [a; b] =>
      if op == "seq" then evs args m 0
      else if op == "if" then
        match evx a E m with
        | XV m1 c => if c =? 0 then XV m1 0 else evx b E m1
        | x => x
        end
      else if op == "revert" then
        match evx a E m with
        | XV m1 o => match evx b E m1 with XV m2 n => XRev (mread m2 o n) | x => x end
        | x => x
        end
      else XStuck
    | [a; b; c] =>
      if op == "seq" then evs args m 0
      else if op == "returndatacopy" then
        match evx a E m with
        | XV m1 d => match evx b E m1 with
          | XV m2 s => match evx c E m2 with
            | XV m3 n => if blen (e_rd E) <? s + n then XRev [] else XV (rdcopy m3 d s n (e_rd E)) 0
            | x => x end
          | x => x end
        | x => x
        end
      else XStuck
    | _ => if op == "seq" then evs args m 0 else XStuck
    end
  end.
Definition ev_tpl (e : sx) (E : cenv) (m : mem) : tres :=
  match evx e E m with XV m' _ => Cont m' | XRev rd => Rev rd | XStuck => Stuck end.

(* ---------------- venom call sites ---------------- *)
Inductive vop := VLit (n : Z) | VVar (n : nat) | VRes | VTarget | VExt.
Record vinst := mkV { v_out : option nat; v_op : string; v_args : list vop }.
Inductive succ := SCont | SBlock (ins : list vinst).       (* successor block: arbitrary continuing code | exported block *)
Inductive vterm := TJnz (c : vop) (nz z : succ) | TFall.   (* TFall: the block simply goes on *)
Record site := mkSite {
  s_op : string;              (* call staticcall delegatecall create create2 *)
  s_guard : list vinst;       (* the instructions immediately before the call that test the target's code size *)
  s_post : list vinst;        (* instructions between the call and the block terminator that use its result *)
  s_term : vterm;
}.

Definition venv := list (nat * Z).
Fixpoint vlookup (e : venv) (x : nat) : option Z :=
  match e with [] => None | (y, v) :: r => if Nat.eqb x y then Some v else vlookup r x end.
Definition opv (E : cenv) (e : venv) (o : vop) : option Z :=
  match o with VLit n => Some n | VVar x => vlookup e x | VRes => Some (e_res E) | VTarget => Some (e_target E) | VExt => None end.

Inductive vres := VC (e : venv) (m : mem) | VR (rd : bytes) | VS.

(* operands in venom's internal order (reverse of the printed order) *)
Definition vstep (i : vinst) (E : cenv) (e : venv) (m : mem) : vres :=
  let op := v_op i in
  let bind v := match v_out i with Some x => VC ((x, v) :: e) m | None => VS end in
  match map (opv E e) (v_args i) with
  | [] => if op == "returndatasize" then bind (blen (e_rd E)) else VS
  | [Some a] =>
    if op == "alloca" then bind (e_ptr E)
    else if op == "extcodesize" then bind (e_code E a)
    else if op == "iszero" then bind (if a =? 0 then 1 else 0)
    else if op == "assert" then match v_out i with None => if a =? 0 then VR [] else VC e m | _ => VS end
    else VS
  | [Some n; Some o] =>
    if op == "revert" then VR (mread m o n) else VS
  | [Some n; Some s; Some d] =>
    if op == "returndatacopy" then
      match v_out i with None => if blen (e_rd E) <? s + n then VR [] else VC e (rdcopy m d s n (e_rd E)) | _ => VS end
    else VS
  | _ => VS
  end.
Fixpoint vrun (l : list vinst) (E : cenv) (e : venv) (m : mem) : vres :=
  match l with
  | [] => VC e m
  | i :: r => match vstep i E e m with VC e' m' => vrun r E e' m' | x => x end
  end.
Definition run_succ (s : succ) (E : cenv) (e : venv) (m : mem) : tres :=
  match s with
  | SCont => Cont m
  | SBlock ins => match vrun ins E e m with VC _ _ => Stuck (* an exported block must terminate *) | VR rd => Rev rd | VS => Stuck end
  end.
(* guard runs before the call (it must not depend on the call's result), post/term after *)
Definition run_site (s : site) (E : cenv) (m : mem) : tres :=
  match vrun (s_guard s) E [] m with
  | VR rd => Rev rd
  | VS => Stuck
  | VC e1 m1 =>
    match vrun (s_post s) E e1 m1 with
    | VR rd => Rev rd
    | VS => Stuck
    | VC e2 m2 =>
      match s_term s with
      | TFall => Cont m2
      | TJnz c nz z =>
        match opv E e2 c with
        | Some v => if v =? 0 then run_succ z E e2 m2 else run_succ nz E e2 m2
        | None => Stuck
        end
      end
    end
  end.

(* ---------------- generators ---------------- *)
Definition gen_propagate_legacy : sx :=
  SN "if" [SN "iszero" [SN "call_result" []];
           SN "seq" [SN "returndatacopy" [SL 0; SL 0; SN "returndatasize" []];
                     SN "revert" [SL 0; SN "returndatasize" []]]].
Definition gen_codecheck_legacy : sx := SN "assert" [SN "extcodesize" [SN "target" []]].

Inductive skind :=
| KPropGuard    (* extcall without return type: code check, then propagate *)
| KProp         (* propagate only: extcall with return type / skip_contract_check / raw_call, create_* with revert_on_failure *)
| KNoProp       (* revert_on_failure=False *)
| KSend.        (* send: assert success *)

Definition fail_block : list vinst :=
  [mkV (Some 1%nat) "returndatasize" []; mkV (Some 2%nat) "alloca" [VLit 0];
   mkV None "returndatacopy" [VVar 1%nat; VLit 0; VVar 2%nat];
   mkV None "revert" [VVar 1%nat; VVar 2%nat]].
Definition guard_ins : list vinst :=
  [mkV (Some 1%nat) "extcodesize" [VTarget]; mkV None "assert" [VVar 1%nat]].
Definition gen_site (k : skind) (op : string) : site :=
  match k with
  | KPropGuard => mkSite op guard_ins [] (TJnz VRes SCont (SBlock fail_block))
  | KProp => mkSite op [] [] (TJnz VRes SCont (SBlock fail_block))
  | KNoProp => mkSite op [] [] TFall
  | KSend => mkSite op [] [mkV None "assert" [VRes]] TFall
  end.

(* ---------------- specs ---------------- *)
Definition propagate_spec (E : cenv) (m : mem) (r : tres) : Prop :=
  if e_res E =? 0 then r = Rev (e_rd E) else exists m', r = Cont m'.
Definition codecheck_spec (E : cenv) (r : tres) : Prop :=
  if e_code E (e_target E) =? 0 then r = Rev [] else exists m', r = Cont m'.

Lemma nth_map_seq : forall (f : nat -> Z) n i, (i < n)%nat -> nth i (map f (seq 0 n)) 0 = f i.
Proof.
  intros f n i Hi. rewrite (nth_indep _ 0 (f 0%nat)) by (rewrite map_length, seq_length; exact Hi).
  rewrite map_nth, seq_nth by exact Hi. reflexivity.
Qed.

Lemma mread_rdcopy : forall m d rd, mread (rdcopy m d 0 (blen rd) rd) d (blen rd) = rd.
Proof.
  intros m d rd. unfold mread, blen. rewrite Nat2Z.id.
  apply nth_ext with (d := 0) (d' := 0).
  - rewrite map_length, seq_length. reflexivity.
  - intros i Hi. rewrite map_length, seq_length in Hi.
    rewrite nth_map_seq by exact Hi.
    unfold rdcopy.
    destruct (Z.leb_spec d (d + Z.of_nat i)); [|lia].
    destruct (Z.ltb_spec (d + Z.of_nat i) (d + Z.of_nat (List.length rd))); [|lia].
    simpl. replace (d + Z.of_nat i - d + 0) with (Z.of_nat i) by lia. rewrite Nat2Z.id. reflexivity.
Qed.

Lemma gen_propagate_legacy_spec : forall E m, propagate_spec E m (ev_tpl gen_propagate_legacy E m).
Proof.
  intros E m. unfold propagate_spec, ev_tpl, gen_propagate_legacy.
  cbn -[Z.eqb Z.ltb rdcopy mread blen].
  destruct (Z.eqb_spec (e_res E) 0) as [H|H].
  - cbn -[Z.ltb rdcopy mread blen].
    match goal with |- context [?a <? ?b] => destruct (Z.ltb_spec a b); [lia|] end.
    cbn -[rdcopy mread blen]. rewrite mread_rdcopy. reflexivity.
  - cbn. eexists; reflexivity.
Qed.

Lemma gen_codecheck_legacy_spec : forall E m, codecheck_spec E (ev_tpl gen_codecheck_legacy E m).
Proof.
  intros E m. unfold codecheck_spec, ev_tpl, gen_codecheck_legacy. cbn -[Z.eqb].
  destruct (Z.eqb_spec (e_code E (e_target E)) 0); [reflexivity|eexists; reflexivity].
Qed.

Lemma fail_block_spec : forall E e m, run_succ (SBlock fail_block) E e m = Rev (e_rd E).
Proof.
  intros E e m. unfold run_succ, fail_block. cbn -[Z.ltb rdcopy mread blen].
  match goal with |- context [?a <? ?b] => destruct (Z.ltb_spec a b); [lia|] end.
  cbn -[rdcopy mread blen]. rewrite mread_rdcopy. reflexivity.
Qed.

Definition site_spec (k : skind) (E : cenv) (m : mem) (r : tres) : Prop :=
  match k with
  | KPropGuard => if e_code E (e_target E) =? 0 then r = Rev []
                  else if e_res E =? 0 then r = Rev (e_rd E) else r = Cont m
  | KProp => if e_res E =? 0 then r = Rev (e_rd E) else r = Cont m
  | KNoProp => r = Cont m
  | KSend => if e_res E =? 0 then r = Rev [] else r = Cont m
  end.

Lemma gen_site_spec : forall k op E m, site_spec k E m (run_site (gen_site k op) E m).
Proof.
  intros k op E m. destruct k; unfold site_spec, gen_site, run_site.
  - cbn -[Z.eqb run_succ fail_block].
    destruct (Z.eqb_spec (e_code E (e_target E)) 0); [reflexivity|].
    cbn -[Z.eqb run_succ fail_block].
    destruct (Z.eqb_spec (e_res E) 0); [apply fail_block_spec|reflexivity].
  - cbn -[Z.eqb run_succ fail_block].
    destruct (Z.eqb_spec (e_res E) 0); [apply fail_block_spec|reflexivity].
  - reflexivity.
  - cbn -[Z.eqb]. destruct (Z.eqb_spec (e_res E) 0); reflexivity.
Qed.
