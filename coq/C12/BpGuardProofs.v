(* C12: proofs about the create_from_blueprint guard (model: BpGuard.v). *)
From Coq Require Import ZArith List Bool String Lia ZifyBool.
From Verif Require Import C12.CallTpl C12.BpGuard.
Import ListNotations.
Open Scope Z_scope.
Ltac Zify.zify_post_hook ::= Z.to_euclidean_division_equations.

Lemma BW_val : BW = 115792089237316195423570985008687907853269984665640564039457584007913129639936.
Proof. reflexivity. Qed.
Lemma BHALF_val : BHALF = 57896044618658097711785492504343953926634992332820282019728792003956564819968.
Proof. reflexivity. Qed.

(* value of the guard expression *)
Lemma signed_guard_value : forall off E o,
  gev off E = Some o ->
  gev (gen_bp_guard_signed off) E = Some (b2z (bsgn 0 <? bsgn ((g_codesize E mod BW - o) mod BW))).
Proof.
  intros off E o H. unfold gen_bp_guard_signed.
  cbn [gev]. rewrite H. cbn [String.eqb Ascii.eqb Bool.eqb gbin].
  change (0 mod BW) with 0. reflexivity.
Qed.

Lemma sgt_sub_char : forall cs o, 0 <= cs < BHALF -> 0 <= o < BW ->
  (bsgn 0 <? bsgn ((cs mod BW - o) mod BW)) = (o <? cs) || (cs + BHALF <? o).
Proof.
  intros cs o Hc Ho. unfold bsgn. pose proof BW_val as Hw. pose proof BHALF_val as Hh.
  assert (Hm : cs mod BW = cs) by (apply Z.mod_small; lia). rewrite Hm.
  assert (H0 : (0 <? BHALF) = true) by (rewrite Hh; reflexivity). rewrite H0.
  destruct (Z.ltb_spec o cs) as [L|L].
  - assert (E1 : (cs - o) mod BW = cs - o) by (apply Z.mod_small; lia). rewrite E1.
    assert (E2 : (cs - o <? BHALF) = true) by (apply Z.ltb_lt; lia). rewrite E2.
    cbn [orb]. apply Z.ltb_lt. lia.
  - destruct (Z.eqb_spec o cs) as [Q|Q].
    + subst o. replace (cs - cs) with 0 by lia. change (0 mod BW) with 0. rewrite H0.
      cbn [orb]. symmetry. apply Z.ltb_ge. lia.
    + assert (E1 : (cs - o) mod BW = cs - o + BW).
      { symmetry. apply Z.mod_unique with (q := -1); lia. }
      rewrite E1. cbn [orb].
      destruct (Z.ltb_spec (cs + BHALF) o) as [M|M].
      * assert (E2 : (cs - o + BW <? BHALF) = true) by (apply Z.ltb_lt; lia). rewrite E2. apply Z.ltb_lt. lia.
      * assert (E2 : (cs - o + BW <? BHALF) = false) by (apply Z.ltb_ge; lia). rewrite E2. apply Z.ltb_ge. lia.
Qed.

(* full characterisation of the emitted guard, every environment (= every constructor-argument length) *)
Lemma signed_guard_char : forall off E o,
  gev off E = Some o -> 0 <= g_codesize E < BHALF -> 0 <= o < BW ->
  run_guards [gen_bp_guard_signed off] E = Some ((g_codesize E <=? o) && (o <=? g_codesize E + BHALF)).
Proof.
  intros off E o H Hc Ho. cbn [run_guards]. rewrite (signed_guard_value off E o H).
  rewrite (sgt_sub_char _ _ Hc Ho).
  destruct (Z.ltb_spec o (g_codesize E)); destruct (Z.ltb_spec (g_codesize E + BHALF) o);
    destruct (Z.leb_spec (g_codesize E) o); destruct (Z.leb_spec o (g_codesize E + BHALF)); cbn; try reflexivity; lia.
Qed.

(* the documented rule, exactly, as long as the signed difference does not wrap (code_offset <= codesize + 2^255) *)
Lemma signed_guard_exact : forall off E o,
  gev off E = Some o -> 0 <= g_codesize E < BHALF -> 0 <= o <= g_codesize E + BHALF ->
  run_guards [gen_bp_guard_signed off] E = Some (bp_must_revert (g_codesize E) o).
Proof.
  intros off E o H Hc Ho. pose proof BW_val. pose proof BHALF_val.
  rewrite (signed_guard_char off E o H Hc) by lia. unfold bp_must_revert.
  assert (X : (o <=? g_codesize E + BHALF) = true) by (apply Z.leb_le; lia). rewrite X. rewrite andb_true_r. reflexivity.
Qed.

(* beyond that range the guard passes although the rule demands a revert *)
Lemma signed_guard_wraps : forall off E o,
  gev off E = Some o -> 0 <= g_codesize E < BHALF -> g_codesize E + BHALF < o < BW ->
  run_guards [gen_bp_guard_signed off] E = Some false /\ bp_must_revert (g_codesize E) o = true.
Proof.
  intros off E o H Hc Ho. pose proof BW_val. pose proof BHALF_val.
  rewrite (signed_guard_char off E o H Hc) by lia. unfold bp_must_revert.
  assert (X : (o <=? g_codesize E + BHALF) = false) by (apply Z.leb_gt; lia). rewrite X.
  split; [rewrite andb_false_r; reflexivity | apply Z.leb_le; lia].
Qed.

(* ---- the unsigned guard (emitted since /repo 0e3d467): exact for EVERY uint256 code_offset ---- *)
Lemma guard_value : forall off E o,
  gev off E = Some o ->
  gev (gen_bp_guard off) E = Some (b2z (o <? g_codesize E mod BW)).
Proof.
  intros off E o H. unfold gen_bp_guard.
  cbn [gev]. rewrite H. cbn [String.eqb Ascii.eqb Bool.eqb gbin]. reflexivity.
Qed.

Lemma guard_exact : forall off E o,
  gev off E = Some o -> 0 <= g_codesize E < BW -> 0 <= o < BW ->
  run_guards [gen_bp_guard off] E = Some (bp_must_revert (g_codesize E) o).
Proof.
  intros off E o H Hc Ho. cbn [run_guards]. rewrite (guard_value off E o H).
  assert (Hm : g_codesize E mod BW = g_codesize E) by (apply Z.mod_small; lia). rewrite Hm.
  unfold bp_must_revert.
  destruct (Z.ltb_spec o (g_codesize E)); destruct (Z.leb_spec (g_codesize E) o); cbn; try reflexivity; lia.
Qed.

(* the operands of the family *)
Lemma off_operand_value : forall k E, exists o, gev (off_operand k) E = Some o /\ 0 <= o < BW.
Proof.
  intros k E. unfold off_operand. pose proof BW_val as Hw.
  destruct (String.eqb k "lit3"); [|destruct (String.eqb k "lit0")].
  - exists 3. split; [reflexivity | lia].
  - exists 0. split; [reflexivity | lia].
  - exists (g_sym E "ofs_sym" mod BW). split; [reflexivity | apply Z.mod_pos_bound; lia].
Qed.
