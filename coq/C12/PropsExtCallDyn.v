(* C12 property theorems for dynamic return types (Bytes/String/DynArray/structs with dynamic members). *)
From Coq Require Import ZArith List Bool.
From Verif Require Import C12.ExtCall C06.Abi C05.Dec C05.DecProofs C12.ExtCallDyn C12.ExtCallDynProofs.
Import ListNotations.
Open Scope Z_scope.

Theorem dyn_failure_propagates_exact : forall skip dflt value m t o rd,
  result o (call_opcode m) (if is_static m then 0 else value) = Failure rd ->
  ext_call_dyn skip dflt value m t o = DRevert rd.
Proof. exact dyn_failure_propagates_exact_thm. Qed.

Theorem dyn_no_code_reverts : forall skip dflt value m t o,
  has_code o = false -> (forall st v, result o st v = Success []) -> skip = false -> 0 < Abi.static_size t ->
  ext_call_dyn skip dflt value m t o = DRevert [].
Proof. exact dyn_no_code_reverts_thm. Qed.

Theorem dyn_short_returndata_reverts : forall skip dflt value m t o rd,
  result o (call_opcode m) (if is_static m then 0 else value) = Success rd ->
  zlen rd < Abi.static_size t -> (dflt = None \/ zlen rd <> 0) ->
  ext_call_dyn skip dflt value m t o = DRevert [].
Proof. exact dyn_short_returndata_reverts_thm. Qed.

(* bad_value_reverts, dynamic types: whatever is handed to the program is in the declared type
   (every length <= its bound, every scalar in range), for any well-formed return type *)
Theorem dyn_ok_in_type : forall skip dflt value m t o v rd,
  wf_ty t = true ->
  result o (call_opcode m) (if is_static m then 0 else value) = Success rd -> bytes_ok rd ->
  (forall d, dflt = Some d -> in_type t d = true) ->
  ext_call_dyn skip dflt value m t o = DOk v -> in_type t v = true.
Proof. exact dyn_ok_in_type_thm. Qed.
Print Assumptions dyn_ok_in_type.

Theorem dyn_ok_characterisation : forall skip dflt value m t o v,
  ext_call_dyn skip dflt value m t o = DOk v ->
  exists rd, result o (call_opcode m) (if is_static m then 0 else value) = Success rd /\
   ((zlen rd = 0 /\ dflt = Some v /\ (skip = true \/ has_code o = true)) \/
    ((dflt = None \/ zlen rd <> 0) /\ Abi.static_size t <= zlen rd /\
     inb t (payload_of t rd) 0 (hi_of t rd) = true /\ dec_at t (payload_of t rd) 0 = Some v)).
Proof. exact dyn_ok_characterisation_thm. Qed.
Print Assumptions dyn_ok_characterisation.

(* length > bound, offset tampering that leaves the returndata (or the size bound): revert *)
Theorem dyn_bad_length_or_offset_reverts : forall skip dflt value m o ret b (str : bool),
  0 <= b ->
  let t := TTuple [if str then TString b else TBytes b] in
  let p := payload_of t ret in let h := hi_of t ret in
  let off := Abi.rd p 0 in let n := Abi.rd p off in
  result o (call_opcode m) (if is_static m then 0 else value) = Success ret ->
  (dflt = None \/ zlen ret <> 0) ->
  (b < n \/ h < off + 32 + n) ->
  ext_call_dyn skip dflt value m t o = DRevert [].
Proof. exact dyn_bad_length_or_offset_reverts_thm. Qed.
Print Assumptions dyn_bad_length_or_offset_reverts.

Theorem dyn_darr_bad_count_reverts : forall skip dflt value m o ret t' b,
  let t := TTuple [TDArr t' b] in
  let p := payload_of t ret in let h := hi_of t ret in
  let off := Abi.rd p 0 in let n := Abi.rd p off in
  result o (call_opcode m) (if is_static m then 0 else value) = Success ret ->
  (dflt = None \/ zlen ret <> 0) ->
  (b < n \/ h < off + 32 + n * emb_static t') ->
  ext_call_dyn skip dflt value m t o = DRevert [].
Proof. exact dyn_darr_bad_count_reverts_thm. Qed.
Print Assumptions dyn_darr_bad_count_reverts.

(* non-vacuity *)
Definition TB := TTuple [TBytes 5].
Definition good := word 32 ++ word 3 ++ [1; 2; 3] ++ zeros 29.
Example dyn_examples :
  ext_call_dyn false None 0 Nonpayable TB (scripted_callee true 0 good) = DOk (VList [VBytes [1; 2; 3]]) /\
  ext_call_dyn false None 0 Nonpayable TB (scripted_callee true 0 (word 32 ++ word 6 ++ [1; 2; 3; 4; 5; 6] ++ zeros 26)) = DRevert [] /\
  ext_call_dyn false None 0 Nonpayable TB (scripted_callee true 0 (word 64 ++ word 3 ++ [1; 2; 3] ++ zeros 29)) = DRevert [] /\
  ext_call_dyn false None 0 Nonpayable TB (scripted_callee true 0 (firstn 66 good)) = DRevert [] /\
  ext_call_dyn false None 0 Nonpayable TB (scripted_callee true 0 (firstn 67 good)) = DOk (VList [VBytes [1; 2; 3]]).
Proof. vm_compute. repeat split; reflexivity. Qed.
