(* C12 O-tie property theorem: in BOTH generators, for every constructor-argument shape (none / one / several ABI
   arguments / raw_args), salt=, revert_on_failure and code_offset operand (default 3, literal 0, run-time value), the
   asserts emitted before CREATE revert iff code_offset >= extcodesize(target), for every environment (constructor
   argument length and content, memory, salt, value) and EVERY uint256 code_offset. *)
From Coq Require Import ZArith List Bool String.
From Verif Require Import C12.CallTpl C12.BpGuard C12.BpGuardProofs C12.GenBp C12.TieBp.
Import ListNotations.
Open Scope string_scope.
Open Scope Z_scope.

Theorem blueprint_usesite_guard_exact :
  bp_sites_ok obs_bp_legacy /\ bp_sites_ok obs_bp_venom /\
  List.length obs_bp_legacy = 48%nat /\ List.length obs_bp_venom = 48%nat.
Proof. exact bp_usesite_thm. Qed.
Print Assumptions blueprint_usesite_guard_exact.

(* non-vacuity, evaluated on the OBSERVED templates: raw_args site with run-time code_offset = codesize = 3 and a
   96-byte buffer reverts; code_offset = 2 reaches CREATE *)
Example blueprint_usesite_examples :
  match find (fun p => match fst p with (sh, salt, R, off) => String.eqb sh "raw" && String.eqb off "var" && negb salt && R end) obs_bp_venom,
        find (fun p => match fst p with (sh, salt, R, off) => String.eqb sh "one" && String.eqb off "var" && salt && negb R end) obs_bp_legacy with
  | Some (_, g1), Some (_, g2) =>
    run_guards g1 (mkGE 3 (fun s => if String.eqb s "ofs_sym" then 3 else 96)) = Some true /\
    run_guards g2 (mkGE 3 (fun s => if String.eqb s "ofs_sym" then 2 else 96)) = Some false
  | _, _ => False
  end.
Proof. vm_compute. split; reflexivity. Qed.
