(* C12 O-tie: the observed templates (GenCall.v, regenerated every run) are syntactically the Coq
   generators' output for the whole family of call shapes, hence satisfy the step specifications. *)
From Coq Require Import ZArith List Bool String.
From Verif Require Import C12.CallTpl C12.GenCall.
Import ListNotations.
Open Scope string_scope.
Open Scope Z_scope.

Definition site_family : list (string * skind * string) :=
  [("ext_void", KPropGuard, "call"); ("ext_void_skip", KProp, "call"); ("ext_ret", KProp, "call");
   ("static_ret", KProp, "staticcall"); ("raw_plain", KProp, "call"); ("raw_out", KProp, "call");
   ("raw_static", KProp, "staticcall"); ("raw_delegate", KProp, "delegatecall");
   ("raw_nofail", KNoProp, "call"); ("raw_nofail_out", KNoProp, "call");
   ("raw_nofail_static", KNoProp, "staticcall"); ("raw_nofail_delegate", KNoProp, "delegatecall");
   ("send", KSend, "call");
   ("proxy", KProp, "create"); ("proxy_salt", KProp, "create2"); ("proxy_nofail", KNoProp, "create");
   ("copy", KProp, "create"); ("copy_nofail", KNoProp, "create");
   ("blueprint", KProp, "create"); ("blueprint_salt_value", KProp, "create2"); ("blueprint_nofail", KNoProp, "create");
   ("raw_create", KProp, "create")].
Definition expected_sites : list (string * site) :=
  map (fun f => match f with (n, k, op) => (n, gen_site k op) end) site_family.

Lemma obs_legacy_eq :
  obs_check_external_call = gen_propagate_legacy /\ obs_check_create_operation = gen_propagate_legacy /\
  obs_extcodesize_check = gen_codecheck_legacy.
Proof. repeat split; vm_compute; reflexivity. Qed.
Lemma obs_sites_london_eq : obs_sites_london = expected_sites.
Proof. vm_compute. reflexivity. Qed.
Lemma obs_sites_cancun_eq : obs_sites_cancun = expected_sites.
Proof. vm_compute. reflexivity. Qed.

Definition sites_ok (obs : list (string * site)) : Prop :=
  List.length obs = List.length site_family /\
  forall n k op, In (n, k, op) site_family ->
    exists s, In (n, s) obs /\ s_op s = op /\ forall E m, site_spec k E m (run_site s E m).

Lemma sites_ok_expected : sites_ok expected_sites.
Proof.
  split; [unfold expected_sites; rewrite map_length; reflexivity|].
  intros n k op H. exists (gen_site k op). split.
  - unfold expected_sites. apply in_map_iff. exists (n, k, op). split; [reflexivity|exact H].
  - split; [destruct k; reflexivity|]. intros E m. apply gen_site_spec.
Qed.

Lemma call_template_spec_thm :
  (forall E m, propagate_spec E m (ev_tpl obs_check_external_call E m)) /\
  (forall E m, propagate_spec E m (ev_tpl obs_check_create_operation E m)) /\
  (forall E m, codecheck_spec E (ev_tpl obs_extcodesize_check E m)) /\
  sites_ok obs_sites_london /\ sites_ok obs_sites_cancun.
Proof.
  destruct obs_legacy_eq as [H1 [H2 H3]]. rewrite H1, H2, H3, obs_sites_london_eq, obs_sites_cancun_eq.
  repeat split; try apply sites_ok_expected; intros.
  - apply gen_propagate_legacy_spec.
  - apply gen_propagate_legacy_spec.
  - apply gen_codecheck_legacy_spec.
Qed.
