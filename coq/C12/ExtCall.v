(* C12 model: the outgoing-call protocol (interface calls and raw_call) against an arbitrary callee.

   The callee is an oracle: does the target have code, and what does the message call produce
   (Success returndata | Failure returndata) -- possibly depending on whether it is entered by
   STATICCALL and on the value sent.  Return types: none, or a tuple of n >= 1 static scalars
   (a single scalar T is the 1-tuple, as calculate_type_for_external_return wraps it).
   Bytes are lists of Z in [0,256).  No proofs in this file. *)
From Coq Require Import ZArith List Bool.
Import ListNotations.
Open Scope Z_scope.

Definition bytes := list Z.

Inductive scalar :=
| TUint (bits : Z)      (* uintN, N in 8..256 *)
| TInt (bits : Z)       (* intN *)
| TBool
| TAddress
| TBytesM (m : Z).      (* bytesM, 1..32: left aligned *)

Definition W := 2 ^ 256.
(* is the 32-byte word (as unsigned integer) a valid encoding of the scalar? *)
Definition in_range (t : scalar) (w : Z) : bool :=
  match t with
  | TUint b => w <? 2 ^ b
  | TInt b => (w <? 2 ^ (b - 1)) || (W - 2 ^ (b - 1) <=? w)
  | TBool => w <? 2
  | TAddress => w <? 2 ^ 160
  | TBytesM m => (w mod 2 ^ (8 * (32 - m))) =? 0
  end.
(* does the type need a run-time clamp (vyper needs_clamp)? only informational *)
Definition needs_clamp (t : scalar) : bool :=
  match t with TUint 256 | TInt 256 | TBytesM 32 => false | _ => true end.

Fixpoint be (l : bytes) (acc : Z) : Z := match l with [] => acc | b :: r => be r (acc * 256 + b) end.
Definition word_at (rd : bytes) (i : nat) : Z := be (firstn 32 (skipn (32 * i) rd)) 0.
Definition len (b : bytes) : Z := Z.of_nat (length b).

Inductive outcome := Success (rd : bytes) | Failure (rd : bytes).
Record callee := mkCallee { has_code : bool; result : bool (*static*) -> Z (*value*) -> outcome }.

Inductive mutability := Pure | ViewM | Nonpayable | Payable.
Definition is_static (m : mutability) : bool := match m with Pure | ViewM => true | _ => false end.

Record kwargs := mkKw {
  kw_skip : bool;                   (* skip_contract_check *)
  kw_default : option (list Z);     (* default_return_value, already as n canonical words *)
  kw_value : Z;                     (* value= (0 when absent; only legal for payable targets) *)
}.

Inductive res := Ok (words : list Z) | Revert (rd : bytes).

Fixpoint decode (tys : list scalar) (rd : bytes) (i : nat) : option (list Z) :=
  match tys with
  | [] => Some []
  | t :: r =>
    let w := word_at rd i in
    if in_range t w then match decode r rd (S i) with Some l => Some (w :: l) | None => None end
    else None
  end.

Definition static_size (tys : list scalar) : Z := 32 * Z.of_nat (length tys).

(* what the EVM is asked to do *)
Definition call_opcode (m : mutability) : bool (* true = STATICCALL *) := is_static m.
Definition call_value (m : mutability) (kw : kwargs) : Z := if is_static m then 0 else kw_value kw.

Definition ext_call (kw : kwargs) (m : mutability) (ret : option (list scalar)) (o : callee) : res :=
  let out := result o (call_opcode m) (call_value m kw) in
  match ret with
  | None =>
    if negb (kw_skip kw) && negb (has_code o) then Revert []      (* extcodesize check BEFORE the call *)
    else match out with Failure rd => Revert rd | Success _ => Ok [] end
  | Some tys =>
    match out with
    | Failure rd => Revert rd
    | Success rd =>
      match kw_default kw with
      | Some d =>
        if len rd =? 0 then
          (if negb (kw_skip kw) && negb (has_code o) then Revert [] else Ok d)
        else if len rd <? static_size tys then Revert []
        else match decode tys rd 0 with Some l => Ok l | None => Revert [] end
      | None =>
        if len rd <? static_size tys then Revert []
        else match decode tys rd 0 with Some l => Ok l | None => Revert [] end
      end
    end
  end.

(* ---- raw_call(to, data, max_outsize=M, revert_on_failure=R, is_static_call=S, value=V) ---- *)
(* result words: [success flag; length of response; response bytes...] ; no extcodesize check *)
Definition truncate (m : Z) (rd : bytes) : bytes := firstn (Z.to_nat m) rd.
Definition raw_call (max_outsize : Z) (revert_on_failure : bool) (static : bool) (value : Z) (o : callee) : res :=
  match result o static (if static then 0 else value) with
  | Success rd => Ok (1 :: len (truncate max_outsize rd) :: truncate max_outsize rd)
  | Failure rd => if revert_on_failure then Revert rd
                  else Ok (0 :: len (truncate max_outsize rd) :: truncate max_outsize rd)
  end.

(* ---- the scriptable test callee (hand-assembled, tools/vlib/c12_lib.py) as an oracle ---- *)
Fixpoint word_bytes (n : nat) (w : Z) (acc : bytes) : bytes :=
  match n with O => acc | S k => word_bytes k (w / 256) ((w mod 256) :: acc) end.
Definition scripted (mode : Z) (data : bytes) (static : bool) (value : Z) : outcome :=
  if mode =? 0 then Success data
  else if mode =? 1 then Failure data
  else if mode =? 2 then Failure []                      (* INVALID *)
  else if mode =? 3 then (if static then Failure [] else Success data)   (* SSTORE then return *)
  else if mode =? 4 then Success (word_bytes 32 value []) (* echo callvalue *)
  else Failure [].
Definition scripted_callee (code : bool) (mode : Z) (data : bytes) : callee :=
  if code then mkCallee true (scripted mode data) else mkCallee false (fun _ _ => Success []).

Definition res_to_list (r : res) : list Z :=
  match r with Ok l => 1 :: l | Revert rd => 0 :: rd end.
