(* C12 O-tie property theorem: the failure-handling templates the compiler emits around calls and creates
   compute the model's steps, for every returndata / memory / code size. *)
From Coq Require Import ZArith List Bool String.
From Verif Require Import C12.CallTpl C12.GenCall C12.TieCall.
Import ListNotations.
Open Scope Z_scope.

Theorem call_template_spec :
  (forall E m, propagate_spec E m (ev_tpl obs_check_external_call E m)) /\
  (forall E m, propagate_spec E m (ev_tpl obs_check_create_operation E m)) /\
  (forall E m, codecheck_spec E (ev_tpl obs_extcodesize_check E m)) /\
  sites_ok obs_sites_london /\ sites_ok obs_sites_cancun.
Proof. exact call_template_spec_thm. Qed.
Print Assumptions call_template_spec.

(* non-vacuity: a failing call with 3 bytes of returndata is propagated exactly; a successful one continues *)
Example tpl_examples :
  ev_tpl gen_propagate_legacy (mkEnv [1; 2; 3] 0 5 (fun _ => 1) 64) (fun _ => 9) = Rev [1; 2; 3] /\
  run_site (gen_site KPropGuard "call") (mkEnv [1; 2; 3] 0 5 (fun _ => 1) 64) (fun _ => 9) = Rev [1; 2; 3] /\
  run_site (gen_site KPropGuard "call") (mkEnv [1; 2; 3] 0 5 (fun _ => 0) 64) (fun _ => 9) = Rev [] /\
  run_site (gen_site KSend "call") (mkEnv [1; 2; 3] 0 5 (fun _ => 1) 64) (fun _ => 9) = Rev [].
Proof. repeat split; vm_compute; reflexivity. Qed.
