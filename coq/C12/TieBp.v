(* C12 O-tie of the create_from_blueprint guard: the asserts observed between EXTCODESIZE and CREATE in both
   generators (GenBp.v, regenerated every run: CreateFromBlueprint.build_IR on symbolic operands; venom probes lowered
   by the real front end) are, over the whole family ctor-args shape x salt x revert_on_failure x code_offset operand,
   exactly ONE assert, syntactically the template proved exact in BpGuardProofs.v. *)
From Coq Require Import ZArith List Bool String.
From Verif Require Import C12.CallTpl C12.BpGuard C12.BpGuardProofs C12.GenBp.
Import ListNotations.
Open Scope string_scope.
Open Scope list_scope.
Open Scope Z_scope.

Definition bkey := (string * bool * bool * string)%type.   (* ctor args shape, salt=, revert_on_failure, code_offset operand *)
Definition bp_family : list bkey :=
  flat_map (fun shape => flat_map (fun salt => flat_map (fun R => map (fun off => (shape, salt, R, off)) ["lit3"; "lit0"; "var"])
                                                        [true; false]) [false; true])
           ["none"; "one"; "many"; "raw"].
Definition bp_expected : list (bkey * list sx) :=
  map (fun k => (k, [gen_bp_guard (off_operand (snd k))])) bp_family.

Lemma tie_bp_legacy : obs_bp_legacy = bp_expected.
Proof. vm_compute. reflexivity. Qed.
Lemma tie_bp_venom : obs_bp_venom = bp_expected.
Proof. vm_compute. reflexivity. Qed.

Definition bp_sites_ok (obs : list (bkey * list sx)) : Prop :=
  forall k gs, In (k, gs) obs ->
  forall E, 0 <= g_codesize E < BW ->
  exists o, gev (off_operand (snd k)) E = Some o /\ 0 <= o < BW /\
            run_guards gs E = Some (bp_must_revert (g_codesize E) o).

Lemma expected_ok : bp_sites_ok bp_expected.
Proof.
  intros k gs Hin E Hc. unfold bp_expected in Hin. apply in_map_iff in Hin.
  destruct Hin as [k' [Heq _]]. inversion Heq; subst k' gs. clear Heq.
  destruct (off_operand_value (snd k) E) as [o [Ho Hr]].
  exists o. split; [exact Ho|]. split; [exact Hr|].
  apply guard_exact; [exact Ho | exact Hc | exact Hr].
Qed.

Lemma bp_usesite_thm : bp_sites_ok obs_bp_legacy /\ bp_sites_ok obs_bp_venom /\
                       List.length obs_bp_legacy = 48%nat /\ List.length obs_bp_venom = 48%nat.
Proof.
  rewrite tie_bp_legacy, tie_bp_venom. repeat split; try exact expected_ok; vm_compute; reflexivity.
Qed.
