(* C12 property theorems for the low-level builtins. *)
From Coq Require Import ZArith List Bool.
From Verif Require Import C12.ExtCall C12.Builtins C12.BuiltinsProofs.
Import ListNotations.
Open Scope Z_scope.

Theorem send_semantics : forall o,
  (send o = Ok [] <-> exists rd, o = Success rd) /\ (forall rd, o = Failure rd -> send o = Revert []).
Proof. exact send_semantics_thm. Qed.
Print Assumptions send_semantics.

Theorem raw_revert_exact : forall d, raw_revert d = Revert d.
Proof. exact raw_revert_exact_thm. Qed.

Theorem create_failure_reverts : forall b cs rd,
  pre_ok b cs = true ->
  create_builtin b true cs (CreateFail rd) = Revert rd /\ create_builtin b false cs (CreateFail rd) = Ok [0].
Proof. exact create_failure_reverts_thm. Qed.
Print Assumptions create_failure_reverts.

Theorem create_success : forall b R cs a, pre_ok b cs = true -> create_builtin b R cs (CreateOk a) = Ok [a].
Proof. exact create_success_thm. Qed.

Theorem create_empty_target_reverts : forall R r,
  create_builtin CopyOf R 0 r = Revert [] /\
  (forall off cs, 0 <= cs < 2 ^ 255 -> 0 <= off < 2 ^ 255 -> cs <= off -> create_builtin (FromBlueprint off) R cs r = Revert []).
Proof. exact create_empty_target_reverts_thm. Qed.
Print Assumptions create_empty_target_reverts.

Theorem rawcall_k_semantics : forall k M R v ans rd,
  let a := ans k (match k with KCall => v | _ => 0 end) in
  (a = Failure rd -> R = true -> raw_call_k k M R v ans = Revert rd) /\
  (a = Failure rd -> R = false -> raw_call_k k M R v ans = Ok (0 :: len (truncate M rd) :: truncate M rd)) /\
  (a = Success rd -> raw_call_k k M R v ans = Ok (1 :: len (truncate M rd) :: truncate M rd)) /\
  len (truncate M rd) <= Z.max 0 M.
Proof. exact rawcall_k_semantics_thm. Qed.
Print Assumptions rawcall_k_semantics.

Example builtins_examples :
  create_builtin (FromBlueprint 3) true 3 (CreateOk 5) = Revert [] /\
  create_builtin (FromBlueprint 3) true 40 (CreateFail [1; 2]) = Revert [1; 2] /\
  create_builtin (FromBlueprint 3) false 40 (CreateFail [1; 2]) = Ok [0] /\
  create_builtin CopyOf false 0 (CreateOk 5) = Revert [] /\
  send (Failure [1; 2; 3]) = Revert [].
Proof. vm_compute. repeat split; reflexivity. Qed.
