(* C12 extension: proofs about the EVM fragment (storage contexts, call / create use-sites). *)
From Coq Require Import ZArith List Bool String Lia.
From Verif Require Import C12.ExtCall C12.Builtins C12.CallTpl C12.EvmFrag.
Import ListNotations.
Open Scope string_scope.
Open Scope list_scope.
Open Scope Z_scope.

(* ---------------- memory lemmas ---------------- *)
Lemma be_app1 : forall l b acc, be (l ++ [b]) acc = be l acc * 256 + b.
Proof. induction l as [|x l IH]; intros b acc; simpl; [reflexivity|apply IH]. Qed.

Lemma be_bytes : forall v (n : nat), 0 <= v < WW -> (n <= 32)%nat ->
  be (map (fun i => byte_of v (Z.of_nat i)) (seq 0 n)) 0 = v / 256 ^ (32 - Z.of_nat n).
Proof.
  intros v n Hv. induction n as [|n IH]; intro Hn.
  - simpl be. change (32 - Z.of_nat 0) with 32. symmetry. apply Z.div_small.
    assert (E : 256 ^ 32 = WW) by (vm_compute; reflexivity). lia.
  - rewrite seq_S, map_app. cbn [map]. rewrite be_app1. rewrite IH by lia. cbn [plus].
    unfold byte_of.
    replace (32 - Z.of_nat n) with (1 + (31 - Z.of_nat n)) by lia.
    replace (32 - Z.of_nat (S n)) with (31 - Z.of_nat n) by lia.
    rewrite Z.pow_add_r by lia. change (256 ^ 1) with 256.
    set (q := v / 256 ^ (31 - Z.of_nat n)).
    assert (Hq : v / (256 * 256 ^ (31 - Z.of_nat n)) = q / 256).
    { unfold q. rewrite (Z.mul_comm 256). rewrite Z.div_div; [reflexivity| |lia]. apply Z.pow_nonzero; lia. }
    rewrite Hq. pose proof (Z.div_mod q 256). lia.
Qed.

Lemma mread_ext : forall m1 m2 o n, (forall a, o <= a < o + n -> m1 a = m2 a) -> mread m1 o n = mread m2 o n.
Proof.
  intros m1 m2 o n H. unfold mread. apply map_ext_in. intros i Hi. apply in_seq in Hi. apply H. lia.
Qed.

Lemma mload_mstore : forall m p v, 0 <= v < WW -> mload (mstore m p v) p = v.
Proof.
  intros m p v Hv. unfold mload.
  assert (E : mread (mstore m p v) p 32 = map (fun i => byte_of v (Z.of_nat i)) (seq 0 32)).
  { unfold mread. apply map_ext_in. intros i Hi. apply in_seq in Hi. unfold mstore.
    destruct (Z.leb_spec p (p + Z.of_nat i)); [|lia].
    destruct (Z.ltb_spec (p + Z.of_nat i) (p + 32)); [|lia]. simpl. f_equal. lia. }
  rewrite E. change (Z.to_nat 32) with 32%nat. rewrite (be_bytes v 32) by lia.
  simpl. rewrite Z.div_1_r. reflexivity.
Qed.

Lemma mread_mstore_after : forall m p v n, mread (mstore m p v) (p + 32) n = mread m (p + 32) n.
Proof.
  intros. apply mread_ext. intros a Ha. unfold mstore.
  destruct (Z.ltb_spec a (p + 32)); [lia|]. rewrite andb_false_r. reflexivity.
Qed.

Lemma nth_firstn_lt : forall (l : list Z) (n i : nat), (i < n)%nat -> nth i (firstn n l) 0 = nth i l 0.
Proof.
  induction l as [|x l IH]; intros n i H.
  - rewrite firstn_nil. reflexivity.
  - destruct n; [lia|]. destruct i; [reflexivity|]. simpl. apply IH. lia.
Qed.

Lemma mread_rdcopy_prefix : forall m d c rd, 0 <= c <= blen rd -> mread (rdcopy m d 0 c rd) d c = firstn (Z.to_nat c) rd.
Proof.
  intros m d c rd Hc. unfold mread, blen in *.
  apply nth_ext with (d := 0) (d' := 0).
  - rewrite map_length, seq_length, firstn_length. lia.
  - intros i Hi. rewrite map_length, seq_length in Hi.
    rewrite nth_map_seq by exact Hi. unfold rdcopy.
    destruct (Z.leb_spec d (d + Z.of_nat i)); [|lia].
    destruct (Z.ltb_spec (d + Z.of_nat i) (d + c)); [|lia]. simpl.
    replace (d + Z.of_nat i - d + 0) with (Z.of_nat i) by lia. rewrite Nat2Z.id.
    rewrite nth_firstn_lt by exact Hi. reflexivity.
Qed.

Lemma truncate_min : forall M rd, 0 <= M -> firstn (Z.to_nat (Z.min M (blen rd))) rd = truncate M rd.
Proof.
  intros M rd HM. unfold truncate, blen. destruct (Z.le_ge_cases M (Z.of_nat (List.length rd))).
  - rewrite Z.min_l by lia. reflexivity.
  - rewrite Z.min_r by lia. rewrite Nat2Z.id. rewrite firstn_all. symmetry. apply firstn_all2. lia.
Qed.

(* the response as the caller reads it: length cell at p, CALL wrote min(M, |rd|) bytes at p+32 *)
Lemma response_read : forall m p M rd, 0 <= M < WW ->
  bytes_at (mstore (rdcopy m (p + 32) 0 (Z.min M (blen rd)) rd) p (Z.min M (blen rd))) p = truncate M rd.
Proof.
  intros m p M rd HM. unfold bytes_at.
  assert (Hb : 0 <= blen rd) by (unfold blen; lia).
  rewrite mload_mstore by lia. rewrite mread_mstore_after.
  rewrite mread_rdcopy_prefix by lia. apply truncate_min. lia.
Qed.

(* ---------------- the use-sites compute the documented behaviour ---------------- *)
Definition ptr_ok (p : Z) := 0 <= p /\ p + 32 < WW.

Lemma sel_min : forall M n, (if b2z (M <? n) =? 0 then n else M) = Z.min M n.
Proof. intros. destruct (Z.ltb_spec M n); simpl; lia. Qed.
Lemma lt_self_plus : forall n, (n <? 0 + n) = false.
Proof. intros. apply Z.ltb_ge. lia. Qed.
Lemma log2_lt256 : forall a, 0 <= a < 2 ^ 256 -> Z.log2 a < 256.
Proof. intros a H. destruct (Z.eq_dec a 0) as [->|N]; [reflexivity|]. apply Z.log2_lt_pow2; lia. Qed.
Lemma lxor_bound : forall a b, 0 <= a < 2 ^ 256 -> 0 <= b < 2 ^ 256 -> 0 <= Z.lxor a b < 2 ^ 256.
Proof.
  intros a b Ha Hb. assert (H0 : 0 <= Z.lxor a b) by (apply Z.lxor_nonneg; lia). split; [exact H0|].
  destruct (Z.eq_dec (Z.lxor a b) 0) as [E|N]; [rewrite E; reflexivity|].
  apply Z.log2_lt_pow2; [lia|].
  eapply Z.le_lt_trans; [apply Z.log2_lxor; lia|].
  apply Z.max_lub_lt; apply log2_lt256; assumption.
Qed.
Lemma cap_xor : forall M n, 0 <= M < WW -> 0 <= n -> Z.lxor M ((b2z (n <? M) * Z.lxor n M) mod WW) = Z.min M n.
Proof.
  intros M n HM Hn. destruct (Z.ltb_spec n M); simpl b2z.
  - rewrite Z.mul_1_l. rewrite Z.mod_small by (apply lxor_bound; unfold WW in *; lia).
    rewrite (Z.lxor_comm n M), <- Z.lxor_assoc, Z.lxor_nilpotent, Z.lxor_0_l. lia.
  - rewrite Z.mul_0_l, Z.mod_0_l by (unfold WW; lia). rewrite Z.lxor_0_r. lia.
Qed.

Lemma eqb10 : (1 =? 0) = false. Proof. reflexivity. Qed.
Lemma eqb00 : (0 =? 0) = true. Proof. reflexivity. Qed.
Ltac ev_cbn := cbn -[Z.eqb Z.ltb Z.leb rdcopy mread blen mload mstore exec_call Z.min WW Z.modulo Z.add truncate bytes_at Z.lxor Z.mul].
Ltac fin y buf :=
  rewrite ?(Z.mod_small (y_data y + 32) WW), ?(Z.mod_small (buf + 32) WW) by lia;
  unfold bytes_at;
  match goal with |- context [exec_call ?w ?c ?k ?t ?v ?d] => let o := fresh "o" in set (o := exec_call w c k t v d); destruct (o_ok o) end; ev_cbn; rewrite ?eqb10, ?eqb00; ev_cbn; rewrite ?eqb10, ?eqb00; ev_cbn;
  rewrite ?lt_self_plus, ?sel_min; ev_cbn;
  rewrite ?mread_rdcopy.

Lemma rawcall_legacy_pos : forall k M R hg (hv : bool) c cr y s buf,
  0 < M < WW -> ptr_ok (y_data y) -> ptr_ok buf ->
  observe M R (ev_top (mkG c cr (symtab y)) (gen_rawcall_legacy k M R hg (if hv then sym "value_sym" else SL 0) buf) s)
  = raw_call_w k M R c (y_to y) (match k with KCall => if hv then y_value y else 0 | _ => 0 end) (bytes_at (s_mem s) (y_data y)) (s_world s).
Proof.
  intros k M R hg hv c cr y s buf HM [Hd1 Hd2] [Hb1 Hb2].
  unfold gen_rawcall_legacy. destruct (Z.eqb_spec M 0) as [E|_]; [lia|].
  assert (HM' : (0 <? M) = true) by (apply Z.ltb_lt; lia).
  destruct k, R, hg, hv; unfold ev_top, ev1, sym, propagate, call_node, raw_call_w; ev_cbn; fin y buf.
  all: unfold observe; rewrite ?HM'; f_equal; try (apply response_read; lia).
Qed.

Lemma rawcall_legacy_zero : forall k R hg (hv : bool) c cr y s buf,
  ptr_ok (y_data y) ->
  observe 0 R (ev_top (mkG c cr (symtab y)) (gen_rawcall_legacy k 0 R hg (if hv then sym "value_sym" else SL 0) buf) s)
  = raw_call_w k 0 R c (y_to y) (match k with KCall => if hv then y_value y else 0 | _ => 0 end) (bytes_at (s_mem s) (y_data y)) (s_world s).
Proof.
  intros k R hg hv c cr y s buf [Hd1 Hd2].
  unfold gen_rawcall_legacy. rewrite ?eqb00.
  destruct k, R, hg, hv; unfold ev_top, ev1, sym, propagate, call_node, raw_call_w; ev_cbn; fin y buf.
  all: unfold observe; cbn [Z.ltb Z.compare]; f_equal.
Qed.

Ltac site_step :=
  match goal with |- context [run_site (gen_site ?k ?op) ?E ?m] =>
    let HS := fresh "HS" in
    pose proof (gen_site_spec k op E m) as HS; unfold site_spec in HS; cbn [e_res e_rd] in HS;
    rewrite ?eqb10, ?eqb00 in HS; rewrite HS; clear HS end.
Ltac ev_cbn2 := cbn -[Z.eqb Z.ltb Z.leb rdcopy mread blen mload mstore exec_call Z.min WW Z.modulo Z.add truncate bytes_at Z.lxor Z.mul run_site gen_site].
Ltac finv y :=
  rewrite ?(Z.mod_small (y_data y + 32) WW), ?(Z.mod_small (y_out y + 32) WW) by lia;
  unfold bytes_at;
  match goal with |- context [exec_call ?w ?c ?k ?t ?v ?d] => let o := fresh "o" in set (o := exec_call w c k t v d); destruct (o_ok o) end;
  cbn [b2z]; try site_step; ev_cbn2; rewrite ?cap_xor by (unfold blen; lia); ev_cbn2.

Lemma rawcall_venom_pos : forall k M R (hg : bool) glit vlit c cr y s fp tg,
  0 < M < WW -> ptr_ok (y_data y) -> ptr_ok (y_out y) ->
  observe M R (run_vsite (mkG c cr (symtab y)) (gen_rawcall_venom k M R (if hg then SL glit else sym "gas") (SL vlit)) fp tg s)
  = raw_call_w k M R c (y_to y) (match k with KCall => vlit | _ => 0 end) (bytes_at (s_mem s) (y_data y)) (s_world s).
Proof.
  intros k M R hg glit vlit c cr y s fp tg HM [Hd1 Hd2] [Hb1 Hb2].
  unfold gen_rawcall_venom. destruct (Z.eqb_spec M 0) as [E|_]; [lia|].
  assert (HM' : (0 <? M) = true) by (apply Z.ltb_lt; lia).
  destruct k, R, hg; unfold run_vsite, cap_tree, sym, raw_call_w, kind_op; ev_cbn2; finv y.
  all: unfold observe; rewrite ?HM'; f_equal; try (apply response_read; lia).
Qed.

Lemma rawcall_venom_zero : forall k R (hg : bool) glit vlit c cr y s fp tg,
  ptr_ok (y_data y) ->
  observe 0 R (run_vsite (mkG c cr (symtab y)) (gen_rawcall_venom k 0 R (if hg then SL glit else sym "gas") (SL vlit)) fp tg s)
  = raw_call_w k 0 R c (y_to y) (match k with KCall => vlit | _ => 0 end) (bytes_at (s_mem s) (y_data y)) (s_world s).
Proof.
  intros k R hg glit vlit c cr y s fp tg [Hd1 Hd2].
  unfold gen_rawcall_venom. rewrite ?eqb00.
  destruct k, R, hg; unfold run_vsite, sym, raw_call_w, kind_op; ev_cbn2; finv y.
  all: unfold observe; cbn [Z.ltb Z.compare]; f_equal.
Qed.
