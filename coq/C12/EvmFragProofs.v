(* C12 extension: proofs about the EVM fragment (storage contexts, call / create use-sites). *)
From Coq Require Import ZArith List Bool String Lia.
From Verif Require Import C12.ExtCall C12.Builtins C12.CallTpl C12.EvmFrag.
Import ListNotations.
Open Scope string_scope.
Open Scope list_scope.
Open Scope Z_scope.

(* ---------------- memory lemmas ---------------- *)
Lemma be_app1 : forall l b acc, be (l ++ [b]) acc = be l acc * 256 + b.
Proof. induction l as [|x l IH]; intros b acc; simpl; [reflexivity|apply IH]. Qed.

Lemma be_bytes : forall v (n : nat), 0 <= v < WW -> (n <= 32)%nat ->
  be (map (fun i => byte_of v (Z.of_nat i)) (seq 0 n)) 0 = v / 256 ^ (32 - Z.of_nat n).
Proof.
  intros v n Hv. induction n as [|n IH]; intro Hn.
  - simpl be. change (32 - Z.of_nat 0) with 32. symmetry. apply Z.div_small.
    assert (E : 256 ^ 32 = WW) by (vm_compute; reflexivity). lia.
  - rewrite seq_S, map_app. cbn [map]. rewrite be_app1. rewrite IH by lia. cbn [plus].
    unfold byte_of.
    replace (32 - Z.of_nat n) with (1 + (31 - Z.of_nat n)) by lia.
    replace (32 - Z.of_nat (S n)) with (31 - Z.of_nat n) by lia.
    rewrite Z.pow_add_r by lia. change (256 ^ 1) with 256.
    set (q := v / 256 ^ (31 - Z.of_nat n)).
    assert (Hq : v / (256 * 256 ^ (31 - Z.of_nat n)) = q / 256).
    { unfold q. rewrite (Z.mul_comm 256). rewrite Z.div_div; [reflexivity| |lia]. apply Z.pow_nonzero; lia. }
    rewrite Hq. pose proof (Z.div_mod q 256). lia.
Qed.

Lemma mread_ext : forall m1 m2 o n, (forall a, o <= a < o + n -> m1 a = m2 a) -> mread m1 o n = mread m2 o n.
Proof.
  intros m1 m2 o n H. unfold mread. apply map_ext_in. intros i Hi. apply in_seq in Hi. apply H. lia.
Qed.

Lemma mload_mstore : forall m p v, 0 <= v < WW -> mload (mstore m p v) p = v.
Proof.
  intros m p v Hv. unfold mload.
  assert (E : mread (mstore m p v) p 32 = map (fun i => byte_of v (Z.of_nat i)) (seq 0 32)).
  { unfold mread. apply map_ext_in. intros i Hi. apply in_seq in Hi. unfold mstore.
    destruct (Z.leb_spec p (p + Z.of_nat i)); [|lia].
    destruct (Z.ltb_spec (p + Z.of_nat i) (p + 32)); [|lia]. simpl. f_equal. lia. }
  rewrite E. change (Z.to_nat 32) with 32%nat. rewrite (be_bytes v 32) by lia.
  simpl. rewrite Z.div_1_r. reflexivity.
Qed.

Lemma mread_mstore_after : forall m p v n, mread (mstore m p v) (p + 32) n = mread m (p + 32) n.
Proof.
  intros. apply mread_ext. intros a Ha. unfold mstore.
  destruct (Z.ltb_spec a (p + 32)); [lia|]. rewrite andb_false_r. reflexivity.
Qed.

Lemma nth_firstn_lt : forall (l : list Z) (n i : nat), (i < n)%nat -> nth i (firstn n l) 0 = nth i l 0.
Proof.
  induction l as [|x l IH]; intros n i H.
  - rewrite firstn_nil. reflexivity.
  - destruct n; [lia|]. destruct i; [reflexivity|]. simpl. apply IH. lia.
Qed.

Lemma mread_rdcopy_prefix : forall m d c rd, 0 <= c <= blen rd -> mread (rdcopy m d 0 c rd) d c = firstn (Z.to_nat c) rd.
Proof.
  intros m d c rd Hc. unfold mread, blen in *.
  apply nth_ext with (d := 0) (d' := 0).
  - rewrite map_length, seq_length, firstn_length. lia.
  - intros i Hi. rewrite map_length, seq_length in Hi.
    rewrite nth_map_seq by exact Hi. unfold rdcopy.
    destruct (Z.leb_spec d (d + Z.of_nat i)); [|lia].
    destruct (Z.ltb_spec (d + Z.of_nat i) (d + c)); [|lia]. simpl.
    replace (d + Z.of_nat i - d + 0) with (Z.of_nat i) by lia. rewrite Nat2Z.id.
    rewrite nth_firstn_lt by exact Hi. reflexivity.
Qed.

Lemma truncate_min : forall M rd, 0 <= M -> firstn (Z.to_nat (Z.min M (blen rd))) rd = truncate M rd.
Proof.
  intros M rd HM. unfold truncate, blen. destruct (Z.le_ge_cases M (Z.of_nat (List.length rd))).
  - rewrite Z.min_l by lia. reflexivity.
  - rewrite Z.min_r by lia. rewrite Nat2Z.id. rewrite firstn_all. symmetry. apply firstn_all2. lia.
Qed.

(* the response as the caller reads it: length cell at p, CALL wrote min(M, |rd|) bytes at p+32 *)
Lemma response_read : forall m p M rd, 0 <= M < WW ->
  bytes_at (mstore (rdcopy m (p + 32) 0 (Z.min M (blen rd)) rd) p (Z.min M (blen rd))) p = truncate M rd.
Proof.
  intros m p M rd HM. unfold bytes_at.
  assert (Hb : 0 <= blen rd) by (unfold blen; lia).
  rewrite mload_mstore by lia. rewrite mread_mstore_after.
  rewrite mread_rdcopy_prefix by lia. apply truncate_min. lia.
Qed.

Lemma response_read_u : forall m p M rd, 0 <= M < WW ->
  mread (mstore (rdcopy m (p + 32) 0 (Z.min M (blen rd)) rd) p (Z.min M (blen rd))) (p + 32)
        (mload (mstore (rdcopy m (p + 32) 0 (Z.min M (blen rd)) rd) p (Z.min M (blen rd))) p) = truncate M rd.
Proof.
  intros m p M rd HM.
  assert (Hb : 0 <= blen rd) by (unfold blen; lia).
  rewrite mload_mstore by lia. rewrite mread_mstore_after.
  rewrite mread_rdcopy_prefix by lia. apply truncate_min. lia.
Qed.

(* ---------------- the use-sites compute the documented behaviour ---------------- *)
Definition ptr_ok (p : Z) := 0 <= p /\ p + 32 < WW.

Lemma sel_min : forall M n, (if b2z (M <? n) =? 0 then n else M) = Z.min M n.
Proof. intros. destruct (Z.ltb_spec M n); simpl; lia. Qed.
Lemma lt_self_plus : forall n, (n <? 0 + n) = false.
Proof. intros. apply Z.ltb_ge. lia. Qed.
Lemma log2_lt256 : forall a, 0 <= a < 2 ^ 256 -> Z.log2 a < 256.
Proof. intros a H. destruct (Z.eq_dec a 0) as [->|N]; [reflexivity|]. apply Z.log2_lt_pow2; lia. Qed.
Lemma lxor_bound : forall a b, 0 <= a < 2 ^ 256 -> 0 <= b < 2 ^ 256 -> 0 <= Z.lxor a b < 2 ^ 256.
Proof.
  intros a b Ha Hb. assert (H0 : 0 <= Z.lxor a b) by (apply Z.lxor_nonneg; lia). split; [exact H0|].
  destruct (Z.eq_dec (Z.lxor a b) 0) as [E|N]; [rewrite E; reflexivity|].
  apply Z.log2_lt_pow2; [lia|].
  eapply Z.le_lt_trans; [apply Z.log2_lxor; lia|].
  apply Z.max_lub_lt; apply log2_lt256; assumption.
Qed.
Lemma cap_xor : forall M n, 0 <= M < WW -> 0 <= n -> Z.lxor M ((b2z (n <? M) * Z.lxor n M) mod WW) = Z.min M n.
Proof.
  intros M n HM Hn. destruct (Z.ltb_spec n M); simpl b2z.
  - rewrite Z.mul_1_l. rewrite Z.mod_small by (apply lxor_bound; unfold WW in *; lia).
    rewrite (Z.lxor_comm n M), <- Z.lxor_assoc, Z.lxor_nilpotent, Z.lxor_0_l. lia.
  - rewrite Z.mul_0_l, Z.mod_0_l by (unfold WW; lia). rewrite Z.lxor_0_r. lia.
Qed.

Lemma eqb10 : (1 =? 0) = false. Proof. reflexivity. Qed.
Lemma eqb00 : (0 =? 0) = true. Proof. reflexivity. Qed.
Ltac ev_cbn := cbn -[Z.eqb Z.ltb Z.leb rdcopy mread blen mload mstore exec_call Z.min WW Z.modulo Z.add truncate bytes_at Z.lxor Z.mul].
Ltac fin y buf :=
  rewrite ?(Z.mod_small (y_data y + 32) WW), ?(Z.mod_small (buf + 32) WW) by lia;
  unfold bytes_at;
  match goal with |- context [exec_call ?w ?c ?k ?t ?v ?d] => let o := fresh "o" in set (o := exec_call w c k t v d); destruct (o_ok o) end; ev_cbn; rewrite ?eqb10, ?eqb00; ev_cbn; rewrite ?eqb10, ?eqb00; ev_cbn;
  rewrite ?lt_self_plus, ?sel_min; ev_cbn;
  rewrite ?mread_rdcopy.

Ltac site_step :=
  match goal with |- context [run_site (gen_site ?k ?op) ?E ?m] =>
    let HS := fresh "HS" in
    pose proof (gen_site_spec k op E m) as HS; unfold site_spec in HS; cbn [e_res e_rd] in HS;
    rewrite ?eqb10, ?eqb00 in HS; try match goal with Ea : (_ =? 0) = false |- _ => rewrite Ea in HS end; rewrite HS; clear HS end.
Ltac ev_cbn2 := cbn -[Z.eqb Z.ltb Z.leb rdcopy mread blen mload mstore exec_call Z.min WW Z.modulo Z.add truncate bytes_at Z.lxor Z.mul run_site gen_site].
Ltac finv y :=
  rewrite ?(Z.mod_small (y_data y + 32) WW), ?(Z.mod_small (y_out y + 32) WW) by lia;
  unfold bytes_at;
  match goal with |- context [exec_call ?w ?c ?k ?t ?v ?d] => let o := fresh "o" in set (o := exec_call w c k t v d); destruct (o_ok o) end;
  cbn [b2z]; try site_step; ev_cbn2; rewrite ?cap_xor by (unfold blen; lia); ev_cbn2.


Lemma rcl_pos_KCall_111 : forall M c cr y s buf, 0 < M < WW -> ptr_ok (y_data y) -> ptr_ok buf ->
  observe M true (ev_top (mkG c cr (symtab y)) (gen_rawcall_legacy KCall M true true (sym "value_sym") buf) s)
  = raw_call_w KCall M true c (y_to y) (y_value y) (bytes_at (s_mem s) (y_data y)) (s_world s).
Proof.
  intros M c cr y s buf HM [Hd1 Hd2] [Hb1 Hb2].
  unfold gen_rawcall_legacy. destruct (Z.eqb_spec M 0) as [E|_]; [lia|].
  assert (HM' : (0 <? M) = true) by (apply Z.ltb_lt; lia).
  unfold ev_top, ev1, sym, propagate, call_node, raw_call_w; ev_cbn; fin y buf.
  all: unfold observe; rewrite ?HM'; f_equal;
    try match goal with
        | |- bytes_at _ _ = _ => apply response_read; lia
        | |- mread _ _ _ = truncate _ _ => apply response_read_u; lia
        end.
Qed.
Lemma rcl_zero_KCall_111 : forall c cr y s buf, ptr_ok (y_data y) ->
  observe 0 true (ev_top (mkG c cr (symtab y)) (gen_rawcall_legacy KCall 0 true true (sym "value_sym") buf) s)
  = raw_call_w KCall 0 true c (y_to y) (y_value y) (bytes_at (s_mem s) (y_data y)) (s_world s).
Proof.
  intros c cr y s buf [Hd1 Hd2].
  unfold gen_rawcall_legacy. rewrite ?eqb00.
  unfold ev_top, ev1, sym, propagate, call_node, raw_call_w; ev_cbn; fin y buf.
  all: unfold observe; cbn [Z.ltb Z.compare]; f_equal.
Qed.

Lemma rcl_pos_KCall_110 : forall M vlit c cr y s buf, 0 < M < WW -> ptr_ok (y_data y) -> ptr_ok buf ->
  observe M true (ev_top (mkG c cr (symtab y)) (gen_rawcall_legacy KCall M true true (SL vlit) buf) s)
  = raw_call_w KCall M true c (y_to y) (vlit) (bytes_at (s_mem s) (y_data y)) (s_world s).
Proof.
  intros M vlit c cr y s buf HM [Hd1 Hd2] [Hb1 Hb2].
  unfold gen_rawcall_legacy. destruct (Z.eqb_spec M 0) as [E|_]; [lia|].
  assert (HM' : (0 <? M) = true) by (apply Z.ltb_lt; lia).
  unfold ev_top, ev1, sym, propagate, call_node, raw_call_w; ev_cbn; fin y buf.
  all: unfold observe; rewrite ?HM'; f_equal;
    try match goal with
        | |- bytes_at _ _ = _ => apply response_read; lia
        | |- mread _ _ _ = truncate _ _ => apply response_read_u; lia
        end.
Qed.
Lemma rcl_zero_KCall_110 : forall vlit c cr y s buf, ptr_ok (y_data y) ->
  observe 0 true (ev_top (mkG c cr (symtab y)) (gen_rawcall_legacy KCall 0 true true (SL vlit) buf) s)
  = raw_call_w KCall 0 true c (y_to y) (vlit) (bytes_at (s_mem s) (y_data y)) (s_world s).
Proof.
  intros vlit c cr y s buf [Hd1 Hd2].
  unfold gen_rawcall_legacy. rewrite ?eqb00.
  unfold ev_top, ev1, sym, propagate, call_node, raw_call_w; ev_cbn; fin y buf.
  all: unfold observe; cbn [Z.ltb Z.compare]; f_equal.
Qed.

Lemma rcl_pos_KCall_101 : forall M c cr y s buf, 0 < M < WW -> ptr_ok (y_data y) -> ptr_ok buf ->
  observe M true (ev_top (mkG c cr (symtab y)) (gen_rawcall_legacy KCall M true false (sym "value_sym") buf) s)
  = raw_call_w KCall M true c (y_to y) (y_value y) (bytes_at (s_mem s) (y_data y)) (s_world s).
Proof.
  intros M c cr y s buf HM [Hd1 Hd2] [Hb1 Hb2].
  unfold gen_rawcall_legacy. destruct (Z.eqb_spec M 0) as [E|_]; [lia|].
  assert (HM' : (0 <? M) = true) by (apply Z.ltb_lt; lia).
  unfold ev_top, ev1, sym, propagate, call_node, raw_call_w; ev_cbn; fin y buf.
  all: unfold observe; rewrite ?HM'; f_equal;
    try match goal with
        | |- bytes_at _ _ = _ => apply response_read; lia
        | |- mread _ _ _ = truncate _ _ => apply response_read_u; lia
        end.
Qed.
Lemma rcl_zero_KCall_101 : forall c cr y s buf, ptr_ok (y_data y) ->
  observe 0 true (ev_top (mkG c cr (symtab y)) (gen_rawcall_legacy KCall 0 true false (sym "value_sym") buf) s)
  = raw_call_w KCall 0 true c (y_to y) (y_value y) (bytes_at (s_mem s) (y_data y)) (s_world s).
Proof.
  intros c cr y s buf [Hd1 Hd2].
  unfold gen_rawcall_legacy. rewrite ?eqb00.
  unfold ev_top, ev1, sym, propagate, call_node, raw_call_w; ev_cbn; fin y buf.
  all: unfold observe; cbn [Z.ltb Z.compare]; f_equal.
Qed.

Lemma rcl_pos_KCall_100 : forall M vlit c cr y s buf, 0 < M < WW -> ptr_ok (y_data y) -> ptr_ok buf ->
  observe M true (ev_top (mkG c cr (symtab y)) (gen_rawcall_legacy KCall M true false (SL vlit) buf) s)
  = raw_call_w KCall M true c (y_to y) (vlit) (bytes_at (s_mem s) (y_data y)) (s_world s).
Proof.
  intros M vlit c cr y s buf HM [Hd1 Hd2] [Hb1 Hb2].
  unfold gen_rawcall_legacy. destruct (Z.eqb_spec M 0) as [E|_]; [lia|].
  assert (HM' : (0 <? M) = true) by (apply Z.ltb_lt; lia).
  unfold ev_top, ev1, sym, propagate, call_node, raw_call_w; ev_cbn; fin y buf.
  all: unfold observe; rewrite ?HM'; f_equal;
    try match goal with
        | |- bytes_at _ _ = _ => apply response_read; lia
        | |- mread _ _ _ = truncate _ _ => apply response_read_u; lia
        end.
Qed.
Lemma rcl_zero_KCall_100 : forall vlit c cr y s buf, ptr_ok (y_data y) ->
  observe 0 true (ev_top (mkG c cr (symtab y)) (gen_rawcall_legacy KCall 0 true false (SL vlit) buf) s)
  = raw_call_w KCall 0 true c (y_to y) (vlit) (bytes_at (s_mem s) (y_data y)) (s_world s).
Proof.
  intros vlit c cr y s buf [Hd1 Hd2].
  unfold gen_rawcall_legacy. rewrite ?eqb00.
  unfold ev_top, ev1, sym, propagate, call_node, raw_call_w; ev_cbn; fin y buf.
  all: unfold observe; cbn [Z.ltb Z.compare]; f_equal.
Qed.

Lemma rcl_pos_KCall_011 : forall M c cr y s buf, 0 < M < WW -> ptr_ok (y_data y) -> ptr_ok buf ->
  observe M false (ev_top (mkG c cr (symtab y)) (gen_rawcall_legacy KCall M false true (sym "value_sym") buf) s)
  = raw_call_w KCall M false c (y_to y) (y_value y) (bytes_at (s_mem s) (y_data y)) (s_world s).
Proof.
  intros M c cr y s buf HM [Hd1 Hd2] [Hb1 Hb2].
  unfold gen_rawcall_legacy. destruct (Z.eqb_spec M 0) as [E|_]; [lia|].
  assert (HM' : (0 <? M) = true) by (apply Z.ltb_lt; lia).
  unfold ev_top, ev1, sym, propagate, call_node, raw_call_w; ev_cbn; fin y buf.
  all: unfold observe; rewrite ?HM'; f_equal;
    try match goal with
        | |- bytes_at _ _ = _ => apply response_read; lia
        | |- mread _ _ _ = truncate _ _ => apply response_read_u; lia
        end.
Qed.
Lemma rcl_zero_KCall_011 : forall c cr y s buf, ptr_ok (y_data y) ->
  observe 0 false (ev_top (mkG c cr (symtab y)) (gen_rawcall_legacy KCall 0 false true (sym "value_sym") buf) s)
  = raw_call_w KCall 0 false c (y_to y) (y_value y) (bytes_at (s_mem s) (y_data y)) (s_world s).
Proof.
  intros c cr y s buf [Hd1 Hd2].
  unfold gen_rawcall_legacy. rewrite ?eqb00.
  unfold ev_top, ev1, sym, propagate, call_node, raw_call_w; ev_cbn; fin y buf.
  all: unfold observe; cbn [Z.ltb Z.compare]; f_equal.
Qed.

Lemma rcl_pos_KCall_010 : forall M vlit c cr y s buf, 0 < M < WW -> ptr_ok (y_data y) -> ptr_ok buf ->
  observe M false (ev_top (mkG c cr (symtab y)) (gen_rawcall_legacy KCall M false true (SL vlit) buf) s)
  = raw_call_w KCall M false c (y_to y) (vlit) (bytes_at (s_mem s) (y_data y)) (s_world s).
Proof.
  intros M vlit c cr y s buf HM [Hd1 Hd2] [Hb1 Hb2].
  unfold gen_rawcall_legacy. destruct (Z.eqb_spec M 0) as [E|_]; [lia|].
  assert (HM' : (0 <? M) = true) by (apply Z.ltb_lt; lia).
  unfold ev_top, ev1, sym, propagate, call_node, raw_call_w; ev_cbn; fin y buf.
  all: unfold observe; rewrite ?HM'; f_equal;
    try match goal with
        | |- bytes_at _ _ = _ => apply response_read; lia
        | |- mread _ _ _ = truncate _ _ => apply response_read_u; lia
        end.
Qed.
Lemma rcl_zero_KCall_010 : forall vlit c cr y s buf, ptr_ok (y_data y) ->
  observe 0 false (ev_top (mkG c cr (symtab y)) (gen_rawcall_legacy KCall 0 false true (SL vlit) buf) s)
  = raw_call_w KCall 0 false c (y_to y) (vlit) (bytes_at (s_mem s) (y_data y)) (s_world s).
Proof.
  intros vlit c cr y s buf [Hd1 Hd2].
  unfold gen_rawcall_legacy. rewrite ?eqb00.
  unfold ev_top, ev1, sym, propagate, call_node, raw_call_w; ev_cbn; fin y buf.
  all: unfold observe; cbn [Z.ltb Z.compare]; f_equal.
Qed.

Lemma rcl_pos_KCall_001 : forall M c cr y s buf, 0 < M < WW -> ptr_ok (y_data y) -> ptr_ok buf ->
  observe M false (ev_top (mkG c cr (symtab y)) (gen_rawcall_legacy KCall M false false (sym "value_sym") buf) s)
  = raw_call_w KCall M false c (y_to y) (y_value y) (bytes_at (s_mem s) (y_data y)) (s_world s).
Proof.
  intros M c cr y s buf HM [Hd1 Hd2] [Hb1 Hb2].
  unfold gen_rawcall_legacy. destruct (Z.eqb_spec M 0) as [E|_]; [lia|].
  assert (HM' : (0 <? M) = true) by (apply Z.ltb_lt; lia).
  unfold ev_top, ev1, sym, propagate, call_node, raw_call_w; ev_cbn; fin y buf.
  all: unfold observe; rewrite ?HM'; f_equal;
    try match goal with
        | |- bytes_at _ _ = _ => apply response_read; lia
        | |- mread _ _ _ = truncate _ _ => apply response_read_u; lia
        end.
Qed.
Lemma rcl_zero_KCall_001 : forall c cr y s buf, ptr_ok (y_data y) ->
  observe 0 false (ev_top (mkG c cr (symtab y)) (gen_rawcall_legacy KCall 0 false false (sym "value_sym") buf) s)
  = raw_call_w KCall 0 false c (y_to y) (y_value y) (bytes_at (s_mem s) (y_data y)) (s_world s).
Proof.
  intros c cr y s buf [Hd1 Hd2].
  unfold gen_rawcall_legacy. rewrite ?eqb00.
  unfold ev_top, ev1, sym, propagate, call_node, raw_call_w; ev_cbn; fin y buf.
  all: unfold observe; cbn [Z.ltb Z.compare]; f_equal.
Qed.

Lemma rcl_pos_KCall_000 : forall M vlit c cr y s buf, 0 < M < WW -> ptr_ok (y_data y) -> ptr_ok buf ->
  observe M false (ev_top (mkG c cr (symtab y)) (gen_rawcall_legacy KCall M false false (SL vlit) buf) s)
  = raw_call_w KCall M false c (y_to y) (vlit) (bytes_at (s_mem s) (y_data y)) (s_world s).
Proof.
  intros M vlit c cr y s buf HM [Hd1 Hd2] [Hb1 Hb2].
  unfold gen_rawcall_legacy. destruct (Z.eqb_spec M 0) as [E|_]; [lia|].
  assert (HM' : (0 <? M) = true) by (apply Z.ltb_lt; lia).
  unfold ev_top, ev1, sym, propagate, call_node, raw_call_w; ev_cbn; fin y buf.
  all: unfold observe; rewrite ?HM'; f_equal;
    try match goal with
        | |- bytes_at _ _ = _ => apply response_read; lia
        | |- mread _ _ _ = truncate _ _ => apply response_read_u; lia
        end.
Qed.
Lemma rcl_zero_KCall_000 : forall vlit c cr y s buf, ptr_ok (y_data y) ->
  observe 0 false (ev_top (mkG c cr (symtab y)) (gen_rawcall_legacy KCall 0 false false (SL vlit) buf) s)
  = raw_call_w KCall 0 false c (y_to y) (vlit) (bytes_at (s_mem s) (y_data y)) (s_world s).
Proof.
  intros vlit c cr y s buf [Hd1 Hd2].
  unfold gen_rawcall_legacy. rewrite ?eqb00.
  unfold ev_top, ev1, sym, propagate, call_node, raw_call_w; ev_cbn; fin y buf.
  all: unfold observe; cbn [Z.ltb Z.compare]; f_equal.
Qed.

Lemma rcl_pos_KStatic_111 : forall M c cr y s buf, 0 < M < WW -> ptr_ok (y_data y) -> ptr_ok buf ->
  observe M true (ev_top (mkG c cr (symtab y)) (gen_rawcall_legacy KStatic M true true (sym "value_sym") buf) s)
  = raw_call_w KStatic M true c (y_to y) (0) (bytes_at (s_mem s) (y_data y)) (s_world s).
Proof.
  intros M c cr y s buf HM [Hd1 Hd2] [Hb1 Hb2].
  unfold gen_rawcall_legacy. destruct (Z.eqb_spec M 0) as [E|_]; [lia|].
  assert (HM' : (0 <? M) = true) by (apply Z.ltb_lt; lia).
  unfold ev_top, ev1, sym, propagate, call_node, raw_call_w; ev_cbn; fin y buf.
  all: unfold observe; rewrite ?HM'; f_equal;
    try match goal with
        | |- bytes_at _ _ = _ => apply response_read; lia
        | |- mread _ _ _ = truncate _ _ => apply response_read_u; lia
        end.
Qed.
Lemma rcl_zero_KStatic_111 : forall c cr y s buf, ptr_ok (y_data y) ->
  observe 0 true (ev_top (mkG c cr (symtab y)) (gen_rawcall_legacy KStatic 0 true true (sym "value_sym") buf) s)
  = raw_call_w KStatic 0 true c (y_to y) (0) (bytes_at (s_mem s) (y_data y)) (s_world s).
Proof.
  intros c cr y s buf [Hd1 Hd2].
  unfold gen_rawcall_legacy. rewrite ?eqb00.
  unfold ev_top, ev1, sym, propagate, call_node, raw_call_w; ev_cbn; fin y buf.
  all: unfold observe; cbn [Z.ltb Z.compare]; f_equal.
Qed.

Lemma rcl_pos_KStatic_110 : forall M vlit c cr y s buf, 0 < M < WW -> ptr_ok (y_data y) -> ptr_ok buf ->
  observe M true (ev_top (mkG c cr (symtab y)) (gen_rawcall_legacy KStatic M true true (SL vlit) buf) s)
  = raw_call_w KStatic M true c (y_to y) (0) (bytes_at (s_mem s) (y_data y)) (s_world s).
Proof.
  intros M vlit c cr y s buf HM [Hd1 Hd2] [Hb1 Hb2].
  unfold gen_rawcall_legacy. destruct (Z.eqb_spec M 0) as [E|_]; [lia|].
  assert (HM' : (0 <? M) = true) by (apply Z.ltb_lt; lia).
  unfold ev_top, ev1, sym, propagate, call_node, raw_call_w; ev_cbn; fin y buf.
  all: unfold observe; rewrite ?HM'; f_equal;
    try match goal with
        | |- bytes_at _ _ = _ => apply response_read; lia
        | |- mread _ _ _ = truncate _ _ => apply response_read_u; lia
        end.
Qed.
Lemma rcl_zero_KStatic_110 : forall vlit c cr y s buf, ptr_ok (y_data y) ->
  observe 0 true (ev_top (mkG c cr (symtab y)) (gen_rawcall_legacy KStatic 0 true true (SL vlit) buf) s)
  = raw_call_w KStatic 0 true c (y_to y) (0) (bytes_at (s_mem s) (y_data y)) (s_world s).
Proof.
  intros vlit c cr y s buf [Hd1 Hd2].
  unfold gen_rawcall_legacy. rewrite ?eqb00.
  unfold ev_top, ev1, sym, propagate, call_node, raw_call_w; ev_cbn; fin y buf.
  all: unfold observe; cbn [Z.ltb Z.compare]; f_equal.
Qed.

Lemma rcl_pos_KStatic_101 : forall M c cr y s buf, 0 < M < WW -> ptr_ok (y_data y) -> ptr_ok buf ->
  observe M true (ev_top (mkG c cr (symtab y)) (gen_rawcall_legacy KStatic M true false (sym "value_sym") buf) s)
  = raw_call_w KStatic M true c (y_to y) (0) (bytes_at (s_mem s) (y_data y)) (s_world s).
Proof.
  intros M c cr y s buf HM [Hd1 Hd2] [Hb1 Hb2].
  unfold gen_rawcall_legacy. destruct (Z.eqb_spec M 0) as [E|_]; [lia|].
  assert (HM' : (0 <? M) = true) by (apply Z.ltb_lt; lia).
  unfold ev_top, ev1, sym, propagate, call_node, raw_call_w; ev_cbn; fin y buf.
  all: unfold observe; rewrite ?HM'; f_equal;
    try match goal with
        | |- bytes_at _ _ = _ => apply response_read; lia
        | |- mread _ _ _ = truncate _ _ => apply response_read_u; lia
        end.
Qed.
Lemma rcl_zero_KStatic_101 : forall c cr y s buf, ptr_ok (y_data y) ->
  observe 0 true (ev_top (mkG c cr (symtab y)) (gen_rawcall_legacy KStatic 0 true false (sym "value_sym") buf) s)
  = raw_call_w KStatic 0 true c (y_to y) (0) (bytes_at (s_mem s) (y_data y)) (s_world s).
Proof.
  intros c cr y s buf [Hd1 Hd2].
  unfold gen_rawcall_legacy. rewrite ?eqb00.
  unfold ev_top, ev1, sym, propagate, call_node, raw_call_w; ev_cbn; fin y buf.
  all: unfold observe; cbn [Z.ltb Z.compare]; f_equal.
Qed.

Lemma rcl_pos_KStatic_100 : forall M vlit c cr y s buf, 0 < M < WW -> ptr_ok (y_data y) -> ptr_ok buf ->
  observe M true (ev_top (mkG c cr (symtab y)) (gen_rawcall_legacy KStatic M true false (SL vlit) buf) s)
  = raw_call_w KStatic M true c (y_to y) (0) (bytes_at (s_mem s) (y_data y)) (s_world s).
Proof.
  intros M vlit c cr y s buf HM [Hd1 Hd2] [Hb1 Hb2].
  unfold gen_rawcall_legacy. destruct (Z.eqb_spec M 0) as [E|_]; [lia|].
  assert (HM' : (0 <? M) = true) by (apply Z.ltb_lt; lia).
  unfold ev_top, ev1, sym, propagate, call_node, raw_call_w; ev_cbn; fin y buf.
  all: unfold observe; rewrite ?HM'; f_equal;
    try match goal with
        | |- bytes_at _ _ = _ => apply response_read; lia
        | |- mread _ _ _ = truncate _ _ => apply response_read_u; lia
        end.
Qed.
Lemma rcl_zero_KStatic_100 : forall vlit c cr y s buf, ptr_ok (y_data y) ->
  observe 0 true (ev_top (mkG c cr (symtab y)) (gen_rawcall_legacy KStatic 0 true false (SL vlit) buf) s)
  = raw_call_w KStatic 0 true c (y_to y) (0) (bytes_at (s_mem s) (y_data y)) (s_world s).
Proof.
  intros vlit c cr y s buf [Hd1 Hd2].
  unfold gen_rawcall_legacy. rewrite ?eqb00.
  unfold ev_top, ev1, sym, propagate, call_node, raw_call_w; ev_cbn; fin y buf.
  all: unfold observe; cbn [Z.ltb Z.compare]; f_equal.
Qed.

Lemma rcl_pos_KStatic_011 : forall M c cr y s buf, 0 < M < WW -> ptr_ok (y_data y) -> ptr_ok buf ->
  observe M false (ev_top (mkG c cr (symtab y)) (gen_rawcall_legacy KStatic M false true (sym "value_sym") buf) s)
  = raw_call_w KStatic M false c (y_to y) (0) (bytes_at (s_mem s) (y_data y)) (s_world s).
Proof.
  intros M c cr y s buf HM [Hd1 Hd2] [Hb1 Hb2].
  unfold gen_rawcall_legacy. destruct (Z.eqb_spec M 0) as [E|_]; [lia|].
  assert (HM' : (0 <? M) = true) by (apply Z.ltb_lt; lia).
  unfold ev_top, ev1, sym, propagate, call_node, raw_call_w; ev_cbn; fin y buf.
  all: unfold observe; rewrite ?HM'; f_equal;
    try match goal with
        | |- bytes_at _ _ = _ => apply response_read; lia
        | |- mread _ _ _ = truncate _ _ => apply response_read_u; lia
        end.
Qed.
Lemma rcl_zero_KStatic_011 : forall c cr y s buf, ptr_ok (y_data y) ->
  observe 0 false (ev_top (mkG c cr (symtab y)) (gen_rawcall_legacy KStatic 0 false true (sym "value_sym") buf) s)
  = raw_call_w KStatic 0 false c (y_to y) (0) (bytes_at (s_mem s) (y_data y)) (s_world s).
Proof.
  intros c cr y s buf [Hd1 Hd2].
  unfold gen_rawcall_legacy. rewrite ?eqb00.
  unfold ev_top, ev1, sym, propagate, call_node, raw_call_w; ev_cbn; fin y buf.
  all: unfold observe; cbn [Z.ltb Z.compare]; f_equal.
Qed.

Lemma rcl_pos_KStatic_010 : forall M vlit c cr y s buf, 0 < M < WW -> ptr_ok (y_data y) -> ptr_ok buf ->
  observe M false (ev_top (mkG c cr (symtab y)) (gen_rawcall_legacy KStatic M false true (SL vlit) buf) s)
  = raw_call_w KStatic M false c (y_to y) (0) (bytes_at (s_mem s) (y_data y)) (s_world s).
Proof.
  intros M vlit c cr y s buf HM [Hd1 Hd2] [Hb1 Hb2].
  unfold gen_rawcall_legacy. destruct (Z.eqb_spec M 0) as [E|_]; [lia|].
  assert (HM' : (0 <? M) = true) by (apply Z.ltb_lt; lia).
  unfold ev_top, ev1, sym, propagate, call_node, raw_call_w; ev_cbn; fin y buf.
  all: unfold observe; rewrite ?HM'; f_equal;
    try match goal with
        | |- bytes_at _ _ = _ => apply response_read; lia
        | |- mread _ _ _ = truncate _ _ => apply response_read_u; lia
        end.
Qed.
Lemma rcl_zero_KStatic_010 : forall vlit c cr y s buf, ptr_ok (y_data y) ->
  observe 0 false (ev_top (mkG c cr (symtab y)) (gen_rawcall_legacy KStatic 0 false true (SL vlit) buf) s)
  = raw_call_w KStatic 0 false c (y_to y) (0) (bytes_at (s_mem s) (y_data y)) (s_world s).
Proof.
  intros vlit c cr y s buf [Hd1 Hd2].
  unfold gen_rawcall_legacy. rewrite ?eqb00.
  unfold ev_top, ev1, sym, propagate, call_node, raw_call_w; ev_cbn; fin y buf.
  all: unfold observe; cbn [Z.ltb Z.compare]; f_equal.
Qed.

Lemma rcl_pos_KStatic_001 : forall M c cr y s buf, 0 < M < WW -> ptr_ok (y_data y) -> ptr_ok buf ->
  observe M false (ev_top (mkG c cr (symtab y)) (gen_rawcall_legacy KStatic M false false (sym "value_sym") buf) s)
  = raw_call_w KStatic M false c (y_to y) (0) (bytes_at (s_mem s) (y_data y)) (s_world s).
Proof.
  intros M c cr y s buf HM [Hd1 Hd2] [Hb1 Hb2].
  unfold gen_rawcall_legacy. destruct (Z.eqb_spec M 0) as [E|_]; [lia|].
  assert (HM' : (0 <? M) = true) by (apply Z.ltb_lt; lia).
  unfold ev_top, ev1, sym, propagate, call_node, raw_call_w; ev_cbn; fin y buf.
  all: unfold observe; rewrite ?HM'; f_equal;
    try match goal with
        | |- bytes_at _ _ = _ => apply response_read; lia
        | |- mread _ _ _ = truncate _ _ => apply response_read_u; lia
        end.
Qed.
Lemma rcl_zero_KStatic_001 : forall c cr y s buf, ptr_ok (y_data y) ->
  observe 0 false (ev_top (mkG c cr (symtab y)) (gen_rawcall_legacy KStatic 0 false false (sym "value_sym") buf) s)
  = raw_call_w KStatic 0 false c (y_to y) (0) (bytes_at (s_mem s) (y_data y)) (s_world s).
Proof.
  intros c cr y s buf [Hd1 Hd2].
  unfold gen_rawcall_legacy. rewrite ?eqb00.
  unfold ev_top, ev1, sym, propagate, call_node, raw_call_w; ev_cbn; fin y buf.
  all: unfold observe; cbn [Z.ltb Z.compare]; f_equal.
Qed.

Lemma rcl_pos_KStatic_000 : forall M vlit c cr y s buf, 0 < M < WW -> ptr_ok (y_data y) -> ptr_ok buf ->
  observe M false (ev_top (mkG c cr (symtab y)) (gen_rawcall_legacy KStatic M false false (SL vlit) buf) s)
  = raw_call_w KStatic M false c (y_to y) (0) (bytes_at (s_mem s) (y_data y)) (s_world s).
Proof.
  intros M vlit c cr y s buf HM [Hd1 Hd2] [Hb1 Hb2].
  unfold gen_rawcall_legacy. destruct (Z.eqb_spec M 0) as [E|_]; [lia|].
  assert (HM' : (0 <? M) = true) by (apply Z.ltb_lt; lia).
  unfold ev_top, ev1, sym, propagate, call_node, raw_call_w; ev_cbn; fin y buf.
  all: unfold observe; rewrite ?HM'; f_equal;
    try match goal with
        | |- bytes_at _ _ = _ => apply response_read; lia
        | |- mread _ _ _ = truncate _ _ => apply response_read_u; lia
        end.
Qed.
Lemma rcl_zero_KStatic_000 : forall vlit c cr y s buf, ptr_ok (y_data y) ->
  observe 0 false (ev_top (mkG c cr (symtab y)) (gen_rawcall_legacy KStatic 0 false false (SL vlit) buf) s)
  = raw_call_w KStatic 0 false c (y_to y) (0) (bytes_at (s_mem s) (y_data y)) (s_world s).
Proof.
  intros vlit c cr y s buf [Hd1 Hd2].
  unfold gen_rawcall_legacy. rewrite ?eqb00.
  unfold ev_top, ev1, sym, propagate, call_node, raw_call_w; ev_cbn; fin y buf.
  all: unfold observe; cbn [Z.ltb Z.compare]; f_equal.
Qed.

Lemma rcl_pos_KDelegate_111 : forall M c cr y s buf, 0 < M < WW -> ptr_ok (y_data y) -> ptr_ok buf ->
  observe M true (ev_top (mkG c cr (symtab y)) (gen_rawcall_legacy KDelegate M true true (sym "value_sym") buf) s)
  = raw_call_w KDelegate M true c (y_to y) (0) (bytes_at (s_mem s) (y_data y)) (s_world s).
Proof.
  intros M c cr y s buf HM [Hd1 Hd2] [Hb1 Hb2].
  unfold gen_rawcall_legacy. destruct (Z.eqb_spec M 0) as [E|_]; [lia|].
  assert (HM' : (0 <? M) = true) by (apply Z.ltb_lt; lia).
  unfold ev_top, ev1, sym, propagate, call_node, raw_call_w; ev_cbn; fin y buf.
  all: unfold observe; rewrite ?HM'; f_equal;
    try match goal with
        | |- bytes_at _ _ = _ => apply response_read; lia
        | |- mread _ _ _ = truncate _ _ => apply response_read_u; lia
        end.
Qed.
Lemma rcl_zero_KDelegate_111 : forall c cr y s buf, ptr_ok (y_data y) ->
  observe 0 true (ev_top (mkG c cr (symtab y)) (gen_rawcall_legacy KDelegate 0 true true (sym "value_sym") buf) s)
  = raw_call_w KDelegate 0 true c (y_to y) (0) (bytes_at (s_mem s) (y_data y)) (s_world s).
Proof.
  intros c cr y s buf [Hd1 Hd2].
  unfold gen_rawcall_legacy. rewrite ?eqb00.
  unfold ev_top, ev1, sym, propagate, call_node, raw_call_w; ev_cbn; fin y buf.
  all: unfold observe; cbn [Z.ltb Z.compare]; f_equal.
Qed.

Lemma rcl_pos_KDelegate_110 : forall M vlit c cr y s buf, 0 < M < WW -> ptr_ok (y_data y) -> ptr_ok buf ->
  observe M true (ev_top (mkG c cr (symtab y)) (gen_rawcall_legacy KDelegate M true true (SL vlit) buf) s)
  = raw_call_w KDelegate M true c (y_to y) (0) (bytes_at (s_mem s) (y_data y)) (s_world s).
Proof.
  intros M vlit c cr y s buf HM [Hd1 Hd2] [Hb1 Hb2].
  unfold gen_rawcall_legacy. destruct (Z.eqb_spec M 0) as [E|_]; [lia|].
  assert (HM' : (0 <? M) = true) by (apply Z.ltb_lt; lia).
  unfold ev_top, ev1, sym, propagate, call_node, raw_call_w; ev_cbn; fin y buf.
  all: unfold observe; rewrite ?HM'; f_equal;
    try match goal with
        | |- bytes_at _ _ = _ => apply response_read; lia
        | |- mread _ _ _ = truncate _ _ => apply response_read_u; lia
        end.
Qed.
Lemma rcl_zero_KDelegate_110 : forall vlit c cr y s buf, ptr_ok (y_data y) ->
  observe 0 true (ev_top (mkG c cr (symtab y)) (gen_rawcall_legacy KDelegate 0 true true (SL vlit) buf) s)
  = raw_call_w KDelegate 0 true c (y_to y) (0) (bytes_at (s_mem s) (y_data y)) (s_world s).
Proof.
  intros vlit c cr y s buf [Hd1 Hd2].
  unfold gen_rawcall_legacy. rewrite ?eqb00.
  unfold ev_top, ev1, sym, propagate, call_node, raw_call_w; ev_cbn; fin y buf.
  all: unfold observe; cbn [Z.ltb Z.compare]; f_equal.
Qed.

Lemma rcl_pos_KDelegate_101 : forall M c cr y s buf, 0 < M < WW -> ptr_ok (y_data y) -> ptr_ok buf ->
  observe M true (ev_top (mkG c cr (symtab y)) (gen_rawcall_legacy KDelegate M true false (sym "value_sym") buf) s)
  = raw_call_w KDelegate M true c (y_to y) (0) (bytes_at (s_mem s) (y_data y)) (s_world s).
Proof.
  intros M c cr y s buf HM [Hd1 Hd2] [Hb1 Hb2].
  unfold gen_rawcall_legacy. destruct (Z.eqb_spec M 0) as [E|_]; [lia|].
  assert (HM' : (0 <? M) = true) by (apply Z.ltb_lt; lia).
  unfold ev_top, ev1, sym, propagate, call_node, raw_call_w; ev_cbn; fin y buf.
  all: unfold observe; rewrite ?HM'; f_equal;
    try match goal with
        | |- bytes_at _ _ = _ => apply response_read; lia
        | |- mread _ _ _ = truncate _ _ => apply response_read_u; lia
        end.
Qed.
Lemma rcl_zero_KDelegate_101 : forall c cr y s buf, ptr_ok (y_data y) ->
  observe 0 true (ev_top (mkG c cr (symtab y)) (gen_rawcall_legacy KDelegate 0 true false (sym "value_sym") buf) s)
  = raw_call_w KDelegate 0 true c (y_to y) (0) (bytes_at (s_mem s) (y_data y)) (s_world s).
Proof.
  intros c cr y s buf [Hd1 Hd2].
  unfold gen_rawcall_legacy. rewrite ?eqb00.
  unfold ev_top, ev1, sym, propagate, call_node, raw_call_w; ev_cbn; fin y buf.
  all: unfold observe; cbn [Z.ltb Z.compare]; f_equal.
Qed.

Lemma rcl_pos_KDelegate_100 : forall M vlit c cr y s buf, 0 < M < WW -> ptr_ok (y_data y) -> ptr_ok buf ->
  observe M true (ev_top (mkG c cr (symtab y)) (gen_rawcall_legacy KDelegate M true false (SL vlit) buf) s)
  = raw_call_w KDelegate M true c (y_to y) (0) (bytes_at (s_mem s) (y_data y)) (s_world s).
Proof.
  intros M vlit c cr y s buf HM [Hd1 Hd2] [Hb1 Hb2].
  unfold gen_rawcall_legacy. destruct (Z.eqb_spec M 0) as [E|_]; [lia|].
  assert (HM' : (0 <? M) = true) by (apply Z.ltb_lt; lia).
  unfold ev_top, ev1, sym, propagate, call_node, raw_call_w; ev_cbn; fin y buf.
  all: unfold observe; rewrite ?HM'; f_equal;
    try match goal with
        | |- bytes_at _ _ = _ => apply response_read; lia
        | |- mread _ _ _ = truncate _ _ => apply response_read_u; lia
        end.
Qed.
Lemma rcl_zero_KDelegate_100 : forall vlit c cr y s buf, ptr_ok (y_data y) ->
  observe 0 true (ev_top (mkG c cr (symtab y)) (gen_rawcall_legacy KDelegate 0 true false (SL vlit) buf) s)
  = raw_call_w KDelegate 0 true c (y_to y) (0) (bytes_at (s_mem s) (y_data y)) (s_world s).
Proof.
  intros vlit c cr y s buf [Hd1 Hd2].
  unfold gen_rawcall_legacy. rewrite ?eqb00.
  unfold ev_top, ev1, sym, propagate, call_node, raw_call_w; ev_cbn; fin y buf.
  all: unfold observe; cbn [Z.ltb Z.compare]; f_equal.
Qed.

Lemma rcl_pos_KDelegate_011 : forall M c cr y s buf, 0 < M < WW -> ptr_ok (y_data y) -> ptr_ok buf ->
  observe M false (ev_top (mkG c cr (symtab y)) (gen_rawcall_legacy KDelegate M false true (sym "value_sym") buf) s)
  = raw_call_w KDelegate M false c (y_to y) (0) (bytes_at (s_mem s) (y_data y)) (s_world s).
Proof.
  intros M c cr y s buf HM [Hd1 Hd2] [Hb1 Hb2].
  unfold gen_rawcall_legacy. destruct (Z.eqb_spec M 0) as [E|_]; [lia|].
  assert (HM' : (0 <? M) = true) by (apply Z.ltb_lt; lia).
  unfold ev_top, ev1, sym, propagate, call_node, raw_call_w; ev_cbn; fin y buf.
  all: unfold observe; rewrite ?HM'; f_equal;
    try match goal with
        | |- bytes_at _ _ = _ => apply response_read; lia
        | |- mread _ _ _ = truncate _ _ => apply response_read_u; lia
        end.
Qed.
Lemma rcl_zero_KDelegate_011 : forall c cr y s buf, ptr_ok (y_data y) ->
  observe 0 false (ev_top (mkG c cr (symtab y)) (gen_rawcall_legacy KDelegate 0 false true (sym "value_sym") buf) s)
  = raw_call_w KDelegate 0 false c (y_to y) (0) (bytes_at (s_mem s) (y_data y)) (s_world s).
Proof.
  intros c cr y s buf [Hd1 Hd2].
  unfold gen_rawcall_legacy. rewrite ?eqb00.
  unfold ev_top, ev1, sym, propagate, call_node, raw_call_w; ev_cbn; fin y buf.
  all: unfold observe; cbn [Z.ltb Z.compare]; f_equal.
Qed.

Lemma rcl_pos_KDelegate_010 : forall M vlit c cr y s buf, 0 < M < WW -> ptr_ok (y_data y) -> ptr_ok buf ->
  observe M false (ev_top (mkG c cr (symtab y)) (gen_rawcall_legacy KDelegate M false true (SL vlit) buf) s)
  = raw_call_w KDelegate M false c (y_to y) (0) (bytes_at (s_mem s) (y_data y)) (s_world s).
Proof.
  intros M vlit c cr y s buf HM [Hd1 Hd2] [Hb1 Hb2].
  unfold gen_rawcall_legacy. destruct (Z.eqb_spec M 0) as [E|_]; [lia|].
  assert (HM' : (0 <? M) = true) by (apply Z.ltb_lt; lia).
  unfold ev_top, ev1, sym, propagate, call_node, raw_call_w; ev_cbn; fin y buf.
  all: unfold observe; rewrite ?HM'; f_equal;
    try match goal with
        | |- bytes_at _ _ = _ => apply response_read; lia
        | |- mread _ _ _ = truncate _ _ => apply response_read_u; lia
        end.
Qed.
Lemma rcl_zero_KDelegate_010 : forall vlit c cr y s buf, ptr_ok (y_data y) ->
  observe 0 false (ev_top (mkG c cr (symtab y)) (gen_rawcall_legacy KDelegate 0 false true (SL vlit) buf) s)
  = raw_call_w KDelegate 0 false c (y_to y) (0) (bytes_at (s_mem s) (y_data y)) (s_world s).
Proof.
  intros vlit c cr y s buf [Hd1 Hd2].
  unfold gen_rawcall_legacy. rewrite ?eqb00.
  unfold ev_top, ev1, sym, propagate, call_node, raw_call_w; ev_cbn; fin y buf.
  all: unfold observe; cbn [Z.ltb Z.compare]; f_equal.
Qed.

Lemma rcl_pos_KDelegate_001 : forall M c cr y s buf, 0 < M < WW -> ptr_ok (y_data y) -> ptr_ok buf ->
  observe M false (ev_top (mkG c cr (symtab y)) (gen_rawcall_legacy KDelegate M false false (sym "value_sym") buf) s)
  = raw_call_w KDelegate M false c (y_to y) (0) (bytes_at (s_mem s) (y_data y)) (s_world s).
Proof.
  intros M c cr y s buf HM [Hd1 Hd2] [Hb1 Hb2].
  unfold gen_rawcall_legacy. destruct (Z.eqb_spec M 0) as [E|_]; [lia|].
  assert (HM' : (0 <? M) = true) by (apply Z.ltb_lt; lia).
  unfold ev_top, ev1, sym, propagate, call_node, raw_call_w; ev_cbn; fin y buf.
  all: unfold observe; rewrite ?HM'; f_equal;
    try match goal with
        | |- bytes_at _ _ = _ => apply response_read; lia
        | |- mread _ _ _ = truncate _ _ => apply response_read_u; lia
        end.
Qed.
Lemma rcl_zero_KDelegate_001 : forall c cr y s buf, ptr_ok (y_data y) ->
  observe 0 false (ev_top (mkG c cr (symtab y)) (gen_rawcall_legacy KDelegate 0 false false (sym "value_sym") buf) s)
  = raw_call_w KDelegate 0 false c (y_to y) (0) (bytes_at (s_mem s) (y_data y)) (s_world s).
Proof.
  intros c cr y s buf [Hd1 Hd2].
  unfold gen_rawcall_legacy. rewrite ?eqb00.
  unfold ev_top, ev1, sym, propagate, call_node, raw_call_w; ev_cbn; fin y buf.
  all: unfold observe; cbn [Z.ltb Z.compare]; f_equal.
Qed.

Lemma rcl_pos_KDelegate_000 : forall M vlit c cr y s buf, 0 < M < WW -> ptr_ok (y_data y) -> ptr_ok buf ->
  observe M false (ev_top (mkG c cr (symtab y)) (gen_rawcall_legacy KDelegate M false false (SL vlit) buf) s)
  = raw_call_w KDelegate M false c (y_to y) (0) (bytes_at (s_mem s) (y_data y)) (s_world s).
Proof.
  intros M vlit c cr y s buf HM [Hd1 Hd2] [Hb1 Hb2].
  unfold gen_rawcall_legacy. destruct (Z.eqb_spec M 0) as [E|_]; [lia|].
  assert (HM' : (0 <? M) = true) by (apply Z.ltb_lt; lia).
  unfold ev_top, ev1, sym, propagate, call_node, raw_call_w; ev_cbn; fin y buf.
  all: unfold observe; rewrite ?HM'; f_equal;
    try match goal with
        | |- bytes_at _ _ = _ => apply response_read; lia
        | |- mread _ _ _ = truncate _ _ => apply response_read_u; lia
        end.
Qed.
Lemma rcl_zero_KDelegate_000 : forall vlit c cr y s buf, ptr_ok (y_data y) ->
  observe 0 false (ev_top (mkG c cr (symtab y)) (gen_rawcall_legacy KDelegate 0 false false (SL vlit) buf) s)
  = raw_call_w KDelegate 0 false c (y_to y) (0) (bytes_at (s_mem s) (y_data y)) (s_world s).
Proof.
  intros vlit c cr y s buf [Hd1 Hd2].
  unfold gen_rawcall_legacy. rewrite ?eqb00.
  unfold ev_top, ev1, sym, propagate, call_node, raw_call_w; ev_cbn; fin y buf.
  all: unfold observe; cbn [Z.ltb Z.compare]; f_equal.
Qed.

Lemma rcv_pos_KCall_11 : forall M (glit vlit : Z) c cr y s fp tg, 0 < M < WW -> ptr_ok (y_data y) -> ptr_ok (y_out y) ->
  observe M true (run_vsite (mkG c cr (symtab y)) (gen_rawcall_venom KCall M true (SL glit) (SL vlit)) fp tg s)
  = raw_call_w KCall M true c (y_to y) (vlit) (bytes_at (s_mem s) (y_data y)) (s_world s).
Proof.
  intros M glit vlit c cr y s fp tg HM [Hd1 Hd2] [Hb1 Hb2].
  unfold gen_rawcall_venom. destruct (Z.eqb_spec M 0) as [E|_]; [lia|].
  assert (HM' : (0 <? M) = true) by (apply Z.ltb_lt; lia).
  unfold run_vsite, cap_tree, sym, raw_call_w, kind_op; ev_cbn2; finv y.
  all: unfold observe; rewrite ?HM'; f_equal;
    try match goal with
        | |- bytes_at _ _ = _ => apply response_read; lia
        | |- mread _ _ _ = truncate _ _ => apply response_read_u; lia
        end.
Qed.
Lemma rcv_zero_KCall_11 : forall (glit vlit : Z) c cr y s fp tg, ptr_ok (y_data y) ->
  observe 0 true (run_vsite (mkG c cr (symtab y)) (gen_rawcall_venom KCall 0 true (SL glit) (SL vlit)) fp tg s)
  = raw_call_w KCall 0 true c (y_to y) (vlit) (bytes_at (s_mem s) (y_data y)) (s_world s).
Proof.
  intros glit vlit c cr y s fp tg [Hd1 Hd2].
  unfold gen_rawcall_venom. rewrite ?eqb00.
  unfold run_vsite, sym, raw_call_w, kind_op; ev_cbn2; finv y.
  all: unfold observe; cbn [Z.ltb Z.compare]; f_equal.
Qed.

Lemma rcv_pos_KCall_10 : forall M (glit vlit : Z) c cr y s fp tg, 0 < M < WW -> ptr_ok (y_data y) -> ptr_ok (y_out y) ->
  observe M true (run_vsite (mkG c cr (symtab y)) (gen_rawcall_venom KCall M true (sym "gas") (SL vlit)) fp tg s)
  = raw_call_w KCall M true c (y_to y) (vlit) (bytes_at (s_mem s) (y_data y)) (s_world s).
Proof.
  intros M glit vlit c cr y s fp tg HM [Hd1 Hd2] [Hb1 Hb2].
  unfold gen_rawcall_venom. destruct (Z.eqb_spec M 0) as [E|_]; [lia|].
  assert (HM' : (0 <? M) = true) by (apply Z.ltb_lt; lia).
  unfold run_vsite, cap_tree, sym, raw_call_w, kind_op; ev_cbn2; finv y.
  all: unfold observe; rewrite ?HM'; f_equal;
    try match goal with
        | |- bytes_at _ _ = _ => apply response_read; lia
        | |- mread _ _ _ = truncate _ _ => apply response_read_u; lia
        end.
Qed.
Lemma rcv_zero_KCall_10 : forall (glit vlit : Z) c cr y s fp tg, ptr_ok (y_data y) ->
  observe 0 true (run_vsite (mkG c cr (symtab y)) (gen_rawcall_venom KCall 0 true (sym "gas") (SL vlit)) fp tg s)
  = raw_call_w KCall 0 true c (y_to y) (vlit) (bytes_at (s_mem s) (y_data y)) (s_world s).
Proof.
  intros glit vlit c cr y s fp tg [Hd1 Hd2].
  unfold gen_rawcall_venom. rewrite ?eqb00.
  unfold run_vsite, sym, raw_call_w, kind_op; ev_cbn2; finv y.
  all: unfold observe; cbn [Z.ltb Z.compare]; f_equal.
Qed.

Lemma rcv_pos_KCall_01 : forall M (glit vlit : Z) c cr y s fp tg, 0 < M < WW -> ptr_ok (y_data y) -> ptr_ok (y_out y) ->
  observe M false (run_vsite (mkG c cr (symtab y)) (gen_rawcall_venom KCall M false (SL glit) (SL vlit)) fp tg s)
  = raw_call_w KCall M false c (y_to y) (vlit) (bytes_at (s_mem s) (y_data y)) (s_world s).
Proof.
  intros M glit vlit c cr y s fp tg HM [Hd1 Hd2] [Hb1 Hb2].
  unfold gen_rawcall_venom. destruct (Z.eqb_spec M 0) as [E|_]; [lia|].
  assert (HM' : (0 <? M) = true) by (apply Z.ltb_lt; lia).
  unfold run_vsite, cap_tree, sym, raw_call_w, kind_op; ev_cbn2; finv y.
  all: unfold observe; rewrite ?HM'; f_equal;
    try match goal with
        | |- bytes_at _ _ = _ => apply response_read; lia
        | |- mread _ _ _ = truncate _ _ => apply response_read_u; lia
        end.
Qed.
Lemma rcv_zero_KCall_01 : forall (glit vlit : Z) c cr y s fp tg, ptr_ok (y_data y) ->
  observe 0 false (run_vsite (mkG c cr (symtab y)) (gen_rawcall_venom KCall 0 false (SL glit) (SL vlit)) fp tg s)
  = raw_call_w KCall 0 false c (y_to y) (vlit) (bytes_at (s_mem s) (y_data y)) (s_world s).
Proof.
  intros glit vlit c cr y s fp tg [Hd1 Hd2].
  unfold gen_rawcall_venom. rewrite ?eqb00.
  unfold run_vsite, sym, raw_call_w, kind_op; ev_cbn2; finv y.
  all: unfold observe; cbn [Z.ltb Z.compare]; f_equal.
Qed.

Lemma rcv_pos_KCall_00 : forall M (glit vlit : Z) c cr y s fp tg, 0 < M < WW -> ptr_ok (y_data y) -> ptr_ok (y_out y) ->
  observe M false (run_vsite (mkG c cr (symtab y)) (gen_rawcall_venom KCall M false (sym "gas") (SL vlit)) fp tg s)
  = raw_call_w KCall M false c (y_to y) (vlit) (bytes_at (s_mem s) (y_data y)) (s_world s).
Proof.
  intros M glit vlit c cr y s fp tg HM [Hd1 Hd2] [Hb1 Hb2].
  unfold gen_rawcall_venom. destruct (Z.eqb_spec M 0) as [E|_]; [lia|].
  assert (HM' : (0 <? M) = true) by (apply Z.ltb_lt; lia).
  unfold run_vsite, cap_tree, sym, raw_call_w, kind_op; ev_cbn2; finv y.
  all: unfold observe; rewrite ?HM'; f_equal;
    try match goal with
        | |- bytes_at _ _ = _ => apply response_read; lia
        | |- mread _ _ _ = truncate _ _ => apply response_read_u; lia
        end.
Qed.
Lemma rcv_zero_KCall_00 : forall (glit vlit : Z) c cr y s fp tg, ptr_ok (y_data y) ->
  observe 0 false (run_vsite (mkG c cr (symtab y)) (gen_rawcall_venom KCall 0 false (sym "gas") (SL vlit)) fp tg s)
  = raw_call_w KCall 0 false c (y_to y) (vlit) (bytes_at (s_mem s) (y_data y)) (s_world s).
Proof.
  intros glit vlit c cr y s fp tg [Hd1 Hd2].
  unfold gen_rawcall_venom. rewrite ?eqb00.
  unfold run_vsite, sym, raw_call_w, kind_op; ev_cbn2; finv y.
  all: unfold observe; cbn [Z.ltb Z.compare]; f_equal.
Qed.

Lemma rcv_pos_KStatic_11 : forall M (glit vlit : Z) c cr y s fp tg, 0 < M < WW -> ptr_ok (y_data y) -> ptr_ok (y_out y) ->
  observe M true (run_vsite (mkG c cr (symtab y)) (gen_rawcall_venom KStatic M true (SL glit) (SL vlit)) fp tg s)
  = raw_call_w KStatic M true c (y_to y) (0) (bytes_at (s_mem s) (y_data y)) (s_world s).
Proof.
  intros M glit vlit c cr y s fp tg HM [Hd1 Hd2] [Hb1 Hb2].
  unfold gen_rawcall_venom. destruct (Z.eqb_spec M 0) as [E|_]; [lia|].
  assert (HM' : (0 <? M) = true) by (apply Z.ltb_lt; lia).
  unfold run_vsite, cap_tree, sym, raw_call_w, kind_op; ev_cbn2; finv y.
  all: unfold observe; rewrite ?HM'; f_equal;
    try match goal with
        | |- bytes_at _ _ = _ => apply response_read; lia
        | |- mread _ _ _ = truncate _ _ => apply response_read_u; lia
        end.
Qed.
Lemma rcv_zero_KStatic_11 : forall (glit vlit : Z) c cr y s fp tg, ptr_ok (y_data y) ->
  observe 0 true (run_vsite (mkG c cr (symtab y)) (gen_rawcall_venom KStatic 0 true (SL glit) (SL vlit)) fp tg s)
  = raw_call_w KStatic 0 true c (y_to y) (0) (bytes_at (s_mem s) (y_data y)) (s_world s).
Proof.
  intros glit vlit c cr y s fp tg [Hd1 Hd2].
  unfold gen_rawcall_venom. rewrite ?eqb00.
  unfold run_vsite, sym, raw_call_w, kind_op; ev_cbn2; finv y.
  all: unfold observe; cbn [Z.ltb Z.compare]; f_equal.
Qed.

Lemma rcv_pos_KStatic_10 : forall M (glit vlit : Z) c cr y s fp tg, 0 < M < WW -> ptr_ok (y_data y) -> ptr_ok (y_out y) ->
  observe M true (run_vsite (mkG c cr (symtab y)) (gen_rawcall_venom KStatic M true (sym "gas") (SL vlit)) fp tg s)
  = raw_call_w KStatic M true c (y_to y) (0) (bytes_at (s_mem s) (y_data y)) (s_world s).
Proof.
  intros M glit vlit c cr y s fp tg HM [Hd1 Hd2] [Hb1 Hb2].
  unfold gen_rawcall_venom. destruct (Z.eqb_spec M 0) as [E|_]; [lia|].
  assert (HM' : (0 <? M) = true) by (apply Z.ltb_lt; lia).
  unfold run_vsite, cap_tree, sym, raw_call_w, kind_op; ev_cbn2; finv y.
  all: unfold observe; rewrite ?HM'; f_equal;
    try match goal with
        | |- bytes_at _ _ = _ => apply response_read; lia
        | |- mread _ _ _ = truncate _ _ => apply response_read_u; lia
        end.
Qed.
Lemma rcv_zero_KStatic_10 : forall (glit vlit : Z) c cr y s fp tg, ptr_ok (y_data y) ->
  observe 0 true (run_vsite (mkG c cr (symtab y)) (gen_rawcall_venom KStatic 0 true (sym "gas") (SL vlit)) fp tg s)
  = raw_call_w KStatic 0 true c (y_to y) (0) (bytes_at (s_mem s) (y_data y)) (s_world s).
Proof.
  intros glit vlit c cr y s fp tg [Hd1 Hd2].
  unfold gen_rawcall_venom. rewrite ?eqb00.
  unfold run_vsite, sym, raw_call_w, kind_op; ev_cbn2; finv y.
  all: unfold observe; cbn [Z.ltb Z.compare]; f_equal.
Qed.

Lemma rcv_pos_KStatic_01 : forall M (glit vlit : Z) c cr y s fp tg, 0 < M < WW -> ptr_ok (y_data y) -> ptr_ok (y_out y) ->
  observe M false (run_vsite (mkG c cr (symtab y)) (gen_rawcall_venom KStatic M false (SL glit) (SL vlit)) fp tg s)
  = raw_call_w KStatic M false c (y_to y) (0) (bytes_at (s_mem s) (y_data y)) (s_world s).
Proof.
  intros M glit vlit c cr y s fp tg HM [Hd1 Hd2] [Hb1 Hb2].
  unfold gen_rawcall_venom. destruct (Z.eqb_spec M 0) as [E|_]; [lia|].
  assert (HM' : (0 <? M) = true) by (apply Z.ltb_lt; lia).
  unfold run_vsite, cap_tree, sym, raw_call_w, kind_op; ev_cbn2; finv y.
  all: unfold observe; rewrite ?HM'; f_equal;
    try match goal with
        | |- bytes_at _ _ = _ => apply response_read; lia
        | |- mread _ _ _ = truncate _ _ => apply response_read_u; lia
        end.
Qed.
Lemma rcv_zero_KStatic_01 : forall (glit vlit : Z) c cr y s fp tg, ptr_ok (y_data y) ->
  observe 0 false (run_vsite (mkG c cr (symtab y)) (gen_rawcall_venom KStatic 0 false (SL glit) (SL vlit)) fp tg s)
  = raw_call_w KStatic 0 false c (y_to y) (0) (bytes_at (s_mem s) (y_data y)) (s_world s).
Proof.
  intros glit vlit c cr y s fp tg [Hd1 Hd2].
  unfold gen_rawcall_venom. rewrite ?eqb00.
  unfold run_vsite, sym, raw_call_w, kind_op; ev_cbn2; finv y.
  all: unfold observe; cbn [Z.ltb Z.compare]; f_equal.
Qed.

Lemma rcv_pos_KStatic_00 : forall M (glit vlit : Z) c cr y s fp tg, 0 < M < WW -> ptr_ok (y_data y) -> ptr_ok (y_out y) ->
  observe M false (run_vsite (mkG c cr (symtab y)) (gen_rawcall_venom KStatic M false (sym "gas") (SL vlit)) fp tg s)
  = raw_call_w KStatic M false c (y_to y) (0) (bytes_at (s_mem s) (y_data y)) (s_world s).
Proof.
  intros M glit vlit c cr y s fp tg HM [Hd1 Hd2] [Hb1 Hb2].
  unfold gen_rawcall_venom. destruct (Z.eqb_spec M 0) as [E|_]; [lia|].
  assert (HM' : (0 <? M) = true) by (apply Z.ltb_lt; lia).
  unfold run_vsite, cap_tree, sym, raw_call_w, kind_op; ev_cbn2; finv y.
  all: unfold observe; rewrite ?HM'; f_equal;
    try match goal with
        | |- bytes_at _ _ = _ => apply response_read; lia
        | |- mread _ _ _ = truncate _ _ => apply response_read_u; lia
        end.
Qed.
Lemma rcv_zero_KStatic_00 : forall (glit vlit : Z) c cr y s fp tg, ptr_ok (y_data y) ->
  observe 0 false (run_vsite (mkG c cr (symtab y)) (gen_rawcall_venom KStatic 0 false (sym "gas") (SL vlit)) fp tg s)
  = raw_call_w KStatic 0 false c (y_to y) (0) (bytes_at (s_mem s) (y_data y)) (s_world s).
Proof.
  intros glit vlit c cr y s fp tg [Hd1 Hd2].
  unfold gen_rawcall_venom. rewrite ?eqb00.
  unfold run_vsite, sym, raw_call_w, kind_op; ev_cbn2; finv y.
  all: unfold observe; cbn [Z.ltb Z.compare]; f_equal.
Qed.

Lemma rcv_pos_KDelegate_11 : forall M (glit vlit : Z) c cr y s fp tg, 0 < M < WW -> ptr_ok (y_data y) -> ptr_ok (y_out y) ->
  observe M true (run_vsite (mkG c cr (symtab y)) (gen_rawcall_venom KDelegate M true (SL glit) (SL vlit)) fp tg s)
  = raw_call_w KDelegate M true c (y_to y) (0) (bytes_at (s_mem s) (y_data y)) (s_world s).
Proof.
  intros M glit vlit c cr y s fp tg HM [Hd1 Hd2] [Hb1 Hb2].
  unfold gen_rawcall_venom. destruct (Z.eqb_spec M 0) as [E|_]; [lia|].
  assert (HM' : (0 <? M) = true) by (apply Z.ltb_lt; lia).
  unfold run_vsite, cap_tree, sym, raw_call_w, kind_op; ev_cbn2; finv y.
  all: unfold observe; rewrite ?HM'; f_equal;
    try match goal with
        | |- bytes_at _ _ = _ => apply response_read; lia
        | |- mread _ _ _ = truncate _ _ => apply response_read_u; lia
        end.
Qed.
Lemma rcv_zero_KDelegate_11 : forall (glit vlit : Z) c cr y s fp tg, ptr_ok (y_data y) ->
  observe 0 true (run_vsite (mkG c cr (symtab y)) (gen_rawcall_venom KDelegate 0 true (SL glit) (SL vlit)) fp tg s)
  = raw_call_w KDelegate 0 true c (y_to y) (0) (bytes_at (s_mem s) (y_data y)) (s_world s).
Proof.
  intros glit vlit c cr y s fp tg [Hd1 Hd2].
  unfold gen_rawcall_venom. rewrite ?eqb00.
  unfold run_vsite, sym, raw_call_w, kind_op; ev_cbn2; finv y.
  all: unfold observe; cbn [Z.ltb Z.compare]; f_equal.
Qed.

Lemma rcv_pos_KDelegate_10 : forall M (glit vlit : Z) c cr y s fp tg, 0 < M < WW -> ptr_ok (y_data y) -> ptr_ok (y_out y) ->
  observe M true (run_vsite (mkG c cr (symtab y)) (gen_rawcall_venom KDelegate M true (sym "gas") (SL vlit)) fp tg s)
  = raw_call_w KDelegate M true c (y_to y) (0) (bytes_at (s_mem s) (y_data y)) (s_world s).
Proof.
  intros M glit vlit c cr y s fp tg HM [Hd1 Hd2] [Hb1 Hb2].
  unfold gen_rawcall_venom. destruct (Z.eqb_spec M 0) as [E|_]; [lia|].
  assert (HM' : (0 <? M) = true) by (apply Z.ltb_lt; lia).
  unfold run_vsite, cap_tree, sym, raw_call_w, kind_op; ev_cbn2; finv y.
  all: unfold observe; rewrite ?HM'; f_equal;
    try match goal with
        | |- bytes_at _ _ = _ => apply response_read; lia
        | |- mread _ _ _ = truncate _ _ => apply response_read_u; lia
        end.
Qed.
Lemma rcv_zero_KDelegate_10 : forall (glit vlit : Z) c cr y s fp tg, ptr_ok (y_data y) ->
  observe 0 true (run_vsite (mkG c cr (symtab y)) (gen_rawcall_venom KDelegate 0 true (sym "gas") (SL vlit)) fp tg s)
  = raw_call_w KDelegate 0 true c (y_to y) (0) (bytes_at (s_mem s) (y_data y)) (s_world s).
Proof.
  intros glit vlit c cr y s fp tg [Hd1 Hd2].
  unfold gen_rawcall_venom. rewrite ?eqb00.
  unfold run_vsite, sym, raw_call_w, kind_op; ev_cbn2; finv y.
  all: unfold observe; cbn [Z.ltb Z.compare]; f_equal.
Qed.

Lemma rcv_pos_KDelegate_01 : forall M (glit vlit : Z) c cr y s fp tg, 0 < M < WW -> ptr_ok (y_data y) -> ptr_ok (y_out y) ->
  observe M false (run_vsite (mkG c cr (symtab y)) (gen_rawcall_venom KDelegate M false (SL glit) (SL vlit)) fp tg s)
  = raw_call_w KDelegate M false c (y_to y) (0) (bytes_at (s_mem s) (y_data y)) (s_world s).
Proof.
  intros M glit vlit c cr y s fp tg HM [Hd1 Hd2] [Hb1 Hb2].
  unfold gen_rawcall_venom. destruct (Z.eqb_spec M 0) as [E|_]; [lia|].
  assert (HM' : (0 <? M) = true) by (apply Z.ltb_lt; lia).
  unfold run_vsite, cap_tree, sym, raw_call_w, kind_op; ev_cbn2; finv y.
  all: unfold observe; rewrite ?HM'; f_equal;
    try match goal with
        | |- bytes_at _ _ = _ => apply response_read; lia
        | |- mread _ _ _ = truncate _ _ => apply response_read_u; lia
        end.
Qed.
Lemma rcv_zero_KDelegate_01 : forall (glit vlit : Z) c cr y s fp tg, ptr_ok (y_data y) ->
  observe 0 false (run_vsite (mkG c cr (symtab y)) (gen_rawcall_venom KDelegate 0 false (SL glit) (SL vlit)) fp tg s)
  = raw_call_w KDelegate 0 false c (y_to y) (0) (bytes_at (s_mem s) (y_data y)) (s_world s).
Proof.
  intros glit vlit c cr y s fp tg [Hd1 Hd2].
  unfold gen_rawcall_venom. rewrite ?eqb00.
  unfold run_vsite, sym, raw_call_w, kind_op; ev_cbn2; finv y.
  all: unfold observe; cbn [Z.ltb Z.compare]; f_equal.
Qed.

Lemma rcv_pos_KDelegate_00 : forall M (glit vlit : Z) c cr y s fp tg, 0 < M < WW -> ptr_ok (y_data y) -> ptr_ok (y_out y) ->
  observe M false (run_vsite (mkG c cr (symtab y)) (gen_rawcall_venom KDelegate M false (sym "gas") (SL vlit)) fp tg s)
  = raw_call_w KDelegate M false c (y_to y) (0) (bytes_at (s_mem s) (y_data y)) (s_world s).
Proof.
  intros M glit vlit c cr y s fp tg HM [Hd1 Hd2] [Hb1 Hb2].
  unfold gen_rawcall_venom. destruct (Z.eqb_spec M 0) as [E|_]; [lia|].
  assert (HM' : (0 <? M) = true) by (apply Z.ltb_lt; lia).
  unfold run_vsite, cap_tree, sym, raw_call_w, kind_op; ev_cbn2; finv y.
  all: unfold observe; rewrite ?HM'; f_equal;
    try match goal with
        | |- bytes_at _ _ = _ => apply response_read; lia
        | |- mread _ _ _ = truncate _ _ => apply response_read_u; lia
        end.
Qed.
Lemma rcv_zero_KDelegate_00 : forall (glit vlit : Z) c cr y s fp tg, ptr_ok (y_data y) ->
  observe 0 false (run_vsite (mkG c cr (symtab y)) (gen_rawcall_venom KDelegate 0 false (sym "gas") (SL vlit)) fp tg s)
  = raw_call_w KDelegate 0 false c (y_to y) (0) (bytes_at (s_mem s) (y_data y)) (s_world s).
Proof.
  intros glit vlit c cr y s fp tg [Hd1 Hd2].
  unfold gen_rawcall_venom. rewrite ?eqb00.
  unfold run_vsite, sym, raw_call_w, kind_op; ev_cbn2; finv y.
  all: unfold observe; cbn [Z.ltb Z.compare]; f_equal.
Qed.

(* ---------------- create use-sites ---------------- *)
Ltac fin_tail := rewrite ?eqb10, ?eqb00; ev_cbn2; try site_step; ev_cbn2; rewrite ?lt_self_plus; ev_cbn2; rewrite ?mread_rdcopy; try reflexivity.
Ltac fin_create :=
  unfold create_w;
  match goal with |- context [?cr (c_self ?c) ?v ?ic ?sl] =>
    let a := fresh "a" in let rd := fresh "rd" in
    destruct (cr (c_self c) v ic sl) as [a|rd];
    [ let Hne := fresh "Hne" in destruct (Z.eqb_spec a 0) as [->|Hne]; ev_cbn2;
      [ fin_tail | let Ea := fresh "Ea" in assert (Ea : (a =? 0) = false) by (apply Z.eqb_neq; exact Hne); rewrite ?Ea; ev_cbn2; try site_step; ev_cbn2; try reflexivity ]
    | ev_cbn2; fin_tail ]
  end.

Lemma crl_011 : forall (vlit : Z) c cr y s,
  observe_create (ev1 (mkG c cr (symtab y)) (gen_create_legacy (None) true (sym "value_sym") (sym "buf_sym") (sym "len_sym")) s)
  = create_w true cr c (y_value y) (mread (s_mem s) (y_buf y) (y_len y)) (None) (s_world s).
Proof.
  intros vlit c cr y s. unfold gen_create_legacy, ev1, sym, propagate, observe_create. ev_cbn2. unfold do_create, exec_create; cbn [g_create g_ctx s_mem]. fin_create.
Qed.

Lemma crl_010 : forall (vlit : Z) c cr y s,
  observe_create (ev1 (mkG c cr (symtab y)) (gen_create_legacy (None) true (SL vlit) (sym "buf_sym") (sym "len_sym")) s)
  = create_w true cr c (vlit) (mread (s_mem s) (y_buf y) (y_len y)) (None) (s_world s).
Proof.
  intros vlit c cr y s. unfold gen_create_legacy, ev1, sym, propagate, observe_create. ev_cbn2. unfold do_create, exec_create; cbn [g_create g_ctx s_mem]. fin_create.
Qed.

Lemma crv_01 : forall (vlit slit : Z) c cr y s fp tg,
  observe_create (run_vsite (mkG c cr (symtab y)) (gen_create_venom (None) true (SL vlit) (sym "buf_sym") (sym "len_sym")) fp tg s)
  = create_w true cr c vlit (mread (s_mem s) (y_buf y) (y_len y)) (None) (s_world s).
Proof.
  intros vlit slit c cr y s fp tg. unfold gen_create_venom, run_vsite, sym, observe_create. ev_cbn2. unfold do_create, exec_create; cbn [g_create g_ctx s_mem]. fin_create.
Qed.

Lemma crl_001 : forall (vlit : Z) c cr y s,
  observe_create (ev1 (mkG c cr (symtab y)) (gen_create_legacy (None) false (sym "value_sym") (sym "buf_sym") (sym "len_sym")) s)
  = create_w false cr c (y_value y) (mread (s_mem s) (y_buf y) (y_len y)) (None) (s_world s).
Proof.
  intros vlit c cr y s. unfold gen_create_legacy, ev1, sym, propagate, observe_create. ev_cbn2. unfold do_create, exec_create; cbn [g_create g_ctx s_mem]. fin_create.
Qed.

Lemma crl_000 : forall (vlit : Z) c cr y s,
  observe_create (ev1 (mkG c cr (symtab y)) (gen_create_legacy (None) false (SL vlit) (sym "buf_sym") (sym "len_sym")) s)
  = create_w false cr c (vlit) (mread (s_mem s) (y_buf y) (y_len y)) (None) (s_world s).
Proof.
  intros vlit c cr y s. unfold gen_create_legacy, ev1, sym, propagate, observe_create. ev_cbn2. unfold do_create, exec_create; cbn [g_create g_ctx s_mem]. fin_create.
Qed.

Lemma crv_00 : forall (vlit slit : Z) c cr y s fp tg,
  observe_create (run_vsite (mkG c cr (symtab y)) (gen_create_venom (None) false (SL vlit) (sym "buf_sym") (sym "len_sym")) fp tg s)
  = create_w false cr c vlit (mread (s_mem s) (y_buf y) (y_len y)) (None) (s_world s).
Proof.
  intros vlit slit c cr y s fp tg. unfold gen_create_venom, run_vsite, sym, observe_create. ev_cbn2. unfold do_create, exec_create; cbn [g_create g_ctx s_mem]. fin_create.
Qed.

Lemma crl_111 : forall (vlit : Z) c cr y s,
  observe_create (ev1 (mkG c cr (symtab y)) (gen_create_legacy (Some (sym "salt_sym")) true (sym "value_sym") (sym "buf_sym") (sym "len_sym")) s)
  = create_w true cr c (y_value y) (mread (s_mem s) (y_buf y) (y_len y)) (Some (y_salt y)) (s_world s).
Proof.
  intros vlit c cr y s. unfold gen_create_legacy, ev1, sym, propagate, observe_create. ev_cbn2. unfold do_create, exec_create; cbn [g_create g_ctx s_mem]. fin_create.
Qed.

Lemma crl_110 : forall (vlit : Z) c cr y s,
  observe_create (ev1 (mkG c cr (symtab y)) (gen_create_legacy (Some (sym "salt_sym")) true (SL vlit) (sym "buf_sym") (sym "len_sym")) s)
  = create_w true cr c (vlit) (mread (s_mem s) (y_buf y) (y_len y)) (Some (y_salt y)) (s_world s).
Proof.
  intros vlit c cr y s. unfold gen_create_legacy, ev1, sym, propagate, observe_create. ev_cbn2. unfold do_create, exec_create; cbn [g_create g_ctx s_mem]. fin_create.
Qed.

Lemma crv_11 : forall (vlit slit : Z) c cr y s fp tg,
  observe_create (run_vsite (mkG c cr (symtab y)) (gen_create_venom (Some (SL slit)) true (SL vlit) (sym "buf_sym") (sym "len_sym")) fp tg s)
  = create_w true cr c vlit (mread (s_mem s) (y_buf y) (y_len y)) (Some slit) (s_world s).
Proof.
  intros vlit slit c cr y s fp tg. unfold gen_create_venom, run_vsite, sym, observe_create. ev_cbn2. unfold do_create, exec_create; cbn [g_create g_ctx s_mem]. fin_create.
Qed.

Lemma crl_101 : forall (vlit : Z) c cr y s,
  observe_create (ev1 (mkG c cr (symtab y)) (gen_create_legacy (Some (sym "salt_sym")) false (sym "value_sym") (sym "buf_sym") (sym "len_sym")) s)
  = create_w false cr c (y_value y) (mread (s_mem s) (y_buf y) (y_len y)) (Some (y_salt y)) (s_world s).
Proof.
  intros vlit c cr y s. unfold gen_create_legacy, ev1, sym, propagate, observe_create. ev_cbn2. unfold do_create, exec_create; cbn [g_create g_ctx s_mem]. fin_create.
Qed.

Lemma crl_100 : forall (vlit : Z) c cr y s,
  observe_create (ev1 (mkG c cr (symtab y)) (gen_create_legacy (Some (sym "salt_sym")) false (SL vlit) (sym "buf_sym") (sym "len_sym")) s)
  = create_w false cr c (vlit) (mread (s_mem s) (y_buf y) (y_len y)) (Some (y_salt y)) (s_world s).
Proof.
  intros vlit c cr y s. unfold gen_create_legacy, ev1, sym, propagate, observe_create. ev_cbn2. unfold do_create, exec_create; cbn [g_create g_ctx s_mem]. fin_create.
Qed.

Lemma crv_10 : forall (vlit slit : Z) c cr y s fp tg,
  observe_create (run_vsite (mkG c cr (symtab y)) (gen_create_venom (Some (SL slit)) false (SL vlit) (sym "buf_sym") (sym "len_sym")) fp tg s)
  = create_w false cr c vlit (mread (s_mem s) (y_buf y) (y_len y)) (Some slit) (s_world s).
Proof.
  intros vlit slit c cr y s fp tg. unfold gen_create_venom, run_vsite, sym, observe_create. ev_cbn2. unfold do_create, exec_create; cbn [g_create g_ctx s_mem]. fin_create.
Qed.

(* ---------------- storage contexts ---------------- *)
Definition delegate_frame (c : cctx) (data : list Z) : frame :=
  mkFrame (c_self c) (c_sender c) (c_callvalue c) data (c_static c).

Lemma delegate_context_thm : forall w c to v data beh M R,
  w_beh w to = Some beh -> c_static c = false ->
  let e := beh (delegate_frame c data) (w_store w (c_self c)) in
  (ef_ok e = true ->
     raw_call_w KDelegate M R c to v data w
     = OOk 1 (truncate M (ef_out e)) (set_store w (c_self c) (apply_writes (ef_writes e) (w_store w (c_self c))))) /\
  (ef_ok e = false -> raw_call_w KDelegate M R c to v data w = if R then ORev (ef_out e) else OOk 0 (truncate M (ef_out e)) w).
Proof.
  intros w c to v data beh M R Hb Hs e.
  assert (Hf : frame_of c KDelegate to v data = delegate_frame c data).
  { unfold frame_of, delegate_frame. rewrite Hs. reflexivity. }
  unfold raw_call_w, exec_call. rewrite Hb, Hf. fold e.
  unfold delegate_frame at 1. cbn [f_static f_owner delegate_frame]. rewrite Hs. cbn [andb].
  fold e. split; intro H; rewrite H; cbn [o_ok o_rd o_world]; reflexivity.
Qed.

Lemma delegate_other_untouched_thm : forall w c to v data a,
  a <> c_self c -> w_store (o_world (exec_call w c KDelegate to v data)) a = w_store w a.
Proof.
  intros w c to v data a Ha. unfold exec_call. destruct (w_beh w to) as [beh|]; [|reflexivity].
  cbn [frame_of f_owner f_static].
  match goal with |- context [if ?b then _ else _] => destruct b end; [reflexivity|].
  match goal with |- context [if ?b then _ else _] => destruct b end; [|reflexivity].
  cbn [o_world set_store w_store]. destruct (Z.eqb_spec a (c_self c)); [contradiction|reflexivity].
Qed.

Lemma call_other_untouched_thm : forall w c to v data a,
  a <> to -> w_store (o_world (exec_call w c KCall to v data)) a = w_store w a.
Proof.
  intros w c to v data a Ha. unfold exec_call. destruct (w_beh w to) as [beh|]; [|reflexivity].
  cbn [frame_of f_owner f_static].
  match goal with |- context [if ?b then _ else _] => destruct b end; [reflexivity|].
  match goal with |- context [if ?b then _ else _] => destruct b end; [|reflexivity].
  cbn [o_world set_store w_store]. destruct (Z.eqb_spec a to); [contradiction|reflexivity].
Qed.

Lemma static_no_state_change_thm : forall w c to v data,
  (forall a, w_store (o_world (exec_call w c KStatic to v data)) a = w_store w a) /\
  (forall beh, w_beh w to = Some beh ->
     no_writes (beh (frame_of c KStatic to v data) (w_store w to)) = false ->
     exec_call w c KStatic to v data = mkOut false [] w).
Proof.
  intros w c to v data. split.
  - intro a. unfold exec_call. destruct (w_beh w to) as [beh|]; [|reflexivity].
    cbn [frame_of f_owner f_static]. rewrite orb_true_r. cbn [andb].
    set (e := beh _ _). unfold no_writes. destruct (ef_writes e) as [|x l] eqn:Ew; cbn [negb]; [|reflexivity].
    destruct (ef_ok e); [|reflexivity]. cbn [o_world set_store w_store apply_writes].
    destruct (Z.eqb_spec a to); [subst; reflexivity|reflexivity].
  - intros beh Hb Hw. unfold exec_call. rewrite Hb. cbn [f_static f_owner frame_of] in *. rewrite orb_true_r in *.
    cbn [andb]. rewrite Hw. reflexivity.
Qed.

Lemma failure_rolls_back_thm : forall w c k to v data, o_ok (exec_call w c k to v data) = false -> o_world (exec_call w c k to v data) = w.
Proof.
  intros w c k to v data. unfold exec_call. destruct (w_beh w to) as [beh|]; [|discriminate].
  match goal with |- context [if ?b then _ else _] => destruct b end; [reflexivity|].
  match goal with |- context [if ?b then _ else _] => destruct b end; [discriminate|reflexivity].
Qed.

(* the world-level behaviour refines the decision table of Builtins.v (tied by the existing correspondence) *)
Definition answer_of (w : world) (c : cctx) (to : Z) (data : list Z) (k : ckind) (v : Z) : outcome :=
  let o := exec_call w c k to v data in if o_ok o then Success (o_rd o) else Failure (o_rd o).
Lemma rawcall_w_table_thm : forall k M R c to v data w,
  raw_call_k k M R v (answer_of w c to data)
  = match raw_call_w k M R c to (match k with KCall => v | _ => 0 end) data w with
    | OOk f out _ => Ok (f :: len out :: out)
    | ORev rd => Revert rd
    | OStuck => Revert []
    end.
Proof.
  intros k M R c to v data w. unfold raw_call_k, raw_call_w, answer_of.
  destruct (o_ok (exec_call w c k to (match k with KCall => v | _ => 0 end) data)); [reflexivity|].
  destruct R; reflexivity.
Qed.

Lemma create_w_table_thm : forall R cr c v ic salt w,
  match cr (c_self c) v ic salt with
  | CreateOk a => a <> 0 -> create_w R cr c v ic salt w = OOk a [] w
  | CreateFail rd => create_w R cr c v ic salt w = if R then ORev rd else OOk 0 [] w
  end.
Proof.
  intros. unfold create_w. destruct (cr (c_self c) v ic salt) as [a|rd]; [|reflexivity].
  intro Ha. destruct (Z.eqb_spec a 0); [contradiction|reflexivity].
Qed.

(* ---------------- the generators, for the whole keyword family ---------------- *)
Definition legacy_rawcall_ok (e : sx) (k : ckind) (M : Z) (R hv : bool) : Prop :=
  forall c cr y s, ptr_ok (y_data y) ->
    observe M R (ev_top (mkG c cr (symtab y)) e s)
    = raw_call_w k M R c (y_to y) (match k with KCall => if hv then y_value y else 0 | _ => 0 end)
                 (bytes_at (s_mem s) (y_data y)) (s_world s).
Definition venom_rawcall_ok (v : vsite) (k : ckind) (M : Z) (R : bool) (vlit : Z) : Prop :=
  forall c cr y s fp tg, ptr_ok (y_data y) -> ptr_ok (y_out y) ->
    observe M R (run_vsite (mkG c cr (symtab y)) v fp tg s)
    = raw_call_w k M R c (y_to y) (match k with KCall => vlit | _ => 0 end) (bytes_at (s_mem s) (y_data y)) (s_world s).
Definition legacy_create_ok (e : sx) (salt R hv : bool) : Prop :=
  forall c cr y s,
    observe_create (ev1 (mkG c cr (symtab y)) e s)
    = create_w R cr c (if hv then y_value y else 0) (mread (s_mem s) (y_buf y) (y_len y))
               (if salt then Some (y_salt y) else None) (s_world s).
Definition venom_create_ok (v : vsite) (salt R : bool) (vlit slit : Z) : Prop :=
  forall c cr y s fp tg,
    observe_create (run_vsite (mkG c cr (symtab y)) v fp tg s)
    = create_w R cr c vlit (mread (s_mem s) (y_buf y) (y_len y)) (if salt then Some slit else None) (s_world s).

Lemma ptr_ok_64 : ptr_ok 64.
Proof. split; [lia|reflexivity]. Qed.

Lemma gen_rawcall_legacy_ok : forall k M R hg (hv : bool), 0 <= M < WW ->
  legacy_rawcall_ok (gen_rawcall_legacy k M R hg (if hv then sym "value_sym" else SL 0) 64) k M R hv.
Proof.
  intros k M R hg hv HM c cr y s Hd. pose proof ptr_ok_64 as H64.
  destruct (Z.eq_dec M 0) as [->|Hn].
  - destruct k, R, hg, hv;
    [> apply rcl_zero_KCall_111; exact Hd
       | apply rcl_zero_KCall_110; exact Hd
       | apply rcl_zero_KCall_101; exact Hd
       | apply rcl_zero_KCall_100; exact Hd
       | apply rcl_zero_KCall_011; exact Hd
       | apply rcl_zero_KCall_010; exact Hd
       | apply rcl_zero_KCall_001; exact Hd
       | apply rcl_zero_KCall_000; exact Hd
       | apply rcl_zero_KStatic_111; exact Hd
       | apply rcl_zero_KStatic_110; exact Hd
       | apply rcl_zero_KStatic_101; exact Hd
       | apply rcl_zero_KStatic_100; exact Hd
       | apply rcl_zero_KStatic_011; exact Hd
       | apply rcl_zero_KStatic_010; exact Hd
       | apply rcl_zero_KStatic_001; exact Hd
       | apply rcl_zero_KStatic_000; exact Hd
       | apply rcl_zero_KDelegate_111; exact Hd
       | apply rcl_zero_KDelegate_110; exact Hd
       | apply rcl_zero_KDelegate_101; exact Hd
       | apply rcl_zero_KDelegate_100; exact Hd
       | apply rcl_zero_KDelegate_011; exact Hd
       | apply rcl_zero_KDelegate_010; exact Hd
       | apply rcl_zero_KDelegate_001; exact Hd
       | apply rcl_zero_KDelegate_000; exact Hd ].
  - assert (HM' : 0 < M < WW) by lia.
    destruct k, R, hg, hv;
    [> apply rcl_pos_KCall_111; assumption
       | apply rcl_pos_KCall_110; assumption
       | apply rcl_pos_KCall_101; assumption
       | apply rcl_pos_KCall_100; assumption
       | apply rcl_pos_KCall_011; assumption
       | apply rcl_pos_KCall_010; assumption
       | apply rcl_pos_KCall_001; assumption
       | apply rcl_pos_KCall_000; assumption
       | apply rcl_pos_KStatic_111; assumption
       | apply rcl_pos_KStatic_110; assumption
       | apply rcl_pos_KStatic_101; assumption
       | apply rcl_pos_KStatic_100; assumption
       | apply rcl_pos_KStatic_011; assumption
       | apply rcl_pos_KStatic_010; assumption
       | apply rcl_pos_KStatic_001; assumption
       | apply rcl_pos_KStatic_000; assumption
       | apply rcl_pos_KDelegate_111; assumption
       | apply rcl_pos_KDelegate_110; assumption
       | apply rcl_pos_KDelegate_101; assumption
       | apply rcl_pos_KDelegate_100; assumption
       | apply rcl_pos_KDelegate_011; assumption
       | apply rcl_pos_KDelegate_010; assumption
       | apply rcl_pos_KDelegate_001; assumption
       | apply rcl_pos_KDelegate_000; assumption ].
Qed.

Lemma gen_rawcall_venom_ok : forall k M R (hg : bool) glit vlit, 0 <= M < WW ->
  venom_rawcall_ok (gen_rawcall_venom k M R (if hg then SL glit else sym "gas") (SL vlit)) k M R vlit.
Proof.
  intros k M R hg glit vlit HM c cr y s fp tg Hd Ho.
  destruct (Z.eq_dec M 0) as [->|Hn].
  - destruct k, R, hg;
    [> apply (rcv_zero_KCall_11 glit vlit); exact Hd
       | apply (rcv_zero_KCall_10 glit vlit); exact Hd
       | apply (rcv_zero_KCall_01 glit vlit); exact Hd
       | apply (rcv_zero_KCall_00 glit vlit); exact Hd
       | apply (rcv_zero_KStatic_11 glit vlit); exact Hd
       | apply (rcv_zero_KStatic_10 glit vlit); exact Hd
       | apply (rcv_zero_KStatic_01 glit vlit); exact Hd
       | apply (rcv_zero_KStatic_00 glit vlit); exact Hd
       | apply (rcv_zero_KDelegate_11 glit vlit); exact Hd
       | apply (rcv_zero_KDelegate_10 glit vlit); exact Hd
       | apply (rcv_zero_KDelegate_01 glit vlit); exact Hd
       | apply (rcv_zero_KDelegate_00 glit vlit); exact Hd ].
  - assert (HM' : 0 < M < WW) by lia.
    destruct k, R, hg;
    [> apply (rcv_pos_KCall_11 M glit vlit); assumption
       | apply (rcv_pos_KCall_10 M glit vlit); assumption
       | apply (rcv_pos_KCall_01 M glit vlit); assumption
       | apply (rcv_pos_KCall_00 M glit vlit); assumption
       | apply (rcv_pos_KStatic_11 M glit vlit); assumption
       | apply (rcv_pos_KStatic_10 M glit vlit); assumption
       | apply (rcv_pos_KStatic_01 M glit vlit); assumption
       | apply (rcv_pos_KStatic_00 M glit vlit); assumption
       | apply (rcv_pos_KDelegate_11 M glit vlit); assumption
       | apply (rcv_pos_KDelegate_10 M glit vlit); assumption
       | apply (rcv_pos_KDelegate_01 M glit vlit); assumption
       | apply (rcv_pos_KDelegate_00 M glit vlit); assumption ].
Qed.

Lemma gen_create_legacy_ok : forall (salt R hv : bool),
  legacy_create_ok (gen_create_legacy (if salt then Some (sym "salt_sym") else None) R
                                      (if hv then sym "value_sym" else SL 0) (sym "buf_sym") (sym "len_sym")) salt R hv.
Proof.
  intros salt R hv c cr y s.
  destruct salt, R, hv;
    [> apply (crl_111 0) | apply (crl_110 0) | apply (crl_101 0) | apply (crl_100 0)
     | apply (crl_011 0) | apply (crl_010 0) | apply (crl_001 0) | apply (crl_000 0) ].
Qed.

Lemma gen_create_venom_ok : forall (salt R : bool) vlit slit,
  venom_create_ok (gen_create_venom (if salt then Some (SL slit) else None) R (SL vlit) (sym "buf_sym") (sym "len_sym")) salt R vlit slit.
Proof.
  intros salt R vlit slit c cr y s fp tg.
  destruct salt, R; [> apply (crv_11 vlit slit) | apply (crv_10 vlit slit) | apply (crv_01 vlit slit) | apply (crv_00 vlit slit) ].
Qed.
