(* C12 extension: proofs about the EVM fragment (storage contexts, call / create use-sites). *)
From Coq Require Import ZArith List Bool String Lia.
From Verif Require Import C12.ExtCall C12.Builtins C12.CallTpl C12.EvmFrag.
Import ListNotations.
Open Scope string_scope.
Open Scope list_scope.
Open Scope Z_scope.

(* ---------------- memory lemmas ---------------- *)
Lemma be_app1 : forall l b acc, be (l ++ [b]) acc = be l acc * 256 + b.
Proof. induction l as [|x l IH]; intros b acc; simpl; [reflexivity|apply IH]. Qed.

Lemma be_bytes : forall v (n : nat), 0 <= v < WW -> (n <= 32)%nat ->
  be (map (fun i => byte_of v (Z.of_nat i)) (seq 0 n)) 0 = v / 256 ^ (32 - Z.of_nat n).
Proof.
  intros v n Hv. induction n as [|n IH]; intro Hn.
  - simpl be. change (32 - Z.of_nat 0) with 32. symmetry. apply Z.div_small.
    assert (E : 256 ^ 32 = WW) by (vm_compute; reflexivity). lia.
  - rewrite seq_S, map_app. cbn [map]. rewrite be_app1. rewrite IH by lia. cbn [plus].
    unfold byte_of.
    replace (32 - Z.of_nat n) with (1 + (31 - Z.of_nat n)) by lia.
    replace (32 - Z.of_nat (S n)) with (31 - Z.of_nat n) by lia.
    rewrite Z.pow_add_r by lia. change (256 ^ 1) with 256.
    set (q := v / 256 ^ (31 - Z.of_nat n)).
    assert (Hq : v / (256 * 256 ^ (31 - Z.of_nat n)) = q / 256).
    { unfold q. rewrite (Z.mul_comm 256). rewrite Z.div_div; [reflexivity| |lia]. apply Z.pow_nonzero; lia. }
    rewrite Hq. pose proof (Z.div_mod q 256). lia.
Qed.

Lemma mread_ext : forall m1 m2 o n, (forall a, o <= a < o + n -> m1 a = m2 a) -> mread m1 o n = mread m2 o n.
Proof.
  intros m1 m2 o n H. unfold mread. apply map_ext_in. intros i Hi. apply in_seq in Hi. apply H. lia.
Qed.

Lemma mload_mstore : forall m p v, 0 <= v < WW -> mload (mstore m p v) p = v.
Proof.
  intros m p v Hv. unfold mload.
  assert (E : mread (mstore m p v) p 32 = map (fun i => byte_of v (Z.of_nat i)) (seq 0 32)).
  { unfold mread. apply map_ext_in. intros i Hi. apply in_seq in Hi. unfold mstore.
    destruct (Z.leb_spec p (p + Z.of_nat i)); [|lia].
    destruct (Z.ltb_spec (p + Z.of_nat i) (p + 32)); [|lia]. simpl. f_equal. lia. }
  rewrite E. change (Z.to_nat 32) with 32%nat. rewrite (be_bytes v 32) by lia.
  simpl. rewrite Z.div_1_r. reflexivity.
Qed.

Lemma mread_mstore_after : forall m p v n, mread (mstore m p v) (p + 32) n = mread m (p + 32) n.
Proof.
  intros. apply mread_ext. intros a Ha. unfold mstore.
  destruct (Z.ltb_spec a (p + 32)); [lia|]. rewrite andb_false_r. reflexivity.
Qed.

Lemma nth_firstn_lt : forall (l : list Z) (n i : nat), (i < n)%nat -> nth i (firstn n l) 0 = nth i l 0.
Proof.
  induction l as [|x l IH]; intros n i H.
  - rewrite firstn_nil. reflexivity.
  - destruct n; [lia|]. destruct i; [reflexivity|]. simpl. apply IH. lia.
Qed.

Lemma mread_rdcopy_prefix : forall m d c rd, 0 <= c <= blen rd -> mread (rdcopy m d 0 c rd) d c = firstn (Z.to_nat c) rd.
Proof.
  intros m d c rd Hc. unfold mread, blen in *.
  apply nth_ext with (d := 0) (d' := 0).
  - rewrite map_length, seq_length, firstn_length. lia.
  - intros i Hi. rewrite map_length, seq_length in Hi.
    rewrite nth_map_seq by exact Hi. unfold rdcopy.
    destruct (Z.leb_spec d (d + Z.of_nat i)); [|lia].
    destruct (Z.ltb_spec (d + Z.of_nat i) (d + c)); [|lia]. simpl.
    replace (d + Z.of_nat i - d + 0) with (Z.of_nat i) by lia. rewrite Nat2Z.id.
    rewrite nth_firstn_lt by exact Hi. reflexivity.
Qed.

Lemma truncate_min : forall M rd, 0 <= M -> firstn (Z.to_nat (Z.min M (blen rd))) rd = truncate M rd.
Proof.
  intros M rd HM. unfold truncate, blen. destruct (Z.le_ge_cases M (Z.of_nat (List.length rd))).
  - rewrite Z.min_l by lia. reflexivity.
  - rewrite Z.min_r by lia. rewrite Nat2Z.id. rewrite firstn_all. symmetry. apply firstn_all2. lia.
Qed.

(* the response as the caller reads it: length cell at p, CALL wrote min(M, |rd|) bytes at p+32 *)
Lemma response_read : forall m p M rd, 0 <= M < WW ->
  bytes_at (mstore (rdcopy m (p + 32) 0 (Z.min M (blen rd)) rd) p (Z.min M (blen rd))) p = truncate M rd.
Proof.
  intros m p M rd HM. unfold bytes_at.
  assert (Hb : 0 <= blen rd) by (unfold blen; lia).
  rewrite mload_mstore by lia. rewrite mread_mstore_after.
  rewrite mread_rdcopy_prefix by lia. apply truncate_min. lia.
Qed.
