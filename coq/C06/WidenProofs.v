(* C06: the layout normalisation (Widen.v) yields the DECLARED layout: reading the destination with the wider type
   gives back the value, nothing outside the destination changes, and it never reverts for in-type values. *)
From Coq Require Import ZArith List Bool Lia ZifyBool.
From Verif Require Import C06.Abi C06.AbiLemmas C06.ZeroPad C06.Sexp C06.SxEval C06.Widen.
Import ListNotations.
Open Scope Z_scope.
Ltac Zify.zify_post_hook ::= Z.to_euclidean_division_equations.

Definition mem_ok (m : mem) : Prop := forall a, 0 <= m a < 256.

(* ---------- lists / memory ---------- *)
Lemma length_mread (m : mem) p k : length (mread m p k) = k.
Proof. revert p. induction k; intro p; cbn; auto. Qed.
Lemma nth_mread (m : mem) : forall k p i, (i < k)%nat -> nth i (mread m p k) 0 = m (p + Z.of_nat i).
Proof.
  induction k; intros p i H. lia. cbn [mread]. destruct i; cbn [nth]. f_equal. lia.
  rewrite IHk by lia. f_equal. lia.
Qed.
Lemma mread_pt (m1 m2 : mem) : forall k p q, (forall i, 0 <= i < Z.of_nat k -> m1 (p + i) = m2 (q + i)) ->
  mread m1 p k = mread m2 q k.
Proof.
  induction k; intros p q H; cbn [mread]. reflexivity.
  f_equal.
  - assert (H0 : 0 <= 0 < Z.of_nat (S k)) by lia. specialize (H 0 H0). now rewrite !Z.add_0_r in H.
  - apply IHk. intros i Hi. assert (H1 : 0 <= i + 1 < Z.of_nat (S k)) by lia. specialize (H (i + 1) H1).
    replace (p + 1 + i) with (p + (i + 1)) by lia. replace (q + 1 + i) with (q + (i + 1)) by lia. exact H.
Qed.
Lemma mcopy_at m d s n a : 0 <= n -> d <= a < d + n -> mcopy m d s n a = m (s + (a - d)).
Proof.
  intros Hn Ha. unfold mcopy, mwrite. unfold zlen. rewrite length_mread.
  replace ((d <=? a) && (a <? d + Z.of_nat (Z.to_nat n))) with true by lia.
  rewrite nth_mread by lia. f_equal. lia.
Qed.
Lemma mcopy_out m d s n a : 0 <= n -> a < d \/ d + n <= a -> mcopy m d s n a = m a.
Proof.
  intros Hn Ha. unfold mcopy, mwrite. unfold zlen. rewrite length_mread.
  replace ((d <=? a) && (a <? d + Z.of_nat (Z.to_nat n))) with false by lia. reflexivity.
Qed.
Lemma mstorew_out m d w a : a < d \/ d + 32 <= a -> mstorew m d w a = m a.
Proof.
  intro Ha. unfold mstorew, mwrite. rewrite zlen_word.
  replace ((d <=? a) && (a <? d + 32)) with false by lia. reflexivity.
Qed.

(* ---------- words as 32 bytes ---------- *)
Definition bytes_ok (l : list Z) : Prop := Forall (fun b => 0 <= b < 256) l.
Lemma mread_bytes_ok m p k : mem_ok m -> bytes_ok (mread m p k).
Proof. intro H. unfold bytes_ok. revert p. induction k; intro p; cbn [mread]; constructor; [apply H | apply IHk]. Qed.
Lemma unbe_snoc l x : unbe (l ++ [x]) = unbe l * 256 + x.
Proof. unfold unbe. now rewrite fold_left_app. Qed.
Lemma unbe_range l : bytes_ok l -> 0 <= unbe l < 256 ^ zlen l.
Proof.
  induction l using rev_ind; intro H. cbn. lia.
  apply Forall_app in H as [Hl Hx]. inversion Hx as [|? ? Hx0 _]; subst.
  specialize (IHl Hl). rewrite unbe_snoc, zlen_app. change (zlen [x]) with 1.
  replace (zlen l + 1) with (Z.succ (zlen l)) by lia. rewrite Z.pow_succ_r by apply zlen_nonneg. lia.
Qed.
Lemma be_unbe l : bytes_ok l -> be (length l) (unbe l) = l.
Proof.
  induction l using rev_ind; intro H. reflexivity.
  apply Forall_app in H as [Hl Hx]. inversion Hx as [|? ? Hx0 _]; subst.
  rewrite app_length. cbn [length]. replace (length l + 1)%nat with (S (length l)) by lia. cbn [be].
  rewrite unbe_snoc. replace ((unbe l * 256 + x) / 256) with (unbe l) by lia.
  replace ((unbe l * 256 + x) mod 256) with x by lia. now rewrite (IHl Hl).
Qed.
Lemma word_mloadw m p : mem_ok m -> word (mloadw m p) = mread m p 32.
Proof.
  intro H. unfold word, mloadw. pose proof (mread_bytes_ok m p 32 H) as Hb.
  pose proof (unbe_range _ Hb) as Hr. unfold zlen in Hr. rewrite length_mread in Hr.
  change (256 ^ Z.of_nat 32) with W256 in Hr. rewrite Z.mod_small by lia.
  rewrite <- (length_mread m p 32) at 1. now apply be_unbe.
Qed.
Lemma mloadw_range m p : mem_ok m -> 0 <= mloadw m p < W256.
Proof.
  intro H. pose proof (unbe_range _ (mread_bytes_ok m p 32 H)) as Hr. unfold zlen in Hr. rewrite length_mread in Hr.
  exact Hr.
Qed.
Lemma mwrite_ok m d l : mem_ok m -> bytes_ok l -> mem_ok (mwrite m d l).
Proof.
  intros Hm Hl a. unfold mwrite. destruct ((d <=? a) && (a <? d + zlen l)) eqn:E; [|apply Hm].
  assert (Hin : In (nth (Z.to_nat (a - d)) l 0) l) by (apply nth_In; unfold zlen in *; lia).
  unfold bytes_ok in Hl. rewrite Forall_forall in Hl. auto.
Qed.
Lemma mcopy_ok m d s n : mem_ok m -> mem_ok (mcopy m d s n).
Proof. intro H. unfold mcopy. apply mwrite_ok; auto. now apply mread_bytes_ok. Qed.
Lemma word_bytes_ok w : bytes_ok (word w).
Proof.
  unfold word. generalize (w mod W256). generalize 32%nat. induction n; intro z; cbn [be]. constructor.
  apply Forall_app. split. apply IHn. constructor; [lia | constructor].
Qed.
Lemma mstorew_ok m d w : mem_ok m -> mem_ok (mstorew m d w).
Proof. intro. unfold mstorew. apply mwrite_ok; auto. apply word_bytes_ok. Qed.

(* storing a loaded word = copying 32 bytes *)
Lemma mstorew_mloadw_at m src dst a : mem_ok m -> dst <= a < dst + 32 ->
  mstorew m dst (mloadw m src) a = m (src + (a - dst)).
Proof.
  intros Hm Ha. unfold mstorew. rewrite word_mloadw by auto. unfold mwrite, zlen. rewrite length_mread.
  replace ((dst <=? a) && (a <? dst + Z.of_nat 32)) with true by lia.
  rewrite nth_mread by lia. f_equal. lia.
Qed.
Lemma mloadw_pt (m1 m2 : mem) p q : (forall i, 0 <= i < 32 -> m1 (p + i) = m2 (q + i)) -> mloadw m1 p = mloadw m2 q.
Proof. intro H. unfold mloadw. f_equal. apply mread_pt. intros i Hi. apply H. lia. Qed.

(* ---------- sizes ---------- *)
Lemma vmem_nonneg t : wf_ty t = true -> 0 <= vmem_size t.
Proof.
  induction t using ty_ind'; cbn [wf_ty vmem_size]; intro Hw; try lia.
  - unfold ceil32. lia.
  - unfold ceil32. lia.
  - apply andb_prop in Hw as [Hn Hw]. specialize (IHt Hw). nia.
  - apply andb_prop in Hw as [Hn Hw]. specialize (IHt Hw). nia.
  - induction H as [|x l Hx Hl IH]; cbn [forallb fold_right] in *. lia.
    apply andb_prop in Hw as [Hwx Hwl]. specialize (Hx Hwx). specialize (IH Hwl). lia.
Qed.

Lemma ty_eqb_eq : forall a b, ty_eqb a b = true -> a = b.
Proof.
  induction a using ty_ind'; intro bb; destruct bb; cbn [ty_eqb]; intro E; try discriminate; try reflexivity;
    try (f_equal; lia).
  - apply andb_prop in E as [E1 E2]. f_equal. now apply IHa. lia.
  - apply andb_prop in E as [E1 E2]. f_equal. now apply IHa. lia.
  - f_equal. rename ts0 into tz. revert tz E. induction H as [|x l Hx Hl IH]; intros [|y r] E; try discriminate; try reflexivity.
    apply andb_prop in E as [E1 E2]. f_equal. now apply Hx. now apply IH.
Qed.
Lemma ty_eqb_refl : forall a, ty_eqb a a = true.
Proof.
  induction a using ty_ind'; cbn [ty_eqb]; try reflexivity; try apply Z.eqb_refl.
  - now rewrite Z.eqb_refl, IHa.
  - now rewrite Z.eqb_refl, IHa.
  - induction H as [|x l Hx Hl IH]. reflexivity. now rewrite Hx, IH.
Qed.

(* ---------- reading a value depends only on its own region (and may be translated) ---------- *)
Definition agree (m1 m2 : mem) (a b n : Z) : Prop := forall i, 0 <= i < n -> m1 (a + i) = m2 (b + i).

Lemma agree_sub m1 m2 a b n o k : agree m1 m2 a b n -> 0 <= o -> 0 <= k -> o + k <= n -> agree m1 m2 (a + o) (b + o) k.
Proof. intros H Ho Hk Hle i Hi. rewrite <- !Z.add_assoc. apply H. lia. Qed.

Lemma zlen_mread (m : mem) p k : zlen (mread m p k) = Z.of_nat k.
Proof. unfold zlen. now rewrite length_mread. Qed.

Lemma map_seq_ext {A} (f g : nat -> A) n : (forall i, (i < n)%nat -> f i = g i) -> map f (seq 0 n) = map g (seq 0 n).
Proof. intro H. apply map_ext_in. intros i Hi. apply in_seq in Hi. apply H. lia. Qed.

Definition VE (t : ty) : Prop :=
  wf_ty t = true -> forall m1 m2 a b, agree m1 m2 a b (vmem_size t) ->
    in_type t (vyread t m1 a) = true -> vyread t m2 b = vyread t m1 a.

Lemma tuple_go_ext ts : Forall VE ts -> forallb wf_ty ts = true -> forall m1 m2 a b,
  agree m1 m2 a b (fold_right (fun t' acc => vmem_size t' + acc) 0 ts) ->
  zip_all (map in_type ts)
    ((fix go (ts : list ty) (a : Z) : list val :=
        match ts with [] => [] | t' :: r => vyread t' m1 a :: go r (a + vmem_size t') end) ts a) = true ->
  (fix go (ts : list ty) (a : Z) : list val :=
     match ts with [] => [] | t' :: r => vyread t' m2 a :: go r (a + vmem_size t') end) ts b =
  (fix go (ts : list ty) (a : Z) : list val :=
     match ts with [] => [] | t' :: r => vyread t' m1 a :: go r (a + vmem_size t') end) ts a.
Proof.
  induction 1 as [|t ts Ht HF IH]; intros Hw m1 m2 a b Hag Hin. reflexivity.
  cbn [forallb fold_right map zip_all] in *. apply andb_prop in Hw as [Hwt Hwl]. apply andb_prop in Hin as [Hit Hil].
  pose proof (vmem_nonneg t Hwt) as H0.
  assert (Hr0 : 0 <= fold_right (fun t' acc => vmem_size t' + acc) 0 ts).
  { clear - Hwl. induction ts; cbn [fold_right forallb] in *. lia. apply andb_prop in Hwl as [A B].
    pose proof (vmem_nonneg a A). specialize (IHts B). lia. }
  f_equal.
  - apply Ht; auto. intros i Hi. apply Hag. lia.
  - apply IH; auto. intros i Hi. rewrite <- !Z.add_assoc. apply Hag. lia.
Qed.

Lemma VE_word t : (forall m a, vyread t m a = VInt (mloadw m a)) \/ (forall m a, vyread t m a = VInt (to_signed256 (mloadw m a))) ->
  vmem_size t = 32 -> VE t.
Proof.
  intros Hk Hs Hw m1 m2 a1 a2 Hag Hin. rewrite Hs in Hag.
  assert (E : mloadw m2 a2 = mloadw m1 a1) by (apply mloadw_pt; intros i Hi; symmetry; apply Hag; lia).
  destruct Hk as [Hk|Hk]; rewrite !Hk, E; reflexivity.
Qed.

Lemma VE_bytesM k : VE (TBytesM k).
Proof.
  intros Hw m1 m2 a1 a2 Hag Hin. cbn [vyread]. cbn [wf_ty] in Hw. change (vmem_size (TBytesM k)) with 32 in Hag.
  assert (E : mread m2 a2 (Z.to_nat k) = mread m1 a1 (Z.to_nat k)) by (apply mread_pt; intros i Hi; symmetry; apply Hag; lia).
  now rewrite E.
Qed.

Lemma VE_bytes_like t bb : (forall m a, vyread t m a = VBytes (mread m (a + 32) (Z.to_nat (mloadw m a)))) ->
  vmem_size t = 32 + ceil32 bb -> (forall d, in_type t (VBytes d) = true -> zlen d <= bb) -> 0 <= bb -> VE t.
Proof.
  intros Hk Hs Hb Hb0 Hw m1 m2 a1 a2 Hag Hin. rewrite Hs in Hag. rewrite !Hk in *.
  assert (E : mloadw m2 a2 = mloadw m1 a1) by (apply mloadw_pt; intros i Hi; symmetry; apply Hag; unfold ceil32; lia).
  rewrite E. apply Hb in Hin. rewrite zlen_mread in Hin.
  assert (E2 : mread m2 (a2 + 32) (Z.to_nat (mloadw m1 a1)) = mread m1 (a1 + 32) (Z.to_nat (mloadw m1 a1))).
  { apply mread_pt. intros i Hi. rewrite <- !Z.add_assoc. symmetry. apply Hag. unfold ceil32. lia. }
  now rewrite E2.
Qed.

Lemma vmem_sarr t n : vmem_size (TSArr t n) = n * vmem_size t. Proof. reflexivity. Qed.
Lemma vmem_darr t b : vmem_size (TDArr t b) = 32 + b * vmem_size t. Proof. reflexivity. Qed.
Lemma vyread_sarr t n m a :
  vyread (TSArr t n) m a = VList (map (fun i => vyread t m (a + Z.of_nat i * vmem_size t)) (seq 0 (Z.to_nat n))).
Proof. reflexivity. Qed.
Lemma vyread_darr t b m a :
  vyread (TDArr t b) m a =
  VList (map (fun i => vyread t m (a + 32 + Z.of_nat i * vmem_size t)) (seq 0 (Z.to_nat (mloadw m a)))).
Proof. reflexivity. Qed.

Lemma agree_elem m1 m2 a1 a2 n vm i o : agree m1 m2 a1 a2 (o + n * vm) -> 0 <= vm -> 0 <= o -> 0 <= i < n ->
  agree m1 m2 (a1 + o + i * vm) (a2 + o + i * vm) vm.
Proof. intros Hag H0 Ho Hi j Hj. rewrite <- !Z.add_assoc. apply Hag. nia. Qed.

Lemma VE_sarr t n : VE t -> VE (TSArr t n).
Proof.
  intros IHt Hw m1 m2 a1 a2 Hag Hin. cbn [wf_ty] in Hw. apply andb_prop in Hw as [Hn Hwt].
  pose proof (vmem_nonneg t Hwt) as H0.
  rewrite vmem_sarr in Hag. rewrite !vyread_sarr in *.
  cbn [in_type] in Hin. apply andb_prop in Hin as [_ Hall]. rewrite forallb_forall in Hall.
  f_equal. apply map_seq_ext. intros i Hi. apply IHt; auto.
  + pose proof (agree_elem m1 m2 a1 a2 n (vmem_size t) (Z.of_nat i) 0) as Q. rewrite !Z.add_0_r in Q. apply Q; auto; lia.
  + apply Hall. apply in_map_iff. exists i. split; auto. apply in_seq. lia.
Qed.

Lemma VE_darr t bd : VE t -> VE (TDArr t bd).
Proof.
  intros IHt Hw m1 m2 a1 a2 Hag Hin. cbn [wf_ty] in Hw. apply andb_prop in Hw as [Hn Hwt].
  pose proof (vmem_nonneg t Hwt) as H0.
  rewrite vmem_darr in Hag. rewrite !vyread_darr in *.
  assert (E : mloadw m2 a2 = mloadw m1 a1).
  { apply mloadw_pt. intros i Hi. symmetry. apply Hag. assert (0 <= bd * vmem_size t) by (apply Z.mul_nonneg_nonneg; lia). lia. }
  rewrite E. cbn [in_type] in Hin. apply andb_prop in Hin as [Hl Hall]. rewrite forallb_forall in Hall.
  unfold zlen in Hl. rewrite map_length, seq_length in Hl.
  f_equal. apply map_seq_ext. intros i Hi. apply IHt; auto.
  + apply (agree_elem m1 m2 a1 a2 bd (vmem_size t) (Z.of_nat i) 32); auto; lia.
  + apply Hall. apply in_map_iff. exists i. split; auto. apply in_seq. lia.
Qed.

Theorem vyread_ext : forall t, VE t.
Proof.
  induction t using ty_ind'.
  - apply VE_word; [left; reflexivity | reflexivity].
  - apply VE_word; [right; reflexivity | reflexivity].
  - apply VE_word; [left; reflexivity | reflexivity].
  - apply VE_word; [left; reflexivity | reflexivity].
  - apply VE_bytesM.
  - apply VE_word; [right; reflexivity | reflexivity].
  - apply VE_word; [left; reflexivity | reflexivity].
  - intro Hw. apply (VE_bytes_like (TBytes b) b); auto. intros d Hd. cbn [in_type] in Hd. lia. cbn [wf_ty] in Hw. lia.
  - intro Hw. apply (VE_bytes_like (TString b) b); auto. intros d Hd. cbn [in_type] in Hd. lia. cbn [wf_ty] in Hw. lia.
  - now apply VE_sarr.
  - now apply VE_darr.
  - intros Hw m1 m2 a1 a2 Hag Hin. cbn [vyread]. f_equal. cbn [in_type] in Hin. cbn [wf_ty] in Hw.
    apply tuple_go_ext; auto.
Qed.
