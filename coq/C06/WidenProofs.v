(* C06: the layout normalisation (Widen.v) yields the DECLARED layout: reading the destination with the wider type
   gives back the value, nothing outside the destination changes, and it never reverts for in-type values. *)
From Coq Require Import ZArith List Bool Lia ZifyBool.
From Verif Require Import C06.Abi C06.AbiLemmas C06.ZeroPad C06.Sexp C06.SxEval C06.Widen.
Import ListNotations.
Open Scope Z_scope.
Ltac Zify.zify_post_hook ::= Z.to_euclidean_division_equations.

Definition mem_ok (m : mem) : Prop := forall a, 0 <= m a < 256.

(* ---------- lists / memory ---------- *)
Lemma length_mread (m : mem) p k : length (mread m p k) = k.
Proof. revert p. induction k; intro p; cbn; auto. Qed.
Lemma nth_mread (m : mem) : forall k p i, (i < k)%nat -> nth i (mread m p k) 0 = m (p + Z.of_nat i).
Proof.
  induction k; intros p i H. lia. cbn [mread]. destruct i; cbn [nth]. f_equal. lia.
  rewrite IHk by lia. f_equal. lia.
Qed.
Lemma mread_pt (m1 m2 : mem) : forall k p q, (forall i, 0 <= i < Z.of_nat k -> m1 (p + i) = m2 (q + i)) ->
  mread m1 p k = mread m2 q k.
Proof.
  induction k; intros p q H; cbn [mread]. reflexivity.
  f_equal.
  - assert (H0 : 0 <= 0 < Z.of_nat (S k)) by lia. specialize (H 0 H0). now rewrite !Z.add_0_r in H.
  - apply IHk. intros i Hi. assert (H1 : 0 <= i + 1 < Z.of_nat (S k)) by lia. specialize (H (i + 1) H1).
    replace (p + 1 + i) with (p + (i + 1)) by lia. replace (q + 1 + i) with (q + (i + 1)) by lia. exact H.
Qed.
Lemma mcopy_at m d s n a : 0 <= n -> d <= a < d + n -> mcopy m d s n a = m (s + (a - d)).
Proof.
  intros Hn Ha. unfold mcopy, mwrite. unfold zlen. rewrite length_mread.
  replace ((d <=? a) && (a <? d + Z.of_nat (Z.to_nat n))) with true by lia.
  rewrite nth_mread by lia. f_equal. lia.
Qed.
Lemma mcopy_out m d s n a : 0 <= n -> a < d \/ d + n <= a -> mcopy m d s n a = m a.
Proof.
  intros Hn Ha. unfold mcopy, mwrite. unfold zlen. rewrite length_mread.
  replace ((d <=? a) && (a <? d + Z.of_nat (Z.to_nat n))) with false by lia. reflexivity.
Qed.
Lemma mstorew_out m d w a : a < d \/ d + 32 <= a -> mstorew m d w a = m a.
Proof.
  intro Ha. unfold mstorew, mwrite. rewrite zlen_word.
  replace ((d <=? a) && (a <? d + 32)) with false by lia. reflexivity.
Qed.

(* ---------- words as 32 bytes ---------- *)
Definition bytes_ok (l : list Z) : Prop := Forall (fun b => 0 <= b < 256) l.
Lemma mread_bytes_ok m p k : mem_ok m -> bytes_ok (mread m p k).
Proof. intro H. unfold bytes_ok. revert p. induction k; intro p; cbn [mread]; constructor; [apply H | apply IHk]. Qed.
Lemma unbe_snoc l x : unbe (l ++ [x]) = unbe l * 256 + x.
Proof. unfold unbe. now rewrite fold_left_app. Qed.
Lemma unbe_range l : bytes_ok l -> 0 <= unbe l < 256 ^ zlen l.
Proof.
  induction l using rev_ind; intro H. cbn. lia.
  apply Forall_app in H as [Hl Hx]. inversion Hx as [|? ? Hx0 _]; subst.
  specialize (IHl Hl). rewrite unbe_snoc, zlen_app. change (zlen [x]) with 1.
  replace (zlen l + 1) with (Z.succ (zlen l)) by lia. rewrite Z.pow_succ_r by apply zlen_nonneg. lia.
Qed.
Lemma be_unbe l : bytes_ok l -> be (length l) (unbe l) = l.
Proof.
  induction l using rev_ind; intro H. reflexivity.
  apply Forall_app in H as [Hl Hx]. inversion Hx as [|? ? Hx0 _]; subst.
  rewrite app_length. cbn [length]. replace (length l + 1)%nat with (S (length l)) by lia. cbn [be].
  rewrite unbe_snoc. replace ((unbe l * 256 + x) / 256) with (unbe l) by lia.
  replace ((unbe l * 256 + x) mod 256) with x by lia. now rewrite (IHl Hl).
Qed.
Lemma word_mloadw m p : mem_ok m -> word (mloadw m p) = mread m p 32.
Proof.
  intro H. unfold word, mloadw. pose proof (mread_bytes_ok m p 32 H) as Hb.
  pose proof (unbe_range _ Hb) as Hr. unfold zlen in Hr. rewrite length_mread in Hr.
  change (256 ^ Z.of_nat 32) with W256 in Hr. rewrite Z.mod_small by lia.
  rewrite <- (length_mread m p 32) at 1. now apply be_unbe.
Qed.
Lemma mloadw_range m p : mem_ok m -> 0 <= mloadw m p < W256.
Proof.
  intro H. pose proof (unbe_range _ (mread_bytes_ok m p 32 H)) as Hr. unfold zlen in Hr. rewrite length_mread in Hr.
  exact Hr.
Qed.
Lemma mwrite_ok m d l : mem_ok m -> bytes_ok l -> mem_ok (mwrite m d l).
Proof.
  intros Hm Hl a. unfold mwrite. destruct ((d <=? a) && (a <? d + zlen l)) eqn:E; [|apply Hm].
  assert (Hin : In (nth (Z.to_nat (a - d)) l 0) l) by (apply nth_In; unfold zlen in *; lia).
  unfold bytes_ok in Hl. rewrite Forall_forall in Hl. auto.
Qed.
Lemma mcopy_ok m d s n : mem_ok m -> mem_ok (mcopy m d s n).
Proof. intro H. unfold mcopy. apply mwrite_ok; auto. now apply mread_bytes_ok. Qed.
Lemma word_bytes_ok w : bytes_ok (word w).
Proof.
  unfold word. generalize (w mod W256). generalize 32%nat. induction n; intro z; cbn [be]. constructor.
  apply Forall_app. split. apply IHn. constructor; [lia | constructor].
Qed.
Lemma mstorew_ok m d w : mem_ok m -> mem_ok (mstorew m d w).
Proof. intro. unfold mstorew. apply mwrite_ok; auto. apply word_bytes_ok. Qed.

(* storing a loaded word = copying 32 bytes *)
Lemma mstorew_mloadw_at m src dst a : mem_ok m -> dst <= a < dst + 32 ->
  mstorew m dst (mloadw m src) a = m (src + (a - dst)).
Proof.
  intros Hm Ha. unfold mstorew. rewrite word_mloadw by auto. unfold mwrite, zlen. rewrite length_mread.
  replace ((dst <=? a) && (a <? dst + Z.of_nat 32)) with true by lia.
  rewrite nth_mread by lia. f_equal. lia.
Qed.
Lemma mloadw_pt (m1 m2 : mem) p q : (forall i, 0 <= i < 32 -> m1 (p + i) = m2 (q + i)) -> mloadw m1 p = mloadw m2 q.
Proof. intro H. unfold mloadw. f_equal. apply mread_pt. intros i Hi. apply H. lia. Qed.

(* ---------- sizes ---------- *)
Lemma vmem_nonneg t : wf_ty t = true -> 0 <= vmem_size t.
Proof.
  induction t using ty_ind'; cbn [wf_ty vmem_size]; intro Hw; try lia.
  - unfold ceil32. lia.
  - unfold ceil32. lia.
  - apply andb_prop in Hw as [Hn Hw]. specialize (IHt Hw). nia.
  - apply andb_prop in Hw as [Hn Hw]. specialize (IHt Hw). nia.
  - induction H as [|x l Hx Hl IH]; cbn [forallb fold_right] in *. lia.
    apply andb_prop in Hw as [Hwx Hwl]. specialize (Hx Hwx). specialize (IH Hwl). lia.
Qed.

Lemma ty_eqb_eq : forall a b, ty_eqb a b = true -> a = b.
Proof.
  induction a using ty_ind'; intro bb; destruct bb; cbn [ty_eqb]; intro E; try discriminate; try reflexivity;
    try (f_equal; lia).
  - apply andb_prop in E as [E1 E2]. f_equal. now apply IHa. lia.
  - apply andb_prop in E as [E1 E2]. f_equal. now apply IHa. lia.
  - f_equal. rename ts0 into tz. revert tz E. induction H as [|x l Hx Hl IH]; intros [|y r] E; try discriminate; try reflexivity.
    apply andb_prop in E as [E1 E2]. f_equal. now apply Hx. now apply IH.
Qed.
Lemma ty_eqb_refl : forall a, ty_eqb a a = true.
Proof.
  induction a using ty_ind'; cbn [ty_eqb]; try reflexivity; try apply Z.eqb_refl.
  - now rewrite Z.eqb_refl, IHa.
  - now rewrite Z.eqb_refl, IHa.
  - induction H as [|x l Hx Hl IH]. reflexivity. now rewrite Hx, IH.
Qed.

(* ---------- reading a value depends only on its own region (and may be translated) ---------- *)
Definition agree (m1 m2 : mem) (a b n : Z) : Prop := forall i, 0 <= i < n -> m1 (a + i) = m2 (b + i).

Lemma agree_sub m1 m2 a b n o k : agree m1 m2 a b n -> 0 <= o -> 0 <= k -> o + k <= n -> agree m1 m2 (a + o) (b + o) k.
Proof. intros H Ho Hk Hle i Hi. rewrite <- !Z.add_assoc. apply H. lia. Qed.

Lemma zlen_mread (m : mem) p k : zlen (mread m p k) = Z.of_nat k.
Proof. unfold zlen. now rewrite length_mread. Qed.

Lemma map_seq_ext {A} (f g : nat -> A) n : (forall i, (i < n)%nat -> f i = g i) -> map f (seq 0 n) = map g (seq 0 n).
Proof. intro H. apply map_ext_in. intros i Hi. apply in_seq in Hi. apply H. lia. Qed.

Definition VE (t : ty) : Prop :=
  wf_ty t = true -> forall m1 m2 a b, agree m1 m2 a b (vmem_size t) ->
    in_type t (vyread t m1 a) = true -> vyread t m2 b = vyread t m1 a.

Lemma tuple_go_ext ts : Forall VE ts -> forallb wf_ty ts = true -> forall m1 m2 a b,
  agree m1 m2 a b (fold_right (fun t' acc => vmem_size t' + acc) 0 ts) ->
  zip_all (map in_type ts)
    ((fix go (ts : list ty) (a : Z) : list val :=
        match ts with [] => [] | t' :: r => vyread t' m1 a :: go r (a + vmem_size t') end) ts a) = true ->
  (fix go (ts : list ty) (a : Z) : list val :=
     match ts with [] => [] | t' :: r => vyread t' m2 a :: go r (a + vmem_size t') end) ts b =
  (fix go (ts : list ty) (a : Z) : list val :=
     match ts with [] => [] | t' :: r => vyread t' m1 a :: go r (a + vmem_size t') end) ts a.
Proof.
  induction 1 as [|t ts Ht HF IH]; intros Hw m1 m2 a b Hag Hin. reflexivity.
  cbn [forallb fold_right map zip_all] in *. apply andb_prop in Hw as [Hwt Hwl]. apply andb_prop in Hin as [Hit Hil].
  pose proof (vmem_nonneg t Hwt) as H0.
  assert (Hr0 : 0 <= fold_right (fun t' acc => vmem_size t' + acc) 0 ts).
  { clear - Hwl. induction ts; cbn [fold_right forallb] in *. lia. apply andb_prop in Hwl as [A B].
    pose proof (vmem_nonneg a A). specialize (IHts B). lia. }
  f_equal.
  - apply Ht; auto. intros i Hi. apply Hag. lia.
  - apply IH; auto. intros i Hi. rewrite <- !Z.add_assoc. apply Hag. lia.
Qed.

Lemma VE_word t : (forall m a, vyread t m a = VInt (mloadw m a)) \/ (forall m a, vyread t m a = VInt (to_signed256 (mloadw m a))) ->
  vmem_size t = 32 -> VE t.
Proof.
  intros Hk Hs Hw m1 m2 a1 a2 Hag Hin. rewrite Hs in Hag.
  assert (E : mloadw m2 a2 = mloadw m1 a1) by (apply mloadw_pt; intros i Hi; symmetry; apply Hag; lia).
  destruct Hk as [Hk|Hk]; rewrite !Hk, E; reflexivity.
Qed.

Lemma VE_bytesM k : VE (TBytesM k).
Proof.
  intros Hw m1 m2 a1 a2 Hag Hin. cbn [vyread]. cbn [wf_ty] in Hw. change (vmem_size (TBytesM k)) with 32 in Hag.
  assert (E : mread m2 a2 (Z.to_nat k) = mread m1 a1 (Z.to_nat k)) by (apply mread_pt; intros i Hi; symmetry; apply Hag; lia).
  now rewrite E.
Qed.

Lemma VE_bytes_like t bb : (forall m a, vyread t m a = VBytes (mread m (a + 32) (Z.to_nat (mloadw m a)))) ->
  vmem_size t = 32 + ceil32 bb -> (forall d, in_type t (VBytes d) = true -> zlen d <= bb) -> 0 <= bb -> VE t.
Proof.
  intros Hk Hs Hb Hb0 Hw m1 m2 a1 a2 Hag Hin. rewrite Hs in Hag. rewrite !Hk in *.
  assert (E : mloadw m2 a2 = mloadw m1 a1) by (apply mloadw_pt; intros i Hi; symmetry; apply Hag; unfold ceil32; lia).
  rewrite E. apply Hb in Hin. rewrite zlen_mread in Hin.
  assert (E2 : mread m2 (a2 + 32) (Z.to_nat (mloadw m1 a1)) = mread m1 (a1 + 32) (Z.to_nat (mloadw m1 a1))).
  { apply mread_pt. intros i Hi. rewrite <- !Z.add_assoc. symmetry. apply Hag. unfold ceil32. lia. }
  now rewrite E2.
Qed.

Lemma vmem_sarr t n : vmem_size (TSArr t n) = n * vmem_size t. Proof. reflexivity. Qed.
Lemma vmem_darr t b : vmem_size (TDArr t b) = 32 + b * vmem_size t. Proof. reflexivity. Qed.
Lemma vyread_sarr t n m a :
  vyread (TSArr t n) m a = VList (map (fun i => vyread t m (a + Z.of_nat i * vmem_size t)) (seq 0 (Z.to_nat n))).
Proof. reflexivity. Qed.
Lemma vyread_darr t b m a :
  vyread (TDArr t b) m a =
  VList (map (fun i => vyread t m (a + 32 + Z.of_nat i * vmem_size t)) (seq 0 (Z.to_nat (mloadw m a)))).
Proof. reflexivity. Qed.

Lemma agree_elem m1 m2 a1 a2 n vm i o : agree m1 m2 a1 a2 (o + n * vm) -> 0 <= vm -> 0 <= o -> 0 <= i < n ->
  agree m1 m2 (a1 + o + i * vm) (a2 + o + i * vm) vm.
Proof. intros Hag H0 Ho Hi j Hj. rewrite <- !Z.add_assoc. apply Hag. nia. Qed.

Lemma VE_sarr t n : VE t -> VE (TSArr t n).
Proof.
  intros IHt Hw m1 m2 a1 a2 Hag Hin. cbn [wf_ty] in Hw. apply andb_prop in Hw as [Hn Hwt].
  pose proof (vmem_nonneg t Hwt) as H0.
  rewrite vmem_sarr in Hag. rewrite !vyread_sarr in *.
  cbn [in_type] in Hin. apply andb_prop in Hin as [_ Hall]. rewrite forallb_forall in Hall.
  f_equal. apply map_seq_ext. intros i Hi. apply IHt; auto.
  + pose proof (agree_elem m1 m2 a1 a2 n (vmem_size t) (Z.of_nat i) 0) as Q. rewrite !Z.add_0_r in Q. apply Q; auto; lia.
  + apply Hall. apply in_map_iff. exists i. split; auto. apply in_seq. lia.
Qed.

(* NB: arithmetic goals must not mention (mloadw m a) directly: lia's reflexive checker would start computing it *)
Lemma in_type_darr_map t bd (f : nat -> val) (k : Z) :
  in_type (TDArr t bd) (VList (map f (seq 0 (Z.to_nat k)))) = true ->
  Z.of_nat (Z.to_nat k) <= bd /\ forall i, (i < Z.to_nat k)%nat -> in_type t (f i) = true.
Proof.
  intro Hin. cbn [in_type] in Hin. apply andb_prop in Hin as [Hl Hall]. rewrite forallb_forall in Hall.
  unfold zlen in Hl. rewrite map_length, seq_length in Hl. split. lia.
  intros i Hi. apply Hall. apply in_map_iff. exists i. split; auto. apply in_seq. lia.
Qed.

Lemma VE_darr t bd : VE t -> VE (TDArr t bd).
Proof.
  intros IHt Hw m1 m2 a1 a2 Hag Hin. cbn [wf_ty] in Hw. apply andb_prop in Hw as [Hn Hwt].
  pose proof (vmem_nonneg t Hwt) as H0.
  rewrite vmem_darr in Hag. rewrite !vyread_darr in *.
  assert (E : mloadw m2 a2 = mloadw m1 a1).
  { apply mloadw_pt. intros i Hi. symmetry. apply Hag. assert (0 <= bd * vmem_size t) by (apply Z.mul_nonneg_nonneg; lia). lia. }
  rewrite E. clear E. apply in_type_darr_map in Hin as [Hlen Hall].
  generalize dependent (mloadw m1 a1). intros k Hlen Hall.
  f_equal. apply map_seq_ext. intros i Hi. apply IHt; auto.
  apply (agree_elem m1 m2 a1 a2 bd (vmem_size t) (Z.of_nat i) 32); auto; lia.
Qed.

Theorem vyread_ext : forall t, VE t.
Proof.
  induction t using ty_ind'.
  - apply VE_word; [left; reflexivity | reflexivity].
  - apply VE_word; [right; reflexivity | reflexivity].
  - apply VE_word; [left; reflexivity | reflexivity].
  - apply VE_word; [left; reflexivity | reflexivity].
  - apply VE_bytesM.
  - apply VE_word; [right; reflexivity | reflexivity].
  - apply VE_word; [left; reflexivity | reflexivity].
  - intro Hw. apply (VE_bytes_like (TBytes b) b); auto. intros d Hd. cbn [in_type] in Hd. lia. cbn [wf_ty] in Hw. lia.
  - intro Hw. apply (VE_bytes_like (TString b) b); auto. intros d Hd. cbn [in_type] in Hd. lia. cbn [wf_ty] in Hw. lia.
  - now apply VE_sarr.
  - now apply VE_darr.
  - intros Hw m1 m2 a1 a2 Hag Hin. cbn [vyread]. f_equal. cbn [in_type] in Hin. cbn [wf_ty] in Hw.
    apply tuple_go_ext; auto.
Qed.

(* ---------- widening preserves well-typedness ---------- *)
Lemma in_type_widen : forall ts td v, compat ts td = true -> in_type ts v = true -> in_type td v = true.
Proof.
  induction ts using ty_ind'; intros td v Hc Hin;
    try (cbn [compat] in Hc; apply ty_eqb_eq in Hc; subst td; exact Hin).
  - destruct td; cbn [compat] in Hc; try discriminate. destruct v; cbn [in_type] in *; try discriminate.
    apply andb_prop in Hin as [H1 H2]. rewrite H2, andb_true_r. lia.
  - destruct td; cbn [compat] in Hc; try discriminate. destruct v; cbn [in_type] in *; try discriminate.
    apply andb_prop in Hin as [H1 H2]. rewrite H2, andb_true_r. lia.
  - destruct td; cbn [compat] in Hc; try discriminate. apply andb_prop in Hc as [Hn Hc].
    destruct v as [| |vs]; cbn [in_type] in *; try discriminate. apply andb_prop in Hin as [H1 H2].
    apply andb_true_intro. split. lia. rewrite forallb_forall in *. intros x Hx. apply (IHts td x Hc). auto.
  - destruct td; cbn [compat] in Hc; try discriminate. apply andb_prop in Hc as [Hn Hc].
    destruct v as [| |vs]; cbn [in_type] in *; try discriminate. apply andb_prop in Hin as [H1 H2].
    apply andb_true_intro. split. lia. rewrite forallb_forall in *. intros x Hx. apply (IHts td x Hc). auto.
  - destruct td as [| | | | | | | | | | |ds]; cbn [compat] in Hc; try discriminate.
    destruct v as [| |vs]; cbn [in_type] in *; try discriminate.
    revert ds vs Hc Hin. induction H as [|s l Hs Hl IH]; intros [|d ds] [|x vs] Hc Hin; cbn [map zip_all] in *;
      try discriminate; auto.
    apply andb_prop in Hc as [Hc1 Hc2]. apply andb_prop in Hin as [Hi1 Hi2].
    rewrite (Hs d x Hc1 Hi1). cbn [andb]. apply IH; auto.
Qed.

(* ---------- the normalisation yields the declared layout ---------- *)
Definition sep (src ls dst ld : Z) : Prop := src + ls <= dst \/ dst + ld <= src.

Definition NC (ts : ty) : Prop :=
  forall td v m src dst, wf_ty ts = true -> wf_ty td = true -> compat ts td = true -> in_type ts v = true ->
    vyread ts m src = v -> mem_ok m -> sep src (vmem_size ts) dst (vmem_size td) ->
    exists m', norm ts td m src dst = Some m' /\ vyread td m' dst = v /\ mem_ok m' /\
               (forall a, a < dst \/ dst + vmem_size td <= a -> m' a = m a).

Lemma agree_refl_on (m1 m2 : mem) a n : (forall x, a <= x < a + n -> m1 x = m2 x) -> agree m1 m2 a a n.
Proof. intros H i Hi. apply H. lia. Qed.

Lemma loop_ok s d : NC s -> wf_ty s = true -> wf_ty d = true -> compat s d = true ->
  forall (vals : Z -> val) (N : Z) src dst,
    sep src (N * vmem_size s) dst (N * vmem_size d) ->
  forall k i m, 0 <= i -> i + Z.of_nat k <= N ->
    (forall j, i <= j < i + Z.of_nat k -> in_type s (vals j) = true /\ vyread s m (src + j * vmem_size s) = vals j) ->
    mem_ok m ->
    exists m', norm_loop (norm s d) k i (vmem_size s) (vmem_size d) m src dst = Some m' /\
               (forall j, i <= j < i + Z.of_nat k -> vyread d m' (dst + j * vmem_size d) = vals j) /\ mem_ok m' /\
               (forall a, a < dst + i * vmem_size d \/ dst + (i + Z.of_nat k) * vmem_size d <= a -> m' a = m a).
Proof.
  intros HNC Hws Hwd Hc vals N src dst Hsep.
  pose proof (vmem_nonneg s Hws) as Hs0. pose proof (vmem_nonneg d Hwd) as Hd0.
  set (ss := vmem_size s) in *. set (sd := vmem_size d) in *.
  induction k; intros i m Hi HN Hv Hok.
  - cbn [norm_loop]. exists m. split; [reflexivity|]. split; [intros j Hj; lia|]. split; auto.
  - cbn [norm_loop].
    destruct (Hv i ltac:(lia)) as [Hin_i Hrd_i].
    assert (Hsep_i : sep (src + i * ss) ss (dst + i * sd) sd) by (unfold sep in *; nia).
    destruct (HNC d (vals i) m (src + i * ss) (dst + i * sd) Hws Hwd Hc Hin_i Hrd_i Hok Hsep_i) as (m1 & Hn1 & Hr1 & Hok1 & Hf1).
    fold ss sd in Hn1, Hf1. rewrite Hn1.
    assert (Hv1 : forall j, i + 1 <= j < i + 1 + Z.of_nat k ->
                            in_type s (vals j) = true /\ vyread s m1 (src + j * ss) = vals j).
    { intros j Hj. destruct (Hv j ltac:(lia)) as [Hin_j Hrd_j]. split; auto.
      rewrite <- Hrd_j. apply (vyread_ext s Hws m m1). 2:{ rewrite Hrd_j. exact Hin_j. }
      apply agree_refl_on. intros x Hx. symmetry. apply Hf1. fold ss in Hx. unfold sep in Hsep. nia. }
    destruct (IHk (i + 1) m1 ltac:(lia) ltac:(lia) Hv1 Hok1) as (m' & Hn' & Hr' & Hok' & Hf').
    exists m'. split; [exact Hn'|]. split; [|split; [exact Hok'|]].
    + intros j Hj. destruct (Z.eq_dec j i) as [->|Hne].
      * rewrite <- Hr1. apply (vyread_ext d Hwd m1 m').
        2:{ rewrite Hr1. apply (in_type_widen s d); auto. }
        apply agree_refl_on. intros x Hx. symmetry. apply Hf'. fold sd in Hx. nia.
      * apply Hr'. lia.
    + intros a Ha. rewrite Hf' by nia. apply Hf1. nia.
Qed.

Lemma mloadw_mstorew m d w : 0 <= w < W256 -> mloadw (mstorew m d w) d = w.
Proof.
  intro Hw. unfold mloadw, mstorew.
  pose proof (mread_mwrite m d (word w)) as X. pose proof (zlen_word w) as L. unfold zlen in L.
  replace (length (word w)) with 32%nat in X by lia. rewrite X, unbe_word. apply Z.mod_small. lia.
Qed.

Lemma compat_static : forall s d, compat s d = true -> is_dynamic d = false -> s = d.
Proof.
  induction s using ty_ind'; intros d Hc Hd;
    try (cbn [compat] in Hc; now apply ty_eqb_eq in Hc).
  - destruct d; cbn [compat] in Hc; discriminate.
  - destruct d; cbn [compat] in Hc; discriminate.
  - destruct d; cbn [compat] in Hc; try discriminate. apply andb_prop in Hc as [Hn Hc]. cbn [is_dynamic] in Hd.
    f_equal. now apply IHs. lia.
  - destruct d; cbn [compat] in Hc; discriminate.
  - destruct d as [| | | | | | | | | | |ds]; cbn [compat] in Hc; try discriminate. cbn [is_dynamic] in Hd. f_equal.
    revert ds Hc Hd. induction H as [|x l Hx Hl IH]; intros [|y ds] Hc Hd; try discriminate; auto.
    apply andb_prop in Hc as [Hc1 Hc2]. cbn [existsb] in Hd. apply orb_false_elim in Hd as [Hd1 Hd2].
    rewrite (Hx y Hc1 Hd1), (IH ds Hc2 Hd2). reflexivity.
Qed.

(* a plain translation copy of a whole value *)
Lemma NC_by_agree t v (m m' : mem) src dst :
  wf_ty t = true -> in_type t v = true -> vyread t m src = v -> agree m m' src dst (vmem_size t) ->
  vyread t m' dst = v.
Proof.
  intros Hw Hin Hr Hag. rewrite <- Hr. apply (vyread_ext t Hw m m' src dst Hag). now rewrite Hr.
Qed.

Lemma NC_word t : (forall td m src dst, norm t td m src dst = Some (mstorew m dst (mloadw m src))) ->
  (forall td, compat t td = ty_eqb t td) -> vmem_size t = 32 -> NC t.
Proof.
  intros Hn Hcm Hs td v m src dst Hws Hwd Hc Hin Hr Hok Hsep.
  rewrite Hcm in Hc. apply ty_eqb_eq in Hc. subst td. rewrite Hn, Hs in *.
  exists (mstorew m dst (mloadw m src)). split; [reflexivity|]. split; [|split].
  - apply (NC_by_agree t v m _ src dst Hws Hin Hr). rewrite Hs. intros i Hi.
    rewrite mstorew_mloadw_at by (auto; lia). f_equal. lia.
  - now apply mstorew_ok.
  - intros a Ha. apply mstorew_out. lia.
Qed.

Lemma bytes_copy_ok (m : mem) src dst L : 0 <= L ->
  let m' := mcopy m dst src (32 + ceil32 L) in
  mloadw m' dst = mloadw m src /\ mread m' (dst + 32) (Z.to_nat L) = mread m (src + 32) (Z.to_nat L).
Proof.
  intros HL m'. pose proof (ceil32_ge L) as Hg. split.
  - apply mloadw_pt. intros i Hi. unfold m'. rewrite mcopy_at by lia. f_equal. lia.
  - apply mread_pt. intros i Hi. unfold m'. rewrite mcopy_at by lia. f_equal. lia.
Qed.

Lemma NC_bytes_like ts :
  (forall m a, vyread ts m a = VBytes (mread m (a + 32) (Z.to_nat (mloadw m a)))) ->
  forall bs, vmem_size ts = 32 + ceil32 bs -> (forall d, in_type ts (VBytes d) = true -> zlen d <= bs) ->
  (forall td, compat ts td = true -> exists bd, bs <= bd /\ vmem_size td = 32 + ceil32 bd /\
        (forall m a, vyread td m a = VBytes (mread m (a + 32) (Z.to_nat (mloadw m a)))) /\
        (forall m src dst, norm ts td m src dst = Some (mcopy m dst src (32 + ceil32 (mloadw m src))))) ->
  NC ts.
Proof.
  intros Hrd bs Hsz Hb Htd td v m src dst Hws Hwd Hc Hin Hr Hok Hsep.
  destruct (Htd td Hc) as (bd & Hle & Hszd & Hrdd & Hnorm). rewrite Hnorm, Hszd in *. rewrite Hsz in Hsep.
  rewrite Hrd in Hr. subst v. apply Hb in Hin. rewrite zlen_mread in Hin.
  pose proof (mloadw_range m src Hok) as HL.
  remember (mloadw m src) as L eqn:EL.
  assert (HLb : L <= bs) by (clear EL; lia).
  pose proof (ceil32_mono L bs HLb) as Hm1. pose proof (ceil32_mono bs bd Hle) as Hm2. pose proof (ceil32_ge L) as Hg.
  destruct (bytes_copy_ok m src dst L ltac:(clear EL; lia)) as [E1 E2]. cbn zeta in E1, E2.
  exists (mcopy m dst src (32 + ceil32 L)). split; [reflexivity|]. split; [|split].
  - rewrite Hrdd, E1, <- EL, E2. reflexivity.
  - now apply mcopy_ok.
  - intros a Ha. apply mcopy_out; clear EL E1 E2; lia.
Qed.

Lemma sep_sym_sub src ls dst ld o1 l1 o2 l2 :
  sep src ls dst ld -> 0 <= o1 -> 0 <= l1 -> o1 + l1 <= ls -> 0 <= o2 -> 0 <= l2 -> o2 + l2 <= ld ->
  sep (src + o1) l1 (dst + o2) l2.
Proof. unfold sep. lia. Qed.

Lemma NC_darr s bs : NC s -> NC (TDArr s bs).
Proof.
  intros IH td v m src dst Hws Hwd Hc Hin Hr Hok Hsep.
  destruct td as [| | | | | | | | | |d bd|]; cbn [compat] in Hc; try discriminate.
  apply andb_prop in Hc as [Hb Hcs]. cbn [wf_ty] in Hws, Hwd.
  apply andb_prop in Hws as [Hbs Hwss]. apply andb_prop in Hwd as [Hbd Hwdd].
  pose proof (vmem_nonneg s Hwss) as Hs0. pose proof (vmem_nonneg d Hwdd) as Hd0.
  rewrite vmem_darr in Hsep. rewrite (vmem_darr d bd) in *.
  rewrite vyread_darr in Hr. subst v. apply in_type_darr_map in Hin as [Hlen Hall].
  pose proof (mloadw_range m src Hok) as HL.
  cbn [norm]. remember (mloadw m src) as L eqn:EL.
  assert (HLb : 0 <= L <= bs /\ L <= bd /\ L < W256 /\ Z.of_nat (Z.to_nat L) = L) by (clear EL; lia).
  destruct HLb as (HL1 & HL2 & HL3 & HL4).
  replace (bd <? L) with false by (clear EL; lia).
  set (ss := vmem_size s) in *. set (sd := vmem_size d) in *.
  set (m1 := mstorew m dst L).
  assert (Hok1 : mem_ok m1) by (apply mstorew_ok; auto).
  assert (Hm1src : forall x, src <= x < src + (32 + bs * ss) -> m1 x = m x).
  { intros x Hx. unfold m1. apply mstorew_out. clear EL. unfold sep in Hsep. nia. }
  (* the element values *)
  set (vals := fun j : Z => vyread s m (src + 32 + j * ss)).
  assert (Hvals : forall j, 0 <= j < L -> in_type s (vals j) = true).
  { intros j Hj. unfold vals. replace j with (Z.of_nat (Z.to_nat j)) by lia. apply Hall. clear EL. lia. }
  (* common end: reading the destination *)
  assert (Hfinish : forall m', mloadw m' dst = L ->
            (forall j, 0 <= j < L -> vyread d m' (dst + 32 + j * sd) = vals j) ->
            vyread (TDArr d bd) m' dst =
            VList (map (fun i : nat => vyread s m (src + 32 + Z.of_nat i * vmem_size s)) (seq 0 (Z.to_nat L)))).
  { intros m' E Hel. rewrite vyread_darr, E. f_equal. apply map_seq_ext. intros i Hi. fold sd ss.
    apply Hel. clear EL. lia. }
  destruct (ty_eqb s d && (ss =? sd)) eqn:Efast.
  - (* bulk copy: same element type *)
    apply andb_prop in Efast as [Eeq Esz]. apply ty_eqb_eq in Eeq. subst d. fold ss in sd. 
    assert (Hsd : sd = ss) by reflexivity.
    exists (mcopy m1 (dst + 32) (src + 32) (L * sd)).
    assert (HLs : 0 <= L * sd <= bd * sd) by (clear EL; nia).
    split; [reflexivity|]. split; [|split].
    + apply Hfinish.
      * transitivity (mloadw m1 dst). apply mloadw_pt. intros i Hi. apply mcopy_out; clear EL; lia.
        unfold m1. apply mloadw_mstorew. clear EL. lia.
      * intros j Hj. apply (NC_by_agree s (vals j) m _ (src + 32 + j * ss) (dst + 32 + j * sd) Hwss (Hvals j Hj) eq_refl).
        fold ss. intros i Hi. rewrite mcopy_at by (clear EL; nia).
        rewrite Hm1src by (clear EL; nia). f_equal. clear EL. rewrite Hsd. lia.
    + now apply mcopy_ok.
    + intros a Ha. rewrite mcopy_out by (clear EL; nia). unfold m1. apply mstorew_out. clear EL. nia.
  - (* element-wise *)
    assert (Hsep' : sep (src + 32) (L * ss) (dst + 32) (L * sd)) by (clear EL; unfold sep in *; nia).
    destruct (loop_ok s d IH Hwss Hwdd Hcs vals L (src + 32) (dst + 32) Hsep' (Z.to_nat L) 0 m1 ltac:(lia) ltac:(clear EL; lia))
      as (m' & Hn' & Hr' & Hok' & Hf'); auto.
    { intros j Hj. split. apply Hvals. clear EL. lia.
      unfold vals. apply (NC_by_agree s (vyread s m (src + 32 + j * ss)) m m1 (src + 32 + j * ss) (src + 32 + j * ss) Hwss); auto.
      apply Hvals. clear EL; lia.
      apply agree_refl_on. intros x Hx. symmetry. apply Hm1src. fold ss in Hx. clear EL. nia. }
    fold ss sd in Hn'. rewrite Hn'. exists m'. split; [reflexivity|]. split; [|split; [exact Hok'|]].
    + apply Hfinish.
      * transitivity (mloadw m1 dst). apply mloadw_pt. intros i Hi. apply Hf'. clear EL. lia.
        unfold m1. apply mloadw_mstorew. clear EL. lia.
      * intros j Hj. fold sd in Hr'. apply Hr'. clear EL. lia.
    + intros a Ha. fold sd in Hf'. rewrite Hf' by (clear EL; nia). unfold m1. apply mstorew_out. clear EL. nia.
Qed.

Lemma in_type_sarr_map t n (f : nat -> val) :
  in_type (TSArr t n) (VList (map f (seq 0 (Z.to_nat n)))) = true -> forall i, (i < Z.to_nat n)%nat -> in_type t (f i) = true.
Proof.
  intro Hin. cbn [in_type] in Hin. apply andb_prop in Hin as [_ Hall]. rewrite forallb_forall in Hall.
  intros i Hi. apply Hall. apply in_map_iff. exists i. split; auto. apply in_seq. lia.
Qed.

Lemma NC_sarr s n : NC s -> NC (TSArr s n).
Proof.
  intros IH td v m src dst Hws Hwd Hc Hin Hr Hok Hsep.
  destruct td as [| | | | | | | | |d k| |]; cbn [compat] in Hc; try discriminate.
  apply andb_prop in Hc as [Hnk Hcs]. assert (k = n) by lia. subst k. cbn [wf_ty] in Hws, Hwd.
  apply andb_prop in Hws as [Hn1 Hwss]. apply andb_prop in Hwd as [_ Hwdd].
  pose proof (vmem_nonneg s Hwss) as Hs0. pose proof (vmem_nonneg d Hwdd) as Hd0.
  rewrite vmem_sarr in Hsep. rewrite (vmem_sarr d n) in *.
  rewrite vyread_sarr in Hr. subst v. pose proof (in_type_sarr_map _ _ _ Hin) as Hall.
  cbn [norm]. set (ss := vmem_size s) in *. set (sd := vmem_size d) in *.
  set (vals := fun j : Z => vyread s m (src + j * ss)).
  assert (Hvals : forall j, 0 <= j < n -> in_type s (vals j) = true).
  { intros j Hj. unfold vals. replace j with (Z.of_nat (Z.to_nat j)) by lia. apply Hall. lia. }
  assert (Hfinish : forall m', (forall j, 0 <= j < n -> vyread d m' (dst + j * sd) = vals j) ->
            vyread (TSArr d n) m' dst =
            VList (map (fun i : nat => vyread s m (src + Z.of_nat i * vmem_size s)) (seq 0 (Z.to_nat n)))).
  { intros m' Hel. rewrite vyread_sarr. f_equal. apply map_seq_ext. intros i Hi. fold sd ss. apply Hel. lia. }
  destruct ((ss =? sd) && negb (is_dynamic (TSArr d n))) eqn:Efast.
  - apply andb_prop in Efast as [Esz Edyn]. cbn [is_dynamic] in Edyn.
    assert (s = d) by (apply compat_static; auto; now destruct (is_dynamic d)). subst d.
    assert (Hsd : sd = ss) by reflexivity.
    exists (mcopy m dst src (n * sd)). split; [reflexivity|]. split; [|split].
    + apply Hfinish. intros j Hj.
      apply (NC_by_agree s (vals j) m _ (src + j * ss) (dst + j * sd) Hwss (Hvals j Hj) eq_refl).
      fold ss. intros i Hi. rewrite mcopy_at by nia. f_equal. rewrite Hsd. lia.
    + now apply mcopy_ok.
    + intros a Ha. apply mcopy_out; nia.
  - destruct (loop_ok s d IH Hwss Hwdd Hcs vals n src dst Hsep (Z.to_nat n) 0 m ltac:(lia) ltac:(lia))
      as (m' & Hn' & Hr' & Hok' & Hf'); auto.
    { intros j Hj. split. apply Hvals. lia. reflexivity. }
    fold ss sd in Hn'. rewrite Hn'. exists m'. split; [reflexivity|]. split; [|split; [exact Hok'|]].
    + apply Hfinish. intros j Hj. fold sd in Hr'. apply Hr'. lia.
    + intros a Ha. fold sd in Hf'. apply Hf'. nia.
Qed.

Definition tsum (ts : list ty) : Z := fold_right (fun t' acc => vmem_size t' + acc) 0 ts.
Lemma tsum_nonneg ts : forallb wf_ty ts = true -> 0 <= tsum ts.
Proof.
  induction ts; cbn [forallb tsum fold_right]; intro H. lia. apply andb_prop in H as [A B].
  pose proof (vmem_nonneg a A). specialize (IHts B). unfold tsum in IHts. lia.
Qed.
Definition read_go (m : mem) := fix go (ts : list ty) (a : Z) : list val :=
  match ts with [] => [] | t' :: r => vyread t' m a :: go r (a + vmem_size t') end.
Lemma vyread_tuple ts m a : vyread (TTuple ts) m a = VList (read_go m ts a).
Proof. reflexivity. Qed.
Definition compat_go := fix go (ss ds : list ty) : bool :=
  match ss, ds with [] , [] => true | s :: r, d :: q => compat s d && go r q | _, _ => false end.
Definition norm_go (src dst : Z) := fix go (ss ds : list ty) (m : mem) (so d_o : Z) : option mem :=
  match ss, ds with
  | s :: r, d :: q => match norm s d m (src + so) (dst + d_o) with
                      | Some m1 => go r q m1 (so + vmem_size s) (d_o + vmem_size d)
                      | None => None end
  | _, _ => Some m
  end.

Lemma tuple_ok ss : Forall NC ss -> forall ds vs m so d_o src dst SL DL,
  forallb wf_ty ss = true -> forallb wf_ty ds = true -> compat_go ss ds = true ->
  zip_all (map in_type ss) vs = true -> read_go m ss (src + so) = vs -> mem_ok m ->
  0 <= so -> 0 <= d_o -> so + tsum ss <= SL -> d_o + tsum ds <= DL -> sep src SL dst DL ->
  exists m', norm_go src dst ss ds m so d_o = Some m' /\ read_go m' ds (dst + d_o) = vs /\ mem_ok m' /\
             (forall a, a < dst + d_o \/ dst + d_o + tsum ds <= a -> m' a = m a).
Proof.
  induction 1 as [|s ss Hs HF IH]; intros [|d ds] vs m so d_o src dst SL DL Hws Hwd Hc Hin Hr Hok Hso Hdo HSL HDL Hsep;
    cbn [compat_go] in Hc; try discriminate.
  - cbn [read_go] in Hr. subst vs. exists m. cbn [norm_go read_go tsum fold_right].
    split; [reflexivity|]. split; [reflexivity|]. split; [exact Hok|]. intros; reflexivity.
  - destruct vs as [|v vs]; cbn [map zip_all] in Hin; try discriminate.
    apply andb_prop in Hc as [Hc1 Hc2]. apply andb_prop in Hin as [Hi1 Hi2].
    cbn [forallb] in Hws, Hwd. apply andb_prop in Hws as [Hws1 Hws2]. apply andb_prop in Hwd as [Hwd1 Hwd2].
    cbn [read_go] in Hr. injection Hr as Hr1 Hr2.
    cbn [tsum fold_right] in HSL, HDL. fold (tsum ss) in HSL. fold (tsum ds) in HDL.
    pose proof (vmem_nonneg s Hws1) as Hs0. pose proof (vmem_nonneg d Hwd1) as Hd0.
    pose proof (tsum_nonneg ss Hws2) as Hts. pose proof (tsum_nonneg ds Hwd2) as Htd.
    assert (Hsep1 : sep (src + so) (vmem_size s) (dst + d_o) (vmem_size d)) by (unfold sep in *; lia).
    destruct (Hs d v m (src + so) (dst + d_o) Hws1 Hwd1 Hc1 Hi1 Hr1 Hok Hsep1) as (m1 & Hn1 & Hrd1 & Hok1 & Hf1).
    cbn [norm_go]. rewrite Hn1.
    assert (Hr2' : read_go m1 ss (src + (so + vmem_size s)) = vs).
    { rewrite <- Hr2. rewrite Z.add_assoc.
      apply (tuple_go_ext ss).
      - apply Forall_forall. intros t0 _. apply vyread_ext.
      - exact Hws2.
      - apply agree_refl_on. intros x Hx. symmetry. apply Hf1. fold (tsum ss) in Hx. unfold sep in Hsep. lia.
      - fold (read_go m). rewrite Hr2. exact Hi2. }
    destruct (IH ds vs m1 (so + vmem_size s) (d_o + vmem_size d) src dst SL DL Hws2 Hwd2 Hc2 Hi2 Hr2' Hok1
                 ltac:(lia) ltac:(lia) ltac:(lia) ltac:(lia) Hsep) as (m' & Hn' & Hr' & Hok' & Hf').
    exists m'. split; [exact Hn'|]. split; [|split; [exact Hok'|]].
    + cbn [read_go]. f_equal.
      * rewrite <- Hrd1. apply (vyread_ext d Hwd1 m1 m'). 2:{ rewrite Hrd1. apply (in_type_widen s d); auto. }
        apply agree_refl_on. intros x Hx. symmetry. apply Hf'. lia.
      * rewrite Z.add_assoc in Hr'. exact Hr'.
    + intros a Ha. cbn [tsum fold_right] in Ha. fold (tsum ds) in Ha. rewrite Hf' by lia. apply Hf1. lia.
Qed.

Lemma NC_tuple ss : Forall NC ss -> NC (TTuple ss).
Proof.
  intros HF td v m src dst Hws Hwd Hc Hin Hr Hok Hsep.
  destruct td as [| | | | | | | | | | |ds]; cbn [compat] in Hc; try discriminate.
  rewrite vyread_tuple in Hr. subst v. cbn [in_type] in Hin. cbn [wf_ty] in Hws, Hwd.
  change (vmem_size (TTuple ss)) with (tsum ss) in Hsep. change (vmem_size (TTuple ds)) with (tsum ds) in *.
  destruct (tuple_ok ss HF ds _ m 0 0 src dst (tsum ss) (tsum ds) Hws Hwd Hc Hin) as (m' & Hn' & Hr' & Hok' & Hf'); auto; try lia.
  { now rewrite Z.add_0_r. }
  exists m'. split. exact Hn'. split. rewrite vyread_tuple. rewrite Z.add_0_r in Hr'. now rewrite Hr'.
  split; auto. intros a Ha. apply Hf'. lia.
Qed.

Theorem norm_correct : forall ts, NC ts.
Proof.
  induction ts using ty_ind'.
  1-4: (apply NC_word; [reflexivity | reflexivity | reflexivity]).
  - apply NC_word; [reflexivity | reflexivity | reflexivity].
  - apply NC_word; [reflexivity | reflexivity | reflexivity].
  - apply NC_word; [reflexivity | reflexivity | reflexivity].
  - apply (NC_bytes_like (TBytes b) ltac:(reflexivity) b eq_refl).
    + intros d Hd. cbn [in_type] in Hd. lia.
    + intros td Hc. destruct td; cbn [compat] in Hc; try discriminate. exists bound. repeat split; try reflexivity. lia.
  - apply (NC_bytes_like (TString b) ltac:(reflexivity) b eq_refl).
    + intros d Hd. cbn [in_type] in Hd. lia.
    + intros td Hc. destruct td; cbn [compat] in Hc; try discriminate. exists bound. repeat split; try reflexivity. lia.
  - now apply NC_sarr.
  - now apply NC_darr.
  - now apply NC_tuple.
Qed.

(* ---------- ctx.store_memory: plain copy when the layouts coincide, normalisation otherwise ---------- *)
Theorem store_memory_correct : forall ts td v m src dst,
  wf_ty ts = true -> wf_ty td = true -> compat ts td = true -> in_type ts v = true ->
  vyread ts m src = v -> mem_ok m -> sep src (vmem_size ts) dst (vmem_size td) ->
  exists m', store_memory ts td m src dst = Some m' /\ vyread td m' dst = v /\ mem_ok m' /\
             (forall a, a < dst \/ dst + vmem_size td <= a -> m' a = m a).
Proof.
  intros ts td v m src dst Hws Hwd Hc Hin Hr Hok Hsep.
  assert (Hn := norm_correct ts td v m src dst Hws Hwd Hc Hin Hr Hok Hsep).
  unfold store_memory. destruct td; try exact Hn;
    try (destruct (ty_eqb ts _) eqn:E; [|exact Hn]; apply ty_eqb_eq in E; subst ts).
  all: try (destruct ts; cbn [compat] in Hc; try discriminate; exact Hn).
  all: pose proof (vmem_nonneg _ Hwd) as H0;
       eexists; split; [reflexivity|]; split; [|split; [now apply mcopy_ok | intros a Ha; apply mcopy_out; lia]];
       apply (NC_by_agree _ v m _ src dst Hwd Hin Hr); intros i Hi; rewrite mcopy_at by lia; f_equal; lia.
Qed.
