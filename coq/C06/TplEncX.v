(* C06 extension: template generators for the ABI encoders whose SOURCE is not cancun memory.
   VENOM part: [venc_x cancun] generalises TplEncV.venc_tpl by the EVM version (pre-cancun: no MCOPY, so
   ctx.copy_memory is an identity-precompile staticcall for >= 96 bytes and a word-by-word copy below, and
   ctx.copy_memory_dynamic is always the identity precompile); [vs2m] is ctx.load_storage_to_memory. *)
From Coq Require Import ZArith List Bool String Ascii.
From Verif Require Import C06.Abi C06.Sexp C06.TplEncL C06.TplEncV.
Import ListNotations.
Open Scope string_scope.
Open Scope list_scope.
Open Scope Z_scope.

(* ================= VENOM ================= *)

(* identity precompile copy: staticcall(gas, 4, src, len, dst, len); assert *)
Definition b_idcopy (d s n : sx) : M unit :=
  g <- emit "gas" [] ;; ok <- emit "staticcall" [g; SI 4; s; n; d; n] ;; emit0 "assert" [ok].

Definition b_ofs (p : sx) (o : Z) : M sx := if o =? 0 then ret p else b_add p (SI o).

(* ctx.copy_memory(dst, src, size) *)
Definition b_copy_static (cancun : bool) (d s : sx) (size : Z) : M unit :=
  if size =? 0 then ret tt
  else if cancun then b_mcopy d s (SI size)
  else if 96 <=? size then b_idcopy d s (SI size)
  else (fix go (k : nat) (o : Z) : M unit :=
          match k with
          | O => ret tt
          | S k' => sp <- b_ofs s o ;; dp <- b_ofs d o ;; v <- b_mload sp ;; b_mstore dp v ;;; go k' (o + 32)
          end) (Z.to_nat ((size + 31) / 32)) 0.

(* ctx.copy_memory_dynamic(dst, src, length) *)
Definition b_copy_dyn (cancun : bool) (d s n : sx) : M unit :=
  if cancun then b_mcopy d s n else b_idcopy d s n.

(* _abi_encode_to_buf(ctx, dst, src, typ) -> returned length operand *)
Fixpoint venc_x (cancun : bool) (t : ty) (dst src : sx) : M sx :=
  if negb (is_dynamic t) then
    b_copy_static cancun dst src (vmem_size t) ;;; ret (SI (emb_static t))
  else
    let child (t' : ty) (elem_ptr : sx) (so : Z) (dyn : sx) : M unit :=
      static_loc <- b_add dst (SI so) ;;
      if is_dynamic t' then
        d <- b_mload dyn ;; child_dst <- b_add dst d ;; len <- venc_x cancun t' child_dst elem_ptr ;;
        b_mstore static_loc d ;;; nd <- b_add d len ;; b_mstore dyn nd
      else
        venc_x cancun t' static_loc elem_ptr ;;; ret tt in
    match t with
    | TBytes _ | TString _ =>
        length <- b_mload src ;;
        x <- b_add length (SI 31) ;; y <- emit "and" [x; SI MASK31] ;; p <- b_add dst y ;; b_mstore p (SI 0) ;;;
        cl <- b_add (SI 32) length ;; b_copy_dyn cancun dst src cl ;;;
        a <- b_add length (SI 31) ;; c <- emit "and" [a; SI MASK31] ;; b_add (SI 32) c
    | TDArr t' _ =>
        dyn <- b_alloca 32 ;; b_mstore dyn (SI 0) ;;;
        let es := emb_static t' in
        length <- b_mload src ;; b_mstore dst length ;;;
        hdr <- create_block "dyn_encode_hdr" ;; append_block hdr ;;;
        body <- create_block "dyn_encode_body" ;; append_block body ;;;
        exit <- create_block "dyn_encode_exit" ;; append_block exit ;;;
        i_val <- b_alloca 32 ;; b_mstore i_val (SI 0) ;;;
        cdo <- (if is_dynamic t' then
                  c <- b_alloca 32 ;; init <- b_mul length (SI es) ;; b_mstore c init ;;; ret c
                else ret (SI 0)) ;;
        emit0 "jmp" [lbl hdr] ;;;
        set_block hdr ;;;
        i <- b_mload i_val ;; c <- emit "lt" [i; length] ;; done <- emit "iszero" [c] ;;
        emit0 "jnz" [done; lbl exit; lbl body] ;;;
        set_block body ;;;
        i <- b_mload i_val ;;
        src_data <- b_add src (SI 32) ;; src_off <- b_mul i (SI (vmem_size t')) ;; child_src <- b_add src_data src_off ;;
        dst_data <- b_add dst (SI 32) ;; static_ofst <- b_mul i (SI es) ;;
        (if is_dynamic t' then
           static_loc <- b_add dst_data static_ofst ;; d <- b_mload cdo ;; child_dst <- b_add dst_data d ;;
           len <- venc_x cancun t' child_dst child_src ;;
           b_mstore static_loc d ;;; nd <- b_add d len ;; b_mstore cdo nd
         else
           child_dst <- b_add dst_data static_ofst ;; venc_x cancun t' child_dst child_src ;;; ret tt) ;;;
        ni <- b_add i (SI 1) ;; b_mstore i_val ni ;;; emit0 "jmp" [lbl hdr] ;;;
        set_block exit ;;;
        length_exit <- b_mload src ;;
        total <- (if is_dynamic t' then f <- b_mload cdo ;; b_add (SI 32) f
                  else m <- b_mul length_exit (SI es) ;; b_add (SI 32) m) ;;
        pd <- b_mload dyn ;; np <- b_add pd total ;; b_mstore dyn np ;;;
        b_mload dyn
    | TSArr t' cnt =>
        dyn <- b_alloca 32 ;; b_mstore dyn (SI (static_size t)) ;;;
        (fix go (k : nat) (i so : Z) : M unit :=
           match k with
           | O => ret tt
           | S k' => elem_ptr <- b_add src (SI (i * vmem_size t')) ;; child t' elem_ptr so dyn ;;;
                     go k' (i + 1) (so + emb_static t')
           end) (Z.to_nat cnt) 0 0 ;;;
        b_mload dyn
    | TTuple ts =>
        dyn <- b_alloca 32 ;; b_mstore dyn (SI (static_size t)) ;;;
        (fix go (ts : list ty) (mo so : Z) : M unit :=
           match ts with
           | [] => ret tt
           | t' :: r => elem_ptr <- b_add src (SI mo) ;; child t' elem_ptr so dyn ;;;
                        go r (mo + vmem_size t') (so + emb_static t')
           end) ts 0 0 ;;;
        b_mload dyn
    | _ => ret (SI 0)
    end.

Definition vprobe (prog : M unit) : sx := render (snd (prog (mkB 0 0 [("probe", [])] "probe"))).

(* abi_encode_to_buf(dst = %2, src = %1) *)
Definition tpl_enc_v_x (cancun : bool) (t : ty) : sx :=
  vprobe (src <- emit "param" [] ;; dst <- emit "param" [] ;; r <- venc_x cancun t dst src ;;
          emit0 "return" [dst; r]).
Definition tpl_enc_v_pre : ty -> sx := tpl_enc_v_x false.

(* instruction writing an EXISTING variable (builder.assign_to) *)
Definition emit_to (v : sx) (opc : string) (args : list sx) : M unit := push (SL (v :: SS opc :: args)).

(* ctx.load_storage_to_memory(slot, typ) for a non-primitive type: new_temporary_value, then one sload or the
   _word_copy_loop (src_scale 1, dst_scale 32, prefix "s2m") *)
Definition vs2m (t : ty) (slot : sx) : M sx :=
  buf <- b_alloca (vmem_size t) ;;
  let nwords := vmem_size t / 32 in
  (if nwords =? 1 then
     v <- emit "sload" [slot] ;; b_mstore buf v
   else
     cond <- create_block "s2m_cond" ;; body <- create_block "s2m_body" ;; exit <- create_block "s2m_exit" ;;
     counter <- emit "assign" [SI 0] ;; emit0 "jmp" [lbl cond] ;;;
     append_block cond ;;; set_block cond ;;;
     done <- emit "eq" [counter; SI nwords] ;;
     append_block body ;;; set_block body ;;;
     so <- b_add slot counter ;; v <- emit "sload" [so] ;;
     m <- b_mul counter (SI 32) ;; do <- b_add buf m ;; b_mstore do v ;;;
     nc <- b_add counter (SI 1) ;; emit_to counter "assign" [nc] ;;; emit0 "jmp" [lbl cond] ;;;
     set_block cond ;;; emit0 "jnz" [done; lbl exit; lbl body] ;;;
     append_block exit ;;; set_block exit) ;;;
  ret buf.

Definition tpl_enc_v_sto_x (cancun : bool) (t : ty) : sx :=
  vprobe (slot <- emit "param" [] ;; dst <- emit "param" [] ;; buf <- vs2m t slot ;;
          r <- venc_x cancun t dst buf ;; emit0 "return" [dst; r]).
Definition tpl_enc_v_sto : ty -> sx := tpl_enc_v_sto_x true.

(* ================= LEGACY ================= *)
(* [lenc_x L] generalises TplEncL.lenc by the location of the source and the EVM version.  Besides the [ix]
   counter of abi_encode's dyn-array loops (context.fresh_varname) a second counter is threaded:
   core._freshname("copy_bytes_ix"), used by the word-by-word loop of copy_bytes. *)

Inductive copy_kind := CkMcopy | CkIdentity | CkLoop.

Record lloc := mkLoc {
  l_load : string;        (* location.load_op *)
  l_ws : Z;               (* location.word_scale *)
  l_copy : copy_kind;     (* what copy_bytes(memory dst, src) uses above one word *)
  l_copyop : bool;        (* copy_opcode_available(memory dst, src) *)
  l_batch : Z -> bool;    (* _complex_make_setter: batch copy a static value of this many memory bytes? *)
  l_maxh : bool           (* _prefer_copy_maxbound_heuristic can hold (src in calldata / memory) *)
}.

Definition loc_mem_cancun := mkLoc "mload" 32 CkMcopy true (fun _ => true) true.
(* pre-cancun, -O gas, neither pointer a literal: 12 + 24 * (n_words - 1) >= 115 *)
Definition loc_mem_pre := mkLoc "mload" 32 CkIdentity false (fun len => 115 <=? 12 + 24 * (ceil32 len / 32 - 1)) true.
(* storage, -O gas *)
Definition loc_sto := mkLoc "sload" 1 CkLoop false (fun len => 320 <=? len) false.
(* calldata with Encoding.ABI: never "simple_encoding", always unrolled *)
Definition loc_cd_abi := mkLoc "calldataload" 32 CkMcopy true (fun _ => false) true.

Definition LOADx (L : lloc) (p : sx) : sx := app1 (l_load L) p.
(* typ.get_size_in(location) *)
Definition size_in (L : lloc) (t : ty) : Z := vmem_size t / 32 * l_ws L.

(* copy_bytes(dst@memory, src@L, length, length_bound); m = the _freshname counter *)
Definition copy_bytes_x (L : lloc) (dst src len : sx) (bound : Z) (m : Z) : sx * Z :=
  if bound =? 0 then (sseq [], m) else
  match len with SI 0 => (sseq [], m) | _ =>
    let s := cref "src" src in
    let l := cref "copy_bytes_count" len in
    let d := cref "dst" dst in
    let wrap (op : sx) := cwrap "src" src (cwrap "copy_bytes_count" len (cwrap "dst" dst op)) in
    if bound <=? 32 then (wrap (app2 "mstore" d (LOADx L s)), m) else
    match l_copy L with
    | CkMcopy => (wrap (app3 "mcopy" d s l), m)
    | CkIdentity => (wrap (app1 "assert" (SL [SS "staticcall"; SS "gas"; SI 4; s; l; d; l])), m)
    | CkLoop =>
        let i := SS (zname "copy_bytes_ix" (m + 1)) in
        (wrap (SL [SS "repeat"; i; SI 0; app2 "div" (app2 "add" (SI 31) l) (SI 32); SI (ceil32 bound / 32);
                   app2 "mstore" (add_ofst d (app2 "mul" i (SI 32)))
                                 (LOADx L (add_ofst s (app2 "mul" i (SI (l_ws L)))))]), m + 1)
    end
  end.

(* make_setter(dst@memory, src@L) for a STATIC type, no clamps: word store, or c_right cache around
   _complex_make_setter (batch copy_bytes, or unrolled under the _L / _R caches) *)
Fixpoint setter_x (L : lloc) (t : ty) (dst src : sx) (m : Z) : sx * Z :=
  if is_word t then (app2 "mstore" dst (LOADx L src), m) else
  let r := cref "c_right" src in
  let '(inner, m') :=
    if l_batch L (vmem_size t) then copy_bytes_x L dst r (SI (vmem_size t)) (vmem_size t) m
    else
      let lp := cref "_L" dst in
      let rp := cref "_R" r in
      let '(items, m') :=
        match t with
        | TSArr t' cnt =>
            (fix go (k : nat) (i : Z) (m : Z) : list sx * Z :=
               match k with
               | O => ([], m)
               | S k' =>
                   let '(c, m1) := setter_x L t' (add_ofst lp (app2 "mul" (SI i) (SI (vmem_size t'))))
                                            (add_ofst rp (app2 "mul" (SI i) (SI (size_in L t')))) m in
                   let '(rest, m2) := go k' (i + 1) m1 in (c :: rest, m2)
               end) (Z.to_nat cnt) 0 m
        | TTuple ts =>
            (fix go (ts : list ty) (mo lo : Z) (m : Z) : list sx * Z :=
               match ts with
               | [] => ([], m)
               | t' :: r' =>
                   let '(c, m1) := setter_x L t' (add_ofst lp (SI mo)) (add_ofst rp (SI lo)) m in
                   let '(rest, m2) := go r' (mo + vmem_size t') (lo + size_in L t') m1 in (c :: rest, m2)
               end) ts 0 0 m
        | _ => ([], m)
        end in
      (cwrap "_L" dst (cwrap "_R" r (sseq items)), m') in
  (cwrap "c_right" src (sseq [inner]), m').

(* make_byte_array_copier(dst@memory, src@L) *)
Definition bytes_copier_x (L : lloc) (b : Z) (dst src : sx) (m : Z) : sx * Z :=
  let s := cref "src" src in
  let maxb := b + 32 in
  if (b <=? 32) && negb (l_copyop L) then
    (cwrap "src" src (sseq [app2 "mstore" dst (LOADx L s);
                            app2 "mstore" (add_ofst dst (SI 32)) (LOADx L (add_ofst s (SI (l_ws L))))]), m)
  else
    let len := if l_maxh L && (ceil32 b * 3 / 32 <=? 9) then SI maxb else add_ofst (LOADx L s) (SI 32) in
    let '(c, m') := copy_bytes_x L dst s len maxb m in
    (cwrap "src" src c, m').

(* abi_encode(dst, src@L, returns_len); st = (ix counter, copy_bytes_ix counter) *)
Fixpoint lenc_x (L : lloc) (t : ty) (src dst : sx) (rl : bool) (st : Z * Z) : sx * (Z * Z) :=
  let '(n, m) := st in
  if negb (is_dynamic t) then
    let '(c, m') := setter_x L t dst src m in
    (sseq (c :: (if rl then [SI (emb_static t)] else [])), (n, m'))
  else
    let s := cref "to_encode" src in
    let d := cref "dst" dst in
    let wrap (body : sx) := cwrap "to_encode" src (cwrap "dst" dst body) in
    match t with
    | TBytes b | TString b =>
        let '(c, m') := bytes_copier_x L b d s m in
        (wrap (sseq ([c; zero_pad d] ++
                     (if rl then [app1 "ceil32" (app2 "add" (SI 32) (app1 "mload" d))] else []))), (n, m'))
    | TDArr t' b =>
        let n1 := n + 1 in
        let ix := SS (zname "ix" n1) in
        let es := emb_static t' in
        let child_src := add_ofst (add_ofst s (SI (l_ws L))) (app2 "mul" ix (SI (size_in L t'))) in
        let buf := add_ofst d (SI 32) in
        let static_loc := add_ofst buf (app2 "mul" ix (SI es)) in
        let '(body, st2) :=
          if is_dynamic t' then
            let '(c, st2) := lenc_x L t' child_src (app2 "add" buf (SS "dyn_child_ofst")) true (n1, m) in
            (sseq [app2 "mstore" static_loc (SS "dyn_child_ofst");
                   SL [SS "set"; SS "dyn_child_ofst"; app2 "add" (SS "dyn_child_ofst") c]], st2)
          else
            let '(c, st2) := lenc_x L t' child_src static_loc false (n1, m) in (sseq [c], st2) in
        let loop := SL [SS "repeat"; ix; SI 0; SS "len"; SI b; body] in
        let run := swith "dyn_child_ofst" (app2 "mul" (SS "len") (SI es)) (sseq [loop; SS "dyn_child_ofst"]) in
        let helper :=
          swith "len" (LOADx L s)
                (sseq [app2 "mstore" d (SS "len");
                       SL [SS "set"; SS "dyn_ofst"; app2 "add" (SI 32) (app2 "add" (SS "dyn_ofst") run)]]) in
        (wrap (swith "dyn_ofst" (SI 0) (SL (SS "seq" :: helper :: (if rl then [SS "dyn_ofst"] else [])))), st2)
    | TSArr t' cnt =>
        let '(items, st2) :=
          (fix go (k : nat) (i so : Z) (st : Z * Z) : list sx * (Z * Z) :=
             match k with
             | O => ([], st)
             | S k' =>
                 let child_src := add_ofst s (app2 "mul" (SI i) (SI (size_in L t'))) in
                 let static_loc := add_ofst d (SI so) in
                 let '(c, st1) := lenc_x L t' child_src (app2 "add" d (SS "dyn_ofst")) true st in
                 let '(r, st2) := go k' (i + 1) (so + emb_static t') st1 in
                 (SS "seq" :: app2 "mstore" static_loc (SS "dyn_ofst")
                     :: SL [SS "set"; SS "dyn_ofst"; app2 "add" (SS "dyn_ofst") c] :: r, st2)
             end) (Z.to_nat cnt) 0 0 (n, m) in
        (wrap (swith "dyn_ofst" (SI (static_size t))
                     (SL (SS "seq" :: items ++ (if rl then [SS "dyn_ofst"] else [])))), st2)
    | TTuple ts =>
        let '(items, st2) :=
          (fix go (ts : list ty) (lo so : Z) (st : Z * Z) : list sx * (Z * Z) :=
             match ts with
             | [] => ([], st)
             | t' :: r =>
                 let child_src := add_ofst s (SI lo) in
                 let static_loc := add_ofst d (SI so) in
                 if is_dynamic t' then
                   let '(c, st1) := lenc_x L t' child_src (app2 "add" d (SS "dyn_ofst")) true st in
                   let '(rest, st2) := go r (lo + size_in L t') (so + emb_static t') st1 in
                   (SS "seq" :: app2 "mstore" static_loc (SS "dyn_ofst")
                       :: SL [SS "set"; SS "dyn_ofst"; app2 "add" (SS "dyn_ofst") c] :: rest, st2)
                 else
                   let '(c, st1) := lenc_x L t' child_src static_loc false st in
                   let '(rest, st2) := go r (lo + size_in L t') (so + emb_static t') st1 in
                   (SS "seq" :: c :: rest, st2)
             end) ts 0 0 (n, m) in
        (wrap (swith "dyn_ofst" (SI (static_size t))
                     (SL (SS "seq" :: items ++ (if rl then [SS "dyn_ofst"] else [])))), st2)
    | _ => (sseq [], (n, m))
    end.

Definition tpl_enc_l_x (L : lloc) (t : ty) : sx := fst (lenc_x L t (SS "src") (SS "dst") true (0, 0)).
Definition tpl_enc_l_sto : ty -> sx := tpl_enc_l_x loc_sto.
Definition tpl_enc_l_pre : ty -> sx := tpl_enc_l_x loc_mem_pre.
Definition tpl_enc_l_cd : ty -> sx := tpl_enc_l_x loc_cd_abi.
