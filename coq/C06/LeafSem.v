(* C06 extension (session 3): SEMANTICS of the emitted template = the structural model, proved for ALL bounds,
   for the padding-critical leaf: a byte string read from STORAGE (legacy pipeline).
   [evx] (XEval.v) run on the IR that the template generator TplEncX.tpl_enc_l_sto produces for Bytes[b] / String[b]
   returns SrcEnc.wenc's length and leaves SrcEnc.wenc's memory, for every storage, every prior memory, every
   destination (within the evaluator's memory limit) -- so, by SrcEncProofs.wenc_correct, the canonical encoding.
   Step lemmas ([evs]: "evaluates to r for every sufficiently large fuel") make the evaluator usable in proofs. *)
From Coq Require Import ZArith List Bool String Lia ZifyBool.
From Verif Require Import Base.Word256 C06.Abi C06.AbiLemmas C06.ZeroPad C06.Venc C06.VencProofs C06.Sexp C06.SxEval C06.VxEval C06.XEval.
From Verif Require Import C06.Widen C06.WidenProofs C06.SrcEnc C06.SrcEncProofs C06.TplEncL C06.TplEncX.
Import ListNotations.
Open Scope string_scope. Open Scope list_scope. Open Scope Z_scope.
Ltac Zify.zify_post_hook ::= Z.to_euclidean_division_equations.

Definition evs (X : xenv) (k : nat) (e : sx) (s : st) (r : Z * st) : Prop :=
  forall fu, (k <= fu)%nat -> evx X fu e s = RVal r.

Lemma evs_weaken X k k' e s r : evs X k e s r -> (k <= k')%nat -> evs X k' e s r.
Proof. intros H Hk fu Hfu. apply H. lia. Qed.

Ltac step := cbn [evx String.eqb Ascii.eqb Bool.eqb].
Ltac start fu H := intros fu H; destruct fu; [lia|]; step.

Lemma evs_SI X n s : evs X 1 (SI n) s (n mod W, s).
Proof. start fu H. reflexivity. Qed.

Lemma evs_var X x v s : String.eqb x "seq" = false -> String.eqb x "calldatasize" = false -> String.eqb x "gas" = false ->
  lookup (s_env s) x = Some v -> evs X 1 (SS x) s (v, s).
Proof. intros E1 E2 E3 L. intros fu H. destruct fu; [lia|]. cbn [evx]. rewrite E1, E2, E3, L. reflexivity. Qed.

Lemma evs_cdsize X s : evs X 1 (SS "calldatasize") s (MEMLIM, s).
Proof. start fu H. reflexivity. Qed.

Lemma evs_mstore X k a b s va s1 vb s2 :
  evs X k a s (va, s1) -> evs X k b s1 (vb, s2) -> va + 32 <= MEMLIM ->
  evs X (S k) (SL [SS "mstore"; a; b]) s (0, mkSt (s_env s2) (mwrite (s_mem s2) va (word vb))).
Proof.
  intros Ha Hb Hr. start fu H. rewrite (Ha fu), (Hb fu) by lia.
  replace (va + 32 <=? MEMLIM) with true by lia. reflexivity.
Qed.

Lemma evs_mload X k a s va s1 : evs X k a s (va, s1) -> va + 32 <= MEMLIM ->
  evs X (S k) (SL [SS "mload"; a]) s (mloadw (s_mem s1) va, s1).
Proof. intros Ha Hr. start fu H. rewrite (Ha fu) by lia. replace (va + 32 <=? MEMLIM) with true by lia. reflexivity. Qed.

Lemma evs_sload X k a s va s1 : evs X k a s (va, s1) ->
  evs X (S k) (SL [SS "sload"; a]) s (x_sto X va mod W, s1).
Proof. intros Ha. start fu H. rewrite (Ha fu) by lia. reflexivity. Qed.

Lemma evs_ceil32 X k a s va s1 : evs X k a s (va, s1) ->
  evs X (S k) (SL [SS "ceil32"; a]) s (((va + 31) / 32 * 32) mod W, s1).
Proof. intros Ha. start fu H. rewrite (Ha fu) by lia. reflexivity. Qed.

Ltac binop_lemma := intros Ha Hb; let fu := fresh "fu" in let H := fresh "H" in
  start fu H; rewrite (Ha fu), (Hb fu) by lia; reflexivity.
Lemma evs_add X k a b s va s1 vb s2 : evs X k a s (va, s1) -> evs X k b s1 (vb, s2) ->
  evs X (S k) (SL [SS "add"; a; b]) s (w_add va vb, s2).
Proof. binop_lemma. Qed.
Lemma evs_sub X k a b s va s1 vb s2 : evs X k a s (va, s1) -> evs X k b s1 (vb, s2) ->
  evs X (S k) (SL [SS "sub"; a; b]) s (w_sub va vb, s2).
Proof. binop_lemma. Qed.
Lemma evs_mul X k a b s va s1 vb s2 : evs X k a s (va, s1) -> evs X k b s1 (vb, s2) ->
  evs X (S k) (SL [SS "mul"; a; b]) s (w_mul va vb, s2).
Proof. binop_lemma. Qed.
Lemma evs_mod X k a b s va s1 vb s2 : evs X k a s (va, s1) -> evs X k b s1 (vb, s2) ->
  evs X (S k) (SL [SS "mod"; a; b]) s (w_mod va vb, s2).
Proof. binop_lemma. Qed.
Lemma evs_div X k a b s va s1 vb s2 : evs X k a s (va, s1) -> evs X k b s1 (vb, s2) ->
  evs X (S k) (SL [SS "div"; a; b]) s (w_div va vb, s2).
Proof. binop_lemma. Qed.

Lemma evs_cdc X k a b c s va s1 vb s2 vc s3 :
  evs X k a s (va, s1) -> evs X k b s1 (vb, s2) -> evs X k c s2 (vc, s3) -> va + vc <= MEMLIM ->
  evs X (S k) (SL [SS "calldatacopy"; a; b; c]) s
      (0, mkSt (s_env s3) (mwrite (s_mem s3) va (mread (x_cd X) vb (Z.to_nat vc)))).
Proof.
  intros Ha Hb Hc Hr. start fu H. rewrite (Ha fu), (Hb fu), (Hc fu) by lia.
  replace (va + vc <=? MEMLIM) with true by lia. reflexivity.
Qed.

Lemma evs_with X k x e1 body s v s1 r s2 :
  evs X k e1 s (v, s1) -> evs X k body (mkSt ((x, v) :: s_env s1) (s_mem s1)) (r, s2) ->
  evs X (S k) (SL [SS "with"; SS x; e1; body]) s (r, mkSt (tl (s_env s2)) (s_mem s2)).
Proof. intros H1 H2. start fu H. rewrite (H1 fu), (H2 fu) by lia. reflexivity. Qed.

Lemma evs_seq2 X k a b s va s1 vb s2 : evs X k a s (va, s1) -> evs X k b s1 (vb, s2) ->
  evs X (S k) (SL [SS "seq"; a; b]) s (vb, s2).
Proof. intros Ha Hb. start fu H. rewrite (Ha fu), (Hb fu) by lia. reflexivity. Qed.
Lemma evs_seq3 X k a b c s va s1 vb s2 vc s3 :
  evs X k a s (va, s1) -> evs X k b s1 (vb, s2) -> evs X k c s2 (vc, s3) ->
  evs X (S k) (SL [SS "seq"; a; b; c]) s (vc, s3).
Proof. intros Ha Hb Hc. start fu H. rewrite (Ha fu), (Hb fu), (Hc fu) by lia. reflexivity. Qed.

Ltac ev :=
  lazymatch goal with
  | |- evs _ _ (SI _) _ _ => eapply evs_weaken; [apply evs_SI | lia]
  | |- evs _ _ (SS "calldatasize") _ _ => eapply evs_weaken; [apply evs_cdsize | lia]
  | |- evs _ _ (SS _) _ _ => eapply evs_weaken; [apply evs_var; reflexivity | lia]
  | |- evs _ (S _) (SL [SS "mstore"; _; _]) _ _ => eapply evs_mstore; [ev | ev | ]
  | |- evs _ (S _) (SL [SS "mload"; _]) _ _ => eapply evs_mload; [ev | ]
  | |- evs _ (S _) (SL [SS "sload"; _]) _ _ => eapply evs_sload; [ev]
  | |- evs _ (S _) (SL [SS "ceil32"; _]) _ _ => eapply evs_ceil32; [ev]
  | |- evs _ (S _) (SL [SS "add"; _; _]) _ _ => eapply evs_add; [ev | ev]
  | |- evs _ (S _) (SL [SS "sub"; _; _]) _ _ => eapply evs_sub; [ev | ev]
  | |- evs _ (S _) (SL [SS "mul"; _; _]) _ _ => eapply evs_mul; [ev | ev]
  | |- evs _ (S _) (SL [SS "mod"; _; _]) _ _ => eapply evs_mod; [ev | ev]
  | |- evs _ (S _) (SL [SS "div"; _; _]) _ _ => eapply evs_div; [ev | ev]
  | |- evs _ (S _) (SL [SS "calldatacopy"; _; _; _]) _ _ => eapply evs_cdc; [ev | ev | ev | ]
  | |- evs _ (S _) (SL [SS "with"; SS _; _; _]) _ _ => eapply evs_with; [ev | cbn [s_env s_mem]; ev]
  | |- evs _ (S _) (SL [SS "seq"; _; _]) _ _ => eapply evs_seq2; [ev | ev]
  | |- evs _ (S _) (SL [SS "seq"; _; _; _]) _ _ => eapply evs_seq3; [ev | ev | ev]
  | |- ?G => idtac "NOMATCH" G; fail
  end.

Definition E0 (p d : Z) : env := [("src", p); ("dst", d)].

(* the template for a stored byte string of bound 1..32, as a closed term *)
Definition tpl_small : sx :=
  sseq [sseq [app2 "mstore" (SS "dst") (app1 "sload" (SS "src"));
              app2 "mstore" (app2 "add" (SS "dst") (SI 32)) (app1 "sload" (app2 "add" (SS "src") (SI 1)))];
        TplEncL.zero_pad (SS "dst");
        app1 "ceil32" (app2 "add" (SI 32) (app1 "mload" (SS "dst")))].

Lemma tpl_small_is_generated b : 1 <= b <= 32 ->
  tpl_enc_l_sto (TBytes b) = tpl_small /\ tpl_enc_l_sto (TString b) = tpl_small.
Proof.
  intro H. unfold tpl_enc_l_sto, tpl_enc_l_x.
  cbn [lenc_x is_dynamic negb cref cwrap complex simp]. unfold bytes_copier_x.
  cbn [loc_sto l_copyop l_load l_ws l_maxh negb andb].
  replace (b <=? 32) with true by lia. split; reflexivity.
Qed.

(* zero_pad + returned length, over any memory whose length word at dst is L *)
Lemma tail_eval X p d (mL : mem) L : 0 <= d -> 0 <= L -> d + L + 128 <= MEMLIM -> mloadw mL d = L ->
  let m3 := mwrite mL (d + 32 + L) (mread (x_cd X) MEMLIM (Z.to_nat (pad32 L))) in
  (exists v, evs X 10 (TplEncL.zero_pad (SS "dst")) (mkSt (E0 p d) mL) (v, mkSt (E0 p d) m3)) /\
  evs X 10 (app1 "ceil32" (app2 "add" (SI 32) (app1 "mload" (SS "dst")))) (mkSt (E0 p d) m3)
      (32 + ceil32 L, mkSt (E0 p d) m3).
Proof.
  intros Hd0 HL0 Hd HLd m3.
  assert (HW : W = 2 ^ 256) by reflexivity. assert (HM : MEMLIM = 2 ^ 32) by reflexivity.
  assert (A1 : w_add d (32 mod W) = d + 32) by (unfold w_add; rewrite HW; lia).
  assert (A5 : w_add (d + 32) L = d + 32 + L) by (unfold w_add; rewrite HW; lia).
  assert (A6 : w_mod (w_sub (0 mod W) L) (32 mod W) = pad32 L).
  { unfold w_mod, w_sub, pad32. rewrite HW. replace (32 mod 2 ^ 256 =? 0) with false by lia. lia. }
  assert (L3 : mloadw m3 d = L).
  { rewrite <- HLd. apply mloadw_pt. intros i Hi. unfold m3. apply mwrite_frame. lia. }
  pose proof (pad32_range L) as Hpad.
  split.
  - assert (Z0 : exists r, evs X 10 (TplEncL.zero_pad (SS "dst")) (mkSt (E0 p d) mL) r /\
                           snd r = mkSt (E0 p d) m3).
    { eexists. split.
      - unfold TplEncL.zero_pad, TplEncL.add_ofst, swith, E0. unfold app1, app2, app3. ev.
        all: cbn [s_env s_mem tl]; rewrite ?HLd, ?A1, ?A5, ?A6; lia.
      - cbn [snd s_env s_mem tl]. rewrite ?HLd, ?A1, ?A5, ?A6. reflexivity. }
    destruct Z0 as ([v s'] & Hr & Hs). cbn [snd] in Hs. subst s'. exists v. exact Hr.
  - assert (C0 : exists r, evs X 10 (app1 "ceil32" (app2 "add" (SI 32) (app1 "mload" (SS "dst")))) (mkSt (E0 p d) m3) r /\
                           r = (32 + ceil32 L, mkSt (E0 p d) m3)).
    { eexists. split.
      - unfold E0. unfold app1, app2. ev. cbn [s_env s_mem]. lia.
      - cbn [s_env s_mem]. rewrite L3. f_equal. unfold w_add, ceil32. rewrite HW. lia. }
    destruct C0 as (r & Hr & ->). exact Hr.
Qed.

Lemma mloadw_under (m : mem) d w l1 l2 q1 q2 : 0 <= w < W256 -> d + 32 <= q1 -> d + 32 <= q2 ->
  mloadw (mwrite (mwrite (mwrite m d (word w)) q1 l1) q2 l2) d = w /\
  mloadw (mwrite (mwrite m d (word w)) q1 l1) d = w.
Proof.
  intros Hw H1 H2. rewrite <- (mloadw_mstorew m d w Hw) at 2 4. unfold mstorew. split.
  - apply mloadw_pt. intros i Hi. rewrite !mwrite_frame by lia. reflexivity.
  - apply mloadw_pt. intros i Hi. rewrite !mwrite_frame by lia. reflexivity.
Qed.

Lemma small_eval X p d (m : mem) : 0 <= d -> d + 160 <= MEMLIM -> 0 <= p -> p + 1 < W ->
  0 <= x_sto X p <= 32 ->
  exists v m3, evs X 12 tpl_small (mkSt (E0 p d) m) (v, mkSt (E0 p d) m3) /\ v = 32 + ceil32 (x_sto X p) /\
    forall a, m3 a = mwrite (mwrite (mwrite m d (word (x_sto X p))) (d + 32) (word (x_sto X (p + 1) mod W)))
                            (d + 32 + x_sto X p) (mread (x_cd X) MEMLIM (Z.to_nat (pad32 (x_sto X p)))) a.
Proof.
  intros Hd0 Hd Hp0 Hp HL.
  assert (HM : MEMLIM = 2 ^ 32) by reflexivity. assert (HWb : 2 ^ 33 < W) by (vm_compute; reflexivity).
  assert (HW2 : W256 = W) by reflexivity.
  set (L := x_sto X p) in *.
  set (m2 := mwrite (mwrite m d (word L)) (d + 32) (word (x_sto X (p + 1) mod W))).
  assert (A1 : w_add d (32 mod W) = d + 32) by (unfold w_add; rewrite (Z.mod_small 32), Z.mod_small; lia).
  assert (A2 : w_add p (1 mod W) = p + 1) by (unfold w_add; rewrite (Z.mod_small 1), Z.mod_small; lia).
  assert (A3 : L mod W = L) by (apply Z.mod_small; lia).
  assert (C0 : exists r, evs X 10 (sseq [app2 "mstore" (SS "dst") (app1 "sload" (SS "src"));
                 app2 "mstore" (app2 "add" (SS "dst") (SI 32)) (app1 "sload" (app2 "add" (SS "src") (SI 1)))])
                 (mkSt (E0 p d) m) r /\ snd r = mkSt (E0 p d) m2).
  { eexists. split.
    - unfold sseq, E0. unfold app1, app2. ev. all: cbn [s_env s_mem]; rewrite ?A1; lia.
    - cbn [snd s_env s_mem]. fold L. rewrite A1, A2, A3. reflexivity. }
  destruct C0 as ([v0 s'] & Hc & Hs). cbn [snd] in Hs. subst s'.
  assert (HLd : mloadw m2 d = L).
  { unfold m2. apply (proj2 (mloadw_under m d L _ [] (d + 32) (d + 32) ltac:(rewrite HW2; lia) ltac:(lia) ltac:(lia))). }
  destruct (tail_eval X p d m2 L Hd0 ltac:(lia) ltac:(lia) HLd) as ((v2 & Hz) & Hce). cbn zeta in *.
  exists (32 + ceil32 L), (mwrite m2 (d + 32 + L) (mread (x_cd X) MEMLIM (Z.to_nat (pad32 L)))).
  split; [|split; [reflexivity | intro a; reflexivity]].
  unfold tpl_small. eapply evs_weaken; [eapply evs_seq3; [exact Hc | exact Hz | exact Hce] | lia].
Qed.

Lemma mwrite_zeros_pt (m : mem) q n a : mwrite m q (repeat 0 n) a = mzero m q (Z.of_nat n) a.
Proof.
  unfold mwrite, mzero, zlen. rewrite repeat_length.
  destruct ((q <=? a) && (a <? q + Z.of_nat n)); [|reflexivity].
  destruct (Nat.lt_ge_cases (Z.to_nat (a - q)) n) as [Hlt|Hge].
  - apply nth_repeat.
  - apply nth_overflow. rewrite repeat_length. exact Hge.
Qed.

(* Bytes[b] / String[b] in storage, 1 <= b <= 32: the generated template evaluates to the model SrcEnc.wenc *)
Theorem sto_bytes_small_template_is_model : forall b (sto : Z -> Z) (cd : mem) p d (m : mem),
  1 <= b <= 32 -> 0 <= d -> d + 160 <= MEMLIM -> 0 <= p -> p + 1 < W -> 0 <= sto p <= b ->
  (forall a, MEMLIM <= a -> cd a = 0) ->
  forall t, t = TBytes b \/ t = TString b ->
  exists v m', evs (mkX sto cd) 12 (tpl_enc_l_sto t) (mkSt (E0 p d) m) (v, mkSt (E0 p d) m') /\
     v = snd (wenc (src_sto sto) t p m d) /\ forall a, m' a = fst (wenc (src_sto sto) t p m d) a.
Proof.
  intros b sto cd p d m Hb Hd0 Hd Hp0 Hp HL Hcd t Ht.
  assert (HW : W = 2 ^ 256) by reflexivity. assert (HW2 : W256 = 2 ^ 256) by reflexivity.
  destruct (small_eval (mkX sto cd) p d m Hd0 Hd Hp0 Hp ltac:(cbn [x_sto]; lia)) as (v & m3 & Hev & Hv & Hm).
  cbn [x_sto x_cd] in *.
  exists v, m3.
  assert (Etpl : tpl_enc_l_sto t = tpl_small) by (destruct Ht; subst t; apply (tpl_small_is_generated b Hb)).
  assert (Ew : wenc (src_sto sto) t p m d =
               (mzero (mwrite m d (word (sto p mod W256) ++ word (sto (p + 1) mod W256) ++ []))
                      (d + 32 + sto p mod W256) (pad32 (sto p mod W256)), 32 + ceil32 (sto p mod W256))).
  { destruct Ht; subst t; cbn [wenc is_dynamic negb src_sto ld ws]; unfold bs_words;
      replace (b =? 0) with false by lia; replace (b <=? 32) with true by lia; reflexivity. }
  assert (EL : sto p mod W256 = sto p) by (apply Z.mod_small; rewrite HW2; lia).
  rewrite Etpl, Ew, EL. cbn [fst snd]. split; [exact Hev|]. split; [exact Hv|].
  intro a. rewrite Hm.
  rewrite (mread_zero cd MEMLIM (Z.to_nat (pad32 (sto p)))) by (intros x Hx; apply Hcd; lia).
  rewrite mwrite_zeros_pt. pose proof (pad32_range (sto p)). rewrite Z2Nat.id by lia.
  unfold mzero. destruct ((d + 32 + sto p <=? a) && (a <? d + 32 + sto p + pad32 (sto p))); [reflexivity|].
  rewrite mwrite_app_pt, zlen_word, app_nil_r.
  reflexivity.
Qed.

(* ---------- the word copy loop (copy_bytes, storage source) ---------- *)
Lemma evs_repeat X k i start cnt bound body s c s1 r :
  evs X k cnt s (c, s1) -> c <= bound ->
  (forall fu, (k <= fu)%nat -> rep_loop (evx X fu body) i (Z.to_nat c) start s1 = RVal r) ->
  evs X (S k) (SL [SS "repeat"; SS i; SI start; cnt; SI bound; body]) s r.
Proof.
  intros Hc Hb Hl. start fu H. rewrite (Hc fu) by lia. replace (bound <? c) with false by lia. apply Hl. lia.
Qed.

Definition loop_body (ix : string) : sx :=
  SL [SS "mstore"; SL [SS "add"; SS "dst"; SL [SS "mul"; SS ix; SI 32]];
      SL [SS "sload"; SL [SS "add"; SS "src"; SL [SS "mul"; SS ix; SI 1]]]].

Lemma loop_ok (sto : Z -> Z) (cd : mem) ix E p d :
  String.eqb ix "seq" = false -> String.eqb ix "calldatasize" = false -> String.eqb ix "gas" = false ->
  lookup ((ix, 0) :: E) "dst" = Some d -> lookup ((ix, 0) :: E) "src" = Some p ->
  String.eqb "dst" ix = false -> String.eqb "src" ix = false ->
  0 <= d -> 0 <= p ->
  forall n j (m : mem), 0 <= j -> d + 32 * (j + Z.of_nat n) <= MEMLIM -> p + j + Z.of_nat n < W ->
  forall fu, (6 <= fu)%nat ->
    rep_loop (evx (mkX sto cd) fu (loop_body ix)) ix n j (mkSt E m) =
    RVal (0, mkSt E (copy_words (src_sto sto) n (p + j) m (d + 32 * j))).
Proof.
  intros N1 N2 N3 Ld Lp Nd Np Hd0 Hp0.
  assert (HW : W = 2 ^ 256) by reflexivity. assert (HM : MEMLIM = 2 ^ 32) by reflexivity.
  assert (Ld' : forall j, lookup ((ix, j) :: E) "dst" = Some d) by (intro j; cbn [lookup] in *; rewrite Nd in *; exact Ld).
  assert (Lp' : forall j, lookup ((ix, j) :: E) "src" = Some p) by (intro j; cbn [lookup] in *; rewrite Np in *; exact Lp).
  induction n; intros j m Hj Hm Hs fu Hfu; cbn [rep_loop copy_words s_env s_mem]. reflexivity.
  assert (B : evs (mkX sto cd) 6 (loop_body ix) (mkSt ((ix, j) :: E) m)
                  (0, mkSt ((ix, j) :: E) (mstore m (d + 32 * j) (ld (src_sto sto) (p + j))))).
  { unfold loop_body.
    assert (Vi : evs (mkX sto cd) 1 (SS ix) (mkSt ((ix, j) :: E) m) (j, mkSt ((ix, j) :: E) m)).
    { apply evs_var; auto. cbn [s_env lookup]. rewrite String.eqb_refl. reflexivity. }
    assert (Vd : evs (mkX sto cd) 1 (SS "dst") (mkSt ((ix, j) :: E) m) (d, mkSt ((ix, j) :: E) m))
      by (apply evs_var; auto; apply Ld').
    assert (Vp : evs (mkX sto cd) 1 (SS "src") (mkSt ((ix, j) :: E) m) (p, mkSt ((ix, j) :: E) m))
      by (apply evs_var; auto; apply Lp').
    assert (A1 : w_add d (w_mul j (32 mod W)) = d + 32 * j) by (unfold w_add, w_mul; rewrite HW; lia).
    assert (A2 : w_add p (w_mul j (1 mod W)) = p + j) by (unfold w_add, w_mul; rewrite HW in *; lia).
    assert (B0 : exists r, evs (mkX sto cd) 6 (SL [SS "mstore"; SL [SS "add"; SS "dst"; SL [SS "mul"; SS ix; SI 32]];
                    SL [SS "sload"; SL [SS "add"; SS "src"; SL [SS "mul"; SS ix; SI 1]]]]) (mkSt ((ix, j) :: E) m) r /\
                 r = (0, mkSt ((ix, j) :: E) (mstore m (d + 32 * j) (ld (src_sto sto) (p + j))))).
    { eexists. split.
      - eapply evs_mstore.
        + eapply evs_add. eapply evs_weaken; [exact Vd|lia].
          eapply evs_mul. eapply evs_weaken; [exact Vi|lia]. eapply evs_weaken; [apply evs_SI|lia].
        + eapply evs_sload. eapply evs_add. eapply evs_weaken; [exact Vp|lia].
          eapply evs_mul. eapply evs_weaken; [exact Vi|lia]. eapply evs_weaken; [apply evs_SI|lia].
        + rewrite A1. lia.
      - cbn [s_env s_mem x_sto]. rewrite A1, A2. reflexivity. }
    destruct B0 as (r & Hr & ->). exact Hr. }
  rewrite (B fu Hfu). cbn [s_env s_mem tl].
  rewrite IHn by lia. cbn [src_sto ws ld].
  replace (p + (j + 1)) with (p + j + 1) by lia. replace (d + 32 * (j + 1)) with (d + 32 * j + 32) by lia. reflexivity.
Qed.

(* ---------- bound > 32: the copy_bytes word loop ---------- *)
Definition tpl_copy_big (b : Z) : sx :=
  swith "copy_bytes_count" (app2 "add" (app1 "sload" (SS "src")) (SI 32))
        (SL [SS "repeat"; SS "copy_bytes_ix1"; SI 0; app2 "div" (app2 "add" (SI 31) (SS "copy_bytes_count")) (SI 32);
             SI (ceil32 (b + 32) / 32); loop_body "copy_bytes_ix1"]).
Definition tpl_big (b : Z) : sx :=
  sseq [tpl_copy_big b; TplEncL.zero_pad (SS "dst");
        app1 "ceil32" (app2 "add" (SI 32) (app1 "mload" (SS "dst")))].

Lemma tpl_big_is_generated b : 32 < b ->
  tpl_enc_l_sto (TBytes b) = tpl_big b /\ tpl_enc_l_sto (TString b) = tpl_big b.
Proof.
  intro H. unfold tpl_enc_l_sto, tpl_enc_l_x.
  cbn [lenc_x is_dynamic negb cref cwrap complex simp]. unfold bytes_copier_x.
  cbn [loc_sto l_copyop l_load l_ws l_maxh negb andb].
  replace (b <=? 32) with false by lia. cbn [andb]. unfold copy_bytes_x.
  replace (b + 32 =? 0) with false by lia. replace (b + 32 <=? 32) with false by lia.
  split; reflexivity.
Qed.

Lemma copy_eval (sto : Z -> Z) (cd : mem) b p d (m : mem) :
  32 < b -> 0 <= sto p <= b -> 0 <= d -> d + ceil32 b + 160 <= MEMLIM -> 0 <= p -> p + b < W ->
  exists v, evs (mkX sto cd) 10 (tpl_copy_big b) (mkSt (E0 p d) m)
      (v, mkSt (E0 p d) (copy_words (src_sto sto) (Z.to_nat ((31 + (sto p + 32)) / 32)) p m d)).
Proof.
  intros Hb HL Hd0 Hd Hp0 Hp.
  assert (HW : W = 2 ^ 256) by reflexivity. assert (HM : MEMLIM = 2 ^ 32) by reflexivity.
  assert (Hb2 : b < 2 ^ 32) by (unfold ceil32 in Hd; lia).
  set (L := sto p) in *. set (n := (31 + (L + 32)) / 32).
  set (E := ("copy_bytes_count", L + 32) :: E0 p d).
  assert (C1 : w_add (L mod W) (32 mod W) = L + 32) by (unfold w_add; rewrite HW; lia).
  assert (C2 : w_div (w_add (31 mod W) (L + 32)) (32 mod W) = n).
  { unfold w_div, w_add, n. rewrite HW. replace (32 mod 2 ^ 256 =? 0) with false by lia. 
    rewrite (Z.mod_small 31), (Z.mod_small 32), (Z.mod_small (31 + (L + 32))) by lia. reflexivity. }
  assert (Hn : 0 <= n /\ 32 * n <= ceil32 b + 64 /\ n <= ceil32 (b + 32) / 32) by (unfold n, ceil32; lia).
  assert (R0 : exists r, evs (mkX sto cd) 10 (tpl_copy_big b) (mkSt (E0 p d) m) r /\
               snd r = mkSt (E0 p d) (copy_words (src_sto sto) (Z.to_nat n) p m d)).
  { eexists. split.
    - unfold tpl_copy_big, swith, E0. unfold app1, app2.
      eapply evs_with.
      + ev.
      + cbn [s_env s_mem x_sto]. fold L. rewrite C1. fold (E0 p d). fold E.
        eapply evs_repeat with (c := n).
        * assert (D0 : exists r, evs (mkX sto cd) 8 (SL [SS "div"; SL [SS "add"; SI 31; SS "copy_bytes_count"]; SI 32]) (mkSt E m) r /\
                                 r = (n, mkSt E m)).
          { eexists. split. unfold E, E0. ev. cbn [s_env s_mem]. rewrite C2. reflexivity. }
          destruct D0 as (r & Hr & ->). exact Hr.
        * lia.
        * intros fu Hfu.
          pose proof (loop_ok sto cd "copy_bytes_ix1" E p d eq_refl eq_refl eq_refl eq_refl eq_refl eq_refl eq_refl
                              Hd0 Hp0 (Z.to_nat n) 0 m ltac:(lia) ltac:(lia) ltac:(lia) fu ltac:(lia)) as Q.
          rewrite Q. replace (p + 0) with p by lia. replace (d + 32 * 0) with d by lia. reflexivity.
    - cbn [snd s_env s_mem tl]. unfold E. cbn [tl]. reflexivity. }
  destruct R0 as ([v s'] & Hr & Hs). cbn [snd] in Hs. subst s'. exists v. exact Hr.
Qed.

Lemma mloadw_copy_words S n p (m : mem) d : 0 <= ld S p < W256 ->
  mloadw (copy_words S (Datatypes.S n) p m d) d = ld S p.
Proof.
  intro Hw. transitivity (mloadw (mstorew m d (ld S p)) d); [|apply mloadw_mstorew; exact Hw].
  apply mloadw_pt. intros i Hi. unfold mstorew.
  rewrite copy_words_spec. cbn [srcbytes]. rewrite mwrite_app_pt, zlen_word.
  rewrite mwrite_frame by lia. reflexivity.
Qed.

(* Bytes[b] / String[b] in storage, b > 32: the generated template (word loop) evaluates to the model SrcEnc.wenc *)
Theorem sto_bytes_big_template_is_model : forall b (sto : Z -> Z) (cd : mem) p d (m : mem),
  32 < b -> 0 <= sto p <= b -> 0 <= d -> d + ceil32 b + 160 <= MEMLIM -> 0 <= p -> p + b < W ->
  (forall a, MEMLIM <= a -> cd a = 0) ->
  forall t, t = TBytes b \/ t = TString b ->
  exists v m', evs (mkX sto cd) 12 (tpl_enc_l_sto t) (mkSt (E0 p d) m) (v, mkSt (E0 p d) m') /\
     v = snd (wenc (src_sto sto) t p m d) /\ forall a, m' a = fst (wenc (src_sto sto) t p m d) a.
Proof.
  intros b sto cd p d m Hb HL Hd0 Hd Hp0 Hp Hcd t Ht.
  assert (HW2 : W256 = 2 ^ 256) by reflexivity. assert (HM : MEMLIM = 2 ^ 32) by reflexivity.
  assert (Hb2 : b < 2 ^ 32) by (unfold ceil32 in Hd; lia).
  assert (EL : sto p mod W256 = sto p) by (apply Z.mod_small; rewrite HW2; lia).
  set (n := (31 + (sto p + 32)) / 32).
  assert (Hn : 1 <= n) by (unfold n; lia).
  destruct (copy_eval sto cd b p d m Hb HL Hd0 Hd Hp0 Hp) as (v1 & Hcopy). fold n in Hcopy.
  set (mL := copy_words (src_sto sto) (Z.to_nat n) p m d) in *.
  assert (HLd : mloadw mL d = sto p).
  { unfold mL. replace (Z.to_nat n) with (Datatypes.S (Z.to_nat (n - 1))) by lia.
    rewrite mloadw_copy_words; cbn [src_sto ld]; [exact EL | rewrite HW2; lia]. }
  destruct (tail_eval (mkX sto cd) p d mL (sto p) Hd0 ltac:(lia) ltac:(unfold ceil32 in Hd; lia) HLd) as ((v2 & Hz) & Hc).
  cbn [x_cd] in *.
  set (m3 := mwrite mL (d + 32 + sto p) (mread cd MEMLIM (Z.to_nat (pad32 (sto p))))) in *.
  exists (32 + ceil32 (sto p)), m3.
  assert (Etpl : tpl_enc_l_sto t = tpl_big b) by (destruct Ht; subst t; apply (tpl_big_is_generated b Hb)).
  assert (Ew : wenc (src_sto sto) t p m d =
               (mzero (mwrite m d (srcbytes (src_sto sto) p (Z.to_nat n))) (d + 32 + sto p) (pad32 (sto p)),
                32 + ceil32 (sto p))).
  { destruct Ht; subst t; cbn [wenc is_dynamic negb]; cbn [src_sto ld]; rewrite EL; unfold bs_words;
      replace (b =? 0) with false by lia; replace (b <=? 32) with false by lia; reflexivity. }
  rewrite Etpl, Ew. cbn [fst snd]. split; [|split; [reflexivity|]].
  - unfold tpl_big, sseq. eapply evs_weaken; [eapply evs_seq3; [exact Hcopy | exact Hz | exact Hc] | lia].
  - intro a. unfold m3.
    rewrite (mread_zero cd MEMLIM (Z.to_nat (pad32 (sto p)))) by (intros x Hx; apply Hcd; lia).
    rewrite mwrite_zeros_pt. pose proof (pad32_range (sto p)). rewrite Z2Nat.id by lia.
    unfold mzero. destruct ((d + 32 + sto p <=? a) && (a <? d + 32 + sto p + pad32 (sto p))); [reflexivity|].
    unfold mL. apply copy_words_spec.
Qed.

(* ---------- end to end for the leaf: emitted template, evaluated => canonical encoding ---------- *)
Theorem sto_bytes_template_canonical : forall b (sto : Z -> Z) (cd : mem) p d (m : mem) data t,
  1 <= b -> t = TBytes b \/ t = TString b ->
  in_type t (VBytes data) = true -> holds (src_sto sto) t (VBytes data) p -> 0 <= sto p < W256 ->
  0 <= d -> d + ceil32 b + 160 <= MEMLIM -> 0 <= p -> p + b < W ->
  (forall a, MEMLIM <= a -> cd a = 0) ->
  exists m', evs (mkX sto cd) 12 (tpl_enc_l_sto t) (mkSt (E0 p d) m)
                 (zlen (enc t (VBytes data)), mkSt (E0 p d) m') /\
             mreadz m' d (zlen (enc t (VBytes data))) = enc t (VBytes data) /\
             (forall a, a < d \/ d + size_bound t <= a -> m' a = m a).
Proof.
  intros b sto cd p d m data t Hb Ht Hin Hh Hsto Hd0 Hd Hp0 Hp Hcd.
  assert (HW2 : W256 = 2 ^ 256) by reflexivity. assert (HW : W = 2 ^ 256) by reflexivity.
  assert (Hwf : wf_ty t = true) by (destruct Ht; subst t; cbn [wf_ty]; lia).
  assert (Hlen : sto p = zlen data /\ zlen data <= b).
  { destruct Ht; subst t; cbn [holds is_dynamic negb in_type] in *; destruct Hh as [Hl _];
      cbn [src_sto ld] in Hl; apply andb_prop in Hin as [Hle _]; rewrite Z.mod_small in Hl by lia; split; lia. }
  destruct Hlen as [Hlen Hle]. pose proof (zlen_nonneg data) as H0.
  destruct (wenc_correct (src_sto sto) t (VBytes data) p m d Hwf Hin Hh) as (Wn & Wr & Wf). cbn zeta in *.
  assert (T : exists v m', evs (mkX sto cd) 12 (tpl_enc_l_sto t) (mkSt (E0 p d) m) (v, mkSt (E0 p d) m') /\
              v = snd (wenc (src_sto sto) t p m d) /\ forall a, m' a = fst (wenc (src_sto sto) t p m d) a).
  { destruct (Z_le_gt_dec b 32) as [Hs|Hg].
    - apply (sto_bytes_small_template_is_model b sto cd p d m); auto; try lia.
      unfold ceil32 in Hd. lia.
    - apply (sto_bytes_big_template_is_model b sto cd p d m); auto; lia. }
  destruct T as (v & m' & Hev & Hv & Hm). exists m'. rewrite Hv, Wn in Hev. split; [exact Hev|]. split.
  - transitivity (mreadz (fst (wenc (src_sto sto) t p m d)) d (zlen (enc t (VBytes data)))).
    + apply mreadz_ext. intros a _. apply Hm.
    + rewrite <- Wn. exact Wr.
  - intros a Ha. rewrite Hm. apply Wf. exact Ha.
Qed.
