(* C06: the size functions regenerated from vyper/abi_types.py (GenAbiSizes.v) equal the
   specification's size functions, so the size theorems speak about the compiler's numbers. *)
From Coq Require Import ZArith List Bool Lia ZifyBool.
From Verif Require Import C06.Abi C06.AbiLemmas C06.GenAbiSizes.
Import ListNotations.
Open Scope Z_scope.
Ltac Zify.zify_post_hook ::= Z.to_euclidean_division_equations.

Lemma g_ceil32_eq x : g_ceil32 x = ceil32 x.
Proof. unfold g_ceil32, ceil32. destruct (Z.eqb_spec (x mod 32) 0); lia. Qed.

Lemma existsb_ext_in {A} (f g : A -> bool) l : Forall (fun x => f x = g x) l -> existsb f l = existsb g l.
Proof. induction 1; cbn; congruence. Qed.
Lemma map_ext_Forall {A B} (f g : A -> B) l : Forall (fun x => f x = g x) l -> map f l = map g l.
Proof. induction 1; cbn; congruence. Qed.

(* NB: when the generated fixpoints are syntactically the spec's, every case closes by conversion;
   the remaining tactics handle harmless reformulations of abi_types.py. *)
Theorem g_is_dynamic_eq : forall t, g_is_dynamic t = is_dynamic t.
Proof.
  induction t using ty_ind'; cbn [g_is_dynamic is_dynamic]; try reflexivity; try assumption.
  all: try solve [apply existsb_ext_in; exact H].
Qed.

Theorem g_static_size_eq : forall t, g_static_size t = static_size t.
Proof.
  induction t using ty_ind'; cbn [g_static_size static_size]; try reflexivity.
  all: try solve [rewrite g_is_dynamic_eq, IHt; reflexivity].
  all: try solve [f_equal; apply map_ext_Forall; eapply Forall_impl; [|exact H]; cbn beta; intros a Ha;
                  rewrite g_is_dynamic_eq, Ha; reflexivity].
Qed.

Theorem g_dynamic_size_bound_eq : forall t, g_dynamic_size_bound t = dynamic_size_bound t.
Proof.
  induction t using ty_ind'; cbn [g_dynamic_size_bound dynamic_size_bound]; try reflexivity.
  all: try solve [now rewrite g_ceil32_eq].
  all: try solve [cbn zeta; rewrite ?g_is_dynamic_eq, ?g_static_size_eq, IHt; destruct (is_dynamic t); reflexivity].
  all: try solve [f_equal; apply map_ext_Forall; eapply Forall_impl; [|exact H]; cbn beta; intros a Ha;
                  rewrite g_is_dynamic_eq, g_static_size_eq, Ha; destruct (is_dynamic a); reflexivity].
Qed.

Theorem g_size_bound_eq : forall t, g_size_bound t = size_bound t.
Proof. intro t. unfold g_size_bound, size_bound. now rewrite g_static_size_eq, g_dynamic_size_bound_eq. Qed.
Theorem g_embedded_static_size_eq : forall t, g_embedded_static_size t = emb_static t.
Proof. intro t. unfold g_embedded_static_size, emb_static. now rewrite g_is_dynamic_eq, g_static_size_eq. Qed.
Theorem g_embedded_dynamic_size_bound_eq : forall t, g_embedded_dynamic_size_bound t = emb_dynamic_bound t.
Proof.
  intro t. unfold g_embedded_dynamic_size_bound, emb_dynamic_bound, size_bound.
  rewrite g_is_dynamic_eq, g_static_size_eq, g_dynamic_size_bound_eq. destruct (is_dynamic t); reflexivity.
Qed.
