(* C06 O-tie: the Venom IR OBSERVED from codegen_venom/context.py:store_memory for narrower -> wider type pairs
   (GenTplNorm.v, regenerated every run) is syntactically the output of the Coq template generator TplNorm.tpl_norm,
   and every pair of the family is a widening (compat). *)
From Coq Require Import ZArith List String Bool.
From Verif Require Import C06.Abi C06.Sexp C06.Widen C06.TplNorm C06.GenTplNorm.
Import ListNotations.
Open Scope Z_scope.

Theorem tie_norm_venom :
  forallb (fun p => sx_eqb (tpl_norm (fst (fst p)) (snd (fst p))) (snd p)) obs_norm = true.
Proof. vm_compute. reflexivity. Qed.
Theorem norm_family : (100 <=? zlen obs_norm) = true /\ forallb (fun p => compat (fst (fst p)) (snd (fst p))) obs_norm = true.
Proof. vm_compute. split; reflexivity. Qed.
