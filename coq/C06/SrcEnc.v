(* C06 extension (session 3): structural model of the LEGACY encoder reading its source WORD BY WORD from a
   read-only, word-addressed location: STORAGE (sload, one address unit per word) or CALLDATA (calldataload, 32
   address units per word).  Mirrors, for a source that is not memory,
     vyper/codegen/abi_encoder.py  abi_encode / _encode_child_helper / _encode_dyn_array_helper   (offset word first)
     vyper/codegen/core.py         make_setter word case             mstore dst (LOAD src)
                                   _complex_make_setter unrolled / copy_bytes word loop
                                        for i < n: mstore (dst + 32 i) (LOAD (src + ws i))
                                   make_byte_array_copier            maxlen <= 32: two words; else the word loop with
                                        n = (31 + (len + 32)) / 32   (copies the rest of the last source word: junk)
                                   zero_pad                          calldatacopy of (-len) mod 32 zero bytes
   and the Venom storage loader  vyper/codegen_venom/context.py _word_copy_loop  ([copy_words]).
   Unlike Venc.v the source is NOT an abstract value: the model reads lengths and data from [ld], and the theorems
   (SrcEncProofs.v) assume only that the location holds a layout of the value ([holds], arbitrary slack).
   No proofs in this file. *)
From Coq Require Import ZArith List Bool String.
From Verif Require Import Base.Word256 C06.Abi C06.ZeroPad C06.Venc C06.Sexp C06.SxEval C06.VxEval C06.XEval.
Import ListNotations.
Open Scope list_scope.
Open Scope Z_scope.

Record wsrc := mkSrc { ld : Z -> Z; ws : Z }.      (* word at an address; address units per word *)

(* size of a value of type t in the location's address units (vyper layout: same words as in memory) *)
Definition sz (S : wsrc) (t : ty) : Z := SxEval.vmem_size t / 32 * ws S.

(* the bytes of k consecutive source words *)
Fixpoint srcbytes (S : wsrc) (p : Z) (k : nat) : list Z :=
  match k with O => [] | Datatypes.S k' => word (ld S p) ++ srcbytes S (p + ws S) k' end.

(* the word copy loop, operationally: for i < k: mstore (dst + 32 i) (ld (p + ws i)) *)
Fixpoint copy_words (S : wsrc) (k : nat) (p : Z) (m : mem) (dst : Z) : mem :=
  match k with O => m | Datatypes.S k' => copy_words S k' (p + ws S) (mstore m dst (ld S p)) (dst + 32) end.

Fixpoint arr_cs (f : Z -> enc_t) (dyn : bool) (es : Z) (k : nat) (p stride : Z) : list (bool * Z * enc_t) :=
  match k with O => [] | Datatypes.S k' => (dyn, es, f p) :: arr_cs f dyn es k' (p + stride) stride end.

(* number of words the byte-string copier moves (length word included) *)
Definition bs_words (b len : Z) : Z :=
  if b =? 0 then 1 else if b <=? 32 then 2 else (31 + (len + 32)) / 32.

Fixpoint wenc (S : wsrc) (t : ty) (p : Z) : enc_t := fun m dst =>
  if negb (is_dynamic t) then (mwrite m dst (srcbytes S p (Z.to_nat (static_size t / 32))), static_size t)
  else
    match t with
    | TBytes b | TString b =>
        let len := ld S p in
        let m1 := mwrite m dst (srcbytes S p (Z.to_nat (bs_words b len))) in
        (mzero m1 (dst + 32 + len) (pad32 len), 32 + ceil32 len)
    | TDArr t' _ =>
        let n := ld S p in
        let m1 := mstore m dst n in
        let r := venc_seq true (arr_cs (wenc S t') (is_dynamic t') (emb_static t') (Z.to_nat n) (p + ws S) (sz S t'))
                          m1 (dst + 32) 0 (n * emb_static t') in
        (fst r, 32 + snd r)
    | TSArr t' cnt =>
        venc_seq true (arr_cs (wenc S t') (is_dynamic t') (emb_static t') (Z.to_nat cnt) p (sz S t'))
                 m dst 0 (static_size t)
    | TTuple ts =>
        venc_seq true
          ((fix go (ts : list ty) (p : Z) : list (bool * Z * enc_t) :=
              match ts with [] => [] | t' :: r => (is_dynamic t', emb_static t', wenc S t' p) :: go r (p + sz S t') end) ts p)
          m dst 0 (static_size t)
    | _ => (m, 0)
    end.

(* ---------- "the location holds a layout of v at p" (slack positions arbitrary) ---------- *)
Fixpoint holds_list (h : val -> Z -> Prop) (vs : list val) (p stride : Z) : Prop :=
  match vs with [] => True | x :: r => h x p /\ holds_list h r (p + stride) stride end.

Fixpoint holds (S : wsrc) (t : ty) (v : val) (p : Z) : Prop :=
  if negb (is_dynamic t) then srcbytes S p (Z.to_nat (static_size t / 32)) = enc t v
  else
    match t, v with
    | TBytes b, VBytes data | TString b, VBytes data =>
        ld S p = zlen data /\ exists junk, srcbytes S (p + ws S) (Z.to_nat (ceil32 b / 32)) = data ++ junk
    | TDArr t' _, VList vs => ld S p = zlen vs /\ holds_list (holds S t') vs (p + ws S) (sz S t')
    | TSArr t' _, VList vs => holds_list (holds S t') vs p (sz S t')
    | TTuple ts, VList vs =>
        (fix go (ts : list ty) (vs : list val) (p : Z) : Prop :=
           match ts, vs with
           | [], [] => True
           | t' :: r, x :: xs => holds S t' x p /\ go r xs (p + sz S t')
           | _, _ => False
           end) ts vs p
    | _, _ => False
    end.

(* ---------- the two instances, and the comparison of OBSERVED templates with the model ---------- *)
Definition src_sto (sto : Z -> Z) : wsrc := mkSrc (fun a => sto a mod W256) 1.
Definition src_cd (cd : mem) : wsrc := mkSrc (fun a => mloadw cd a) 32.

Definition same_region (m1 m2 : mem) (t : ty) : bool :=
  list_eqb (mread m1 (DST - 64) (Z.to_nat (size_bound t + 128))) (mread m2 (DST - 64) (Z.to_nat (size_bound t + 128))).

(* 1 = the observed legacy storage-source template and the model leave the same length and the same memory *)
Definition model_agrees_sto (tpl : sx) (t : ty) (v : val) : Z :=
  let m0 : mem := fun _ => 171 in
  let sto := sto_of (vylayout 238 t v) SLOT0 in
  match evx (mkX sto (fun _ => 0)) (Z.to_nat 4000) tpl (mkSt [("src", SLOT0); ("dst", DST)]%string m0) with
  | RVal (len, s) =>
      let r := wenc (src_sto sto) t SLOT0 m0 DST in
      if (len =? snd r) && same_region (s_mem s) (fst r) t then 1 else 0
  | RRevert => -1 | RFuel => -2 | RStuck _ => -3
  end.
Definition model_agrees_cd (tpl : sx) (t : ty) (v : val) : Z :=
  let m0 : mem := fun _ => 171 in
  let cd := cd_of (vylayout 238 t v) in
  match evx (mkX (fun _ => DIRTYW) cd) (Z.to_nat 4000) tpl (mkSt [("src", 4); ("dst", DST)]%string m0) with
  | RVal (len, s) =>
      let r := wenc (src_cd cd) t 4 m0 DST in
      if (len =? snd r) && same_region (s_mem s) (fst r) t then 1 else 0
  | RRevert => -1 | RFuel => -2 | RStuck _ => -3
  end.
