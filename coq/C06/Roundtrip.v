(* C06: the offset-following decoder inverts the canonical encoder wherever the encoding is
   embedded (dec_at_enc); the strict decoder round-trips (enc_dec_roundtrip), is sound
   (dec_strict_sound), hence enc is injective on well-typed values. *)
From Coq Require Import ZArith List Bool Lia ZifyBool.
From Verif Require Import C06.Abi C06.AbiLemmas.
Import ListNotations.
Open Scope Z_scope.
Ltac Zify.zify_post_hook ::= Z.to_euclidean_division_equations.

(* ---------- "x occurs in bs at byte position p" ---------- *)
Definition at_pos (bs : list Z) (p : Z) (x : list Z) : Prop :=
  exists pre post, bs = pre ++ x ++ post /\ zlen pre = p.

Lemma at_pos_refl x : at_pos x 0 x.
Proof. exists [], []. split. now rewrite app_nil_r. reflexivity. Qed.
Lemma at_pos_app_l bs p x y : at_pos bs p (x ++ y) -> at_pos bs p x.
Proof. intros (pre & post & E & L). exists pre, (y ++ post). split; auto. now rewrite E, <- app_assoc. Qed.
Lemma at_pos_app_r bs p x y : at_pos bs p (x ++ y) -> at_pos bs (p + zlen x) y.
Proof.
  intros (pre & post & E & L). exists (pre ++ x), post. split.
  - now rewrite E, <- !app_assoc.
  - rewrite zlen_app. lia.
Qed.
Lemma at_pos_trans bs p X q y : at_pos bs p X -> at_pos X q y -> at_pos bs (p + q) y.
Proof.
  intros (pre & post & E & L) (pre' & post' & E' & L'). exists (pre ++ pre'), (post' ++ post). split.
  - rewrite E, E', <- !app_assoc. reflexivity.
  - rewrite zlen_app. lia.
Qed.
Lemma at_pos_len bs p x : at_pos bs p x -> 0 <= p /\ p + zlen x <= zlen bs.
Proof.
  intros (pre & post & E & L). rewrite E, !zlen_app.
  pose proof (zlen_nonneg pre). pose proof (zlen_nonneg post). lia.
Qed.

Lemma skipn_len_app {A} (a b : list A) : skipn (length a) (a ++ b) = b.
Proof. induction a; cbn; auto. Qed.
Lemma firstn_len_app {A} (a b : list A) : firstn (length a) (a ++ b) = a.
Proof. induction a; cbn; auto. now rewrite IHa. Qed.

Lemma at_pos_slice bs p x : at_pos bs p x -> slice bs p (zlen x) = x.
Proof.
  intros (pre & post & E & L). unfold slice. subst p.
  destruct (Z.leb_spec (zlen bs) (zlen pre)) as [Hle|Hlt].
  - rewrite E, !zlen_app in Hle. pose proof (zlen_nonneg post). pose proof (zlen_nonneg x).
    assert (Hx : zlen x = 0) by lia. destruct x; [reflexivity|]. rewrite zlen_cons in Hx. pose proof (zlen_nonneg x). lia.
  - rewrite !to_nat_zlen, E, skipn_len_app, firstn_len_app.
    rewrite Z.sub_diag. cbn. apply app_nil_r.
Qed.
Lemma at_pos_rd bs p z : at_pos bs p (word z) -> rd bs p = z mod W256.
Proof.
  intro H. pose proof (at_pos_slice _ _ _ H) as Hs. rewrite zlen_word in Hs.
  unfold rd. rewrite Hs. apply unbe_word.
Qed.

(* ---------- structure of enc_seq ---------- *)
Lemma tails_app a b : tails (a ++ b) = tails a ++ tails b.
Proof. induction a as [|[[|] e] r IH]; cbn [app tails]; auto. now rewrite IH, app_assoc. Qed.
Lemma head_len_app a b : head_len (a ++ b) = head_len a + head_len b.
Proof. induction a as [|[[|] e] r IH]; cbn [app head_len]; lia. Qed.
Lemma heads_app a b off : heads (a ++ b) off = heads a off ++ heads b (off + zlen (tails a)).
Proof.
  revert off. induction a as [|[[|] e] r IH]; intro off; cbn [app heads tails].
  - cbn. now rewrite Z.add_0_r.
  - rewrite IH, zlen_app, <- app_assoc. do 3 f_equal. lia.
  - rewrite IH, <- app_assoc. reflexivity.
Qed.

Lemma at_pos_intro pre x post : at_pos (pre ++ x ++ post) (zlen pre) x.
Proof. exists pre, post. auto. Qed.

Lemma comp_pos_static all p1 e p2 :
  all = p1 ++ (false, e) :: p2 -> at_pos (enc_seq all) (head_len p1) e.
Proof.
  intros ->. unfold enc_seq. rewrite heads_app. cbn [heads]. rewrite <- !app_assoc.
  match goal with |- at_pos (?a ++ e ++ ?b) _ _ => pose proof (at_pos_intro a e b) as H end.
  rewrite zlen_heads in H. exact H.
Qed.
Lemma comp_pos_dyn all p1 e p2 :
  all = p1 ++ (true, e) :: p2 ->
  at_pos (enc_seq all) (head_len p1) (word (head_len all + zlen (tails p1))) /\
  at_pos (enc_seq all) (head_len all + zlen (tails p1)) e.
Proof.
  intros ->. unfold enc_seq. split.
  - rewrite heads_app. cbn [heads]. rewrite <- !app_assoc.
    match goal with |- at_pos (?a ++ ?w ++ ?b) _ _ => pose proof (at_pos_intro a w b) as H end.
    rewrite zlen_heads in H. exact H.
  - rewrite tails_app. cbn [tails]. rewrite app_assoc.
    match goal with |- at_pos (?a ++ e ++ ?b) _ _ => pose proof (at_pos_intro a e b) as H end.
    rewrite zlen_app, zlen_heads in H. exact H.
Qed.

(* ---------- decoding a sequence ---------- *)
Inductive Forall3 {A B C} (R : A -> B -> C -> Prop) : list A -> list B -> list C -> Prop :=
| F3nil : Forall3 R [] [] []
| F3cons a b c la lb lc : R a b c -> Forall3 R la lb lc -> Forall3 R (a :: la) (b :: lb) (c :: lc).

Section Generic.
Variable padd : Z -> Z -> Z. (*section*)
Hypothesis padd_small : forall a b, 0 <= a -> 0 <= b -> a + b < W256 -> padd a b = a + b. (*section*)

Definition comp_ok (d : bool * Z * dec_t) (p : bool * list Z) (v : val) : Prop :=
  fst (fst d) = fst p /\
  snd (fst d) = (if fst p then 32 else zlen (snd p)) /\
  forall bs loc, zlen bs < W256 -> at_pos bs loc (snd p) -> snd d bs loc = Some v.

Lemma run_seq_ok all bs loc :
  zlen bs < W256 -> at_pos bs loc (enc_seq all) ->
  forall ds parts vs, Forall3 comp_ok ds parts vs ->
  forall p1, all = p1 ++ parts -> run_seq_g padd ds bs loc (head_len p1) = Some vs.
Proof.
  intros Hsmall Hat ds parts vs HF. induction HF as [|d p v ds parts vs Hok HF IH]; intros p1 Hall.
  - reflexivity.
  - destruct d as [[dyn hs] dc]. destruct p as [d' e]. destruct Hok as (Hd & Hhs & Hdc). cbn [fst snd] in *. subst d'.
    pose proof (at_pos_len _ _ _ Hat) as [Hloc0 Hloclen].
    cbn [run_seq_g]. destruct dyn.
    + destruct (comp_pos_dyn all p1 e parts Hall) as [A1 A2].
      pose proof (at_pos_trans _ _ _ _ _ Hat A1) as B1.
      pose proof (at_pos_trans _ _ _ _ _ Hat A2) as B2.
      pose proof (at_pos_len _ _ _ A2) as [_ Hoff].
      pose proof (head_len_nonneg all). pose proof (zlen_nonneg (tails p1)). pose proof (zlen_nonneg e).
      pose proof (head_len_nonneg p1). pose proof (at_pos_len _ _ _ B1) as [_ HB1]. rewrite zlen_word in HB1.
      rewrite (padd_small loc (head_len p1)) by lia.
      rewrite (at_pos_rd _ _ _ B1). rewrite Z.mod_small by lia.
      rewrite padd_small by lia.
      rewrite (Hdc bs _ Hsmall B2).
      replace (head_len p1 + hs) with (head_len (p1 ++ [(true, e)])) by (rewrite head_len_app; cbn [head_len]; lia).
      rewrite (IH (p1 ++ [(true, e)])). reflexivity. rewrite Hall, <- app_assoc. reflexivity.
    + pose proof (comp_pos_static all p1 e parts Hall) as A1.
      pose proof (at_pos_trans _ _ _ _ _ Hat A1) as B1.
      pose proof (head_len_nonneg p1). pose proof (at_pos_len _ _ _ B1) as [_ HB1]. pose proof (zlen_nonneg e).
      rewrite (padd_small loc (head_len p1)) by lia.
      rewrite (Hdc bs _ Hsmall B1).
      replace (head_len p1 + hs) with (head_len (p1 ++ [(false, e)])) by (rewrite head_len_app; cbn [head_len]; lia).
      rewrite (IH (p1 ++ [(false, e)])). reflexivity. rewrite Hall, <- app_assoc. reflexivity.
Qed.

Corollary run_seq_enc_seq ds parts vs bs loc :
  zlen bs < W256 -> at_pos bs loc (enc_seq parts) -> Forall3 comp_ok ds parts vs ->
  run_seq_g padd ds bs loc 0 = Some vs.
Proof. intros Hs Ha HF. exact (run_seq_ok parts bs loc Hs Ha ds parts vs HF [] eq_refl). Qed.

(* ---------- scalar facts ---------- *)
Ltac pow_consts :=
  unfold W256 in *;
  let w := eval vm_compute in (2 ^ 256) in change (2 ^ 256) with w in *;
  let h := eval vm_compute in (2 ^ 255) in change (2 ^ 255) with h in *.

Lemma to_signed_mod z : - 2 ^ 255 <= z < 2 ^ 255 -> to_signed256 (z mod W256) = z.
Proof.
  intro H. unfold to_signed256. pow_consts.
  destruct (Z.ltb_spec (z mod 115792089237316195423570985008687907853269984665640564039457584007913129639936)
                       57896044618658097711785492504343953926634992332820282019728792003956564819968); lia.
Qed.

Lemma pow2_le a b : 0 <= a <= b -> 2 ^ a <= 2 ^ b.
Proof. intro. apply Z.pow_le_mono_r; lia. Qed.

Lemma forallb_zeros k : forallb (Z.eqb 0) (zeros k) = true.
Proof. unfold zeros. induction (Z.to_nat k); cbn; auto. Qed.

Definition dec_ok (t : ty) : Prop :=
  forall v bs loc, wf_ty t = true -> in_type t v = true -> zlen bs < W256 ->
                   at_pos bs loc (enc t v) -> dec_at_g padd t bs loc = Some v.

Lemma dec_unsigned t :
  (exists b, t = TUInt b) \/ t = TBool \/ t = TAddress \/ (exists m, t = TFlag m) -> dec_ok t.
Proof.
  intros Hk v bs loc Hwf Hin Hsmall Hat.
  assert (Hhi : int_hi t <= W256 /\ int_lo t = 0).
  { destruct Hk as [[b ->]|[->|[->|[m ->]]]]; cbn [int_hi int_lo wf_ty] in *; split; try reflexivity.
    - apply (pow2_le b 256). lia.
    - unfold W256. change 2 with (2 ^ 1) at 1. apply pow2_le. lia.
    - apply (pow2_le 160 256). lia.
    - apply (pow2_le m 256). lia. }
  destruct Hhi as [Hhi Hlo].
  assert (exists z, v = VInt z /\ 0 <= z < int_hi t) as (z & -> & Hz).
  { destruct Hk as [[b ->]|[->|[->|[m ->]]]]; destruct v; cbn [in_type] in Hin; try discriminate;
      eexists; (split; [reflexivity|]); cbn [int_lo] in Hin; lia. }
  assert (Henc : enc t (VInt z) = word z) by (destruct Hk as [[b ->]|[->|[->|[m ->]]]]; reflexivity).
  rewrite Henc in Hat.
  assert (Hdec : dec_at_g padd t bs loc = (let w := rd bs loc in if w <? int_hi t then Some (VInt w) else None))
    by (destruct Hk as [[b ->]|[->|[->|[m ->]]]]; reflexivity).
  rewrite Hdec. cbn zeta. rewrite (at_pos_rd _ _ _ Hat), Z.mod_small by lia.
  destruct (Z.ltb_spec z (int_hi t)); [reflexivity | lia].
Qed.

Lemma dec_signed t : (exists b, t = TInt b) \/ t = TDecimal -> dec_ok t.
Proof.
  intros Hk v bs loc Hwf Hin Hsmall Hat.
  assert (Hhi : int_hi t <= 2 ^ 255 /\ int_lo t = - int_hi t).
  { destruct Hk as [[b ->]| ->]; cbn [int_hi int_lo wf_ty] in *; split; try reflexivity.
    - apply (pow2_le (b - 1) 255). lia.
    - apply (pow2_le 167 255). lia. }
  destruct Hhi as [Hhi Hlo].
  assert (exists z, v = VInt z /\ int_lo t <= z < int_hi t) as (z & -> & Hz).
  { destruct Hk as [[b ->]| ->]; destruct v; cbn [in_type] in Hin; try discriminate;
      eexists; (split; [reflexivity|]); lia. }
  assert (Henc : enc t (VInt z) = word z) by (destruct Hk as [[b ->]| ->]; reflexivity).
  rewrite Henc in Hat.
  assert (Hdec : dec_at_g padd t bs loc = (let s := to_signed256 (rd bs loc) in
             if (int_lo t <=? s) && (s <? int_hi t) then Some (VInt s) else None))
    by (destruct Hk as [[b ->]| ->]; reflexivity).
  rewrite Hdec. cbn zeta. rewrite (at_pos_rd _ _ _ Hat), to_signed_mod by lia.
  destruct (Z.leb_spec (int_lo t) z); destruct (Z.ltb_spec z (int_hi t)); cbn [andb]; try reflexivity; lia.
Qed.

Lemma arr_forall3 t vs :
  dec_ok t -> wf_ty t = true -> Forall (fun v => in_type t v = true) vs ->
  Forall3 comp_ok (repeat (is_dynamic t, emb_static t, dec_at_g padd t) (length vs))
          (map (fun x => (is_dynamic t, enc t x)) vs) vs.
Proof.
  intros IH Hwf HF. induction HF as [|v vs Hv HF IHF]; cbn [length repeat map]; constructor; auto.
  unfold comp_ok. cbn [fst snd]. split; [reflexivity|]. split.
  - unfold emb_static. destruct (is_dynamic t) eqn:Hd; [reflexivity|]. symmetry. apply enc_len_static; auto.
  - intros bs loc Hs Ha. apply IH; auto.
Qed.

Lemma tuple_forall3 ts : Forall dec_ok ts -> forall vs,
  forallb wf_ty ts = true -> zip_all (map in_type ts) vs = true ->
  Forall3 comp_ok (map (fun t' => (is_dynamic t', emb_static t', dec_at_g padd t')) ts)
          (zip_apply (map (fun t' => (is_dynamic t', enc t')) ts) vs) vs.
Proof.
  induction 1 as [|t ts IHt HF IH]; intros vs Hwf Hin; destruct vs as [|v vs]; cbn [map zip_all zip_apply forallb] in *;
    try discriminate; constructor.
  - apply andb_prop in Hwf as [Hwt Hwl]. apply andb_prop in Hin as [Hit Hil].
    unfold comp_ok. cbn [fst snd]. split; [reflexivity|]. split.
    + unfold emb_static. destruct (is_dynamic t) eqn:Hd; [reflexivity|]. symmetry. apply enc_len_static; auto.
    + intros bs loc Hs Ha. apply IHt; auto.
  - apply andb_prop in Hwf as [Hwt Hwl]. apply andb_prop in Hin as [Hit Hil]. apply IH; auto.
Qed.

Lemma dec_bytes_like t b :
  t = TBytes b \/ t = TString b -> dec_ok t.
Proof.
  intros Hk v bs loc Hwf Hin Hsmall Hat.
  assert (exists bs0, v = VBytes bs0 /\ zlen bs0 <= b) as (bs0 & -> & Hl).
  { destruct Hk as [-> | ->]; destruct v; cbn [in_type] in Hin; try discriminate;
      apply andb_prop in Hin as [Hl _]; eexists; split; try reflexivity; lia. }
  assert (Henc : enc t (VBytes bs0) = word (zlen bs0) ++ bs0 ++ zeros (pad32 (zlen bs0)))
    by (destruct Hk as [-> | ->]; reflexivity).
  assert (Hdec : dec_at_g padd t bs loc = (let n := rd bs loc in
             if n <=? b then Some (VBytes (slice bs (padd loc 32) n)) else None))
    by (destruct Hk as [-> | ->]; reflexivity).
  rewrite Henc in Hat. rewrite Hdec. cbn zeta.
  pose proof (at_pos_len _ _ _ Hat) as [H0 Hlen]. rewrite !zlen_app, zlen_word in Hlen.
  pose proof (zlen_nonneg bs0). pose proof (zlen_nonneg (zeros (pad32 (zlen bs0)))).
  rewrite (at_pos_rd _ _ _ (at_pos_app_l _ _ _ _ Hat)), Z.mod_small by lia.
  destruct (Z.leb_spec (zlen bs0) b); [|lia].
  rewrite padd_small by lia.
  pose proof (at_pos_app_r _ _ _ _ Hat) as HR. rewrite zlen_word in HR.
  rewrite (at_pos_slice _ _ _ (at_pos_app_l _ _ _ _ HR)). reflexivity.
Qed.

Theorem dec_at_enc : forall t, dec_ok t.
Proof.
  induction t using ty_ind'.
  - apply dec_unsigned. left. eauto.
  - apply dec_signed. left. eauto.
  - apply dec_unsigned. auto.
  - apply dec_unsigned. auto.
  - (* bytesM *)
    intros v bs loc Hwf Hin Hsmall Hat.
    destruct v as [|bs0|]; try (cbn in Hin; discriminate).
    pose proof (in_type_bytesM _ _ Hin) as Hl. cbn [enc dec_at_g wf_ty] in *.
    pose proof (at_pos_slice _ _ _ Hat) as Hs. rewrite zlen_app, zlen_zeros in Hs.
    replace (zlen bs0 + Z.max 0 (32 - zlen bs0)) with 32 in Hs by lia.
    rewrite Hs. rewrite <- Hl, to_nat_zlen, skipn_len_app, firstn_len_app, forallb_zeros. reflexivity.
  - apply dec_signed. auto.
  - apply dec_unsigned. right. right. right. eauto.
  - apply (dec_bytes_like _ b). auto.
  - apply (dec_bytes_like _ b). auto.
  - (* sarr *)
    intros v bs loc Hwf Hin Hsmall Hat.
    destruct v as [| |vs]; try (cbn in Hin; discriminate).
    cbn [in_type wf_ty enc dec_at_g] in *. apply andb_prop in Hin as [Hn Hall]. apply andb_prop in Hwf as [Hn1 Hwf].
    assert (Hn' : Z.to_nat n = length vs) by (rewrite <- to_nat_zlen; f_equal; lia). rewrite Hn'.
    rewrite (run_seq_enc_seq _ _ vs bs loc Hsmall Hat). reflexivity.
    apply arr_forall3; auto. apply Forall_forall. rewrite forallb_forall in Hall. auto.
  - (* darr *)
    intros v bs loc Hwf Hin Hsmall Hat.
    destruct v as [| |vs]; try (cbn in Hin; discriminate).
    cbn [in_type wf_ty enc dec_at_g] in *. apply andb_prop in Hin as [Hn Hall]. apply andb_prop in Hwf as [Hn1 Hwf].
    pose proof (at_pos_len _ _ _ Hat) as [H0 Hlen]. rewrite zlen_app, zlen_word in Hlen.
    pose proof (zlen_nonneg vs). pose proof (zlen_nonneg (enc_seq (map (fun x => (is_dynamic t, enc t x)) vs))).
    rewrite (at_pos_rd _ _ _ (at_pos_app_l _ _ _ _ Hat)), Z.mod_small by lia.
    destruct (Z.leb_spec (zlen vs) b); [|lia].
    rewrite to_nat_zlen. rewrite padd_small by lia.
    pose proof (at_pos_app_r _ _ _ _ Hat) as HR. rewrite zlen_word in HR.
    rewrite (run_seq_enc_seq _ _ vs bs (loc + 32) Hsmall HR). reflexivity.
    apply arr_forall3; auto. apply Forall_forall. rewrite forallb_forall in Hall. auto.
  - (* tuple *)
    intros v bs loc Hwf Hin Hsmall Hat.
    destruct v as [| |vs]; try (cbn in Hin; discriminate).
    cbn [in_type wf_ty enc dec_at_g] in *.
    rewrite (run_seq_enc_seq _ _ vs bs loc Hsmall Hat). reflexivity.
    apply tuple_forall3; auto.
Qed.

End Generic.

(* instances: unbounded positions, and EVM (wrapping) pointer arithmetic *)
Theorem dec_at_enc_spec : forall t v bs loc, wf_ty t = true -> in_type t v = true -> zlen bs < W256 ->
  at_pos bs loc (enc t v) -> dec_at t bs loc = Some v.
Proof. intros t. apply (dec_at_enc Z.add). intros. reflexivity. Qed.

Theorem dec_follow_enc : forall t v bs loc, wf_ty t = true -> in_type t v = true -> zlen bs < W256 ->
  at_pos bs loc (enc t v) -> dec_follow t bs loc = Some v.
Proof.
  intros t. apply (dec_at_enc wadd). intros a b Ha Hb Hs. unfold wadd. apply Z.mod_small. lia.
Qed.

(* ---------- strict decoder ---------- *)
Lemma list_eqb_refl l : list_eqb l l = true.
Proof. induction l; cbn; auto. rewrite Z.eqb_refl. auto. Qed.
Lemma list_eqb_eq a b : list_eqb a b = true -> a = b.
Proof.
  revert b. induction a; destruct b; cbn; intro H; try discriminate; auto.
  apply andb_prop in H as [H1 H2]. f_equal. lia. auto.
Qed.

Theorem enc_dec_roundtrip : forall t v,
  wf_ty t = true -> in_type t v = true -> zlen (enc t v) < W256 -> dec t (enc t v) = Some v.
Proof.
  intros t v Hwf Hin Hs. unfold dec.
  rewrite (dec_at_enc_spec t v (enc t v) 0 Hwf Hin Hs (at_pos_refl _)), Hin, list_eqb_refl. reflexivity.
Qed.

Corollary enc_dec_roundtrip_bound : forall t v,
  wf_ty t = true -> in_type t v = true -> size_bound t < W256 -> dec t (enc t v) = Some v.
Proof.
  intros t v Hwf Hin Hs. apply enc_dec_roundtrip; auto.
  pose proof (enc_len_le_size_bound t v Hwf Hin). lia.
Qed.

(* the strict decoder accepts only canonical encodings of in-type values *)
Theorem dec_strict_sound : forall t bs v, dec t bs = Some v -> enc t v = bs /\ in_type t v = true.
Proof.
  intros t bs v. unfold dec. destruct (dec_at t bs 0) as [v'|]; [|discriminate].
  destruct (in_type t v') eqn:Hin; cbn [andb]; [|discriminate].
  destruct (list_eqb (enc t v') bs) eqn:He; [|discriminate].
  intro H. injection H as <-. split; auto. now apply list_eqb_eq.
Qed.

Theorem enc_injective : forall t v1 v2,
  wf_ty t = true -> in_type t v1 = true -> in_type t v2 = true -> zlen (enc t v1) < W256 ->
  enc t v1 = enc t v2 -> v1 = v2.
Proof.
  intros t v1 v2 Hwf H1 H2 Hs E.
  pose proof (enc_dec_roundtrip t v1 Hwf H1 Hs) as R1.
  assert (Hs2 : zlen (enc t v2) < W256) by (rewrite <- E; exact Hs).
  pose proof (enc_dec_roundtrip t v2 Hwf H2 Hs2) as R2.
  rewrite E in R1. rewrite R1 in R2. now injection R2.
Qed.

(* ---------- wrapping a single value in a 1-tuple (external returns, abi_encode default, reasons) ---------- *)
Theorem enc_wrap1 : forall t v,
  enc (TTuple [t]) (VList [v]) = if is_dynamic t then word 32 ++ enc t v else enc t v.
Proof.
  intros t v. cbn [enc map zip_apply]. unfold enc_seq. cbn [heads tails head_len].
  destruct (is_dynamic t); cbn [heads tails head_len]; now rewrite ?app_nil_r.
Qed.

(* Error(string) payload after the 4-byte selector: offset 32, length, data, zero padding *)
Corollary reason_layout : forall b data,
  enc (TTuple [TString b]) (VList [VBytes data]) = word 32 ++ word (zlen data) ++ data ++ zeros (pad32 (zlen data)).
Proof. intros. rewrite enc_wrap1. reflexivity. Qed.
