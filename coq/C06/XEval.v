(* C06 extension (session 3): executable semantics for the encoder templates whose SOURCE is storage, calldata or
   pre-cancun memory.  Extends SxEval.ev (legacy IR) and VxEval.exec1 (venom) by
     sload (read-only storage  Z -> Z),  calldataload / calldatacopy from a calldata image (zero past its end),
     gas,  staticcall to the identity precompile (address 4; copies min(argsLen, retLen) bytes, returns 1).
   The encoder templates never write storage.  Harness only; no proofs in this file. *)
From Coq Require Import ZArith List Bool String.
From Verif Require Import Base.Word256 C06.Abi C06.ZeroPad C06.Sexp C06.SxEval C06.VxEval.
Import ListNotations.
Open Scope string_scope.
Open Scope list_scope.
Open Scope Z_scope.

Record xenv := mkX { x_sto : Z -> Z; x_cd : mem }.

Definition identity_call (m : mem) (ao al ro rl : Z) : mem := mwrite m ro (mread m ao (Z.to_nat (Z.min al rl))).

(* repeat: [evb] evaluates the body; the loop variable is pushed on / popped from the environment each iteration *)
Fixpoint rep_loop (evb : st -> res (Z * st)) (i : string) (k : nat) (j : Z) (s : st) : res (Z * st) :=
  match k with
  | O => RVal (0, s)
  | S k' => match evb (mkSt ((i, j) :: s_env s) (s_mem s)) with
            | RVal (_, s2) => rep_loop evb i k' (j + 1) (mkSt (tl (s_env s2)) (s_mem s2))
            | o => o end
  end.

Fixpoint evx (X : xenv) (fuel : nat) (e : sx) (s : st) : res (Z * st) :=
  match fuel with
  | O => RFuel
  | S fu =>
      let evl := (fix evl (l : list sx) (s : st) : res (list Z * st) :=
                    match l with
                    | [] => RVal ([], s)
                    | x :: r => match evx X fu x s with
                                | RVal (v, s1) => match evl r s1 with
                                                  | RVal (vs, s2) => RVal (v :: vs, s2)
                                                  | RRevert => RRevert | RFuel => RFuel | RStuck w => RStuck w end
                                | RRevert => RRevert | RFuel => RFuel | RStuck w => RStuck w
                                end
                    end) in
      match e with
      | SI n => RVal (n mod W, s)
      | SS x =>
          if String.eqb x "seq" then RVal (0, s)
          else if String.eqb x "calldatasize" then RVal (MEMLIM, s)     (* the image is zero from its end on *)
          else if String.eqb x "gas" then RVal (1000000, s)
          else match lookup (s_env s) x with Some v => RVal (v, s) | None => RStuck ("unbound " ++ x) end
      | SL (SS f :: args) =>
          if String.eqb f "seq" then
            match evl args s with
            | RVal (vs, s1) => RVal (last vs 0, s1)
            | RRevert => RRevert | RFuel => RFuel | RStuck w => RStuck w end
          else if String.eqb f "with" then
            match args with
            | [SS x; e1; body] =>
                match evx X fu e1 s with
                | RVal (v, s1) =>
                    match evx X fu body (mkSt ((x, v) :: s_env s1) (s_mem s1)) with
                    | RVal (r, s2) => RVal (r, mkSt (tl (s_env s2)) (s_mem s2))
                    | o => o end
                | o => o end
            | _ => RStuck "with" end
          else if String.eqb f "set" then
            match args with
            | [SS x; e1] =>
                match evx X fu e1 s with
                | RVal (v, s1) => match update (s_env s1) x v with
                                  | Some e' => RVal (0, mkSt e' (s_mem s1)) | None => RStuck ("set " ++ x) end
                | o => o end
            | _ => RStuck "set" end
          else if String.eqb f "assert" then
            match args with
            | [c] => match evx X fu c s with RVal (v, s1) => if v =? 0 then RRevert else RVal (0, s1) | o => o end
            | _ => RStuck "assert" end
          else if String.eqb f "repeat" then
            match args with
            | [SS i; SI start; cnt; SI bound; body] =>
                match evx X fu cnt s with
                | RVal (c, s1) =>
                    if bound <? c then RRevert else
                    rep_loop (evx X fu body) i (Z.to_nat c) start s1
                | o => o end
            | _ => RStuck "repeat" end
          else
            match evl args s with
            | RVal (vs, s1) =>
                let m := s_mem s1 in
                match vs with
                | [a] =>
                    if String.eqb f "mload" then (if a + 32 <=? MEMLIM then RVal (mloadw m a, s1) else RRevert)
                    else if String.eqb f "sload" then RVal (x_sto X a mod W, s1)
                    else if String.eqb f "calldataload" then RVal (mloadw (x_cd X) a, s1)
                    else if String.eqb f "iszero" then RVal (w_iszero a, s1)
                    else if String.eqb f "ceil32" then RVal (((a + 31) / 32 * 32) mod W, s1)
                    else RStuck ("op1 " ++ f)
                | [a; b] =>
                    if String.eqb f "mstore" then
                      (if a + 32 <=? MEMLIM then RVal (0, mkSt (s_env s1) (mwrite m a (word b))) else RRevert)
                    else match binop f a b with Some v => RVal (v, s1) | None => RStuck ("op2 " ++ f) end
                | [a; b; c] =>
                    if String.eqb f "mcopy" then
                      (if (a + c <=? MEMLIM) && (b + c <=? MEMLIM) then RVal (0, mkSt (s_env s1) (mcopy m a b c)) else RRevert)
                    else if String.eqb f "calldatacopy" then
                      (if a + c <=? MEMLIM then RVal (0, mkSt (s_env s1) (mwrite m a (mread (x_cd X) b (Z.to_nat c)))) else RRevert)
                    else RStuck ("op3 " ++ f)
                | [g; addr; ao; al; ro; rl] =>
                    if String.eqb f "staticcall" then
                      (if negb (addr =? 4) then RStuck "staticcall target"
                       else if (ao + al <=? MEMLIM) && (ro + rl <=? MEMLIM)
                            then RVal (1, mkSt (s_env s1) (identity_call m ao al ro rl)) else RRevert)
                    else RStuck ("op6 " ++ f)
                | _ => RStuck ("arity " ++ f)
                end
            | RRevert => RRevert | RFuel => RFuel | RStuck w => RStuck w end
      | SL _ => RStuck "head"
      end
  end.

(* ---------- venom ---------- *)
Definition exec1x (X : xenv) (i : sx) (s : vst) : step :=
  match i with
  | SL (out :: SS opc :: args) =>
      if String.eqb opc "gas" then Next (bind_out out 1000000 s)
      else if String.eqb opc "sload" then
        match opvals (v_env s) args with
        | Some [a] => Next (bind_out out (x_sto X a mod W) s) | _ => Stuck "sload" end
      else if String.eqb opc "calldataload" then
        match opvals (v_env s) args with
        | Some [a] => Next (bind_out out (mloadw (x_cd X) a) s) | _ => Stuck "calldataload" end
      else if String.eqb opc "staticcall" then
        match opvals (v_env s) args with
        | Some [g; addr; ao; al; ro; rl] =>
            if negb (addr =? 4) then Stuck "staticcall target"
            else if (ao + al <=? MEMLIM) && (ro + rl <=? MEMLIM)
                 then Next (bind_out out 1 (mkV (v_env s) (identity_call (v_mem s) ao al ro rl) (v_brk s) (v_params s)))
                 else Rev
        | _ => Stuck "staticcall" end
      else exec1 i s
  | _ => exec1 i s
  end.

Fixpoint vrunx (X : xenv) (fuel : nat) (fn : sx) (ins : list sx) (s : vst) : res (Z * vst) :=
  match fuel with
  | O => RFuel
  | S fu =>
      match ins with
      | [] => RStuck "fell off block"
      | i :: r =>
          match exec1x X i s with
          | Next s1 => vrunx X fu fn r s1
          | Jump l s1 => match find_block fn l with Some b => vrunx X fu fn b s1 | None => RStuck ("label " ++ l) end
          | Halt v s1 => RVal (v, s1)
          | Rev => RRevert
          | Stuck w => RStuck w
          end
      end
  end.

Definition vstartx (X : xenv) (fn : sx) (params : list Z) (m : mem) : res (Z * vst) :=
  match fn with
  | SL (SL [SS _; SL ins] :: _) => vrunx X (Z.to_nat 40000) fn ins (mkV [] m 2097152 params)
  | _ => RStuck "function"
  end.

(* ---------- sources ---------- *)
Fixpoint words_of (fuel : nat) (l : list Z) : list Z :=
  match fuel, l with
  | S f, _ :: _ => unbe (firstn 32 l) :: words_of f (skipn 32 l)
  | _, _ => []
  end.
(* storage holding the byte layout [l] from slot [s0] on (slot s0 + i = bytes [32 i, 32 i + 32)); 0xBB..BB elsewhere *)
Definition DIRTYW : Z := unbe (repeat 187 32).
Definition sto_of (l : list Z) (s0 : Z) : Z -> Z :=
  let ws := words_of (S (List.length l / 32)) l in
  fun a => if (s0 <=? a) && (a <? s0 + zlen ws) then nth (Z.to_nat (a - s0)) ws 0 else DIRTYW.
(* calldata image: selector-sized prefix, the layout at offset 4, zero after the end *)
Definition cd_of (l : list Z) : mem := fun a => if (4 <=? a) && (a <? 4 + zlen l) then nth (Z.to_nat (a - 4)) l 0 else 0.

Definition SLOT0 : Z := 7777.
Definition noX : xenv := mkX (fun _ => DIRTYW) (fun _ => 0).

Definition accept (t : ty) (v : val) (m0 m : mem) (len : Z) : Z :=
  if (len =? zlen (enc t v)) && list_eqb (mread m DST (Z.to_nat len)) (enc t v) &&
     list_eqb (mread m (DST - 64) 64) (mread m0 (DST - 64) 64) &&
     list_eqb (mread m (DST + size_bound t) 64) (mread m0 (DST + size_bound t) 64)
  then 1 else 0.

(* legacy template, source in STORAGE at slot SLOT0 (dirty bytes 0xEE in every slack position, dirty memory) *)
Definition run_enc_l_sto (tpl : sx) (t : ty) (v : val) : Z :=
  let m0 : mem := fun _ => 171 in
  match evx (mkX (sto_of (vylayout 238 t v) SLOT0) (fun _ => 0)) (Z.to_nat 4000) tpl (mkSt [("src", SLOT0); ("dst", DST)] m0) with
  | RVal (len, s) => accept t v m0 (s_mem s) len
  | RRevert => -1 | RFuel => -2 | RStuck _ => -3
  end.
(* legacy template, source in CALLDATA at offset 4 *)
Definition run_enc_l_cd (tpl : sx) (t : ty) (v : val) : Z :=
  let m0 : mem := fun _ => 171 in
  match evx (mkX (fun _ => DIRTYW) (cd_of (vylayout 238 t v))) (Z.to_nat 4000) tpl (mkSt [("src", 4); ("dst", DST)] m0) with
  | RVal (len, s) => accept t v m0 (s_mem s) len
  | RRevert => -1 | RFuel => -2 | RStuck _ => -3
  end.
(* legacy template, memory source, pre-cancun opcodes *)
Definition run_enc_l_pre (tpl : sx) (t : ty) (v : val) : Z :=
  let m0 := mwrite (fun _ => 171) SRC (vylayout 238 t v) in
  match evx noX (Z.to_nat 4000) tpl (mkSt [("src", SRC); ("dst", DST)] m0) with
  | RVal (len, s) => accept t v m0 (s_mem s) len
  | RRevert => -1 | RFuel => -2 | RStuck _ => -3
  end.
(* venom template, memory source, pre-cancun *)
Definition run_enc_v_pre (tpl : sx) (t : ty) (v : val) : Z :=
  let m0 := mwrite (fun _ => 171) SRC (vylayout 238 t v) in
  match vstartx noX tpl [SRC; DST] m0 with
  | RVal (len, s) => accept t v m0 (v_mem s) len
  | RRevert => -1 | RFuel => -2 | RStuck _ => -3
  end.
(* venom: load_storage_to_memory(slot) ; abi_encode_to_buf(dst, buf) *)
Definition run_enc_v_sto (tpl : sx) (t : ty) (v : val) : Z :=
  let m0 : mem := fun _ => 171 in
  match vstartx (mkX (sto_of (vylayout 238 t v) SLOT0) (fun _ => 0)) tpl [SLOT0; DST] m0 with
  | RVal (len, s) => accept t v m0 (v_mem s) len
  | RRevert => -1 | RFuel => -2 | RStuck _ => -3
  end.
