(* C06: parametric model of the LEGACY ABI encoder as a TEMPLATE GENERATOR: the IR that
   vyper/codegen/abi_encoder.py:abi_encode emits for a memory source (EVM >= cancun, -O gas), as a function of the
   type shape.  Tied syntactically to the real generator over a shape family in TieEncL.v.
   Mirrors: abi_encode, _encode_child_helper, _encode_dyn_array_helper, make_setter (static / bytestring,
   memory to memory), _complex_make_setter batch copy, copy_bytes, make_byte_array_copier (incl. the
   copy-the-maximum heuristic for maxlen <= 96), zero_pad, cache_when_complex, get_element_ptr / add_ofst. *)
From Coq Require Import ZArith List Bool String Ascii.
From Verif Require Import C06.Abi C06.Sexp.
Import ListNotations.
Open Scope string_scope.
Open Scope list_scope.
Open Scope Z_scope.

(* ---------- decimal names ---------- *)
Definition digit (n : Z) : string := String (ascii_of_nat (48 + Z.to_nat n)) EmptyString.
Fixpoint dec_str (fuel : nat) (n : Z) : string :=
  match fuel with
  | O => ""%string
  | S f => if n <? 10 then digit n else (dec_str f (n / 10) ++ digit (n mod 10))%string
  end.
Definition zname (p : string) (n : Z) : string := (p ++ dec_str 20 n)%string.

(* ---------- the part of the IR optimiser that decides whether an expression is "complex" ---------- *)
Fixpoint simp (e : sx) : sx :=
  match e with
  | SL [SS f; a; b] =>
      let a' := simp a in let b' := simp b in
      if String.eqb f "add" then
        match a', b' with
        | SI x, SI y => SI (x + y)
        | x, SI 0 => x
        | SI 0, y => y
        | _, _ => SL [SS f; a'; b']
        end
      else if String.eqb f "mul" then
        match a', b' with
        | SI x, SI y => SI (x * y)
        | _, SI 0 => SI 0
        | SI 0, _ => SI 0
        | x, SI 1 => x
        | SI 1, y => y
        | _, _ => SL [SS f; a'; b']
        end
      else e
  | _ => e
  end.
Definition complex (e : sx) : bool := match simp e with SL _ => true | _ => false end.

(* cache_when_complex: reference to use inside, and the wrapper *)
Definition cref (name : string) (e : sx) : sx := if complex e then SS name else e.
Definition cwrap (name : string) (e body : sx) : sx := if complex e then swith name e body else body.

Definition add_ofst (p o : sx) : sx := app2 "add" p o.

(* ---------- vyper memory sizes ---------- *)
Fixpoint vmem_size (t : ty) : Z :=
  match t with
  | TBytes b | TString b => 32 + ceil32 b
  | TSArr t' n => n * vmem_size t'
  | TDArr t' b => 32 + b * vmem_size t'
  | TTuple ts => fold_right (fun t' acc => vmem_size t' + acc) 0 ts
  | _ => 32
  end.

Definition is_word (t : ty) : bool :=
  match t with TSArr _ _ | TDArr _ _ | TTuple _ | TBytes _ | TString _ => false | _ => true end.

(* copy_bytes(dst, src, length, length_bound), memory to memory *)
Definition copy_bytes (dst src len : sx) (bound : Z) : sx :=
  if bound =? 0 then sseq [] else
  match len with SI 0 => sseq [] | _ =>
    let s := cref "src" src in
    let l := cref "copy_bytes_count" len in
    let d := cref "dst" dst in
    let op := if bound <=? 32 then app2 "mstore" d (app1 "mload" s) else app3 "mcopy" d s l in
    cwrap "src" src (cwrap "copy_bytes_count" len (cwrap "dst" dst op))
  end.

(* make_setter(dst, src) for a STATIC type, memory to memory, no clamps *)
Definition setter_static (t : ty) (dst src : sx) : sx :=
  if is_word t then app2 "mstore" dst (app1 "mload" src)
  else let r := cref "c_right" src in
       cwrap "c_right" src (sseq [copy_bytes dst r (SI (vmem_size t)) (vmem_size t)]).

(* make_byte_array_copier(dst, src) *)
Definition bytes_copier (b : Z) (dst src : sx) : sx :=
  let s := cref "src" src in
  let maxb := b + 32 in
  let len := if ceil32 b * 3 / 32 <=? 9 then SI maxb else add_ofst (app1 "mload" s) (SI 32) in
  cwrap "src" src (copy_bytes dst s len maxb).

Definition zero_pad (d : sx) : sx :=
  swith "len" (app1 "mload" d)
        (swith "dst" (add_ofst (add_ofst d (SI 32)) (SS "len"))
               (app3 "calldatacopy" (SS "dst") (SS "calldatasize") (app2 "mod" (app2 "sub" (SI 0) (SS "len")) (SI 32)))).

(* abi_encode(dst, src, returns_len), threading the fresh-name counter *)
Fixpoint lenc (t : ty) (src dst : sx) (rl : bool) (n : Z) : sx * Z :=
  if negb (is_dynamic t) then
    (sseq (setter_static t dst src :: (if rl then [SI (emb_static t)] else [])), n)
  else
    let s := cref "to_encode" src in
    let d := cref "dst" dst in
    let wrap (body : sx) := cwrap "to_encode" src (cwrap "dst" dst body) in
    match t with
    | TBytes b | TString b =>
        (wrap (sseq ([bytes_copier b d s; zero_pad d] ++
                     (if rl then [app1 "ceil32" (app2 "add" (SI 32) (app1 "mload" d))] else []))), n)
    | TDArr t' b =>
        let n1 := n + 1 in
        let ix := SS (zname "ix" n1) in
        let es := emb_static t' in
        let child_src := add_ofst (add_ofst s (SI 32)) (app2 "mul" ix (SI (vmem_size t'))) in
        let buf := add_ofst d (SI 32) in
        let static_loc := add_ofst buf (app2 "mul" ix (SI es)) in
        let '(body, n2) :=
          if is_dynamic t' then
            let '(c, n2) := lenc t' child_src (app2 "add" buf (SS "dyn_child_ofst")) true n1 in
            (sseq [app2 "mstore" static_loc (SS "dyn_child_ofst");
                   SL [SS "set"; SS "dyn_child_ofst"; app2 "add" (SS "dyn_child_ofst") c]], n2)
          else
            let '(c, n2) := lenc t' child_src static_loc false n1 in (sseq [c], n2) in
        let loop := SL [SS "repeat"; ix; SI 0; SS "len"; SI b; body] in
        let run := swith "dyn_child_ofst" (app2 "mul" (SS "len") (SI es)) (sseq [loop; SS "dyn_child_ofst"]) in
        let helper :=
          swith "len" (app1 "mload" s)
                (sseq [app2 "mstore" d (SS "len");
                       SL [SS "set"; SS "dyn_ofst"; app2 "add" (SI 32) (app2 "add" (SS "dyn_ofst") run)]]) in
        (wrap (swith "dyn_ofst" (SI 0) (SL (SS "seq" :: helper :: (if rl then [SS "dyn_ofst"] else [])))), n2)
    | TSArr t' cnt =>
        let '(items, n2) :=
          (fix go (k : nat) (i so : Z) (n : Z) : list sx * Z :=
             match k with
             | O => ([], n)
             | S k' =>
                 let child_src := add_ofst s (app2 "mul" (SI i) (SI (vmem_size t'))) in
                 let static_loc := add_ofst d (SI so) in
                 let '(c, n1) := lenc t' child_src (app2 "add" d (SS "dyn_ofst")) true n in
                 let '(r, n2) := go k' (i + 1) (so + emb_static t') n1 in
                 (SS "seq" :: app2 "mstore" static_loc (SS "dyn_ofst")
                     :: SL [SS "set"; SS "dyn_ofst"; app2 "add" (SS "dyn_ofst") c] :: r, n2)
             end) (Z.to_nat cnt) 0 0 n in
        (wrap (swith "dyn_ofst" (SI (static_size t))
                     (SL (SS "seq" :: items ++ (if rl then [SS "dyn_ofst"] else [])))), n2)
    | TTuple ts =>
        let '(items, n2) :=
          (fix go (ts : list ty) (mo so : Z) (n : Z) : list sx * Z :=
             match ts with
             | [] => ([], n)
             | t' :: r =>
                 let child_src := add_ofst s (SI mo) in
                 let static_loc := add_ofst d (SI so) in
                 if is_dynamic t' then
                   let '(c, n1) := lenc t' child_src (app2 "add" d (SS "dyn_ofst")) true n in
                   let '(rest, n2) := go r (mo + vmem_size t') (so + emb_static t') n1 in
                   (SS "seq" :: app2 "mstore" static_loc (SS "dyn_ofst")
                       :: SL [SS "set"; SS "dyn_ofst"; app2 "add" (SS "dyn_ofst") c] :: rest, n2)
                 else
                   let '(c, n1) := lenc t' child_src static_loc false n in
                   let '(rest, n2) := go r (mo + vmem_size t') (so + emb_static t') n1 in
                   (SS "seq" :: c :: rest, n2)
             end) ts 0 0 n in
        (wrap (swith "dyn_ofst" (SI (static_size t))
                     (SL (SS "seq" :: items ++ (if rl then [SS "dyn_ofst"] else [])))), n2)
    | _ => (sseq [], n)
    end.

Definition tpl_enc_l (t : ty) : sx := fst (lenc t (SS "src") (SS "dst") true 0).
