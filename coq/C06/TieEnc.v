(* C06 O-tie: the IR templates OBSERVED from the real encoders of this /repo (GenTplEncL.v, GenTplEncV.v, regenerated
   every run by tools/vlib/c06_tpl.py) are syntactically the output of the Coq template generators, for the whole
   shape family. *)
From Coq Require Import ZArith List String Bool.
From Verif Require Import C06.Abi C06.Sexp C06.TplEncL C06.TplEncV C06.GenTplEncL C06.GenTplEncV.
Import ListNotations.
Open Scope Z_scope.

Theorem tie_enc_legacy : forallb (fun p => sx_eqb (tpl_enc_l (fst p)) (snd p)) obs_enc_l = true.
Proof. vm_compute. reflexivity. Qed.
Theorem tie_enc_venom : forallb (fun p => sx_eqb (tpl_enc_v (fst p)) (snd p)) obs_enc_v = true.
Proof. vm_compute. reflexivity. Qed.
(* both tables are over the same, non-trivial family *)
Theorem enc_family : (100 <=? zlen obs_enc_l) = true /\ zlen obs_enc_l = zlen obs_enc_v.
Proof. vm_compute. split; reflexivity. Qed.
