(* C06 property theorems.  Size statements are about g_* = the functions regenerated from
   vyper/abi_types.py in this run (GenAbiSizes.v). *)
From Coq Require Import ZArith List Bool Lia.
From Verif Require Import C06.Abi C06.AbiLemmas C06.Roundtrip C06.ZeroPad C06.Venc C06.VencProofs C06.GenAbiSizes C06.SizesTie.
From Verif Require Import C06.Sexp C06.SxEval C06.Widen C06.WidenProofs.
Import ListNotations.
Open Scope Z_scope.

(* the strict decoder inverts the canonical encoder on every well-typed value *)
Theorem enc_dec_roundtrip : forall t v,
  wf_ty t = true -> in_type t v = true -> zlen (enc t v) < 2 ^ 256 -> dec t (enc t v) = Some v.
Proof. exact Roundtrip.enc_dec_roundtrip. Qed.
Print Assumptions enc_dec_roundtrip.

(* ... and accepts nothing but canonical encodings of in-type values; hence enc is injective *)
Theorem dec_accepts_only_canonical : forall t bs v, dec t bs = Some v -> enc t v = bs /\ in_type t v = true.
Proof. exact dec_strict_sound. Qed.
Print Assumptions dec_accepts_only_canonical.

Theorem enc_injective : forall t v1 v2,
  wf_ty t = true -> in_type t v1 = true -> in_type t v2 = true -> zlen (enc t v1) < 2 ^ 256 ->
  enc t v1 = enc t v2 -> v1 = v2.
Proof. exact Roundtrip.enc_injective. Qed.
Print Assumptions enc_injective.

(* buffers sized with the compiler's size_bound() are large enough for every canonical encoding *)
Theorem enc_len_le_size_bound : forall t v,
  wf_ty t = true -> in_type t v = true -> zlen (enc t v) <= g_size_bound t.
Proof. intros. rewrite g_size_bound_eq. now apply AbiLemmas.enc_len_le_size_bound. Qed.
Print Assumptions enc_len_le_size_bound.

(* for static types the encoding has exactly the compiler's static_size() bytes *)
Theorem enc_head_len : forall t v,
  wf_ty t = true -> in_type t v = true -> g_is_dynamic t = false -> zlen (enc t v) = g_static_size t.
Proof. intros t v Hw Hi Hd. rewrite g_is_dynamic_eq in Hd. rewrite g_static_size_eq. now apply enc_len_static. Qed.
Print Assumptions enc_head_len.

Theorem enc_len_word_aligned : forall t v, wf_ty t = true -> in_type t v = true -> (zlen (enc t v)) mod 32 = 0.
Proof. exact enc_len_mod32. Qed.

(* zero padding: arithmetic, and canonical bytes for ALL prior memory contents (both implementations) *)
Theorem zero_pad_spec :
  (forall len, (- len) mod 32 = ceil32 len - len /\ 0 <= (- len) mod 32 < 32 /\ (len + (- len) mod 32) mod 32 = 0) /\
  (forall (m : mem) dst data,
      mread m dst 32 = word (zlen data) -> mread m (dst + 32) (length data) = data ->
      let m' := mzero m (dst + 32 + zlen data) (pad32 (zlen data)) in
      mread m' dst (32 + length data + Z.to_nat (pad32 (zlen data))) = enc_bytes data /\
      (forall a, ~ (dst + 32 + zlen data <= a < dst + 32 + ceil32 (zlen data)) -> m' a = m a)) /\
  (forall (m : mem) dst data,
      let m2 := mwrite (mzero m (dst + ceil32 (zlen data)) 32) dst (word (zlen data) ++ data) in
      mread m2 dst (32 + length data + Z.to_nat (pad32 (zlen data))) = enc_bytes data /\
      (forall a, ~ (dst <= a < dst + 32 + ceil32 (zlen data)) -> m2 a = m a)).
Proof.
  split; [exact zero_pad_arith|]. split; [exact zero_pad_spec_legacy | exact zero_pad_spec_venom].
Qed.
Print Assumptions zero_pad_spec.

(* the venom encoder's last-word offset (len+31) & ~31 is ceil32 len *)
Theorem zero_pad_venom_offset : forall len, 0 <= len -> len + 31 < 2 ^ 256 ->
  Z.land (len + 31) (2 ^ 256 - 32) = ceil32 len.
Proof. exact venom_last_word_offset. Qed.

(* wrapping in a 1-tuple (external return of a non-tuple, abi_encode default, Error(string)) *)
Theorem external_return_wrap : forall t v,
  enc (TTuple [t]) (VList [v]) = if g_is_dynamic t then word 32 ++ enc t v else enc t v.
Proof. intros. rewrite g_is_dynamic_eq. apply enc_wrap1. Qed.
Theorem revert_reason_layout : forall b data,
  enc (TTuple [TString b]) (VList [VBytes data]) = word 32 ++ word (zlen data) ++ data ++ zeros (pad32 (zlen data)).
Proof. exact reason_layout. Qed.

(* ---- structural models of the two encoders (Venc.v): for ALL prior memory m, all destinations dst,
   and (legacy) all over-copied source junk J ---- *)
Theorem venc_correct_l : forall J t v m dst, wf_ty t = true -> in_type t v = true ->
  mreadz (fst (venc_l J t v m dst)) dst (snd (venc_l J t v m dst)) = enc t v.
Proof. intros J t v m dst Hw Hi. destruct (venc_l_spec J t v Hw Hi m dst) as (Hn & Hr & _). now rewrite Hn. Qed.
Theorem venc_correct_v : forall t v m dst, wf_ty t = true -> in_type t v = true ->
  mreadz (fst (venc_v t v m dst)) dst (snd (venc_v t v m dst)) = enc t v.
Proof. intros t v m dst Hw Hi. destruct (venc_v_spec t v Hw Hi m dst) as (Hn & Hr & _). now rewrite Hn. Qed.
Print Assumptions venc_correct_l.
Print Assumptions venc_correct_v.

Theorem venc_len : forall J t v m dst, wf_ty t = true -> in_type t v = true ->
  snd (venc_l J t v m dst) = zlen (enc t v) /\ snd (venc_v t v m dst) = zlen (enc t v).
Proof.
  intros J t v m dst Hw Hi. split.
  apply (venc_l_spec J t v Hw Hi m dst). apply (venc_v_spec t v Hw Hi m dst).
Qed.

(* nothing outside [dst, dst + size_bound) changes (size_bound = the compiler's, regenerated) *)
Theorem venc_confined : forall J t v m dst a, wf_ty t = true -> in_type t v = true ->
  a < dst \/ dst + g_size_bound t <= a ->
  fst (venc_l J t v m dst) a = m a /\ fst (venc_v t v m dst) a = m a.
Proof.
  intros J t v m dst a Hw Hi Ha. rewrite g_size_bound_eq in Ha. split.
  apply (venc_l_spec J t v Hw Hi m dst); exact Ha. apply (venc_v_spec t v Hw Hi m dst); exact Ha.
Qed.
Print Assumptions venc_confined.

(* ---- Venom layout normalisation (returning / assigning a value of a narrower compatible type where a wider type
   is declared; Widen.v models store_memory / _same_memory_layout / _store_memory_typed): for EVERY pair ts -> td with
   td a widening of ts, every in-type value laid out with ts's strides at src, and a disjoint destination, the
   normalisation does not revert, the destination read back with the DECLARED (wide) type gives the value, and
   nothing outside the destination changes.  The emitted IR is tied to Widen.store_memory by TieNorm.v. ---- *)
Theorem widen_normalises : forall ts td v (m : mem) src dst,
  wf_ty ts = true -> wf_ty td = true -> compat ts td = true -> in_type ts v = true ->
  vyread ts m src = v -> mem_ok m -> sep src (SxEval.vmem_size ts) dst (SxEval.vmem_size td) ->
  exists m', store_memory ts td m src dst = Some m' /\ vyread td m' dst = v /\ mem_ok m' /\
             (forall a, a < dst \/ dst + SxEval.vmem_size td <= a -> m' a = m a).
Proof. exact store_memory_correct. Qed.
Print Assumptions widen_normalises.

(* non-vacuity: a nested dynamic type with a negative int, an empty array and a 33-byte string *)
Definition T_ex := TTuple [TInt 8; TDArr (TString 33) 2; TSArr (TDArr (TUInt 256) 2) 2].
Definition V_ex := VList [VInt (-1); VList [VBytes (repeat 97 33); VBytes []]; VList [VList []; VList [VInt 5]]].
Example roundtrip_nonvacuous :
  wf_ty T_ex = true /\ in_type T_ex V_ex = true /\ zlen (enc T_ex V_ex) = 480 /\ g_size_bound T_ex = 640 /\
  dec T_ex (enc T_ex V_ex) = Some V_ex /\ g_is_dynamic (TSArr (TBytesM 3) 2) = false /\
  dec (TBytes 5) (word 1 ++ [7] ++ zeros 30 ++ [1]) = None.
Proof. vm_compute. repeat split; reflexivity. Qed.

Example venc_nonvacuous :
  list_eqb (run_enc (venc_l (fun _ => repeat 238 100) T_ex V_ex) 255 1000) (enc T_ex V_ex) = true /\
  list_eqb (run_enc (venc_v T_ex V_ex) 255 1000) (enc T_ex V_ex) = true.
Proof. vm_compute. split; reflexivity. Qed.

